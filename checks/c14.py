"""C14 — user-defined pools: unit <-> work-unit mapping.
Proof: Props/C14.lean over Model.UnitMap (sequential table with the real hash on UInt64; interleaving model of
the lock-free get against map/unmap) and Model.Assoc (create_unit/free_unit calls of every association change).
Correspondence: T2 differential, white-box on unit.c's static functions (harness/wb_unitmap.c vs `driver unitmap`)
and API level with two ABT_pool_user_def pools + one legacy ABT_pool_def pool (harness/api_userpool.c vs
`driver userpool`)."""
import collections, json
from vlib import common as C
from vlib import diff as D
from vlib import t1 as skel
from vlib import vs, t3_unitmap


def _retry(f, *a):
    """the shared `driver` executable disappears for a moment whenever somebody relinks it"""
    import time
    for _ in range(60):
        try:
            return f(*a)
        except FileNotFoundError:
            time.sleep(2)
    return f(*a)

T_IMPL = [20]     # seconds per run of a harness; shortened once the implementation was seen to hang


def _run_impl(exe, lines, timeout):
    """like D.run_lines but keeps what the harness printed before a time-out (its stdout is line buffered)"""
    import subprocess, os
    e = dict(os.environ)
    e.setdefault("ASAN_OPTIONS", "detect_leaks=0:abort_on_error=0")
    e.setdefault("UBSAN_OPTIONS", "print_stacktrace=1")
    p = subprocess.Popen([exe], stdin=subprocess.PIPE, stdout=subprocess.PIPE, stderr=subprocess.PIPE, env=e)
    try:
        out, err = p.communicate(("\n".join(lines) + "\n").encode(), timeout=timeout)
        rc = p.returncode
    except subprocess.TimeoutExpired:
        p.kill()
        out, err = p.communicate()
        rc = -999
    return rc, out.decode("utf-8", "replace").split("\n"), err.decode("utf-8", "replace")


def _cmp(model, exe, lines):
    """D.compare with a short time limit for the implementation (a hang is a result, not a reason to wait 2 minutes
    per shrinking step)"""
    rc_c, out_c, err_c = _run_impl(exe, lines, T_IMPL[0])
    if rc_c == -999:
        T_IMPL[0] = 6
        return {"kind": "impl-crash", "rc": rc_c, "stderr": "the implementation did not finish within the time limit (hang)",
                "impl_out_tail": out_c[-5:]}
    rc_m, out_m, err_m = _retry(D.model_lines, model, lines)
    if rc_m != 0:
        return {"kind": "model-driver-failed", "rc": rc_m, "stderr": err_m[-2000:]}
    if rc_c != 0:
        return {"kind": "impl-crash", "rc": rc_c, "stderr": err_c[-3000:], "impl_out_tail": out_c[-5:]}
    d = D.first_diff(out_c, out_m)
    if d is None:
        return None
    return {"kind": "output-differs", "line": d[0], "impl": d[1], "model": d[2]}


ASSUMPTIONS = [
    "user pools keep the contract of abt.h: create_unit returns ABT_UNIT_NULL or a handle with bit 0 clear that no OTHER work unit currently uses as unit (in any user pool: the table is global); different pools may hand out the same handle for the same work unit (e.g. its ABT_thread handle) - covered: unitmap_remap_same_unit, Legal in Proofs/Assoc, twin pools 5/6 of the API harness, remap ops of the white-box harness; free_unit/push/pop are only observed, not modelled",
    "duplicates in the table are modelled only in the form abti_unit.h can produce: map(u,t) while u->t is mapped, followed by one unmap(u); the table is not claimed to be a general multimap (two different work units under one handle)",
    "ABT_UNIT_NULL is a parameter of the model (0x7 in this build, generated); ABTI_UNIT_HASH_TABLE_SIZE_EXP is generated; sizeof(uintptr_t) = 8",
    "interleaving model of unit.c is sequentially consistent at the granularity of single loads/stores of cell fields; the relaxed/plain accesses of `unit`/`p_thread` are single steps (C11 data-race freedom of the plain `p_thread` access rests on the contract that a get(u) runs only after map(u) completed)",
    "client contract of the table is a hypothesis of unitmap_lockfree_get / unitmap_refines_map: no get(u) concurrent with unmap(u) or with the map(u) that creates it (guards of Model.UnitMap.Step)",
    "order of user callbacks vs. table operations: Model.Assoc logs, for every create_unit / free_unit event, how many table elements hold the handle at that instant; theorem assoc_handle_unmapped_when_recyclable; the API harness records the same count white-box inside its callbacks (read-only walk of p_global->unit_to_thread_entires) and the oracle requires it to equal the number of OTHER outstanding units with that handle (0 unless pools share a handle)",
    "T1: token-level skeletons of unit.c, the abti_unit.h inline functions and the thread.c/task.c/self.c/stream.c/ythread.c/pool.c callers are compared with the committed ones (skel/expected); a difference breaks the model=code obligation and triggers the enlarged search",
    "bucket-lock discipline: Model.UnitMap part 2 (proof: at most one bucket lock per caller, a lock holder is never blocked) and its projection Model.UnitMapLock; T3: harness/sc_unitmap.c under vsched (actors = OS threads; crosswise re-associations between two user pools, buckets determined with the runtime's own map/unmap) - every tas/clear of a bucket spinlock must be accepted by Model.UnitMapLock, a deadlock is detected exactly (exit 97) on the explored schedules; fairness of OS threads assumed for the liveness reading",
    "harness/xs_recycle.c (two execution streams, LIFO handle recycling across them) is a native search aid only: real preemptive interleavings are not enumerated",
    "association model treats each of init_pool / set_associated_pool / unset_associated_pool as atomic (a work unit's association is changed only by the stream that owns it at that moment: it is not in any pool while pushed/migrated)",
    "a work unit whose unit is ABT_UNIT_NULL (after unset) is outside the contract of set_associated_pool (Model.Assoc returns the build's actual behaviour but the theorems assume it does not happen)",
    "'work units execute exactly once whatever order a user pool or scheduler hands them out in' is checked dynamically only (entered/finished counters under a PRNG hand-out order, one execution stream); no theorem",
    "ABT_pool_push_threads (push_many) error path leaves earlier work units of the batch re-associated but not pushed (FIXME in pool.c); not exercised, not claimed",
    "API harness runs on the `plain` build (ASan rejects the fcontext switch at ULT exit); the white-box harness runs under ASan+UBSan",
    "T2 stress op (pthreads mapping/looking up/unmapping colliding units concurrently) is a sanity run of the real code, not an exploration of interleavings; all interleavings are covered by the proof on the model only",
]


T1_FUNCS = [("unit.c", f) for f in [
    "unit_get_hash_index", "unit_init_hash_table", "unit_finalize_hash_table", "unit_map_thread", "unit_unmap_thread",
    "unit_get_thread_from_user_defined_unit", "ABTI_unit_init_hash_table", "ABTI_unit_finalize_hash_table",
    "ABTI_unit_map_thread", "ABTI_unit_unmap_thread", "ABTI_unit_get_thread_from_user_defined_unit",
    "ABT_unit_get_thread", "ABT_unit_set_associated_pool",
    # abti_unit.h (inline; taken from the unit.c translation unit)
    "ABTI_unit_is_builtin", "ABTI_unit_get_builtin_unit", "ABTI_unit_init_builtin",
    "ABTI_unit_get_thread_from_builtin_unit", "ABTI_unit_get_thread", "ABTI_unit_set_associated_pool",
    "ABTI_thread_init_pool", "ABTI_thread_set_associated_pool", "ABTI_thread_unset_associated_pool"]] + [
    # callers that choose between them
    ("thread.c", "ABT_thread_set_associated_pool"), ("thread.c", "ABT_thread_get_unit"), ("thread.c", "thread_revive"),
    ("thread.c", "thread_free"), ("thread.c", "ythread_create"), ("thread.c", "ABTI_thread_handle_request_migrate"),
    ("task.c", "task_create"), ("self.c", "ABT_self_set_associated_pool"), ("self.c", "ABT_self_schedule"),
    ("stream.c", "ABT_xstream_run_unit"), ("ythread.c", "ABTI_ythread_callback_orphan"),
    ("ythread.c", "ABTI_ythread_schedule"), ("ythread.c", "ABTI_thread_handle_request"),
    ("pool/pool.c", "ABT_pool_push"), ("pool/pool.c", "pool_push_thread_ex"), ("pool/pool.c", "pool_push_threads_ex"),
    ("pool/pool.c", "pool_pop_wrapper"), ("pool/pool.c", "pool_pop_wait_wrapper"), ("pool/pool.c", "pool_pop_many_wrapper"),
    ("pool/pool.c", "pool_create_unit_wrapper"), ("pool/pool.c", "pool_free_unit_wrapper"),
    ("pool/pool.c", "ABTI_pool_pop_timedwait")]


def hidx(v, exp=8):
    m = (1 << 64) - 1
    b = v >> 3
    if exp <= 14:
        b = (b + (v >> (exp + 3))) & m
    if exp <= 9:
        b = (b + (v >> (exp * 2 + 3))) & m
    return b & ((1 << exp) - 1)


# --------------------------------------------------------------------------
# white-box table
# --------------------------------------------------------------------------
def unit_candidates(rng):
    """even non-NULL handles: many in buckets 1/2, some random 64-bit, some extreme"""
    cand = []
    v = 0
    while len(cand) < 14:
        v += 8
        if hidx(v) in (1, 2):
            cand.append(v)
    base = 1 << 40
    v = base
    while len(cand) < 20:
        v += 8
        if hidx(v) in (1, 2):
            cand.append(v)
    cand += [2, 0xFFFFFFFFFFFFFFF8, 0xFFFFFFFFFFFFFFFE, 1 << 63, (1 << 63) + 8, 0x8000000000000800]
    for _ in range(6):
        cand.append((rng.next() & ~1) or 2)
    return cand


def gen_unitmap(rng, nops, hist):
    lines = ["new"]
    cand = unit_candidates(rng)
    chains = collections.defaultdict(list)   # generator-side replica, only to keep the sequence legal
    mapped = {}

    def do_map(u, t, mem):
        c = chains[hidx(u)]
        for e in c:
            if e[0] is None:
                e[0], e[1] = u, t
                mapped[u] = t
                return
        if mem:
            c.insert(0, [u, t])
            mapped[u] = t
    for _ in range(nops):
        r = rng.below(100)
        free = [u for u in cand if u not in mapped]
        live = list(mapped)
        if r < 2:
            lines.append("new"); hist["new"] += 1
            chains.clear(); mapped.clear()
        elif r < 3:
            lines.append("stress %d %d %d" % (2 + rng.below(4), 2 + rng.below(10), 200)); hist["stress"] += 1
            chains.clear(); mapped.clear()
        elif r < 40 and free:
            u = rng.choice(free); t = 1 + rng.below(1000000)
            if rng.chance(1, 4):
                lines.append("mapf %d %d" % (u, t)); hist["mapf"] += 1
                do_map(u, t, False)
            else:
                lines.append("map %d %d" % (u, t)); hist["map"] += 1
                do_map(u, t, True)
        elif r < 48 and live:
            # what a move between two user pools sharing a handle does: map(u,t) again, then unmap(u) once
            u = rng.choice(live)
            if rng.chance(1, 3):
                lines.append("mapf %d %d" % (u, mapped[u])); hist["remap_mapf"] += 1
                ok = any(e[0] is None for e in chains[hidx(u)])
            else:
                lines.append("map %d %d" % (u, mapped[u])); hist["remap_map"] += 1
                ok = True
            if ok:
                c = chains[hidx(u)]
                for e in c:
                    if e[0] is None:
                        e[0], e[1] = u, mapped[u]
                        break
                else:
                    c.insert(0, [u, mapped[u]])
                lines.append("unmap %d" % u); hist["remap_unmap"] += 1
                for e in c:
                    if e[0] == u:
                        e[0] = None
                        break
                if rng.chance(1, 2):
                    lines.append("get %d" % u); hist["get"] += 1
        elif r < 65 and live:
            u = rng.choice(live)
            lines.append("unmap %d" % u); hist["unmap"] += 1
            for e in chains[hidx(u)]:
                if e[0] == u:
                    e[0] = None
                    break
            del mapped[u]
        elif live:
            lines.append("get %d" % rng.choice(live)); hist["get"] += 1
        else:
            u = rng.choice(free)
            lines.append("map %d %d" % (u, 7)); hist["map"] += 1
            do_map(u, 7, True)
    return lines


def crash_unitmap(lines, out, err):
    """The white-box harness died.  Was the operation it died in legal according to the implementation's own
    earlier reports (then the table broke its contract) or did an earlier *legitimate* difference (e.g. a map that
    needed memory under the injected malloc failure) make the generated sequence illegal?"""
    m = collections.Counter()
    for i, l in enumerate(lines):
        w = l.split()
        if i >= len(out) or out[i] == "":
            if w[0] in ("unmap", "get") and m[w[1]] <= 0:
                return None
            return "aborted in `%s` (line %d), a legal operation: %s" % (l, i, err[-600:])
        o = out[i].split()
        if w[0] in ("new", "stress"):
            m = collections.Counter()
        elif w[0] in ("map", "mapf") and o[:2] == ["map", "0"]:
            m[w[1]] += 1
        elif w[0] == "unmap":
            m[w[1]] -= 1
    return "aborted after the last operation: " + err[-600:]


def oracle_unitmap(lines, out):
    """multiset oracle: a handle may be mapped twice to the same work unit (move between pools sharing it)"""
    m = {}
    cnt = collections.Counter()
    for i, l in enumerate(lines):
        if i >= len(out) or out[i] == "":
            return "missing output for line %d `%s`" % (i, l)
        w = l.split()
        o = out[i].split(" | ")[0].split()
        if w[0] == "new":
            m, cnt = {}, collections.Counter()
        elif w[0] == "stress":
            m, cnt = {}, collections.Counter()
            if o != ["stress", "ok"]:
                return "line %d `%s`: concurrent map/get/unmap of colliding units failed: %s" % (i, l, out[i])
        elif w[0] in ("map", "mapf"):
            if o == ["map", "0"]:
                if cnt[int(w[1])] > 0 and m.get(int(w[1])) != int(w[2]):
                    return None  # two work units under one handle: outside the contract (shrunk input)
                m[int(w[1])] = int(w[2])
                cnt[int(w[1])] += 1
            elif not (w[0] == "mapf" and o[0] == "map"):
                return "line %d `%s`: map with memory available reported %s" % (i, l, o)
        elif w[0] == "unmap":
            cnt[int(w[1])] -= 1
            if cnt[int(w[1])] <= 0:
                m.pop(int(w[1]), None)
        elif w[0] == "get":
            exp = m.get(int(w[1]))
            if exp is None:
                return None  # illegal input (only in shrunk sequences)
            if o != ["get", str(exp)]:
                return "line %d `%s`: lookup of a mapped unit returned %s, its work unit is %d" % (i, l, o, exp)
    return None


# --------------------------------------------------------------------------
# API level
# --------------------------------------------------------------------------
NPOOLS = 7


def is_user(p):
    return p >= 2


class Sim:
    """generator-side replica of the work-unit life cycle, only to keep op sequences legal"""

    def __init__(self):
        self.th = []
        self.q = [[] for _ in range(NPOOLS)]
        self.fail = [False] * NPOOLS

    def assoc(self, t, p):
        th = self.th[t]
        if not is_user(p):
            th["pool"] = p
            return True
        if is_user(th["pool"]) and th["pool"] == p:
            return True
        if self.fail[p]:
            self.fail[p] = False
            return False
        th["pool"] = p
        return True


def gen_userpool(rng, nops, hist):
    s = Sim()
    lines = []

    def emit(l, k):
        lines.append(l)
        hist[k] += 1

    def live_units():
        return sum(1 for t in s.th if t["st"] != 0 and is_user(t["pool"]))

    def run(t, act, p=None):
        th = s.th[t]
        if th["pending"] is not None and s.assoc(t, th["pending"]):
            # honoured at schedule time: pushed to the new pool, not run
            th["pending"] = None
            s.q[th["pool"]].append(t)
            th["st"] = 1
            return
        if act == "f" or th["kind"] == 1:
            th["st"] = 3
            return
        if act == "m" and th["pool"] != p:
            th["pending"] = p
        if th["pending"] is not None:
            if s.assoc(t, th["pending"]):
                th["pending"] = None
        s.q[th["pool"]].append(t)
        th["st"] = 1

    for _ in range(nops):
        r = rng.below(100)
        hand = [i for i, t in enumerate(s.th) if t["st"] == 2]
        term = [i for i, t in enumerate(s.th) if t["st"] == 3]
        nonempty = [p for p in range(NPOOLS) if s.q[p]]
        alive = [i for i, t in enumerate(s.th) if t["st"] != 0]
        p = rng.choice([0, 1, 2, 3, 4, 4, 4, 5, 5, 5, 6, 6, 6])
        if r < 12 and len(alive) < 24 and live_units() < 40 and len(s.th) < 500:
            k = rng.choice(["ult", "ult", "task"])
            emit("create %s %d" % (k, p), "create_" + ("user" if is_user(p) else "builtin"))
            if is_user(p) and s.fail[p]:
                s.fail[p] = False
            else:
                s.th.append(dict(st=1, kind=1 if k == "task" else 0, pool=p, pending=None))
                s.q[p].append(len(s.th) - 1)
        elif r < 32 and rng.chance(1, 4) and any(s.q[x] for x in (0, 1, 4)):
            # ABT_pool_pop_threads: built-in pop_many / the adapter over the legacy definition; buffers shorter than,
            # equal to and longer than the pool's content
            pp = rng.choice([x for x in (0, 1, 4, 4, 4) if s.q[x]])
            if len(s.q[4]) >= 2 and rng.chance(1, 2):
                pp = 4
            n_in = len(s.q[pp])
            m = rng.choice([1, 2, 2, 3, n_in, n_in + 1, 5])
            if n_in >= 2 and rng.chance(1, 2):
                m = 1 + rng.below(n_in - 1)          # a buffer shorter than the content
            m = max(1, min(8, m))
            emit("popn %d %d" % (pp, m), "popn_%s_%s" % ("legacy" if pp == 4 else "builtin",
                                                        "short" if m < len(s.q[pp]) else "exact" if m == len(s.q[pp]) else "long"))
            for _k in range(min(m, len(s.q[pp]))):
                t = s.q[pp].pop(0)
                s.th[t]["st"] = 2
        elif r < 32 and (nonempty or rng.chance(1, 6)):
            pp = rng.choice(nonempty) if nonempty and not rng.chance(1, 10) else p
            i = rng.below(64)
            emit("pop %d %d" % (pp, i), "pop_" + ("user" if is_user(pp) else "builtin"))
            if s.q[pp]:
                idx = i % len(s.q[pp]) if is_user(pp) else 0
                t = s.q[pp].pop(idx)
                s.th[t]["st"] = 2
        elif r < 52 and hand and rng.chance(1, 5):
            # ABT_pool_push_threads into a built-in pool: units of user-defined pools are released on the way
            pb = rng.choice([0, 1])
            k = min(len(hand), 1 + rng.below(3))
            ts = []
            pool_h = list(hand)
            for _k in range(k):
                ts.append(pool_h.pop(rng.below(len(pool_h))))
            emit("pushn %d %s" % (pb, " ".join(str(t) for t in ts)),
                 "pushn_from_%s" % ("user" if any(is_user(s.th[t]["pool"]) for t in ts) else "builtin"))
            for t in ts:
                s.assoc(t, pb)
                s.q[pb].append(t)
                s.th[t]["st"] = 1
        elif r < 52 and hand:
            t = rng.choice(hand)
            op = rng.choice(["push", "push", "pushu", "setpool"])
            src = s.th[t]["pool"]
            emit("%s %d %d" % (op, t, p), "%s_%s_to_%s" % (op, "user" if is_user(src) else "builtin",
                                                           "same" if src == p else "twin" if src >= 5 and p >= 5 else
                                                           "user" if is_user(p) else "builtin"))
            ok = s.assoc(t, p)
            if ok and op != "setpool":
                s.q[p].append(t)
                s.th[t]["st"] = 1
        elif r < 72 and hand:
            t = rng.choice(hand)
            a = rng.choice(["f", "y", "y", "m", "m"])
            if a == "m":
                emit("run %d m %d" % (t, p), "run_migrate_twin" if s.th[t]["pool"] >= 5 and p >= 5 and s.th[t]["pool"] != p
                     else "run_migrate")
                run(t, "m", p)
            else:
                emit("run %d %s" % (t, a), "run_" + a)
                run(t, a)
        elif r < 78 and term:
            t = rng.choice(term)
            emit("revive %d %d" % (t, p), "revive")
            if s.assoc(t, p):
                s.q[p].append(t)
                s.th[t]["st"] = 1
                s.th[t]["pending"] = None
        elif r < 84 and term:
            t = rng.choice(term)
            emit("free %d" % t, "free")
            s.th[t]["st"] = 0
        elif r < 88 and not all(s.fail[2:]):
            pp = rng.choice([x for x in (2, 3, 4, 5, 6) if not s.fail[x]])
            emit("fail %d" % pp, "fail")
            s.fail[pp] = True
        elif r < 95 and alive:
            emit("xlat %d" % rng.choice(alive), "xlat")
        else:
            emit("stat", "stat")
    # drain: hand out everything, run to completion, free
    for pp in range(NPOOLS):
        while s.q[pp]:
            emit("pop %d 0" % pp, "pop_drain")
            t = s.q[pp].pop(0)
            s.th[t]["st"] = 2
    for _ in range(10):
        for i, t in enumerate(s.th):
            if t["st"] == 2:
                emit("run %d f" % i, "run_f")
                run(i, "f")
        for pp in range(NPOOLS):
            while s.q[pp]:
                emit("pop %d 0" % pp, "pop_drain")
                t = s.q[pp].pop(0)
                s.th[t]["st"] = 2
    for i, t in enumerate(s.th):
        if t["st"] == 3:
            emit("free %d" % i, "free")
            t["st"] = 0
    emit("stat", "stat")
    emit("fin", "fin")
    return lines


def oracle_userpool(lines, out):
    """Independent of the Lean model: create/free pairing per (pool, unit), units handed to a pool are live,
    translation unit<->work unit, every work unit entered and finished once per create/revive."""
    live = {}            # (pool, unit name) -> thread
    runs = {}            # thread -> expected number of executions
    freed = set()
    for i, l in enumerate(lines):
        if i >= len(out) or out[i] == "":
            return "missing output for line %d `%s`" % (i, l)
        o = out[i]
        if "bad-op" in o or "harness-error" in o:
            return None
        if "!" in o:
            return "line %d `%s`: %s" % (i, l, o)
        parts = o.split(" | ")
        head = parts[0].split()
        for ev in parts[1:]:
            e = ev.split()
            if e[0] == "create" and e[3] != "null":
                if (e[1], e[3]) in live:
                    return "line %d `%s`: create_unit of %s returned %s which is live there" % (i, l, e[1], e[3])
                others = [k for k, t in live.items() if k[1] == e[3] and t != e[2]]
                if others:
                    return "line %d `%s`: harness handed %s to two work units" % (i, l, e[3])
                shared = sum(1 for k in live if k[1] == e[3])
                if len(e) > 4 and e[4] != "m%d" % shared:
                    return ("line %d `%s`: when create_unit(%s) returned %s the runtime's unit table held it %s time(s), "
                            "%d other unit(s) with that handle are outstanding: mapped before create_unit returned it"
                            % (i, l, e[1], e[3], e[4][1:], shared))
                live[(e[1], e[3])] = e[2]
            elif e[0] == "free":
                if (e[1], e[2]) not in live:
                    return "line %d `%s`: free_unit(%s,%s) but that unit is not live in that pool" % (i, l, e[1], e[2])
                del live[(e[1], e[2])]
                shared = sum(1 for k in live if k[1] == e[2])
                if len(e) > 3 and e[3] != "m%d" % shared:
                    return ("line %d `%s`: free_unit(%s,%s) was called while the runtime's unit table still held the "
                            "handle %s time(s) (%d other unit(s) with that handle are outstanding): the pool may recycle "
                            "a handle that is still mapped" % (i, l, e[1], e[2], e[3][1:], shared))
            elif e[0] == "push":
                if (e[1], e[2]) not in live:
                    return "line %d `%s`: unit %s pushed to %s but it is not a live unit of that pool" % (i, l, e[2], e[1])
            elif e[0] == "pop" and e[2] != "none":
                if (e[1], e[2]) not in live:
                    return "line %d `%s`: pool %s handed out %s which is not live there" % (i, l, e[1], e[2])
        owners = collections.Counter(live.values())
        for t, n in owners.items():
            if n > 1:
                return ("line %d `%s`: work unit %s owns %d live units %s: create_unit for the new association without "
                        "free_unit for the old one" % (i, l, t, n, sorted(k for k, tt in live.items() if tt == t)))
        w = l.split()
        if w[0] == "free" and head[1] == "0":
            left = sorted(k for k, tt in live.items() if tt == "t" + w[1])
            if left:
                return "line %d `%s`: work unit freed but its unit(s) %s were never passed to free_unit" % (i, l, left)
            freed.add("t" + w[1])
        if w[0] == "create" and head[1] == "0":
            runs[head[2]] = 1
        elif w[0] == "revive" and head[1] == "0":
            runs["t" + w[1]] = runs.get("t" + w[1], 0) + 1
        elif w[0] == "pop" and head[2] != "none":
            # the work unit handed out must be the one whose unit the pool handed out
            for ev in parts[1:]:
                e = ev.split()
                if e[0] == "pop" and e[2] != "none" and live.get((e[1], e[2])) != head[2]:
                    return "line %d `%s`: pool handed out %s (work unit %s) but the runtime returned %s" % (
                        i, l, e[2], live.get((e[1], e[2])), head[2])
        elif w[0] == "popn" and head[1] == "0":
            pops = [ev.split() for ev in parts[1:] if ev.split()[0] == "pop" and ev.split()[2] != "none"]
            if w[1] == "4" and len(pops) != int(head[2]):
                return ("line %d `%s`: the pool handed out %d unit(s) to ABT_pool_pop_threads, which returned %s work unit(s): "
                        "a unit left its pool and reached nobody" % (i, l, len(pops), head[2]))
            if len(head) != 3 + int(head[2]):
                return "line %d `%s`: %s work units reported, %d returned" % (i, l, head[2], len(head) - 3)
            for e, tn in zip(pops, head[3:]):
                if live.get((e[1], e[2])) != tn:
                    return "line %d `%s`: pool handed out %s (work unit %s) but the runtime returned %s" % (
                        i, l, e[2], live.get((e[1], e[2])), tn)
        elif w[0] == "xlat":
            if head[2] == "builtin":
                if head[3] != "t" + w[1]:
                    return "line %d `%s`: built-in unit of t%s translates to %s" % (i, l, w[1], head[3])
            else:
                if head[3] != "t" + w[1] or not any(k[1] == head[2] and t == "t" + w[1] for k, t in live.items()):
                    return "line %d `%s`: unit/work-unit translation wrong: %s" % (i, l, o)
        elif w[0] == "fin":
            counts = head[1:]
            for k, c in enumerate(counts):
                if "t%d" % k not in freed:
                    continue
                exp = runs.get("t%d" % k, 0)
                if c != "%d/%d" % (exp, exp):
                    return "work unit t%d executed %s (entered/finished), expected %d/%d" % (k, c, exp, exp)
    return None


# --------------------------------------------------------------------------
def run_diff(res, what, model, exe, gen, oracle, rounds, nops, rng, hist, samplekey):
    total = 0
    for r in range(rounds):
        lines = gen(rng, nops, hist)
        total += len(lines)
        if r == 0:
            res.sample({samplekey: lines[:12]})
        d = _cmp(model, exe, lines)
        if d is None:
            continue

        def legal(ls):
            # shrunk sequences must stay inside the client contract (judged on the model's own output)
            rc_m, om, _ = _retry(D.model_lines, model, ls)
            if rc_m != 0 or any(("bad-op" in x or "abort" in x) for x in om):
                return False
            if model == "unitmap":
                mapped, cntm = {}, collections.Counter()
                for l, o in zip(ls, om):
                    w = l.split()
                    if w[0] in ("new", "stress"):
                        mapped, cntm = {}, collections.Counter()
                    elif w[0] in ("map", "mapf"):
                        if cntm[w[1]] >= 2 or (cntm[w[1]] == 1 and mapped[w[1]] != w[2]):
                            return False
                        if o.startswith("map 0"):
                            mapped[w[1]] = w[2]
                            cntm[w[1]] += 1
                    elif w[0] in ("unmap", "get"):
                        if cntm[w[1]] <= 0:
                            return False
                        if w[0] == "unmap":
                            cntm[w[1]] -= 1
            return True

        def judge(ls):
            rc, oc, er = _run_impl(exe, ls, T_IMPL[0])
            if rc == -999:
                T_IMPL[0] = 6
                done = len([x for x in oc if x])
                return ("the implementation hangs (no answer within the time limit) in `%s` (line %d)"
                        % (ls[done] if done < len(ls) else "?", done))
            if rc != 0:
                if model == "unitmap":
                    return crash_unitmap(ls, oc, er)
                return "implementation aborted (assert/sanitizer/signal %s): %s" % (rc, er[-800:])
            return oracle(ls, oc)

        def violates(ls):
            return judge(ls) is not None
        keep = 1 if model == "unitmap" else 0
        budget = 40 if d.get("rc") == -999 else 300
        if violates(lines):
            # the implementation's own output contradicts the property: shrink towards that
            small = D.ddmin(lines, lambda ls: legal(ls) and violates(ls), keep_prefix=keep, budget=budget)
        else:
            small = D.ddmin(lines, lambda ls: legal(ls) and _cmp(model, exe, ls) is not None,
                            keep_prefix=keep, budget=budget)
        d2 = _cmp(model, exe, small) or d
        rc, out_c, err = _run_impl(exe, small, T_IMPL[0])
        why = judge(small)
        rep = {"correspondence": what, "model": model, "ops": small, "disagreement": d2, "impl_output": out_c[:200],
               "oracle": why}
        if why:
            res.violation("unit <-> work-unit mapping violated: " + why, rep)
        else:
            res.violation(what + ": correspondence broken (implementation output still consistent with the property "
                          "on this input: table layout / hash bucket / call order differs from the model)", rep, no_input=True)
        return total, False
    return total, True


def xs_recycle(res, tier):
    """native search aid: two execution streams, handles recycled LIFO across them (harness/xs_recycle.c)"""
    exe = C.cc_harness("xs_recycle", ["xs_recycle.c"], "plain")
    iters = 600 if tier == "quick" else 30000
    rc, out = C.sh([exe, str(iters)], timeout=300)
    last = out.strip().split("\n")[-1] if out.strip() else ""
    res.add_cov(cross_stream_recycle=last[:200])
    if rc != 0:
        res.violation("cross-stream handle recycling (create on one stream while another frees): " + last[:400],
                      {"scenario": "xs_recycle", "iterations": iters, "cmd": "%s %d" % (exe, iters), "output": out[-1500:]})


def t3_params(rng):
    nes = 2 + rng.below(3)
    nact = 2 + rng.below(4)
    return [nes, nact, 2 + rng.below(5), rng.choice([0, 30, 60])]


def t3_locks(res, tier, broken):
    """controlled-scheduler runs of harness/sc_unitmap.c: crosswise re-associations; bucket-lock events validated
    against Model.UnitMapLock; deadlocks found exactly by vsched"""
    vs.campaign(res, broken, tier, "C14", "sc_unitmap", ["sc_unitmap.c"], t3_params, t3_unitmap.validate,
                sizes={"quick": (14, 4), "thorough": (120, 8), "search": (120, 8)},
                reject_is_failure=vs.protocol_reject_is_failure)


def run(res, tier, broken):
    n, tb = skel.check(T1_FUNCS)
    res.add_cov(t1_functions=n, t1_broken=len(tb))
    for b in tb:
        broken.append({"kind": "T1-skeleton", **b})
    t3_locks(res, tier, broken)
    exe_wb = C.cc_harness("wb_unitmap", ["wb_unitmap.c"], "san", extra="-lpthread")
    exe_api = C.cc_harness("api_userpool", ["api_userpool.c"], "plain")
    rng = C.Rng(res.seed * 7919 + 14)
    if tier == "quick" and not broken:
        r1, n1, r2, n2 = 4, 900, 5, 800
    elif tier == "quick":
        r1, n1, r2, n2 = 15, 2000, 15, 2000
    else:
        r1, n1, r2, n2 = 50, 5000, 60, 5000
    h1, h2 = collections.Counter(), collections.Counter()
    t1, ok = run_diff(res, "T2 unit table (harness/wb_unitmap.c vs Model.UnitMap)", "unitmap", exe_wb, gen_unitmap,
                      oracle_unitmap, r1, n1, rng, h1, "unitmap_ops")
    t2 = 0
    if ok:
        t2, ok = run_diff(res, "T2 user pools (harness/api_userpool.c vs Model.Assoc)", "userpool", exe_api,
                          gen_userpool, oracle_userpool, r2, n2, rng, h2, "userpool_ops")
    if ok:
        xs_recycle(res, tier)
    res.add_cov(programs=r1 + r2, disagreements_checked=t1 + t2, unitmap_ops=t1, userpool_ops=t2,
                unitmap_op_histogram=dict(h1), userpool_op_histogram=dict(h2))


def replay(res, path):
    rep = json.load(open(path))
    if rep.get("scenario") == "sc_unitmap":
        return vs.replay("sc_unitmap", ["sc_unitmap.c"], path, t3_unitmap.validate)
    if rep.get("scenario") == "xs_recycle":
        exe = C.cc_harness("xs_recycle", ["xs_recycle.c"], "plain")
        rc, out = C.sh([exe, str(rep.get("iterations", 600))], timeout=300)
        print(out.strip()[-600:])
        return 1 if rc else 0
    if "ops" in rep:
        model = rep.get("model", "unitmap")
        if model == "unitmap":
            exe, orc = C.cc_harness("wb_unitmap", ["wb_unitmap.c"], "san", extra="-lpthread"), oracle_unitmap
        else:
            exe, orc = C.cc_harness("api_userpool", ["api_userpool.c"], "plain"), oracle_userpool
        d = _cmp(model, exe, rep["ops"])
        rc, out_c, err = D.run_lines([exe], rep["ops"])
        print("disagreement:", d)
        print("oracle:", orc(rep["ops"], out_c) if rc == 0 else err[-500:])
        return 1 if d else 0
    print("replay file names a broken obligation without a failing input:", rep.get("broken"))
    return 1
