"""C12 — work-unit lifecycle: exit, cancel, auto-free and revive follow the state machine.
Ties: T1 (skeletons of the scheduling / context-switch / life-cycle functions), T3 (vsched traces of generated work-unit
programs validated against Model.Sched, and every join hand-shake in them against Model.Join: the exit path of a unit
waits only for a joiner that is committed to publish its link), scenario monitors + deadlock detection for the
failing-input search."""
from checks import sched_common as S

ASSUMPTIONS = list(S.BASE_ASSUMPTIONS)
EXTRA_T1 = [('thread.c', 'ABT_thread_cancel'), ('thread.c', 'ABT_thread_exit'), ('self.c', 'ABT_self_exit'), ('thread.c', 'ABT_thread_revive'), ('task.c', 'ABT_task_revive')]


def run(res, tier, broken):
    S.run_sched(res, tier, broken, "C12", EXTRA_T1, validate_fn=S.validate_with_join)


def replay(res, path):
    return S.replay(res, path)
