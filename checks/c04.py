"""C04 — ABT_mutex: mutual exclusion, recursion, trylock, no lost wake-up.
Ties: T1 (skeletons of the mutex / wait-list / futex functions), T3 (vsched traces validated against Model.Mutex)."""
import collections, json, os
from checks import futex_common
from vlib import common as C
from vlib import t1, t3, vs

ASSUMPTIONS = [
    "sequentially consistent execution of the atomic primitives (acquire/release annotations not modelled)",
    "liveness ('every blocked locker eventually acquires') is established in safety form: no-lost-wakeup invariant in Lean + deadlock/livelock detection by the controlled scheduler on explored schedules; OS-thread fairness assumed",
    futex_common.ASSUMPTION,
    "pool push / blocked-counter / context-switch steps of a blocking lock belong to the C01/C02/C06 models",
]

T1_FUNCS = [("mutex.c", f) for f in [
    "ABTI_mutex_lock_no_recursion", "ABTI_mutex_lock", "ABTI_mutex_trylock_no_recursion", "ABTI_mutex_trylock",
    "ABTI_mutex_spinlock_no_recursion", "ABTI_mutex_spinlock", "ABTI_mutex_unlock_no_recursion", "ABTI_mutex_unlock",
    "ABTI_mutex_init", "ABT_mutex_lock", "ABT_mutex_lock_low", "ABT_mutex_lock_high", "ABT_mutex_trylock",
    "ABT_mutex_spinlock", "ABT_mutex_unlock", "ABT_mutex_unlock_se", "ABT_mutex_unlock_de",
    "ABTI_waitlist_wait_and_unlock", "ABTI_waitlist_broadcast", "ABTI_waitlist_init",
    "ABTD_spinlock_acquire", "ABTD_spinlock_try_acquire", "ABTD_spinlock_release", "ABTD_spinlock_is_locked",
    "ABTI_ythread_suspend_unlock", "ABTI_ythread_resume_and_push"]] + [
    ("ythread.c", "ABTI_ythread_callback_suspend_unlock"),
    ("arch/abtd_futex.c", "ABTD_futex_wait_and_unlock"), ("arch/abtd_futex.c", "ABTD_futex_broadcast")]


def scenario_params(rng):
    nes = 1 + rng.below(3)
    nact = 2 + rng.below(5)
    rounds = 2 + rng.below(3)
    return ["mutex", nes, nact, rounds, 25, 10, rng.below(2)]


def validate(lg, params):
    rejects, trans, n = [], set(), 0
    for m in ("M0", "M1"):
        lines, src = t3.project_mutex(lg, m)
        rej, tr, drc = t3.run_driver("mutex", lines)
        n += len(lines)
        trans.update(tr)
        if rej or drc != 0:
            idx = int(rej.split()[1]) if rej else 0
            rejects.append({"model": "Model.Mutex", "object": m, "reject": rej or "driver rc=%d" % drc,
                            "projected_context": lines[max(0, idx - 12): idx + 2]})
    return rejects, trans, n


def run(res, tier, broken):
    n, tb = t1.check(T1_FUNCS)
    res.add_cov(t1_functions=n, t1_broken=len(tb))
    for b in tb:
        broken.append({"kind": "T1-skeleton", **b})
    vs.campaign(res, broken, tier, "C04", "sc_sync", ["sc_sync.c"], scenario_params, validate,
                reject_is_failure=vs.protocol_reject_is_failure)
    native_depth(res)
    futex_common.run(res, tier, broken, res.seed)


def native_depth(res):
    """recursion depths far beyond the controlled scenarios (harness/nat_mutex_depth.c, real OS threads)"""
    import subprocess
    exe = C.cc_harness("nat_mutex_depth", ["nat_mutex_depth.c"], "plain")
    try:
        p = subprocess.run([exe], stdout=subprocess.PIPE, stderr=subprocess.STDOUT, timeout=120)
        rc, out = p.returncode, p.stdout.decode("utf-8", "replace")
    except subprocess.TimeoutExpired:
        rc, out = -999, "timeout"
    res.add_cov(native_recursion_depth_max=131073)
    if rc != 0:
        res.violation("recursive mutex at large nesting depth: " + (out.strip().split("\n")[0][:300] or "exit %s" % rc),
                      {"native": "nat_mutex_depth", "exit": rc, "output": out[-1500:]})


def replay(res, path):
    import json, subprocess
    rep = json.load(open(path))
    if rep.get("harness") == "wb_futex":
        return futex_common.replay(rep)
    if rep.get("native") == "nat_mutex_depth":
        exe = C.cc_harness("nat_mutex_depth", ["nat_mutex_depth.c"], "plain")
        p = subprocess.run([exe], stdout=subprocess.PIPE, stderr=subprocess.STDOUT, timeout=120)
        print(p.stdout.decode("utf-8", "replace")[-1500:])
        return 1 if p.returncode != 0 else 0
    return vs.replay("sc_sync", ["sc_sync.c"], path, validate)
