"""Shared by C01 C03 C06 C11 C12 C13: T1 skeleton tie + T3 campaign of the work-unit scenarios validated against Model.Sched."""
from vlib import common as C
from vlib import t1, t3, t3_sched, vs

BASE_ASSUMPTIONS = [
    "sequentially consistent execution of the atomic primitives",
    "Model.Sched is a specification automaton at the granularity of runtime events (create/push/pop/run/callback/state store/counter update/terminate/free); every explored execution of the hooked runtime must be accepted event by event (T3), the theorems are consequences of its guards and inductive invariants",
    "pools are bags with arbitrary pop choice in the model (covers FIFO/FIFO_WAIT/RANDWS/user pools and any scheduler); the scenarios run FIFO, FIFO_WAIT and RANDWS pools under BASIC, BASIC_WAIT, PRIO and RANDWS schedulers on 1-3 streams plus an external resumer thread",
    "liveness (join / stream join / finalize do return, a resumed unit does run) is checked as absence of deadlock/livelock on the explored schedules (controlled scheduler), OS-thread fairness assumed",
]

COMMON_T1 = [("thread.c", f) for f in [
    "ABTI_ythread_schedule", "ABTI_ythread_run_child", "ABTI_ythread_switch_to_child_internal", "ABTI_ythread_switch_to_parent_internal",
    "ABTI_ythread_switch_to_sibling_internal", "ABTI_ythread_jump_to_parent_internal", "ABTI_ythread_jump_to_sibling_internal",
    "ABTI_ythread_yield", "ABTI_ythread_suspend", "ABTI_ythread_resume_and_push", "ABTI_ythread_exit", "ABTI_ythread_atomic_get_joiner",
    "ABTI_ythread_exit_to", "ABTI_ythread_resume_exit_to", "ABTI_ythread_resume_yield_to", "ABTI_ythread_resume_suspend_to",
    "ABTI_ythread_suspend_to", "ABTI_ythread_yield_to", "ABTI_ythread_thread_yield_to", "ABTI_ythread_suspend_join",
    "ABT_thread_join", "ABT_thread_free", "ABT_thread_join_many", "ABT_thread_free_many", "ABT_thread_cancel", "ABT_thread_resume",
    "ABT_thread_revive", "ABT_thread_migrate", "ABT_thread_migrate_to_pool", "ABT_thread_set_callback", "ABT_thread_yield_to",
    "ABTI_ythread_resume_joiner", "ABTI_thread_handle_request", "ABTI_thread_terminate", "ABTI_pool_add_thread", "ABTI_pool_push",
    "ABTI_pool_pop", "ABTI_pool_inc_num_blocked", "ABTI_pool_dec_num_blocked", "ythread_create", "thread_join", "thread_join_yield_thread",
    "thread_join_futexwait", "thread_join_busywait", "thread_free", "thread_revive", "ABTI_thread_handle_request_cancel",
    "ABTI_thread_handle_request_migrate", "thread_migrate_to_pool", "thread_root_func", "thread_main_sched_func"]] + [
    ("ythread.c", f) for f in ["ythread_callback_yield_impl", "ABTI_ythread_callback_yield_user_yield", "ABTI_ythread_callback_yield_loop",
                                "ABTI_ythread_callback_suspend", "ABTI_ythread_callback_suspend_join", "ABTI_ythread_callback_exit",
                                "ABTI_ythread_callback_thread_yield_to", "ABTI_ythread_callback_resume_yield_to",
                                "ABTI_ythread_callback_resume_suspend_to", "ABTI_ythread_callback_resume_exit_to",
                                "ABTI_ythread_callback_suspend_replace_sched", "ABTI_ythread_callback_orphan"]] + [
    ("task.c", "task_create"), ("sched/basic.c", "sched_run"), ("sched/basic_wait.c", "sched_run"), ("sched/prio.c", "sched_run"),
    ("sched/randws.c", "sched_run"), ("sched/sched.c", "ABTI_sched_has_to_stop"), ("sched/sched.c", "ABTI_sched_has_unit"),
    ("stream.c", "xstream_join"), ("stream.c", "ABTI_xstream_check_events")]


def scenario_params(rng):
    nes = 1 + rng.below(3)
    return [nes, 4 + rng.below(10), 2 + rng.below(4), rng.below(3), rng.below(5), rng.below(3), rng.below(2)]


def validate(lg, params):
    lines = t3_sched.project_sched(lg)
    rej, tr, drc = t3.run_driver("sched", lines)
    rejects = []
    if rej or drc != 0:
        idx = int(rej.split()[1]) if rej else 0
        rejects.append({"model": "Model.Sched", "reject": rej or "driver rc=%d" % drc,
                        "projected_context": lines[max(0, idx - 14): idx + 2]})
    return rejects, set(tr), len(lines)


def validate_with_join(lg, params):
    """Model.Sched for the whole trace + Model.Join for every joiner/target hand-shake in it"""
    rejects, trans, n = validate(lg, params)
    for tname, lines in t3_sched.project_join(lg):
        rej, tr, drc = t3.run_driver("join", ["init"] + lines)
        n += len(lines)
        trans.update("join:" + x for x in tr)
        if rej or drc != 0:
            rejects.append({"model": "Model.Join", "object": tname, "reject": rej or "driver rc=%d" % drc, "projected": lines})
    return rejects, trans, n


def reject_is_failure(rj):
    """Every guard of Model.Sched is a clause of the life-cycle properties (a unit is pushed only from where nobody else
    can reach it and while accounted for, BLOCKED is published after the count, the blocked counter equals the model's,
    a unit starts once, join returns after TERMINATED ...): an execution of the real code that the automaton rejects is a
    history on which such a clause fails."""
    if rj.get("model") not in ("Model.Sched", "Model.Join"):
        return None
    r = rj.get("reject", "")
    if not r.startswith("REJECT"):
        return None
    return "execution of the real code leaves the specification automaton %s: %s" % (rj.get("model"), r[:300])


# repro programs of repaired defects of this family: compiled against the current tree, must exit 0
CORPUS = {
    "C01": [("f6_stacked_basic_wait.c", [[]]), ("f14_reused_sched_stale_finish.c", [[]])],
    "C06": [("f3_blocked_count_migration.c", [[]]), ("f14_reused_sched_stale_finish.c", [[]]), ("f14b_reused_replaced_sched.c", [[]]), ("f14c_reused_replaced_sched_replaced_again.c", [[]])],
    "C11": [("f13_suspend_to_state.c", [[]])],
    "C12": [("f13_suspend_to_state.c", [[]])],
}


def run_corpus(res, prop):
    import os, subprocess
    n = 0
    for src, argvs in CORPUS.get(prop, []):
        exe = C.cc_harness("corpus_" + src.rsplit(".", 1)[0], [os.path.join(C.VERIF, "corpus", "findings", src)], "plain")
        for argv in argvs:
            n += 1
            try:
                p = subprocess.run([exe] + argv, stdout=subprocess.PIPE, stderr=subprocess.STDOUT, timeout=60)
                rc, out = p.returncode, p.stdout.decode("utf-8", "replace")
            except subprocess.TimeoutExpired:
                rc, out = -999, "timeout"
            if rc != 0:
                res.violation("corpus program %s %s fails (exit %d; it is the repro of a repaired defect and must exit 0)" % (src, " ".join(argv), rc),
                              {"corpus": src, "argv": argv, "exit": rc, "output": out[-1500:]})
    res.add_cov(corpus_programs=n)


def run_sched(res, tier, broken, prop, extra_t1=(), validate_fn=None):
    run_corpus(res, prop)
    funcs = COMMON_T1 + list(extra_t1)
    n, tb = t1.check(funcs)
    res.add_cov(t1_functions=n, t1_broken=len(tb))
    for b in tb:
        broken.append({"kind": "T1-skeleton", **b})
    vs.campaign(res, broken, tier, prop, "sc_units", ["sc_units.c"], scenario_params, validate_fn or validate,
                sizes={"quick": (16, 3), "thorough": (200, 8), "search": (150, 6)}, reject_is_failure=reject_is_failure)


def run_native(res, name, what, ncases_key=None):
    """a native program of harness/ (real OS threads, public API, its own time bounds): exit 0 ok, 1 violation"""
    import subprocess
    exe = C.cc_harness(name, [name + ".c"], "plain")
    try:
        p = subprocess.run([exe], stdout=subprocess.PIPE, stderr=subprocess.STDOUT, timeout=180)
        rc, out = p.returncode, p.stdout.decode("utf-8", "replace")
    except subprocess.TimeoutExpired:
        rc, out = -999, "timeout"
    res.add_cov(**{"native_" + name: "ok" if rc == 0 else "exit %s" % rc})
    if rc != 0:
        res.violation("%s: %s" % (what, out.strip().split("\n")[0][:400] or "exit %s" % rc),
                      {"native": name, "exit": rc, "output": out[-1500:]})


def replay_native(rep):
    import subprocess
    name = rep["native"]
    p = subprocess.run([C.cc_harness(name, [name + ".c"], "plain")], stdout=subprocess.PIPE, stderr=subprocess.STDOUT, timeout=180)
    print(p.stdout.decode("utf-8", "replace")[-1500:])
    return 1 if p.returncode != 0 else 0


def replay(res, path):
    import json
    rep = json.load(open(path))
    if rep.get("native"):
        return replay_native(rep)
    return vs.replay("sc_units", ["sc_units.c"], path, validate_with_join)
