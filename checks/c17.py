"""C17 — ranks of live execution streams are pairwise distinct (smallest unused rank on
request -1, exact rank iff unused, reusable after free, get_num = number of live streams);
join / revive / free cycles; main-scheduler replacement keeps stream and caller running.

Correspondence run here:
  T2  random API histories on real pthread-backed streams (harness/api_ranks.c, white-box dump
      of the global list after every call) vs Lean Model.Rank (`driver rank`), an independent
      Python oracle (set of live ranks, mex) classifies every disagreement;
  T2c join/revive/free cycles with a ULT run on the stream before and after each revive;
  T3r creators racing for ranks from external threads and ULTs (ownership oracle in the harness);
  T1  token skeletons of every rank / stream-list function of src/stream.c that Model.Rank and Model.RankConc
      abstract (lock scope: where xstream_list_lock is taken and released relative to the scan and the update);
  T3c concurrent create / create_with_rank (same and different free ranks) / set_rank / join+free / get_num from
      external pthreads and ULTs on several streams under the controlled scheduler (harness/sc_ranks.c): every
      trace is projected (vlib/t3_ranks.py: spinlock operations on xstream_list_lock + the real list walked at every
      release) onto Lean Model.RankConc (`driver rankconc`), which has the scan and the update as separate steps
      under the lock and lets a free reach the lock only after its join completed (stream stored TERMINATED and its
      native thread parked); some streams are kept busy by a yielding ULT while their owner frees them and others
      create / set_rank / get_num; native monitors (distinct ranks, refused only if held, get_num = live count and
      >= streams still executing, no rank granted that a still-executing stream holds, ABTI_ASSERTs);
  T3x abtd_stream.c (the tree's own text, compiled with virtual pthread primitives) driven through
      random interleavings incl. spurious wake-ups, event by event against Lean Model.XsCtx;
  T1l token skeletons of the life-cycle functions of stream.c / thread.c / abtd_stream.c / sched.c that Model.XsLife
      abstracts (xstream_join, ABT_xstream_revive / cancel / exit / free / get_state, thread_root_func,
      thread_main_sched_func, xstream_launch_root_ythread, ABTI_xstream_check_events, ABTI_ythread_schedule, ...);
  T3l join / cancel / exit / revive / free histories on the REAL library under the controlled scheduler
      (harness/sc_xslife.c: 1-3 secondary streams whose native threads are controlled too; primary ULT + external
      thread; the join placed right after TERMINATED becomes visible): every trace is projected (vlib/t3_xslife.py:
      atomic operations on the public state / scheduler request / main-scheduler ULT request+state, virtual pthread
      mutex+cond lines with the context state word) onto Lean Model.XsLife (`driver xslife`); native monitors (join
      returns only with a parked context, get_state, every pushed ULT runs exactly once, revive yields a running
      stream, ABTI_ASSERTs);
  RP  single-caller main-scheduler replacement family (BASIC/PRIO/RANDWS, work pending in old and
      new pools, repeated) + replacement on a joined stream followed by revive;
  F7  the overlapping-replacement scenario of the open finding (corpus/findings/f7_double_replace.c).
"""
import collections, json, os, subprocess, time
from vlib import common as C
from vlib import diff as D
from vlib import t1, t3_ranks, t3_xslife, vs

ASSUMPTIONS = [
    "the lock scope of rank allocation is modelled and checked, not assumed: Model.RankConc interleaves any number of "
    "callers at the granularity test_and_set / scan / list update / release of xstream_list_lock, "
    "Props.C17.Conc.conc_refines_atomic + conc_step_simulates prove that every completed call is exactly one atomic "
    "Model.Rank call performed during its own lock hold (so the Part 1 theorems hold for all interleavings), T1 "
    "skeletons tie the rank/list functions of stream.c, T3 validates controlled schedules of harness/sc_ranks.c "
    "against the model incl. the real list at every lock release; a free reaches the list lock only after its join part "
    "completed (model step `joined`, projected from the stream's TERMINATED store and its native thread parking), so a "
    "stream that is running or being joined is in the list, holds its rank and is counted "
    "(conc_running_streams_distinct_and_counted).  What is still assumed for concurrent callers: "
    "sequentially consistent execution of the spinlock's atomic primitives; plain statements between two hook "
    "points execute atomically under the controlled scheduler (the scan and the update of one critical section are "
    "placed directly after its test_and_set in the projected trace)",
    "API contract for concurrent callers (hypotheses of Model.RankConc's `call`): a non-NULL stream handle is used by "
    "one in-flight call at a time (freeing or re-ranking a stream another thread is operating on is a use-after-free "
    "/ data race on p_xstream->rank in C, not an error return); allocation failures inside xstream_create after "
    "the rank was granted (xstream_return_rank on the FAILED path) are C18's subject and not part of the rank model",
    "handles passed to the API are NULL or live streams, malloc returns an address not in the list "
    "(violations are undefined behaviour in the API contract, not error returns)",
    "p_global->max_xstreams (grown by xstream_update_max_xstreams) is not part of the property and not modelled",
    "ABTD_xstream_context: pthread mutex/condvar are ideal primitives (signal wakes one chosen waiter, spurious "
    "wake-ups allowed); join/revive/free on one stream are issued one at a time and revive only after a join "
    "(the API's stated contract); thread_f may return at any time",
    "life cycle (Model.XsLife): what Model.XsCtx assumes about its callers is derived, not assumed (join reaches the "
    "context join only after the main scheduler terminated; revive / free reach the context only after a completed "
    "context join).  Still assumed: the API contract that ABT_xstream_join / revive / free on one stream are issued one "
    "at a time, ABT_xstream_revive only after a completed join and ABT_xstream_cancel only on a stream whose public "
    "state is RUNNING (documented as undefined otherwise); no main-scheduler replacement during the modelled life "
    "(Model.Replace / F7 / F16 cover that); the hand-shake below `wait until the main scheduler's ULT is TERMINATED` is "
    "Model.Join's (C03); ABTI_sched_has_to_stop's two emptiness tests are one atomic test of the model (an "
    "over-approximation: the request bits only grow while the scheduler runs); sequentially consistent atomics",
    "T3l scenario discipline: pushes to a stream never overlap a join / free of that stream (the scheduler's last "
    "emptiness test is not visible in the trace; the model's `nStop` is placed where the main scheduler's function "
    "returns); the native thread's steps before the stream has a name in the trace read only initial values and are "
    "placed right after `init` by the projection; once the join inside ABT_xstream_free is complete, ABTI_xstream_free "
    "releases the scheduler, its ULT, the root ULT and the pool, whose memory other threads may reuse before the call "
    "returns and the trace names are dropped: from that point only the context operations of the life are projected "
    "(the model has no other step there)",
    "set_affinity is off (HAVE_PTHREAD_SETAFFINITY_NP undefined in this build), so set_rank does not touch CPU binding",
    "main-scheduler replacement is checked dynamically (RP) and, if Model.Replace is built, proved only for "
    "non-overlapping requests; the overlapping case is the open finding F7",
]

NSLOT = 12          # up to 12 live secondary streams

# The model driver binary is shared with every other check and is relinked whenever somebody builds;
# the dynamic part runs outside the build lock, so it works on a private snapshot of the binary.
_DRIVER = None


def snapshot_driver():
    global _DRIVER
    import shutil
    dst = os.path.join(C.BUILD, "c17-driver-%d" % os.getpid())
    for _ in range(600):
        try:
            shutil.copy2(C.driver_exe(), dst)
            os.chmod(dst, 0o755)
            _DRIVER = dst
            return dst
        except OSError:
            time.sleep(0.2)      # being relinked by a concurrent build
    raise RuntimeError("model driver binary not available")


def drop_driver():
    global _DRIVER
    if _DRIVER and os.path.exists(_DRIVER):
        os.unlink(_DRIVER)
    _DRIVER = None


def model_lines(model, lines, timeout=300):
    return D.run_lines([_DRIVER or C.driver_exe(), model], lines, timeout)
OK = "ABT_SUCCESS"
EX = "ABT_ERR_INV_XSTREAM"
ER = "ABT_ERR_INV_XSTREAM_RANK"


def mex(s):
    r = 0
    while r in s:
        r += 1
    return r


# --------------------------------------------------------------------------
# T2: rank histories
# --------------------------------------------------------------------------
def gen_rank_ops(rng, nops, lifecycle=True):
    """Random history; tracks just enough (slot -> rank / joined) to aim requests at
    occupied ranks, the tail's rank, free ranks, rank 0, negative ranks, empty slots."""
    lines = []
    rank = {}      # slot -> rank
    joined = {}    # slot -> bool
    hist = collections.Counter()

    def want_rank():
        used = sorted(set(rank.values()) | {0})
        r = rng.below(100)
        if r < 30 and used:
            return rng.choice(used)                 # occupied (incl. 0 = primary)
        if r < 40 and used:
            return used[-1]                         # the tail's rank
        if r < 45:
            return -1 - rng.below(3)                # negative
        if r < 55:
            return used[-1] + 1 + rng.below(3)      # beyond the tail
        return rng.below(18)

    def emit(l):
        lines.append(l)
        hist[l.split()[0]] += 1

    for _ in range(nops):
        r = rng.below(100)
        empty = [i for i in range(NSLOT) if i not in rank]
        full = sorted(rank)
        if r < 16 and empty:
            i = rng.choice(empty)
            emit("create %d" % i)
            rank[i] = mex(set(rank.values()) | {0})
            joined[i] = False
        elif r < 32 and empty:
            i = rng.choice(empty)
            w = want_rank()
            emit("createw %d %d" % (i, w))
            if w >= 0 and w not in (set(rank.values()) | {0}):
                rank[i] = w
                joined[i] = False
        elif r < 58:
            i = rng.choice(full + [-1] + empty[:1]) if rng.chance(1, 6) or not full else rng.choice(full)
            w = want_rank()
            emit("setrank %d %d" % (i, w))
            if i in rank and w >= 0 and (w == rank[i] or w not in (set(rank.values()) | {0})):
                rank[i] = w
        elif r < 72:
            i = rng.choice(full + [-1] + empty[:1]) if rng.chance(1, 8) or not full else rng.choice(full)
            emit("free %d" % i)
            if i in rank:
                del rank[i]
                del joined[i]
        elif r < 78:
            emit("getnum")
        elif r < 84:
            i = rng.choice(full + [-1] + empty[:1]) if full else -1
            emit("getrank %d" % i)
        elif r < 86:
            emit("selfrank")
        elif lifecycle and r < 91:
            i = rng.choice(full + [-1] + empty[:1]) if rng.chance(1, 6) or not full else rng.choice(full)
            emit("join %d" % i)
            if i in rank:
                joined[i] = True
        elif lifecycle and r < 96:
            i = rng.choice(full + empty[:1]) if full else -1
            emit("revive %d" % i)
            if i in rank and joined[i]:
                joined[i] = False
        elif lifecycle:
            run = [i for i in full if not joined[i]]
            if run:
                emit("work %d" % rng.choice(run))
            else:
                emit("getnum")
        else:
            emit("getnum")
    return lines, hist


def gen_cycles(rng, ncycles):
    """join / revive / free cycles: every stream must still run ULTs after each revive."""
    lines = []
    live = {}
    for c in range(ncycles):
        i = rng.below(4)
        if i not in live:
            lines.append("create %d" % i if rng.chance(1, 2) else "createw %d %d" % (i, 3 + rng.below(9)))
            live[i] = True
            lines.append("getrank %d" % i)
        lines.append("work %d" % i)
        for _ in range(1 + rng.below(3)):
            lines.append("join %d" % i)
            if rng.chance(1, 3):
                lines.append("join %d" % i)        # joined again
            if rng.chance(1, 3):
                lines.append("setrank %d %d" % (i, 1 + rng.below(12)))
            lines.append("revive %d" % i)
            lines.append("work %d" % i)
        if rng.chance(1, 2):
            if rng.chance(1, 2):
                lines.append("join %d" % i)
            lines.append("free %d" % i)
            del live[i]
        lines.append("getnum")
    # createw may have failed (rank taken): ops on the empty slot then return INV_XSTREAM, which both sides agree on
    return lines


def parse_dump(line):
    parts = line.split(" | ")
    if len(parts) != 4:
        return None
    try:
        f = [int(x) for x in parts[1].split()[1:]]
        b = [int(x) for x in parts[2].split()[1:]]
        n = int(parts[3].split("=")[1])
    except ValueError:
        return None
    return parts[0].split(), f, b, n


def rank_oracle(lines, out):
    """Independent of the Lean model: does the implementation's own output contradict C17?"""
    slot = {}     # slot -> rank
    joined = {}
    for k, l in enumerate(lines):
        w = l.split()
        if k >= len(out) or not out[k]:
            return "line %d `%s`: no output (implementation stopped)" % (k, l)
        if out[k] == "bad-op":
            continue
        pd = parse_dump(out[k])
        if pd is None:
            return "line %d `%s`: unparsable / corrupt list dump `%s`" % (k, l, out[k])
        o, f, b, n = pd
        used = set(slot.values()) | {0}
        op = w[0]
        i = int(w[1]) if len(w) > 1 else None
        if op == "create":
            exp = mex(used)
            if o[1:] != [OK, "rank=%d" % exp]:
                return "line %d `%s`: %s, but the smallest unused rank is %d (live ranks %s)" % (k, l, o[1:], exp, sorted(used))
            slot[i] = exp
            joined[i] = False
        elif op == "createw":
            r = int(w[2])
            if r >= 0 and r not in used:
                if o[1:] != [OK, "rank=%d" % r]:
                    return "line %d `%s`: rank %d is unused but the call reported %s" % (k, l, r, o[1:])
                slot[i] = r
                joined[i] = False
            elif o[1:] != [ER]:
                return "line %d `%s`: rank %d is %s but the call reported %s" % (k, l, r, "negative" if r < 0 else "held by a live stream", o[1:])
        elif op == "setrank":
            r = int(w[2])
            if i == -1 or i not in slot:
                exp = [EX]
            elif r < 0:
                exp = [ER]
            elif r == slot[i] or r not in used:
                exp = [OK]
                slot[i] = r
            else:
                exp = [ER]
            if o[1:] != exp:
                return "line %d `%s`: reported %s, expected %s (live ranks %s)" % (k, l, o[1:], exp, sorted(used))
        elif op == "free":
            exp = [OK] if i in slot else [EX]
            if o[1:] != exp:
                return "line %d `%s`: reported %s, expected %s" % (k, l, o[1:], exp)
            if i in slot:
                del slot[i]
                del joined[i]
        elif op == "join":
            exp = [OK] if i in slot else [EX]
            if o[1:] != exp:
                return "line %d `%s`: reported %s, expected %s" % (k, l, o[1:], exp)
            if i in slot:
                joined[i] = True
        elif op == "revive":
            exp = [OK] if i in slot and joined[i] else [EX]
            if o[1:] != exp:
                return "line %d `%s`: reported %s, expected %s" % (k, l, o[1:], exp)
            if i in slot:
                joined[i] = False
        elif op == "getrank":
            exp = [OK, "rank=0"] if i == -1 else ([OK, "rank=%d" % slot[i]] if i in slot else [EX])
            if o[1:] != exp:
                return "line %d `%s`: reported %s, expected %s" % (k, l, o[1:], exp)
        elif op == "getnum":
            if o[1:] != [OK, "num=%d" % (1 + len(slot))]:
                return "line %d `%s`: reported %s with %d live streams" % (k, l, o[1:], 1 + len(slot))
        elif op == "selfrank":
            if o[1:] != [OK, "rank=0"]:
                return "line %d `%s`: reported %s" % (k, l, o[1:])
        elif op == "work":
            if i in slot and not joined[i]:
                if o[1:] != [OK, "ran-on=%d" % slot[i]]:
                    return "line %d `%s`: a running stream with rank %d did not run the ULT: %s" % (k, l, slot[i], o[1:])
        now = sorted(set(slot.values()) | {0})
        if len(now) != 1 + len(slot):
            return "line %d `%s`: two live streams hold the same rank %s" % (k, l, sorted(slot.values()))
        if f != now:
            return "line %d `%s`: list (forward) holds ranks %s, live streams hold %s" % (k, l, f, now)
        if b != now[::-1]:
            return "line %d `%s`: backward walk (p_prev) gives %s, forward %s" % (k, l, b, f)
        if n != len(now):
            return "line %d `%s`: num_xstreams=%d with %d live streams" % (k, l, n, len(now))
        if f[0] != 0:
            return "line %d `%s`: head of the list is not the primary stream's rank 0" % (k, l)
    return None


def run_impl(exe, lines, timeout=180):
    env = {"ABT_MAX_NUM_XSTREAMS": "128"}
    return D.run_lines([exe], lines, timeout=timeout, env=env)


def rank_disagreement(exe, lines, timeout=180):
    rc_c, out_c, err_c = run_impl(exe, lines, timeout=timeout)
    rc_m, out_m, err_m = model_lines("rank", lines)
    if rc_m != 0:
        return {"kind": "model-driver-failed", "rc": rc_m, "stderr": err_m[-2000:]}
    if rc_c != 0:
        return {"kind": "impl-crash" if rc_c != -999 else "impl-timeout", "rc": rc_c, "stderr": err_c[-3000:],
                "impl_out_tail": out_c[-5:]}
    d = D.first_diff(out_c, out_m)
    if d is None:
        return None
    return {"kind": "output-differs", "line": d[0], "impl": d[1], "model": d[2]}


def classify_t2(res, what, exe, lines, d, ret_code_hist):
    vh = D.violating_history(lines, lambda ls: run_impl(exe, ls), rank_oracle, budget=120)
    if vh:
        small, why = vh
        rc, out_c, err = run_impl(exe, small)
        res.violation("C17 violated by the implementation: " + why,
                      {"correspondence": what, "ops": small, "disagreement": rank_disagreement(exe, small) or d,
                       "impl_output": out_c[-40:], "oracle": why})
        return
    # a hanging implementation (e.g. a cycle in the stream list) costs one timeout per probe: keep the probes short
    small = D.ddmin(lines, lambda ls: rank_disagreement(exe, ls, timeout=8) is not None, budget=80)
    d2 = rank_disagreement(exe, small, timeout=30) or d
    rc, out_c, err = run_impl(exe, small, timeout=30)
    if rc == 0:
        why = rank_oracle(small, out_c)
    elif rc == -999:
        why = "implementation hangs (timeout)"
    else:
        why = "implementation aborted (rc %s): %s" % (rc, err.strip().split("\n")[-1][-400:] if err.strip() else "")
        ow = rank_oracle(small, out_c[:-1])
        if ow and "no output" not in ow:
            why += " ; before that: " + ow
    rep = {"correspondence": what, "ops": small, "disagreement": d2, "impl_output": out_c[-40:], "oracle": why}
    if why:
        res.violation("C17 violated by the implementation: " + why, rep)
    else:
        res.violation("T2 rank correspondence broken (implementation output still satisfies C17 on this input)", rep, no_input=True)


def t2_ranks(res, tier, broken, exe):
    rng = C.Rng(res.seed * 7919 + 17)
    rounds, nops = (5, 300) if tier == "quick" else (40, 5000)
    ophist, rchist = collections.Counter(), collections.Counter()
    nl = 0
    for r in range(rounds):
        lines, hist = gen_rank_ops(rng, nops, lifecycle=(r % 2 == 0))
        ophist.update(hist)
        nl += len(lines)
        rc, out_c, err = run_impl(exe, lines)
        for o in out_c:
            w = o.split(" | ")[0].split()
            if len(w) >= 2:
                rchist[w[0] + ":" + w[1]] += 1
        rc_m, out_m, err_m = model_lines("rank", lines)
        if rc_m != 0:
            res.violation("model driver failed", {"stderr": err_m[-1500:], "ops": lines[:50]}, no_input=True)
            break
        if r == 0:
            res.sample({"rank_ops": lines[:10], "impl_output": out_c[:10]})
        dd = None
        if rc != 0:
            dd = {"kind": "impl-crash" if rc != -999 else "impl-timeout", "rc": rc, "stderr": err[-1500:]}
        else:
            fd = D.first_diff(out_c, out_m)
            if fd is not None:
                dd = {"kind": "output-differs", "line": fd[0], "impl": fd[1], "model": fd[2]}
            else:
                # outputs equal: the oracle must accept them too (guards against a model that is wrong in the same way)
                why = rank_oracle(lines, out_c)
                if why:
                    res.violation("C17 violated (model and implementation agree, oracle does not): " + why,
                                  {"correspondence": "T2 ranks", "ops": lines, "oracle": why})
                    break
        if dd is not None:
            classify_t2(res, "T2 ranks (harness/api_ranks.c vs Model.Rank)", exe, lines, dd, rchist)
            break
    res.add_cov(programs=rounds, rank_histories=rounds, rank_ops_compared=nl, rank_op_histogram=dict(ophist),
                rank_return_code_histogram=dict(rchist))


def t2_cycles(res, tier, broken, exe):
    rng = C.Rng(res.seed * 104729 + 3)
    ncycles = 25 if tier == "quick" else 200
    lines = gen_cycles(rng, ncycles)
    d = rank_disagreement(exe, lines)
    nrev = sum(1 for l in lines if l.startswith("revive"))
    res.add_cov(lifecycle_cycles=ncycles, lifecycle_ops=len(lines), revives=nrev,
                work_after_revive=sum(1 for l in lines if l.startswith("work")))
    if d is not None:
        classify_t2(res, "T2c join/revive/free cycles (harness/api_ranks.c vs Model.Rank)", exe, lines, d, None)
        return
    rc, out_c, err = run_impl(exe, lines)
    why = rank_oracle(lines, out_c)
    if why:
        res.violation("C17 violated in a join/revive/free cycle: " + why, {"ops": lines, "oracle": why})
    res.sample({"cycle_ops": lines[:14]})


# --------------------------------------------------------------------------
# T3r: concurrent creators
# --------------------------------------------------------------------------
def run_prog(cmd, timeout, env=None):
    e = dict(os.environ)
    e["ABT_MAX_NUM_XSTREAMS"] = "128"
    if env:
        e.update(env)
    try:
        p = subprocess.run(cmd, stdout=subprocess.PIPE, stderr=subprocess.PIPE, timeout=timeout, env=e)
    except subprocess.TimeoutExpired as ex:
        return -999, (ex.stdout or b"").decode("utf-8", "replace"), "timeout"
    return p.returncode, p.stdout.decode("utf-8", "replace"), p.stderr.decode("utf-8", "replace")


def race_check(out):
    """quiescent-state oracle on the harness' final dumps"""
    ls = [l for l in out.split("\n") if l.startswith("race")]
    if len(ls) < 2 or not ls[-2].startswith("race ok") or not ls[-1].startswith("race-end"):
        return "race run did not finish cleanly: " + " / ".join(ls[-3:])
    for l in ls[-2:]:
        pd = parse_dump(l)
        if pd is None:
            return "unparsable dump " + l
        _, f, b, n = pd
        if f != sorted(set(f)) or b != f[::-1] or n != len(f) or f[0] != 0:
            return "list not sorted/distinct/consistent after the race: " + l
    if " num=%d" % 1 not in ls[-1]:
        return "get_num != 1 after every racing stream was freed: " + ls[-1]
    return None


def t3_race(res, tier, broken, exe):
    runs, iters = (3, 250) if tier == "quick" else (24, 2500)
    tot = collections.Counter()
    for k in range(runs):
        args = [str(res.seed * 1000 + k), str(3 + k % 3), str(2 + k % 2), str(iters)]
        rc, out, err = run_prog([exe, "race"] + args, timeout=300)
        bad = [l for l in out.split("\n") if "VIOLATION" in l]
        why = None
        if bad:
            why = bad[0]
        elif rc != 0:
            why = "race run rc=%s %s" % (rc, err.strip()[-300:])
        else:
            why = race_check(out)
        for l in out.split("\n"):
            if l.startswith("race ok"):
                for kv in l.split(" | ")[0].split()[2:]:
                    a, b = kv.split("=")
                    if a not in ("num", "expect"):
                        tot[a] += int(b)
        if why:
            res.violation("concurrent rank operations: " + why, {"race": args, "output": out[-1500:], "stderr": err[-800:]})
            break
    res.add_cov(race_runs=runs, race_op_histogram=dict(tot))


# --------------------------------------------------------------------------
# T3x: abtd_stream.c under a controlled scheduler vs Model.XsCtx
# --------------------------------------------------------------------------
def gen_xs_schedule(rng, nsteps):
    ops = []
    for _ in range(1 + rng.below(3)):
        ops += ["join"] * (1 + rng.below(2))
        if rng.chance(2, 3):
            ops += ["revive"]
        else:
            break
    if ops[-1] == "revive":
        ops += ["join"]
    if rng.chance(3, 4):
        ops += ["free"]
    lines = ["ops " + " ".join(ops)]
    bias = rng.below(5)       # 0..4: how much the caller is favoured over the thread
    for _ in range(nsteps):
        r = rng.below(100)
        if r < 8:
            lines.append("spur " + rng.choice(["T", "C"]))
        else:
            a = "C" if rng.below(6) < 1 + bias else "T"
            if rng.chance(1, 5):
                a += " " + rng.choice(["T", "C"])
            lines.append(a)
    return lines


def xs_oracle(lines, out):
    """Independent reading of the implementation's own event log: did a join return before the native
    thread left thread_f and stored WAITING?  did thread_f run without a request?  did free return
    before the thread was gone?  did one of the file's own assertions fail?"""
    t_entered = 0          # times T entered thread_f
    t_waiting = False      # T passed `state = WAITING; cond_wait` since it last entered thread_f
    revives = 0
    t_finished = False
    for k, o in enumerate(out):
        if not o:
            continue
        if "ASSERT-FAIL" in o:
            return "line %d: an ABTI_ASSERT of abtd_stream.c failed: %s" % (k, o)
        w = o.split()
        if len(w) < 2 or w[1] in ("disabled", "finished", "ok"):
            if len(w) >= 2 and w[0] == "T" and w[1] == "finished":
                t_finished = True
            continue
        kv = dict(x.split("=", 1) for x in w[2:] if "=" in x)
        if w[0] == "T":
            if kv.get("next") == "ret" and w[1] in ("start", "unlock"):
                t_entered += 1
                t_waiting = False
                if t_entered > 1 + revives:
                    return "line %d: thread_f entered %d times with %d revive requests" % (k, t_entered, revives)
            if w[1] == "wait":
                t_waiting = True
            if kv.get("next") == "finished":
                t_finished = True
        else:
            if w[1] == "signal" and kv.get("st") == "RUNNING":
                revives += 1
            r = kv.get("returned")
            if r == "join":
                if kv.get("st") != "WAITING" or not t_waiting:
                    return ("line %d: ABTD_xstream_context_join returned with state %s while the native thread had %s"
                            % (k, kv.get("st"), "stored WAITING" if t_waiting else "not yet reached its wait"))
                if t_entered != 1 + revives:
                    return "line %d: join returned but thread_f ran %d times for %d requests" % (k, t_entered, 1 + revives)
            if r == "free" and not t_finished:
                return "line %d: ABTD_xstream_context_free returned while the native thread still exists" % k
    return None


def t3_xsctx(res, tier, broken):
    exe = C.cc_harness("wb_xsctx", ["wb_xsctx.c"], "plain")
    rng = C.Rng(res.seed * 15485863 + 9)
    nsched, nsteps = (160, 140) if tier == "quick" else (2500, 220)
    evh = collections.Counter()
    nev = 0
    done_ops = collections.Counter()
    seen = set()
    for k in range(nsched):
        lines = gen_xs_schedule(rng, nsteps)
        rc, out_c, err = D.run_lines([exe], lines, timeout=60)
        rc_m, out_m, err_m = model_lines("xsctx", lines)
        if rc_m != 0:
            res.violation("model driver failed", {"stderr": err_m[-1500:], "schedule": lines[:40]}, no_input=True)
            break
        for o in out_c:
            w = o.split()
            if len(w) >= 2 and w[1] not in ("disabled", "ok", "finished"):
                evh[w[0] + ":" + w[1]] += 1
                nev += 1
                for x in w:
                    if x.startswith("returned="):
                        done_ops[x[9:]] += 1
        seen.add(tuple(o for o in out_c if "disabled" not in o))
        fd = D.first_diff(out_c, out_m) if rc in (0, 3) else (0, "rc=%s %s" % (rc, err[-300:]), "")
        if k == 0:
            res.sample({"xsctx_schedule": lines[:12], "impl_events": out_c[:12]})
        if fd is None and rc == 0:
            why = xs_oracle(lines, out_c)
            if why:
                res.violation("C17 (stream context) violated, model and implementation agree: " + why,
                              {"xs_schedule": lines, "oracle": why})
                break
            continue

        def differs(ls):
            r1, o1, _ = D.run_lines([exe], ls, timeout=60)
            r2, o2, _ = model_lines("xsctx", ls)
            return r1 not in (0,) or D.first_diff(o1, o2) is not None
        small = D.ddmin(lines, differs, keep_prefix=1, budget=150)
        rc2, out2, err2 = D.run_lines([exe], small, timeout=60)
        _, outm2, _ = model_lines("xsctx", small)
        why = xs_oracle(small, out2)
        if rc2 not in (0, 3) and not why:
            why = "implementation aborted rc=%s %s" % (rc2, err2[-300:])
        rep = {"correspondence": "T3x abtd_stream.c under virtual pthread primitives (harness/wb_xsctx.c) vs Model.XsCtx",
               "xs_schedule": small, "impl_events": out2, "model_events": outm2,
               "first_difference": D.first_diff(out2, outm2), "oracle": why}
        if why:
            res.violation("C17 violated by abtd_stream.c under this interleaving: " + why, rep)
        else:
            res.violation("T3x correspondence broken (abtd_stream.c no longer follows Model.XsCtx; no property "
                          "violation visible on this schedule)", rep, no_input=True)
        break
    res.add_cov(traces_validated_against_impl=nsched, xsctx_events=nev, xsctx_distinct_schedules=len(seen),
                xsctx_event_histogram=dict(evh), xsctx_ops_completed=dict(done_ops))


# --------------------------------------------------------------------------
# RP + F7: main scheduler replacement
# --------------------------------------------------------------------------
def rp_single(res, tier, broken, exe):
    runs, rounds = (4, 10) if tier == "quick" else (30, 14)
    kinds = collections.Counter()
    n = 0
    for k in range(runs):
        args = [str(res.seed * 131 + k), str(rounds)]
        rc, out, err = run_prog([exe, "replace"] + args, timeout=120)
        for l in out.split("\n"):
            if l.startswith("replace round="):
                n += 1
                kinds[l.split()[2] + "," + l.split()[4]] += 1
        if rc != 0 or "replace ok" not in out:
            last = [l for l in out.split("\n") if l.strip()][-2:]
            res.violation("main scheduler replacement (one caller at a time) broke: rc=%s %s %s" % (rc, " / ".join(last), err.strip()[-300:]),
                          {"replace": args, "output": out[-2000:], "stderr": err[-800:]})
            break
    res.add_cov(replace_runs=runs, replacements_completed=n, replacement_kinds=dict(kinds))
    if n:
        res.sample({"replace": "%d consecutive replacements per run, caller continued and all pending units ran" % rounds})


F7_SRC = os.path.join(C.VERIF, "corpus", "findings", "f7_double_replace.c")


def f7_outcome(exe, variant):
    rc, out, err = run_prog([exe] + ([variant] if variant else []), timeout=30)
    line = ([l for l in out.split("\n") if l.startswith("f7 ")] or [""])[-1]
    return rc, line, err


def f7_overlap(res, tier, broken):
    """The overlapping-replacement scenario.  Fails on the unchanged tree exactly as the open finding F7
    describes; anything else that goes wrong here is a violation."""
    exe = C.cc_harness("f7_double_replace", [F7_SRC], "plain")
    openf = [f for f in C.open_findings("C17") if "second-replacement-while-first-pending" in f.get("signature", "")]
    rc_u, line_u, err_u = f7_outcome(exe, None)
    rc_a, line_a, err_a = f7_outcome(exe, "auto")
    # the finding's own description: user pools -> first caller stranded in X0 (done=01, X0.size=1, second caller
    # and the stream fine); automatic pools -> crash (signal) or the same stranding / hang
    u_ok = rc_u == 0
    u_as_finding = rc_u == 1 and "done=01" in line_u and "X0.size=1" in line_u and "stream-runs-work=1" in line_u
    a_ok = rc_a == 0
    a_as_finding = (rc_a < 0 and rc_a != -999) or rc_a == -999 or (rc_a == 1 and "done=01" in line_a)
    res.add_cov(f7_user_pools="rc=%s %s" % (rc_u, line_u), f7_automatic_pools="rc=%s %s" % (rc_a, line_a))
    rep = {"f7": True, "user_pools": [rc_u, line_u, err_u[-400:]], "automatic_pools": [rc_a, line_a, err_a[-400:]]}
    if u_ok and a_ok:
        return
    if (u_ok or u_as_finding) and (a_ok or a_as_finding) and openf:
        res.known_finding(openf[0]["what"])
        return
    if not openf:
        res.violation("two overlapping main-scheduler replacements on one stream: the first caller never continues "
                      "(user pools: %s ; automatic pools: rc=%s %s)" % (line_u, rc_a, line_a), rep)
    else:
        res.violation("overlapping main-scheduler replacement fails differently from the open finding F7 "
                      "(user pools: rc=%s %s ; automatic pools: rc=%s %s)" % (rc_u, line_u, rc_a, line_a), rep)


def wb_stale_prev(res, tier, broken):
    """Latent path (unreachable through the API, Props.C17.rank_head_is_primary): xstream_change_rank moving a
    node in front of the head leaves its old p_prev.  The model predicts the exact fields
    (Props.C17.change_rank_head_insert_stale_prev: a=2, b=3); the static C functions are run on the same list."""
    exe = C.cc_harness("api_ranks_wb", ["api_ranks.c"], "plain", defs="-DWB_STREAM_C")
    rc, out, err = run_prog([exe, "wbstale"], timeout=30)
    exp = "wbstale granted=1 head=b b.rank=1 b.prev=a b.next=a a.prev=b a.next=NULL"
    got = out.strip().split("\n")[-1] if out.strip() else "rc=%s %s" % (rc, err[-200:])
    res.add_cov(latent_head_insert_stale_p_prev=got)
    if got != exp:
        res.violation("white-box xstream_change_rank on [a(3), b(5)] -> b:=1 differs from Model.Rank "
                      "(model: %s ; code: %s)" % (exp, got), {"wbstale": True, "expected": exp, "got": got}, no_input=True)


# --------------------------------------------------------------------------
# T1 + T3c: the lock scope of rank allocation (Model.RankConc)
# --------------------------------------------------------------------------
T1_FUNCS = [("stream.c", f) for f in [
    "ABT_xstream_create", "ABT_xstream_create_basic", "ABT_xstream_create_with_rank", "xstream_create",
    "xstream_set_new_rank", "xstream_change_rank", "ABT_xstream_set_rank", "xstream_return_rank",
    "xstream_add_xstream_list", "xstream_remove_xstream_list", "xstream_update_max_xstreams",
    "ABT_xstream_get_num", "ABT_xstream_get_rank", "ABT_xstream_free", "ABTI_xstream_free",
    "ABTD_spinlock_acquire", "ABTD_spinlock_release", "ABTD_spinlock_is_locked"]]

RANKS_SC = ("sc_ranks", ["sc_ranks.c"])


def ranks_params(rng):
    """<nbase> <nactors> <rounds> <ext%> <nranks> <busy%>: few ranks in the contended window so that creators collide;
    busy% of the created streams execute a yielding ULT while their owner frees them"""
    return [rng.below(3), 2 + rng.below(5), 2 + rng.below(4), rng.choice([0, 30, 50, 100]), 1 + rng.below(4),
            rng.choice([0, 40, 70, 100])]


def t1_ranks(res, broken):
    n, tb = t1.check(T1_FUNCS)
    res.add_cov(t1_functions=n, t1_broken=len(tb))
    for b in tb:
        broken.append({"kind": "T1-skeleton", **b})


def t3_conc(res, tier, broken):
    stats = collections.Counter()

    def validate(lg, params):
        return t3_ranks.validate(lg, params, stats)

    t0 = time.time()
    vs.campaign(res, broken, tier, "C17", RANKS_SC[0], RANKS_SC[1], ranks_params, validate,
                sizes={"quick": (16, 4), "thorough": (200, 8), "search": (150, 6)},
                reject_is_failure=t3_ranks.reject_is_failure)
    res.add_cov(rankconc_wall_s=round(time.time() - t0, 1),
                rankconc_busy_streams=stats["harness_busy"], rankconc_frees_of_a_stream_still_executing=stats["harness_free_while_busy"],
                rankconc_create_or_claim_while_a_stream_is_busy=stats["harness_claims_while_busy"],
                rankconc_frees_of_running_stream=stats["free_of_running_stream"],
                rankconc_joins_completed_inside_free=stats["joins_completed_inside_free"],
                rankconc_calls_projected=stats["calls"], rankconc_call_histogram={k[5:]: v for k, v in stats.items() if k.startswith("call_")},
                rankconc_critical_sections=stats["critical_sections"], rankconc_lock_contended_tas=stats["tas_failed"],
                rankconc_creators_overlapping_another_creator=stats["creators_overlapping_another_creator"],
                rankconc_same_rank_races=stats["same_rank_races"], rankconc_same_rank_race_won=stats["same_rank_race_won"],
                rankconc_same_rank_race_lost=stats["same_rank_race_lost"])


# --------------------------------------------------------------------------
# T1l + T3l: the join / cancel / exit / revive / free life cycle in stream.c itself (Model.XsLife)
# --------------------------------------------------------------------------
T1_LIFE = ([("stream.c", f) for f in [
    "ABT_xstream_join", "xstream_join", "ABT_xstream_revive", "ABT_xstream_cancel", "ABT_xstream_exit",
    "ABT_xstream_free", "ABTI_xstream_free", "ABT_xstream_get_state", "xstream_launch_root_ythread",
    "ABTI_xstream_check_events"]] +
    [("thread.c", f) for f in [
        "thread_root_func", "thread_main_sched_func", "ABTI_thread_revive", "thread_revive", "ABTI_thread_join",
        "ABTI_thread_handle_request_cancel", "ABTI_ythread_schedule", "ABTI_thread_handle_request"]] +
    [("arch/abtd_stream.c", f) for f in [
        "xstream_context_thread_func", "ABTD_xstream_context_create", "ABTD_xstream_context_free",
        "ABTD_xstream_context_join", "ABTD_xstream_context_revive"]] +
    [("sched/sched.c", f) for f in ["ABTI_sched_finish", "ABTI_sched_exit", "ABTI_sched_has_to_stop"]])

LIFE_SC = ("sc_xslife", ["sc_xslife.c"])


def life_params(rng):
    """<nstreams> <ops per stream> <ext%> <par%>"""
    return [1 + rng.below(3), 6 + rng.below(18), rng.choice([0, 30, 50, 70, 100]), rng.choice([0, 50, 80])]


def life_log():
    return os.path.join(C.BUILD, "logs", "C17xl-%d.log" % os.getpid())


def life_reject_is_failure(rj):
    """Model.XsLife's guards are clauses of the property (join returns only with a parked context; revive / free act on a
    WAITING context; a scheduler stops only on request; get_state reports the life cycle): a real execution the model
    rejects is a failing history.  Lines the projection could not attribute are problems of the tie, not failures."""
    r = rj.get("reject", "")
    if not r.startswith("REJECT") or "bad-op" in r or "unattributed" in r or "unexpected-" in r or "missing-offset" in r:
        return None
    return "execution of the real library leaves the life-cycle automaton Model.XsLife (%s): %s" % (rj.get("object", ""), r[:400])


def t1_life(res, broken):
    n, tb = t1.check(T1_LIFE)
    res.add_cov(t1_functions=n, t1_broken=len(tb), xslife_t1_functions=n)
    for b in tb:
        broken.append({"kind": "T1-skeleton", **b})


def _campaign_cov(res, tag):
    """vs.campaign overwrites its non-numeric coverage keys: keep each campaign's own copy"""
    keys = ["programs_and_schedules", "outcomes", "model_transitions"]
    res.cov[tag] = {k: res.cov.get(k) for k in keys}
    return set(res.cov.get("model_transitions") or [])


def t3_life(res, tier, broken):
    stats = collections.Counter()

    def validate(lg, params):
        return t3_xslife.validate(lg, params, stats, path=life_log())

    t0 = time.time()
    vs.campaign(res, broken, tier, "C17xl", LIFE_SC[0], LIFE_SC[1], life_params, validate,
                sizes={"quick": (44, 4), "thorough": (500, 8), "search": (400, 6)}, reject_is_failure=life_reject_is_failure)
    res.add_cov(xslife_wall_s=round(time.time() - t0, 1),
                xslife_stream_lives=stats["lives"], xslife_calls={k[5:]: v for k, v in stats.items() if k.startswith("call_")},
                xslife_cancels=stats["cancel"], xslife_exits_by_a_ULT=stats["exit_by_a_ULT"], xslife_pushes=stats["push"],
                xslife_get_state={k[10:]: v for k, v in stats.items() if k.startswith("get_state_")},
                xslife_revives_by_cause_of_termination={k[14:]: v for k, v in stats.items() if k.startswith("revives_after_")},
                xslife_joins_between_TERMINATED_visible_and_thread_parked=stats["joins_issued_between_TERMINATED_visible_and_native_thread_parked"],
                xslife_joins_after_thread_parked=stats["joins_after_the_native_thread_parked"],
                xslife_joins_of_joined_stream=stats["joins_of_an_already_joined_stream"],
                xslife_context_joins_that_slept=stats["context_joins_that_slept"],
                xslife_main_scheduler_cancelled_before_start=stats["main_scheduler_cancelled_before_it_started"],
                xslife_started_before_named=stats["main_scheduler_started_before_the_stream_was_named"])


# --------------------------------------------------------------------------
def run(res, tier, broken):
    t0 = time.time()
    exe = C.cc_harness("api_ranks", ["api_ranks.c"], "plain")
    snapshot_driver()
    try:
        t1_ranks(res, broken)
        t1_life(res, broken)
        t3_life(res, tier, broken)
        tr_life = _campaign_cov(res, "campaign_xslife")
        t3_conc(res, tier, broken)
        tr_ranks = _campaign_cov(res, "campaign_ranks")
        res.cov["model_transitions"] = sorted(tr_life | tr_ranks)
        res.cov["model_transitions_exercised"] = len(tr_life | tr_ranks)
        def found():
            # a concrete failing input exists already: the remaining long native runs on real pthreads (each probe
            # of a hanging implementation costs a full timeout) cannot change the verdict and are skipped
            return any(not ni for (_, ni, _) in res.violations)

        t2_ranks(res, tier, broken, exe)
        skipped = []
        for name, phase in (("t2_cycles", lambda: t2_cycles(res, tier, broken, exe)),
                            ("wb_stale_prev", lambda: wb_stale_prev(res, tier, broken)),
                            ("t3_race", lambda: t3_race(res, tier, broken, exe)),
                            ("t3_xsctx", lambda: t3_xsctx(res, tier, broken)),
                            ("rp_single", lambda: rp_single(res, tier, broken, exe))):
            if found() and name in ("t2_cycles", "t3_race", "rp_single"):
                skipped.append(name)
                continue
            phase()
        if skipped:
            res.add_cov(skipped_after_a_failing_input_was_found=skipped)
        f7_overlap(res, tier, broken)
    finally:
        drop_driver()
    res.add_cov(dynamic_wall_s=round(time.time() - t0, 1))


def replay(res, path):
    rep = json.load(open(path))
    if rep.get("scenario") == RANKS_SC[0]:
        return vs.replay(RANKS_SC[0], RANKS_SC[1], path, lambda lg, params: t3_ranks.validate(lg, params))
    if rep.get("scenario") == LIFE_SC[0]:
        rlog = os.path.join(C.BUILD, "logs", "replay-%d.log" % os.getpid())
        return vs.replay(LIFE_SC[0], LIFE_SC[1], path, lambda lg, params: t3_xslife.validate(lg, params, path=rlog))
    exe = C.cc_harness("api_ranks", ["api_ranks.c"], "plain")
    if "ops" in rep:
        d = rank_disagreement(exe, rep["ops"])
        rc, out_c, err = run_impl(exe, rep["ops"])
        why = rank_oracle(rep["ops"], out_c) if rc == 0 else "implementation aborted / hung rc=%s: %s" % (rc, err[-500:])
        print("disagreement:", d)
        print("oracle:", why)
        return 1 if (d or why) else 0
    if "race" in rep:
        rc, out, err = run_prog([exe, "race"] + rep["race"], timeout=300)
        print(out[-1500:], err[-500:])
        return 1 if (rc != 0 or "VIOLATION" in out or race_check(out)) else 0
    if "replace" in rep:
        rc, out, err = run_prog([exe, "replace"] + rep["replace"], timeout=120)
        print(out[-1500:], err[-500:])
        return 1 if (rc != 0 or "replace ok" not in out) else 0
    if "wbstale" in rep:
        wexe = C.cc_harness("api_ranks_wb", ["api_ranks.c"], "plain", defs="-DWB_STREAM_C")
        rc, out, err = run_prog([wexe, "wbstale"], timeout=30)
        print("expected:", rep.get("expected"))
        print("got     :", out.strip())
        return 0 if out.strip() == rep.get("expected") else 1
    if "xs_schedule" in rep:
        xexe = C.cc_harness("wb_xsctx", ["wb_xsctx.c"], "plain")
        rc, out_c, err = D.run_lines([xexe], rep["xs_schedule"], timeout=60)
        _, out_m, _ = model_lines("xsctx", rep["xs_schedule"])
        fd = D.first_diff(out_c, out_m)
        why = xs_oracle(rep["xs_schedule"], out_c)
        print("first difference (impl, model):", fd)
        print("oracle:", why)
        return 1 if (fd or why or rc != 0) else 0
    if "f7" in rep:
        fexe = C.cc_harness("f7_double_replace", [F7_SRC], "plain")
        rc_u, line_u, _ = f7_outcome(fexe, None)
        rc_a, line_a, _ = f7_outcome(fexe, "auto")
        print("user pools: rc=%s %s" % (rc_u, line_u))
        print("automatic pools: rc=%s %s" % (rc_a, line_a))
        return 1 if (rc_u != 0 or rc_a != 0) else 0
    print("replay file names a broken obligation without a failing input:", rep.get("broken"))
    return 1
