"""C11 — suspend/resume and directed switches hand control exactly as documented.
Ties: T1 (skeletons of the scheduling / context-switch / life-cycle functions), T3 (vsched traces of generated work-unit
programs validated against Model.Sched), scenario monitors + deadlock detection for the failing-input search."""
from checks import sched_common as S

ASSUMPTIONS = list(S.BASE_ASSUMPTIONS)
EXTRA_T1 = [('self.c', 'ABT_self_suspend'), ('thread.c', 'ABT_thread_resume'), ('thread.c', 'ABT_thread_yield_to'), ('self.c', 'ABT_self_yield_to'), ('self.c', 'ABT_self_resume_yield_to'), ('self.c', 'ABT_self_suspend_to'), ('self.c', 'ABT_self_resume_suspend_to'), ('self.c', 'ABT_self_exit_to'), ('self.c', 'ABT_self_resume_exit_to'), ('thread.c', 'ABTI_ythread_yield_to'), ('thread.c', 'ABTI_ythread_thread_yield_to'), ('thread.c', 'ABTI_ythread_resume_yield_to'), ('thread.c', 'ABTI_ythread_suspend_to'), ('thread.c', 'ABTI_ythread_resume_suspend_to'), ('thread.c', 'ABTI_ythread_exit_to'), ('thread.c', 'ABTI_ythread_resume_exit_to')]


def run(res, tier, broken):
    S.run_sched(res, tier, broken, "C11", EXTRA_T1)


def replay(res, path):
    return S.replay(res, path)
