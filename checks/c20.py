"""C20 — configuration objects are exact maps; textual settings parse exactly and safely.
Correspondence: T2 differential (real ABTU_hashtable under ASan/UBSan vs Lean Model.HTable)."""
import collections
from vlib import common as C
from vlib import diff as D
from checks import c20_parsers as P

ASSUMPTIONS = [
    "hashtable chain nodes modelled as a list in link order (pointer identity of malloc'ed nodes not observable)",
    "values modelled as unbounded naturals; the driver uses 8-byte values (data_size = 8)",
    "num_entries > 0 (the C code divides by it; every caller passes a positive constant)",
]

ASSUMPTIONS += P.ASSUMPTIONS

INT_MIN, INT_MAX = -2**31, 2**31 - 1


def gen_htable_ops(rng, nops):
    lines, n = [], 1
    keys = []
    hist = collections.Counter()

    def newtab():
        nonlocal n, keys
        n = rng.choice([1, 2, 3, 4, 4, 8, 8, 16, 5, 7])
        base = [rng.below(40) - 20 for _ in range(6)]
        coll = [base[0] + n * j for j in range(-3, 4)]
        keys = base + coll + [INT_MIN, INT_MAX, INT_MIN + 1, -1, 0, n, -n]
        lines.append("new %d" % n)
        hist["new"] += 1
    newtab()
    for _ in range(nops):
        r = rng.below(100)
        k = rng.choice(keys)
        if r < 2:
            newtab()
        elif r < 45:
            lines.append("set %d %d" % (k, rng.below(1000)))
            hist["set"] += 1
        elif r < 70:
            lines.append("get %d" % k)
            hist["get"] += 1
        else:
            lines.append("del %d" % k)
            hist["del"] += 1
    return lines, hist


def htable_oracle(lines, out):
    """Independent map oracle: does the implementation's own output contradict the property?"""
    m = {}
    for i, l in enumerate(lines):
        if i >= len(out):
            return "missing output for line %d" % i
        w = l.split()
        o = out[i].split(" | ")[0].split()
        if w[0] == "new":
            m = {}
        elif w[0] == "set":
            k, v = int(w[1]), int(w[2])
            exp = "1" if k in m else "0"
            m[k] = v
            if o != ["set", exp]:
                return "line %d `%s`: reported %s, a map reports set %s" % (i, l, o, exp)
        elif w[0] == "get":
            k = int(w[1])
            exp = str(m[k]) if k in m else "none"
            if o != ["get", exp]:
                return "line %d `%s`: reported %s, a map reports get %s" % (i, l, o, exp)
        elif w[0] == "del":
            k = int(w[1])
            exp = "1" if k in m else "0"
            m.pop(k, None)
            if o != ["del", exp] and not (o == ["del", "untouched"] and exp == "0"):
                return "line %d `%s`: reported %s, a map reports del %s" % (i, l, o, exp)
    return None


def t2_htable(res, tier, broken):
    exe = C.cc_harness("wb_htable", ["wb_htable.c"], "san")
    rng = C.Rng(res.seed * 7919 + 20)
    rounds, nops = (6, 800) if tier == "quick" and not broken else (60, 4000)
    total = collections.Counter()
    nl = 0
    def impl_violates(ls):
        rc, out_c, err = D.run_lines([exe], ls)
        if rc != 0:
            return "implementation aborted (sanitizer/assert): " + err[-800:]
        return htable_oracle(ls, out_c)

    first_disagreement = None
    r = 0
    while r < rounds:
        lines, hist = gen_htable_ops(rng, nops)
        total.update(hist)
        nl += len(lines)
        r += 1
        d = D.compare("htable", exe, lines)
        if r == 1:
            res.sample({"htable_ops": lines[:12]})
        if d is None:
            continue
        # the tie is broken.  Does the implementation's own output contradict the property on this history (not only
        # at the first point where it differs from the model)?
        if impl_violates(lines):
            small = D.ddmin(lines, lambda ls: impl_violates(ls) is not None, keep_prefix=1)
            why = impl_violates(small)
            rc, out_c, err = D.run_lines([exe], small)
            res.violation("hashtable does not behave as a map: " + why,
                          {"correspondence": "T2 htable (harness/wb_htable.c vs Model.HTable)", "ops": small,
                           "disagreement": D.compare("htable", exe, small) or d, "impl_output": out_c, "oracle": why})
            first_disagreement = None
            break
        if first_disagreement is None:
            small = D.ddmin(lines, lambda ls: D.compare("htable", exe, ls) is not None, keep_prefix=1)
            rc, out_c, err = D.run_lines([exe], small)
            first_disagreement = {"correspondence": "T2 htable (harness/wb_htable.c vs Model.HTable)", "ops": small,
                                  "disagreement": D.compare("htable", exe, small) or d, "impl_output": out_c, "oracle": None}
            rounds = max(rounds, 60)      # keep searching for a history on which the map property itself fails
            nops = 4000
    if first_disagreement is not None:
        res.violation("T2 htable correspondence broken (implementation still map-like on every explored history)", first_disagreement,
                      no_input=True)
    res.add_cov(programs=rounds, disagreements_checked=nl, htable_op_histogram=dict(total))


def run(res, tier, broken):
    t2_htable(res, tier, broken)
    P.run(res, tier, broken)


def replay(res, path):
    import json
    rep = json.load(open(path))
    if "family" in rep:
        return P.replay(res, rep)
    exe = C.cc_harness("wb_htable", ["wb_htable.c"], "san")
    if "ops" in rep:
        d = D.compare("htable", exe, rep["ops"])
        rc, out_c, err = D.run_lines([exe], rep["ops"])
        print("disagreement:", d)
        print("oracle:", htable_oracle(rep["ops"], out_c) if rc == 0 else err[-500:])
        return 1 if d else 0
    print("replay file names a broken obligation without a failing input:", rep.get("broken"))
    return 1
