"""C02 — a ULT never runs on two streams at once; its context survives every switch.
Assembly half: checks/c02_asm.py (context-switch routines; Lean Props/C02 over the generated
instruction lists + native differential).  The protocol half is added by the lead."""
import json
from checks import c02_asm

ASSUMPTIONS = list(c02_asm.ASSUMPTIONS)


def run(res, tier, broken):
    c02_asm.run(res, tier, broken)


def replay(res, path):
    rep = json.load(open(path))
    if rep.get("correspondence", "").startswith("C02 asm") or "lines" in rep:
        return c02_asm.replay(res, rep)
    print("replay file names a broken obligation without a failing input:", rep.get("broken"))
    return 1
