"""C02 — a ULT never runs on two streams at once; its context survives every switch.
Assembly half: checks/c02_asm.py (Lean Props/C02 over the instruction lists regenerated from the .S + native
differential).  Protocol half: Model.Sched theorems (single runner, publish after save) + T1 skeletons of the context
switch helpers + T3 campaign of the work-unit scenarios whose monitors check at every context-switch callback that it
does not run on the switched-away unit's own stack and that no unit's function is active on two streams."""
import json
from checks import c02_asm
from checks import sched_common as S

ASSUMPTIONS = list(c02_asm.ASSUMPTIONS) + [
    "protocol half: Model.Sched treats the entry of a context-switch callback as 'old context saved'; this is what fctx_save_before_call_* / fctx_call_on_saved_sp prove for the generated assembly and what the stack-pointer monitor checks on every explored run",
    "callee-saved register canaries across real switches are checked natively per routine (assembly half), not inside the multi-stream scenarios",
]

EXTRA_T1 = [("thread.c", f) for f in [
    "ABTI_ythread_context_switch", "ABTI_ythread_context_jump", "ABTI_ythread_context_switch_with_call",
    "ABTI_ythread_context_jump_with_call", "ABTD_ythread_context_switch", "ABTD_ythread_context_jump",
    "ABTD_ythread_context_switch_with_call", "ABTD_ythread_context_jump_with_call", "ABTD_ythread_context_start_and_switch",
    "ABTD_ythread_context_start_and_jump", "ABTD_ythread_context_start_and_switch_with_call",
    "ABTD_ythread_context_start_and_jump_with_call", "ABTD_ythread_context_init", "ABTD_ythread_context_is_started",
    "ABTI_ythread_suspend_unlock", "ABTI_ythread_suspend_join", "ABTI_ythread_yield_to", "ABTI_ythread_thread_yield_to"]] + [
    ("ythread.c", "ABTI_ythread_callback_suspend_unlock"), ("ythread.c", "ABTI_ythread_callback_yield_create_to"),
    ("ythread.c", "ABTI_ythread_callback_yield_user_yield_to"), ("ythread.c", "ABTI_ythread_callback_yield_revive_to"),
    ("arch/abtd_ythread.c", "ABTD_ythread_func_wrapper")]


def run(res, tier, broken):
    c02_asm.run(res, tier, broken)
    S.run_sched(res, tier, broken, "C02", EXTRA_T1)


def replay(res, path):
    rep = json.load(open(path))
    if rep.get("correspondence", "").startswith("C02 asm") or "lines" in rep:
        return c02_asm.replay(res, rep)
    if "seed" in rep and rep.get("scenario") == "sc_units":
        return S.replay(res, path)
    print("replay file names a broken obligation without a failing input:", rep.get("broken"))
    return 1
