"""C10 — reader-writer lock: a writer excludes everybody, readers share, nobody is stuck.
Ties: T1 (token skeletons of rwlock.c and of the mutex / cond / wait-list functions it calls), T3 (vsched traces of
harness/sc_rwlock.c validated against Model.RWLock, and the embedded ABTI_mutex / ABTI_cond against Model.Mutex /
Model.Cond), property monitors in the scenario (holder counters) and model-independent oracles in the projection
(vlib/t3_rw.py: a reader that blocks must have seen write_flag = 1 in real memory / a wrlock in progress)."""
from vlib import common as C
from vlib import t1, t3, t3_rw, vs

ASSUMPTIONS = [
    "sequentially consistent execution of the atomic primitives (acquire/release annotations not modelled)",
    "Model.RWLock abstracts the internal ABTI_mutex to an atomic acquire/release (justified by C04 mutex_excl, mutex_no_lost_wakeup_safety, mutex_broadcast_wakes_all) and ABTI_cond_wait to 'release the mutex and enter the wait-list atomically; continue only after a broadcast dequeued the caller; re-acquire the mutex' (C05 cond_atomic_release_wait, cond_no_spurious, cond_waiter_queued_until_woken, cond_returns_holding_mutex, cond_signal_broadcast_exact); on every T3 trace the embedded mutex and cond are additionally validated against Model.Mutex / Model.Cond themselves",
    "reader_count / write_flag are plain memory: their updates are attributed to the mutex critical section they occur in (the controlled scheduler has no schedule point between hook points) and compared with the model through the object snapshot taken at every acquire and release of the internal mutex",
    "client discipline (API contract, guards of the model's `call`): unlock is called by a holder; a holder does not call wrlock and the writer does not call rdlock (self-deadlock of the caller otherwise); a reader may lock again as a reader (explored)",
    "the ABT_ERR_INV_MUTEX branch of ABTI_cond_wait inside the rwlock loops is dead (the private cond is only used with the rwlock's own mutex; C05 cond_wrong_mutex_rejected) and not modelled",
    "liveness ('every blocked locker eventually acquires once the current holders unlock') in safety form: rw_no_stuck_safety + rw_unlock_wakes_all + rw_deadlock_free / rw_blocked_has_cause in Lean, termination of every explored schedule by the scheduler's deadlock/livelock detection; OS-thread and scheduler fairness assumed.  The implementation has no writer preference: a writer can be overtaken by readers arriving while other readers still hold (it acquires once reader_count reaches 0 at one of its re-tests); bounded programs are explored",
    "1.x API build: a tasklet calling ABT_rwlock_rdlock / ABT_rwlock_wrlock is rejected with ABT_ERR_RWLOCK before touching the lock (modelled: rw_tasklet_rejected_nochange; tested); tasklets are therefore never lockers.  ABT_rwlock_unlock has no such check but a tasklet never holds",
    "ABT_rwlock_free while callers are inside the lock is undefined by the API and not explored",
]

T1_FUNCS = [("rwlock.c", f) for f in [
    "ABT_rwlock_create", "ABT_rwlock_free", "ABT_rwlock_rdlock", "ABT_rwlock_wrlock", "ABT_rwlock_unlock",
    "ABTI_rwlock_get_ptr", "ABTI_rwlock_get_handle",
    "ABTI_mutex_init", "ABTI_mutex_lock", "ABTI_mutex_lock_no_recursion", "ABTI_mutex_unlock", "ABTI_mutex_unlock_no_recursion",
    "ABTI_cond_init", "ABTI_cond_fini", "ABTI_cond_wait", "ABTI_cond_broadcast",
    "ABTI_waitlist_init", "ABTI_waitlist_wait_and_unlock", "ABTI_waitlist_broadcast", "ABTI_waitlist_is_empty",
    "ABTD_spinlock_acquire", "ABTD_spinlock_try_acquire", "ABTD_spinlock_release", "ABTD_spinlock_is_locked",
    "ABTI_ythread_suspend_unlock", "ABTI_ythread_resume_and_push"]] + [
    ("ythread.c", "ABTI_ythread_callback_suspend_unlock"),
    ("arch/abtd_futex.c", "ABTD_futex_wait_and_unlock"), ("arch/abtd_futex.c", "ABTD_futex_broadcast")]

SOURCES = ["sc_rwlock.c"]
SIZES = {"quick": (32, 3), "thorough": (260, 8), "search": (120, 6)}

# every (event, program counter[, branch]) pair Model.RWLock accepts
ALL_TRANSITIONS = {"rw:" + x for x in [
    "call.rdlock@idle", "call.wrlock@idle", "call.unlock@idle", "call.rdlock.tasklet@idle", "call.wrlock.tasklet@idle",
    "ret@rRejected", "ret@wRejected", "ret@rDone", "ret@wDone", "ret@uDone",
    "mutexLock@rLock", "mutexLock@rWoken", "mutexLock@wLock", "mutexLock@wWoken", "mutexLock@uLock",
    "sleep@rTest", "sleep@wTest", "enq@rSleep", "enq@wSleep",
    "update@rTest", "update@wTest", "update@uUpd/reader", "update@uUpd/writer",
    "wake@uBcast", "mutexUnlock@rUnlock", "mutexUnlock@wUnlock", "mutexUnlock@uBcast", "snap"]}

_stats = {}


def scenario_params(rng):
    nes = 1 + rng.below(3)
    nact = 2 + rng.below(5)
    rounds = 2 + rng.below(3)
    ext = [0, 20, 40, 60][rng.below(4)]
    ntask = [0, 0, 1, 2][rng.below(4)]
    wr = [15, 30, 45, 60][rng.below(4)]
    nest = [0, 15, 30][rng.below(3)]
    return [nes, nact, rounds, ext, ntask, wr, nest, rng.below(2)]


def validate(lg, params):
    return t3_rw.validate(lg, params, "RW0", stats_out=_stats)


def oracle_search(res, tier):
    import os
    exe = vs.build("sc_rwlock", SOURCES)
    rng = C.Rng(res.seed * 7919 + 10)
    logdir = os.path.join(C.BUILD, "logs")
    os.makedirs(logdir, exist_ok=True)
    log = os.path.join(logdir, "C10-oracle-%d.log" % os.getpid())
    nprog, nsched = SIZES["search"]
    tried = 0
    try:
        for p in range(nprog // 2):
            params = scenario_params(rng)
            params[6] = 0          # no nested rdlock: keep programs that cannot deadlock on themselves
            pseed = 1 + rng.below(10 ** 6)
            for k in range(nsched // 2):
                mode = vs.MODES[(p + k) % len(vs.MODES)]
                sseed = pseed * 1000 + k
                rc, err, _ = vs.run(exe, sseed, mode, params, log=log, timeout=180)
                tried += 1
                rep = {"scenario": "sc_rwlock", "params": params, "seed": sseed, "mode": mode,
                       "cmd": "%s %d %s <log> %s" % (exe, sseed, mode, " ".join(map(str, params)))}
                if rc != 0:
                    rep["stderr"] = err[-600:]
                    res.violation("%s: %s" % (vs.RC_TEXT.get(rc, "scenario crashed rc=%d" % rc), err.strip().split("\n")[-1]), rep)
                    return
                _lines, oracle, _st = t3_rw.project_rwlock(t3.Log(log), "RW0")
                if oracle:
                    rep["oracle"] = oracle[:4]
                    res.violation("ORACLE %s: %s (no crash: the run completes, the property statement fails on the recorded trace)"
                                  % (oracle[0]["oracle"], oracle[0]["what"]), rep)
                    return
    finally:
        res.add_cov(oracle_search_runs=tried)
        try:
            os.remove(log)
        except OSError:
            pass


def run(res, tier, broken):
    n, tb = t1.check(T1_FUNCS)
    res.add_cov(t1_functions=n, t1_broken=len(tb))
    for b in tb:
        broken.append({"kind": "T1-skeleton", **b})
    _stats.clear()
    nb = len(broken)
    vs.campaign(res, broken, tier, "C10", "sc_rwlock", SOURCES, scenario_params, validate, sizes=SIZES)
    # a trace on which a model-independent oracle fired is itself a concrete failing schedule for the property statement
    # ("a reader is not blocked when only readers hold it"), whether or not anything crashes
    for b in broken[nb:]:
        if b.get("kind") != "T3-correspondence":
            continue
        orc = [r for r in b.get("replay", {}).get("rejects", []) if r.get("oracle")]
        if orc and not any(not ni for (_, ni, _) in res.violations):
            res.violation(orc[0]["reject"], b["replay"])
    # something is broken (e.g. the T1 skeleton of rwlock.c differs) but no schedule crashed, deadlocked or tripped a C
    # monitor: look for a schedule on which the property statement itself fails without any crash (a caller blocked
    # although the lock state did not require it), using the model-independent oracles on the recorded trace
    if broken and not any(not ni for (_, ni, _) in res.violations):
        oracle_search(res, tier)
    native_depth(res)
    seen = set(res.cov.get("model_transitions", []))
    rw_seen = {x for x in seen if x.startswith("rw:")}
    res.add_cov(rwlock_model_transitions_total=len(ALL_TRANSITIONS),
                rwlock_model_transitions_exercised=len(rw_seen & ALL_TRANSITIONS),
                rwlock_model_transitions_uncovered=sorted(ALL_TRANSITIONS - rw_seen),
                rwlock_model_transitions_unknown=sorted(rw_seen - ALL_TRANSITIONS),
                embedded_mutex_transitions_exercised=len([x for x in seen if x.startswith("mutex:")]),
                embedded_cond_transitions_exercised=len([x for x in seen if x.startswith("cond:")]),
                scenario_statistics=dict(_stats))


def native_depth(res):
    """numbers of outstanding read holds far beyond the controlled scenarios (harness/nat_rwlock_depth.c, real OS threads)"""
    import subprocess
    exe = C.cc_harness("nat_rwlock_depth", ["nat_rwlock_depth.c"], "plain")
    try:
        p = subprocess.run([exe], stdout=subprocess.PIPE, stderr=subprocess.STDOUT, timeout=120)
        rc, out = p.returncode, p.stdout.decode("utf-8", "replace")
    except subprocess.TimeoutExpired:
        rc, out = -999, "timeout"
    res.add_cov(native_read_holds_max=131073)
    if rc != 0:
        res.violation("readers-writer lock with many read holds: " + (out.strip().split("\n")[0][:300] or "exit %s" % rc),
                      {"native": "nat_rwlock_depth", "exit": rc, "output": out[-1500:]})


def replay(res, path):
    import json
    rep = json.load(open(path))
    if rep.get("native") == "nat_rwlock_depth":
        import subprocess
        exe = C.cc_harness("nat_rwlock_depth", ["nat_rwlock_depth.c"], "plain")
        p = subprocess.run([exe], stdout=subprocess.PIPE, stderr=subprocess.STDOUT, timeout=120)
        print(p.stdout.decode("utf-8", "replace")[-1500:])
        return 1 if p.returncode != 0 else 0
    if "mode" not in rep or "params" not in rep:
        # (every replay file carries the VERIF seed, so vs.replay's own test for a schedule does not apply here)
        print("no concrete failing input in this replay; broken obligations:")
        print(json.dumps(rep.get("broken", rep), indent=1)[:3000])
        return 1
    return vs.replay("sc_rwlock", SOURCES, path, validate)
