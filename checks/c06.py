"""C06 — stream join/free and ABT_finalize wait for all work, then terminate.
Ties: T1 (skeletons of the scheduling / context-switch / life-cycle functions), T3 (vsched traces of generated work-unit
programs validated against Model.Sched), scenario monitors + deadlock detection for the failing-input search;
the scheduler-termination decision and the pool-consumer accounting (Props/C06Stop over Model.Stop): T1, T2 differential of the
real has_unit / has_to_stop / check_events and of num_scheds along API histories, end-to-end search programs (checks/stop_common.py)."""
import json
from checks import sched_common as S
from checks import stop_common as ST

ASSUMPTIONS = list(S.BASE_ASSUMPTIONS) + list(ST.ASSUMPTIONS)
EXTRA_T1 = [('stream.c', 'ABT_xstream_join'), ('stream.c', 'ABT_xstream_free'), ('global.c', 'ABT_finalize'), ('thread.c', 'ABT_thread_yield_to')]


def run(res, tier, broken):
    ST.run_stop(res, tier, broken, "C06")
    S.run_sched(res, tier, broken, "C06", EXTRA_T1)
    S.run_native(res, "nat_revive_join", "a revived stream keeps running while idle and its next join waits for the work pushed later")


def replay(res, path):
    if json.load(open(path)).get("native"):
        return S.replay_native(json.load(open(path)))
    if "stop" in json.load(open(path)):
        return ST.replay(res, path)
    return S.replay(res, path)
