"""C06 — stream join/free and ABT_finalize wait for all work, then terminate.
Ties: T1 (skeletons of the scheduling / context-switch / life-cycle functions), T3 (vsched traces of generated work-unit
programs validated against Model.Sched), scenario monitors + deadlock detection for the failing-input search."""
from checks import sched_common as S

ASSUMPTIONS = list(S.BASE_ASSUMPTIONS)
EXTRA_T1 = [('stream.c', 'ABT_xstream_join'), ('stream.c', 'ABT_xstream_free'), ('global.c', 'ABT_finalize'), ('thread.c', 'ABT_thread_yield_to')]


def run(res, tier, broken):
    S.run_sched(res, tier, broken, "C06", EXTRA_T1)


def replay(res, path):
    return S.replay(res, path)
