"""C08 — barriers release nobody early and everybody once the last waiter arrives.
Ties: T1 (token skeletons of the barrier / wait-list / futex functions), T3 (vsched traces of sc_barrier validated
against Model.Barrier — including every load / store of the wait-list's futex generation word — and Model.XBarrier),
property monitors in the scenario (per-round arrival counters) + deadlock detection.
Scenario dimensions: barrier size (1..6; 130..140 in the thorough tier and in the failing-input search), surplus
callers, rounds, ULT / external-thread waiters, tasklet callers at random arrival positions, fast re-entry,
ABT_barrier_reinit by the main ULT after the join or by the first caller that returns from the last round while the
slower waiters are still leaving."""
from vlib import common as C
from vlib import t1, t3, t3_sync, vs

ASSUMPTIONS = [
    "sequentially consistent execution of the atomic primitives (acquire/release annotations not modelled)",
    "plain stores inside a critical section (counter++, counter = 0, num_waiters) are attributed to the preceding hook point of the same thread; the controlled scheduler has no schedule point between a lock release and the plain statements that follow it",
    "the wait-list sub-protocol (BLOCKED/READY stores, futex sleep/wake, ULT suspension and resume) is Model.WaitList's (lead); here a waiter is 'woken' at the broadcaster's dequeue event (E 52) and the monitors + deadlock detection check that it really returns",
    "ABT_xstream_barrier: pthread_barrier_wait(count) is TRUSTED (POSIX semantics; under T3 it is the controlled scheduler's virtual barrier); only the num_waiters > 1 guard of stream_barrier.c is modelled; the sense-reversal variant is compiled out in this build and not claimed",
    "ABT_barrier_reinit is called as documented (nobody inside the barrier: counter = 0, the last arrival has left its critical section) — either after every caller was joined or by a caller that has just returned from the last round while slower waiters of that round are still leaving (woken, not yet returned); reinit/free while a caller is blocked or inside a critical section is undefined by the API and not explored",
    "the futex generation word of the wait-list is modelled as a natural number: wrap-around of the 32-bit word (2^32 broadcasts while one waiter sleeps) is not modelled; FUTEX_WAIT/FUTEX_WAKE themselves are the controlled scheduler's virtual futex (TRUSTED, Linux semantics: wait returns at once if the word differs, a wake makes sleepers runnable)",
    "large barriers (130..140 waiters: more than one batch of any implementation that wakes in bounded chunks) are explored in the thorough tier and in the failing-input search only; the quick tier validates sizes 1..6",
    "liveness ('all of them return') in safety form: no-lost-waiter invariant + 'the last arrival's critical section empties the list' in Lean, termination of every explored schedule by the scheduler's deadlock/livelock detection; OS-thread fairness assumed",
    "1.x API build: a tasklet calling ABT_barrier_wait is rejected with ABT_ERR_BARRIER before touching the barrier (modelled: barrier_tasklet_rejected_nochange; tested with tasklets created at random positions among the waiters, so that the rejected call happens before, between and after the real arrivals); tasklets are therefore never waiters of a round",
]

T1_FUNCS = [("barrier.c", f) for f in [
    "ABT_barrier_create", "ABT_barrier_reinit", "ABT_barrier_free", "ABT_barrier_wait", "ABT_barrier_get_num_waiters",
    "ABTI_waitlist_wait_and_unlock", "ABTI_waitlist_broadcast", "ABTI_waitlist_init",
    "ABTD_spinlock_acquire", "ABTD_spinlock_release", "ABTD_spinlock_is_locked",
    "ABTI_ythread_suspend_unlock", "ABTI_ythread_resume_and_push"]] + [
    ("stream_barrier.c", f) for f in [
        "ABT_xstream_barrier_create", "ABT_xstream_barrier_free", "ABT_xstream_barrier_wait",
        "ABTD_xstream_barrier_init", "ABTD_xstream_barrier_destroy", "ABTD_xstream_barrier_wait"]] + [
    ("ythread.c", "ABTI_ythread_callback_suspend_unlock"),
    ("arch/abtd_futex.c", "ABTD_futex_wait_and_unlock"), ("arch/abtd_futex.c", "ABTD_futex_broadcast")]

SOURCES = ["sc_barrier.c"]
SIZES = {"quick": (34, 3), "thorough": (240, 8), "search": (160, 6)}


def _keys(model, pairs):
    return {"%s@ArgoVerif.Model.%s.Pc.%s" % (e, model, pc) for e, pcs in pairs.items() for pc in pcs}


# every (event, program counter) pair the models accept; the evidence lists the ones no real trace exercised
ALL_TRANSITIONS = _keys("Barrier", {
    "call": ["idle"], "ret": ["rejected", "woken", "done"], "acq0": ["called", "waiting", "woken"],
    "acq1": ["called", "waiting", "woken"], "enq": ["csWait"], "wake": ["csLast"],
    "rel": ["csEnq", "reW", "reR", "csLast"], "fsamp": ["csEnq", "reW"], "fbump": ["csLast"]}) | {
    "reinit", "obsLock", "obs", "obsF"} | {
    "xcall@ArgoVerif.Model.XBarrier.Pc.idle->ArgoVerif.Model.XBarrier.Pc.%s" % x for x in ("inPrim", "released", "skipped")} | {
    "xret@ArgoVerif.Model.XBarrier.Pc.%s" % x for x in ("released", "skipped")}
# a non-ULT waiter re-takes the lock inside its wait loop only after a futex wake-up that was not meant for it; the
# barrier only ever broadcasts, so these transitions (kept in the model for generality) cannot occur
UNREACHABLE_HERE = _keys("Barrier", {"acq0": ["waiting", "woken"], "acq1": ["waiting", "woken"], "rel": ["reW", "reR"],
                                      "fsamp": ["reW"]})


def scenario_params(rng, large=False):
    """One program.  Dimensions: barrier size (1..6, and with large=True also > 129: more than one wake-up chunk of any
    implementation that wakes in bounded batches), surplus callers, rounds, caller kinds (ULT / external thread /
    tasklets at random arrival positions), who re-initialises and when (main after the join, or the first caller that
    returns from the last round while the others are still leaving)."""
    if rng.below(4) == 0:
        # xstream barrier: 2-3 streams; either every participant counts, or num_waiters = 1 (the guard)
        nes = 2 + rng.below(2)
        n = 2 + rng.below(2)
        create = 1 if rng.below(3) == 0 else 0
        if create == 1 and rng.below(2):
            n = 1
        return ["xbar", nes, n, create, 1 + rng.below(5), 0, 0, 0, 10 * rng.below(6), 0]
    nes = 1 + rng.below(3)
    ph = []
    for _ in range(2):
        nw = 1 + rng.below(6)
        extra = min(6 - nw, rng.below(3)) if rng.below(3) == 0 else 0     # more callers than num_waiters
        ph += [nw, extra, 1 + rng.below(5)]
    if rng.below(6) == 0:
        ph[0] = 1                      # num_waiters = 1: every call is a round of its own
    ext = 10 * rng.below(7)
    if large and rng.below(4) == 0:
        # a large barrier on 2-3 streams, few rounds, fast re-entry; (almost) all waiters are ULTs
        nes = 2 + rng.below(2)
        ph[0:3] = [130 + rng.below(11), 0, 2 + rng.below(2)]
        ext = [0, 0, 2, 5][rng.below(4)]
    # flags: 1 a pool shared by the secondary streams, 2 the secondary streams are joined while the waiters of the last
    # phase are still in the barrier, 4 waiters with a pending migration request (towards the primary stream's pool)
    flags = rng.below(8) if nes >= 2 else 0
    return ["bar", nes] + ph + [ext, rng.below(3), rng.below(2), flags]


def validate(lg, params):
    if params[0] == "xbar":
        return t3_sync.validate_with("xbarrier", t3_sync.project_xbarrier, lg, "X0")
    return t3_sync.validate_with("barrier", t3_sync.project_barrier, lg, "B0")


def run(res, tier, broken):
    n, tb = t1.check(T1_FUNCS)
    res.add_cov(t1_functions=n, t1_broken=len(tb))
    for b in tb:
        broken.append({"kind": "T1-skeleton", **b})
    # the large-barrier programs belong to the thorough tier and to the failing-input search (`broken` is filled by
    # check.py / T1 / a T3 rejection before the search sweep starts)
    vs.campaign(res, broken, tier, "C08", "sc_barrier", SOURCES,
                lambda rng: scenario_params(rng, large=(tier == "thorough" or bool(broken))), validate, sizes=SIZES)
    seen = set(res.cov.get("model_transitions", []))
    res.add_cov(model_transitions_total=len(ALL_TRANSITIONS),
                model_transitions_uncovered=sorted(ALL_TRANSITIONS - seen - UNREACHABLE_HERE),
                model_transitions_unreachable_with_broadcast_only_wakeups=sorted(UNREACHABLE_HERE - seen),
                model_transitions_unknown=sorted(seen - ALL_TRANSITIONS))


def replay(res, path):
    return vs.replay("sc_barrier", SOURCES, path, validate)
