"""C07 — built-in pools are linearizable queues.
Sequential / data-structure half.  Correspondence: T0 generated table Gen/PoolEnds.lean (theorem pool_kind_ends),
T2 differential
  * white-box thread_queue_* (harness/wb_tq.c under ASan/UBSan) vs Lean Model.TQ, with ring dumps;
  * public ABT_pool_* API on detached pools of 3 kinds x 5 access modes (harness/wb_poolapi.c) vs
    the same model driven by the generated table (`driver pool <kind>`).
Concurrent half (Model.PoolConc: lock discipline, lock-free emptiness pre-checks, linearisation points).
Correspondence: T0 the same table with a per-site "inside the pool lock" bit (theorem table_lock_discipline), T1 token
skeletons of every function of fifo.c / fifo_wait.c / randws.c / thread_queue.h / abtd_spinlock.h the model abstracts
(incl. the access -> callback dispatch), T3 controlled-scheduler traces of harness/sc_pool.c (producers / consumers as
external threads and ULTs on their own streams, 3 kinds x 5 access modes) projected by vlib/t3_pool.py and validated by
`driver poolconc`; native monitors in the scenario and an independent history oracle decide whether a rejected trace is
a real failure."""
import collections, json, os, re
from vlib import common as C
from vlib import diff as D
from vlib import t1, t3_pool, vs

ASSUMPTIONS = [
    "work units are modelled as natural-number identifiers (0 = NULL); only the fields p_prev, p_next, is_in_pool of ABTI_thread are modelled",
    "contract of the queue code (not checked by it): a pushed unit is valid and in no queue; a removed unit whose is_in_pool flag is 1 is in the queue it is removed from (the flag is per unit, not per queue)",
    "T2 is sequential; lock discipline, lock-free pre-checks and linearisation points are Model.PoolConc's part (T1 + T3)",
    "pop_wait / pop_timedwait are exercised with a sub-millisecond timeout; sequentially the wait only delays an empty answer",
    "Model.PoolConc: sequentially consistent execution of the atomic primitives (acquire/release annotations not modelled); "
    "plain statements between two hook points (atomic primitive / ABTI_VERIF_EVENT / wrapped OS call) are one step, in the model and in the controlled scheduler",
    "Model.PoolConc abstracts time: a polling pop_wait may give up after any failed attempt, a condition wait may end at any moment "
    "(deadline arithmetic and wake-up guarantees are C19's Model.PopWait); pthread mutex / condition variable are virtual primitives",
    "ABT_POOL_ACCESS_PRIV (the lock-free callbacks): the access contract 'calls do not overlap' is a precondition of the model's call event; "
    "SPSC/MPSC/SPMC are exercised with exactly the number of pushing / popping threads they permit, MPMC with up to 4 + 4",
    "remove is called on units that are in this pool or in no pool (the is_in_pool flag is per unit, not per queue: same contract as sequentially)",
    "API level: ABT_pool_push_threads(_ex) is modelled as handle conversion + exactly one p_push_many callback invocation with the whole "
    "batch (hook 23 in T3, skeleton of pool_push_threads_ex in T1); batches of 65-130 units (beyond the wrapper's 64-entry buffer) are "
    "exercised in a few runs of the quick tier and in a larger share of thorough / search runs",
    "T3 projection (vlib/t3_pool.py) is trusted: which logged atomic / hook event is which model event; a failing guard of "
    "thread_queue_remove under the lock has no hook point and is inferred from the lock release",
]

NQ, NU = 4, 16
KINDS = ["fifo", "fifo_wait", "randws"]


# --------------------------------------------------------------------------
# thread_queue: generator
# --------------------------------------------------------------------------
def gen_tq_ops(rng, nops, hist, sizes):
    lines = []
    qs = [[] for _ in range(NQ)]        # generator's own view (to produce mostly-valid programs)
    where = {u: -1 for u in range(1, NU + 1)}
    popped_once = set()
    for q in range(NQ):
        lines += ["sel %d" % q, "init"]
    cur = NQ - 1
    fill = True
    for i in range(nops):
        if i % 40 == 0:
            fill = rng.chance(1, 2)
        r = rng.below(100)
        q = qs[cur]
        free = [u for u in where if where[u] == -1]
        push_w = 48 if fill else 22
        if r < push_w:
            head = rng.chance(3, 8)
            if rng.chance(1, 30):
                cand = [u for u in where if where[u] != -1] + [0]
                u = rng.choice(cand)
                hist["push_contract_violation"] += 1
            elif free:
                u = rng.choice(free)
                if u in popped_once:
                    hist["repush_after_leave"] += 1
                where[u] = cur
                if head:
                    q.insert(0, u)
                else:
                    q.append(u)
                hist["push_head" if head else "push_tail"] += 1
            else:
                lines.append("size")
                hist["size"] += 1
                continue
            lines.append(("push_head %d" if head else "push_tail %d") % u)
        elif r < push_w + 22:
            head = rng.chance(2, 3)
            if q:
                u = q.pop(0) if head else q.pop()
                where[u] = -1
                popped_once.add(u)
                hist["pop_head" if head else "pop_tail"] += 1
            else:
                hist["pop_on_empty"] += 1
            lines.append("pop_head" if head else "pop_tail")
        elif r < push_w + 22 + 16:
            c = rng.below(100)
            if q and c < 70:
                pos = rng.choice(["head", "tail", "mid", "mid"])
                if len(q) == 1:
                    u, pos = q[0], "only"
                elif pos == "head":
                    u = q[0]
                elif pos == "tail":
                    u = q[-1]
                else:
                    u = q[rng.below(len(q))]
                    pos = "head" if u == q[0] else "tail" if u == q[-1] else "mid"
                q.remove(u)
                where[u] = -1
                popped_once.add(u)
                hist["remove_" + pos] += 1
            elif c < 85 and free:
                u = rng.choice(free)
                hist["remove_absent" if q else "remove_on_empty"] += 1
            elif c < 95:
                other = [u for u in where if where[u] not in (-1, cur)]
                u = rng.choice(other) if other else 0
                hist["remove_foreign_or_null"] += 1
            else:
                u = 0
                hist["remove_null"] += 1
            lines.append("remove %d" % u)
        elif r < push_w + 22 + 16 + 4:
            lines.append("size")
            hist["size"] += 1
        elif r < push_w + 22 + 16 + 8:
            lines.append("is_empty")
            hist["is_empty"] += 1
        elif r < 99 or q:
            cur = rng.below(NQ)
            lines.append("sel %d" % cur)
            hist["sel"] += 1
            if r >= 99 and rng.chance(1, 4) and qs[cur]:
                # rare: re-initialise a queue that still holds units (they stay flagged in_pool for ever)
                for u in qs[cur]:
                    where[u] = -2
                qs[cur] = []
                lines.append("init")
                hist["init_nonempty"] += 1
        else:
            lines.append("init")
            hist["init_empty"] += 1
    for q in qs:
        sizes[min(len(q), 16)] += 1
    return lines


# --------------------------------------------------------------------------
# thread_queue: independent oracle (plain Python lists; reads only the implementation's output)
# --------------------------------------------------------------------------
def tq_oracle(lines, out):
    """Does the real code's own output contradict "one deque of distinct units per queue"?  None = no."""
    qs = [[] for _ in range(NQ)]
    inq = {}                # unit -> queue index; absent = in no queue; -2 = orphaned by re-init
    cur = 0

    def dump_ok(i, o, touched):
        parts = o.split(" | ")
        q = qs[cur]
        exp_f = "f:" + "".join(" %d" % u for u in q)
        exp_b = "b:" + "".join(" %d" % u for u in reversed(q))
        if len(parts) < 4:
            return "line %d: malformed dump %r" % (i, o)
        if parts[1] != exp_f:
            return "line %d `%s`: ring from head is [%s], a deque holds [%s]" % (i, lines[i], parts[1], exp_f)
        if parts[2] != exp_b:
            return "line %d `%s`: ring from tail is [%s], a deque holds [%s]" % (i, lines[i], parts[2], exp_b)
        m = re.match(r"n=(\d+) e=(-?\d+) h=(-?\d+) t=(-?\d+)$", parts[3])
        if not m:
            return "line %d: malformed counters %r" % (i, parts[3])
        n, e, h, t = map(int, m.groups())
        if n != len(q):
            return "line %d `%s`: num_threads=%d but %d units are queued" % (i, lines[i], n, len(q))
        if (e != 0) != (len(q) == 0):
            return "line %d `%s`: is_empty=%d with %d units queued" % (i, lines[i], e, len(q))
        if h != (q[0] if q else 0) or t != (q[-1] if q else 0):
            return "line %d `%s`: head/tail pointers %d/%d do not match content %s" % (i, lines[i], h, t, q)
        if touched:
            m = re.match(r"u(\d+): p=(-?\d+) n=(-?\d+) in=(-?\d+)$", parts[4] if len(parts) > 4 else "")
            if not m:
                return "line %d: missing unit fields" % i
            uu, p, nx, fl = map(int, m.groups())
            queued = inq.get(touched, -1) >= 0
            if uu != touched or (fl == 1) != (queued or inq.get(touched) == -2):
                return "line %d `%s`: is_in_pool(%d)=%d but unit is %squeued" % (i, lines[i], touched, fl, "" if queued else "not ")
            if not queued and inq.get(touched) != -2 and (p != 0 or nx != 0):
                return "line %d `%s`: unit %d left the queue with links p=%d n=%d" % (i, lines[i], touched, p, nx)
        return None

    for i, l in enumerate(lines):
        if i >= len(out) or out[i] == "":
            return "missing output for line %d `%s`" % (i, l)
        w = l.split()
        o = out[i]
        head = o.split(" | ")[0]
        q = qs[cur]
        if w[0] == "sel":
            cur = int(w[1])
            continue
        if w[0] == "init":
            for u in q:
                inq[u] = -2
            qs[cur] = []
            r = dump_ok(i, o, 0)
            if r:
                return r
            continue
        if w[0] in ("push_head", "push_tail"):
            u = int(w[1])
            legal = u != 0 and u not in inq
            if head == "undefined":
                if legal:
                    return "line %d `%s`: refused although the unit is free" % (i, l)
                continue
            if not legal:
                return None     # harness called outside the contract: nothing to judge
            if w[0] == "push_head":
                q.insert(0, u)
            else:
                q.append(u)
            inq[u] = cur
            if head != "push ok":
                return "line %d `%s`: reported %r" % (i, l, head)
            r = dump_ok(i, o, u)
            if r:
                return r
        elif w[0] in ("pop_head", "pop_tail"):
            exp = (q[0] if w[0] == "pop_head" else q[-1]) if q else None
            if exp is None:
                if head != "pop null":
                    return "line %d `%s`: queue is empty but pop returned %r" % (i, l, head)
                r = dump_ok(i, o, 0)
            else:
                if head == "pop null":
                    return "line %d `%s`: pop returned nothing although %d units are queued" % (i, l, len(q))
                if head != "pop %d" % exp:
                    return "line %d `%s`: returned %r, the unit at that end is %d" % (i, l, head, exp)
                q.remove(exp)
                del inq[exp]
                r = dump_ok(i, o, exp)
            if r:
                return r
        elif w[0] == "remove":
            u = int(w[1])
            if head == "undefined":
                if not q or (u != 0 and inq.get(u, -1) in (-1, cur)):
                    return "line %d `%s`: refused although inside the contract" % (i, l)
                continue
            if u in q:
                if head != "remove ok":
                    return "line %d `%s`: unit is queued but remove reported %r" % (i, l, head)
                q.remove(u)
                del inq[u]
            else:
                if head != "remove err_pool":
                    return "line %d `%s`: unit is not in this queue but remove reported %r" % (i, l, head)
            r = dump_ok(i, o, u)
            if r:
                return r
        elif w[0] == "size":
            if o != "size %d" % len(q):
                return "line %d: reported %r with %d units queued" % (i, o, len(q))
        elif w[0] == "is_empty":
            if o != "empty %d" % (0 if q else 1):
                return "line %d: reported %r with %d units queued" % (i, o, len(q))
    return None


# --------------------------------------------------------------------------
# pool API: generator + oracle
# --------------------------------------------------------------------------
def abt_context_flags():
    txt = open(os.path.join(C.SRC, "include", "abt.h")).read()
    vals = {}
    for m in re.finditer(r"#define\s+(ABT_POOL_CONTEXT_\w+)\s+\(\(ABT_pool_context\)(0x[0-9a-fA-F]+|\d+)\)", txt):
        vals[m.group(1)] = int(m.group(2), 0)
    return vals


class DocPools:
    """Five pools of one kind, as documented in abt.h (ABT_POOL_FIFO / _FIFO_WAIT / _RANDWS); plain lists."""

    def __init__(self, kind, flags):
        self.kind = kind
        self.head_mask = 0
        for n in ("ABT_POOL_CONTEXT_OP_THREAD_CREATE", "ABT_POOL_CONTEXT_OP_THREAD_CREATE_TO",
                  "ABT_POOL_CONTEXT_OP_THREAD_REVIVE", "ABT_POOL_CONTEXT_OP_THREAD_REVIVE_TO"):
            self.head_mask |= flags[n]
        self.tail_mask = flags["ABT_POOL_CONTEXT_OWNER_SECONDARY"]
        self.qs = [[] for _ in range(5)]
        self.inq = {}

    def push(self, p, u, ctx):
        if self.kind == "randws" and ctx & self.head_mask:
            self.qs[p].insert(0, u)
        else:
            self.qs[p].append(u)
        self.inq[u] = p

    def pop(self, p, ctx, timed=False):
        q = self.qs[p]
        if not q:
            return None
        u = q.pop() if (self.kind == "randws" and not timed and ctx & self.tail_mask) else q.pop(0)
        del self.inq[u]
        return u

    def remove(self, p, u):
        if u in self.qs[p]:
            self.qs[p].remove(u)
            del self.inq[u]
            return True
        return False


def gen_pool_ops(rng, nops, kind, flags, hist, sizes, no_priv_wait=False):
    ctxs = sorted(set(flags.values()))
    ctxs += [flags["ABT_POOL_CONTEXT_OP_THREAD_CREATE"] | flags["ABT_POOL_CONTEXT_OWNER_SECONDARY"],
             flags["ABT_POOL_CONTEXT_OP_THREAD_YIELD"] | flags["ABT_POOL_CONTEXT_OWNER_PRIMARY"],
             flags["ABT_POOL_CONTEXT_OP_THREAD_REVIVE_TO"] | flags["ABT_POOL_CONTEXT_PRIO_HIGH_PRIO"]]
    sim = DocPools(kind, flags)
    lines = []
    cur = 0
    fill = True
    for i in range(nops):
        if i % 30 == 0:
            fill = rng.chance(1, 2)
        r = rng.below(100)
        q = sim.qs[cur]
        free = [u for u in range(1, NU + 1) if u not in sim.inq]
        ctx = rng.choice(ctxs)
        pw = 34 if fill else 14
        if r < pw:
            if rng.chance(1, 25) and sim.inq:
                lines.append("push %d %d" % (rng.choice(sorted(sim.inq)), ctx))
                hist["push_contract_violation"] += 1
            elif free:
                u = rng.choice(free)
                sim.push(cur, u, ctx)
                lines.append("push %d %d" % (u, ctx))
                hist["push_at_head" if (kind == "randws" and ctx & sim.head_mask) else "push_at_tail"] += 1
            else:
                lines.append("size")
                hist["size"] += 1
        elif r < pw + 10:
            k = rng.below(min(5, len(free) + 1))
            us = []
            for _ in range(k):
                u = rng.choice(free)
                free.remove(u)
                us.append(u)
                sim.push(cur, u, ctx)
            lines.append("push_many %d%s" % (ctx, "".join(" %d" % u for u in us)))
            hist["push_many_%d" % k] += 1
        elif r < pw + 10 + 26:
            c = rng.below(100)
            tail = kind == "randws" and ctx & sim.tail_mask
            if c < 60:
                hist[("pop_at_tail" if tail else "pop_at_head") if q else "pop_on_empty"] += 1
                lines.append("pop %d" % ctx)
                sim.pop(cur, ctx)
            elif no_priv_wait and cur == 0 and q:
                hist["pop_instead_of_priv_pop_wait(F8)"] += 1
                lines.append("pop %d" % ctx)
                sim.pop(cur, ctx)
            elif c < 90 or q:
                hist["pop_wait" if q else "pop_wait_on_empty"] += 1
                lines.append("pop_wait %d" % ctx)
                sim.pop(cur, ctx)
            else:
                hist["pop_timedwait_on_empty"] += 1
                lines.append("pop_timedwait")
        elif r < pw + 10 + 26 + 6:
            if no_priv_wait and cur == 0 and q:
                hist["pop_instead_of_priv_pop_wait(F8)"] += 1
                lines.append("pop 0")
                sim.pop(cur, 0)
                continue
            hist["pop_timedwait" if q else "pop_timedwait_on_empty"] += 1
            lines.append("pop_timedwait")
            sim.pop(cur, 0, timed=True)
        elif r < pw + 10 + 26 + 6 + 8:
            n = rng.choice([0, 1, 1, 2, 3, 5, 20])
            lines.append("pop_many %d %d" % (ctx, n))
            hist["pop_many_0" if n == 0 else "pop_many_short" if n > len(q) else "pop_many_full"] += 1
            for _ in range(n):
                if sim.pop(cur, ctx) is None:
                    break
        elif r < pw + 10 + 26 + 6 + 8 + 8:
            c = rng.below(100)
            if q and c < 60:
                u = rng.choice(q)
                pos = "only" if len(q) == 1 else "head" if u == q[0] else "tail" if u == q[-1] else "mid"
                hist["remove_" + pos] += 1
            elif c < 85 and free:
                u = rng.choice(free)
                hist["remove_absent" if q else "remove_on_empty"] += 1
            else:
                other = [u for u in sim.inq if sim.inq[u] != cur]
                u = rng.choice(sorted(other)) if other else rng.below(NU) + 1
                hist["remove_foreign" if (other and q) else "remove_other"] += 1
            lines.append("remove %d" % u)
            if not (q and sim.inq.get(u, cur) != cur):
                sim.remove(cur, u)
        elif r < pw + 10 + 26 + 6 + 8 + 8 + 3:
            lines.append("size")
            hist["size"] += 1
        elif r < pw + 10 + 26 + 6 + 8 + 8 + 6:
            lines.append("is_empty")
            hist["is_empty"] += 1
        else:
            cur = rng.below(5)
            lines.append("sel %d" % cur)
            hist["sel"] += 1
    for q in sim.qs:
        sizes[min(len(q), 16)] += 1
    # drain every pool through the API so that the complete content is observed
    for p in range(5):
        lines += ["sel %d" % p, "pop_many 0 20", "size"]
    return lines


def pool_oracle(kind, lines, out, flags):
    """Independent oracle from the documentation in abt.h (not from the generated table): does the
    implementation's own output contradict "one atomic queue with the documented ends"?  None = no."""
    sim = DocPools(kind, flags)
    cur = 0

    def tail_ok(i, o):
        m = re.search(r" \| n=(\d+) e=(\d)$", o)
        if not m:
            return "line %d: malformed output %r" % (i, o)
        n, e = int(m.group(1)), int(m.group(2))
        q = sim.qs[cur]
        if n != len(q):
            return "line %d `%s`: get_size=%d but %d units are in the pool" % (i, lines[i], n, len(q))
        if (e == 1) != (len(q) == 0):
            return "line %d `%s`: is_empty=%d with %d units in the pool" % (i, lines[i], e, len(q))
        return None

    for i, l in enumerate(lines):
        if i >= len(out) or out[i] == "":
            return "missing output for line %d `%s`" % (i, l)
        w = l.split()
        o = out[i]
        head = o.split(" | ")[0]
        q = sim.qs[cur]
        if w[0] == "sel":
            cur = int(w[1])
            continue
        if w[0] == "push":
            u, ctx = int(w[1]), int(w[2])
            if head == "undefined":
                if u not in sim.inq:
                    return "line %d `%s`: refused although the unit is free" % (i, l)
                continue
            if u in sim.inq:
                return None     # called outside the contract: nothing to judge
            sim.push(cur, u, ctx)
            if head != "push ok":
                return "line %d `%s`: reported %r" % (i, l, head)
        elif w[0] == "push_many":
            ctx, us = int(w[1]), [int(x) for x in w[2:]]
            bad = any(u in sim.inq for u in us) or len(set(us)) != len(us)
            if head == "undefined":
                if not bad:
                    return "line %d `%s`: refused although all units are free" % (i, l)
                continue
            if bad:
                return None
            for u in us:
                sim.push(cur, u, ctx)
        elif w[0] in ("pop", "pop_wait", "pop_timedwait"):
            ctx = int(w[1]) if len(w) > 1 else 0
            n_before = len(q)
            exp = sim.pop(cur, ctx, timed=(w[0] == "pop_timedwait"))
            if exp is None:
                if head != "pop null":
                    return "line %d `%s`: pool is empty but pop returned %r" % (i, l, head)
            else:
                if head == "pop null":
                    return "line %d `%s`: returned nothing although the pool held %d units" % (i, l, n_before)
                if head != "pop %d" % exp:
                    return "line %d `%s`: returned %r; the %s discipline hands out unit %d" % (i, l, head, kind, exp)
        elif w[0] == "pop_many":
            ctx, n = int(w[1]), int(w[2])
            if n == 0:
                if head != "pop_many 0:":      # "pop_many untouched" was finding F12 (fixed): *num must be written
                    return "line %d `%s`: reported %r for a zero-length request" % (i, l, head)
            else:
                exp = []
                for _ in range(n):
                    u = sim.pop(cur, ctx)
                    if u is None:
                        break
                    exp.append(u)
                e = "pop_many %d:%s" % (len(exp), "".join(" %d" % u for u in exp))
                if head != e:
                    return "line %d `%s`: returned %r; the %s discipline hands out %r" % (i, l, head, kind, e)
        elif w[0] == "remove":
            u = int(w[1])
            if head == "undefined":
                if not q or sim.inq.get(u, cur) == cur:
                    return "line %d `%s`: refused although inside the contract" % (i, l)
                continue
            if q and sim.inq.get(u, cur) != cur:
                return None
            if sim.remove(cur, u):
                if head != "remove ok":
                    return "line %d `%s`: unit is in the pool but remove reported %r" % (i, l, head)
            elif head != "remove err_pool":
                return "line %d `%s`: unit is not in this pool but remove reported %r" % (i, l, head)
        elif w[0] == "size":
            if o != "size %d" % len(q):
                return "line %d: reported %r with %d units in the pool" % (i, o, len(q))
            continue
        elif w[0] == "is_empty":
            if o != "empty %d" % (0 if q else 1):
                return "line %d: reported %r with %d units in the pool" % (i, o, len(q))
            continue
        else:
            continue
        r = tail_ok(i, o)
        if r:
            return r
    return None


# --------------------------------------------------------------------------
# T2 runs
# --------------------------------------------------------------------------
def run_impl(cmd, lines, timeout):
    """run the real code on a program; on a hang keep the output produced so far.  -> (rc, out_lines, stderr)"""
    import subprocess
    data = ("\n".join(lines) + "\n").encode()
    e = dict(os.environ)
    e.setdefault("ASAN_OPTIONS", "detect_leaks=0:abort_on_error=0")
    e.setdefault("UBSAN_OPTIONS", "print_stacktrace=1")
    for attempt in (0, 1):
        try:
            p = subprocess.Popen(cmd, stdin=subprocess.PIPE, stdout=subprocess.PIPE, stderr=subprocess.PIPE, env=e)
            break
        except FileNotFoundError:
            # the shared build cache was pruned by a concurrent check of another tree: rebuild once
            if attempt == 1:
                raise
            name = os.path.basename(cmd[0])
            C._hash_cache = None
            C.cc_harness(name, [name + ".c"], "san")
    try:
        so, se = p.communicate(data, timeout=timeout)
        rc = p.returncode
    except subprocess.TimeoutExpired:
        p.kill()
        so, se = p.communicate()
        rc = -999
    return rc, so.decode("utf-8", "replace").split("\n"), se.decode("utf-8", "replace")


def compare(model_args, exe_cmd, lines, timeout=30):
    """like D.compare but the model takes extra arguments; a hang of the real code is a result (rc -999)"""
    rc_c, out_c, err_c = run_impl(exe_cmd, lines, timeout)
    rc_m, out_m, err_m = D.run_lines([DRIVER or C.driver_exe()] + model_args, lines, timeout=600)
    if rc_m != 0:
        return {"kind": "model-driver-failed", "rc": rc_m, "stderr": err_m[-2000:]}
    if rc_c == -999:
        done = len([o for o in out_c if o])
        return {"kind": "impl-hang", "timeout_s": timeout, "output_lines_before_hang": done,
                "hung_in": lines[done] if done < len(lines) else "<after the last operation (teardown)>"}
    if rc_c != 0:
        return {"kind": "impl-crash", "rc": rc_c, "stderr": err_c[-3000:], "impl_out_tail": out_c[-5:]}
    dd = D.first_diff(out_c, out_m)
    if dd is None:
        return None
    return {"kind": "output-differs", "line": dd[0], "impl": dd[1], "model": dd[2]}


def classify(res, name, model_args, exe_cmd, lines, keep, oracle, d, tier="quick"):
    import time
    deadline = time.time() + (90 if tier == "quick" else 900)
    tmo = 5 if d.get("kind") == "impl-hang" else 15

    def still_fails(ls):
        if time.time() > deadline:
            return False
        return compare(model_args, exe_cmd, ls, timeout=tmo) is not None
    vh = D.violating_history(lines, lambda ls: run_impl(exe_cmd, ls, tmo), oracle, keep_prefix=keep, budget=150)
    if vh:
        small, why = vh
        rc, out_c, err = run_impl(exe_cmd, small, tmo)
        res.violation("%s: the real code does not behave as one atomic queue: %s" % (name, why),
                      {"correspondence": name, "model_args": model_args, "exe_args": exe_cmd[1:],
                       "harness": os.path.basename(exe_cmd[0]), "ops": small,
                       "disagreement": compare(model_args, exe_cmd, small, timeout=tmo) or d, "impl_output": out_c[:200], "oracle": why})
        return
    small = D.ddmin(lines, still_fails, keep_prefix=keep, budget=150)
    d2 = compare(model_args, exe_cmd, small, timeout=tmo) or d
    rc, out_c, err = run_impl(exe_cmd, small, tmo)
    if rc == -999:
        done = len([o for o in out_c if o])
        if done < len(small):
            why = "operation `%s` (line %d) did not return within %d s" % (small[done], done, tmo)
        else:
            why = oracle(small, out_c)
            if not why:
                why = None
                d2 = dict(d2, note="all operations answered like a queue; the process then hung in teardown (ABT_finalize)")
    elif rc != 0:
        why = "implementation aborted (sanitizer/assert): " + err[-800:]
    else:
        why = oracle(small, out_c)
    rep = {"correspondence": name, "model_args": model_args, "exe_args": exe_cmd[1:], "harness": os.path.basename(exe_cmd[0]),
           "ops": small, "disagreement": d2, "impl_output": out_c[:200], "oracle": why}
    if why:
        res.violation("%s: the real code does not behave as one atomic queue: %s" % (name, why), rep)
    else:
        res.violation("%s: correspondence broken (implementation still queue-like on this input)" % name, rep, no_input=True)


def monitor(res, name, model_args, exe_cmd, lines, keep, oracle, tier):
    """model and code agree on this program; does the code's own output contradict the property statement anyway?
    (possible when model and code were changed together, or when the generated table — which the model follows —
    no longer has the documented ends).  Returns True when a violation was reported."""
    import time
    rc, out_c, err = run_impl(exe_cmd, lines, 30)
    if rc != 0:
        return False
    why = oracle(lines, out_c)
    if not why:
        return False
    deadline = time.time() + (60 if tier == "quick" else 600)

    def still_fails(ls):
        if time.time() > deadline:
            return False
        r, o, _ = run_impl(exe_cmd, ls, 10)
        return r == 0 and oracle(ls, o) is not None
    small = D.ddmin(lines, still_fails, keep_prefix=keep, budget=150)
    rc, out_c, err = run_impl(exe_cmd, small, 10)
    why2 = oracle(small, out_c) if rc == 0 else None
    res.violation("%s: the real code does not behave as the documented queue: %s" % (name, why2 or why),
                  {"correspondence": name + " (independent oracle; model and code agree)", "model_args": model_args,
                   "exe_args": exe_cmd[1:], "harness": os.path.basename(exe_cmd[0]), "ops": small if why2 else lines,
                   "impl_output": (out_c if why2 else [])[:200], "oracle": why2 or why})
    return True


def t2_tq(res, tier, broken):
    exe = C.cc_harness("wb_tq", ["wb_tq.c"], "san")
    rng = C.Rng(res.seed * 7919 + 7)
    if tier == "quick":
        rounds, nops = (20, 1500) if not broken else (60, 3000)
    else:
        rounds, nops = 50, 20000
    hist, sizes = collections.Counter(), collections.Counter()
    nl = 0
    for r in range(rounds):
        lines = gen_tq_ops(rng, nops, hist, sizes)
        nl += len(lines)
        if r == 0:
            res.sample({"tq_ops": lines[8:22]})
        d = compare(["tq"], [exe], lines)
        if d is None:
            if monitor(res, "T2 thread_queue", ["tq"], [exe], lines, 2 * NQ, tq_oracle, tier):
                break
            continue
        classify(res, "T2 thread_queue (harness/wb_tq.c vs Model.TQ)", ["tq"], [exe], lines, 2 * NQ, tq_oracle, d, tier)
        break
    res.add_cov(tq_programs=rounds, tq_lines=nl, tq_op_histogram=dict(hist),
                tq_final_size_distribution={str(k): v for k, v in sorted(sizes.items())})
    return nl


F8_SIG = "C07:priv-access:pop_wait:uninitialised-spinlock"


def probe_priv_pop_wait(res, exe):
    """pop_wait / pop_timedwait on a non-empty PRIV pool must return the unit.  (fifo.c / randws.c leave the
    spinlock these two functions take uninitialised for ABT_POOL_ACCESS_PRIV: finding F8.)  Returns the kinds that hang."""
    hung = {}
    for kind in KINDS:
        for op in ("pop_wait 0", "pop_timedwait"):
            ops = ["sel 0", "push 1 0", op]
            rc, out, err = run_impl([exe, kind], ops, 5)
            answered = len(out) >= 3 and out[2].startswith("pop 1")
            if rc == -999 and not answered and len([o for o in out if o]) == 2:
                hung.setdefault(kind, []).append(op)
            elif not answered or rc not in (0, -999):
                res.violation("pop on a PRIV %s pool holding one unit: %r" % (kind, out[:3]),
                              {"correspondence": "probe", "model_args": ["pool", kind], "exe_args": [kind], "harness": "wb_poolapi",
                               "ops": ops, "impl_output": out[:3], "stderr": err[-500:]})
    res.add_cov(priv_pop_wait_probe={"hangs": hung} if hung else "returns the unit for all kinds")
    if hung:
        what = ("pop_wait/pop_timedwait on a NON-EMPTY ABT_POOL_ACCESS_PRIV pool never returns (%s): pool_init leaves "
                "data_t.mutex uninitialised for PRIV but pool_pop_wait/pool_pop_timedwait take it" %
                ", ".join("%s: %s" % (k, "+".join(v)) for k, v in sorted(hung.items())))
        if any(f.get("signature") == F8_SIG for f in C.open_findings("C07")):
            res.known_finding(F8_SIG + " " + what)
        else:
            k0 = sorted(hung)[0]
            res.violation("C07 violated: " + what,
                          {"correspondence": "probe", "signature": F8_SIG, "model_args": ["pool", k0], "exe_args": [k0],
                           "harness": "wb_poolapi", "ops": ["sel 0", "push 1 0", hung[k0][0]], "hangs": hung,
                           "standalone_repro": "corpus/findings/f8_priv_pop_wait.c (MALLOC_PERTURB_=165 for non-ASan builds)"})
    return set(hung)


def t2_pool(res, tier, broken):
    exe = C.cc_harness("wb_poolapi", ["wb_poolapi.c"], "san")
    flags = abt_context_flags()
    hung = probe_priv_pop_wait(res, exe)
    rng = C.Rng(res.seed * 104729 + 77)
    if tier == "quick":
        rounds, nops = (4, 600) if not broken else (16, 1000)
    else:
        rounds, nops = 12, 3000
    hist, sizes = collections.Counter(), collections.Counter()
    nl = 0
    per_kind = {}
    stop = False
    # is the generated table usable at all?  (the translator writes an empty table for a source shape it cannot read)
    model_usable = all(compare(["pool", k], [exe, k], ["sel 1", "push 1 0", "pop 0", "remove 1"]) is None for k in KINDS)
    if not model_usable:
        res.violation("T0 pool table (tools/poolgen.py -> Gen/PoolEnds.lean) does not reproduce the simplest pool program; "
                      "searching with the independent oracle only", {"correspondence": "T0 poolgen", "generated": res.cov.get("generated", {}).get("poolends")},
                      no_input=True)
    for kind in KINDS:
        for r in range(rounds):
            lines = gen_pool_ops(rng, nops, kind, flags, hist, sizes, no_priv_wait=(kind in hung))
            nl += len(lines)
            per_kind[kind] = per_kind.get(kind, 0) + len(lines)
            if r == 0 and kind == "randws":
                res.sample({"pool_ops_randws": lines[:12]})
            d = compare(["pool", kind], [exe, kind], lines) if model_usable else None
            if d is None:
                if monitor(res, "T2 pool API %s" % kind, ["pool", kind], [exe, kind], lines, 0,
                           lambda ls, out, k=kind: pool_oracle(k, ls, out, flags), tier):
                    stop = True
                    break
                continue
            classify(res, "T2 pool API %s (harness/wb_poolapi.c vs Model.TQ + Gen.PoolEnds)" % kind, ["pool", kind],
                      [exe, kind], lines, 0, lambda ls, out, k=kind: pool_oracle(k, ls, out, flags), d, tier)
            stop = True
            break
        if stop:
            break
    res.add_cov(pool_programs=rounds * len(KINDS), pool_lines=nl, pool_lines_per_kind=per_kind,
                pool_access_modes=["PRIV", "SPSC", "MPSC", "SPMC", "MPMC"], pool_op_histogram=dict(hist),
                pool_final_size_distribution={str(k): v for k, v in sorted(sizes.items())})
    return nl


# --------------------------------------------------------------------------
# concurrent half: T1 skeletons + T3 (harness/sc_pool.c under the controlled scheduler vs Model.PoolConc)
# --------------------------------------------------------------------------
_POOL_FNS = {
    "pool/fifo.c": ["ABTI_pool_get_fifo_def", "pool_init", "pool_is_empty", "pool_get_size", "pool_push_shared", "pool_push_private",
                    "pool_push_many_shared", "pool_push_many_private", "pool_pop_wait", "pool_pop_timedwait", "pool_pop_shared",
                    "pool_pop_private", "pool_pop_many_shared", "pool_pop_many_private", "pool_remove_shared", "pool_remove_private",
                    "pool_unit_is_in_pool"],
    "pool/randws.c": ["ABTI_pool_get_randws_def", "pool_init", "pool_is_empty", "pool_get_size", "pool_push_shared", "pool_push_private",
                      "pool_push_many_shared", "pool_push_many_private", "pool_pop_wait", "pool_pop_timedwait", "pool_pop_shared",
                      "pool_pop_private", "pool_pop_many_shared", "pool_pop_many_private", "pool_remove_shared", "pool_remove_private",
                      "pool_unit_is_in_pool"],
    "pool/fifo_wait.c": ["ABTI_pool_get_fifo_wait_def", "pool_init", "pool_is_empty", "pool_get_size", "pool_push", "pool_push_many",
                         "pool_pop_wait", "pool_pop_timedwait", "pool_pop", "pool_pop_many", "pool_remove", "pool_unit_is_in_pool",
                         "convert_double_sec_to_timespec"],
}
T1_FUNCS = [(f, fn) for f, fns in _POOL_FNS.items() for fn in fns] + [("pool/fifo.c", fn) for fn in [
    "thread_queue_init", "thread_queue_acquire_spinlock_if_not_empty", "thread_queue_is_empty", "thread_queue_get_size",
    "thread_queue_push_head", "thread_queue_push_tail", "thread_queue_pop_head", "thread_queue_pop_tail", "thread_queue_remove",
    "ABTD_spinlock_acquire", "ABTD_spinlock_try_acquire", "ABTD_spinlock_release", "ABTD_spinlock_is_locked", "ABTD_spinlock_clear"]] + [
    ("pool/pool.c", fn) for fn in ["ABTI_pool_push", "ABTI_pool_pop", "ABTI_pool_pop_wait", "ABTI_pool_pop_many", "ABTI_pool_push_many",
                                   "ABTI_pool_remove", "ABTI_pool_pop_timedwait", "pool_pop_thread_ex", "pool_pop_threads_ex",
                                   "pool_push_thread_ex", "pool_push_threads_ex", "pool_pop_wait_thread_ex", "ABT_pool_pop_timedwait",
                                   "ABT_pool_remove", "ABT_pool_create_basic", "ABTI_pool_create_basic"]]

CKINDS = ["fifo", "fifo_wait", "randws"]
CACCESS = ["mpmc", "spsc", "mpsc", "spmc", "priv"]
_FILE_KIND = {"pool/fifo.c": 0, "pool/fifo_wait.c": 1, "pool/randws.c": 2}
_TABLE_KIND = {"fifo": 0, "fifoWait": 1, "randws": 2}
_TABLE_ACC = {"mpmc": 0, "spsc": 1, "mpsc": 2, "spmc": 3, "priv": 4}


def implicated(broken, gen_info):
    """(kind, access) combinations a broken obligation points at: T1 skeletons name a source file, the generated table
    names the entries whose queue calls are not inside the lock.  Used only to weight the failing-input search."""
    hot = set()
    for b in broken:
        if b.get("kind") == "T1-skeleton" and b.get("file") in _FILE_KIND and not b.get("fn", "").startswith("thread_queue_"):
            k = _FILE_KIND[b["file"]]
            hot.update((k, a) for a in range(5))
    sharp = {(_TABLE_KIND.get(e[0], 0), _TABLE_ACC.get(e[1], 0)) for e in (gen_info or {}).get("unlocked_shared", [])}
    return sorted(hot - sharp) + sorted(sharp) * 6


def wrapper_implicated(broken):
    """a broken skeleton of the API-level wrappers in pool.c (handle conversion, one callback per call): the search then
    spends more of its runs on batches larger than the wrappers' fixed-size buffers"""
    return any(b.get("kind") == "T1-skeleton" and b.get("file") == "pool/pool.c" for b in broken)


def conc_params(rng, hot=None, search=False, big_pct=5):
    if rng.below(100) < big_pct:
        # one push_many call with 65-130 units (more than the 64-entry buffer of the wrapper), pop_many that can empty the pool
        kind, acc = rng.choice(hot) if (hot and rng.chance(1, 2)) else (rng.below(3), rng.choice([0, 0, 1, 2, 3, 3]))
        if acc == 4:
            acc = 0
        return [kind, acc, 1 + rng.below(2), 1 + rng.below(2), 140, 2 + rng.below(2), rng.choice([100, 100, 60]), 1]
    if hot and rng.below(100) < 75:
        kind, acc = rng.choice(hot)
    else:
        kind, acc = rng.below(3), rng.choice([0, 0, 1, 1, 2, 3, 3, 4])
    nprod = 1 + rng.below(3)
    ncons = 1 + rng.below(3)
    nunits = 3 + rng.below(8)
    rounds = 4 + rng.below(7)
    if search and rng.chance(1, 2):
        # few units, many rounds: the pool oscillates around empty, where the lock-free paths and the lock interact
        nunits, rounds = 2 + rng.below(3), 8 + rng.below(8)
    ext = rng.choice([100, 100, 60, 30, 0])
    return [kind, acc, nprod, ncons, nunits, rounds, ext, 0]


def run_poolconc(lines, timeout=120):
    import subprocess
    from vlib import t3
    p = subprocess.run([DRIVER or C.driver_exe(), "poolconc"], input=("\n".join(lines) + "\nend\n").encode(), stdout=subprocess.PIPE,
                       stderr=subprocess.PIPE, timeout=timeout)
    out = p.stdout.decode("utf-8", "replace").strip().split("\n")
    rej = [l for l in out if l.startswith("REJECT")]
    end = [l for l in out if l.startswith("END")]
    trans = []
    if end:
        m = re.search(r"\[(.*)\]", end[0])
        if m:
            trans = [x.strip() for x in m.group(1).split(",") if x.strip()]
    return (rej[0] if rej else None), trans, p.returncode


def one_schedule(exe, job, do_validate, logdir):
    """run one (program, schedule); -> dict with rc, and (when the run completed) projection / validation / oracle results"""
    idx, params, sseed, mode = job
    log = os.path.join(logdir, "C07c-%d-%d.log" % (os.getpid(), idx))
    rc, err, _ = vs.run(exe, sseed, mode, params, log=log, timeout=180)
    r = {"idx": idx, "params": params, "seed": sseed, "mode": mode, "rc": rc, "stderr": err[-600:]}
    try:
        if rc == 0:
            lg = t3_pool.PLog(log)
            r["stats"] = lg.stats
            r["oracle"] = t3_pool.history_oracle(lg)
            lines, info = t3_pool.project(lg)
            r["info"] = dict(info)
            r["nlines"] = len(lines)
            if idx < 2:
                r["head"] = lines[:16]
            if do_validate:
                rej, trans, drc = run_poolconc(lines)
                r["trans"] = trans
                if rej or drc != 0:
                    k = int(rej.split()[1]) if rej else 0
                    r["reject"] = {"model": "Model.PoolConc", "object": "PW0", "reject": rej or "driver rc=%d" % drc,
                                   "projected_context": lines[max(0, k - 14): k + 3]}
        elif rc == 1:
            lg = t3_pool.PLog(log)
            r["monitor"] = lg.fails[:3]
    finally:
        try:
            os.remove(log)
        except OSError:
            pass
    return r


def t3_conc(res, tier, broken):
    from concurrent.futures import ThreadPoolExecutor
    exe = vs.build("sc_pool", ["sc_pool.c"])
    logdir = os.path.join(C.BUILD, "logs")
    os.makedirs(logdir, exist_ok=True)
    rng = C.Rng(res.seed * 104729 + 707)
    sizes = {"quick": (160, 5), "thorough": (1500, 8), "search": (500, 6) if tier == "quick" else (3000, 6)}
    workers = max(2, min(16, (os.cpu_count() or 4)))
    hot = implicated(broken, res.cov.get("generated", {}).get("poolends"))
    outcomes = collections.Counter()
    cov = collections.Counter()
    ops = collections.Counter()
    per_cfg = collections.Counter()
    ops_cfg = collections.defaultdict(collections.Counter)
    transitions = set()
    nruns = [0]

    big_pct = {"quick": 5, "thorough": 12}[tier]

    def jobs(nprog, nsched, hot, search):
        out = []
        for p in range(nprog):
            params = conc_params(rng, hot, search, (60 if wrapper_implicated(broken) else 25) if search else big_pct)
            pseed = 1 + rng.below(10**6)
            for k in range(nsched):
                out.append((len(out), params, pseed * 1000 + k, vs.MODES[(p + k) % len(vs.MODES)]))
        return out

    def sweep(nprog, nsched, do_validate, hot=None):
        """-> None | ("concrete", what, replay) | ("reject", what, replay)"""
        js = jobs(nprog, nsched, hot, not do_validate)
        first = None
        with ThreadPoolExecutor(max_workers=workers) as ex:
            futs = [ex.submit(one_schedule, exe, j, do_validate, logdir) for j in js]
            for fu in futs:
                if first is not None and first[0] == "concrete":
                    fu.cancel()     # results are consumed in job order: the first failure in that order is reported
                    continue
                r = fu.result()
                nruns[0] += 1
                outcomes[r["rc"]] += 1
                rep = {"scenario": "sc_pool", "params": r["params"], "seed": r["seed"], "mode": r["mode"],
                       "kind": CKINDS[r["params"][0]], "access": CACCESS[r["params"][1]],
                       "cmd": "%s %d %s <log> %s" % (exe, r["seed"], r["mode"], " ".join(map(str, r["params"])))}
                if r["rc"] != 0:
                    last = r["stderr"].strip().split("\n")[-1] if r["stderr"].strip() else ""
                    rep["stderr"] = r["stderr"]
                    if r.get("monitor"):
                        rep["monitor"] = r["monitor"]
                    import signal as _sig
                    if r["rc"] < 0 and r["rc"] != -999:
                        try:
                            why = "the runtime crashed: killed by %s" % _sig.Signals(-r["rc"]).name
                        except ValueError:
                            why = "the runtime crashed: killed by signal %d" % -r["rc"]
                    else:
                        why = vs.RC_TEXT.get(r["rc"], "scenario exited with rc=%d" % r["rc"])
                    what = "%s pool, access %s, under concurrent producers/consumers: %s: %s" % (
                        rep["kind"], rep["access"].upper(), why, last)
                    first = ("concrete", what, rep)
                    continue
                per_cfg["%s/%s" % (rep["kind"], rep["access"])] += 1
                info = r.get("info", {})
                for k, v in info.get("ops", {}).items():
                    ops[k] += v
                    ops_cfg["%s/%s" % (rep["kind"], rep["access"])][k] += v
                if r["params"][7]:
                    cov["runs_with_large_batches"] += 1
                for k in ("calls_started_while_another_in_progress", "preempted_after_precheck", "tas_failed", "empty_seen_lock_free",
                          "push_many_callbacks"):
                    cov[k] += info.get(k, 0)
                if info.get("calls_started_while_another_in_progress", 0) > 0:
                    cov["traces_with_overlapping_calls"] += 1
                for k, v in r.get("stats", {}).items():
                    cov["scenario_" + k] += v
                cov["projected_events"] += r.get("nlines", 0)
                transitions.update(r.get("trans", []))
                if "head" in r:
                    res.sample({"sc_pool_params": r["params"], "seed": r["seed"], "mode": r["mode"], "projected_head": r["head"]})
                if r.get("oracle"):
                    rep["oracle"] = r["oracle"]
                    first = ("concrete", "%s pool, access %s: the recorded call/return history is not a history of one atomic queue: %s" % (
                        rep["kind"], rep["access"].upper(), r["oracle"]), rep)
                    continue
                if do_validate:
                    cov["traces_validated"] += 1
                    if "reject" in r and first is None:
                        rep["rejects"] = [r["reject"]]
                        first = ("reject", r["reject"]["reject"], rep)
        return first

    r = None
    searched = False
    if broken:
        searched = True
        r = sweep(*sizes["search"], False, hot)
    else:
        r = sweep(*sizes[tier], True)
        if r and r[0] == "reject":
            broken.append({"kind": "T3-correspondence", "what": r[1], "replay": r[2]})
            searched = True
            hot = [( r[2]["params"][0], r[2]["params"][1])]
            r = sweep(*sizes["search"], False, hot) or None
    if r and r[0] == "concrete":
        res.violation("C07 violated: " + r[1], r[2])
    res.add_cov(conc_programs_and_schedules=sizes["search" if searched else tier], conc_runs=nruns[0], conc_workers=workers,
                conc_outcomes={str(k): v for k, v in outcomes.items()}, conc_runs_per_kind_access=dict(sorted(per_cfg.items())),
                conc_ops=dict(ops), conc_ops_per_kind_access={k: dict(v) for k, v in sorted(ops_cfg.items())}, conc_counters=dict(cov), conc_model_transitions_exercised=len(transitions),
                conc_model_transitions=sorted(transitions), conc_search_focus=[[CKINDS[k], CACCESS[a]] for k, a in hot] if searched else [])


def conc(res, tier, broken):
    n, tb = t1.check(T1_FUNCS)
    res.add_cov(t1_functions=n, t1_broken=len(tb))
    for b in tb:
        broken.append({"kind": "T1-skeleton", **b})
    gen = res.cov.get("generated", {}).get("poolends") or {}
    if gen.get("unlocked_shared"):
        broken.append({"kind": "T0-lock-discipline", "what": "queue call outside the pool lock in a callback installed for a shared access mode",
                       "entries": gen["unlocked_shared"][:12]})
    t3_conc(res, tier, broken)


DRIVER = None


def private_driver():
    """Other checks relink lean/.lake/build/bin/driver and regenerate Gen/ while this one runs.  Under the
    pipeline lock: make sure Gen/PoolEnds.lean is this tree's table, (re)link the driver (it does not depend
    on the property theorems, so it links even when they fail), and work on a private copy."""
    import shutil
    from tools import poolgen
    global DRIVER
    with C.Lock("pipeline"):
        poolgen.generate()
        ok, out = C.lake_build(["driver"])
        if not ok or not os.path.exists(C.driver_exe()):
            raise RuntimeError("model driver does not build: " + out[-1500:])
        d = os.path.join(C.BUILD, "c07")
        os.makedirs(d, exist_ok=True)
        DRIVER = os.path.join(d, "driver.%d" % os.getpid())
        shutil.copy2(C.driver_exe(), DRIVER)
    return DRIVER


def drop_private_driver():
    global DRIVER
    if DRIVER and os.path.exists(DRIVER):
        os.unlink(DRIVER)
    DRIVER = None


def run(res, tier, broken):
    if broken:
        res.add_cov(broken_obligations=[{k: (v if k != "errors" else v[:6]) for k, v in b.items()} for b in broken])
    private_driver()
    try:
        n1 = t2_tq(res, tier, broken)
        n2 = t2_pool(res, tier, broken)
        conc(res, tier, broken)
    finally:
        drop_private_driver()
    if broken:
        res.cov["broken_obligations"] = [{k: (v if k not in ("errors", "replay") else (v[:6] if k == "errors" else {"params": v.get("params"), "seed": v.get("seed"), "mode": v.get("mode")}))
                                          for k, v in b.items()} for b in broken]
    res.add_cov(programs=res.cov.get("tq_programs", 0) + res.cov.get("pool_programs", 0), disagreements_checked=n1 + n2)


def replay_conc(rep):
    private_driver()
    import atexit
    atexit.register(drop_private_driver)
    exe = vs.build("sc_pool", ["sc_pool.c"])
    log = os.path.join(C.BUILD, "logs", "replay-C07-%d.log" % os.getpid())
    os.makedirs(os.path.dirname(log), exist_ok=True)
    rc, err, _ = vs.run(exe, rep["seed"], rep["mode"], rep["params"], log=log, timeout=180)
    print("scenario rc=%d (%s) %s log=%s" % (rc, vs.RC_TEXT.get(rc, "ok" if rc == 0 else "crash"), err.strip()[-400:], log))
    if rc != 0:
        return 1
    lg = t3_pool.PLog(log)
    why = t3_pool.history_oracle(lg)
    print("history oracle:", why)
    lines, _ = t3_pool.project(lg)
    rej, _, drc = run_poolconc(lines)
    if rej or drc:
        k = int(rej.split()[1]) if rej else 0
        print("model rejects:", rej or "driver rc=%d" % drc)
        print("\n".join(lines[max(0, k - 14): k + 3]))
    return 1 if (why or rej or drc) else 0


def replay(res, path):
    rep = json.load(open(path))
    if rep.get("scenario") == "sc_pool":
        return replay_conc(rep)
    if "ops" not in rep:
        print("replay file names a broken obligation without a failing input:", rep.get("broken"))
        return 1
    margs = rep.get("model_args", ["tq"])
    hname = rep.get("harness", "wb_tq")
    private_driver()
    import atexit
    atexit.register(drop_private_driver)
    exe = C.cc_harness(hname, [hname + ".c"], "san")
    cmd = [exe] + list(rep.get("exe_args", []))
    d = compare(margs, cmd, rep["ops"], timeout=10)
    rc, out_c, err = run_impl(cmd, rep["ops"], 10)
    print("disagreement:", d)
    if rc == -999:
        print("oracle: implementation did not return within 10 s (hang)")
    elif rc != 0:
        print("oracle: implementation aborted:", err[-500:])
    elif margs[0] == "tq":
        print("oracle:", tq_oracle(rep["ops"], out_c))
    else:
        print("oracle:", pool_oracle(margs[1], rep["ops"], out_c, abt_context_flags()))
    return 1 if d else 0
