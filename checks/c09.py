"""C09 — eventuals and futures become ready exactly once and wake every waiter.
Ties: T1 (token skeletons of the eventual / future / wait-list / futex functions), T3 (vsched traces of sc_evfut
validated against Model.Eventual and Model.Future, incl. callback begin/end, reset and free as protocol operations),
property monitors in the scenario.
Scenario dimensions: object kind and size, callers of the three kinds, surplus sets, waiters, testers (lock-free future
testers may poll until ready, also while the callback — which contains a schedule point — is running), phases separated
by a reset, a reset concurrent with the sets of a phase (linearizability oracle), the object freed by main at the end or
by the woken waiter of the last phase at once ("wait; free") under a quarantining `free` (write-after-free monitor)."""
from vlib import common as C
from vlib import t1, t3, t3_sync, vs

ASSUMPTIONS = [
    "sequentially consistent execution of the atomic primitives (acquire/release annotations not modelled); the lock-free ABT_future_test relies on the release store / acquire load of the counter, which is modelled as an atomic step",
    "plain stores inside a critical section (value copy, ready flag, array compartment) are attributed to the preceding hook point of the same thread: the controlled scheduler cannot separate them from it",
    "the value buffer and the compartment array are separate allocations, so their contents are not in the object's snapshot: the model's value / array are compared with what callers read at their returns, what the callback receives, and a white-box dump at the end of each phase; snapshots compare ready / counter / num_compartments / wait-list emptiness at every lock release",
    "ABT_eventual_set is modelled with exactly nbytes bytes (partial copies not modelled); nbytes > capacity is the modelled error branch",
    "the wait-list sub-protocol (BLOCKED/READY stores, futex, ULT suspension and resume) is Model.WaitList's (lead); a waiter is 'woken' at the broadcaster's dequeue event (E 52); monitors + deadlock detection check that it really returns",
    "reset / free while a waiter is blocked is undefined by the API and not explored: a concurrent reset is explored in phases without waiters (concurrent with sets and tests), free is explored by main at the end and by the single waiter of the last phase right after its wait returned (possibly while the setter that woke it is still inside set); the models guard free with 'lock free and nobody queued' (the code's acquire + UB assertion) and allow reset at any time",
    "the future callback is user code: the scenario's callback contains one schedule point between its invocation and its return (events cbBegin / cb); what the callback itself may call is the API's restriction, not explored",
    "write-after-free detection: the scenario program interposes free (glibc __libc_free) and keeps + poisons the object's blocks once the library frees them, so nothing else can live there; every atomic operation on a freed block and every changed poison byte (checked at the end) is reported.  Plain reads of freed memory are not detected",
    "linearizability oracle of the concurrent-reset phases: outcomes are compared with every split 'k sets before the reset' compatible with real time (sets returned before the reset was called are before it, sets begun after it returned are after it); the order among the sets themselves is not constrained further",
    "1.x API build: a tasklet calling ABT_eventual_wait / ABT_future_wait is rejected before touching the object (modelled and tested); tasklets set and test",
    "num_compartments = 0: the code (and the API documentation) never runs the callback although waiters return; the literal property text ('the callback runs exactly once, before any waiter returns', quantifier includes 0) is not satisfied for that count — theorem fut_zero_compartments states what happens; reported as a text/implementation discrepancy, the monitors check the documented behaviour",
]

T1_FUNCS = [("eventual.c", f) for f in [
    "ABT_eventual_create", "ABT_eventual_free", "ABT_eventual_wait", "ABT_eventual_test", "ABT_eventual_set",
    "ABT_eventual_reset",
    "ABTI_waitlist_wait_and_unlock", "ABTI_waitlist_broadcast", "ABTI_waitlist_init", "ABTI_waitlist_is_empty",
    "ABTD_spinlock_acquire", "ABTD_spinlock_release", "ABTD_spinlock_is_locked",
    "ABTI_ythread_suspend_unlock", "ABTI_ythread_resume_and_push"]] + [
    ("futures.c", f) for f in [
        "ABT_future_create", "ABT_future_free", "ABT_future_wait", "ABT_future_test", "ABT_future_set",
        "ABT_future_reset"]] + [
    ("ythread.c", "ABTI_ythread_callback_suspend_unlock"),
    ("arch/abtd_futex.c", "ABTD_futex_wait_and_unlock"), ("arch/abtd_futex.c", "ABTD_futex_broadcast")]

SOURCES = ["sc_evfut.c"]
SIZES = {"quick": (36, 3), "thorough": (240, 8), "search": (260, 6)}


def _keys(model, pairs):
    return {"%s@ArgoVerif.Model.%s.Pc.%s" % (e, model, pc) for e, pcs in pairs.items() for pc in pcs}


# every (event, program counter) pair the models accept; the evidence lists the ones no real trace exercised
ALL_TRANSITIONS = _keys("Eventual", {
    "call": ["idle"],
    "ret": ["setOkDone", "setErrDone", "bigRej", "rejected", "woken", "waitDone", "testDone0", "testDone1", "resetDone",
            "freeCS"],
    "acq0": ["setCalled", "waitCalled", "testCalled", "resetCalled", "freeCalled", "waiting", "woken"],
    "acq1": ["setCalled", "waitCalled", "testCalled", "resetCalled", "freeCalled", "waiting", "woken"],
    "enq": ["waitCS"], "wake": ["setOkCS"],
    "rel": ["setOkCS", "setErrCS", "waitEnq", "reW", "reR", "passCS", "testCS0", "testCS1", "resetCS"]}) | _keys("Future", {
    "call": ["idle"],
    "ret": ["setDone", "setErrDone", "rejected", "woken", "waitDone", "testDone0", "testDone1", "resetDone", "freeCS"],
    "acq0": ["setCalled", "waitCalled", "resetCalled", "freeCalled", "waiting", "woken"],
    "acq1": ["setCalled", "waitCalled", "resetCalled", "freeCalled", "waiting", "woken"],
    "ldCnt": ["setCS", "waitLdCS"], "cbBegin": ["setCbCS"], "cb": ["setCbRun"], "stCnt": ["setStCS", "resetCS"], "enq": ["waitCS"],
    "wake": ["setBcCS"], "tload": ["testCalled"],
    "rel": ["setBcCS", "setRelCS", "setErrCS", "waitEnq", "reW", "reR", "passCS", "resetStCS"]}) | {"obsLock", "obs", "obsCnt", "arr"}
# a non-ULT waiter re-takes the lock inside its wait loop only after a futex wake-up that was not meant for it; these
# objects only ever broadcast, so these transitions (kept in the models for generality) cannot occur
UNREACHABLE_HERE = _keys("Eventual", {"acq0": ["waiting", "woken"], "acq1": ["waiting", "woken"], "rel": ["reW", "reR"]}) | _keys(
    "Future", {"acq0": ["waiting", "woken"], "acq1": ["waiting", "woken"], "rel": ["reW", "reR"]})


def scenario_params(rng, search=False):
    """One program.  Dimensions: object kind and size (buffer bytes / compartments incl. 0 and 1), callers of the three
    kinds, surplus sets, waiters / testers (lock-free future testers may poll until ready), phases separated by a reset,
    a reset concurrent with the sets of a phase (y&4), and who frees the object and when (main at the end, or
    the waiter of the last phase as soon as its wait returned: y&8)."""
    nes = 1 + rng.below(3)
    phases = 1 + rng.below(3)
    ext = 10 * rng.below(6)
    task = 10 * rng.below(5)
    # the failing-input search spends more of its programs on the concurrent-reset and wait-then-free dimensions
    special = ([0, 4, 8, 4, 8] if search else [0, 0, 0, 4, 8])[rng.below(5)]
    if special:
        nes = 2 + rng.below(2)
    if rng.below(2) == 0:
        nbytes = [8, 8, 16, 0][rng.below(4)]
        nset = 1 + rng.below(3)
        nwait = rng.below(4)
        ntest = rng.below(3)
        return ["ev", nes, phases, nset, nwait, ntest, nbytes, ext, task, rng.below(2) | special]
    n = [0, 1, 2, 5, 2, 1, 3][rng.below(7)]
    extra = rng.below(3)
    nwait = rng.below(4)
    ntest = rng.below(3)
    y = rng.below(2) | (2 if rng.below(6) == 0 else 0) | special
    return ["fut", nes, phases, extra, nwait, ntest, n, ext, task, y]


def validate(lg, params):
    if params[0] == "fut":
        return t3_sync.validate_with("future", t3_sync.project_future, lg, "F0")
    return t3_sync.validate_with("eventual", t3_sync.project_eventual, lg, "E0")


def run(res, tier, broken):
    n, tb = t1.check(T1_FUNCS)
    res.add_cov(t1_functions=n, t1_broken=len(tb))
    for b in tb:
        broken.append({"kind": "T1-skeleton", **b})
    res.notes.append("num_compartments = 0: callback never runs while waiters return (documented API behaviour; differs from "
                     "the literal property text) — see Props.C09.fut_zero_compartments")
    vs.campaign(res, broken, tier, "C09", "sc_evfut", SOURCES, lambda rng: scenario_params(rng, search=bool(broken)), validate,
                sizes=SIZES)
    native_reset(res, tier, broken)
    seen = set(res.cov.get("model_transitions", []))
    res.add_cov(model_transitions_total=len(ALL_TRANSITIONS),
                model_transitions_uncovered=sorted(ALL_TRANSITIONS - seen - UNREACHABLE_HERE),
                model_transitions_unreachable_with_broadcast_only_wakeups=sorted(UNREACHABLE_HERE - seen),
                model_transitions_unknown=sorted(seen - ALL_TRANSITIONS))


def native_reset(res, tier, broken):
    """real OS threads (harness/nat_evreset.c): waiters queued before the set return although the object is reset right
    after it, before they have run again"""
    import subprocess
    exe = C.cc_harness("nat_evreset", ["nat_evreset.c"], "plain")
    n = 0
    for _ in range(1 if tier == "quick" and not broken else 4):
        n += 1
        try:
            p = subprocess.run([exe], stdout=subprocess.PIPE, stderr=subprocess.STDOUT, timeout=120)
            rc, out = p.returncode, p.stdout.decode("utf-8", "replace")
        except subprocess.TimeoutExpired:
            rc, out = -999, "timeout"
        if rc == 2:
            # the program's own set-up did not complete in time (machine stalled): no verdict from this run
            res.add_cov(native_set_then_reset_inconclusive=out.strip()[-200:])
            continue
        if rc != 0:
            res.violation("a set wakes every waiter blocked before it (native run): " + (out.strip().split("\n")[-1][:400] or "exit %s" % rc),
                          {"native": "nat_evreset", "exit": rc, "output": out[-1500:]})
            break
    res.add_cov(native_set_then_reset_runs=n)


def replay(res, path):
    import json
    rep = json.load(open(path))
    if rep.get("native") == "nat_evreset":
        import subprocess
        exe = C.cc_harness("nat_evreset", ["nat_evreset.c"], "plain")
        p = subprocess.run([exe], stdout=subprocess.PIPE, stderr=subprocess.STDOUT, timeout=120)
        print(p.stdout.decode("utf-8", "replace")[-1500:])
        return 1 if p.returncode != 0 else 0
    return vs.replay("sc_evfut", SOURCES, path, validate)
