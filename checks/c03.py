"""C03 — join/free return after, and only after, the target has terminated.
Ties: T1 (skeletons of the scheduling / context-switch / life-cycle functions), T3 (vsched traces of generated work-unit
programs validated against Model.Sched), scenario monitors + deadlock detection for the failing-input search."""
from checks import sched_common as S

ASSUMPTIONS = list(S.BASE_ASSUMPTIONS) + [
    "Model.Join covers one joiner per target (the API's contract), ULT joiners and the futex path of non-ULT joiners; the scenarios exercise ULT joiners (parents and the primary ULT) on the same and on other streams, joins issued before, during and after termination, and cancelled targets"]
EXTRA_T1 = [('thread.c', 'ABT_thread_join'), ('thread.c', 'ABT_thread_free'), ('thread.c', 'ABT_thread_join_many'), ('thread.c', 'ABT_thread_free_many'), ('arch/abtd_futex.c', 'ABTD_futex_suspend'), ('arch/abtd_futex.c', 'ABTD_futex_resume')]


def run(res, tier, broken):
    S.run_sched(res, tier, broken, "C03", EXTRA_T1, validate_fn=S.validate_with_join)


def replay(res, path):
    return S.replay(res, path)
