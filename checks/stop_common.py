"""Shared by C06 and C01: the scheduler-termination decision and the pool-consumer accounting behind it.

Proof: Props/C06Stop.lean over Model.Stop
  (a) ABTI_sched_has_unit / ABTI_sched_has_to_stop / the exit test of thread_main_sched_func / ABTI_xstream_check_events as
      pure functions, computed as the C code computes them (scan over all pools, two request loads, two scans);
  (b) the accounting machine of num_scheds (sched_create retains, ABTI_sched_free releases, automatic pools die at 0, user-owned
      pools stay, discard / replacement / stream free), any sequence of events;
  (c) one stream's request plumbing (join, cancel, check_events of whatever scheduler runs, main-scheduler replacement).
Ties:
  T1  token skeletons of every function the model describes (STOP_T1);
  T2  (i) harness/wb_stop.c calls the real ABTI_sched_has_unit / ABT_sched_has_to_stop / ABTI_xstream_check_events /
      ABT_sched_finish / ABT_sched_exit on real schedulers over pools of every kind and access mode with directly stored
      counters, requests and `used`, against `driver stop`; (ii) API histories (pools automatic or user-owned, schedulers
      predefined or user-defined, streams created / joined / revived / freed / re-created over the same pools, main
      schedulers replaced on running, joined and the primary stream): after every call num_scheds of every live pool and
      `used` of every live scheduler, against the accounting machine;
      disagreements are classified by independent Python oracles (the statement of the decision as a property of ALL pools;
      live schedulers per pool) and shrunk to a minimal history with D.violating_history;
  (iii) when something is broken, native end-to-end programs with a watchdog: a stream over a user-owned pool with a history,
      joined while a ULT of the pool is blocked on an eventual (set 100 ms later by a pthread); a main-scheduler replacement
      issued while a join of the stream is pending."""
import collections, json, os, re, subprocess, time
from vlib import common as C
from vlib import diff as D
from vlib import t1

ASSUMPTIONS = [
    "Model.Stop (a): the two request loads and the two scans of ABTI_sched_has_to_stop are separate snapshots, each scan reads one pool after the other; tearing inside one iteration (is_empty, then access, num_scheds, num_blocked of the same pool) is not modelled — those fields change only through the events of Model.Sched / the accounting machine, whose theorems give the values their meaning",
    "Model.Stop (b): a pool is freed by its owner (ABT_pool_free) only while no scheduler object lists it (the runtime does not check); error paths of creation (allocation failure inside sched_create / xstream_create, which release or detach pools on their own) are covered by C18's ladders, not by this machine; force_free (ABT_finalize) is not an event",
    "num_scheds counts scheduler OBJECTS that list the pool (entries, to be exact), used or not: `only this scheduler consumes p` in the theorems means `no other live scheduler object lists p`; a scheduler object that exists but runs nowhere counts as a consumer and makes the running stream ignore blocked units = OPEN known finding F15 (corpus/findings/f15_idle_sched_counts_as_consumer.c): the end-to-end join programs (iii) never leave an idle scheduler object over the pool, the accounting histories (ii) do contain idle schedulers (they only compare num_scheds)",
    "OPEN known finding F16 (C17, corpus/findings/f16_replace_over_same_priv_pool.c): a same-stream replacement whose new first pool is a PRIV pool that the current main scheduler lists never completes; such replacements are excluded from the generated histories. A reused scheduler that was itself replaced earlier may be replaced again on its new stream (F14c, repaired by /repo 879f3ef: replace_done_forgets_pending); such histories are generated",
    "Model.Stop (c): one stream; the main-scheduler ULT and its request word survive a replacement; the new scheduler's request word is cleared when it is attached (repair of F14, /repo f7cc1b7: attach_clears_requests; T2 (ii) dumps the real request word of every scheduler after every call and generates reuse of user-owned schedulers after their stream was freed / after they were replaced)",
    "configuration: ABT_CONFIG_ACTIVE_WAIT_POLICY is off (with it, a join by an external thread / tasklet busy-waits without setting REQ_JOIN, so finish_reaches_running_sched's `join` event would not set the bit)",
    "T2 (ii) runs real pthread-backed streams but observes only after a call returned (deterministic); PRIV pools are consumed by one stream at a time; stacked schedulers (ABT_pool_add_sched) are in the model and tied by T1 only",
    "T2 (i) stores counters / requests / `used` / `access` directly into live objects (values no API sequence produces are included: negative counters, access outside the enum); the `concurrent` change between the two scans is scripted through the pools' is_empty callback",
]

STOP_T1 = [("sched/sched.c", f) for f in [
    "ABTI_sched_has_unit", "ABTI_sched_has_to_stop", "ABTI_sched_finish", "ABTI_sched_exit", "ABTI_sched_free",
    "ABTI_sched_create_basic", "sched_create", "ABT_sched_create", "ABT_sched_create_basic", "ABT_sched_free",
    "ABT_sched_finish", "ABT_sched_exit", "ABT_sched_has_to_stop", "ABTI_sched_discard_and_free", "ABTI_sched_set_request",
    "ABTI_pool_retain", "ABTI_pool_release", "ABTI_pool_is_empty"]] + [
    ("stream.c", f) for f in [
        "ABTI_xstream_check_events", "ABT_xstream_check_events", "xstream_join", "xstream_update_main_sched",
        "xstream_init_main_sched", "xstream_create", "ABT_xstream_create", "ABT_xstream_create_basic",
        "ABT_xstream_set_main_sched", "ABT_xstream_set_main_sched_basic", "ABTI_xstream_free", "ABT_xstream_revive",
        "ABT_xstream_join", "ABT_xstream_free"]] + [
    ("thread.c", "thread_main_sched_func"), ("thread.c", "thread_join"), ("thread.c", "thread_key_destructor_stackable_sched"),
    ("ythread.c", "ABTI_ythread_callback_suspend_replace_sched"),
    ("pool/pool.c", "ABT_pool_add_sched"), ("pool/pool.c", "ABTI_pool_free"), ("pool/pool.c", "ABT_pool_free"),
    ("pool/pool.c", "pool_create")]

TIE_I = "T2 decisions (harness/wb_stop.c vs Model.Stop via `driver stop`)"
TIE_II = "T2 consumer accounting (API histories, harness/wb_stop.c vs Model.Stop's accounting machine via `driver stop`)"
ACCS = ["priv", "spsc", "mpsc", "spmc", "mpmc"]
KINDS = ["fifo", "fifo_wait", "randws"]
PREDEFS = ["basic", "basic_wait", "prio", "randws", "default"]


def _retry(f, *a, **kw):
    """the shared `driver` executable disappears for a moment whenever somebody relinks it"""
    for _ in range(60):
        try:
            return f(*a, **kw)
        except FileNotFoundError:
            time.sleep(2)
    return f(*a, **kw)


_BITS = {}


def _bits():
    if not _BITS:
        _BITS.update(tree_bits())
    return _BITS


def tree_bits():
    """request bits read from the tree's own header (independent of tools/constgen.py)"""
    txt = open(os.path.join(C.SRC, "include", "abti.h")).read()
    out = {}
    for name in ["ABTI_SCHED_REQ_FINISH", "ABTI_SCHED_REQ_EXIT", "ABTI_SCHED_REQ_REPLACE", "ABTI_THREAD_REQ_JOIN",
                 "ABTI_THREAD_REQ_CANCEL"]:
        m = re.search(r"#define\s+%s\s+\(\s*1\s*<<\s*(\d+)\s*\)" % name, txt)
        if not m:
            raise RuntimeError("cannot read %s from abti.h" % name)
        out[name.split("_REQ_")[1]] = 1 << int(m.group(1))
    return out


# ---------------------------------------------------------------------------------------------------------------------
# (i) decisions
# ---------------------------------------------------------------------------------------------------------------------
def gen_view(rng, directed):
    acc = rng.choice(ACCS) if not rng.chance(1, 12) else "inv"
    kind = rng.choice(KINDS)
    if directed == "idle-shared":          # an empty shared pool with other consumers (and blocked units nobody here owns)
        acc = rng.choice(ACCS[1:])
        return acc, kind, 0, rng.choice([0, 0, 1, 3]), rng.choice([2, 2, 3, 0])
    size = 0 if rng.chance(7, 10) else 1 + rng.below(2)
    nb = 0 if rng.chance(1, 2) else rng.choice([1, 1, 2, -1, 5])
    ns = 1 if rng.chance(9, 20) else rng.choice([2, 2, 0, 3, -1])
    return acc, kind, size, nb, ns


def gen_wb(rng, nlines, hist):
    lines = []
    while len(lines) < nlines:
        r = rng.below(100)
        if r < 34:
            n = 1 + rng.below(4)
            lead = rng.below(n) if rng.chance(1, 2) else 0
            vs = [gen_view(rng, "idle-shared" if i < lead else None) for i in range(n)]
            lines.append("hu %d " % n + " ".join("%s %s %d %d %d" % v for v in vs))
            hist["hu"] += 1
        elif r < 78:
            n = 1 + rng.below(4)
            lead = rng.below(n) if rng.chance(1, 2) else 0
            vs = [gen_view(rng, "idle-shared" if i < lead else None) for i in range(n)]
            used = rng.choice(["main", "main", "inpool", "notused"])
            r0 = rng.choice([0, 1, 1, 1, 4, 5, 2, 3, 6, 7])
            r1 = r0
            if rng.chance(1, 4):
                r1 = r0 | rng.choice([1, 1, 4, 2])
                hist["hs_request_arrives_during_scan"] += 1
            parts = []
            for (acc, kind, size, nb, ns) in vs:
                s2, nb2, ns2 = size, nb, ns
                if rng.chance(1, 6):
                    w = rng.below(3)
                    if w == 0:
                        s2 = 1 if size == 0 else 0
                    elif w == 1:
                        nb2 = nb + rng.choice([1, -1])
                    else:
                        ns2 = rng.choice([1, 2])
                    hist["hs_pool_changes_between_scans"] += 1
                parts.append("%s %s %d %d %d %d %d %d" % (acc, kind, size, nb, ns, s2, nb2, ns2))
            lines.append("hs %s %d %d %d " % (used, r0, r1, n) + " ".join(parts))
            hist["hs_" + used] += 1
        elif r < 92:
            ult, run = rng.below(8), rng.below(8)
            mn = "same" if rng.chance(1, 2) else str(rng.below(8))
            lines.append("ce %d %d %s" % (ult, run, mn))
            hist["ce_same" if mn == "same" else "ce_other_sched_runs"] += 1
        else:
            lines.append("%s %d" % (rng.choice(["fin", "exit"]), rng.below(8)))
            hist["fin_exit"] += 1
    return lines


def _work(acc, size, nb, ns):
    """spec, per pool: (has READY units, has blocked units that only this scheduler gets back); None = no opinion"""
    if acc == "priv":
        sole = True
    elif acc == "inv":
        sole = None
    else:
        sole = ns == 1
    return size != 0, (None if sole is None else (sole and nb != 0))


def oracle_wb(lines, out, bits=None):
    """Does the implementation's own answer contradict the property?  Statement-level, about ALL pools of the scheduler,
    independent of the scan order and of the Lean model."""
    b = bits or tree_bits()
    for i, l in enumerate(lines):
        if i >= len(out) or out[i] == "":
            return "missing output for line %d `%s`" % (i, l)
        o = out[i].split()
        w = l.split()
        if "bad-op" in out[i] or "harness-error" in out[i]:
            return None
        if w[0] == "hu":
            n = int(w[1])
            vs = [(w[2 + 5 * k], int(w[4 + 5 * k]), int(w[5 + 5 * k]), int(w[6 + 5 * k])) for k in range(n)]
            ws = [_work(*v) for v in vs]
            ans = o[1] == "1"
            if not ans:
                for k, (ready, blk) in enumerate(ws):
                    if ready or blk:
                        return ("line %d `%s`: ABTI_sched_has_unit answers FALSE although pool #%d of the scheduler %s" %
                                (i, l, k, "is not empty" if ready else "has blocked units that only this scheduler can get back"))
            elif all(not ready and blk is False for ready, blk in ws):
                return "line %d `%s`: ABTI_sched_has_unit answers TRUE although no pool holds or owes a unit (a joined stream never terminates)" % (i, l)
        elif w[0] == "hs":
            used, r0, r1, n = w[1], int(w[2]), int(w[3]), int(w[4])
            v1, v2 = [], []
            for k in range(n):
                f = w[5 + 8 * k: 13 + 8 * k]
                v1.append(_work(f[0], int(f[2]), int(f[3]), int(f[4])))
                v2.append(_work(f[0], int(f[5]), int(f[6]), int(f[7])))
            ans = o[1] == "1"
            some1 = any(ready or blk for ready, blk in v1)
            some2 = any(ready or blk for ready, blk in v2)
            none1 = all(not ready and blk is False for ready, blk in v1)
            none2 = all(not ready and blk is False for ready, blk in v2)
            if r0 & b["EXIT"]:
                if not ans:
                    return "line %d `%s`: EXIT request pending but ABT_sched_has_to_stop answers FALSE" % (i, l)
            elif ans and used != "inpool":
                if not (r1 & (b["FINISH"] | b["REPLACE"])):
                    return "line %d `%s`: scheduler stops without any request" % (i, l)
                if some1 or some2:
                    return ("line %d `%s`: ABT_sched_has_to_stop answers TRUE under FINISH/REPLACE although a pool of the scheduler "
                            "is not empty or has blocked units that only this scheduler can get back" % (i, l))
            elif ans and used == "inpool" and some1:
                return "line %d `%s`: stacked scheduler stops although its first scan must have found work" % (i, l)
            elif not ans and (r1 & b["FINISH"]) and none1 and none2:
                return "line %d `%s`: FINISH requested and no work left, but ABT_sched_has_to_stop answers FALSE (join never returns)" % (i, l)
        elif w[0] == "ce":
            ult, run = int(w[1]), int(w[2])
            run2 = int(o[1])
            if (ult & b["JOIN"]) and not (run2 & b["FINISH"]):
                return ("line %d `%s`: the main-scheduler ULT carries a join request, but after ABTI_xstream_check_events the running "
                        "scheduler has no FINISH request (a scheduler installed after the join was requested never stops)" % (i, l))
            if (ult & b["CANCEL"]) and not (run2 & b["EXIT"]):
                return "line %d `%s`: cancel request not forwarded as EXIT to the running scheduler" % (i, l)
            if run2 & ~run & ~((b["FINISH"] if ult & b["JOIN"] else 0) | (b["EXIT"] if ult & b["CANCEL"] else 0)):
                return "line %d `%s`: check_events sets a request nobody asked for" % (i, l)
            if run & ~run2:
                return "line %d `%s`: check_events clears a pending request" % (i, l)
            if w[3] != "same" and o[2] != w[3]:
                return "line %d `%s`: check_events of a stacked scheduler changes the main scheduler's request word" % (i, l)
        elif w[0] in ("fin", "exit"):
            r, r2 = int(w[1]), int(o[1])
            bit = b["FINISH"] if w[0] == "fin" else b["EXIT"]
            if r2 != (r | bit):
                return "line %d `%s`: request word %d after the call, expected %d" % (i, l, r2, r | bit)
    return None


# ---------------------------------------------------------------------------------------------------------------------
# (ii) histories: independent oracle = live scheduler objects per pool
# ---------------------------------------------------------------------------------------------------------------------
class Sim:
    def __init__(self):
        self.pools = {}     # slot -> dict(auto, acc, kind, reserved)
        self.scheds = {}    # slot -> dict(pools, auto, used, req)   req: request word
        self.xs = {}        # slot -> dict(main, state)   state: run | joined
        self.bits = _bits()

    def count(self, p):
        return sum(s["pools"].count(p) for s in self.scheds.values())

    def dump(self, status):
        ps = " ".join("%d=%d" % (p, self.count(p)) for p in sorted(self.pools))
        ks = " ".join("%d:%s:%d" % (k, self.scheds[k]["used"], self.scheds[k]["req"]) for k in sorted(self.scheds))
        return "%s | pools%s | scheds%s" % (status, " " + ps if ps else "", " " + ks if ks else "")

    def free_sched(self, k):
        s = self.scheds.pop(k)
        for p in set(s["pools"]):
            if self.pools[p]["auto"] and self.count(p) == 0:
                del self.pools[p]

    def discard(self, k):
        s = self.scheds[k]
        s["used"] = "notused"
        if s["auto"]:
            self.free_sched(k)

    def runners(self, p):
        return sum(1 for x in self.xs.values() if p in self.scheds[x["main"]]["pools"])


def parse_slots(toks):
    """-> (noarr, [(pool, is_new)]) or None"""
    noarr = False
    out = []
    for i, t in enumerate(toks):
        if t == "noarr":
            if i != 0:
                return None
            noarr = True
        elif t.startswith("n") and t[1:].isdigit():
            out.append((int(t[1:]), True))
        elif t.isdigit() and not noarr:
            out.append((int(t), False))
        else:
            return None
    return noarr, out


def sim_apply(sim, line):
    """Apply one op line.  Returns (status, legal): status 'ok' | 'err' as the API must answer; legal = the op is within what the
    generator may issue (slots alive / free as required, no duplicate pool inside one scheduler, schedulers attached once,
    PRIV pools with one running consumer, pools freed only when unattached)."""
    w = line.split()
    if not w:
        return None, False
    op = w[0]
    num = lambda t: int(t) if t.isdigit() else None

    def new_sched(k, slots, auto, attach_to=None):
        if k is None or k in sim.scheds or slots is None:
            return False
        noarr, sl = slots
        ids = [p for p, _ in sl]
        if len(set(ids)) != len(ids) or not ids:
            return False
        for p, isnew in sl:
            if isnew and p in sim.pools:
                return False
            if not isnew and (p not in sim.pools or sim.pools[p]["reserved"]):
                return False
        for p, isnew in sl:
            if isnew:
                sim.pools[p] = dict(auto=True, acc="mpmc", kind="fifo", reserved=True)
        sim.scheds[k] = dict(pools=ids, auto=auto, used="notused", req=0)
        return True

    def attachable(k, x_replacing=None):
        s = sim.scheds[k]
        for p in s["pools"]:
            if sim.pools[p]["acc"] == "priv":
                r = sim.runners(p)
                if x_replacing is not None and p in sim.scheds[sim.xs[x_replacing]["main"]]["pools"]:
                    r -= 1
                if r > 0:
                    return False
        return True

    def helper_ok(x):
        """a ULT can be handed to stream x through pool[0] of its main scheduler"""
        if x == 0 or sim.xs[x]["state"] == "joined":
            return True
        p0 = sim.scheds[sim.xs[x]["main"]]["pools"][0]
        return sim.pools[p0]["acc"] != "priv"

    if op == "init" and len(w) == 1:
        if sim.xs or sim.pools or sim.scheds:
            return "err", False
        sim.pools[0] = dict(auto=True, acc="mpmc", kind="fifo", reserved=True)
        sim.scheds[0] = dict(pools=[0], auto=True, used="main", req=0)
        sim.xs[0] = dict(main=0, state="run")
        return "ok", True
    if not sim.xs:
        return None, False
    if op == "pool" and len(w) == 5:
        p = num(w[1])
        if p is None or p in sim.pools or w[2] not in "01" or w[3] not in ACCS or w[4] not in KINDS:
            return None, False
        sim.pools[p] = dict(auto=w[2] == "1", acc=w[3], kind=w[4], reserved=False)
        return "ok", True
    if op == "poolfree" and len(w) == 2:
        p = num(w[1])
        if p is None or p not in sim.pools or sim.count(p) != 0:
            return None, False
        del sim.pools[p]
        return "ok", True
    if op in ("sched", "schedu"):
        base = 4 if op == "sched" else 3
        if len(w) < base + 1 or (op == "sched" and w[2] not in PREDEFS) or w[base - 1] not in "01":
            return None, False
        slots = parse_slots(w[base:])
        if op == "schedu" and slots and slots[0]:
            return None, False
        if not new_sched(num(w[1]), slots, w[base - 1] == "1"):
            return None, False
        return "ok", True
    if op == "schedfree" and len(w) == 2:
        k = num(w[1])
        if k is None or k not in sim.scheds:
            return None, False
        if sim.scheds[k]["used"] != "notused":
            return "err", True
        sim.free_sched(k)
        return "ok", True
    if op == "xs" and len(w) in (3, 4):
        x = num(w[1])
        if x is None or x in sim.xs:
            return None, False
        if len(w) == 3:
            k = num(w[2])
            if k is None or k not in sim.scheds:
                return None, False
            if sim.scheds[k]["used"] != "notused":
                return "err", True
            if not attachable(k):
                return None, False
        else:
            if not (w[2].startswith("n") and w[3].startswith("n")):
                return None, False
            k = num(w[2][1:])
            if not new_sched(k, parse_slots([w[3]]), True):
                return None, False
        sim.scheds[k].update(used="main", req=0)      # an attachment clears the request word, whatever the scheduler did before
        sim.xs[x] = dict(main=k, state="run")
        return "ok", True
    if op == "xsb" and len(w) >= 5:
        x, k = num(w[1]), num(w[2])
        if x is None or x in sim.xs or w[3] not in PREDEFS:
            return None, False
        keep = (dict(sim.pools), dict(sim.scheds))
        if not new_sched(k, parse_slots(w[4:]), True) or not attachable(k):
            sim.pools, sim.scheds = keep
            return None, False
        sim.scheds[k].update(used="main", req=0)
        sim.xs[x] = dict(main=k, state="run")
        return "ok", True
    if op in ("join", "revive", "xfree") and len(w) == 2:
        x = num(w[1])
        if x is None or x not in sim.xs or x == 0:
            return None, False
        if op == "join":
            sim.xs[x]["state"] = "joined"
            sim.scheds[sim.xs[x]["main"]]["req"] |= sim.bits["FINISH"]
        elif op == "revive":
            if sim.xs[x]["state"] != "joined":
                return None, False
            for p in sim.scheds[sim.xs[x]["main"]]["pools"]:
                if sim.pools[p]["acc"] == "priv" and sim.runners(p) > 1:
                    return None, False
            sim.xs[x]["state"] = "run"
            sim.scheds[sim.xs[x]["main"]]["req"] = 0
        else:
            k = sim.xs.pop(x)["main"]
            sim.scheds[k]["req"] |= sim.bits["FINISH"]      # free = join + free
            sim.discard(k)
        return "ok", True
    if op in ("setmain", "setmainb"):
        x = num(w[1]) if len(w) > 1 else None
        if x is None or x not in sim.xs or not helper_ok(x):
            return None, False
        keep = (dict(sim.pools), {a: dict(b) for a, b in sim.scheds.items()})
        if op == "setmain" and len(w) == 3:
            k = num(w[2])
            if k is None or k not in sim.scheds:
                return None, False
            if sim.scheds[k]["used"] != "notused":
                return "err", True
        elif op == "setmain" and len(w) == 4:
            if not (w[2].startswith("n") and w[3].startswith("n")):
                return None, False
            k = num(w[2][1:])
            if not new_sched(k, parse_slots([w[3]]), True):
                return None, False
        elif op == "setmainb" and len(w) >= 5 and w[3] in PREDEFS:
            k = num(w[2])
            if not new_sched(k, parse_slots(w[4:]), True):
                sim.pools, sim.scheds = keep
                return None, False
        else:
            return None, False
        # the primary ULT (and the ULT that asks) moves to pool[0] of the new scheduler: keep it private to that scheduler.
        # A PRIV pool[0] that the current main scheduler lists as well is excluded: the caller is counted as blocked there,
        # the current scheduler then never stops and the replacement never happens (reported as a candidate defect).
        p0 = sim.scheds[k]["pools"][0]
        waits = x == 0 or sim.xs[x]["state"] == "run"
        old = sim.xs[x]["main"]
        if (x == 0 and not sim.pools[p0]["reserved"]) or not attachable(k, x) or (
                # open finding F16
                waits and sim.pools[p0]["acc"] == "priv" and p0 in sim.scheds[old]["pools"]):
            sim.pools, sim.scheds = keep
            return None, False
        if waits:
            sim.scheds[old]["req"] |= sim.bits["REPLACE"]
        sim.scheds[k].update(used="main", req=0)
        sim.xs[x]["main"] = k
        sim.discard(old)
        return "ok", True
    return None, False


def legal_hist(lines):
    sim = Sim()
    for l in lines:
        st, ok = sim_apply(sim, l)
        if not ok:
            return False
    return True


def oracle_hist(lines, out):
    """After every call: num_scheds of every live pool = number of live scheduler objects that list it; a pool / scheduler
    object is alive exactly as long as its owner (user, or the runtime for automatic ones) has not freed it."""
    sim = Sim()
    for i, l in enumerate(lines):
        if i >= len(out) or out[i] == "":
            return "missing output for line %d `%s`" % (i, l)
        if "bad-op" in out[i] or "harness-error" in out[i]:
            return None
        st, ok = sim_apply(sim, l)
        if not ok:
            return None
        exp = sim.dump(st)
        if out[i].strip() != exp:
            m = re.match(r"(\w+) \| pools(.*) \| scheds(.*)$", out[i].strip())
            if not m:
                return "line %d `%s`: unreadable answer `%s`" % (i, l, out[i])
            if m.group(1) != st:
                return "line %d `%s`: the call %s, expected %s" % (i, l, "fails" if m.group(1) == "err" else "succeeds", st)
            got = dict((int(a), int(b)) for a, b in (t.split("=") for t in m.group(2).split()))
            for p in sorted(set(got) | set(sim.pools)):
                if p not in got:
                    return "after line %d `%s`: pool %d was freed by the runtime but %s" % (
                        i, l, p, "it is user-owned" if not sim.pools[p]["auto"] else "%d live scheduler(s) still list it" % sim.count(p))
                if p not in sim.pools:
                    return "after line %d `%s`: automatic pool %d is still alive (num_scheds=%d) although its last scheduler was freed" % (i, l, p, got[p])
                if got[p] != sim.count(p):
                    who = sorted(k for k, s in sim.scheds.items() if p in s["pools"])
                    return ("after line %d `%s`: pool %d (%s, %s) has num_scheds = %d, but %d live scheduler(s) list it %s — "
                            "ABTI_sched_has_unit counts its blocked units only when num_scheds == 1" %
                            (i, l, p, "automatic" if sim.pools[p]["auto"] else "user-owned", sim.pools[p]["acc"], got[p],
                             sim.count(p), who))
            gots = dict((int(t.split(":")[0]), t.split(":")[1:]) for t in m.group(3).split())
            for k in sorted(set(gots) & set(sim.scheds)):
                sk = sim.scheds[k]
                if len(gots[k]) == 2 and gots[k][0] == sk["used"] and int(gots[k][1]) != sk["req"]:
                    if sk["used"] == "main" and sk["req"] == 0:
                        return ("after line %d `%s`: scheduler %d is a main scheduler with request word %s although nobody requested "
                                "anything from it since it was attached (a FINISH / REPLACE left from an earlier use makes the stream "
                                "terminate or replace by itself)" % (i, l, k, gots[k][1]))
                    return "after line %d `%s`: scheduler %d has request word %s, expected %d" % (i, l, k, gots[k][1], sk["req"])
            return "after line %d `%s`: scheduler objects are `%s`, expected `%s`" % (i, l, m.group(3).strip(), exp.split("| scheds")[1].strip())
    return None


def gen_hist(rng, nops, hist):
    """A legal history (every line passes sim_apply) mixing all families of events."""
    sim = Sim()
    lines = ["init"]
    sim_apply(sim, "init")
    nextp, nextk, nextx = [1], [1], [1]

    def fresh_pool():
        nextp[0] += 1
        return nextp[0] - 1

    def fresh_sched():
        nextk[0] += 1
        return nextk[0] - 1

    def emit(l, kind):
        snap = json.dumps([sim.pools, sim.scheds, sim.xs], sort_keys=True)
        st, ok = sim_apply(sim, l)
        if not ok:
            # generator rule violated (e.g. PRIV pool would get a second consumer): drop the op
            back = json.loads(snap)
            sim.pools = {int(a): b for a, b in back[0].items()}
            sim.scheds = {int(a): b for a, b in back[1].items()}
            sim.xs = {int(a): b for a, b in back[2].items()}
            hist["dropped"] += 1
            return False
        lines.append(l)
        hist[kind] += 1
        return True

    def user_pools():
        return [p for p, d in sim.pools.items() if not d["reserved"]]

    def pick_slots(private_first=False, maxn=3):
        ups = user_pools()
        n = 1 + rng.below(maxn)
        sl = []
        if private_first or rng.chance(1, 4) or not ups:
            sl.append("n%d" % fresh_pool())
        chosen = []
        while len(sl) < n and len(chosen) < len(ups):
            p = rng.choice(ups)
            if p not in chosen:
                chosen.append(p)
                sl.append(str(p))
        if rng.chance(1, 6) and len(sl) < 4:
            sl.append("n%d" % fresh_pool())
        return sl

    guard = 0
    while len(lines) < nops and guard < nops * 6:
        guard += 1
        if nextp[0] > 88 or nextk[0] > 88 or nextx[0] > 22:
            break
        r = rng.below(100)
        ups = user_pools()
        secondary = [x for x in sim.xs if x != 0]
        running = [x for x in secondary if sim.xs[x]["state"] == "run"]
        joined = [x for x in secondary if sim.xs[x]["state"] == "joined"]
        idle = [k for k, s in sim.scheds.items() if s["used"] == "notused"]
        fresh = idle      # any unused scheduler object may be attached, also one that served / was replaced on another stream
        if r < 12 and len(ups) < 6:
            emit("pool %d %d %s %s" % (fresh_pool(), 1 if rng.chance(1, 4) else 0,
                                       rng.choice(ACCS + ["mpmc", "mpmc"]), rng.choice(KINDS)), "pool")
        elif r < 16 and ups:
            p = rng.choice(ups)
            if sim.count(p) == 0:
                emit("poolfree %d" % p, "poolfree")
        elif r < 26 and len(sim.scheds) < 9:
            k = fresh_sched()
            if rng.chance(1, 3):
                emit("schedu %d %d %s" % (k, rng.below(2), " ".join(pick_slots(rng.chance(1, 2)))), "sched_create_user_def")
            elif rng.chance(1, 8):
                pd = rng.choice(PREDEFS[:4])
                m = 3 if pd == "prio" else 1
                emit("sched %d %s %d noarr %s" % (k, pd, rng.below(2), " ".join("n%d" % fresh_pool() for _ in range(m))),
                     "sched_create_basic_noarr")
            else:
                emit("sched %d %s %d %s" % (k, rng.choice(PREDEFS), rng.below(2), " ".join(pick_slots(rng.chance(1, 2)))),
                     "sched_create_basic")
        elif r < 32 and idle:
            emit("schedfree %d" % rng.choice(idle), "sched_free")
        elif r < 34:
            used = [k for k, s in sim.scheds.items() if s["used"] == "main"]
            emit("schedfree %d" % rng.choice(used), "sched_free_in_use(err)")
        elif r < 50 and len(secondary) < 4:
            x = nextx[0]
            q = rng.below(10)
            ok = False
            if q < 3 and fresh:
                k = rng.choice(fresh)
                ok = emit("xs %d %d" % (x, k), "xstream_create(sched)" + (":reused" if sim.scheds[k]["req"] else ""))
            elif q < 4:
                ok = emit("xs %d n%d n%d" % (x, fresh_sched(), fresh_pool()), "xstream_create(NULL)")
            elif q < 5:
                pd = rng.choice(PREDEFS[:4])
                m = 3 if pd == "prio" else 1
                ok = emit("xsb %d %d %s noarr %s" % (x, fresh_sched(), pd, " ".join("n%d" % fresh_pool() for _ in range(m))),
                          "xstream_create_basic_noarr")
            else:
                pd = "basic" if rng.chance(1, 2) else rng.choice(PREDEFS)
                ok = emit("xsb %d %d %s %s" % (x, fresh_sched(), pd, " ".join(pick_slots())), "xstream_create_basic")
            if ok:
                nextx[0] += 1
        elif r < 52:
            used = [k for k, s in sim.scheds.items() if s["used"] == "main"]
            if len(secondary) < 4:
                emit("xs %d %d" % (nextx[0], rng.choice(used)), "xstream_create(sched in use)(err)")
        elif r < 60 and running:
            emit("join %d" % rng.choice(running), "join")
        elif r < 64 and joined:
            emit("revive %d" % rng.choice(joined), "revive")
        elif r < 76 and secondary:
            emit("xfree %d" % rng.choice(secondary), "xstream_free")
        elif r < 96:
            cands = ([0] if rng.chance(1, 4) else []) + running + joined
            if not cands:
                continue
            x = rng.choice(cands)
            tag = "primary" if x == 0 else sim.xs[x]["state"]
            q = rng.below(10)
            if q < 3 and fresh:
                k = rng.choice(fresh)
                emit("setmain %d %d" % (x, k), "set_main_sched(sched):" + tag + (":reused" if sim.scheds[k]["req"] else ""))
            elif q < 4:
                emit("setmain %d n%d n%d" % (x, fresh_sched(), fresh_pool()), "set_main_sched(NULL):" + tag)
            elif q < 5:
                used = [k for k, s in sim.scheds.items() if s["used"] == "main" and k != sim.xs[x]["main"]]
                if used:
                    emit("setmain %d %d" % (x, rng.choice(used)), "set_main_sched(sched in use)(err)")
            else:
                pd = "basic" if rng.chance(1, 2) else rng.choice(PREDEFS[:4])
                emit("setmainb %d %d %s %s" % (x, fresh_sched(), pd, " ".join(pick_slots(private_first=(x == 0)))),
                     "set_main_sched_basic:" + tag)
        else:
            # directed: a user-owned scheduler serves a stream, the stream is freed (or the scheduler replaced), and the same
            # scheduler object is attached again (F14)
            if ups and len(secondary) < 3 and rng.chance(1, 2):
                p = rng.choice(ups)
                k = fresh_sched()
                x = nextx[0]
                if emit("sched %d %s 0 %d" % (k, rng.choice(PREDEFS[:4]), p), "sched_create_basic") and \
                        emit("xs %d %d" % (x, k), "xstream_create(sched)"):
                    nextx[0] += 1
                    x2 = x
                    if rng.chance(1, 2):
                        if rng.chance(1, 2):
                            emit("join %d" % x, "join")
                        emit("xfree %d" % x, "xstream_free")
                        x2 = nextx[0]
                    else:
                        emit("setmainb %d %d basic n%d" % (x, fresh_sched(), fresh_pool()), "set_main_sched_basic:run")
                        x2 = nextx[0]
                    if k in sim.scheds and sim.scheds[k]["used"] == "notused":
                        if rng.chance(2, 3):
                            if emit("xs %d %d" % (x2, k), "xstream_create(sched):reused"):
                                nextx[0] += 1
                                if rng.chance(1, 2):
                                    emit("setmainb %d %d basic n%d" % (x2, fresh_sched(), fresh_pool()),
                                         "set_main_sched_basic:run:of a reused scheduler")
                        elif running:
                            emit("setmain %d %d" % (rng.choice(running), k), "set_main_sched(sched):run:reused")
                continue
            # directed: a stream over a user-owned pool is freed and another one is created over the same pool
            if ups and len(secondary) < 4:
                p = rng.choice(ups)
                x = nextx[0]
                if emit("xsb %d %d basic %d" % (x, fresh_sched(), p), "xstream_create_basic"):
                    nextx[0] += 1
                    emit("xfree %d" % x, "xstream_free")
                    x2 = nextx[0]
                    if emit("xsb %d %d %s %d" % (x2, fresh_sched(), rng.choice(PREDEFS[:4]), p), "re-create over the same user pool"):
                        nextx[0] += 1
    return lines


# ---------------------------------------------------------------------------------------------------------------------
# differential loops
# ---------------------------------------------------------------------------------------------------------------------
def _differential(res, broken, exe, tie, programs, oracle, legal, keep_prefix, what, budget):
    """programs: iterable of line lists.  Returns number of lines compared.  Follows the protocol of AGENT_NOTES: a
    disagreement is classified by the oracle on the implementation's own output; violating_history shrinks it."""
    total = 0
    pending = None
    run_impl = lambda ls: D.run_lines([exe], ls, timeout=180)
    for lines in programs:
        total += len(lines)
        d = _retry(D.compare, "stop", exe, lines)
        if d is None:
            continue
        hb = budget
        if d.get("kind") == "impl-crash":
            # the implementation died / hung at one op: nothing behind it matters, and every further run may cost a watchdog period
            rc0, out0, _ = run_impl(lines)
            lines = lines[:max(keep_prefix + 1, len([o for o in out0 if o.strip()]) + 1)]
            hb = 24
        else:
            # shortest prefix on which the implementation's own output already contradicts the oracle (no further runs needed)
            rc0, out0, _ = run_impl(lines)
            if rc0 == 0:
                for k in range(keep_prefix + 1, len(lines) + 1):
                    if oracle(lines[:k], out0[:k]):
                        lines = lines[:k]
                        break
        vh = D.violating_history(lines, run_impl, oracle, keep_prefix=keep_prefix, budget=hb, legal=legal)
        if vh:
            small, why = vh
            rc, out_c, err = run_impl(small)
            res.violation(what + ": " + why,
                          {"stop": "lines", "correspondence": tie, "ops": small, "disagreement": _retry(D.compare, "stop", exe, small) or d,
                           "impl_output": out_c[:60], "oracle": why,
                           "cmd": "%s < ops   (one op per line; compare with `driver stop`)" % exe})
            broken.append({"kind": "T2-stop", "tie": tie, "first": d})
            return total
        if pending is None:
            def still(ls):
                if legal and not legal(ls):
                    return False
                return _retry(D.compare, "stop", exe, ls) is not None
            small = D.ddmin(lines, still, keep_prefix=keep_prefix, budget=hb)
            rc, out_c, err = run_impl(small)
            pending = {"stop": "lines", "correspondence": tie, "ops": small, "disagreement": _retry(D.compare, "stop", exe, small) or d,
                       "impl_output": out_c[:60]}
            broken.append({"kind": "T2-stop", "tie": tie, "first": d})
    if pending is not None:
        res.violation("%s broken (model and implementation disagree; the implementation's own answers satisfy the oracle on every "
                      "explored input)" % tie, pending, no_input=True)
    return total


def t2_decisions(res, tier, broken, exe, deep):
    rng = C.Rng(res.seed * 6007 + 601)
    hist = collections.Counter()
    nlines = 2500 if tier == "quick" and not deep else 12000
    lines = gen_wb(rng, nlines, hist)
    res.sample({"wb_stop_ops": lines[:6]})
    # chunks keep a shrink cheap
    chunks = [lines[i:i + 500] for i in range(0, len(lines), 500)]
    bits = tree_bits()
    n = _differential(res, broken, exe, TIE_I, chunks, lambda ls, out: oracle_wb(ls, out, bits), None, 0,
                      "the termination decision contradicts its statement", 120)
    res.add_cov(stop_decision_lines=n, stop_decision_histogram=dict(hist))


def t2_accounting(res, tier, broken, exe, deep):
    rng = C.Rng(res.seed * 7561 + 602)
    hist = collections.Counter()
    if tier == "quick" and not deep:
        nprog, nops = 10, 45
    elif tier == "quick":
        nprog, nops = 30, 60
    else:
        nprog, nops = 80, 80
    progs = [gen_hist(rng, nops, hist) for _ in range(nprog)]
    res.sample({"wb_stop_history": progs[0][:16]})
    n = _differential(res, broken, exe, TIE_II, progs, oracle_hist, legal_hist, 1,
                      "the scheduler / pool objects after the call (num_scheds, used, request word) contradict the live objects", 400)
    res.add_cov(stop_histories=nprog, stop_history_ops=n, stop_history_histogram=dict(hist))


# ---------------------------------------------------------------------------------------------------------------------
# (iii) end-to-end programs
# ---------------------------------------------------------------------------------------------------------------------
def run_e2e(exe, argv, timeout=40):
    try:
        p = subprocess.run([exe] + [str(a) for a in argv], stdout=subprocess.PIPE, stderr=subprocess.PIPE, timeout=timeout)
        return p.returncode, (p.stdout.decode("utf-8", "replace") + p.stderr.decode("utf-8", "replace"))[-1200:]
    except subprocess.TimeoutExpired:
        return -999, "timeout"


def e2e(res, exe, deep):
    rng = C.Rng(res.seed * 3559 + 603)
    if deep:
        blocked = [["e2e-blocked", pd, rng.below(3), 1 + rng.below(4), via, 1 + rng.below(3)]
                   for via in (0, 2, 4, 1) for pd in range(4)] + [["e2e-blocked", rng.below(4), rng.below(3), 4, 3, 1]]
        repl = [["e2e-replace", pd1, rng.below(4), rng.below(3), 1 + rng.below(4), rng.below(2), rng.below(2)] for pd1 in range(4)] * 2
    else:
        blocked = [["e2e-blocked", rng.below(4), rng.below(3), 1 + rng.below(4), rng.choice([0, 2, 4]), 1 + rng.below(2)]]
        repl = [["e2e-replace", rng.below(4), rng.below(4), rng.below(3), 1 + rng.below(4), rng.below(2), rng.below(2)]]
    nrun = 0
    for family, runs in (("blocked", blocked), ("replace", repl)):
        for argv in runs:
            rc, out = run_e2e(exe, argv)
            nrun += 1
            if rc == 0:
                continue
            rep = {"stop": "e2e", "argv": argv, "exit": rc, "output": out, "cmd": "%s %s" % (exe, " ".join(map(str, argv)))}
            if rc == 1 and family == "blocked":
                res.violation("ABT_xstream_join returned (stream TERMINATED) while a ULT of a pool that only this stream schedules was "
                              "still blocked: " + out.strip().split("\n")[-1][:300], rep)
            elif rc in (5, -999):
                res.violation("ABT_xstream_join / free does not return although all work of the stream is done (watchdog): " +
                              out.strip().split("\n")[-1][:300], rep)
            elif rc == 1:
                res.violation("end-to-end program fails: " + out.strip().split("\n")[-1][:300], rep)
            else:
                res.violation("end-to-end program aborted (exit %d): %s" % (rc, out.strip()[-400:]), rep)
            break
    res.add_cov(stop_e2e_runs=nrun)


# ---------------------------------------------------------------------------------------------------------------------
def run_stop(res, tier, broken, prop):
    t0 = time.time()
    n, tb = t1.check(STOP_T1)
    res.add_cov(stop_t1_functions=n, stop_t1_broken=len(tb))
    for b in tb:
        broken.append({"kind": "T1-skeleton", **b})
    # the theorems live in Props/C06Stop.lean (imported by Props/C06 and Props/C01, built with them)
    if not any(b.get("kind") == "lean-build" for b in broken):
        names, axioms, problems = C.audit("C06Stop")
        res.add_cov(stop_theorems=names, stop_obligations=len(names), stop_discharged=0 if problems else len(names))
        if problems:
            broken.append({"kind": "axiom-audit", "module": "Props/C06Stop", "problems": problems})
    exe = C.cc_harness("wb_stop", ["wb_stop.c"], "plain")
    deep = bool(broken)
    nv = len(res.violations)
    t2_decisions(res, tier, broken, exe, deep)
    t2_accounting(res, tier, broken, exe, deep)
    e2e(res, exe, deep or bool(broken) or tier != "quick")
    res.add_cov(stop_wall_s=round(time.time() - t0, 1))
    return len(res.violations) - nv


def replay(res, path):
    rep = json.load(open(path))
    exe = C.cc_harness("wb_stop", ["wb_stop.c"], "plain")
    if rep.get("stop") == "e2e":
        rc, out = run_e2e(exe, rep["argv"])
        print("exit %d\n%s" % (rc, out))
        return 1 if rc else 0
    if rep.get("stop") == "lines" and "ops" in rep:
        d = _retry(D.compare, "stop", exe, rep["ops"])
        rc, out_c, err = D.run_lines([exe], rep["ops"], timeout=180)
        for l, o in zip(rep["ops"], out_c):
            print("%-60s -> %s" % (l[:60], o))
        print("disagreement with the model:", d)
        if rc != 0:
            print("implementation exit %s: %s" % (rc, err[-500:]))
            return 1
        isdec = rep["ops"] and rep["ops"][0].split()[0] in ("hu", "hs", "ce", "fin", "exit")
        why = oracle_wb(rep["ops"], out_c) if isdec else oracle_hist(rep["ops"], out_c)
        print("oracle:", why)
        return 1 if (d or why) else 0
    return None
