"""C18 — a failed allocation fails cleanly.

Proof side (check.py builds it): Props/C18.lean, theorems over the goto-programs that
tools/laddergen.py regenerates from the clang AST of the current source (T1+).
This module is the correspondence side and the failing-input search:

 1. exhaustive single-fault enumeration on the real code (harness/fi_scen.c + faultinj.c, link-time
    --wrap of malloc/calloc/realloc/posix_memalign/aligned_alloc/free/mmap/munmap/pthread_create/
    pthread_join/pthread_{mutex,cond,barrier}_{init,destroy}): every scenario is run once to count the N
    acquisitions the routine makes, then once per k = 1..N in a fresh process with the k-th one failing.
    Scenarios = hand-written ones + the generated cross product (fi_scen.c gen_scens) of every fallible
    creation / association path with every configuration dimension that selects another ladder branch
    (thread attributes, built-in / ABT_pool_user_def / legacy ABT_pool_def pools, the caller's or another
    stream, scheduler kinds).  Allocations made inside user callbacks pass the same gate, so the user
    create_unit allocation and the runtime's unit-map allocation fail separately; the check verifies that
    every scenario over a user-defined pool reached both.  What the armed thread frees inside the call is
    quarantined, so a second free is recognised with certainty;
 2. sequence tie: the library is also built with -finstrument-functions; for every activation of a
    translated routine inside a scenario run the sequence of its direct non-pure callees must be the
    callee sequence of one execution of the generated program (`driver ledger paths`);
 3. the one statement that is false on the unchanged tree (Props/C18Strict.lean, finding C18-A) is built
    separately and tied to the concrete failing call found by (1)."""
import collections, fnmatch, json, os, re, signal, subprocess
from concurrent.futures import ThreadPoolExecutor
from vlib import common as C

ASSUMPTIONS = [
    "single failure per call (k-th acquisition of the calling thread inside the routine); double failures not claimed",
    "callee summaries of tools/laddergen.py CALLEES (fails => ledger unchanged, succeeds => adds one resource of the "
    "stated kind) are assumptions for callees that are not themselves translated; cross-checked by the enumeration",
    "memory-pool pages taken from the OS by a failed call stay cached in the pool (returned at ABT_finalize, checked: "
    "nothing is live after finalize); an EMPTY lazily created key table may stay attached to the pre-existing target unit",
    "loops (num_pools) are explored up to 2 iterations in the theorems (`_partial`), up to 3 in the sequence tie; "
    "data-dependent loops up to 2 iterations",
    "opaque conditions (arguments, configuration) are resolved both ways in the model; the tie checks membership of the "
    "observed callee sequence, not which valuation produced it",
    "fault injection covers the primitives the library reaches through the linker (glibc-internal allocations inside "
    "pthread_create etc. are part of that primitive)",
    "emptied unit->thread map entries that a failed call leaves in the runtime's hash table are a cache (re-used, freed at "
    "ABT_finalize, checked: nothing is live after finalize); the harness recognises them through a mirror of the private "
    "struct unit_to_thread of src/unit.c; a NON-empty new entry counts as a dangling mapping",
    "an injected failure may end in success only below ABTU_alloc_largepage / ABTU_is_supported_largepage_type (next "
    "allocation method), ABTI_thread_handle_request_migrate (pending migration retried at the next scheduling point) and "
    "ABT_thread_migrate (next stream); anywhere else it is reported as absorbed-unexpected",
    "state comparison is a white-box snapshot of the objects the scenario can name (streams, pools, units, the scenario's "
    "scheduler / stream / units, the calling unit, used unit-map entries); memory the snapshot does not print is covered "
    "only by the ledger, the follow-up workload and the retry",
    "scenarios whose call switches context (main-scheduler replacement on the caller's stream, ABT_self_schedule, "
    "migration at a yield, create_to / revive_to) count acquisitions of the calling OS thread until the call returns; the "
    "sequence tie compares such activations up to the switch",
    "an open entry of KNOWN_FINDINGS.json whose `signature` fnmatch-es C18:<scenario>:k=<k>:<symptom> turns those failing "
    "runs into one KNOWN-FINDING line (F17: ABT_pool_push_threads); every other failing run is a VIOLATION (at most "
    "%d replay files per run, all counted in the evidence)" % 12,
]

WRAP = ("malloc calloc realloc posix_memalign aligned_alloc free mmap munmap pthread_create pthread_join "
        "pthread_mutex_init pthread_mutex_destroy pthread_cond_init pthread_cond_destroy pthread_barrier_init "
        "pthread_barrier_destroy").split()
EXTRA = "-no-pie " + " ".join("-Wl,--wrap=%s" % w for w in WRAP)
C.VARIANTS.setdefault("finstr", ("gcc", "-O1 -g -fno-omit-frame-pointer -finstrument-functions"))
F_QUICK = 128
F_UMAP = 1024
SYMPTOMS = ["crash", "hang", "bad-release", "freed-preexisting", "dangling-handle", "leak", "pool-element-leak",
            "state-changed", "followup", "retry-failed", "final-leak", "not-reached", "drain", "error-uninjected",
            "absorbed-unexpected", "other"]
# an injected failure may end in SUCCESS only where the runtime has a documented fallback / retry: the large-page
# allocator tries the next method, a pending migration is retried at the next scheduling point, ABT_thread_migrate
# tries the next stream.  Anywhere else "the k-th acquisition failed and the call reported success" is a violation.
ABSORBING = ("ABTU_alloc_largepage", "ABTU_is_supported_largepage_type", "ABTI_thread_handle_request_migrate",
             "ABT_thread_migrate")
USER_CB = ("up_create_unit", "lg_create_unit", "up_init", "us_init")      # allocations made by user callbacks
UNIT_MAP = ("unit_map_thread", "ABTI_unit_map_thread", "ABTI_thread_init_pool", "ABTI_thread_set_associated_pool",
            "ABTI_unit_set_associated_pool")   # the map malloc is inlined into these
MAX_VIOLATIONS = 12
REL_NAME = {"heap": "free", "map": "munmap", "thread": "pthread_join", "mutex": "pthread_mutex_destroy",
            "cond": "pthread_cond_destroy", "barrier": "pthread_barrier_destroy"}
TIE_FUEL, TIE_BOUND = 900, 3


def build(variant):
    return C.cc_harness("fi_scen", ["fi_scen.c", "faultinj.c"], variant, extra=EXTRA)


def scen_list(exe):
    rc, out = C.sh([exe, "list"], check=True)
    res = []
    for l in out.strip().split("\n"):
        n, fl, rt = l.split()
        res.append((n, int(fl), None if rt == "-" else rt))
    return res


def run_one(exe, scen, k, trace=False):
    cmd = [exe, scen, str(k)] + (["trace"] if trace else [])
    try:
        p = subprocess.run(cmd, stdout=subprocess.PIPE, stderr=subprocess.PIPE, timeout=120)
    except subprocess.TimeoutExpired:
        return {"scen": scen, "k": k, "crash": "hang", "stderr": ""}
    out = p.stdout.decode("utf-8", "replace").strip()
    err = p.stderr.decode("utf-8", "replace")
    if p.returncode != 0 or not out:
        if p.returncode == 97:
            what = "hang"
        elif p.returncode < 0:
            try:
                what = "crash:" + signal.Signals(-p.returncode).name
            except ValueError:
                what = "crash:%d" % p.returncode
        else:
            what = "crash:exit%d" % p.returncode
        phases = re.findall(r"PHASE (\w+)", err)
        site = re.findall(r"^FAILSITE (.*)$", err, re.M)
        return {"scen": scen, "k": k, "crash": what, "phase": phases[-1] if phases else "?", "stderr": err[-1500:],
                "failsite": site[0].split() if site else []}
    try:
        return json.loads(out.split("\n")[-1])
    except ValueError:
        return {"scen": scen, "k": k, "crash": "crash:garbled-output", "stderr": out[-500:]}


def symptoms_of(r):
    """ordered list of symptom names for one (scenario, k) result; empty = conforms"""
    if "crash" in r:
        return ["hang" if r["crash"] == "hang" else "crash"]
    found = []
    for p in r.get("problems", []):
        head = p.split(":")[0].strip()
        if head in ("prep", "call", "check_failure", "use_result", "followup", "retry", "world_build", "world_teardown",
                    "init", "finalize"):
            head = "followup" if head != "retry" else "retry-failed"
        found.append(head if head in SYMPTOMS else "other")
    if r.get("k", 0) > 0 and not r.get("fired") and "not-reached" not in found:
        found.append("not-reached")
    if r.get("outcome") == "error-uninjected" and r.get("k", 0) == 0:
        found.append("error-uninjected")
    if r.get("absorbed_unexpected"):
        found.append("absorbed-unexpected")
    return sorted(set(found), key=SYMPTOMS.index)


def symbolize(exe, addrs):
    addrs = [a for a in addrs if a]
    if not addrs:
        return []
    rc, out = C.sh(["addr2line", "-f", "-s", "-e", exe] + addrs)
    ls = out.strip().split("\n")
    return ["%s (%s)" % (ls[i], ls[i + 1]) for i in range(0, len(ls) - 1, 2)]


def classify_failsites(exe, runs):
    """one addr2line call for every frame of every injected failure: sets r["stack"] (function names, innermost
    first), r["where"] in {"user-callback", "unit-map", "runtime"} and r["absorbed_unexpected"]"""
    addrs = sorted({a for rs in runs.values() for r in rs for a in r.get("failsite", [])})
    name = {}
    if addrs:
        for i in range(0, len(addrs), 4000):
            rc, out = C.sh(["addr2line", "-f", "-s", "-e", exe] + addrs[i:i + 4000])
            ls = out.strip().split("\n")
            for j, a in enumerate(addrs[i:i + 4000]):
                name[a] = ls[2 * j] if 2 * j < len(ls) else "?"
    for rs in runs.values():
        for r in rs:
            fs = r.get("failsite", [])
            if not fs:
                continue
            st = [name.get(a, "?") for a in fs]
            r["stack"] = st
            inner = st[2:6]     # st[0:2] are the injector's gate and the __wrap_ function
            if any(f in USER_CB for f in inner[:2]):
                r["where"] = "user-callback"
            elif len(inner) > 1 and inner[0] in ("ABTU_malloc", "ABTU_memalign") and inner[1] in UNIT_MAP:
                r["where"] = "unit-map"
            else:
                r["where"] = "runtime"
            if r.get("outcome") == "absorbed" and not any(f in ABSORBING for f in st):
                r["absorbed_unexpected"] = True
                r.setdefault("problems", []).append("absorbed-unexpected: acquisition %d failed inside %s and the call "
                                                    "returned success" % (r.get("k", 0), " <- ".join(st[2:5])))


def enumerate_all(exe, scens, trace=False):
    """returns {scenario: [result for k = 0..N]}"""
    with ThreadPoolExecutor(C.NCPU) as ex:
        base = list(ex.map(lambda s: run_one(exe, s[0], 0, trace), scens))
        jobs = []
        for s, b in zip(scens, base):
            n = b.get("N", 0) if "crash" not in b else 0
            jobs += [(s[0], k) for k in range(1, n + 1)]
        rest = list(ex.map(lambda j: run_one(exe, j[0], j[1], trace), jobs))
    out = {s[0]: [b] for s, b in zip(scens, base)}
    for (sn, k), r in zip(jobs, rest):
        out[sn].append(r)
    return out


# ----------------------------------------------------------------------------------------- sequence tie
def symtab(exe):
    rc, out = C.sh(["nm", "-n", exe], check=True)
    tab = {}
    for l in out.split("\n"):
        w = l.split()
        if len(w) == 3 and w[1] in "tTwW":
            tab.setdefault(int(w[0], 16), w[2])
    return tab


def model_paths(routines):
    """{C function: set of callee-name sequences} from the Lean interpreter over Gen.Ladders"""
    from tools import laddergen as L
    by_fn = collections.defaultdict(list)
    for cfg in L.ROUTINES:
        by_fn[cfg["fn"]].append(cfg.get("name", cfg["fn"]))
    lines = []
    for fn in routines:
        for name in by_fn.get(fn, []):
            lines.append("paths %s %d %d" % (name, TIE_FUEL, TIE_BOUND))
    p = subprocess.run([C.driver_exe(), "ledger"], input=("\n".join(lines) + "\n").encode(), stdout=subprocess.PIPE,
                       stderr=subprocess.PIPE, timeout=600)
    out = p.stdout.decode().split("\n")
    res = collections.defaultdict(set)
    verdict = collections.defaultdict(collections.Counter)
    sites = set()
    it = iter(lines)
    cur = None
    names = [n for fn in routines for n in by_fn.get(fn, [])]
    fn_of = {n: fn for fn in routines for n in by_fn.get(fn, [])}
    idx = 0
    for l in out:
        if l.startswith("run "):
            m = re.search(r"ret=(\w+) .*trace=\[(.*)\]$", l)
            seq = tuple(e[1:] for e in m.group(2).split() if e.startswith("@"))
            if m.group(1) != "timeout":
                res[fn_of[names[idx]]].add(seq)
            for flag, what in (("fb=false", "not balanced after an injected failure"), ("ho=false", "output handle wrong"),
                               ("pe=false", "pre-existing object touched on an error path"),
                               ("sr=false", "visible state of a pre-existing object changed and not rolled back on an error path"),
                               ("fault=double", "double release"),
                               ("fault=release-un", "release of a never-assigned pointer"), ("ret=timeout", "timeout")):
                if flag in l:
                    verdict[names[idx]][what] += 1
            sites.update(seq)
        elif l.startswith("end "):
            idx += 1
        elif l.startswith("bad-op"):
            raise RuntimeError("driver ledger rejected a paths request")
    model_paths.verdict = {k: dict(v) for k, v in verdict.items()}
    return res, by_fn


def classify_names():
    from tools import laddergen as L
    indirect = set(k for k, v in L.INDIRECT.items() if v[0] != "pure")
    over = collections.defaultdict(dict)
    for cfg in L.ROUTINES:
        over[cfg["fn"]].update(cfg.get("over", {}))

    def marked(fn, n):
        """does the translator emit a call mark for callee n inside routine fn?  None = unknown callee"""
        if n in over[fn]:
            return over[fn][n][0] != "pure"
        if L.GETTER.match(n) or n in L.PURE_NAMES or n.startswith(L.PURE_PREFIX):
            return False
        if n in L.CALLEES:
            return L.CALLEES[n][0] != "pure"
        return None
    return marked, indirect


# callees that switch to another work unit on the calling OS thread: what is recorded after them belongs to whatever
# runs next, so an activation that reaches one is compared up to that point only (prefix of a model path)
SWITCHERS = {"ABTI_ythread_suspend_replace_sched", "ABTI_ythread_yield_to", "ABTI_ythread_schedule", "ABTI_ythread_yield",
             "ABTI_ythread_suspend", "ABTI_ythread_suspend_to", "ABTI_ythread_yield_orphan", "ABTI_ythread_exit",
             "ABTD_ythread_context_switch", "ABTD_ythread_context_jump", "ABTI_ythread_switch_to_sibling_internal",
             "ABTI_ythread_switch_to_parent_internal", "ABTI_ythread_switch_to_child_internal"}


def activations(r, tab, routines):
    """yield (routine, [direct non-libc callee names and primitive events in order], cut) for one traced run;
    cut = number of leading children recorded before the activation (transitively) switched context, None if never"""
    evs = []
    for tok in r.get("events", "").split():
        m = re.match(r"^([+-])([\w]+)(!\w+)?@(\d+)$", tok)
        if not m:
            continue
        name = m.group(2) if m.group(1) == "+" else REL_NAME.get(m.group(2), m.group(2))
        evs.append((name, int(m.group(4))))
    stack = []   # (name, depth, children)
    done = []
    evi = 0
    depth = 0

    def flush(upto):
        nonlocal evi
        while evi < upto and evi < len(evs):
            name, d = evs[evi]
            for fr in stack:
                if fr[1] + 1 == d:
                    fr[2].append(name)
            evi += 1
    for tok in r.get("trace", "").split():
        kind, rest = tok[0], tok[1:]
        addr, evpos = rest.split(":")
        flush(int(evpos))
        name = tab.get(int(addr, 16), "?" + addr)
        if kind == "E":
            for fr in stack:
                if fr[1] + 1 == depth:
                    fr[2].append(name)
            if name in SWITCHERS:
                for fr in stack:
                    if fr[3] is None:
                        fr[3] = len(fr[2])
            if name in routines:
                stack.append([name, depth, [], None])
            depth += 1
        else:
            depth -= 1
            if stack and stack[-1][0] == name and stack[-1][1] == depth:
                done.append(stack.pop())
    flush(len(evs))
    # activations cut short by a context switch or a crash are dropped (never closed)
    return [(n, ch, cut) for n, _, ch, cut in done]


def lean_side(broken):
    """everything that reads Gen/Ladders.lean or the driver binary, under the pipeline lock (other checks
    regenerate Gen/ from their own VERIF_REPO concurrently): path sets for the tie, strict module"""
    from tools import laddergen as L
    routines = sorted({cfg["fn"] for cfg in L.ROUTINES})
    with C.Lock("pipeline"):
        L.generate()
        okd, outd = C.lake_build(["driver"])
        if not okd:
            raise RuntimeError("driver does not build: " + outd[-1500:])
        paths, by_fn = model_paths(routines)
        ok, out = C.lake_build(["ArgoVerif.Props.C18Strict"])
        audit = C.audit("C18Strict") if ok else None
    return routines, paths, ok, out, audit


def tie(res, exe_i, scens, routines, paths):
    marked, indirect = classify_names()
    tab = symtab(exe_i)
    runs = enumerate_all(exe_i, scens, trace=True)
    checked = collections.Counter()
    cutn = collections.Counter()
    mism = []
    for sn, rs in sorted(runs.items()):
        for r in rs:
            if "crash" in r:
                continue
            for fn, children, cut in activations(r, tab, set(routines)):
                seq = []
                for c in (children if cut is None else children[:cut]):
                    mk = marked(fn, c)
                    if mk:
                        seq.append(c)
                    elif mk is None:
                        seq.append("<indirect>")    # user / pool / scheduler callback reached through a function pointer
                want = paths.get(fn, set())
                norm = {tuple("<indirect>" if x in indirect else x for x in s) for s in want}
                checked[fn] += 1
                if cut is not None:
                    cutn[fn] += 1
                    if not any(s[:len(seq)] == tuple(seq) for s in norm):
                        mism.append({"scenario": sn, "k": r.get("k"), "routine": fn, "observed_prefix": seq})
                elif tuple(seq) not in norm:
                    mism.append({"scenario": sn, "k": r.get("k"), "routine": fn, "observed": seq})
    res.add_cov(traces_validated_against_impl=sum(checked.values()), tie_activations=dict(checked),
                tie_activations_compared_up_to_a_context_switch=dict(cutn),
                tie_routines_exercised=len(checked), tie_routines_translated=len(routines))
    if mism:
        res.sample({"tie_mismatch": mism[0]})
    return mism


# ----------------------------------------------------------------------------------------- main entry
def broken_routines(b):
    """C functions whose evaluation lemma (Proofs/LedgerRuns.lean `runs_<routine>`) or theorem failed"""
    from tools import laddergen as L
    fn_of = {cfg.get("name", cfg["fn"]): cfg["fn"] for cfg in L.ROUTINES}
    names = set()
    for t in b.get("theorems", []):
        if t and t.startswith("ledger_"):
            names.add(re.sub(r"^ledger_(fail_balanced|success_exact|handle_null_or_untouched|preexisting_untouched_on_error|"
                             r"preexisting_untouched|no_double_release|state_unchanged_on_error)_", "",
                             t).replace("_partial", ""))
    for e in b.get("errors", []):
        m = re.search(r"Proofs/(LedgerRuns2?)\.lean:(\d+):", e)
        if m:
            try:
                src = open(os.path.join(C.LEAN, "ArgoVerif", "Proofs", m.group(1) + ".lean")).read().split("\n")
            except OSError:
                src = []
            for i in range(min(int(m.group(2)), len(src)) - 1, -1, -1):
                mm = re.match(r"theorem (?:runs|nonvacuous)_(\w+)", src[i])
                if mm:
                    names.add(mm.group(1))
                    break
    return sorted({fn_of.get(n, n) for n in names})


def report(res, exe, sn, r, sym, known):
    """one failing (scenario, k): KNOWN-FINDING if an open entry of KNOWN_FINDINGS.json matches its signature,
    otherwise a VIOLATION with the replay (at most MAX_VIOLATIONS files; the rest is counted in the evidence)"""
    sig = "C18:%s:k=%d:%s" % (sn, r.get("k", 0), sym[0])
    for f in known:
        # `signature` of an open finding is an fnmatch pattern over "C18:<scenario>:k=<k>:<first symptom>"
        pat = f.get("signature", "")
        if pat == sig or fnmatch.fnmatchcase(sig, pat) or fnmatch.fnmatchcase(sig, pat + ":*"):
            hits = report.known_hits.setdefault(f.get("id", "?"), [])
            if not hits:
                res.known_finding("%s %s" % (f.get("id", "?"), f.get("what", "")))     # once per entry
            hits.append(sig)
            return "known"
    rep = {"scenario": sn, "k": r.get("k", 0), "signature": sig, "symptoms": sym, "problems": r.get("problems"),
           "outcome": r.get("outcome", r.get("crash")), "rc": r.get("rc"), "phase": r.get("phase"),
           "fail_site": symbolize(exe, r.get("failsite", [])), "events": r.get("events"),
           "leaks": [dict(l, bt=symbolize(exe, l.get("bt", []))) for l in r.get("leaks", [])][:4],
           "stderr": r.get("stderr", "")[-600:],
           "replay": "build/repo/<hash>/plain/fi_scen %s %d" % (sn, r.get("k", 0))}
    if len(res.violations) >= MAX_VIOLATIONS:
        return "capped"
    res.violation("%s, failing acquisition %d: %s" % (sn, r.get("k", 0), "; ".join(r.get("problems", [])[:2]) or
                                                      r.get("crash", "")), rep)
    return "violation"


def run(res, tier, broken):
    exe = build("plain")
    allsc = scen_list(exe)
    quick = [s for s in allsc if s[1] & F_QUICK]
    # the whole enumeration takes a few seconds on 16 cores, so both tiers enumerate every scenario; the
    # tiers differ in how much of it is traced for the sequence tie
    scens = allsc
    runs = enumerate_all(exe, scens)
    classify_failsites(exe, runs)
    known = C.open_findings("C18")
    report.known_hits = {}
    flags = {s[0]: s[1] for s in allsc}
    where = collections.Counter()
    reach = collections.defaultdict(set)
    hist = collections.Counter()
    kinds = collections.Counter()
    perscen = {}
    evaluations = 0
    sites = set()
    bad = []
    for sn, rs in sorted(runs.items()):
        perscen[sn] = rs[0].get("N", 0) if "crash" not in rs[0] else -1
        for r in rs:
            evaluations += 1
            hist[r.get("outcome", r.get("crash"))] += 1
            fs = r.get("failsite", [])
            if fs:
                sites.add((sn, tuple(fs[1:4])))
            m = re.search(r"\+(\w+)!F", r.get("events", ""))
            if m:
                kinds[m.group(1)] += 1
            for n in r.get("notes", []):
                hist["note:" + n.split(":")[0]] += 1
            if r.get("where"):
                where[r["where"]] += 1
                reach[sn].add(r["where"])
            sym = symptoms_of(r)
            if sym:
                bad.append((sn, r, sym))
    verdicts = collections.Counter(report(res, exe, sn, r, sym, known) for sn, r, sym in bad)
    badscen = {sn for sn, _, _ in bad}
    # scenarios whose call creates a unit of a user-defined pool must have reached BOTH the user callback's own
    # allocation and the runtime's unit-map allocation (otherwise the enumeration silently lost the branch it is there for)
    unreached = sorted(sn for sn, fl in flags.items() if fl & F_UMAP and sn not in badscen and
                       not {"user-callback", "unit-map"} <= reach[sn])
    if unreached:
        res.violation("scenario(s) over a user-defined pool no longer reach the user callback's allocation and the unit-map "
                      "allocation: %s" % ", ".join(unreached[:6]),
                      {"correspondence": "harness/fi_scen.c F_UMAP scenarios vs failing sites", "scenarios": unreached,
                       "reached": {sn: sorted(reach[sn]) for sn in unreached}}, no_input=True)
    rng = C.Rng(res.seed * 1009 + 18)
    flat = [(sn, r) for sn, rs in sorted(runs.items()) for r in rs if r.get("k", 0) > 0 and "crash" not in r]
    for _ in range(3):
        if flat:
            sn, r = rng.choice(flat)
            res.sample({"scenario": sn, "k": r["k"], "N": perscen[sn], "outcome": r["outcome"], "rc": r["rc"],
                        "retry_rc": r["retry"], "events": r["events"][:300],
                        "failed_in": r.get("stack", [])[2:5], "where": r.get("where")})
    res.add_cov(evaluations=evaluations, distinct_nontrivial=len(sites), exhaustive=True,
                rule="every scenario x every k in 1..N (N = acquisitions counted in an unarmed run of the same scenario); "
                     "distinct = distinct (scenario, three innermost return addresses of the failing acquisition)",
                scenarios=len(scens), scenarios_handwritten=sum(1 for s in scens if "." not in s[0]),
                scenarios_generated={f: sum(1 for s in scens if s[0].startswith(f + ".")) for f in ("mk", "as", "ms", "ps", "sc", "xc")},
                acquisitions_per_scenario=perscen, outcomes=dict(hist),
                failed_primitive_kinds=dict(kinds), failed_in=dict(where),
                user_pool_scenarios=sum(1 for fl in flags.values() if fl & F_UMAP),
                user_pool_scenarios_reaching_both_sites=sum(1 for sn, fl in flags.items() if fl & F_UMAP and
                                                            {"user-callback", "unit-map"} <= reach[sn]),
                violations_found=verdicts.get("violation", 0) + verdicts.get("capped", 0),
                failing_runs_matching_open_findings={k: sorted(v) for k, v in report.known_hits.items()})
    # sequence tie (model <-> code)
    routines, paths, ok, out, audit = lean_side(broken)
    exe_i = build("finstr")
    tscens = quick if (tier == "quick" and not broken) else allsc
    mism = tie(res, exe_i, tscens, routines, paths)
    if mism:
        res.violation("T1+ sequence tie broken: callee sequence of %s in scenario %s k=%s is not an execution of the "
                      "generated program" % (mism[0]["routine"], mism[0]["scenario"], mism[0]["k"]),
                      {"correspondence": "harness/fi_scen.c trace vs driver ledger paths", "mismatches": mism[:10]},
                      no_input=not bad)
    # the strict statement (false on the unchanged tree: finding C18-A)
    c18a = [b for b in bad if b[0].startswith(("pool_add_sched", "ps."))]
    strict_own = ok or any("Props/C18Strict.lean" in l for l in out.split("\n") if "error" in l)
    res.add_cov(strict_statement="discharged" if ok else "fails (ythread_create releases the caller's scheduler; see "
                "pool_add_sched_userpool)")
    if ok:
        names, axioms, problems = audit
        if problems:
            res.violation("axiom audit of Props/C18Strict failed", {"problems": problems}, no_input=True)
        else:
            res.add_cov(obligations=len(names), discharged=len(names))
    elif not strict_own:
        # the module failed only because a module it imports (Proofs/LedgerRuns*) no longer builds: those broken
        # obligations are tied to failing inputs below
        res.add_cov(strict_statement="not built: an imported evaluation lemma fails (see broken_obligations)")
    elif not c18a:
        res.violation("Props/C18Strict no longer builds and the enumeration shows no failing call",
                      {"broken": [l for l in out.split("\n") if "error" in l][:5]}, no_input=True)
    # broken proof obligations: tie them to the failing inputs found above, or say that none was found
    for b in broken:
        if b.get("kind") != "lean-build":
            continue
        fns = broken_routines(b)
        hit = []
        for sn, r, sym in bad:
            stack = " ".join(symbolize(exe, r.get("failsite", [])))
            rt = dict((s[0], s[2]) for s in allsc).get(sn)
            if any(f == rt or (f + " (") in stack for f in fns):
                hit.append("%s k=%d" % (sn, r.get("k", 0)))
        why = {n: v for n, v in getattr(model_paths, "verdict", {}).items() if any(n == f or n.startswith(f) for f in fns)}
        res.add_cov(broken_obligations={"theorems": b.get("theorems"), "routines": fns, "failing_inputs": hit[:10],
                                        "model_runs_violating": why})
        if not hit:
            res.violation("theorems about the generated ladder of %s no longer hold and the exhaustive single-fault "
                          "enumeration shows no observable failure for it" % ", ".join(fns),
                          {"broken": [b], "routines": fns, "model_runs_violating": why}, no_input=True)


def replay(res, path):
    rep = json.load(open(path))
    if "scenario" not in rep:
        print("replay file names a broken obligation without a failing input:", rep.get("broken") or rep.get("mismatches"))
        return 1
    exe = build("plain")
    r = run_one(exe, rep["scenario"], int(rep["k"]))
    sym = symptoms_of(r)
    print("scenario %s k=%s -> %s %s" % (rep["scenario"], rep["k"], r.get("outcome", r.get("crash")), sym))
    for p in r.get("problems", []):
        print("  ", p)
    print("   failing acquisition at:", symbolize(exe, r.get("failsite", [])[1:6]))
    return 1 if sym else 0
