"""C01 — every work unit runs exactly once to completion; none is lost or duplicated.
Ties: T1 (skeletons of the scheduling / context-switch / life-cycle functions), T3 (vsched traces of generated work-unit
programs validated against Model.Sched), scenario monitors + deadlock detection for the failing-input search."""
from checks import sched_common as S

ASSUMPTIONS = list(S.BASE_ASSUMPTIONS)
EXTRA_T1 = []


def run(res, tier, broken):
    S.run_sched(res, tier, broken, "C01", EXTRA_T1)


def replay(res, path):
    return S.replay(res, path)
