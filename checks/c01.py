"""C01 — every work unit runs exactly once to completion; none is lost or duplicated.
Ties: T1 (skeletons of the scheduling / context-switch / life-cycle functions), T3 (vsched traces of generated work-unit
programs validated against Model.Sched), scenario monitors + deadlock detection for the failing-input search;
the scheduler-termination decision and the pool-consumer accounting (Props/C06Stop over Model.Stop): T1, T2 differential of the
real has_unit / has_to_stop / check_events and of num_scheds along API histories, end-to-end search programs (checks/stop_common.py)."""
import json
from checks import sched_common as S
from checks import stop_common as ST

ASSUMPTIONS = list(S.BASE_ASSUMPTIONS) + list(ST.ASSUMPTIONS)
# the pools a unit travels through belong to C01's anchors as well: the queue code and the access -> callback dispatch
# (same list as C07; a slip in the list surgery loses or duplicates units)
from checks import c07 as _c07
EXTRA_T1 = list(_c07.T1_FUNCS)


def run(res, tier, broken):
    ST.run_stop(res, tier, broken, "C01")
    S.run_sched(res, tier, broken, "C01", EXTRA_T1)
    S.run_native(res, "nat_sched_matrix", "a work unit is run by the stream that schedules its pool (predefined schedulers over 1..4 pools, stacked scheduler)")


def replay(res, path):
    if json.load(open(path)).get("native"):
        return S.replay_native(json.load(open(path)))
    if "stop" in json.load(open(path)):
        return ST.replay(res, path)
    return S.replay(res, path)
