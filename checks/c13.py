"""C13 — migration moves a unit to the requested pool exactly once, with its callback.
Ties: T1 (skeletons of the scheduling / context-switch / life-cycle functions), T3 (vsched traces of generated work-unit
programs validated against Model.Sched), scenario monitors + deadlock detection for the failing-input search; migrations
whose re-association with a user-defined target pool fails (single injected allocation failures, harness/fi_scen.c
`as.mig_yield.*`): the callback belongs to the performed migration only; T2: the request rules (Model.MigRules)
exhaustively over four pools against the real ABT_thread_migrate_to_pool / _to_sched (harness/api_migrules.c)."""
from checks import sched_common as S

ASSUMPTIONS = list(S.BASE_ASSUMPTIONS) + [
    "failed re-association: single allocation failures of the target pool's unit creation / unit map (fault enumeration)"]
EXTRA_T1 = [('thread.c', 'ABT_thread_set_migratable'), ('thread.c', 'ABT_thread_migrate'), ('thread.c', 'ABT_thread_migrate_to_pool'), ('thread.c', 'ABT_thread_migrate_to_sched'), ('thread.c', 'ABT_thread_migrate_to_xstream'), ('sched/sched.c', 'ABTI_sched_get_migration_pool'), ('thread.c', 'ABTI_thread_get_mig_data'), ('thread.c', 'ABTI_thread_set_associated_pool'),
            ('thread.c', 'ABTI_thread_handle_request_migrate'), ('thread.c', 'ABT_thread_set_callback')]
FI_SCENARIOS = ["as.mig_yield.bi.bi", "as.mig_yield.bi.ud", "as.mig_yield.bi.lg"]


def faulted_migration(res):
    from checks import c18
    exe = c18.build("plain")
    runs = 0
    for sc in FI_SCENARIOS:
        base = c18.run_one(exe, sc, 0)
        n = base.get("N", 0) if "crash" not in base else 0
        for k in range(0, n + 1):
            r = base if k == 0 else c18.run_one(exe, sc, k)
            runs += 1
            bad = [p for p in r.get("problems", [])] + (["scenario %s" % r["crash"]] if "crash" in r else [])
            if bad:
                res.violation("migration to a pool whose unit creation fails (%s, failing acquisition %d): %s" % (sc, k, bad[0]),
                              {"fi_scenario": sc, "k": k, "result": {x: r.get(x) for x in ("outcome", "problems", "crash", "fired")}})
                break
    res.add_cov(faulted_migration_runs=runs)


def native_api(res):
    """the documented request rules (harness/nat_migrate_api.c): rejections for the unit's own pool / any pool of the named
    scheduler / the stream that serves its pool / non-migratable units, and accepted requests carried out with one callback"""
    import subprocess
    from vlib import common as C
    exe = C.cc_harness("nat_migrate_api", ["nat_migrate_api.c"], "plain")
    try:
        p = subprocess.run([exe], stdout=subprocess.PIPE, stderr=subprocess.STDOUT, timeout=60)
        rc, out = p.returncode, p.stdout.decode("utf-8", "replace")
    except subprocess.TimeoutExpired:
        rc, out = -999, "timeout"
    res.add_cov(native_migration_rule_cases=9)
    if rc != 0:
        res.violation("migration request rules: " + (out.strip().split("\n")[0][:400] or "exit %s" % rc),
                      {"native": "nat_migrate_api", "exit": rc, "output": out[-1500:]})


def migrules_lines():
    """every request over four pools: to_pool (unit pool x target), to_sched (unit pool x every ordered non-empty list of
    distinct pools), each for a migratable and a non-migratable unit: 544 lines"""
    import itertools
    lines = []
    for mig in (1, 0):
        for u in range(4):
            for t in range(4):
                lines.append("req p %d %d 1 %d" % (u, mig, t))
            for k in range(1, 5):
                for ps in itertools.permutations(range(4), k):
                    lines.append("req s %d %d %d %s" % (u, mig, k, " ".join(map(str, ps))))
    return lines


def migrules_oracle(line):
    w = line.split()
    u, mig, ps = int(w[2]), int(w[3]), [int(x) for x in w[5:]]
    if not mig:
        return "inv_thread stay=1 cb=0"
    if u in ps:
        return "migration_target stay=1 cb=0"
    return "ok %d cb=1" % ps[0]


def t2_migrules(res, broken):
    """T2: the request rules on the real library (harness/api_migrules.c, ASan/UBSan) against Model.MigRules
    (`driver migrules`) and against the property's own statement, exhaustively over four pools"""
    from vlib import common as C, diff as D
    exe = C.cc_harness("api_migrules", ["api_migrules.c"], "san")
    lines = migrules_lines()
    rc, out, err = D.run_lines([exe], lines, timeout=300)
    rcm, outm, errm = D.model_lines("migrules", lines)
    res.add_cov(migration_rule_requests=len(lines))
    if rcm != 0:
        broken.append({"kind": "T2-correspondence", "model": "Model.MigRules", "reason": "model driver failed rc=%d" % rcm})
        return
    if rc != 0:
        res.violation("the migration request routines fail under the sanitizers (exit %s)" % rc,
                      {"harness": "api_migrules", "lines": lines, "exit": rc, "stderr": err[-1500:]})
        return
    bad = [(l, out[i] if i < len(out) else "<missing>") for i, l in enumerate(lines)
           if (out[i] if i < len(out) else "<missing>") != migrules_oracle(l)]
    if bad:
        l, got = bad[0]
        res.violation("migration request rules: `%s` -> the real code answers `%s`, the property demands `%s`" % (l, got, migrules_oracle(l)),
                      {"harness": "api_migrules", "lines": [l], "impl": got, "property_demands": migrules_oracle(l),
                       "all_failing": [b[0] for b in bad][:40]})
    diff = [(l, out[i], outm[i] if i < len(outm) else "<missing>") for i, l in enumerate(lines)
            if i < len(out) and (i >= len(outm) or out[i] != outm[i])]
    if diff and not bad:
        broken.append({"kind": "T2-correspondence", "model": "Model.MigRules", "reason": "model and real code differ",
                       "first": {"line": diff[0][0], "impl": diff[0][1], "model": diff[0][2]}})


def run(res, tier, broken):
    S.run_sched(res, tier, broken, "C13", EXTRA_T1)
    faulted_migration(res)
    native_api(res)
    t2_migrules(res, broken)


def replay(res, path):
    import json
    rep = json.load(open(path))
    if rep.get("harness") == "api_migrules":
        from vlib import common as C, diff as D
        rc, out, err = D.run_lines([C.cc_harness("api_migrules", ["api_migrules.c"], "san")], rep["lines"], timeout=300)
        bad = 0
        for i, l in enumerate(rep["lines"]):
            got = out[i] if i < len(out) else "<missing>"
            print("%s -> %s (property: %s)" % (l, got, migrules_oracle(l)))
            bad |= got != migrules_oracle(l)
        return 1 if (bad or rc != 0) else 0
    if rep.get("native") == "nat_migrate_api":
        import subprocess
        from vlib import common as C
        p = subprocess.run([C.cc_harness("nat_migrate_api", ["nat_migrate_api.c"], "plain")], stdout=subprocess.PIPE, stderr=subprocess.STDOUT, timeout=60)
        print(p.stdout.decode("utf-8", "replace")[-1500:])
        return 1 if p.returncode != 0 else 0
    if "fi_scenario" in rep:
        from checks import c18
        r = c18.run_one(c18.build("plain"), rep["fi_scenario"], rep["k"])
        print(json.dumps(r)[:2000])
        return 1 if (r.get("problems") or "crash" in r) else 0
    return S.replay(res, path)
