"""C13 — migration moves a unit to the requested pool exactly once, with its callback.
Ties: T1 (skeletons of the scheduling / context-switch / life-cycle functions), T3 (vsched traces of generated work-unit
programs validated against Model.Sched), scenario monitors + deadlock detection for the failing-input search."""
from checks import sched_common as S

ASSUMPTIONS = list(S.BASE_ASSUMPTIONS)
EXTRA_T1 = [('thread.c', 'ABT_thread_migrate'), ('thread.c', 'ABT_thread_migrate_to_pool'), ('thread.c', 'ABT_thread_migrate_to_sched'), ('thread.c', 'ABT_thread_migrate_to_xstream'), ('sched/sched.c', 'ABTI_sched_get_migration_pool'), ('thread.c', 'ABTI_thread_get_mig_data'), ('thread.c', 'ABTI_thread_set_associated_pool')]


def run(res, tier, broken):
    S.run_sched(res, tier, broken, "C13", EXTRA_T1)


def replay(res, path):
    return S.replay(res, path)
