"""C20, textual part — atoi.c, abtd_env.c, abtd_affinity_parser.c.

T2 differential: generated strings / environments go to the real code (white-box
harnesses built with ASan+UBSan, strings in exact-size heap blocks) and to the Lean
models (`driver atoi|affinity|env`); a third, independent Python oracle states what
the *property* demands (int()-based saturation; a recogniser/expander of the
documented affinity grammar; the documented clamp ranges of every ABT_* variable).
real != oracle  -> VIOLATION with the input (the code contradicts the property);
real == oracle but model != real -> the correspondence is broken (model to repair)."""
import binascii, collections, json, os, re
from vlib import common as C
from vlib import diff as D

ASSUMPTIONS = [
    "C strings are shorter than 4 GiB (the parser's uint32_t index does not wrap)",
    "affinity expansion: allocation succeeds and one list holds fewer than 2^32 ids (the uint32_t counters "
    "`p_id_list->num + num` wrap only beyond 16 GiB of ids; not reachable in a test, see report)",
    "sizeof(size_t) == 8, two's-complement int (checked by the translator: Gen/EnvTable.sizeofSizeT)",
    "ABTD_env_init data flow for run-dependent defaults (cores, page size, mprotect guard, thread_stacksize*4) is "
    "hand-modelled in Model.Env.dynOf and tied by T2 only; constants come from the generated table (T0)",
    "the 'documented' ranges of the ABT_* variables are the constants pinned in checks/c20_parsers.py DOC_ENV "
    "(taken from the comments/defines of abtd_env.c; the tree has no other documentation of them)",
]

INT_MIN, INT_MAX = -2**31, 2**31 - 1
U32, U64 = 2**32 - 1, 2**64 - 1
LIMITS = {"int": (INT_MIN, INT_MAX), "u32": (0, U32), "u64": (0, U64), "sz": (0, U64)}
ERR_INV_ARG, ERR_OTHER = 53, 3
MAX_NUM_ELEMS = 1024 * 1024          # documented in the parser as "if the value is too big, the input should be wrong"
WS = b" \t\r\n"


def hx(b):
    return binascii.hexlify(b).decode() if b else "-"


def unhx(h):
    return b"" if h == "-" else binascii.unhexlify(h)


# ---------------------------------------------------------------------------------
# oracles (independent of the models)
# ---------------------------------------------------------------------------------
NUM_RE = re.compile(rb"[ \t\n\r]*([+-]*)([0-9]*)")


def number_of(b):
    """mathematical integer denoted by the string, None when there is no digit"""
    b = b.split(b"\0")[0]
    m = NUM_RE.match(b)
    if not m.group(2):
        return None
    v = int(m.group(2))
    return -v if m.group(1).count(b"-") % 2 else v


def atoi_oracle(kind, b):
    v = number_of(b)
    if v is None:
        return "err %d" % ERR_INV_ARG
    lo, hi = LIMITS[kind]
    s = min(max(v, lo), hi)
    return "ok %d %d" % (s, 1 if s != v else 0)


TOK_RE = re.compile(rb"([+-]*)([0-9]+)|([{}:,])")


def aff_tokens(b):
    b = b.split(b"\0")[0]
    pos, toks = 0, []
    while True:
        while pos < len(b) and b[pos] in WS:
            pos += 1
        if pos == len(b):
            return toks
        m = TOK_RE.match(b, pos)
        if not m:
            return None
        if m.group(3):
            toks.append(m.group(3).decode())
        else:
            mag = int(m.group(2))
            toks.append((-mag if m.group(1).count(b"-") % 2 else mag, mag))
        pos = m.end()


def wrap32(x):
    return (x + 2**31) % 2**32 - 2**31


class Reject(Exception):
    pass


def aff_parse(toks):
    """recursive descent over the documented BNF; returns the list of CPU-id lists.
    Code-specific limits (not in the BNF): |integer| <= INT_MAX, num < MAX_NUM_ELEMS."""
    pos = [0]

    def peek():
        return toks[pos[0]] if pos[0] < len(toks) else None

    def eat(t):
        if peek() != t:
            raise Reject()
        pos[0] += 1

    def integer():
        t = peek()
        if not isinstance(t, tuple):
            raise Reject()
        pos[0] += 1
        if t[1] > INT_MAX:
            raise Reject()
        return t[0]

    def num_stride():
        num, stride = 1, 1
        if peek() == ":":
            eat(":")
            num = integer()
            if num <= 0:
                raise Reject()
            if peek() == ":":
                eat(":")
                stride = integer()
        if num >= MAX_NUM_ELEMS:
            raise Reject()
        return num, stride

    def es_id_list():
        if isinstance(peek(), tuple):
            return [integer()]
        eat("{")
        ids = []
        while True:
            i = integer()
            n, s = num_stride()
            ids += [wrap32(i + s * k) for k in range(n)]
            if peek() == ",":
                eat(",")
                continue
            eat("}")
            return ids

    out = []
    while True:
        base = es_id_list()
        n, s = num_stride()
        out += [[wrap32(x + s * k) for x in base] for k in range(n)]
        if peek() == ",":
            eat(",")
            continue
        if peek() is not None:
            raise Reject()
        return out


def show_lists(ls):
    total = sum(len(l) for l in ls)
    h = 7
    for l in ls:
        h = (h * 31 + 0x9e3779b9) % 2**32
        for x in l:
            h = (h * 31 + x % 2**32) % 2**32
    s = "ok n=%d total=%d h=%d" % (len(ls), total, h)
    if total <= 256 and len(ls) <= 256:
        s += "".join(" [" + " ".join(str(x) for x in l) + "]" for l in ls)
    return s


def aff_oracle(b):
    toks = aff_tokens(b)
    if toks is None:
        return "err %d" % ERR_OTHER
    try:
        return show_lists(aff_parse(toks))
    except Reject:
        return "err %d" % ERR_OTHER


def consume_int_oracle(b, positive=False):
    """consume_int at index 0: skip whitespace, sign*, digit+; magnitude must fit in int"""
    b = b.split(b"\0")[0]
    m = re.match(rb"[ \t\r\n]*([+-]*)([0-9]+)", b)
    if not m or int(m.group(2)) > INT_MAX:
        return "fail"
    v = int(m.group(2)) * (-1 if m.group(1).count(b"-") % 2 else 1)
    if positive and v <= 0:
        return "fail"
    return "ok %d %d" % (v, m.end())


def consume_symbol_oracle(code, b):
    b = b.split(b"\0")[0] + b"\0"
    i = 0
    while b[i] in WS and b[i] != code:
        i += 1
    return "ok %d" % (i + 1) if b[i] == code else "fail"


# documented environment table: suffix -> (kind, default, min, max, rounding)
# default/min may name a run-dependent quantity.
HALF32, HALF64 = U32 // 2, U64 // 2
DOC_ENV = {
    "MUTEX_MAX_HANDOVERS": ("u32", 64, 1, HALF32, []),
    "MUTEX_MAX_WAKEUPS": ("u32", 1, 1, HALF32, []),
    "PRINT_RAW_STACK": ("bool", 1, 0, 1, []),
    "HUGE_PAGE_SIZE": ("sz", 2 * 1024 * 1024, 4096, HALF64, []),
    "MEM_PAGE_SIZE": ("sz", 2 * 1024 * 1024, 4096, HALF64, [("mult", 64), ("pow2",)]),
    "MEM_STACK_PAGE_SIZE": ("sz", 8 * 1024 * 1024, "thread_stacksize*4", HALF64, [("mult", 64)]),
    "MEM_MAX_NUM_STACKS": ("u32", "min(64MiB/thread_stacksize,1024)", 2, HALF32, [("mult", 2)]),
    "MEM_MAX_NUM_DESCS": ("u32", 4096, 2, HALF32, [("mult", 2)]),
    "USE_DEBUG": ("bool", 0, 0, 1, []),
    "USE_LOG": ("bool", 0, 0, 1, []),
    "PRINT_CONFIG": ("bool", 0, 0, 1, []),
    "MAX_NUM_XSTREAMS": ("int", "cores", 1, INT_MAX // 2, []),
    "KEY_TABLE_SIZE": ("u32", 4, 1, HALF32, [("pow2",)]),
    "SYS_PAGE_SIZE": ("sz", "page", 64, HALF64, [("pow2",)]),
    "THREAD_STACKSIZE": ("sz", "16384(+2 pages with mprotect)", 512, HALF64, [("mult", 64)]),
    "SCHED_STACKSIZE": ("sz", "4MiB(+2 pages with mprotect)", 512, HALF64, [("mult", 64)]),
    "SCHED_EVENT_FREQ": ("u32", 50, 1, HALF32, []),
    "SCHED_SLEEP_NSEC": ("u64", 100, 0, HALF64, []),
}
ENV_PREFIXES = ["ABT_", "ABT_ENV_"]
BITS = {"int": 32, "u32": 32, "u64": 64, "sz": 64}


def env_get(env, suffix):
    for p in ENV_PREFIXES:
        if p + suffix in env:
            return env[p + suffix].split(b"\0")[0]
    return None


def pow2_ge(v):
    p = 1
    while p < v:
        p *= 2
    return p


def env_oracle(env, cores, page):
    """documented settings for an environment {name: bytes}"""
    res = {}
    sg = env_get(env, "STACK_OVERFLOW_CHECK")
    mprot, strict = False, False
    if sg is not None:
        l = sg.lower()
        mprot, strict = (True, True) if l == b"mprotect_strict" else (True, False) if l == b"mprotect" else (False, False)
    res["STACK_OVERFLOW_CHECK"] = 2 if strict else 1 if mprot else 0

    def load(suffix, dflt=None, mn=None):
        kind, d, lo, hi, rnd = DOC_ENV[suffix]
        d = d if dflt is None else dflt
        lo = lo if mn is None else mn
        s = env_get(env, suffix)
        if kind == "bool":
            if s is None:
                return d
            if d:
                return 0 if (s == b"0" or s.lower() in (b"n", b"no", b"false", b"off")) else 1
            return 1 if (s == b"1" or s.lower() in (b"y", b"yes", b"true", b"on")) else 0
        v = None if s is None else number_of(s)
        if v is None:
            v = d
        else:
            tl, th = LIMITS[kind]
            v = min(max(v, tl), th)
        v = max(lo, min(hi, v))
        for r in rnd:
            if r[0] == "pow2":
                v = pow2_ge(v)
            else:
                v = (v + r[1] - 1) // r[1] * r[1]
        return v % 2**BITS[kind]

    for s in DOC_ENV:
        if isinstance(DOC_ENV[s][1], int) and isinstance(DOC_ENV[s][2], int):
            res[s] = load(s)
    res["MAX_NUM_XSTREAMS"] = load("MAX_NUM_XSTREAMS", dflt=cores)
    res["SYS_PAGE_SIZE"] = load("SYS_PAGE_SIZE", dflt=page)
    extra = (res["SYS_PAGE_SIZE"] * 2) % 2**64 if mprot else 0
    res["THREAD_STACKSIZE"] = load("THREAD_STACKSIZE", dflt=(16384 + extra) % 2**64)
    res["SCHED_STACKSIZE"] = load("SCHED_STACKSIZE", dflt=(4 * 1024 * 1024 + extra) % 2**64)
    ts = res["THREAD_STACKSIZE"]
    res["MEM_STACK_PAGE_SIZE"] = load("MEM_STACK_PAGE_SIZE", mn=(ts * 4) % 2**64)
    res["MEM_MAX_NUM_STACKS"] = load("MEM_MAX_NUM_STACKS", dflt=min((64 * 1024 * 1024 // ts) % 2**32, 1024))
    return res


def env_line_oracle(line, cores, page):
    env = {}
    for kv in line.split()[3:]:
        k, h = kv.split("=")
        env[k] = unhx(h)
    res = env_oracle(env, cores, page)
    return " ".join("%s=%d" % (k, res[k]) for k in sorted(res))


# ---------------------------------------------------------------------------------
# generators
# ---------------------------------------------------------------------------------
NUM_LIMITS = [2**31, 2**32, 2**63, 2**64, 2**31 - 1000, 10**19, 10**20, (2**64) // 10, 2**62, 2**30, 2**15, 100]
JUNK = [b"", b"", b"x", b" ", b"abc", b"-", b"+5", b".5", b"e9", b" 7", b"\x00zz", b"\xff"]
BLANKS = [b"", b"", b" ", b"\t", b"\n", b"\r", b"  \t\n\r ", b"\x0b", b"\x0c"]
SIGNS = [b"", b"", b"+", b"-", b"--", b"-+", b"+-+-", b"---", b"+ ", b"- "]
ALPHA_NUM = b"0123456789+- \t\n\rxa,."


def gen_number_strings(rng, n):
    out = [b"", b"+", b"-", b"+-+-", b"   ", b" \n\t\r+-+-", b"+ 2", b"- 1", b"0", b"-0", b"+0", b"00000000", b"abc",
           b"13abc", b"123+456", b"123 456", b"--12-3-45-6", b"9" * 25, b"-" + b"9" * 25, b"0" * 30 + b"7",
           b"\x0b1", b"\xff", b"1\x002", b" --+-1234a-", b"+-+-+---+-+8800", b"----1---", b"    \n\t\r+-+-123",
           b"1" + b"0" * 24, b"-1" + b"0" * 24, b"4294967296" * 3]
    for L in NUM_LIMITS:
        for d in (-2, -1, 0, 1, 2):
            for sg in (b"", b"-", b"+", b"--", b"-+-"):
                out.append(sg + str(L + d).encode())
    while len(out) < n:
        r = rng.below(10)
        if r < 4:      # decorated boundary value
            L = rng.choice(NUM_LIMITS) + rng.below(5) - 2
            s = rng.choice(BLANKS) + rng.choice(SIGNS) + b"0" * rng.choice([0, 0, 1, 3, 20]) + str(L).encode() + rng.choice(JUNK)
        elif r < 7:    # structured random
            nd = rng.choice([0, 1, 2, 5, 9, 10, 11, 19, 20, 21, 25])
            s = rng.choice(BLANKS) + rng.choice(SIGNS) + bytes(48 + rng.below(10) for _ in range(nd)) + rng.choice(JUNK)
        else:          # random over the alphabet
            s = bytes(ALPHA_NUM[rng.below(len(ALPHA_NUM))] for _ in range(rng.below(24)))
        out.append(s)
    return out[:max(n, len(out))]


AFF_ALPHA = b"0123456789+- {}:,"


def gen_aff_int(rng, positive=False, special=True):
    r = rng.below(100)
    if positive:
        v = rng.choice([1, 1, 2, 2, 3, 4, 5, 8, 12]) if r < 92 or not special else rng.choice([40, 300, 1000])
    elif r < 80 or not special:
        v = rng.below(24) - 6
    elif r < 90:
        v = rng.choice([INT_MAX, -INT_MAX, INT_MAX - 1, 2**30, -2**30, 65536, -65536])
    else:
        v = rng.choice([INT_MAX + 1, INT_MIN, 2**32, 2**32 + 1, 10**12, -10**12, 2**63, 2**64 + 3])
    mag = str(abs(v)).encode()
    if rng.chance(1, 12):
        mag = b"0" * (1 + rng.below(12)) + mag
    want_neg = v < 0
    signs = rng.choice([b"", b"", b"", b"+", b"++", b"--", b"+-+-", b"-+-+"]) if rng.chance(1, 4) else b""
    if (signs.count(b"-") % 2 == 1) != want_neg:
        signs += b"-"
    return signs + mag


def gen_aff_string(rng, special=True):
    def ws():
        return bytes(WS[rng.below(4)] for _ in range(rng.choice([0, 0, 0, 0, 1, 1, 2])))

    def num_stride():
        s = b""
        if rng.chance(1, 2):
            s += ws() + b":" + ws() + gen_aff_int(rng, True, special)
            if rng.chance(1, 2):
                s += ws() + b":" + ws() + gen_aff_int(rng, False, special)
        return s

    parts = []
    for _ in range(1 + rng.below(4)):
        if rng.chance(1, 2):
            es = ws() + gen_aff_int(rng, False, special)
        else:
            ivs = [ws() + gen_aff_int(rng, False, special) + num_stride() for _ in range(1 + rng.below(4))]
            es = ws() + b"{" + (ws() + b",").join(ivs) + ws() + b"}"
        parts.append(es + num_stride())
    return (ws() + b",").join(parts) + ws()


def mutate(rng, s):
    s = bytearray(s)
    for _ in range(1 + rng.below(3)):
        r = rng.below(100)
        p = rng.below(len(s) + 1)
        if r < 30 and s:
            del s[min(p, len(s) - 1)]
        elif r < 60:
            s.insert(p, AFF_ALPHA[rng.below(len(AFF_ALPHA))])
        elif r < 80 and s:
            q = min(p, len(s) - 1)
            s.insert(q, s[q])
        elif r < 92:
            s[p:p] = bytes(48 + rng.below(10) for _ in range(8 + rng.below(23)))
        elif s:
            s[min(p, len(s) - 1)] = rng.choice(list(b"\t\r\n;x(") + [0x80])
    return bytes(s)


AFF_FIXED = [b"", b"{}", b"+ 1", b"1:", b"1:2:", b"1:2,", b"1:-2", b"1:0", b"1:1:1:1", b"{1:2:3},", b"{:2:3}", b"{{2:3}}",
             b"{2:3}}", b"2:3}", b"{1:2:3", b"{1,2,}", b"{1:0}", b"++1", b"+-+-1", b"-0", b"-9:1:-9", b"1,2,{1:2}",
             b" 1 :  +2 , { -1 : \r 2\n:2}\n", b"{1:2:3}:3:-2,1", b"{-2:3:-2}:2:-4", b"3:4:-1,-1",
             b"99999999999999", b"2147483647", b"2147483648", b"-2147483647", b"-2147483648", b"0:1:2147483648",
             b"{0:1048575}", b"{0:1048576}", b"{0:1048577}", b"0:1048576", b"{0:1048575:2147483647}",
             b"2147483647:3:1", b"{2147483647:3:2147483647}:3:2147483647", b"{-2147483647:4:-1}:2:-2147483647",
             b"0" * 40 + b"1", b"{1:00000000000000000002}", b"1:+-+-3", b"1 2", b"1-2", b"1:2-3", b"{1}{2}", b"1\x00,2"]


def gen_affinity_strings(rng, n, big=True):
    out = list(AFF_FIXED)
    if big:
        out += [b"0:1048575", b"{0:1048575:3}:2"]     # MAX_NUM_ELEMS-1 at both levels (about 1 s)
    while len(out) < n:
        s = gen_aff_string(rng, special=rng.chance(1, 3))
        if rng.chance(3, 5):
            s = mutate(rng, s)
        out.append(s)
    return out


BOOL_WORDS = [b"1", b"0", b"y", b"Y", b"yes", b"YES", b"true", b"True", b"on", b"ON", b"n", b"N", b"no", b"No", b"false",
              b"FALSE", b"off", b"Off", b"", b"maybe", b"2", b"00", b"01", b" 1", b"yes ", b"of"]
GUARD_WORDS = [b"mprotect", b"MPROTECT", b"mprotect_strict", b"Mprotect_Strict", b"none", b"canary", b"", b"1"]


def env_table():
    """rows of the generated table (T0): suffix, kind, names"""
    from tools import envgen
    return envgen.rows()


def gen_env_value(rng, suffix):
    kind, d, lo, hi, rnd = DOC_ENV[suffix]
    if kind == "bool":
        return rng.choice(BOOL_WORDS)
    r = rng.below(10)
    lo_i = lo if isinstance(lo, int) else 65536
    if r < 3:
        v = rng.choice([lo_i - 1, lo_i, lo_i + 1, hi - 1, hi, hi + 1, hi * 2, hi * 2 + 1, hi * 2 + 2, -1, 0, -hi])
        return rng.choice(BLANKS) + str(v).encode() + rng.choice(JUNK)
    if r < 6:
        v = rng.choice([1, 2, 3, 5, 63, 64, 65, 100, 511, 512, 513, 1000, 4095, 4096, 4097, 16384, 65536, 100000,
                        2**20 + 1, 2**31 - 1, 2**31, 2**32 + 5, 2**40, 2**62, 2**62 + 1, 2**63 - 1, 2**63])
        return rng.choice(SIGNS[:5]) + str(v).encode() + rng.choice(JUNK)
    if r < 8:
        return gen_number_strings(rng, 0)[rng.below(30)]
    return bytes(ALPHA_NUM[rng.below(len(ALPHA_NUM))] for _ in range(rng.below(12)))


def gen_env_lines(rng, n, cores, page):
    head = "env cores=%d page=%d" % (cores, page)
    lines = [head]
    nums = [s for s in DOC_ENV if DOC_ENV[s][0] != "bool"]
    # systematic single-variable lines at every documented bound
    for s in nums:
        kind, d, lo, hi, rnd = DOC_ENV[s]
        lo_i = lo if isinstance(lo, int) else 65536
        for v in (lo_i - 1, lo_i, hi, hi + 1, 2 * hi + 1, 2 * hi + 2, 2 * hi + 3):
            lines.append("%s %s%s=%s" % (head, ENV_PREFIXES[len(lines) % 2], s, hx(str(v).encode())))
        lines.append("%s ABT_%s=%s" % (head, s, hx(b"junk")))
    # settings rounded up to a power of two: just above every power of two of the type (a bit-smearing
    # implementation that forgets one shift fails exactly there), and a few random values in between
    for s in nums:
        kind, d, lo, hi, rnd = DOC_ENV[s]
        if not any(r[0] == "pow2" for r in rnd):
            continue
        top = 63 if kind == "sz" else 32
        for k in range(1, top):
            for v in (2 ** k + 1, 2 ** k + 1 + rng.below(2 ** min(k, 20))):
                lines.append("%s %s%s=%s" % (head, ENV_PREFIXES[len(lines) % 2], s, hx(str(v).encode())))
    for s in DOC_ENV:
        if DOC_ENV[s][0] == "bool":
            for w in (b"1", b"0", b"yes", b"OFF", b"x"):
                lines.append("%s ABT_%s=%s" % (head, s, hx(w)))
    for w in GUARD_WORDS:
        lines.append("%s ABT_STACK_OVERFLOW_CHECK=%s" % (head, hx(w)))
    # ABT_SET_AFFINITY end to end (parser + ABTD_affinity_init under the sanitizers); no setting depends on it
    for i in range(40):
        a = gen_aff_string(rng, special=False)
        if i % 2:
            a = mutate(rng, a)
        a = a.split(b"\0")[0]
        lines.append("%s %sSET_AFFINITY=%s" % (head, ENV_PREFIXES[i % 3 == 0], hx(a)))
    while len(lines) < n:
        kv = {}
        for _ in range(1 + rng.below(6)):
            s = rng.choice(list(DOC_ENV) + ["STACK_OVERFLOW_CHECK", "THREAD_STACKSIZE", "SYS_PAGE_SIZE"])
            name = rng.choice(ENV_PREFIXES + ["ABT_"]) + s
            kv[name] = rng.choice(GUARD_WORDS) if s == "STACK_OVERFLOW_CHECK" else gen_env_value(rng, s)
        lines.append(head + "".join(" %s=%s" % (k, hx(v)) for k, v in kv.items()))
    return lines


# ---- configuration objects -------------------------------------------------------------
CFG_TAGS = {0: "int", 1: "double", 2: "ptr"}
FILL = 0xAAAAAAAAAAAAAAAA


def cfg_stored(e):
    if e is None:
        return FILL
    t, b = e
    return (0xAAAAAAAA00000000 | (b % 2**32)) if t == 0 else b % 2**64


class CfgOracle:
    """two typed maps (sched / pool): key -> (type tag, bits)"""

    def __init__(self):
        self.m = {"s": {}, "p": {}}

    def line(self, l):
        w = l.split()
        op = w[0]
        if op == "screate":
            k = int(w[1])
            new = {}
            for i in range(k):
                idx, tag, bits = int(w[2 + 3 * i]), int(w[3 + 3 * i]), int(w[4 + 3 * i])
                if idx == -1:
                    break
                if tag not in CFG_TAGS:
                    return "err %d" % ERR_INV_ARG
                new[idx] = (tag, bits)
            self.m["s"] = new
            return "ok"
        if op == "pcreate":
            self.m["p"] = {}
            return "ok"
        m = self.m[op[0]]
        if op[1:] == "set":
            idx, tag = int(w[1]), int(w[2])
            if w[3] == "null":
                m.pop(idx, None)
                return "err 0"
            if tag not in CFG_TAGS:
                return "err %d" % ERR_INV_ARG
            m[idx] = (tag, int(w[3]))
            return "err 0"
        if op[1:] == "get":
            e = m.get(int(w[1]))
            return "err %d" % ERR_INV_ARG if e is None else "got %d %016x" % (e[0], cfg_stored(e))
        if op[1:] == "readi":
            e = m.get(int(w[1]))
            return "err %d" % ERR_INV_ARG if e is None else "readi %016x" % cfg_stored(e)
        if op == "sread":
            n, mask = int(w[1]), int(w[2])
            return "read" + "".join(" %016x" % cfg_stored(m.get(i)) if (mask >> i) & 1 else " -" for i in range(n))
        return "bad-op"


def gen_config_lines(rng, n):
    keys = [0, 1, 2, 3, 4, 5, -2, -3, -4, -1, 8, 16, -8, 11, 3 + 8, 3 - 8, 3 + 64, INT_MIN, INT_MAX, INT_MIN + 1, 7, 15, -9]
    dbl = [0, 0x3ff0000000000000, 0xbff8000000000000, 0x8000000000000000, 0x7ff0000000000000, 0x400921fb54442d18]

    def val(tag):
        if tag == 0:
            return rng.choice([0, 1, 50, 2**31 - 1, 2**31, 2**32 - 1, 12345, 2**32 - 5])
        if tag == 1:
            return rng.choice(dbl)
        return rng.choice([0, 8, 0x7ffdeadbeef0, 2**64 - 1, 0x10, 2**47])

    lines = ["screate 0", "pcreate"]
    hist = collections.Counter()
    while len(lines) < n:
        r = rng.below(100)
        k = rng.choice(keys)
        sp = rng.choice("sp")
        if r < 4:
            cnt = rng.below(3)
            ps = []
            for _ in range(cnt):
                t = rng.choice([0, 1, 2, 0, 1, 2, 0, 7])
                kk = rng.choice([x for x in keys if x != -1])
                ps.append("%d %d %d" % (kk, t, val(t if t in CFG_TAGS else 0)))
            lines.append(("screate %d " % cnt + " ".join(ps)).strip())
            hist["screate%d" % cnt] += 1
        elif r < 6:
            lines.append("pcreate")
            hist["pcreate"] += 1
        elif r < 45:
            t = rng.choice([0, 1, 2, 0, 1, 2, 0, 1, 2, 3, -1, 77])
            lines.append("%sset %d %d %d" % (sp, k, t, val(t if t in CFG_TAGS else 0)))
            hist["set" if t in CFG_TAGS else "set-invalid-type"] += 1
        elif r < 58:
            lines.append("%sset %d %d null" % (sp, k, rng.choice([0, 1, 2, 9])))
            hist["delete"] += 1
        elif r < 82:
            lines.append("%sget %d" % (sp, k))
            hist["get"] += 1
        elif r < 92:
            lines.append("%sreadi %d" % (sp, k))
            hist["read-internal"] += 1
        else:
            lines.append("sread %d %d" % (rng.below(5), rng.below(16)))
            hist["read"] += 1
    return lines, hist


# ---------------------------------------------------------------------------------
# running one family
# ---------------------------------------------------------------------------------
def run_family(res, name, model, exe, lines, oracle, describe, max_report=3, stateful=None):
    """returns (n_checked, real outputs).  Reports violations / broken correspondence."""
    rc, out_c, err_c = D.run_lines([exe], lines, timeout=900)
    out_c = [l for l in out_c]
    if out_c and out_c[-1] == "":
        out_c.pop()
    reported = 0
    if rc != 0:
        k = len(out_c)            # harness stdout is line buffered: the line being processed when it died
        bad = lines[k] if k < len(lines) else None
        res.violation("%s: the real code aborted (sanitizer/assert) on %s" % (name, describe(bad) if bad else "?"),
                      {"family": name, "lines": [bad] if bad else lines[-3:], "stderr": err_c[-2500:],
                       "correspondence": "T2 %s (harness vs Lean model vs oracle)" % name})
        return k, out_c
    rc_m, out_m, err_m = D.model_lines(model, lines, timeout=900)
    if rc_m != 0:
        res.violation("%s: model driver failed" % name, {"family": name, "stderr": err_m[-1500:]}, no_input=True)
        return 0, out_c
    for i, l in enumerate(lines):
        c = out_c[i] if i < len(out_c) else "<missing>"
        m = out_m[i] if i < len(out_m) else "<missing>"
        want = oracle(l)
        if stateful and (c != want or m != c):
            # history matters: keep (and shrink) the prefix that leads to the disagreement
            def bad(ls):
                o = stateful()
                rc2, oc, _ = D.run_lines([exe], ls)
                rc3, om, _ = D.model_lines(model, ls)
                ws = [o(x) for x in ls]
                return rc2 != 0 or oc[:len(ls)] != ws or om[:len(ls)] != oc[:len(ls)]
            small = D.ddmin(lines[:i + 1], bad, budget=120)
            o = stateful()
            rc2, oc, _ = D.run_lines([exe], small)
            rc3, om, _ = D.model_lines(model, small)
            ws = [o(x) for x in small]
            real_wrong = oc[:len(small)] != ws
            res.violation("%s: after %s the real code says `%s`, %s" % (
                name, "; ".join(small[:-1][-6:]) or "(nothing)", (oc[len(small) - 1] if len(oc) >= len(small) else "?")[:120],
                ("the property demands `%s` for %s" % (ws[-1][:120], describe(small[-1]))) if real_wrong else
                ("the model says `%s` for %s (real code still meets the property)" % ((om[len(small) - 1] if len(om) >= len(small) else "?")[:120], describe(small[-1])))),
                {"family": name, "lines": small, "impl": oc[:len(small)], "oracle": ws, "model": om[:len(small)]},
                no_input=not real_wrong)
            break
        if c != want:
            cs, ws = c, want
            if name == "env":   # show only the settings that differ
                dc, dw = dict(x.split("=") for x in c.split() if "=" in x), dict(x.split("=") for x in want.split() if "=" in x)
                ks = [k for k in sorted(set(dc) | set(dw)) if dc.get(k) != dw.get(k)]
                cs = " ".join("%s=%s" % (k, dc.get(k)) for k in ks)
                ws = " ".join("%s=%s" % (k, dw.get(k)) for k in ks)
            res.violation("%s: %s -> real code says `%s`, the property demands `%s`" % (name, describe(l), cs[:200], ws[:200]),
                          {"family": name, "lines": [l], "impl": c[:2000], "oracle": want[:2000], "model": m[:2000],
                           "correspondence": "T2 %s (harness vs Lean model vs oracle)" % name})
            reported += 1
        elif m != c:
            res.violation("%s: T2 correspondence broken on %s (real code still meets the property): impl `%s` model `%s`"
                          % (name, describe(l), c[:200], m[:200]),
                          {"family": name, "lines": [l], "impl": c[:2000], "model": m[:2000]}, no_input=True)
            reported += 1
        if reported >= max_report:
            break
    return len(lines), out_c


def describe_line(l):
    w = l.split()
    if w[0] == "atoi":
        return "%s(%r)" % ({"int": "ABTU_atoi", "u32": "ABTU_atoui32", "u64": "ABTU_atoui64", "sz": "ABTU_atosz"}.get(w[1], w[1]),
                           unhx(w[2]))
    if w[0] in ("int", "pint"):
        return "consume_%s(%r)" % (w[0], unhx(w[1]))
    if w[0] == "sym":
        return "consume_symbol(%r, %r)" % (chr(int(w[1])), unhx(w[2]))
    if w[0] == "parse":
        b = unhx(w[1])
        return "ABT_SET_AFFINITY=%r" % (b if len(b) < 200 else b[:200] + b"...")
    if w[0] == "env":
        return "environment {%s}" % ", ".join("%s=%r" % (kv.split("=")[0], unhx(kv.split("=")[1])) for kv in w[3:])
    return l


def line_oracle(cores, page):
    def f(l):
        w = l.split()
        if w[0] == "atoi":
            return atoi_oracle(w[1], unhx(w[2]))
        if w[0] == "int":
            return consume_int_oracle(unhx(w[1]))
        if w[0] == "pint":
            return consume_int_oracle(unhx(w[1]), True)
        if w[0] == "sym":
            return consume_symbol_oracle(int(w[1]), unhx(w[2]))
        if w[0] == "parse":
            return aff_oracle(unhx(w[1]))
        if w[0] == "env":
            return env_line_oracle(l, cores, page)
        return "bad-op"
    return f


def bucket(n):
    for b in (0, 1, 2, 4, 8, 16, 32, 64, 128):
        if n <= b:
            return "<=%d" % b
    return ">128"


def check_table(res, broken):
    """T0 sanity: the generated table must list exactly the documented variables with the documented constants."""
    rows = {r["suffix"]: r for r in env_table()}
    kindmap = {"int": "int", "uint32": "u32", "uint64": "u64", "size": "sz", "bool": "bool"}
    drift = []
    for s, (kind, d, lo, hi, rnd) in DOC_ENV.items():
        r = rows.get(s)
        if r is None:
            drift.append("%s: documented variable no longer loaded" % s)
            continue
        if kindmap[r["kind"]] != kind:
            drift.append("%s: kind %s, documented %s" % (s, r["kind"], kind))
        for nm, docv, gv in (("default", d, r["dflt"]), ("min", lo, r["min"]), ("max", hi, r["max"])):
            if isinstance(docv, int) and gv != docv:
                drift.append("%s: %s is %r in the source, documented %r" % (s, nm, gv, docv))
            if not isinstance(docv, int) and isinstance(gv, int):
                drift.append("%s: %s became the constant %r, documented as run-dependent (%s)" % (s, nm, gv, docv))
        if [tuple(x) for x in r["rnd"]] != [tuple(x) for x in rnd]:
            drift.append("%s: rounding %r, documented %r" % (s, r["rnd"], rnd))
    for s in rows:
        if s not in DOC_ENV:
            drift.append("%s: loaded by abtd_env.c but not in the documented table of the check" % s)
    if drift:
        broken.append({"kind": "env-table-drift", "drift": drift})
    res.add_cov(env_table_rows=len(rows), env_table_drift=drift)
    return rows


def run(res, tier, broken):
    rng = C.Rng(res.seed * 104729 + 2020)
    big = tier != "quick" or bool(broken)
    scale = 100 if tier == "thorough" else (4 if broken else 1)
    cores, page = os.sysconf("SC_NPROCESSORS_ONLN"), os.sysconf("SC_PAGE_SIZE")
    orc = line_oracle(cores, page)
    exe_atoi = C.cc_harness("wb_atoi", ["wb_atoi.c"], "san")
    exe_aff = C.cc_harness("wb_affinity", ["wb_affinity.c"], "san")
    exe_env = C.cc_harness("wb_env", ["wb_env.c"], "san")
    check_table(res, broken)

    # ---- numbers -----------------------------------------------------------------
    hist = collections.Counter()
    lens = collections.Counter()
    n_atoi = 0
    for batch in range(scale):
        strs = gen_number_strings(rng, 3000)
        lines = []
        for s in strs:
            lens[bucket(len(s))] += 1
            for k in ("int", "u32", "u64", "sz"):
                lines.append("atoi %s %s" % (k, hx(s)))
        n, out_c = run_family(res, "atoi", "atoi", exe_atoi, lines, orc, describe_line)
        n_atoi += len(strs)
        for l, o in zip(lines, out_c):
            w = o.split()
            hist[l.split()[1] + ":" + ("err" if w[0] == "err" else "overflow" if w[-1] == "1" else "exact")] += 1
        if batch == 0:
            res.sample({"atoi": [describe_line(l) + " -> " + o for l, o in list(zip(lines, out_c))[484:492]]})
        if res.violations:
            break
    res.add_cov(atoi_strings=n_atoi, atoi_outcomes=dict(hist), atoi_lengths=dict(lens))

    # ---- affinity ------------------------------------------------------------------
    hist = collections.Counter()
    lens = collections.Counter()
    n_aff = 0
    for batch in range(scale):
        strs = gen_affinity_strings(rng, 2000, big=(batch == 0))
        lines = []
        for s in strs:
            lens[bucket(len(s))] += 1
            lines.append("parse " + hx(s))
        # token-level functions on suffixes of the same strings
        for s in strs[:600]:
            if not s:
                continue
            t = s[rng.below(len(s)):]
            lines.append("int " + hx(t))
            lines.append("pint " + hx(t))
            lines.append("sym %d %s" % (rng.choice([58, 44, 123, 125, 0]), hx(t)))
        n, out_c = run_family(res, "affinity", "affinity", exe_aff, lines, orc, describe_line)
        n_aff += len(strs)
        for l, o in zip(lines, out_c):
            op = l.split()[0]
            hist[op + ":" + ("accept" if o.startswith("ok") else "reject")] += 1
        if batch == 0:
            res.sample({"affinity": [describe_line(l) + " -> " + o[:80] for l, o in list(zip(lines, out_c))[60:68]]})
        if res.violations:
            break
    res.add_cov(affinity_strings=n_aff, affinity_outcomes=dict(hist), affinity_lengths=dict(lens))

    # ---- environments ----------------------------------------------------------------
    n_env = 0
    sp_obs = []
    nvars = collections.Counter()
    for batch in range(scale):
        lines = gen_env_lines(rng, 260 if batch == 0 else 400, cores, page)
        for l in lines:
            nvars[len(l.split()) - 3] += 1
        n, out_c = run_family(res, "env", "env", exe_env, lines, orc, describe_line)
        n_env += len(lines)
        for l, o in zip(lines, out_c):     # reported finding (not failing): thread_stacksize * 4 wraps / exceeds the maximum
            d = dict(x.split("=") for x in o.split() if "=" in x)
            if d and (int(d["MEM_STACK_PAGE_SIZE"]) > HALF64 + 63 or int(d["MEM_STACK_PAGE_SIZE"]) < 4 * int(d["THREAD_STACKSIZE"])):
                sp_obs.append("%s -> THREAD_STACKSIZE=%s MEM_STACK_PAGE_SIZE=%s" % (describe_line(l), d["THREAD_STACKSIZE"], d["MEM_STACK_PAGE_SIZE"]))
        if batch == 0 and out_c:
            res.sample({"env": [describe_line(lines[40]) + " -> " + out_c[40][:160]]})
        if res.violations:
            break
    # ---- configuration objects ----------------------------------------------------------
    exe_cfg = C.cc_harness("wb_config", ["wb_config.c"], "san")
    n_cfg = 0
    chist = collections.Counter()
    for batch in range(2 * scale):
        lines, h = gen_config_lines(rng, 1500)
        chist.update(h)
        co = CfgOracle()
        n, out_c = run_family(res, "config", "config", exe_cfg, lines, co.line, lambda l: "`%s`" % l,
                              stateful=lambda: CfgOracle().line)
        n_cfg += len(lines)
        if batch == 0:
            res.sample({"config": ["%s -> %s" % (l, o) for l, o in list(zip(lines, out_c))[40:48]]})
        if res.violations:
            break
    if sp_obs:
        res.notes.append("MEM_STACK_PAGE_SIZE outside [4*thread_stacksize, SIZE_MAX/2] because `thread_stacksize * 4` is "
                         "computed without overflow check (env_clamped_dyn_min_partial): %d inputs, e.g. %s" % (len(sp_obs), sp_obs[0]))
    res.add_cov(env_mem_sp_size_out_of_range=len(sp_obs))
    res.add_cov(environments=n_env, env_vars_per_environment=dict(nvars), config_ops=n_cfg,
                config_op_histogram=dict(chist), disagreements_checked=n_atoi * 4 + n_aff + n_env + n_cfg)


def replay(res, rep):
    cores, page = os.sysconf("SC_NPROCESSORS_ONLN"), os.sysconf("SC_PAGE_SIZE")
    orc = line_oracle(cores, page)
    fam = rep["family"]
    if fam == "config":
        co = CfgOracle()
        orc = co.line
    exe = {"atoi": "wb_atoi", "affinity": "wb_affinity", "env": "wb_env", "config": "wb_config"}[fam]
    exe = C.cc_harness(exe, [exe + ".c"], "san")
    lines = rep.get("lines", [])
    rc, out_c, err = D.run_lines([exe], lines)
    rc_m, out_m, _ = D.model_lines(fam, lines)
    bad = 0
    for i, l in enumerate(lines):
        c = out_c[i] if rc == 0 and i < len(out_c) else "<aborted: %s>" % err[-400:]
        m = out_m[i] if i < len(out_m) else "<missing>"
        want = orc(l)
        print("%s\n  impl   %s\n  model  %s\n  oracle %s" % (describe_line(l), c[:300], m[:300], want[:300]))
        if c != want or m != c:
            bad = 1
    return bad
