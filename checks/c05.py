"""C05 — condition variables: atomic release-and-wait, exact wake-ups, no spurious wake-up.
Ties: T1 (cond.c / abti_cond.h / wait-list / futex skeletons), T3 (vsched traces validated against Model.Cond)."""
from checks import futex_common
from vlib import common as C
from vlib import t1, t3, vs

ASSUMPTIONS = [
    "sequentially consistent execution of the atomic primitives",
    "the user mutex is an atomic object in Model.Cond (its own protocol is C04's Model.Mutex)",
    futex_common.ASSUMPTION,
    "the monitor-discipline hypothesis of the property (predicate changed under the mutex) is how the scenario programs are written",
    "tasklets cannot call ABT_cond_wait in this build (API 1.x: rejected with ABT_ERR_COND); they act as signallers only",
]

T1_FUNCS = [("cond.c", f) for f in [
    "ABTI_cond_wait", "ABTI_cond_broadcast", "ABT_cond_wait", "ABT_cond_timedwait", "ABT_cond_signal", "ABT_cond_broadcast",
    "ABTI_cond_init", "ABTI_waitlist_wait_and_unlock", "ABTI_waitlist_wait_timedout_and_unlock", "ABTI_waitlist_signal",
    "ABTI_waitlist_broadcast", "ABTI_ythread_suspend_unlock", "ABTI_ythread_resume_and_push", "ABTI_mutex_unlock",
    "ABTI_mutex_lock", "convert_timespec_to_sec", "ABT_cond_create", "ABT_cond_free", "ABTI_cond_fini"]] + [
    ("ythread.c", "ABTI_ythread_callback_suspend_unlock"),
    ("arch/abtd_futex.c", "ABTD_futex_wait_and_unlock"), ("arch/abtd_futex.c", "ABTD_futex_timedwait_and_unlock"),
    ("arch/abtd_futex.c", "ABTD_futex_broadcast"), ("arch/abtd_time.c", "ABTD_time_get"), ("arch/abtd_time.c", "ABTD_time_read_sec")]


def scenario_params(rng):
    return ["cond", 1 + rng.below(3), 2 + rng.below(5), 1 + rng.below(3), 30, 0, rng.below(2)]


def cond_cfg(lg):
    return {"mutexes": {"CM0": 0, "CM1": 1}, "rc_timedout": 42, "rc_inv_mutex": 20}


def validate(lg, params):
    rejects, trans = [], set()
    cfg = cond_cfg(lg)
    lines = t3.project_waitlist(lg, "C0", lg.off("ABTI_cond", "lock"), lg.off("ABTI_cond", "waitlist"), cond=cfg)
    rej, tr, drc = t3.run_driver("cond", lines)
    trans.update(tr)
    if rej or drc != 0:
        idx = int(rej.split()[1]) if rej else 0
        rejects.append({"model": "Model.Cond", "object": "C0", "reject": rej or "driver rc=%d" % drc,
                        "projected_context": lines[max(0, idx - 14): idx + 2]})
    return rejects, trans, len(lines)


def run(res, tier, broken):
    n, tb = t1.check(T1_FUNCS)
    res.add_cov(t1_functions=n, t1_broken=len(tb))
    for b in tb:
        broken.append({"kind": "T1-skeleton", **b})
    vs.campaign(res, broken, tier, "C05", "sc_sync", ["sc_sync.c"], scenario_params, validate,
                sizes={"quick": (20, 3), "thorough": (200, 8), "search": (150, 6)}, reject_is_failure=vs.protocol_reject_is_failure)
    futex_common.run(res, tier, broken, res.seed)


def replay(res, path):
    import json
    rep = json.load(open(path))
    if rep.get("harness") == "wb_futex":
        return futex_common.replay(rep)
    return vs.replay("sc_sync", ["sc_sync.c"], path, validate)
