"""The generation word of the wait-list futex (arch/abtd_futex.c): T2 differential between the real wait / timed-wait /
broadcast routines run against a simulated kernel (harness/wb_futex.c, the futex system call is wrapped) and Model.FutexGen
(`driver futexgen`), plus the property's own oracle: a sleeper that was delayed for k >= 1 broadcasts after its sample must
not (go back to) sleep.  Used by C04, C05 and C19 (non-yieldable callers of mutex / cond / timed waits)."""
import os, re
from vlib import common as C
from vlib import diff as D

ASSUMPTION = ("the generation word of ABTD_futex_multiple is compared by the kernel as in futex(2) FUTEX_WAIT (simulated in "
              "harness/wb_futex.c); fewer than 2^32 broadcasts happen while one sleeper is between its sample and the comparison")


def futex_bits():
    txt = open(os.path.join(C.LEAN, "ArgoVerif", "Gen", "Consts.lean")).read()
    m = re.search(r"def bytesFutexVal : Int := (\d+)", txt)
    return 8 * int(m.group(1)) if m else 32


def gen_lines(rng, n, bits):
    top = 2 ** bits
    ks = [0, 1, 2, 3, 127, 128, 255, 256, 257, 511, 512, 1023, 1024, 4096, 65535, 65536, 65537, 131072]
    vs = [0, 1, 5, 255, 256, 65535, 65536, top // 2 - 2, top // 2 - 1, top // 2, top - 2, top - 1]
    lines = []
    for m in "wtr":
        for k in ks:
            lines.append("%s %d %d %d" % (m, bits, vs[rng.below(len(vs))], k))
    for v in vs:
        lines.append("%s %d %d %d" % ("wtr"[rng.below(3)], bits, v, ks[rng.below(len(ks))]))
    while len(lines) < n:
        v = rng.below(top) if rng.below(2) else vs[rng.below(len(vs))]
        k = rng.below(300) if rng.below(2) else rng.below(200000)
        lines.append("%s %d %d %d" % ("wtr"[rng.below(3)], bits, v, k))
    return lines


def run(res, tier, broken, seed):
    bits = futex_bits()
    exe = C.cc_harness("wb_futex", ["wb_futex.c"], "plain", extra="-Wl,--wrap=syscall")
    rng = C.Rng(seed * 31 + 5)
    lines = gen_lines(rng, {"quick": 150, "thorough": 1500}.get(tier, 400), bits)
    rc, out, err = D.run_lines([exe], lines, timeout=600)
    rcm, outm, errm = D.model_lines("futexgen", lines)
    res.add_cov(futex_generation_cases=len(lines), futex_generation_max_k=max(int(l.split()[3]) for l in lines),
                futex_generation_bits=bits)
    if rcm != 0:
        broken.append({"kind": "T2-correspondence", "model": "Model.FutexGen", "reason": "model driver failed rc=%d" % rcm})
        return
    if rc != 0:
        res.violation("the futex wait routines crash against the simulated kernel (exit %s)" % rc,
                      {"harness": "wb_futex", "lines": lines, "exit": rc, "stderr": err[-1500:]})
        return
    bad_prop, bad_model = [], []
    for i, l in enumerate(lines):
        k = int(l.split()[3])
        want = "sleep" if k == 0 else "wake"          # (k < 2^bits always here)
        got = out[i] if i < len(out) else "<missing>"
        if got != want:
            bad_prop.append((l, got, want))
        elif i >= len(outm) or outm[i] != got:
            bad_model.append((l, got, outm[i] if i < len(outm) else "<missing>"))
    if bad_prop:
        l, got, want = min(bad_prop, key=lambda t: int(t[0].split()[3]))
        m, _, v, k = l.split()
        what = {"w": "is delayed for %s broadcast(s) between its sample of the futex word (%s) and the kernel's comparison" % (k, v),
                "t": "(timed wait) is delayed for %s broadcast(s) between its sample of the futex word (%s) and the kernel's comparison" % (k, v),
                "r": "is woken after %s broadcast(s) since its sample of the futex word (%s) and re-reads the word" % (k, v)}[m]
        res.violation("lost wake-up of a non-yieldable waiter: a sleeper that %s %s; it must %s" % (
            what, "goes to sleep although it was taken off the wait list" if got == "sleep" else "answers `%s`" % got, want),
            {"harness": "wb_futex", "lines": [l], "impl": got, "property_demands": want, "all_failing": [b[0] for b in bad_prop][:40]})
    if bad_model:
        broken.append({"kind": "T2-correspondence", "model": "Model.FutexGen", "reason": "model and real code differ",
                       "first": {"line": bad_model[0][0], "impl": bad_model[0][1], "model": bad_model[0][2]}})


def replay(rep):
    exe = C.cc_harness("wb_futex", ["wb_futex.c"], "plain", extra="-Wl,--wrap=syscall")
    rc, out, err = D.run_lines([exe], rep["lines"], timeout=600)
    bad = 0
    for i, l in enumerate(rep["lines"]):
        want = "sleep" if int(l.split()[3]) == 0 else "wake"
        got = out[i] if i < len(out) else "<missing>"
        print("%s -> %s (property: %s)" % (l, got, want))
        bad |= got != want
    return 1 if (bad or rc != 0) else 0
