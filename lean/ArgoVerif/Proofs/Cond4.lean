import ArgoVerif.Proofs.CondWl
namespace ArgoVerif.Model.Cond
open ArgoVerif
set_option maxHeartbeats 8000000

theorem cinv_wl_loadState (s s' : St) (a : Actor) (r : Bool) (h : CInv s) (hs : stepWl s (.loadState a r) = some s') : CInv s' := by
  simp only [stepWl, WaitList.step] at hs
  (repeat' (split at hs)) <;>
  (first
   | (cases hs; done)
   | (obtain ⟨w, hw, rfl⟩ := map_some hs
      have hwi := WaitList.inv_stepLoadState s.wl w a r h.wlInv hw
      unfold WaitList.stepLoadState at hw
      cases r <;> (repeat' (split at hw)) <;>
      (first
       | (cases hw; done)
       | (cases hw; constructor; (first | exact hwi | (simp only [setC, afterAcquire, finishWait]; (repeat' split) <;> exact hwi)); all_goals wl_tac h hwi))))

end ArgoVerif.Model.Cond
