import ArgoVerif.Proofs.PopWaitC
/- Proofs.PopWaitC3 — timing invariant: lock word, sleep, link. -/
namespace ArgoVerif.Model.PopWait
open ArgoVerif
set_option maxHeartbeats 2000000

theorem invC_tas (k : Kind) (s s' : St) (a : Actor) (o : Bool) (hA : InvA k s) (h : InvC k s) (hs : stepTas s a o = some s') :
    InvC k (bump s' (some a)) := by
  unfold stepTas at hs
  cases o <;> (repeat' (split at hs)) <;> pointwise hA h a hs

theorem invC_loadLock (k : Kind) (s s' : St) (a : Actor) (v : Bool) (hA : InvA k s) (h : InvC k s) (hs : stepLoadLock s a v = some s') :
    InvC k (bump s' (some a)) := by
  unfold stepLoadLock at hs
  cases v <;> (repeat' (split at hs)) <;> pointwise hA h a hs

end ArgoVerif.Model.PopWait
