import ArgoVerif.Proofs.PoolConcA
/- Proofs.PoolConcD — invariant preservation: the linearisation steps (is_in_pool stores, take, unlink). -/
namespace ArgoVerif.Model.PoolConc
open ArgoVerif ArgoVerif.Model.TQ
set_option maxHeartbeats 1000000

theorem leave_cases (cfg : Cfg) (c : Call) : leave cfg c = .rel ∨ leave cfg c = .retp := by
  unfold leave; split <;> simp

theorem inv_storeIn {cfg : Cfg} {s s' : St} {a : Actor} {u : Nat} {v : Bool} (h : Inv cfg s)
    (hs : stepStoreIn cfg s a u v = some s') : Inv cfg s' := by
  unfold stepStoreIn at hs
  split at hs
  · simp at hs
  next hg =>
  have hown : s.owner = some a := by simp_all
  have hu : u = s.pu a := by simp_all
  have hidle : s.pc a ≠ .idle := by intro e; simp_all
  have hty := h.typed a
  split at hs <;> (try (simp at hs; done))
  next hpc =>
    -- push: is_in_pool := 1, the unit is in the queue from here on
    split at hs
    · simp at hs
    simp only [Option.some.injEq] at hs; subst hs
    have hpend := h.pend a (Or.inr hpc)
    rw [← hu] at hpend
    have hnp := hty.1 (by simp [hpc, PushPc])
    have hfl := h.setInFlag a hpc
    have hne : (if headOf (s.cur a) = true then u :: s.q else s.q ++ [u]) ≠ [] := by split <;> simp
    -- the next program counter
    generalize hnx : (if s.todo a ≠ [] then Pc.csPush else
        match cfg.lk with
        | .mutex => Pc.sig
        | .spin => leave cfg (s.cur a)) = nx
    have hnxc : nx = .csPush ∨ nx = .sig ∨ nx = .rel ∨ nx = .retp := by
      rw [← hnx]; split
      · simp
      · cases cfg.lk
        · rcases leave_cases cfg (s.cur a) with e | e <;> simp [e]
        · simp
    apply inv_update h (a := a)
    case opc | ocur | ocnt | opu | ogot | orc | ose | osa => intro b hb; simp [setPc, upd, hb]
    case hown => intro b hb e; simpa [setPc] using e
    case hq => exact Or.inr hown
    case hlag => exact Or.inr ⟨hown, Or.inl rfl⟩
    case hflag => exact Or.inl rfl
    case g1 => simpa [setPc] using h.lockOwner
    case g2 => intro hf; simp [setPc, hfl] at hf
    case g3 => intro _ hq; exact absurd (by simpa [setPc] using hq) hne
    case g4 =>
      have := specRun_snoc h.lin (spec_push (headOf (s.cur a)) hpend.1 hpend.2)
      simpa [setPc] using this
    case g5 =>
      intro x hx
      simp only [setPc] at hx ⊢
      by_cases hxu : x = u
      · simp [upd, hxu]
      · have : x ∈ s.q := by split at hx <;> simp_all
        simp [upd, hxu, h.inQ x this]
    case a1 => intro _; simpa [setPc] using hown
    case a2 => intro hsh _; simpa [setPc] using hown
    case a7 => exact h.rmNZ a
    case a8 => rcases hnxc with e | e | e | e <;> simp [setPc, upd, e, Typed, PushPc, PopPc, RmPc, hnp]
    case a9 => intro hpl _; exact h.cntGot a hpl hidle
    case a12 => simp [setPc, hnp.1]
    case a13 => simp [setPc, hnp.2]
    all_goals (rcases hnxc with e | e | e | e <;> simp [setPc, upd, e, Wanting])
  next hpc =>
    -- pop / remove: is_in_pool := 0
    split at hs
    · simp at hs
    simp only [Option.some.injEq] at hs; subst hs
    have hout := h.outQ a (Or.inr hpc)
    rw [← hu] at hout
    have hlag : s.lagF ≠ some a := by
      intro e; have := h.lagPc a e; simp [hpc] at this
    generalize hnx : (if isPopMany (s.cur a) = true ∧ s.cnt a ≠ 0 then Pc.csPop else leave cfg (s.cur a)) = nx
    have hnxc : (nx = .csPop ∧ isPopMany (s.cur a) = true ∧ s.cnt a ≠ 0) ∨
        ((nx = .rel ∨ nx = .retp) ∧ ¬ (isPopMany (s.cur a) = true ∧ s.cnt a ≠ 0)) := by
      rw [← hnx]; split
      next hc => exact Or.inl ⟨rfl, hc⟩
      next hc => exact Or.inr ⟨leave_cases cfg (s.cur a), hc⟩
    apply inv_update h (a := a)
    case opc | ocur | ocnt | opu | ogot | orc | ose | osa => intro b hb; simp [setPc, upd, hb]
    case hown => intro b hb e; simpa [setPc] using e
    case hq => exact Or.inl rfl
    case hlag => exact Or.inl rfl
    case hflag => exact Or.inl rfl
    case g1 => simpa [setPc] using h.lockOwner
    case g2 => exact h.flagQ
    case g3 => exact h.lagQ
    case g4 => exact h.lin
    case g5 =>
      intro x hx
      have hxu : x ≠ u := fun e => hout (e ▸ hx)
      simp [setPc, upd, hxu, h.inQ x hx]
    case a1 => intro _; simpa [setPc] using hown
    case a2 => intro hsh _; simpa [setPc] using hown
    case a4 => simpa [setPc, upd] using fun e => absurd e hlag
    case a7 => exact h.rmNZ a
    case a8 =>
      rcases hnxc with e | e
      · have : isPopLike (s.cur a) = true := by cases hc : s.cur a <;> simp_all [isPopMany, isPopLike]
        simp [setPc, upd, e.1, Typed, PushPc, PopPc, RmPc, this]
      · rcases e.1 with e' | e' <;> simp [setPc, upd, e', Typed, PushPc, PopPc, RmPc]
    case a9 => intro hpl _; exact h.cntGot a hpl hidle
    case a10 =>
      rcases hnxc with e | e
      · intro _ _; simpa [setPc] using e.2.2
      · rcases e.1 with e' | e' <;> simp [setPc, upd, e', Wanting]
    case a12 =>
      intro hpl hp
      have hg := h.gotNE a hpl (Or.inr hpc)
      have hcg := h.cntGot a hpl hidle
      rcases hnxc with e | e
      · simp [setPc, upd, e.1] at hp
      · refine Or.inl ?_
        simp only [setPc]
        by_cases hm : isPopMany (s.cur a) = true
        · have := e.2; simp [hm] at this; exact this
        · have hw : wants (s.cur a) = 1 := by cases hc : s.cur a <;> simp_all [isPopMany, isPopLike, wants]
          have : (s.got a).length ≠ 0 := by simpa using hg
          omega
    case a13 => intro hr _; simpa [setPc] using h.rmSeen a hr (by simp [hpc])
    all_goals (rcases hnxc with e | e
               · simp [setPc, upd, e.1]
               · rcases e.1 with e' | e' <;> simp [setPc, upd, e'])

end ArgoVerif.Model.PoolConc
