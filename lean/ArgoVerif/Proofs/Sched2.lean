import ArgoVerif.Proofs.Sched
/- Proofs.Sched2 — every step of the life-cycle model preserves the invariant. -/
namespace ArgoVerif.Model.Sched
open ArgoVerif
set_option maxHeartbeats 8000000

macro "inv_tac" h:ident : tactic => `(tactic|
  (have := ($h).nbCount; have := ($h).unitCount; have := ($h).chargedMem; have := ($h).blockedCharged
   have := ($h).stBlockedLoc; have := ($h).runningSt; have := ($h).termLoc; have := ($h).startsLe
   have := ($h).termRan; have := ($h).doneTerm; have := ($h).resumedBlocked; have := ($h).cancTerm
   try simp only [setLoc] at *
   grind (splits := 30) [upd, cntP, cntU, pushable]))

macro "close_tac" h:ident hs:ident : tactic => `(tactic|
  first
  | (cases $hs:ident; done)
  | (cases $hs:ident; constructor <;> inv_tac $h))

theorem inv_stepCreate (s s' : St) (u : UnitId) (p : PoolId) (h : Inv s) (hs : stepCreate s u p = some s') : Inv s' := by
  unfold stepCreate at hs
  split at hs <;> close_tac h hs

theorem inv_stepPush (s s' : St) (p : PoolId) (u : UnitId) (h : Inv s) (hs : stepPush s p u = some s') : Inv s' := by
  unfold stepPush at hs
  cases hl : s.loc u <;> simp only [hl, isCb] at hs <;> (repeat' (split at hs)) <;> close_tac h hs

theorem inv_stepPop (s s' : St) (e : EsId) (p : PoolId) (u : UnitId) (h : Inv s) (hs : stepPop s e p u = some s') : Inv s' := by
  unfold stepPop at hs
  split at hs <;> close_tac h hs

theorem inv_stepCb (s s' : St) (e : EsId) (u : UnitId) (k : CbKind) (h : Inv s) (hs : stepCb s e u k = some s') : Inv s' := by
  unfold stepCb at hs
  split at hs <;> close_tac h hs

theorem inv_stepResume (s s' : St) (u : UnitId) (h : Inv s) (hs : stepResume s u = some s') : Inv s' := by
  unfold stepResume at hs
  split at hs <;> close_tac h hs

theorem inv_stepFree (s s' : St) (u : UnitId) (h : Inv s) (hs : stepFree s u = some s') : Inv s' := by
  unfold stepFree at hs
  split at hs <;> close_tac h hs

theorem inv_stepUserStart (s s' : St) (u : UnitId) (h : Inv s) (hs : stepUserStart s u = some s') : Inv s' := by
  unfold stepUserStart at hs
  (repeat' (split at hs)) <;> close_tac h hs

theorem inv_stepUserEnd (s s' : St) (u : UnitId) (h : Inv s) (hs : stepUserEnd s u = some s') : Inv s' := by
  unfold stepUserEnd at hs
  (repeat' (split at hs)) <;> close_tac h hs

end ArgoVerif.Model.Sched
