import ArgoVerif.Proofs.RWLock
/- Proofs.RWLock2 — invariant preservation for ret / mutexLock / mutexUnlock / enq (Proofs.RWLock5: sleep / wake). -/
namespace ArgoVerif.Model.RWLock
open ArgoVerif
set_option maxHeartbeats 4000000

theorem inv_stepRet (s s' : St) (a : Actor) (op : Op) (rc : Rc) (h : Inv s) (hs : stepRet s a op rc = some s') :
    Inv s' := by
  unfold stepRet at hs
  split at hs <;> close_tac h hs

theorem inv_stepMutexLock (s s' : St) (a : Actor) (h : Inv s) (hs : stepMutexLock s a = some s') : Inv s' := by
  unfold stepMutexLock at hs
  (repeat' (split at hs)) <;> close_tac h hs

theorem inv_stepMutexUnlock (s s' : St) (a : Actor) (h : Inv s) (hs : stepMutexUnlock s a = some s') : Inv s' := by
  unfold stepMutexUnlock at hs
  (repeat' (split at hs)) <;> close_tac h hs

theorem inv_stepEnq (s s' : St) (a : Actor) (h : Inv s) (hs : stepEnq s a = some s') : Inv s' := by
  unfold stepEnq at hs
  split at hs
  · cases hs; exact h
  · cases hs

end ArgoVerif.Model.RWLock
