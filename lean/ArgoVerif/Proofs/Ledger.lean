import ArgoVerif.Model.Ledger
/-
Proofs.Ledger — the enumeration `runs` covers every oracle:
`exec p fuel o ∈ runs p fuel bound` whenever `o.param ≤ bound`.
A Boolean check that holds for all members of the finite list `runs` therefore
holds for every failure position k (including k beyond the last acquisition,
where no failure happens), every valuation of the opaque conditions and every
parameter value up to the bound.
-/
namespace ArgoVerif.Model.Ledger

def Agree (o : Oracle) (m : Memo) : Prop := ∀ a i v, memoGet m (a, i) = some v → o.env a i = v

def BudgetOk (o : Oracle) (n : Nat) (b : Bool) : Prop :=
  (b = true → ∀ k, o.failAt = some k → n ≤ k) ∧ (b = false → ∃ k, o.failAt = some k ∧ k < n)

theorem agree_nil (o : Oracle) : Agree o [] := by
  intro a i v h; simp [memoGet] at h

theorem agree_cons (o : Oracle) (m : Memo) (a i : Nat) (h : Agree o m) :
    Agree o (((a, i), o.env a i) :: m) := by
  intro a' i' v hv
  simp only [memoGet] at hv
  by_cases hk : (a, i) = (a', i')
  · simp only [hk, if_true] at hv
    have h1 : a = a' := by simpa using congrArg Prod.fst hk
    have h2 : i = i' := by simpa using congrArg Prod.snd hk
    subst h1; subst h2
    exact Option.some.inj hv
  · simp only [hk, if_false] at hv
    exact h a' i' v hv

theorem budget_init (o : Oracle) : BudgetOk o 0 true := by
  constructor
  · intro _ k _; exact Nat.zero_le k
  · intro h; cases h

theorem execFrom_mem_runsFrom (p : Prog) (o : Oracle) :
    ∀ (fuel : Nat) (s : St) (n : Nat) (m : Memo) (b : Bool), Agree o m → BudgetOk o n b →
      execFrom p o fuel s n ∈ runsFrom p fuel s m b := by
  intro fuel
  induction fuel with
  | zero => intro s n m b _ _; simp [execFrom, runsFrom]
  | succ f ih =>
    intro s n m b hag hb
    unfold execFrom runsFrom
    cases hn : need p s with
    | none =>
      simp only []
      cases hs : step p s false with
      | done r => simp
      | next s' => exact ih s' n m b hag hb
    | env a i =>
      simp only []
      cases hm : memoGet m (a, i) with
      | some v =>
        have hv : o.env a i = v := hag a i v hm
        simp only [hv]
        cases hs : step p s v with
        | done r => simp
        | next s' => exact ih s' n m b hag hb
      | none =>
        simp only []
        cases hv : o.env a i with
        | true =>
          apply List.mem_append_left
          cases hs : step p s true with
          | done r => simp
          | next s' =>
            have := agree_cons o m a i hag
            rw [hv] at this
            exact ih s' n _ b this hb
        | false =>
          apply List.mem_append_right
          cases hs : step p s false with
          | done r => simp
          | next s' =>
            have := agree_cons o m a i hag
            rw [hv] at this
            exact ih s' n _ b this hb
    | fail =>
      simp only []
      cases b with
      | true =>
        simp only [if_true]
        by_cases hf : o.failAt = some n
        · simp only [hf, decide_true]
          apply List.mem_append_left
          cases hs : step p s true with
          | done r => simp
          | next s' =>
            apply ih s' (n + 1) m false hag
            constructor
            · intro h; cases h
            · intro _; exact ⟨n, hf, Nat.lt_succ_self n⟩
        · simp only [hf, decide_false]
          apply List.mem_append_right
          cases hs : step p s false with
          | done r => simp
          | next s' =>
            apply ih s' (n + 1) m true hag
            constructor
            · intro _ k hk
              have h1 := hb.1 rfl k hk
              have h2 : k ≠ n := by intro e; subst e; exact hf hk
              omega
            · intro h; cases h
      | false =>
        simp only [Bool.false_eq_true, if_false]
        obtain ⟨k, hk, hlt⟩ := hb.2 rfl
        have hf : ¬ o.failAt = some n := by
          intro e; rw [hk] at e; have := Option.some.inj e; omega
        simp only [hf, decide_false]
        cases hs : step p s false with
        | done r => simp
        | next s' =>
          apply ih s' (n + 1) m false hag
          constructor
          · intro h; cases h
          · intro _; exact ⟨k, hk, by omega⟩

theorem param_mem (p : Prog) (bound pv : Nat) (h : pv ≤ bound) (hp : p.param.isSome) :
    pv ∈ paramVals p bound := by
  unfold paramVals
  cases hq : p.param with
  | none => simp [hq] at hp
  | some v => simp only [List.mem_range]; omega

/-- programs without parameter ignore `o.param` -/
theorem init_noparam (p : Prog) (pv : Nat) (h : p.param = none) : init p pv = init p 0 := by
  simp [init, h]

/-- **coverage of the enumeration**: every oracle's execution is a member of `runs` -/
theorem exec_mem_runs (p : Prog) (fuel bound : Nat) (o : Oracle) (hb : o.param ≤ bound) :
    exec p fuel o ∈ runs p fuel bound := by
  unfold exec runs
  rw [List.mem_flatMap]
  cases hq : p.param with
  | none =>
    refine ⟨0, by simp [paramVals, hq], ?_⟩
    rw [init_noparam p o.param hq]
    exact execFrom_mem_runsFrom p o fuel _ 0 [] true (agree_nil o) (budget_init o)
  | some v =>
    refine ⟨o.param, param_mem p bound o.param hb (by simp [hq]), ?_⟩
    exact execFrom_mem_runsFrom p o fuel _ 0 [] true (agree_nil o) (budget_init o)

/-- lifting lemma used by every property theorem: a check that is `true` on all enumerated runs
    holds for the execution under any oracle -/
theorem all_runs_exec (p : Prog) (fuel bound : Nat) (chk : Outcome → Bool)
    (h : allRuns p fuel bound chk = true) (o : Oracle) (hb : o.param ≤ bound) :
    chk (exec p fuel o) = true := by
  unfold allRuns at h
  rw [List.all_eq_true] at h
  exact h _ (exec_mem_runs p fuel bound o hb)

/-- programs without loop-bound parameter: no hypothesis on the oracle at all -/
theorem all_runs_exec_noparam (p : Prog) (fuel : Nat) (chk : Outcome → Bool) (hp : p.param = none)
    (h : allRuns p fuel 0 chk = true) (o : Oracle) : chk (exec p fuel o) = true := by
  have h0 := all_runs_exec p fuel 0 chk h { o with param := 0 } (Nat.le_refl 0)
  have he : exec p fuel o = exec p fuel { o with param := 0 } := by
    unfold exec
    rw [init_noparam p o.param hp]
    have : ∀ f s n, execFrom p o f s n = execFrom p { o with param := 0 } f s n := by
      intro f
      induction f with
      | zero => intro s n; simp [execFrom]
      | succ f ih =>
        intro s n
        unfold execFrom
        cases need p s <;> simp only [] <;> (split <;> simp_all)
    exact this fuel _ 0
  rw [he]; exact h0

theorem and4 {a b c d : Bool} (h : (a && b && c && d) = true) :
    a = true ∧ b = true ∧ c = true ∧ d = true := by
  simp only [Bool.and_eq_true] at h
  exact ⟨h.1.1.1, h.1.1.2, h.1.2, h.2⟩

/-! ### corollaries of the four checks: the two statements that C18 names explicitly -/

theorem clean_of_checks {a : List (List Kind)} {o : Outcome} (h1 : failBalanced o = true)
    (h2 : successExact a o = true) : o.clean = true := by
  unfold failBalanced at h1
  unfold successExact at h2
  cases hi : o.st.injected <;> simp_all

/-- a run that ends without fault has released nothing twice and nothing that was never assigned -/
theorem noBad_of_clean {o : Outcome} (h : o.clean = true) : noBadRelease o = true := by
  unfold Outcome.clean at h
  unfold noBadRelease
  cases hf : o.st.fault <;> simp_all

theorem noBad_of_checks {a : List (List Kind)} {o : Outcome} (h1 : failBalanced o = true)
    (h2 : successExact a o = true) : noBadRelease o = true :=
  noBad_of_clean (clean_of_checks h1 h2)

theorem noBad_of_checks_upTo {c : List Kind} {a : List (List Kind)} {o : Outcome} (h1 : failBalancedUpTo c o = true)
    (h2 : successExact a o = true) : noBadRelease o = true := by
  apply noBad_of_clean
  unfold failBalancedUpTo at h1
  unfold successExact at h2
  cases hi : o.st.injected <;> simp_all

/-- `preUntouched` contains "on error the visible state is as on entry" -/
theorem rolledBack_of_preUntouched {p : Prog} {o : Outcome} (h : preUntouched p o = true) :
    stateRolledBack p o = true := by
  unfold preUntouched at h
  unfold stateRolledBack
  simp only [Bool.and_eq_true] at h
  exact h.2

end ArgoVerif.Model.Ledger
