import ArgoVerif.Proofs.PopWaitA
/- Proofs.PopWaitA2 — structural invariant: the steps that change the queue or the condition variable. -/
namespace ArgoVerif.Model.PopWait
open ArgoVerif
set_option maxHeartbeats 1000000

theorem invA_stepLink (k : Kind) (s s' : St) (a : Actor) (h : InvA k s) (hs : stepLink s a = some s') : InvA k s' := by
  unfold stepLink at hs
  split at hs
  · rename_i u hpc _
    cases hs
    have hb := invA_pc k s (setPc s a .psRel) a .psRel h rfl rfl rfl rfl rfl rfl rfl (by simp [HasLock, hpc])
      (by simp [hpc]) (by intro hm; have := h.wokenPc _ hm; simp_all) (by simp)
      (fun hk => (side_kind h (a := a) (by simp_all [Side, PollPc, FwPc])).1 hk)
      (fun hk => (side_kind h (a := a) (by simp_all [Side, PollPc, FwPc])).2 hk)
    refine ⟨by simp [setPc, linkQ], hb.ownerIff, hb.lockBool, hb.kindP, hb.kindF, hb.waitIff, hb.waitNodup, hb.wokenPc,
      hb.wokenNodup, ?_⟩
    intro b hb'
    have hown : s.owner = some a := (h.ownerIff a).mpr (by simp [hpc, HasLock])
    by_cases hba : b = a
    · subst hba; simp [setPc, linkQ, upd] at hb'
    · have : s.pc b = .fwClock ∨ s.pc b = .fwWait := by simpa [setPc, linkQ, upd, hba] using hb'
      have : s.owner = some b := (h.ownerIff b).mpr (by rcases this with e | e <;> simp [e, HasLock])
      rw [hown] at this; exact absurd (Option.some.inj this).symm hba
  · rename_i u hpc _
    cases hs
    have hb := invA_pc k s (setPc s a .fpSig) a .fpSig h rfl rfl rfl rfl rfl rfl rfl (by simp [HasLock, hpc])
      (by simp [hpc]) (by intro hm; have := h.wokenPc _ hm; simp_all) (by simp)
      (fun hk => (side_kind h (a := a) (by simp_all [Side, PollPc, FwPc])).1 hk)
      (fun hk => (side_kind h (a := a) (by simp_all [Side, PollPc, FwPc])).2 hk)
    refine ⟨by simp [setPc, linkQ], hb.ownerIff, hb.lockBool, hb.kindP, hb.kindF, hb.waitIff, hb.waitNodup, hb.wokenPc,
      hb.wokenNodup, ?_⟩
    intro b hb'
    have hown : s.owner = some a := (h.ownerIff a).mpr (by simp [hpc, HasLock])
    by_cases hba : b = a
    · subst hba; simp [setPc, linkQ, upd] at hb'
    · have : s.pc b = .fwClock ∨ s.pc b = .fwWait := by simpa [setPc, linkQ, upd, hba] using hb'
      have : s.owner = some b := (h.ownerIff b).mpr (by rcases this with e | e <;> simp [e, HasLock])
      rw [hown] at this; exact absurd (Option.some.inj this).symm hba
  · cases hs

/-- the pop inside the critical section: queue, flag and the `woken` ghost change, the actor keeps the lock -/
theorem invA_take_gen (k : Kind) (s : St) (a : Actor) (p : Pc) (q' : List Nat) (fl : Bool) (tk : List Nat) (g : Option Nat)
    (ea : Actor → Bool) (h : InvA k s) (hown : HasLock (s.pc a)) (hp : HasLock p)
    (hpp : p = .aRel ∨ p = .fnUnl ∨ p = .fwUnl) (hside : Side (s.pc a) p) (hfl : fl = true ↔ q' = []) (hns : s.pc a ≠ .fwSleep) :
    InvA k (setPc { s with q := q', flag := fl, taken := tk, got := upd s.got a g, emptyAtPoll := ea,
                           woken := s.woken.erase a } a p) := by
  have hsome : s.owner = some a := (h.ownerIff a).mpr hown
  have hk := side_kind h hside
  constructor
  · simpa [setPc] using hfl
  · intro b; have := h.ownerIff b
    by_cases hb : b = a
    · subst hb; simp [setPc, upd, hp, hsome]
    · simpa [setPc, upd, hb] using this
  · simpa [setPc] using h.lockBool
  · intro hk' b; have := h.kindP hk' b
    by_cases hb : b = a
    · subst hb; simpa [setPc, upd] using hk.1 hk'
    · simpa [setPc, upd, hb] using this
  · intro hk' b; have := h.kindF hk' b
    by_cases hb : b = a
    · subst hb; simpa [setPc, upd] using hk.2 hk'
    · simpa [setPc, upd, hb] using this
  · intro b; have := h.waitIff b
    by_cases hb : b = a
    · subst hb; simp only [setPc, upd, if_true]
      constructor
      · intro hm; exact absurd (this.mp hm) hns
      · intro e; rcases hpp with e' | e' | e' <;> rw [e'] at e <;> cases e
    · simpa [setPc, upd, hb] using this
  · simpa [setPc] using h.waitNodup
  · intro b hm
    have hm' : b ∈ s.woken.erase a := by simpa [setPc] using hm
    have hba : b ≠ a := fun e => by
      subst e; exact (List.Nodup.mem_erase_iff h.wokenNodup).mp hm' |>.1 rfl
    have := h.wokenPc b (List.mem_of_mem_erase hm')
    simpa [setPc, upd, hba] using this
  · simpa [setPc] using h.wokenNodup.erase a
  · intro b hb'
    by_cases hb : b = a
    · subst hb; simp only [setPc, upd, if_true] at hb'
      rcases hpp with e' | e' | e' <;> rw [e'] at hb' <;> simp at hb'
    · have : s.pc b = .fwClock ∨ s.pc b = .fwWait := by simpa [setPc, upd, hb] using hb'
      have : s.owner = some b := (h.ownerIff b).mpr (by rcases this with e | e <;> simp [e, HasLock])
      rw [hsome] at this; exact absurd (Option.some.inj this).symm hb

theorem invA_stepTake (k : Kind) (s s' : St) (a : Actor) (r : Option Nat) (h : InvA k s) (hs : stepTake s a r = some s') :
    InvA k s' := by
  unfold stepTake at hs
  have key : ∀ p, (s.pc a = .aCs ∧ p = .aRel ∨ s.pc a = .fnCs ∧ p = .fnUnl ∨ s.pc a = .fwCs ∧ p = .fwUnl) →
      (match takeFrom s.q (tailOf (s.cur a)) with
        | none =>
          if r = none then
            some (setPc { s with got := upd s.got a none, emptyAtPoll := upd s.emptyAtPoll a true, woken := s.woken.erase a } a p)
          else none
        | some (x, rest) =>
          if r = some x then
            some (setPc { s with q := rest, flag := if rest = [] then true else s.flag, taken := s.taken ++ [x],
                                 got := upd s.got a (some x), woken := s.woken.erase a } a p)
          else none) = some s' → InvA k s' := by
    intro p hp hs
    have hown : HasLock (s.pc a) := by rcases hp with ⟨e, _⟩ | ⟨e, _⟩ | ⟨e, _⟩ <;> simp [e, HasLock]
    have hpl : HasLock p := by rcases hp with ⟨_, e⟩ | ⟨_, e⟩ | ⟨_, e⟩ <;> simp [e, HasLock]
    have hpp : p = .aRel ∨ p = .fnUnl ∨ p = .fwUnl := by rcases hp with ⟨_, e⟩ | ⟨_, e⟩ | ⟨_, e⟩ <;> simp [e]
    have hside : Side (s.pc a) p := by rcases hp with ⟨e, e'⟩ | ⟨e, e'⟩ | ⟨e, e'⟩ <;> simp [e, e', Side, PollPc, FwPc]
    have hns : s.pc a ≠ .fwSleep := by rcases hp with ⟨e, _⟩ | ⟨e, _⟩ | ⟨e, _⟩ <;> simp [e]
    split at hs
    · rename_i htf
      have hq := takeFrom_none htf
      split at hs
      · cases hs
        exact invA_take_gen k s a p s.q s.flag s.taken none _ h hown hpl hpp hside h.flagIff hns
      · cases hs
    · rename_i x rest htf
      split at hs
      · cases hs
        refine invA_take_gen k s a p rest _ _ (some x) s.emptyAtPoll h hown hpl hpp hside ?_ hns
        have hne := (takeFrom_some htf).1
        by_cases hr : rest = []
        · simp [hr]
        · have : s.flag = false := by
            have := h.flagIff; cases hf : s.flag <;> simp_all
          simp [hr, this]
      · cases hs
  cases hpc : s.pc a <;> simp only [hpc] at hs <;> first | (cases hs; done) | exact key _ (by simp [hpc]) hs

theorem invA_stepCondWait (k : Kind) (s s' : St) (a : Actor) (dl : Nat) (h : InvA k s) (hs : stepCondWait s a dl = some s') :
    InvA k s' := by
  unfold stepCondWait at hs
  split at hs
  · rename_i hg
    obtain ⟨hpc, _, _⟩ := hg
    cases hs
    have hsome : s.owner = some a := (h.ownerIff a).mpr (by simp [hpc, HasLock])
    have hk := side_kind h (a := a) (p := .fwSleep) (by simp [Side, hpc, PollPc, FwPc])
    have hnw : a ∉ s.waiters := fun hm => by have := (h.waitIff a).mp hm; rw [hpc] at this; cases this
    constructor
    · simpa [dropL, setPc] using h.flagIff
    · intro b; have := h.ownerIff b
      by_cases hb : b = a
      · subst hb; simp [dropL, setPc, upd, HasLock]
      · simp only [dropL, setPc, upd, hb, if_false]; rw [hsome] at this
        constructor
        · intro e; cases e
        · intro hb'; exact absurd (Option.some.inj (this.mpr hb')).symm hb
    · simp [dropL, setPc]
    · intro hk' b; have := h.kindP hk' b
      by_cases hb : b = a
      · subst hb; simpa [dropL, setPc, upd] using hk.1 hk'
      · simpa [dropL, setPc, upd, hb] using this
    · intro hk' b; have := h.kindF hk' b
      by_cases hb : b = a
      · subst hb; simpa [dropL, setPc, upd] using hk.2 hk'
      · simpa [dropL, setPc, upd, hb] using this
    · intro b; have := h.waitIff b
      by_cases hb : b = a
      · subst hb; simp [dropL, setPc, upd]
      · simpa [dropL, setPc, upd, hb] using this
    · simp only [dropL, setPc]
      rw [List.nodup_append]
      exact ⟨h.waitNodup, by simp, fun x hx y hy e => by simp at hy; subst hy; subst e; exact hnw hx⟩
    · intro b hm
      have hm' : b ∈ s.woken := by simpa [dropL, setPc] using hm
      have := h.wokenPc b hm'
      have hba : b ≠ a := fun e => by subst e; rw [hpc] at this; simp at this
      simpa [dropL, setPc, upd, hba] using this
    · simpa [dropL, setPc] using h.wokenNodup
    · intro b hb'
      by_cases hb : b = a
      · subst hb; simp [dropL, setPc, upd] at hb'
      · exact h.sawEmpty b (by simpa [dropL, setPc, upd, hb] using hb')
  · cases hs

/-- a sleeper leaves the condition variable on its own (deadline passed, or spuriously) -/
theorem invA_leave (k : Kind) (s : St) (a : Actor) (h : InvA k s) (hpc : s.pc a = .fwSleep) :
    InvA k (setPc { s with waiters := s.waiters.erase a } a .fwRelock) := by
  have hk := side_kind h (a := a) (p := .fwRelock) (by simp [Side, hpc, PollPc, FwPc])
  constructor
  · simpa [setPc] using h.flagIff
  · intro b; have := h.ownerIff b
    by_cases hb : b = a
    · subst hb; simpa [setPc, upd, HasLock, hpc] using this
    · simpa [setPc, upd, hb] using this
  · simpa [setPc] using h.lockBool
  · intro hk' b; have := h.kindP hk' b
    by_cases hb : b = a
    · subst hb; simpa [setPc, upd] using hk.1 hk'
    · simpa [setPc, upd, hb] using this
  · intro hk' b; have := h.kindF hk' b
    by_cases hb : b = a
    · subst hb; simpa [setPc, upd] using hk.2 hk'
    · simpa [setPc, upd, hb] using this
  · intro b; have := h.waitIff b
    by_cases hb : b = a
    · subst hb; simp only [setPc, upd, if_true]
      constructor
      · intro hm; exact absurd rfl ((List.Nodup.mem_erase_iff h.waitNodup).mp hm).1
      · intro e; cases e
    · simp only [setPc, upd, hb, if_false]
      rw [List.mem_erase_of_ne hb]; exact this
  · simpa [setPc] using h.waitNodup.erase a
  · intro b hm
    have hm' : b ∈ s.woken := by simpa [setPc] using hm
    have := h.wokenPc b hm'
    by_cases hb : b = a
    · subst hb; simp [setPc, upd]
    · simpa [setPc, upd, hb] using this
  · simpa [setPc] using h.wokenNodup
  · intro b hb'
    by_cases hb : b = a
    · subst hb; simp [setPc, upd] at hb'
    · exact h.sawEmpty b (by simpa [setPc, upd, hb] using hb')

theorem invA_stepTimeout (k : Kind) (s s' : St) (a : Actor) (h : InvA k s) (hs : stepTimeout s a = some s') : InvA k s' := by
  unfold stepTimeout at hs
  split at hs
  · rename_i hg; cases hs; exact invA_leave k s a h hg.1
  · cases hs

theorem invA_stepSpurious (k : Kind) (s s' : St) (a : Actor) (h : InvA k s) (hs : stepSpurious s a = some s') : InvA k s' := by
  unfold stepSpurious at hs
  split at hs
  · rename_i hg; cases hs; exact invA_leave k s a h hg
  · cases hs

theorem invA_stepSignal (k : Kind) (s s' : St) (a : Actor) (w : Option Actor) (h : InvA k s)
    (hs : stepSignal s a w = some s') : InvA k s' := by
  unfold stepSignal at hs
  split at hs
  · cases hs
  · rename_i hpc
    have hpc : s.pc a = .fpSig := by simpa using hpc
    split at hs
    · split at hs
      · cases hs; apply invA_pc _ s _ a _ h <;> sideA h a
      · cases hs
    · rename_i w
      split at hs
      · rename_i hw
        cases hs
        have hpw : s.pc w = .fwSleep := (h.waitIff w).mp hw
        have hwa : w ≠ a := fun e => by subst e; rw [hpc] at hpw; cases hpw
        have hkA := side_kind h (a := a) (p := .fpUnl) (by simp [Side, hpc, PollPc, FwPc])
        have hkW := side_kind h (a := w) (p := .fwRelock) (by simp [Side, hpw, PollPc, FwPc])
        have hnw : w ∉ s.woken := fun hm => by have := h.wokenPc w hm; rw [hpw] at this; simp at this
        constructor
        · simpa [setPc] using h.flagIff
        · intro b; have := h.ownerIff b
          by_cases hb : b = a
          · subst hb; simpa [setPc, upd, HasLock, hpc] using this
          · by_cases hb' : b = w
            · subst hb'; simpa [setPc, upd, hb, HasLock, hpw] using this
            · simpa [setPc, upd, hb, hb'] using this
        · simpa [setPc] using h.lockBool
        · intro hk' b; have := h.kindP hk' b
          by_cases hb : b = a
          · subst hb; simpa [setPc, upd] using hkA.1 hk'
          · by_cases hb' : b = w
            · subst hb'; simpa [setPc, upd, hb] using hkW.1 hk'
            · simpa [setPc, upd, hb, hb'] using this
        · intro hk' b; have := h.kindF hk' b
          by_cases hb : b = a
          · subst hb; simpa [setPc, upd] using hkA.2 hk'
          · by_cases hb' : b = w
            · subst hb'; simpa [setPc, upd, hb] using hkW.2 hk'
            · simpa [setPc, upd, hb, hb'] using this
        · intro b; have := h.waitIff b
          by_cases hb : b = a
          · subst hb; simp only [setPc, upd, if_true]
            constructor
            · intro hm; have := this.mp (List.mem_of_mem_erase hm); rw [hpc] at this; cases this
            · intro e; cases e
          · by_cases hb' : b = w
            · subst hb'; simp only [setPc, upd, hb, if_false, if_true]
              constructor
              · intro hm; exact absurd rfl ((List.Nodup.mem_erase_iff h.waitNodup).mp hm).1
              · intro e; cases e
            · simp only [setPc, upd, hb, hb', if_false]
              rw [List.mem_erase_of_ne hb']; exact this
        · simpa [setPc] using h.waitNodup.erase w
        · intro b hm
          have hm' : b ∈ s.woken ∨ b = w := by simpa [setPc] using hm
          by_cases hb : b = a
          · subst hb
            rcases hm' with hm' | hm'
            · have := h.wokenPc b hm'; rw [hpc] at this; simp at this
            · exact absurd hm'.symm hwa
          · by_cases hb' : b = w
            · subst hb'; simp [setPc, upd, hb]
            · rcases hm' with hm' | hm'
              · simpa [setPc, upd, hb, hb'] using h.wokenPc b hm'
              · exact absurd hm' hb'
        · simp only [setPc]
          rw [List.nodup_append]
          exact ⟨h.wokenNodup, by simp, fun x hx y hy e => by simp at hy; subst hy; subst e; exact hnw hx⟩
        · intro b hb0
          by_cases hb : b = a
          · subst hb; simp [setPc, upd] at hb0
          · by_cases hb' : b = w
            · subst hb'; simp [setPc, upd, hb] at hb0
            · exact h.sawEmpty b (by simpa [setPc, upd, hb, hb'] using hb0)
      · cases hs

theorem invA_step0 (k : Kind) (s s' : St) (e : Ev) (h : InvA k s) (hs : step0 k s e = some s') : InvA k s' := by
  cases e with
  | call a c => exact invA_stepCall k s s' a c h hs
  | ret a r => exact invA_stepRet k s s' a r h hs
  | advance v => exact invA_stepAdvance k s s' v h hs
  | tas a o => exact invA_stepTas k s s' a o h hs
  | loadLock a v => exact invA_stepLoadLock k s s' a v h hs
  | loadEmpty a v => exact invA_stepLoadEmpty k s s' a v h hs
  | clear a => exact invA_stepClear k s s' a h hs
  | link a => exact invA_stepLink k s s' a h hs
  | take a r => exact invA_stepTake k s s' a r h hs
  | clock a v => exact invA_stepClock k s s' a v h hs
  | sleepDone a => exact invA_stepSleepDone k s s' a h hs
  | mlock a => exact invA_stepMlock k s s' a h hs
  | munlock a => exact invA_stepMunlock k s s' a h hs
  | condWait a dl => exact invA_stepCondWait k s s' a dl h hs
  | signal a w => exact invA_stepSignal k s s' a w h hs
  | timeout a => exact invA_stepTimeout k s s' a h hs
  | spurious a => exact invA_stepSpurious k s s' a h hs

theorem invA_bump (k : Kind) (s : St) (o : Option Actor) (h : InvA k s) : InvA k (bump s o) := by
  cases o with
  | none => exact h
  | some a => exact ⟨h.flagIff, h.ownerIff, h.lockBool, h.kindP, h.kindF, h.waitIff, h.waitNodup, h.wokenPc, h.wokenNodup, h.sawEmpty⟩

theorem invA_step (k : Kind) (s s' : St) (e : Ev) (h : InvA k s) (hs : step k s e = some s') : InvA k s' := by
  unfold step at hs
  cases h0 : step0 k s e with
  | none => simp [h0] at hs
  | some s1 =>
    simp only [h0, Option.map_some, Option.some.injEq] at hs
    subst hs
    exact invA_bump k s1 _ (invA_step0 k s s1 e h h0)

theorem invA_reachable (k : Kind) (s : St) (h : (machine k).Reachable s) : InvA k s :=
  Machine.invariant_reachable (machine k) (InvA k) (invA_init k) (fun s e s' hi hs => invA_step k s s' e hi hs) s h

end ArgoVerif.Model.PopWait
