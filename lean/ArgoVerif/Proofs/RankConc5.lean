import ArgoVerif.Proofs.RankConc4
/-
Proofs.RankConc5 — streams that are still executing (or being joined) are in the list: the second
invariant of Model.RankConc.  `ABT_xstream_free` returns the rank only after its join part completed.
-/
namespace ArgoVerif.Model.RankConc
open ArgoVerif ArgoVerif.Model.Rank

structure InvR (s : St) : Prop where
  /-- a stream that has not stopped is linked in the global list (so it holds its rank and is counted) -/
  inlist : ∀ p, s.running p = true → p ∈ live s.g
  /-- a free that is past its join — on its way to, or inside, the removing critical section — acts on a stopped stream -/
  stopped : ∀ a p, s.op a = .free p → afterJoin (s.pc a) = true → s.running p = false

theorem insertAt_mem_create (g g' : G) (p : Ptr) (loc : Int) (hw : WF g) (hp : Pre g (.create p) = true)
    (hc : ChkFact g (.create p) loc) (hi : insertAt g p loc = some g') :
    ∀ q, q ∈ live g' ↔ q = p ∨ q ∈ live g := by
  obtain ⟨hp0, hpx⟩ := pre_create hp
  obtain ⟨s1, r, he, hcr, -⟩ := create_spec g p hw hp0 hpx
  rw [lin_create g g' p loc hc hi] at he
  simp only [Option.some.injEq, Prod.mk.injEq] at he
  obtain ⟨rfl, -⟩ := he
  exact hcr.mem

theorem insertAt_mem_createw (g g' : G) (p : Ptr) (r loc : Int) (hw : WF g)
    (hp : Pre g (.createWithRank p r) = true) (hr : ¬ r < 0)
    (hc : ChkFact g (.createWithRank p r) loc) (hi : insertAt g p loc = some g') :
    ∀ q, q ∈ live g' ↔ q = p ∨ q ∈ live g := by
  obtain ⟨hp0, hpx⟩ := pre_createw hp
  obtain ⟨hnin, -⟩ := chk_createw hw hpx hc
  obtain ⟨s1, he, hcr⟩ := (createw_spec g p r hw hp0 hpx (by omega)).2 hnin
  rw [lin_createw_ok g g' p r loc hr hc hi] at he
  simp only [Option.some.injEq, Prod.mk.injEq] at he
  obtain ⟨rfl, -⟩ := he
  exact hcr.mem

theorem moveTo_mem (g g' : G) (p : Ptr) (r loc : Int) (hw : WF g) (hp : Pre g (.setRank p r) = true)
    (hlf : lockFree g (.setRank p r) = false) (hc : ChkFact g (.setRank p r) loc)
    (hm : moveTo g p r = some g') : ∀ q, q ∈ live g' ↔ q ∈ live g := by
  have hnin := chk_setrank hw hc
  have hlf' := hlf
  simp only [lockFree, Bool.or_eq_false_iff, decide_eq_false_iff_not] at hlf'
  obtain ⟨⟨⟨h1, h2⟩, h3⟩, h4⟩ := hlf'
  have hpl : p ∈ live g := by
    simp only [Pre, Bool.or_eq_true, decide_eq_true_eq, List.contains_eq_mem] at hp
    rcases hp with h | h
    · exact absurd h h1
    · simpa using h
  obtain ⟨s1, he, -, hmem, -⟩ := (setrank_spec g p r hw hpl h2 (by omega)).2.2 h4 hnin
  have hc' : ChkFact g (.setRank p r) r := by simpa [ChkFact] using hc
  rw [lin_setrank_ok g g' p r hlf hc' hm] at he
  simp only [Option.some.injEq, Prod.mk.injEq] at he
  obtain ⟨rfl, -⟩ := he
  exact hmem

theorem remove_mem (g g' : G) (p : Ptr) (hw : WF g) (hp : Pre g (.free p) = true)
    (hlf : lockFree g (.free p) = false)
    (hm : returnRank { g with term := upd g.term p true } p = some g') :
    ∀ q, q ∈ live g' ↔ q ∈ live g ∧ q ≠ p := by
  have hlf' := hlf
  simp only [lockFree, Bool.or_eq_false_iff, decide_eq_false_iff_not] at hlf'
  have hpl : p ∈ live g := by
    simp only [Pre, Bool.or_eq_true, decide_eq_true_eq, List.contains_eq_mem] at hp
    rcases hp with h | h
    · exact absurd h hlf'.1
    · simpa using h
  obtain ⟨s1, he, -, hmem, -⟩ := free_spec g p hw hpl hlf'.2
  rw [lin_free g g' p hlf hm] at he
  simp only [Option.some.injEq, Prod.mk.injEq] at he
  obtain ⟨rfl, -⟩ := he
  exact hmem

/-- steps that leave the list, `running` and the calls alone and move `a` to a pc from which a free's removal is
no nearer than before -/
theorem invR_pc (s s' : St) (a : Actor) (np : Pc) (hR : InvR s)
    (hg : s'.g = s.g) (hr : s'.running = s.running) (hop : s'.op = s.op) (hpc : s'.pc = upd s.pc a np)
    (hnp : afterJoin np = true → afterJoin (s.pc a) = true ∨ ∀ p, s.op a ≠ .free p) : InvR s' := by
  refine ⟨?_, ?_⟩
  · intro p hp; rw [hg]; rw [hr] at hp; exact hR.inlist p hp
  · intro b p hb hpcb
    rw [hop] at hb; rw [hpc] at hpcb; rw [hr]
    by_cases hba : b = a
    · subst hba
      simp only [upd_same] at hpcb
      rcases hnp hpcb with h | h
      · exact hR.stopped b p hb h
      · exact absurd hb (h p)
    · simp only [upd, hba, if_false] at hpcb
      exact hR.stopped b p hb hpcb

/-- a call of `a` takes effect on the list (`running` unchanged, `a` leaves the pcs before the removal) -/
theorem invR_lin (s : St) (a : Actor) (g' : G) (o : Out) (np : Pc) (hR : InvR s)
    (hnp : afterJoin np = false)
    (hmem : ∀ q, s.running q = true → q ∈ live s.g → q ∈ live g') : InvR (linearize s a g' o np) := by
  refine ⟨?_, ?_⟩
  · intro p hp
    exact hmem p hp (hR.inlist p hp)
  · intro b p hb hpcb
    have hpcb' : afterJoin ((upd s.pc a np) b) = true := hpcb
    by_cases hba : b = a
    · subst hba; simp only [upd_same] at hpcb'; rw [hnp] at hpcb'; simp at hpcb'
    · simp only [upd, hba, if_false] at hpcb'
      exact hR.stopped b p hb hpcb'

theorem invR_init : InvR init := by
  refine ⟨?_, ?_⟩
  · intro p hp
    have : p = primaryId := by simpa [init] using hp
    subst this
    have := init_R.live_eq
    show primaryId ∈ live Rank.init
    rw [this]; simp
  · intro a p _ hpc; simp [init, afterJoin] at hpc

theorem afterJoin_wantsLock {p : Pc} (h : afterJoin p = true) : wantsLock p = true := by
  cases p <;> simp_all [afterJoin, wantsLock]

/-- the stream a free is about to unlink is not the descriptor of any other in-flight call -/
theorem free_target_ne (s : St) (h : Inv s) (a b : Actor) (p' : Ptr) (hba : b ≠ a) (hai : s.pc a ≠ .idle)
    (hb : s.op b = .free p') (hpcb : afterJoin (s.pc b) = true) : p' ≠ target (s.op a) := by
  have hw := afterJoin_wantsLock hpcb
  have hbi : s.pc b ≠ .idle := preLin_ne_idle (wantsLock_preLin hw)
  have hb0 := h.need b hw
  rw [hb] at hb0
  have hp0 : p' ≠ 0 := by
    intro e; subst e; simp [lockFree] at hb0
  have := h.excl b a hba hbi hai (by rw [hb]; exact hp0)
  rw [hb] at this
  exact this

theorem invR_step (s s' : St) (e : Ev) (h : Inv s) (hR : InvR s) (hs : step s e = some s') : InvR s' := by
  cases e with
  | call a op =>
    simp only [step, stepCall] at hs
    split at hs
    · simp only [Option.some.injEq] at hs
      subst hs
      refine ⟨hR.inlist, ?_⟩
      intro b p hb hpcb
      have hb' : (upd s.op a op) b = .free p := hb
      have hpcb' : afterJoin ((upd s.pc a .start) b) = true := hpcb
      by_cases hba : b = a
      · subst hba; simp [afterJoin] at hpcb'
      · simp only [upd, hba, if_false] at hb' hpcb'
        exact hR.stopped b p hb' hpcb'
    · simp at hs
  | pre a =>
    simp only [step, stepPre] at hs
    split at hs
    · rename_i hpc
      have hpl : preLin (s.pc a) = true := by rw [hpc]; rfl
      split at hs
      · rename_i hlf
        cases hap : apiStep s.g (s.op a) with
        | none => simp [hap] at hs
        | some r =>
          obtain ⟨g', o⟩ := r
          simp only [hap, Option.some.injEq] at hs
          subst hs
          have hsame := lockFree_same s.g g' (s.op a) o (h.alw a (preLin_ne_idle hpl)) hlf hap
          exact invR_lin s a g' o .done hR rfl (fun q _ hq => by rw [hsame]; exact hq)
      · simp only [Option.some.injEq] at hs
        subst hs
        apply invR_pc s (setPc s a (afterPre (s.op a))) a _ hR rfl rfl rfl rfl
        intro hnp
        right
        intro p hp
        rw [hp] at hnp
        simp [afterPre, afterJoin] at hnp
    · simp at hs
  | joined a =>
    simp only [step, stepJoined] at hs
    split at hs
    · rename_i hpc
      cases hop : s.op a with
      | free p =>
        simp only [hop, Option.some.injEq] at hs
        subst hs
        refine ⟨?_, ?_⟩
        · intro q hq
          have hq' : (upd s.running p false) q = true := hq
          by_cases hqp : q = p
          · subst hqp; simp at hq'
          · simp only [upd, hqp, if_false] at hq'; exact hR.inlist q hq'
        · intro b p' hb hpcb
          have hpcb' : afterJoin ((upd s.pc a .want) b) = true := hpcb
          show (upd s.running p false) p' = false
          by_cases hpp : p' = p
          · subst hpp; simp
          · simp only [upd, hpp, if_false]
            by_cases hba : b = a
            · subst hba
              have hb' : s.op b = .free p' := hb
              rw [hop] at hb'
              exact absurd (Op.free.inj hb').symm hpp
            · simp only [upd, hba, if_false] at hpcb'
              exact hR.stopped b p' hb hpcb'
      | create p => simp [hop] at hs
      | createWithRank p r => simp [hop] at hs
      | setRank p r => simp [hop] at hs
      | getNum => simp [hop] at hs
      | join p => simp [hop] at hs
      | revive p => simp [hop] at hs
      | getRank p => simp [hop] at hs
    · simp at hs
  | tas a old =>
    simp only [step, stepTas] at hs
    split at hs
    · rename_i hc
      split at hs
      · simp only [Option.some.injEq] at hs
        subst hs
        exact invR_pc s (setPc s a .spin) a .spin hR rfl rfl rfl rfl (fun _ => Or.inl (by rw [hc.1]; rfl))
      · simp only [Option.some.injEq] at hs
        subst hs
        exact invR_pc s { s with lock := some a, pc := upd s.pc a .locked } a .locked hR rfl rfl rfl rfl
          (fun _ => Or.inl (by rw [hc.1]; rfl))
    · simp at hs
  | spinLoad a v =>
    simp only [step, stepSpinLoad] at hs
    split at hs
    · rename_i hc
      split at hs
      · simp only [Option.some.injEq] at hs
        subst hs; exact hR
      · simp only [Option.some.injEq] at hs
        subst hs
        exact invR_pc s (setPc s a .want) a .want hR rfl rfl rfl rfl (fun _ => Or.inl (by rw [hc.1]; rfl))
    · simp at hs
  | check a =>
    simp only [step, stepCheck] at hs
    split at hs
    · rename_i hc
      obtain ⟨hpc, hlk⟩ := hc
      have hpl : preLin (s.pc a) = true := by rw [hpc]; rfl
      have hpre := h.pre a hpl
      cases hop : s.op a with
      | create p =>
        simp only [hop] at hs
        cases hm : mexLoop (privInit s.g p) (fuel (privInit s.g p)) 0 (privInit s.g p).head with
        | none => simp [hm] at hs
        | some r =>
          simp only [hm, Option.some.injEq] at hs
          subst hs
          exact invR_pc s { s with loc := upd s.loc a r, pc := upd s.pc a .chkOk } a .chkOk hR rfl rfl rfl rfl
            (fun e => by simp [afterJoin] at e)
      | createWithRank p r =>
        simp only [hop] at hs
        cases hm : findLoop (privInit s.g p) r (fuel (privInit s.g p)) (privInit s.g p).head with
        | none => simp [hm] at hs
        | some b =>
          cases b with
          | true =>
            simp only [hm, Option.some.injEq] at hs
            subst hs
            rw [hop] at hpre
            have hl := (privInit_R h.wf (pre_createw hpre).2).live_eq
            exact invR_lin s a _ _ .chkFail hR rfl (fun q _ hq => by rw [hl]; exact hq)
          | false =>
            simp only [hm, Option.some.injEq] at hs
            subst hs
            exact invR_pc s { s with loc := upd s.loc a r, pc := upd s.pc a .chkOk } a .chkOk hR rfl rfl rfl rfl
              (fun e => by simp [afterJoin] at e)
      | setRank p r =>
        simp only [hop] at hs
        cases hm : findLoop s.g r (fuel s.g) s.g.head with
        | none => simp [hm] at hs
        | some b =>
          cases b with
          | true =>
            simp only [hm, Option.some.injEq] at hs
            subst hs
            exact invR_lin s a _ _ .chkFail hR rfl (fun q _ hq => hq)
          | false =>
            simp only [hm, Option.some.injEq] at hs
            subst hs
            exact invR_pc s { s with loc := upd s.loc a r, pc := upd s.pc a .chkOk } a .chkOk hR rfl rfl rfl rfl
              (fun e => by simp [afterJoin] at e)
      | free p => simp [hop] at hs
      | getNum => simp [hop] at hs
      | join p => simp [hop] at hs
      | revive p => simp [hop] at hs
      | getRank p => simp [hop] at hs
    · simp at hs
  | insert a =>
    simp only [step, stepInsert] at hs
    split at hs
    · rename_i hc
      obtain ⟨hpc, hlk⟩ := hc
      have hpl : preLin (s.pc a) = true := by rw [hpc]; rfl
      have hai := preLin_ne_idle hpl
      have hneed := h.need a (by rw [hpc]; rfl)
      have hpre := h.pre a hpl
      have hchk := h.chk a hpc
      have key : ∀ (p : Ptr) (g' : G) (o : Out), target (s.op a) = p → (∀ q, q ∈ live g' ↔ q = p ∨ q ∈ live s.g) →
          InvR { linearize s a g' o .mutated with running := upd s.running p true } := by
        intro p g' o htp hmem
        refine ⟨?_, ?_⟩
        · intro q hq
          have hq' : (upd s.running p true) q = true := hq
          show q ∈ live g'
          rw [hmem q]
          by_cases hqp : q = p
          · exact Or.inl hqp
          · simp only [upd, hqp, if_false] at hq'; exact Or.inr (hR.inlist q hq')
        · intro b p' hb hpcb
          have hpcb' : afterJoin ((upd s.pc a .mutated) b) = true := hpcb
          have hb' : s.op b = .free p' := hb
          show (upd s.running p true) p' = false
          by_cases hba : b = a
          · subst hba; simp [afterJoin] at hpcb'
          · simp only [upd, hba, if_false] at hpcb'
            have hpp : p' ≠ p := by rw [← htp]; exact free_target_ne s h a b p' hba hai hb' hpcb'
            simp only [upd, hpp, if_false]
            exact hR.stopped b p' hb' hpcb'
      cases hop : s.op a with
      | create p =>
        simp only [hop] at hs
        cases hi : insertAt s.g p (s.loc a) with
        | none => simp [hi] at hs
        | some g' =>
          simp only [hi, Option.some.injEq] at hs
          subst hs
          rw [hop] at hpre hchk
          exact key p g' _ (by rw [hop]; rfl) (insertAt_mem_create s.g g' p _ h.wf hpre hchk hi)
      | createWithRank p r =>
        simp only [hop] at hs
        have hr : ¬ r < 0 := by
          rw [hop] at hneed; simpa [lockFree] using hneed
        cases hi : insertAt s.g p (s.loc a) with
        | none => simp [hi] at hs
        | some g' =>
          simp only [hi, Option.some.injEq] at hs
          subst hs
          rw [hop] at hpre hchk
          exact key p g' _ (by rw [hop]; rfl) (insertAt_mem_createw s.g g' p r _ h.wf hpre hr hchk hi)
      | setRank p r => simp [hop] at hs
      | free p => simp [hop] at hs
      | getNum => simp [hop] at hs
      | join p => simp [hop] at hs
      | revive p => simp [hop] at hs
      | getRank p => simp [hop] at hs
    · simp at hs
  | move a =>
    simp only [step, stepMove] at hs
    split at hs
    · rename_i hc
      obtain ⟨hpc, hlk⟩ := hc
      have hpl : preLin (s.pc a) = true := by rw [hpc]; rfl
      have hneed := h.need a (by rw [hpc]; rfl)
      have hpre := h.pre a hpl
      have hchk := h.chk a hpc
      cases hop : s.op a with
      | setRank p r =>
        simp only [hop] at hs
        cases hi : moveTo s.g p r with
        | none => simp [hi] at hs
        | some g' =>
          simp only [hi, Option.some.injEq] at hs
          subst hs
          rw [hop] at hpre hchk hneed
          have hmem := moveTo_mem s.g g' p r _ h.wf hpre hneed hchk hi
          exact invR_lin s a g' _ .mutated hR rfl (fun q _ hq => (hmem q).mpr hq)
      | create p => simp [hop] at hs
      | createWithRank p r => simp [hop] at hs
      | free p => simp [hop] at hs
      | getNum => simp [hop] at hs
      | join p => simp [hop] at hs
      | revive p => simp [hop] at hs
      | getRank p => simp [hop] at hs
    · simp at hs
  | remove a =>
    simp only [step, stepRemove] at hs
    split at hs
    · rename_i hc
      obtain ⟨hpc, hlk⟩ := hc
      have hpl : preLin (s.pc a) = true := by rw [hpc]; rfl
      have hneed := h.need a (by rw [hpc]; rfl)
      have hpre := h.pre a hpl
      cases hop : s.op a with
      | free p =>
        simp only [hop] at hs
        cases hi : returnRank { s.g with term := upd s.g.term p true } p with
        | none => simp [hi] at hs
        | some g' =>
          simp only [hi, Option.some.injEq] at hs
          subst hs
          rw [hop] at hpre hneed
          have hmem := remove_mem s.g g' p h.wf hpre hneed hi
          have hstop := hR.stopped a p hop (by rw [hpc]; rfl)
          refine invR_lin s a g' _ .mutated hR rfl (fun q hq hql => (hmem q).mpr ⟨hql, ?_⟩)
          intro e; subst e; rw [hstop] at hq; simp at hq
      | create p => simp [hop] at hs
      | createWithRank p r => simp [hop] at hs
      | setRank p r => simp [hop] at hs
      | getNum => simp [hop] at hs
      | join p => simp [hop] at hs
      | revive p => simp [hop] at hs
      | getRank p => simp [hop] at hs
    · simp at hs
  | clear a =>
    simp only [step, stepClear] at hs
    split at hs
    · simp only [Option.some.injEq] at hs
      subst hs
      exact invR_pc s { s with lock := none, pc := upd s.pc a .done } a .done hR rfl rfl rfl rfl
        (fun e => by simp [afterJoin] at e)
    · simp at hs
  | ret a o =>
    simp only [step, stepRet] at hs
    split at hs
    · simp only [Option.some.injEq] at hs
      subst hs
      exact invR_pc s { s with pc := upd s.pc a .idle, active := s.active.filter (fun b => decide (b ≠ a)) } a .idle hR
        rfl rfl rfl rfl (fun e => by simp [afterJoin] at e)
    · simp at hs

theorem invR_reachable (s : St) (h : machine.Reachable s) : Inv s ∧ InvR s :=
  machine.invariant_reachable (fun s => Inv s ∧ InvR s) ⟨inv_init, invR_init⟩
    (fun s e s' hi hs => ⟨(inv_step s s' e hi.1 hs).1, invR_step s s' e hi.1 hi.2 hs⟩) s h

/-! ### counting -/

theorem nodup_map_inj {α β : Type} (f : α → β) : ∀ (l : List α), (l.map f).Nodup →
    ∀ p ∈ l, ∀ q ∈ l, f p = f q → p = q := by
  intro l
  induction l with
  | nil => intro _ p hp; simp at hp
  | cons x xs ih =>
    intro hn p hp q hq e
    simp only [List.map_cons, List.nodup_cons, List.mem_map, not_exists, not_and] at hn
    simp only [List.mem_cons] at hp hq
    rcases hp with rfl | hp <;> rcases hq with rfl | hq
    · rfl
    · exact absurd e.symm (hn.1 q hq)
    · exact absurd e (hn.1 p hp)
    · exact ih hn.2 p hp q hq e

theorem nodup_subset_length {α : Type} [DecidableEq α] : ∀ (l m : List α), l.Nodup → (∀ x ∈ l, x ∈ m) →
    l.length ≤ m.length := by
  intro l
  induction l with
  | nil => intro m _ _; simp
  | cons x xs ih =>
    intro m hn hsub
    simp only [List.nodup_cons] at hn
    have hx : x ∈ m := hsub x (by simp)
    have h1 := ih (m.erase x) hn.2 (by
      intro y hy
      have hym : y ∈ m := hsub y (by simp [hy])
      have hne : y ≠ x := fun e => hn.1 (e ▸ hy)
      exact (List.mem_erase_of_ne hne).mpr hym)
    have h2 := List.length_erase_of_mem hx
    simp only [List.length_cons]
    have : 0 < m.length := List.length_pos_of_mem hx
    omega

end ArgoVerif.Model.RankConc
