import ArgoVerif.Proofs.PoolConc
/- Proofs.PoolConcA — invariant preservation: lock acquisition / release, the lock-free loads. -/
namespace ArgoVerif.Model.PoolConc
open ArgoVerif ArgoVerif.Model.TQ
set_option maxHeartbeats 1000000

theorem csEntry_cases (cfg : Cfg) (c : Call) :
    (csEntry cfg c = .csPush ∧ isPopLike c = false ∧ isRemove c = false) ∨
    (csEntry cfg c = .csPop ∧ isPopLike c = true) ∨
    (csEntry cfg c = .wChk ∧ isPopLike c = true) ∨
    (csEntry cfg c = .csRm ∧ isRemove c = true) := by
  cases c <;> simp [csEntry, isPopLike, isRemove]
  cases cfg.lk <;> simp

/-- taking the free lock (spin: successful test-and-set; mutex: lock granted) and entering the critical section at `p` -/
theorem inv_acquire {cfg : Cfg} {s : St} {a : Actor} {p : Pc} (h : Inv cfg s) (hfree : s.lock = false)
    (hidle : s.pc a ≠ .idle) (hncs : ¬ InCS (s.pc a))
    (hp : (p = .csPush ∧ isPopLike (s.cur a) = false ∧ isRemove (s.cur a) = false) ∨ (p = .csPop ∧ isPopLike (s.cur a) = true ∧ s.cnt a ≠ 0) ∨
          (p = .wChk ∧ isPopLike (s.cur a) = true ∧ s.cnt a ≠ 0) ∨ (p = .csRm ∧ isRemove (s.cur a) = true)) :
    Inv cfg (setPc (acquire s a) a p) := by
  have hon : s.owner = none ∨ s.owner = some a := by
    cases hsh : cfg.shared
    · exact Or.inr (h.privOwner hsh a hidle)
    · exact Or.inl (h.lockOwner hsh hfree)
  have hlag : s.lagF ≠ some a := by
    intro e; have := h.lagPc a e
    cases this with
    | inl e => exact hncs (by simp [e, InCS])
    | inr e => exact hncs (by simp [e, InCS])
  apply inv_update h (a := a)
  case opc | ocur | ocnt | opu | ogot | orc | ose | osa => intro b hb; simp [setPc, acquire, upd, hb]
  case hown =>
    intro b hb e; cases hon with
    | inl e' => rw [e'] at e; simp at e
    | inr e' => rw [e'] at e; exact absurd (Option.some.inj e).symm hb
  case hq => exact Or.inl rfl
  case hlag => exact Or.inl rfl
  case g1 => simp [setPc, acquire]
  case g2 => exact h.flagQ
  case g3 => exact h.lagQ
  case g4 => exact h.lin
  case g5 => exact h.inQ
  case a1 => simp [setPc, acquire]
  case a2 => simp [setPc, acquire]
  case a3 => rcases hp with hp | hp | hp | hp <;> simp [setPc, acquire, upd, hp]
  case a4 => simpa [setPc, acquire, upd] using fun e => absurd e hlag
  case a5 => rcases hp with hp | hp | hp | hp <;> simp [setPc, acquire, upd, hp]
  case a6 => rcases hp with hp | hp | hp | hp <;> simp [setPc, acquire, upd, hp]
  case a7 => exact h.rmNZ a
  case a8 => rcases hp with hp | hp | hp | hp <;> simp [setPc, acquire, upd, hp, Typed, PushPc, PopPc, RmPc]
  case a9 => intro hpl _; exact h.cntGot a hpl hidle
  case a10 => rcases hp with hp | hp | hp | hp <;> simp_all [setPc, acquire, upd, Wanting]
  case a11 => rcases hp with hp | hp | hp | hp <;> simp [setPc, acquire, upd, hp]
  case a12 => rcases hp with hp | hp | hp | hp <;> simp [setPc, acquire, upd, hp]
  case a13 => rcases hp with hp | hp | hp | hp <;> simp [setPc, acquire, upd, hp]
  case a14 => rcases hp with hp | hp | hp | hp <;> simp [setPc, acquire, upd, hp]
  case hflag => exact Or.inl rfl

/-- what `csEntry` needs from the state before the lock is taken -/
theorem entry_ok {cfg : Cfg} {s : St} {a : Actor} (h : Inv cfg s) (hw : Wanting (s.pc a)) :
    (csEntry cfg (s.cur a) = .csPush ∧ isPopLike (s.cur a) = false ∧ isRemove (s.cur a) = false) ∨
    (csEntry cfg (s.cur a) = .csPop ∧ isPopLike (s.cur a) = true ∧ s.cnt a ≠ 0) ∨
    (csEntry cfg (s.cur a) = .wChk ∧ isPopLike (s.cur a) = true ∧ s.cnt a ≠ 0) ∨
    (csEntry cfg (s.cur a) = .csRm ∧ isRemove (s.cur a) = true) := by
  rcases csEntry_cases cfg (s.cur a) with e | e | e | e
  · exact Or.inl e
  · exact Or.inr (Or.inl ⟨e.1, e.2, h.cntPos a e.2 hw⟩)
  · exact Or.inr (Or.inr (Or.inl ⟨e.1, e.2, h.cntPos a e.2 hw⟩))
  · exact Or.inr (Or.inr (Or.inr e))

/-- dropping the lock (clear / pthread_mutex_unlock / the unlock inside pthread_cond_timedwait) -/
theorem inv_release {cfg : Cfg} {s : St} {a : Actor} {p : Pc} (h : Inv cfg s) (hown : s.owner = some a)
    (hpc : s.pc a = .rel ∨ s.pc a = .wWait)
    (hp : p = .retp ∨ p = .wSleep ∨ (p = .wIdle ∧ s.cnt a ≠ 0))
    (hse : isPopLike (s.cur a) = true → (p = .retp ∨ p = .wIdle) → s.cnt a = 0 ∨ s.sawEmpty a = true)
    (hrs : isRemove (s.cur a) = true → p = .retp → s.rcOk a = true ∨ s.sawAbsent a = true)
    (hws : isPopLike (s.cur a) = true → p = .wSleep → s.cnt a ≠ 0)
    (hty : p = .retp ∨ isPopLike (s.cur a) = true) :
    Inv cfg (setPc (release cfg s) a p) := by
  have hidle : s.pc a ≠ .idle := by cases hpc with
    | inl e => simp [e]
    | inr e => simp [e]
  have hlag : s.lagF ≠ some a := by
    intro e; have := h.lagPc a e
    cases hpc with
    | inl e' => simp [e'] at this
    | inr e' => simp [e'] at this
  apply inv_update h (a := a)
  case opc | ocur | ocnt | opu | ogot | orc | ose | osa => intro b hb; simp [setPc, release, upd, hb]
  case hown => intro b hb e; rw [hown] at e; exact absurd (Option.some.inj e).symm hb
  case hq => exact Or.inl rfl
  case hlag => exact Or.inl rfl
  case g1 => intro hsh _; simp [setPc, release, hsh]
  case g2 => exact h.flagQ
  case g3 => exact h.lagQ
  case g4 => exact h.lin
  case g5 => exact h.inQ
  case a1 => rcases hp with hp | hp | hp <;> simp [setPc, release, upd, hp, InCS]
  case a2 => intro hsh _; simp [setPc, release, hsh, hown]
  case a3 => rcases hp with hp | hp | hp <;> simp [setPc, release, upd, hp]
  case a4 => simpa [setPc, release, upd] using fun e => absurd e hlag
  case a5 => rcases hp with hp | hp | hp <;> simp [setPc, release, upd, hp]
  case a6 => rcases hp with hp | hp | hp <;> simp [setPc, release, upd, hp]
  case a7 => exact h.rmNZ a
  case a8 =>
    rcases hp with hp | hp | hp
    · simp [setPc, release, upd, hp, Typed, PushPc, PopPc, RmPc]
    · have : isPopLike (s.cur a) = true := by cases hty with
        | inl e => simp [hp] at e
        | inr e => exact e
      simp [setPc, release, upd, hp, Typed, PushPc, PopPc, RmPc, this]
    · have : isPopLike (s.cur a) = true := by cases hty with
        | inl e => simp [hp.1] at e
        | inr e => exact e
      simp [setPc, release, upd, hp.1, Typed, PushPc, PopPc, RmPc, this]
  case a9 => intro hpl _; exact h.cntGot a hpl hidle
  case a10 =>
    intro hpl
    rcases hp with hp | hp | hp
    · simp [setPc, release, upd, hp, Wanting]
    · intro _; exact hws hpl hp
    · simp [setPc, release, upd, hp.1, Wanting, hp.2]
  case a11 => rcases hp with hp | hp | hp <;> simp [setPc, release, upd, hp]
  case a12 =>
    intro hpl; rcases hp with hp | hp | hp
    · simpa [setPc, release, upd, hp] using hse hpl (Or.inl hp)
    · simp [setPc, release, upd, hp]
    · simpa [setPc, release, upd, hp.1] using hse hpl (Or.inr hp.1)
  case a13 =>
    intro hr; rcases hp with hp | hp | hp
    · simpa [setPc, release, upd, hp] using hrs hr hp
    · simp [setPc, release, upd, hp]
    · simp [setPc, release, upd, hp.1]
  case a14 => rcases hp with hp | hp | hp <;> simp [setPc, release, upd, hp]
  case hflag => exact Or.inl rfl

/-- apply the frame lemma; what stays to be shown are its side conditions about the new program counter -/
macro "frame " h:ident a:ident : tactic => `(tactic| (
  apply inv_frame $h (a := $a) <;> first | rfl | (intro _ _; rfl) | skip))

theorem inv_loadLock {cfg : Cfg} {s s' : St} {a : Actor} {v : Bool} (h : Inv cfg s)
    (hs : stepLoadLock s a v = some s') : Inv cfg s' := by
  unfold stepLoadLock at hs
  split at hs
  · simp at hs
  facts h a
  split at hs <;> (try (simp at hs; done)) <;> simp only [Option.some.injEq] at hs <;> subst hs <;> cases v <;>
    (frame h a) <;> simp_all [setPc, InCS, Wanting, Typed, PushPc, PopPc, RmPc]

theorem inv_tas {cfg : Cfg} {s s' : St} {a : Actor} {old : Bool} (h : Inv cfg s)
    (hs : stepTas cfg s a old = some s') : Inv cfg s' := by
  unfold stepTas at hs
  split at hs
  · simp at hs
  next hg =>
  have hlk : old = s.lock := by simp_all
  split at hs <;> (try (simp at hs; done)) <;> simp only [Option.some.injEq] at hs <;> subst hs <;> cases old
  case h_1.false hpc =>
    exact inv_acquire h hlk.symm (by simp [hpc]) (by simp [hpc, InCS]) (entry_ok h (by simp [hpc, Wanting]))
  case h_2.false hpc =>
    exact inv_acquire h hlk.symm (by simp [hpc]) (by simp [hpc, InCS]) (entry_ok h (by simp [hpc, Wanting]))
  all_goals (facts h a; (frame h a) <;> simp_all [setPc, InCS, Wanting, Typed, PushPc, PopPc, RmPc])

theorem inv_mlock {cfg : Cfg} {s s' : St} {a : Actor} (h : Inv cfg s)
    (hs : stepMlock cfg s a = some s') : Inv cfg s' := by
  unfold stepMlock at hs
  split at hs
  · simp at hs
  next hg =>
  have hlk : s.lock = false := by simp_all
  split at hs <;> (try (simp at hs; done)) <;> simp only [Option.some.injEq] at hs <;> subst hs
  case h_1 hpc =>
    exact inv_acquire h hlk (by simp [hpc]) (by simp [hpc, InCS]) (entry_ok h (by simp [hpc, Wanting]))
  case h_2 hpc =>
    have hw : Wanting (s.pc a) := by simp [hpc, Wanting]
    have hpl : isPopLike (s.cur a) = true := (h.typed a).2.1 (by simp [hpc, PopPc])
    exact inv_acquire h hlk (by simp [hpc]) (by simp [hpc, InCS]) (Or.inr (Or.inl ⟨rfl, hpl, h.cntPos a hpl hw⟩))

theorem inv_clear {cfg : Cfg} {s s' : St} {a : Actor} (h : Inv cfg s)
    (hs : stepClear cfg s a = some s') : Inv cfg s' := by
  unfold stepClear at hs
  split at hs
  · simp at hs
  next hg =>
  simp only [Option.some.injEq] at hs; subst hs
  have hpc : s.pc a = .rel := by simp_all
  have hown : s.owner = some a := by simp_all
  have he := h.emptySeen a
  have hr := h.rmSeen a
  have hcg := h.cntGot a
  split
  next hc =>
    have hpl : isPopLike (s.cur a) = true := by
      cases hcur : s.cur a <;> simp_all [isPopWait, isPopLike]
    refine inv_release h hown (Or.inl hpc) (Or.inr (Or.inr ⟨rfl, ?_⟩)) ?_ ?_ (by simp) (Or.inr hpl)
    · have := hcg hpl (by simp [hpc])
      cases hcur : s.cur a <;> simp_all [isPopWait, wants]
    · intro hpl _; exact he hpl (by simp [hpc])
    · simp
  next hc =>
    refine inv_release h hown (Or.inl hpc) (Or.inl rfl) ?_ ?_ (by simp) (Or.inl rfl)
    · intro hpl _; exact he hpl (by simp [hpc])
    · intro hrm _; exact hr hrm (by simp [hpc])

theorem inv_munlock {cfg : Cfg} {s s' : St} {a : Actor} (h : Inv cfg s)
    (hs : stepMunlock cfg s a = some s') : Inv cfg s' := by
  unfold stepMunlock at hs
  split at hs
  · simp at hs
  next hg =>
  simp only [Option.some.injEq] at hs; subst hs
  have hpc : s.pc a = .rel := by simp_all
  have hown : s.owner = some a := by simp_all
  refine inv_release h hown (Or.inl hpc) (Or.inl rfl) ?_ ?_ (by simp) (Or.inl rfl)
  · intro hpl _; exact h.emptySeen a hpl (by simp [hpc])
  · intro hrm _; exact h.rmSeen a hrm (by simp [hpc])

theorem inv_condWait {cfg : Cfg} {s s' : St} {a : Actor} (h : Inv cfg s)
    (hs : stepCondWait cfg s a = some s') : Inv cfg s' := by
  unfold stepCondWait at hs
  split at hs
  · simp at hs
  next hg =>
  simp only [Option.some.injEq] at hs; subst hs
  have hpc : s.pc a = .wWait := by simp_all
  have hown : s.owner = some a := by simp_all
  have hpl : isPopLike (s.cur a) = true := (h.typed a).2.1 (by simp [hpc, PopPc])
  refine inv_release h hown (Or.inr hpc) (Or.inr (Or.inl rfl)) (by simp) (by simp) ?_ (Or.inr hpl)
  intro hpl _; exact h.cntPos a hpl (by simp [hpc, Wanting])

theorem inv_signal {cfg : Cfg} {s s' : St} {a : Actor} (h : Inv cfg s)
    (hs : stepSignal s a = some s') : Inv cfg s' := by
  unfold stepSignal at hs
  split at hs
  · simp at hs
  next hg =>
  simp only [Option.some.injEq] at hs; subst hs
  facts h a
  (frame h a) <;> simp_all [setPc, InCS, Wanting, Typed, PushPc, PopPc, RmPc]

theorem inv_wake {cfg : Cfg} {s s' : St} {a : Actor} (h : Inv cfg s)
    (hs : stepWake s a = some s') : Inv cfg s' := by
  unfold stepWake at hs
  split at hs
  · simp at hs
  next hg =>
  simp only [Option.some.injEq] at hs; subst hs
  facts h a
  (frame h a) <;> simp_all [setPc, InCS, Wanting, Typed, PushPc, PopPc, RmPc]

end ArgoVerif.Model.PoolConc
