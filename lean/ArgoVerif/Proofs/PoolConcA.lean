import ArgoVerif.Proofs.PoolConc
/- Proofs.PoolConcA — invariant preservation: lock acquisition / release, the lock-free loads. -/
namespace ArgoVerif.Model.PoolConc
open ArgoVerif ArgoVerif.Model.TQ
set_option maxHeartbeats 1000000

theorem csEntry_cases (cfg : Cfg) (c : Call) :
    (csEntry cfg c = .csPush ∧ isPopLike c = false ∧ isRemove c = false) ∨
    (csEntry cfg c = .csPop ∧ isPopLike c = true) ∨
    (csEntry cfg c = .wChk ∧ isPopLike c = true) ∨
    (csEntry cfg c = .csRm ∧ isRemove c = true) := by
  cases c <;> simp [csEntry, isPopLike, isRemove]
  cases cfg.lk <;> simp

/-- taking the free lock (spin: successful test-and-set; mutex: lock granted) and entering the critical section at `p` -/
theorem inv_acquire {cfg : Cfg} {s : St} {a : Actor} {p : Pc} (h : Inv cfg s) (hfree : s.lock = false)
    (hidle : s.pc a ≠ .idle) (hncs : ¬ InCS (s.pc a))
    (hp : (p = .csPush ∧ isPopLike (s.cur a) = false) ∨ (p = .csPop ∧ isPopLike (s.cur a) = true ∧ s.cnt a ≠ 0) ∨
          (p = .wChk ∧ isPopLike (s.cur a) = true ∧ s.cnt a ≠ 0) ∨ (p = .csRm ∧ isRemove (s.cur a) = true)) :
    Inv cfg (setPc (acquire s a) a p) := by
  have hon : s.owner = none ∨ s.owner = some a := by
    cases hsh : cfg.shared
    · exact Or.inr (h.privOwner hsh a hidle)
    · exact Or.inl (h.lockOwner hsh hfree)
  have hlag : s.lagF ≠ some a := by
    intro e; have := h.lagPc a e
    cases this with
    | inl e => exact hncs (by simp [e, InCS])
    | inr e => exact hncs (by simp [e, InCS])
  apply inv_update h (a := a)
  case opc | ocur | ocnt | opu | ogot | orc | ose | osa => intro b hb; simp [setPc, acquire, upd, hb]
  case hown =>
    intro b hb e; cases hon with
    | inl e' => rw [e'] at e; simp at e
    | inr e' => rw [e'] at e; exact absurd (Option.some.inj e).symm hb
  case hq => exact Or.inl rfl
  case hlag => exact Or.inl rfl
  case g1 => simp [setPc, acquire]
  case g2 => exact h.flagQ
  case g3 => exact h.lagQ
  case g4 => exact h.lin
  case g5 => exact h.inQ
  case a1 => simp [setPc, acquire]
  case a2 => simp [setPc, acquire]
  case a3 => rcases hp with hp | hp | hp | hp <;> simp [setPc, acquire, upd, hp.1]
  case a4 => simpa [setPc, acquire, upd] using fun e => absurd e hlag
  case a5 => rcases hp with hp | hp | hp | hp <;> simp [setPc, acquire, upd, hp.1]
  case a6 => rcases hp with hp | hp | hp | hp <;> simp [setPc, acquire, upd, hp.1]
  case a7 => exact h.rmNZ a
  case a8 => rcases hp with hp | hp | hp | hp <;> simp [setPc, acquire, upd, hp]
  case a9 => intro hpl _; exact h.cntGot a hpl hidle
  case a10 => rcases hp with hp | hp | hp | hp <;> simp_all [setPc, acquire, upd, Wanting]
  case a11 => rcases hp with hp | hp | hp | hp <;> simp [setPc, acquire, upd, hp.1]
  case a12 => rcases hp with hp | hp | hp | hp <;> simp [setPc, acquire, upd, hp.1]
  case a13 => rcases hp with hp | hp | hp | hp <;> simp [setPc, acquire, upd, hp.1]

/-- what `csEntry` needs from the state before the lock is taken -/
theorem entry_ok {cfg : Cfg} {s : St} {a : Actor} (h : Inv cfg s) (hw : Wanting (s.pc a)) :
    (csEntry cfg (s.cur a) = .csPush ∧ isPopLike (s.cur a) = false) ∨
    (csEntry cfg (s.cur a) = .csPop ∧ isPopLike (s.cur a) = true ∧ s.cnt a ≠ 0) ∨
    (csEntry cfg (s.cur a) = .wChk ∧ isPopLike (s.cur a) = true ∧ s.cnt a ≠ 0) ∨
    (csEntry cfg (s.cur a) = .csRm ∧ isRemove (s.cur a) = true) := by
  rcases csEntry_cases cfg (s.cur a) with e | e | e | e
  · exact Or.inl ⟨e.1, e.2.1⟩
  · exact Or.inr (Or.inl ⟨e.1, e.2, h.cntPos a e.2 hw⟩)
  · exact Or.inr (Or.inr (Or.inl ⟨e.1, e.2, h.cntPos a e.2 hw⟩))
  · exact Or.inr (Or.inr (Or.inr e))

/-- dropping the lock (clear / pthread_mutex_unlock / the unlock inside pthread_cond_timedwait) -/
theorem inv_release {cfg : Cfg} {s : St} {a : Actor} {p : Pc} (h : Inv cfg s) (hown : s.owner = some a)
    (hpc : s.pc a = .rel ∨ s.pc a = .wWait)
    (hp : p = .retp ∨ p = .wSleep ∨ (p = .wIdle ∧ s.cnt a ≠ 0))
    (hse : isPopLike (s.cur a) = true → (p = .retp ∨ p = .wIdle) → s.cnt a = 0 ∨ s.sawEmpty a = true)
    (hrs : isRemove (s.cur a) = true → p = .retp → s.rcOk a = true ∨ s.sawAbsent a = true)
    (hws : isPopLike (s.cur a) = true → p = .wSleep → s.cnt a ≠ 0) :
    Inv cfg (setPc (release cfg s) a p) := by
  have hidle : s.pc a ≠ .idle := by cases hpc with
    | inl e => simp [e]
    | inr e => simp [e]
  have hlag : s.lagF ≠ some a := by
    intro e; have := h.lagPc a e
    cases hpc with
    | inl e' => simp [e'] at this
    | inr e' => simp [e'] at this
  apply inv_update h (a := a)
  case opc | ocur | ocnt | opu | ogot | orc | ose | osa => intro b hb; simp [setPc, release, upd, hb]
  case hown => intro b hb e; rw [hown] at e; exact absurd (Option.some.inj e).symm hb
  case hq => exact Or.inl rfl
  case hlag => exact Or.inl rfl
  case g1 => intro hsh _; simp [setPc, release, hsh]
  case g2 => exact h.flagQ
  case g3 => exact h.lagQ
  case g4 => exact h.lin
  case g5 => exact h.inQ
  case a1 => rcases hp with hp | hp | hp <;> simp [setPc, release, upd, hp, InCS]
  case a2 => intro hsh _; simp [setPc, release, hsh, hown]
  case a3 => rcases hp with hp | hp | hp <;> simp [setPc, release, upd, hp]
  case a4 => simpa [setPc, release, upd] using fun e => absurd e hlag
  case a5 => rcases hp with hp | hp | hp <;> simp [setPc, release, upd, hp]
  case a6 => rcases hp with hp | hp | hp <;> simp [setPc, release, upd, hp]
  case a7 => exact h.rmNZ a
  case a8 => rcases hp with hp | hp | hp <;> simp [setPc, release, upd, hp]
  case a9 => intro hpl _; exact h.cntGot a hpl hidle
  case a10 =>
    intro hpl
    rcases hp with hp | hp | hp
    · simp [setPc, release, upd, hp, Wanting]
    · intro _; exact hws hpl hp
    · simp [setPc, release, upd, hp.1, Wanting, hp.2]
  case a11 => rcases hp with hp | hp | hp <;> simp [setPc, release, upd, hp]
  case a12 =>
    intro hpl; rcases hp with hp | hp | hp
    · simpa [setPc, release, upd, hp] using hse hpl (Or.inl hp)
    · simp [setPc, release, upd, hp]
    · simpa [setPc, release, upd, hp.1] using hse hpl (Or.inr hp.1)
  case a13 =>
    intro hr; rcases hp with hp | hp | hp
    · simpa [setPc, release, upd, hp] using hrs hr hp
    · simp [setPc, release, upd, hp]
    · simp [setPc, release, upd, hp.1]
end ArgoVerif.Model.PoolConc
