import ArgoVerif.Proofs.CondWl
namespace ArgoVerif.Model.Cond
open ArgoVerif
set_option maxHeartbeats 8000000

theorem cinv_wl_clearL (s s' : St) (a : Actor) (h : CInv s) (hs : stepWl s (.clearL a) = some s') : CInv s' := by
  simp only [stepWl, WaitList.step] at hs
  (repeat' (split at hs)) <;>
  (first
   | (cases hs; done)
   | (obtain ⟨w, hw, rfl⟩ := map_some hs
      have hwi := WaitList.inv_stepClearL s.wl w a h.wlInv hw
      unfold WaitList.stepClearL at hw
      (repeat' (split at hw)) <;>
      (first
       | (cases hw; done)
       | (cases hw; constructor; (first | exact hwi | (simp only [setC, afterAcquire, finishWait]; (repeat' split) <;> exact hwi)); all_goals wl_tac h hwi))))

theorem cinv_wl_enq (s s' : St) (a : Actor) (t : Bool) (h : CInv s) (hs : stepWl s (.enq a t) = some s') : CInv s' := by
  simp only [stepWl, WaitList.step] at hs
  (repeat' (split at hs)) <;>
  (first
   | (cases hs; done)
   | (obtain ⟨w, hw, rfl⟩ := map_some hs
      have hwi := WaitList.inv_stepEnq s.wl w a t h.wlInv hw
      unfold WaitList.stepEnq at hw
      cases t <;> cases hu : s.wl.isUlt a <;> simp only [hu] at hw <;> (repeat' (split at hw)) <;>
      (first
       | (cases hw; done)
       | (cases hw; constructor; (first | exact hwi | (simp only [setC, afterAcquire, finishWait]; (repeat' split) <;> exact hwi)); all_goals wl_tac h hwi))))

theorem cinv_wl_storeBlocked (s s' : St) (a : Actor) (h : CInv s) (hs : stepWl s (.storeBlocked a) = some s') : CInv s' := by
  simp only [stepWl, WaitList.step] at hs
  (repeat' (split at hs)) <;>
  (first
   | (cases hs; done)
   | (obtain ⟨w, hw, rfl⟩ := map_some hs
      have hwi := WaitList.inv_stepStoreBlocked s.wl w a h.wlInv hw
      unfold WaitList.stepStoreBlocked at hw
      (repeat' (split at hw)) <;>
      (first
       | (cases hw; done)
       | (cases hw; constructor; (first | exact hwi | (simp only [setC, afterAcquire, finishWait]; (repeat' split) <;> exact hwi)); all_goals wl_tac h hwi))))

end ArgoVerif.Model.Cond
