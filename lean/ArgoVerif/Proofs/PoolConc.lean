import ArgoVerif.Model.PoolConc
import ArgoVerif.Proofs.TQ
/- Proofs.PoolConc — the inductive invariant of the concurrent pool model and the helper lemmas about the
sequential deque specification (`specStep` / `specRun` of Proofs.TQ) that its preservation needs. -/
namespace ArgoVerif.Model.PoolConc
open ArgoVerif ArgoVerif.Model.TQ
set_option maxHeartbeats 1000000

/-- program counters between taking the lock and releasing it (private callbacks: between call and return) -/
def InCS : Pc → Prop
  | .csPush | .pub | .setIn | .sig | .csPop | .pubE | .clrIn | .csRm | .wChk | .wWait | .rel => True
  | _ => False

instance (p : Pc) : Decidable (InCS p) := by cases p <;> simp [InCS] <;> infer_instance

/-- program counters at which a pop-like call still wants a unit -/
def Wanting : Pc → Prop
  | .aTop | .aTry | .aSpinE | .aSpinL | .mLock | .fChk | .csPop | .wChk | .wWait | .wSleep | .wRelock | .wIdle
  | .sAcq | .sSpin => True
  | _ => False

def isRemove : Call → Bool
  | .remove _ => true
  | _ => false

/-- program counters only a push / push_many reaches -/
def PushPc : Pc → Prop
  | .pmCb | .csPush | .pub | .setIn | .sig => True
  | _ => False

/-- program counters only a pop / pop_many / pop_wait reaches -/
def PopPc : Pc → Prop
  | .aTop | .aTry | .aSpinE | .aSpinL | .fChk | .csPop | .wChk | .wWait | .wSleep | .wRelock | .wIdle => True
  | _ => False

/-- program counters only a remove reaches -/
def RmPc : Pc → Prop
  | .rChkE | .rChkIn | .csRm => True
  | _ => False

/-- the call in progress has the kind its program counter belongs to -/
def Typed (p : Pc) (c : Call) : Prop :=
  (PushPc p → isPopLike c = false ∧ isRemove c = false) ∧ (PopPc p → isPopLike c = true) ∧ (RmPc p → isRemove c = true)

structure Inv (cfg : Cfg) (s : St) : Prop where
  lockOwner : cfg.shared = true → s.lock = false → s.owner = none
  csOwner : ∀ a, InCS (s.pc a) → s.owner = some a
  privOwner : cfg.shared = false → ∀ a, s.pc a ≠ .idle → s.owner = some a
  flagQ : s.flag = true → s.q = []
  pubEQ : ∀ a, s.pc a = .pubE → s.q = []
  lagQ : s.flag = false → s.q = [] → s.lagF ≠ none
  lagPc : ∀ a, s.lagF = some a → s.pc a = .setIn ∨ s.pc a = .pubE
  pend : ∀ a, (s.pc a = .pub ∨ s.pc a = .setIn) → s.pu a ≠ 0 ∧ s.pu a ∉ s.q
  lin : specRun [] s.linOps = some (s.q, s.linOuts)
  inQ : ∀ u, u ∈ s.q → s.inPool u = true
  outQ : ∀ a, (s.pc a = .pubE ∨ s.pc a = .clrIn) → s.pu a ∉ s.q
  rmNZ : ∀ a, isRemove (s.cur a) = true → removeArg (s.cur a) ≠ 0
  typed : ∀ a, Typed (s.pc a) (s.cur a)
  cntGot : ∀ a, isPopLike (s.cur a) = true → s.pc a ≠ .idle → (s.got a).length + s.cnt a = wants (s.cur a)
  cntPos : ∀ a, isPopLike (s.cur a) = true → Wanting (s.pc a) → s.cnt a ≠ 0
  gotNE : ∀ a, isPopLike (s.cur a) = true → (s.pc a = .pubE ∨ s.pc a = .clrIn) → s.got a ≠ []
  emptySeen : ∀ a, isPopLike (s.cur a) = true → (s.pc a = .retp ∨ s.pc a = .rel ∨ s.pc a = .wIdle) →
    s.cnt a = 0 ∨ s.sawEmpty a = true
  rmSeen : ∀ a, isRemove (s.cur a) = true → (s.pc a = .retp ∨ s.pc a = .rel ∨ s.pc a = .pubE ∨ s.pc a = .clrIn) →
    s.rcOk a = true ∨ s.sawAbsent a = true
  setInFlag : ∀ a, s.pc a = .setIn → s.flag = false

theorem inv_init (cfg : Cfg) : Inv cfg init := by
  constructor <;> simp [init, InCS, Wanting, specRun, isPopLike, isRemove, Typed, PushPc, PopPc, RmPc]

/-! ### the deque specification: appending one operation to a history -/

theorem specRun_snoc {xs ys zs : List Nat} {ops : List Op} {os : List Out} {op : Op} {o : Out}
    (h : specRun xs ops = some (ys, os)) (hs : specStep ys op = some (zs, o)) :
    specRun xs (ops ++ [op]) = some (zs, os ++ [o]) := by
  induction ops generalizing xs os with
  | nil =>
    simp only [specRun, Option.some.injEq, Prod.mk.injEq] at h
    obtain ⟨rfl, rfl⟩ := h
    simp [specRun, hs]
  | cons op1 ops ih =>
    obtain ⟨xs1, o1, os', h1, h2, rfl⟩ := specRun_cons h
    have := ih h2
    simp [specRun, h1, this]

theorem good_nil : Good ([] : List Nat) := ⟨by simp, by simp⟩

theorem Inv.good {cfg : Cfg} {s : St} (h : Inv cfg s) : Good s.q := specRun_good good_nil h.lin

theorem spec_push {q : List Nat} {u : Nat} (h : Bool) (hu : u ≠ 0) (hq : u ∉ q) :
    specStep q (pushOp u h) = some (if h then u :: q else q ++ [u], .unit) := by
  cases h <;> simp [pushOp, specStep, hu, hq]

theorem spec_pop (q : List Nat) (tl : Bool) :
    specStep q (popOp tl) = some (takeRest q tl, .popped (takeUnit q tl)) := by
  cases tl <;> simp [popOp, specStep, takeRest, takeUnit]

theorem spec_remove_ok {q : List Nat} {u : Nat} (hu : u ≠ 0) (hq : u ∈ q) :
    specStep q (.remove u) = some (q.erase u, .rc .success) := by
  have : q ≠ [] := by intro e; simp [e] at hq
  simp [specStep, this, hu, hq]

theorem spec_remove_fail {q : List Nat} {u : Nat} (hu : u ≠ 0) (hq : q = [] ∨ u ∉ q) :
    specStep q (.remove u) = some (q, .rc .errPool) := by
  by_cases he : q = []
  · simp [specStep, he]
  · have : u ∉ q := by cases hq with
      | inl h => exact absurd h he
      | inr h => exact h
    simp [specStep, he, hu, this]

/-- the unit a pop selects is in the queue, and not in what is left (contents are duplicate-free) -/
theorem taken_not_in_rest {q : List Nat} (hg : Good q) (hne : q ≠ []) (tl : Bool) :
    takeUnit q tl ∉ takeRest q tl := by
  unfold takeUnit takeRest
  cases tl with
  | false =>
    cases q with
    | nil => exact absurd rfl hne
    | cons x r => simpa using (List.nodup_cons.mp hg.1).1
  | true =>
    have hsplit : q = q.dropLast ++ [q.getLast hne] := (List.dropLast_concat_getLast hne).symm
    have hl : q.getLast? = some (q.getLast hne) := List.getLast?_eq_some_getLast hne
    simp only [if_true, hl, Option.getD_some]
    intro hm
    have hnd := hg.1
    rw [hsplit] at hnd
    exact (List.nodup_append.mp hnd).2.2 _ hm (q.getLast hne) (by simp) rfl

theorem rest_subset {q : List Nat} (tl : Bool) {u : Nat} (h : u ∈ takeRest q tl) : u ∈ q := by
  unfold takeRest at h
  cases tl with
  | false => exact List.mem_of_mem_tail (by simpa using h)
  | true => exact List.dropLast_subset q (by simpa using h)

/-- **frame**: a step of actor `a` that only moves its program counter (and its own ghost observations) -/
theorem inv_frame {cfg : Cfg} {s s' : St} {a : Actor} {p : Pc} (h : Inv cfg s)
    (hpc : s'.pc = upd s.pc a p) (hq : s'.q = s.q) (hf : s'.flag = s.flag) (hl : s'.lock = s.lock) (ho : s'.owner = s.owner)
    (hin : s'.inPool = s.inPool) (hcur : s'.cur = s.cur) (hcnt : s'.cnt = s.cnt) (hpu : s'.pu = s.pu) (hgot : s'.got = s.got)
    (hlag : s'.lagF = s.lagF) (hops : s'.linOps = s.linOps) (houts : s'.linOuts = s.linOuts)
    (hse : ∀ b, b ≠ a → s'.sawEmpty b = s.sawEmpty b) (hsa : ∀ b, b ≠ a → s'.sawAbsent b = s.sawAbsent b)
    (hrc : ∀ b, b ≠ a → s'.rcOk b = s.rcOk b)
    (hnidle : s.pc a ≠ .idle)
    (c1 : InCS p → s.owner = some a)
    (c2 : p = .pubE → s.q = [])
    (c3 : s.lagF = some a → p = .setIn ∨ p = .pubE)
    (c4 : (p = .pub ∨ p = .setIn) → s.pu a ≠ 0 ∧ s.pu a ∉ s.q)
    (c5 : (p = .pubE ∨ p = .clrIn) → s.pu a ∉ s.q)
    (c6 : Typed p (s.cur a))
    (c7 : isPopLike (s.cur a) = true → Wanting p → s.cnt a ≠ 0)
    (c8 : isPopLike (s.cur a) = true → (p = .pubE ∨ p = .clrIn) → s.got a ≠ [])
    (c9 : isPopLike (s.cur a) = true → (p = .retp ∨ p = .rel ∨ p = .wIdle) → s.cnt a = 0 ∨ s'.sawEmpty a = true)
    (c10 : isRemove (s.cur a) = true → (p = .retp ∨ p = .rel ∨ p = .pubE ∨ p = .clrIn) → s'.rcOk a = true ∨ s'.sawAbsent a = true)
    (c11 : p = .setIn → s.flag = false) :
    Inv cfg s' := by
  constructor
  · rw [hl, ho]; exact h.lockOwner
  · intro b; rw [hpc, ho]; by_cases hb : b = a
    · subst hb; simpa using c1
    · simpa [upd, hb] using h.csOwner b
  · intro hp b; rw [hpc, ho]; by_cases hb : b = a
    · subst hb; intro _; exact h.privOwner hp b hnidle
    · simpa [upd, hb] using h.privOwner hp b
  · rw [hf, hq]; exact h.flagQ
  · intro b; rw [hpc, hq]; by_cases hb : b = a
    · subst hb; simpa using c2
    · simpa [upd, hb] using h.pubEQ b
  · rw [hf, hq, hlag]; exact h.lagQ
  · intro b; rw [hpc, hlag]; by_cases hb : b = a
    · subst hb; simpa using c3
    · simpa [upd, hb] using h.lagPc b
  · intro b; rw [hpc, hq, hpu]; by_cases hb : b = a
    · subst hb; simpa using c4
    · simpa [upd, hb] using h.pend b
  · rw [hops, hq, houts]; exact h.lin
  · rw [hq, hin]; exact h.inQ
  · intro b; rw [hpc, hq, hpu]; by_cases hb : b = a
    · subst hb; simpa using c5
    · simpa [upd, hb] using h.outQ b
  · rw [hcur]; exact h.rmNZ
  · intro b; rw [hpc, hcur]; by_cases hb : b = a
    · subst hb; simpa using c6
    · simpa [upd, hb] using h.typed b
  · intro b; rw [hpc, hcur, hgot, hcnt]; by_cases hb : b = a
    · subst hb; intro hp _; exact h.cntGot b hp hnidle
    · simpa [upd, hb] using h.cntGot b
  · intro b; rw [hpc, hcur, hcnt]; by_cases hb : b = a
    · subst hb; simpa using c7
    · simpa [upd, hb] using h.cntPos b
  · intro b; rw [hpc, hcur, hgot]; by_cases hb : b = a
    · subst hb; simpa using c8
    · simpa [upd, hb] using h.gotNE b
  · intro b; rw [hpc, hcur, hcnt]; by_cases hb : b = a
    · subst hb; simpa using c9
    · rw [hse b hb]; simpa [upd, hb] using h.emptySeen b
  · intro b; rw [hpc, hcur]; by_cases hb : b = a
    · subst hb; simpa using c10
    · rw [hsa b hb, hrc b hb]; simpa [upd, hb] using h.rmSeen b
  · intro b; rw [hpc, hf]; by_cases hb : b = a
    · subst hb; simpa using c11
    · simpa [upd, hb] using h.setInFlag b
/-- **one actor steps**: every other actor's private state is untouched, the shared ring state changes only if the
stepping actor owns the lock; then it suffices to re-establish the global clauses and the clauses of that actor -/
theorem inv_update {cfg : Cfg} {s s' : St} {a : Actor} (h : Inv cfg s)
    (opc : ∀ b, b ≠ a → s'.pc b = s.pc b) (ocur : ∀ b, b ≠ a → s'.cur b = s.cur b) (ocnt : ∀ b, b ≠ a → s'.cnt b = s.cnt b)
    (opu : ∀ b, b ≠ a → s'.pu b = s.pu b) (ogot : ∀ b, b ≠ a → s'.got b = s.got b) (orc : ∀ b, b ≠ a → s'.rcOk b = s.rcOk b)
    (ose : ∀ b, b ≠ a → s'.sawEmpty b = s.sawEmpty b) (osa : ∀ b, b ≠ a → s'.sawAbsent b = s.sawAbsent b)
    (hown : ∀ b, b ≠ a → s.owner = some b → s'.owner = some b)
    (hq : s'.q = s.q ∨ s.owner = some a)
    (hlag : s'.lagF = s.lagF ∨ (s.owner = some a ∧ (s'.lagF = none ∨ s'.lagF = some a)))
    (hflag : s'.flag = s.flag ∨ s.owner = some a)
    (g1 : cfg.shared = true → s'.lock = false → s'.owner = none)
    (g2 : s'.flag = true → s'.q = [])
    (g3 : s'.flag = false → s'.q = [] → s'.lagF ≠ none)
    (g4 : specRun [] s'.linOps = some (s'.q, s'.linOuts))
    (g5 : ∀ u, u ∈ s'.q → s'.inPool u = true)
    (a1 : InCS (s'.pc a) → s'.owner = some a)
    (a2 : cfg.shared = false → s'.pc a ≠ .idle → s'.owner = some a)
    (a3 : s'.pc a = .pubE → s'.q = [])
    (a4 : s'.lagF = some a → s'.pc a = .setIn ∨ s'.pc a = .pubE)
    (a5 : (s'.pc a = .pub ∨ s'.pc a = .setIn) → s'.pu a ≠ 0 ∧ s'.pu a ∉ s'.q)
    (a6 : (s'.pc a = .pubE ∨ s'.pc a = .clrIn) → s'.pu a ∉ s'.q)
    (a7 : isRemove (s'.cur a) = true → removeArg (s'.cur a) ≠ 0)
    (a8 : Typed (s'.pc a) (s'.cur a))
    (a9 : isPopLike (s'.cur a) = true → s'.pc a ≠ .idle → (s'.got a).length + s'.cnt a = wants (s'.cur a))
    (a10 : isPopLike (s'.cur a) = true → Wanting (s'.pc a) → s'.cnt a ≠ 0)
    (a11 : isPopLike (s'.cur a) = true → (s'.pc a = .pubE ∨ s'.pc a = .clrIn) → s'.got a ≠ [])
    (a12 : isPopLike (s'.cur a) = true → (s'.pc a = .retp ∨ s'.pc a = .rel ∨ s'.pc a = .wIdle) → s'.cnt a = 0 ∨ s'.sawEmpty a = true)
    (a13 : isRemove (s'.cur a) = true → (s'.pc a = .retp ∨ s'.pc a = .rel ∨ s'.pc a = .pubE ∨ s'.pc a = .clrIn) →
      s'.rcOk a = true ∨ s'.sawAbsent a = true)
    (a14 : s'.pc a = .setIn → s'.flag = false) :
    Inv cfg s' := by
  -- another actor inside the critical section excludes a change of the ring by `a`
  have qsame : ∀ b, b ≠ a → InCS (s.pc b) → s'.q = s.q := by
    intro b hb hcs
    cases hq with
    | inl e => exact e
    | inr e => have := h.csOwner b hcs; rw [e] at this; exact absurd (Option.some.inj this).symm hb
  constructor
  · exact g1
  · intro b; by_cases hb : b = a
    · subst hb; exact a1
    · rw [opc b hb]; intro hc; exact hown b hb (h.csOwner b hc)
  · intro hp b; by_cases hb : b = a
    · subst hb; exact a2 hp
    · rw [opc b hb]; intro hc; exact hown b hb (h.privOwner hp b hc)
  · exact g2
  · intro b; by_cases hb : b = a
    · subst hb; exact a3
    · rw [opc b hb]; intro hc; rw [qsame b hb (by simp [hc, InCS])]; exact h.pubEQ b hc
  · exact g3
  · intro b; by_cases hb : b = a
    · subst hb; exact a4
    · rw [opc b hb]; intro hc
      cases hlag with
      | inl e => rw [e] at hc; exact h.lagPc b hc
      | inr e =>
        cases e.2 with
        | inl e2 => rw [e2] at hc; simp at hc
        | inr e2 => rw [e2] at hc; exact absurd (Option.some.inj hc).symm hb
  · intro b; by_cases hb : b = a
    · subst hb; exact a5
    · rw [opc b hb, opu b hb]; intro hc
      have : InCS (s.pc b) := by cases hc with
        | inl e => simp [e, InCS]
        | inr e => simp [e, InCS]
      rw [qsame b hb this]; exact h.pend b hc
  · exact g4
  · exact g5
  · intro b; by_cases hb : b = a
    · subst hb; exact a6
    · rw [opc b hb, opu b hb]; intro hc
      have : InCS (s.pc b) := by cases hc with
        | inl e => simp [e, InCS]
        | inr e => simp [e, InCS]
      rw [qsame b hb this]; exact h.outQ b hc
  · intro b; by_cases hb : b = a
    · subst hb; exact a7
    · rw [ocur b hb]; exact h.rmNZ b
  · intro b; by_cases hb : b = a
    · subst hb; exact a8
    · rw [opc b hb, ocur b hb]; exact h.typed b
  · intro b; by_cases hb : b = a
    · subst hb; exact a9
    · rw [opc b hb, ocur b hb, ogot b hb, ocnt b hb]; exact h.cntGot b
  · intro b; by_cases hb : b = a
    · subst hb; exact a10
    · rw [opc b hb, ocur b hb, ocnt b hb]; exact h.cntPos b
  · intro b; by_cases hb : b = a
    · subst hb; exact a11
    · rw [opc b hb, ocur b hb, ogot b hb]; exact h.gotNE b
  · intro b; by_cases hb : b = a
    · subst hb; exact a12
    · rw [opc b hb, ocur b hb, ocnt b hb, ose b hb]; exact h.emptySeen b
  · intro b; by_cases hb : b = a
    · subst hb; exact a13
    · rw [opc b hb, ocur b hb, orc b hb, osa b hb]; exact h.rmSeen b
  · intro b; by_cases hb : b = a
    · subst hb; exact a14
    · rw [opc b hb]; intro hc
      cases hflag with
      | inl e => rw [e]; exact h.setInFlag b hc
      | inr e =>
        have := h.csOwner b (by simp [hc, InCS]); rw [e] at this
        exact absurd (Option.some.inj this).symm hb

/-- bring every invariant clause of actor `a` into the context -/
macro "facts " h:ident a:ident : tactic => `(tactic| (
  have := Inv.csOwner $h $a; have := Inv.lagPc $h $a; have := Inv.pend $h $a; have := Inv.outQ $h $a
  have := Inv.typed $h $a; have := Inv.cntGot $h $a; have := Inv.cntPos $h $a; have := Inv.gotNE $h $a
  have := Inv.emptySeen $h $a; have := Inv.rmSeen $h $a; have := Inv.pubEQ $h $a; have := Inv.rmNZ $h $a
  have := Inv.lockOwner $h; have := Inv.privOwner $h; have := Inv.flagQ $h; have := Inv.lagQ $h
  have := Inv.setInFlag $h $a))


theorem poplike_not_remove {c : Call} (h : isPopLike c = true) : isRemove c = false := by
  cases c <;> simp_all [isRemove, isPopLike]

theorem remove_not_poplike {c : Call} (h : isRemove c = true) : isPopLike c = false := by
  cases c <;> simp_all [isRemove, isPopLike]

end ArgoVerif.Model.PoolConc
