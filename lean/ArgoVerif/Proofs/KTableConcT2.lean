import ArgoVerif.Proofs.KTableConcT
/-
Proofs.KTableConcT2 — the steps that change the table (allocation, value store, publish).
-/
namespace ArgoVerif.Model.KTableConc
open ArgoVerif ArgoVerif.Model.KTable

theorem getLast?_append_one (l : List Val) (v : Val) : (l ++ [v]).getLast? = some v := by simp

theorem getElem?_append_stable (l : List Val) (v r : Val) (i : Nat) (h : l[i]? = some r) :
    (l ++ [v])[i]? = some r := by
  rw [List.getElem?_append_left (lt_of_getElem?_some l i r h)]; exact h

/-- history clauses after appending `v` to the history of key id `k` -/
theorem hist_frame (c : Cfg) (s : St) (k : Nat) (v : Val) (h : TInv c s) (pcs : Actor → Pc)
    (hsame : ∀ a kid h0, getH0 (pcs a) = some (kid, h0) → getH0 (s.pc a) = some (kid, h0))
    (hret : ∀ a kid h0 r hr, pcs a = .gret kid h0 r hr → s.pc a = .gret kid h0 r hr) :
    (∀ a kid h0, getH0 (pcs a) = some (kid, h0) → h0 ≤ (upd s.hist k (s.hist k ++ [v]) kid).length) ∧
    (∀ a kid h0 r hr, pcs a = .gret kid h0 r hr →
      (hr = 0 ∧ r = 0 ∧ h0 = 0) ∨ (h0 ≤ hr ∧ 1 ≤ hr ∧ (upd s.hist k (s.hist k ++ [v]) kid)[hr - 1]? = some r)) := by
  constructor
  · intro a kid h0 hg
    have := h.gh0 a kid h0 (hsame a kid h0 hg)
    simp only [upd]; split
    · next hk => subst hk; simp; omega
    · exact this
  · intro a kid h0 r hr hg
    rcases h.gret a kid h0 r hr (hret a kid h0 r hr hg) with h1 | ⟨h1, h2, h3⟩
    · exact Or.inl h1
    · right
      refine ⟨h1, h2, ?_⟩
      simp only [upd]; split
      · next hk => subst hk; exact getElem?_append_stable _ _ _ _ h3
      · exact h3

theorem tinv_alloc (c : Cfg) (s : St) (a : Actor) (k : Key) (v : Val) (sf : Bool) (j : Nat) (tb : Table) (blk : Nat)
    (h : TInv c s) (hpc : s.pc a = .lwalk k v sf j) (hnone : (chain c s k.id)[j]? = none)
    (ha : allocElem c.g s.tbl true = some (tb, blk)) :
    TInv c { s with tbl := tb, pc := upd s.pc a (.pub k v sf j blk) } := by
  obtain ⟨hb, hsz⟩ := allocElem_b _ _ _ _ _ ha
  have hks : ∀ kid, ks c tb kid = ks c s.tbl kid := by intro kid; simp [ks, hb]
  have hsc := h.scan a k.id j (by rw [hpc]; rfl)
  have hnone' : (ks c s.tbl k.id)[j]? = none := by simp [ks_chain, List.getElem?_map, hnone]
  have hnot : k.id ∉ ks c s.tbl k.id := mem_of_getElem?_none_prefix _ j _ hnone' hsc.2
  have hlen : j = (ks c s.tbl k.id).length := by
    have : (ks c s.tbl k.id).length ≤ j := by
      rcases Nat.lt_or_ge j (ks c s.tbl k.id).length with hh | hh
      · rw [List.getElem?_eq_getElem hh] at hnone'; cases hnone'
      · exact hh
    omega
  have hkd := h.kdt a k (by rw [hpc]; rfl)
  have hp : ∀ a', a' ≠ a → upd s.pc a (.pub k v sf j blk) a' = s.pc a' := by intro a' h'; simp [upd, h']
  constructor
  · show tb.size = c.size; rw [hsz]; exact h.size
  · intro i e he; exact h.idx i e (by rw [← hb]; exact he)
  · intro i; show ((tb.b i).map _).Nodup; rw [hb]; exact h.nodup i
  · intro i e he; exact h.dtor i e (by rw [← hb]; exact he)
  · intro i e he; exact h.hval i e (by rw [← hb]; exact he)
  · intro k' hk'; exact h.habs k' (by rw [← hks]; exact hk')
  · intro a' k' hk
    by_cases ha' : a' = a
    · subst ha'; simp only [upd_same, keyOfPc, Option.some.injEq] at hk; subst hk; exact hkd
    · simp only [hp a' ha'] at hk; exact h.kdt a' k' hk
  · intro a' kid j' hk
    show _ ≤ (ks c tb kid).length ∧ ∀ i, i < j' → (ks c tb kid)[i]? ≠ _
    rw [hks]
    by_cases ha' : a' = a
    · subst ha'; simp [upd_same, scanOf] at hk
    · simp only [hp a' ha'] at hk; exact h.scan a' kid j' hk
  · intro a' kid j' hk
    show _ = (ks c tb kid).length ∧ _ ∉ ks c tb kid
    rw [hks]
    by_cases ha' : a' = a
    · subst ha'; simp only [upd_same, pubOf, Option.some.injEq, Prod.mk.injEq] at hk
      obtain ⟨h1, h2⟩ := hk; subst h1; subst h2; exact ⟨hlen, hnot⟩
    · simp only [hp a' ha'] at hk; exact h.pubc a' kid j' hk
  · intro a' kid j' hk
    show (ks c tb kid)[j']? = _
    rw [hks]
    by_cases ha' : a' = a
    · subst ha'; simp [upd_same, foundOf] at hk
    · simp only [hp a' ha'] at hk; exact h.found a' kid j' hk
  · intro a' kid h0 hk
    by_cases ha' : a' = a
    · subst ha'; simp [upd_same, getH0] at hk
    · simp only [hp a' ha'] at hk; exact h.gh0 a' kid h0 hk
  · intro a' kid h0 r hr hk
    by_cases ha' : a' = a
    · subst ha'; simp [upd_same] at hk
    · simp only [hp a' ha'] at hk; exact h.gret a' kid h0 r hr hk

/-- `p_elem->value = value` on element `j` (no lock held) -/
theorem tinv_storeVal (c : Cfg) (s : St) (a : Actor) (k : Key) (v : Val) (j : Nat) (e : Elem) (h : TInv c s)
    (hpc : s.pc a = .found k v j) (hj : (chain c s k.id)[j]? = some e) :
    TInv c { s with tbl := setChain c s k.id ((chain c s k.id).set j { e with val := v }),
                    hist := upd s.hist k.id (s.hist k.id ++ [v]), pc := upd s.pc a (.setDone true) } := by
  have hfd : (ks c s.tbl k.id)[j]? = some k.id := h.found a k.id j (by rw [hpc]; rfl)
  have hek : e.keyId = k.id := by
    have := getElem?_map_keyId _ j e hj
    rw [ks_chain, this] at hfd; simpa using hfd
  have hkeys : ((chain c s k.id).set j { e with val := v }).map (·.keyId) = ks c s.tbl k.id := set_val_keys _ j e _ hj
  have hks : ∀ kid, ks c (setChain c s k.id ((chain c s k.id).set j { e with val := v })) kid = ks c s.tbl kid := by
    intro kid
    rw [ks_setChain]
    split
    · next hb => rw [hkeys]; simp only [ks, hb]
    · rfl
  have helem : ∀ i x, x ∈ (setChain c s k.id ((chain c s k.id).set j { e with val := v })).b i →
      (x = { e with val := v } ∧ i = idx c.size k.id) ∨ (x ∈ s.tbl.b i ∧ x.keyId ≠ k.id) := by
    intro i x hx
    simp only [setChain, updB] at hx
    split at hx
    · next hi =>
      rcases mem_set_cases _ _ _ _ hx with h1 | ⟨i', hne, hi'⟩
      · exact Or.inl ⟨h1, hi⟩
      · right
        refine ⟨hi ▸ List.mem_of_getElem? hi', ?_⟩
        rw [← hek]
        exact nodup_keys_ne _ (h.nodup _) i' j x e hi' hj hne
    · next hi =>
      right
      refine ⟨hx, ?_⟩
      intro hk
      have := h.idx i x hx
      rw [hk] at this
      exact hi this.symm
  have hp : ∀ a', a' ≠ a → upd s.pc a (.setDone true) a' = s.pc a' := by intro a' h'; simp [upd, h']
  have hh := hist_frame c s k.id v h (upd s.pc a (.setDone true))
    (by intro a' kid h0 hg
        by_cases ha' : a' = a
        · subst ha'; simp [upd_same, getH0] at hg
        · rw [hp a' ha'] at hg; exact hg)
    (by intro a' kid h0 r hr hg
        by_cases ha' : a' = a
        · subst ha'; simp [upd_same] at hg
        · rw [hp a' ha'] at hg; exact hg)
  constructor
  · exact h.size
  · intro i x hx
    rcases helem i x hx with ⟨h1, hi⟩ | ⟨h1, _⟩
    · subst h1; subst hi; simp only; rw [hek]
    · exact h.idx i x h1
  · intro i
    simp only [setChain, updB]
    split
    · rw [hkeys]; exact h.nodup _
    · exact h.nodup i
  · intro i x hx
    rcases helem i x hx with ⟨h1, hi⟩ | ⟨h1, _⟩
    · subst h1; exact h.dtor _ e (List.mem_of_getElem? hj)
    · exact h.dtor i x h1
  · intro i x hx
    rcases helem i x hx with ⟨h1, hi⟩ | ⟨h1, hne⟩
    · subst h1; simp only [hek, upd_same]; exact getLast?_append_one _ _
    · simp only [upd, hne, if_false]; exact h.hval i x h1
  · intro k' hk'
    have hmem : k.id ∈ ks c s.tbl k.id := List.mem_iff_getElem?.mpr ⟨j, hfd⟩
    simp only [upd]
    split
    · next hkk => subst hkk; exact absurd (by rw [hks]; exact hmem) hk'
    · exact h.habs k' (by rw [← hks]; exact hk')
  · intro a' k' hk
    by_cases ha' : a' = a
    · subst ha'; simp [upd_same, keyOfPc] at hk
    · simp only [hp a' ha'] at hk; exact h.kdt a' k' hk
  · intro a' kid j' hk
    show _ ≤ (ks c (setChain c s k.id _) kid).length ∧ ∀ i, i < j' → (ks c (setChain c s k.id _) kid)[i]? ≠ _
    rw [hks]
    by_cases ha' : a' = a
    · subst ha'; simp [upd_same, scanOf] at hk
    · simp only [hp a' ha'] at hk; exact h.scan a' kid j' hk
  · intro a' kid j' hk
    show _ = (ks c (setChain c s k.id _) kid).length ∧ _ ∉ ks c (setChain c s k.id _) kid
    rw [hks]
    by_cases ha' : a' = a
    · subst ha'; simp [upd_same, pubOf] at hk
    · simp only [hp a' ha'] at hk; exact h.pubc a' kid j' hk
  · intro a' kid j' hk
    show (ks c (setChain c s k.id _) kid)[j']? = _
    rw [hks]
    by_cases ha' : a' = a
    · subst ha'; simp [upd_same, foundOf] at hk
    · simp only [hp a' ha'] at hk; exact h.found a' kid j' hk
  · exact hh.1
  · exact hh.2

/-- the release-store that links the new element at (what the actor believes is) the tail -/
theorem tinv_publish (c : Cfg) (s : St) (a : Actor) (k : Key) (v : Val) (sf : Bool) (j blk : Nat) (pc' : Pc)
    (hp : PInv s) (h : TInv c s) (hpc : s.pc a = .pub k v sf j blk)
    (hpc' : pc' = .unlock ∨ pc' = .setDone true) :
    TInv c { s with tbl := setChain c s k.id ((chain c s k.id).take j ++ [mkElem k v blk]),
                    hist := upd s.hist k.id (s.hist k.id ++ [v]), pc := upd s.pc a pc' } := by
  obtain ⟨hjl, hnot⟩ := h.pubc a k.id j (by rw [hpc]; rfl)
  have htake : (chain c s k.id).take j = chain c s k.id := by
    apply List.take_of_length_le
    rw [hjl, ks_chain, List.length_map]; exact Nat.le_refl _
  rw [htake]
  have hkd := h.kdt a k (by rw [hpc]; rfl)
  have hks : ∀ kid, ks c (setChain c s k.id (chain c s k.id ++ [mkElem k v blk])) kid =
      if idx c.size kid = idx c.size k.id then ks c s.tbl kid ++ [k.id] else ks c s.tbl kid := by
    intro kid
    rw [ks_setChain]
    split
    · next hb => simp [ks, chain, mkElem, hb]
    · rfl
  have helem : ∀ i x, x ∈ (setChain c s k.id (chain c s k.id ++ [mkElem k v blk])).b i →
      (x = mkElem k v blk ∧ i = idx c.size k.id) ∨ (x ∈ s.tbl.b i ∧ x.keyId ≠ k.id) := by
    intro i x hx
    simp only [setChain, updB] at hx
    split at hx
    · next hi =>
      simp only [List.mem_append, List.mem_singleton] at hx
      rcases hx with hx | hx
      · right
        refine ⟨hi ▸ hx, ?_⟩
        intro hk
        apply hnot
        simp only [ks_chain, List.mem_map]
        exact ⟨x, hx, hk⟩
      · exact Or.inl ⟨hx, hi⟩
    · next hi =>
      right
      refine ⟨hx, ?_⟩
      intro hk
      have := h.idx i x hx
      rw [hk] at this
      exact hi this.symm
  have hpo : ∀ a', a' ≠ a → upd s.pc a pc' a' = s.pc a' := by intro a' h'; simp [upd, h']
  have hpcs : scanOf pc' = none ∧ pubOf pc' = none ∧ foundOf pc' = none ∧ keyOfPc pc' = none ∧ getH0 pc' = none ∧
      ∀ kid h0 r hr, pc' ≠ .gret kid h0 r hr := by
    rcases hpc' with h1 | h1 <;> subst h1 <;> simp [scanOf, pubOf, foundOf, keyOfPc, getH0]
  have hh := hist_frame c s k.id v h (upd s.pc a pc')
    (by intro a' kid h0 hg
        by_cases ha' : a' = a
        · subst ha'; simp [upd_same, hpcs.2.2.2.2.1] at hg
        · rw [hpo a' ha'] at hg; exact hg)
    (by intro a' kid h0 r hr hg
        by_cases ha' : a' = a
        · subst ha'; simp only [upd_same] at hg; exact absurd hg (hpcs.2.2.2.2.2 kid h0 r hr)
        · rw [hpo a' ha'] at hg; exact hg)
  constructor
  · exact h.size
  · intro i x hx
    rcases helem i x hx with ⟨h1, hi⟩ | ⟨h1, _⟩
    · subst h1; subst hi; rfl
    · exact h.idx i x h1
  · intro i
    simp only [setChain, updB]
    split
    · next hi =>
      simp only [List.map_append, List.map_cons, List.map_nil]
      rw [List.nodup_append]
      refine ⟨h.nodup _, by simp, ?_⟩
      intro x hx y hy
      simp only [List.mem_singleton] at hy
      subst hy
      intro hxy; subst hxy
      exact hnot hx
    · exact h.nodup i
  · intro i x hx
    rcases helem i x hx with ⟨h1, hi⟩ | ⟨h1, _⟩
    · subst h1; exact hkd
    · exact h.dtor i x h1
  · intro i x hx
    rcases helem i x hx with ⟨h1, hi⟩ | ⟨h1, hne⟩
    · subst h1; simp only [mkElem, upd_same]; exact getLast?_append_one _ _
    · simp only [upd, hne, if_false]; exact h.hval i x h1
  · intro k' hk'
    rw [hks] at hk'
    simp only [upd]
    split
    · next hkk => subst hkk; simp at hk'
    · next hkk =>
      apply h.habs k'
      split at hk'
      · intro hm; exact hk' (by simp [hm])
      · exact hk'
  · intro a' k' hk
    by_cases ha' : a' = a
    · subst ha'; simp [upd_same, hpcs.2.2.2.1] at hk
    · simp only [hpo a' ha'] at hk; exact h.kdt a' k' hk
  · intro a' kid j' hk
    show _ ≤ (ks c (setChain c s k.id _) kid).length ∧ ∀ i, i < j' → (ks c (setChain c s k.id _) kid)[i]? ≠ _
    rw [hks]
    by_cases ha' : a' = a
    · subst ha'; simp [upd_same, hpcs.1] at hk
    · simp only [hpo a' ha'] at hk
      have := h.scan a' kid j' hk
      split
      · refine ⟨by simp; omega, ?_⟩
        intro i hi
        rw [List.getElem?_append_left (by omega)]
        exact this.2 i hi
      · exact this
  · intro a' kid j' hk
    by_cases ha' : a' = a
    · subst ha'; simp [upd_same, hpcs.2.1] at hk
    · simp only [hpo a' ha'] at hk
      exact absurd (pub_unique s hp a' a _ _ hk (by rw [hpc]; rfl)) ha'
  · intro a' kid j' hk
    show (ks c (setChain c s k.id _) kid)[j']? = _
    rw [hks]
    by_cases ha' : a' = a
    · subst ha'; simp [upd_same, hpcs.2.2.1] at hk
    · simp only [hpo a' ha'] at hk
      have := h.found a' kid j' hk
      split
      · rw [List.getElem?_append_left (lt_of_getElem?_some _ _ _ this)]; exact this
      · exact this
  · exact hh.1
  · exact hh.2

end ArgoVerif.Model.KTableConc
