import ArgoVerif.Proofs.RankConc2
/-
Proofs.RankConc3 — every event of Model.RankConc preserves the invariant; every step is a
stutter or exactly one atomic Model.Rank call of the acting actor (forward simulation).
-/
namespace ArgoVerif.Model.RankConc
open ArgoVerif ArgoVerif.Model.Rank

/-- what one event does to the abstract (atomic) run -/
inductive Sim (s s' : St) : Prop where
  | stutter (hg : s'.g = s.g) (hh : s'.hist = s.hist)
  | lin (a : Actor) (o : Out) (hpre : preLin (s.pc a) = true) (hpost : postLin (s'.pc a) = true)
      (hst : Rank.step s.g (s.op a) = some (s'.g, o))
      (hh : s'.hist = s.hist ++ [(s.op a, o)]) (hres : s'.res a = o)
      (hlk : s.lock = some a ∨ (lockFree s.g (s.op a) = true ∧ s'.g = s.g))

theorem sim_linearize (s : St) (a : Actor) (g' : G) (o : Out) (np : Pc)
    (hpl : preLin (s.pc a) = true) (hnp : postLin np = true)
    (hst : Rank.step s.g (s.op a) = some (g', o))
    (hlk : s.lock = some a ∨ (lockFree s.g (s.op a) = true ∧ g' = s.g)) :
    Sim s (linearize s a g' o np) :=
  .lin a o hpl (by simp [linearize, hnp]) hst rfl (by simp [linearize]) hlk

/-- `running` is not mentioned by the invariant -/
theorem Inv.running_irrel {s : St} (h : Inv s) (r : Ptr → Bool) : Inv { s with running := r } :=
  ⟨h.wf, h.hist, h.act, h.excl, h.own, h.alw, h.pre, h.need, h.chk, h.lin⟩

theorem Sim.running_irrel {s s' : St} (h : Sim s s') (r : Ptr → Bool) : Sim s { s' with running := r } := by
  cases h with
  | stutter hg hh => exact .stutter hg hh
  | lin a o h1 h2 h3 h4 h5 h6 => exact .lin a o h1 h2 h3 h4 h5 h6

theorem afterPre_cases (op : Op) : afterPre op = .want ∨ afterPre op = .joining := by
  cases op <;> simp [afterPre]

theorem call_inv (s s' : St) (a : Actor) (op : Op) (h : Inv s) (hs : stepCall s a op = some s') :
    Inv s' ∧ Sim s s' := by
  unfold stepCall at hs
  split at hs
  · rename_i hc
    obtain ⟨hidle, hal, hpre, hfresh⟩ := hc
    simp only [Option.some.injEq] at hs
    subst hs
    refine ⟨?_, .stutter rfl rfl⟩
    have hothers : ∀ y, y ≠ a → s.pc y ≠ .idle → target op ≠ 0 → target (s.op y) ≠ target op := by
      intro y _ hy ht
      rcases hfresh with h0 | hall
      · exact absurd h0 ht
      · have hy' := (h.act y).mp hy
        have := List.all_eq_true.mp hall y hy'
        simpa using this
    refine ⟨h.wf, h.hist, ?_, ?_, ?_, ?_, ?_, ?_, ?_, ?_⟩
    · intro b
      show (upd s.pc a .start) b ≠ .idle ↔ b ∈ a :: s.active
      by_cases hb : b = a
      · subst hb; simp
      · simp only [upd, hb, if_false, List.mem_cons, false_or]; exact h.act b
    · intro x y hxy hx hy ht
      have hx' : (upd s.pc a .start) x ≠ .idle := hx
      have hy' : (upd s.pc a .start) y ≠ .idle := hy
      have ht' : target ((upd s.op a op) x) ≠ 0 := ht
      show target ((upd s.op a op) x) ≠ target ((upd s.op a op) y)
      by_cases hxa : x = a
      · subst hxa
        have hya : y ≠ x := fun e => hxy e.symm
        simp only [upd_same] at ht' ⊢
        simp only [upd, hya, if_false] at hy' ⊢
        exact fun e => hothers y hya hy' ht' e.symm
      · simp only [upd, hxa, if_false] at hx' ht' ⊢
        by_cases hya : y = a
        · subst hya
          simp only [if_true]
          by_cases ht0 : target op = 0
          · rw [ht0]; exact ht'
          · exact hothers x hxa hx' ht0
        · simp only [upd, hya, if_false] at hy' ⊢
          exact h.excl x y hxy hx' hy' ht'
    · intro b
      show s.lock = some b ↔ inCrit ((upd s.pc a .start) b) = true
      by_cases hb : b = a
      · subst hb
        have := h.own b
        rw [hidle] at this
        simp only [upd_same]
        simpa [inCrit] using this
      · simp only [upd, hb, if_false]; exact h.own b
    · intro b hb
      have hb' : (upd s.pc a .start) b ≠ .idle := hb
      show allowed ((upd s.op a op) b) = true
      by_cases hba : b = a
      · subst hba; simpa using hal
      · simp only [upd, hba, if_false] at hb' ⊢; exact h.alw b hb'
    · intro b hb
      have hb' : preLin ((upd s.pc a .start) b) = true := hb
      show Pre s.g ((upd s.op a op) b) = true
      by_cases hba : b = a
      · subst hba; simpa using hpre
      · simp only [upd, hba, if_false] at hb' ⊢; exact h.pre b hb'
    · intro b hb
      have hb' : wantsLock ((upd s.pc a .start) b) = true := hb
      show lockFree s.g ((upd s.op a op) b) = false
      by_cases hba : b = a
      · subst hba; simp [wantsLock] at hb'
      · simp only [upd, hba, if_false] at hb' ⊢; exact h.need b hb'
    · intro b hb
      have hb' : (upd s.pc a .start) b = .chkOk := hb
      show ChkFact s.g ((upd s.op a op) b) (s.loc b)
      by_cases hba : b = a
      · subst hba; simp at hb'
      · simp only [upd, hba, if_false] at hb' ⊢; exact h.chk b hb'
    · intro b hb
      have hb' : postLin ((upd s.pc a .start) b) = true := hb
      show ((upd s.op a op) b, s.res b) ∈ s.hist
      by_cases hba : b = a
      · subst hba; simp [postLin] at hb'
      · simp only [upd, hba, if_false] at hb' ⊢; exact h.lin b hb'
  · simp at hs

theorem own_of_not_crit {s : St} (h : Inv s) {a : Actor} (np : Pc) (hc : inCrit (s.pc a) = false)
    (hn : inCrit np = false) : ∀ b, s.lock = some b ↔ inCrit (upd s.pc a np b) = true := by
  intro b
  by_cases hb : b = a
  · subst hb
    have := h.own b
    rw [hc] at this
    simp only [upd_same, hn]
    simpa using this
  · simp only [upd, hb, if_false]; exact h.own b

theorem own_of_crit {s : St} (h : Inv s) {a : Actor} (np : Pc) (hc : inCrit (s.pc a) = true)
    (hn : inCrit np = true) : ∀ b, s.lock = some b ↔ inCrit (upd s.pc a np b) = true := by
  intro b
  by_cases hb : b = a
  · subst hb
    have := h.own b
    rw [hc] at this
    simp only [upd_same, hn]
    simpa using this
  · simp only [upd, hb, if_false]; exact h.own b

theorem pre_inv (s s' : St) (a : Actor) (h : Inv s) (hs : stepPre s a = some s') : Inv s' ∧ Sim s s' := by
  unfold stepPre at hs
  split at hs
  · rename_i hpc
    have hpl : preLin (s.pc a) = true := by rw [hpc]; rfl
    split at hs
    · rename_i hlf
      cases hap : apiStep s.g (s.op a) with
      | none => simp [hap] at hs
      | some r =>
        obtain ⟨g', o⟩ := r
        simp only [hap, Option.some.injEq] at hs
        subst hs
        have hst := step_of_pre (h.pre a hpl) hap
        have hsame := lockFree_same s.g g' (s.op a) o (h.alw a (preLin_ne_idle hpl)) hlf hap
        exact ⟨inv_lin s a g' o .done h hpl rfl (by rw [hpc]; rfl) hst (Or.inr hsame),
          sim_linearize s a g' o .done hpl rfl hst (Or.inr ⟨hlf, hsame⟩)⟩
    · rename_i hlf
      simp only [Option.some.injEq] at hs
      subst hs
      refine ⟨?_, .stutter rfl rfl⟩
      have hnp : ∀ np, (np = .want ∨ np = .joining) → Inv (setPc s a np) := by
        intro np hnp
        have hnc : inCrit np = false := by rcases hnp with e | e <;> rw [e] <;> rfl
        apply inv_local s (setPc s a np) a np h rfl rfl rfl rfl rfl rfl (fun _ _ => rfl)
          (preLin_ne_idle hpl) (by rcases hnp with e | e <;> rw [e] <;> simp)
        · exact own_of_not_crit h np (by rw [hpc]; rfl) hnc
        · intro _; exact hpl
        · intro _; simpa using hlf
        · intro e; rcases hnp with e' | e' <;> rw [e'] at e <;> simp at e
        · intro e; rcases hnp with e' | e' <;> rw [e'] at e <;> simp [postLin] at e
      exact hnp _ (afterPre_cases _)
  · simp at hs

theorem joined_inv (s s' : St) (a : Actor) (h : Inv s) (hs : stepJoined s a = some s') :
    Inv s' ∧ Sim s s' := by
  unfold stepJoined at hs
  split at hs
  · rename_i hpc
    have hai : s.pc a ≠ .idle := by rw [hpc]; simp
    have hneed := h.need a (by rw [hpc]; rfl)
    cases hop : s.op a with
    | free p =>
      simp only [hop, Option.some.injEq] at hs
      subst hs
      refine ⟨?_, .stutter rfl rfl⟩
      apply inv_local s { s with running := upd s.running p false, pc := upd s.pc a .want } a .want h rfl rfl rfl rfl
        rfl rfl (fun _ _ => rfl) hai (by simp)
      · exact own_of_not_crit h .want (by rw [hpc]; rfl) rfl
      · intro _; rw [hpc]; rfl
      · intro _; exact hneed
      · intro e; simp at e
      · intro e; simp [postLin] at e
    | create p => simp [hop] at hs
    | createWithRank p r => simp [hop] at hs
    | setRank p r => simp [hop] at hs
    | getNum => simp [hop] at hs
    | join p => simp [hop] at hs
    | revive p => simp [hop] at hs
    | getRank p => simp [hop] at hs
  · simp at hs

theorem tas_inv (s s' : St) (a : Actor) (old : Bool) (h : Inv s) (hs : stepTas s a old = some s') :
    Inv s' ∧ Sim s s' := by
  unfold stepTas at hs
  split at hs
  · rename_i hc
    obtain ⟨hpc, hold⟩ := hc
    have hai : s.pc a ≠ .idle := by rw [hpc]; simp
    have hneed := h.need a (by rw [hpc]; rfl)
    split at hs
    · simp only [Option.some.injEq] at hs
      subst hs
      refine ⟨?_, .stutter rfl rfl⟩
      apply inv_local s (setPc s a .spin) a .spin h rfl rfl rfl rfl rfl rfl (fun _ _ => rfl) hai (by simp)
      · exact own_of_not_crit h .spin (by rw [hpc]; rfl) rfl
      · intro _; rw [hpc]; rfl
      · intro _; exact hneed
      · intro e; simp at e
      · intro e; simp [postLin] at e
    · rename_i hof
      simp only [Option.some.injEq] at hs
      subst hs
      refine ⟨?_, .stutter rfl rfl⟩
      have hnone : s.lock = none := by
        have : old = false := by simpa using hof
        rw [this] at hold
        cases hl : s.lock with
        | none => rfl
        | some x => rw [hl] at hold; simp at hold
      apply inv_local s { s with lock := some a, pc := upd s.pc a .locked } a .locked h rfl rfl rfl rfl rfl
        rfl (fun _ _ => rfl) hai (by simp)
      · intro b
        show some a = some b ↔ inCrit (upd s.pc a .locked b) = true
        by_cases hb : b = a
        · subst hb; simp [inCrit]
        · simp only [upd, hb, if_false]
          have := h.own b
          rw [hnone] at this
          constructor
          · intro e; exact absurd (Option.some.inj e).symm hb
          · intro e; exact absurd (this.mpr e) (by simp)
      · intro _; rw [hpc]; rfl
      · intro _; exact hneed
      · intro e; simp at e
      · intro e; simp [postLin] at e
  · simp at hs

theorem spin_inv (s s' : St) (a : Actor) (v : Bool) (h : Inv s) (hs : stepSpinLoad s a v = some s') :
    Inv s' ∧ Sim s s' := by
  unfold stepSpinLoad at hs
  split at hs
  · rename_i hc
    obtain ⟨hpc, -⟩ := hc
    have hai : s.pc a ≠ .idle := by rw [hpc]; simp
    have hneed := h.need a (by rw [hpc]; rfl)
    split at hs
    · simp only [Option.some.injEq] at hs
      subst hs
      exact ⟨h, .stutter rfl rfl⟩
    · simp only [Option.some.injEq] at hs
      subst hs
      refine ⟨?_, .stutter rfl rfl⟩
      apply inv_local s (setPc s a .want) a .want h rfl rfl rfl rfl rfl rfl (fun _ _ => rfl) hai (by simp)
      · exact own_of_not_crit h .want (by rw [hpc]; rfl) rfl
      · intro _; rw [hpc]; rfl
      · intro _; exact hneed
      · intro e; simp at e
      · intro e; simp [postLin] at e
  · simp at hs

theorem chkok_inv (s : St) (a : Actor) (r : Int) (h : Inv s) (hpc : s.pc a = .locked)
    (hf : ChkFact s.g (s.op a) r) :
    Inv { s with loc := upd s.loc a r, pc := upd s.pc a .chkOk } := by
  have hai : s.pc a ≠ .idle := by rw [hpc]; simp
  apply inv_local s { s with loc := upd s.loc a r, pc := upd s.pc a .chkOk } a .chkOk h rfl rfl rfl rfl rfl
    rfl (fun b hb => by simp [upd, hb]) hai (by simp)
  · exact own_of_crit h .chkOk (by rw [hpc]; rfl) rfl
  · intro _; rw [hpc]; rfl
  · intro _; exact h.need a (by rw [hpc]; rfl)
  · intro _; simpa using hf
  · intro e; simp [postLin] at e

theorem check_inv (s s' : St) (a : Actor) (h : Inv s) (hs : stepCheck s a = some s') :
    Inv s' ∧ Sim s s' := by
  unfold stepCheck at hs
  split at hs
  · rename_i hc
    obtain ⟨hpc, hlk⟩ := hc
    have hpl : preLin (s.pc a) = true := by rw [hpc]; rfl
    have hneed := h.need a (by rw [hpc]; rfl)
    have hpre := h.pre a hpl
    cases hop : s.op a with
    | create p =>
      simp only [hop] at hs
      cases hm : mexLoop (privInit s.g p) (fuel (privInit s.g p)) 0 (privInit s.g p).head with
      | none => simp [hm] at hs
      | some r =>
        simp only [hm, Option.some.injEq] at hs
        subst hs
        exact ⟨chkok_inv s a r h hpc (by rw [hop]; exact hm), .stutter rfl rfl⟩
    | createWithRank p r =>
      simp only [hop] at hs
      have hr : ¬ r < 0 := by
        rw [hop] at hneed; simpa [lockFree] using hneed
      cases hm : findLoop (privInit s.g p) r (fuel (privInit s.g p)) (privInit s.g p).head with
      | none => simp [hm] at hs
      | some b =>
        cases b with
        | true =>
          simp only [hm, Option.some.injEq] at hs
          subst hs
          have hst : Rank.step s.g (s.op a) = some (privInit s.g p, .errRank) := by
            apply step_of_pre hpre; rw [hop]; exact lin_createw_fail s.g p r hr hm
          exact ⟨inv_lin s a _ _ .chkFail h hpl rfl (by rw [hpc]; rfl) hst (Or.inl hlk),
            sim_linearize s a _ _ .chkFail hpl rfl hst (Or.inl hlk)⟩
        | false =>
          simp only [hm, Option.some.injEq] at hs
          subst hs
          exact ⟨chkok_inv s a r h hpc (by rw [hop]; exact ⟨hm, rfl⟩), .stutter rfl rfl⟩
    | setRank p r =>
      simp only [hop] at hs
      cases hm : findLoop s.g r (fuel s.g) s.g.head with
      | none => simp [hm] at hs
      | some b =>
        cases b with
        | true =>
          simp only [hm, Option.some.injEq] at hs
          subst hs
          have hst : Rank.step s.g (s.op a) = some (s.g, .errRank) := by
            apply step_of_pre hpre; rw [hop]; exact lin_setrank_fail s.g p r (by rw [← hop]; exact hneed) hm
          exact ⟨inv_lin s a _ _ .chkFail h hpl rfl (by rw [hpc]; rfl) hst (Or.inl hlk),
            sim_linearize s a _ _ .chkFail hpl rfl hst (Or.inl hlk)⟩
        | false =>
          simp only [hm, Option.some.injEq] at hs
          subst hs
          exact ⟨chkok_inv s a r h hpc (by rw [hop]; exact hm), .stutter rfl rfl⟩
    | free p => simp [hop] at hs
    | getNum => simp [hop] at hs
    | join p => simp [hop] at hs
    | revive p => simp [hop] at hs
    | getRank p => simp [hop] at hs
  · simp at hs

theorem insert_inv (s s' : St) (a : Actor) (h : Inv s) (hs : stepInsert s a = some s') :
    Inv s' ∧ Sim s s' := by
  unfold stepInsert at hs
  split at hs
  · rename_i hc
    obtain ⟨hpc, hlk⟩ := hc
    have hpl : preLin (s.pc a) = true := by rw [hpc]; rfl
    have hneed := h.need a (by rw [hpc]; rfl)
    have hpre := h.pre a hpl
    have hchk := h.chk a hpc
    cases hop : s.op a with
    | create p =>
      simp only [hop] at hs
      cases hi : insertAt s.g p (s.loc a) with
      | none => simp [hi] at hs
      | some g' =>
        simp only [hi, Option.some.injEq] at hs
        subst hs
        have hst : Rank.step s.g (s.op a) = some (g', .okRank (g'.rank p)) := by
          apply step_of_pre hpre; rw [hop]; rw [hop] at hchk; exact lin_create s.g g' p _ hchk hi
        exact ⟨(inv_lin s a _ _ .mutated h hpl rfl (by rw [hpc]; rfl) hst (Or.inl hlk)).running_irrel _,
          (sim_linearize s a _ _ .mutated hpl rfl hst (Or.inl hlk)).running_irrel _⟩
    | createWithRank p r =>
      simp only [hop] at hs
      have hr : ¬ r < 0 := by
        rw [hop] at hneed; simpa [lockFree] using hneed
      cases hi : insertAt s.g p (s.loc a) with
      | none => simp [hi] at hs
      | some g' =>
        simp only [hi, Option.some.injEq] at hs
        subst hs
        have hst : Rank.step s.g (s.op a) = some (g', .okRank (g'.rank p)) := by
          apply step_of_pre hpre; rw [hop]; rw [hop] at hchk; exact lin_createw_ok s.g g' p r _ hr hchk hi
        exact ⟨(inv_lin s a _ _ .mutated h hpl rfl (by rw [hpc]; rfl) hst (Or.inl hlk)).running_irrel _,
          (sim_linearize s a _ _ .mutated hpl rfl hst (Or.inl hlk)).running_irrel _⟩
    | setRank p r => simp [hop] at hs
    | free p => simp [hop] at hs
    | getNum => simp [hop] at hs
    | join p => simp [hop] at hs
    | revive p => simp [hop] at hs
    | getRank p => simp [hop] at hs
  · simp at hs

theorem move_inv (s s' : St) (a : Actor) (h : Inv s) (hs : stepMove s a = some s') :
    Inv s' ∧ Sim s s' := by
  unfold stepMove at hs
  split at hs
  · rename_i hc
    obtain ⟨hpc, hlk⟩ := hc
    have hpl : preLin (s.pc a) = true := by rw [hpc]; rfl
    have hneed := h.need a (by rw [hpc]; rfl)
    have hpre := h.pre a hpl
    have hchk := h.chk a hpc
    cases hop : s.op a with
    | setRank p r =>
      simp only [hop] at hs
      cases hi : moveTo s.g p r with
      | none => simp [hi] at hs
      | some g' =>
        simp only [hi, Option.some.injEq] at hs
        subst hs
        have hst : Rank.step s.g (s.op a) = some (g', .ok) := by
          apply step_of_pre hpre; rw [hop]; rw [hop] at hchk hneed
          exact lin_setrank_ok s.g g' p r hneed hchk hi
        exact ⟨inv_lin s a _ _ .mutated h hpl rfl (by rw [hpc]; rfl) hst (Or.inl hlk),
          sim_linearize s a _ _ .mutated hpl rfl hst (Or.inl hlk)⟩
    | create p => simp [hop] at hs
    | createWithRank p r => simp [hop] at hs
    | free p => simp [hop] at hs
    | getNum => simp [hop] at hs
    | join p => simp [hop] at hs
    | revive p => simp [hop] at hs
    | getRank p => simp [hop] at hs
  · simp at hs

theorem remove_inv (s s' : St) (a : Actor) (h : Inv s) (hs : stepRemove s a = some s') :
    Inv s' ∧ Sim s s' := by
  unfold stepRemove at hs
  split at hs
  · rename_i hc
    obtain ⟨hpc, hlk⟩ := hc
    have hpl : preLin (s.pc a) = true := by rw [hpc]; rfl
    have hneed := h.need a (by rw [hpc]; rfl)
    have hpre := h.pre a hpl
    cases hop : s.op a with
    | free p =>
      simp only [hop] at hs
      cases hi : returnRank { s.g with term := upd s.g.term p true } p with
      | none => simp [hi] at hs
      | some g' =>
        simp only [hi, Option.some.injEq] at hs
        subst hs
        have hst : Rank.step s.g (s.op a) = some (g', .ok) := by
          apply step_of_pre hpre; rw [hop]; rw [hop] at hneed
          exact lin_free s.g g' p hneed hi
        exact ⟨inv_lin s a _ _ .mutated h hpl rfl (by rw [hpc]; rfl) hst (Or.inl hlk),
          sim_linearize s a _ _ .mutated hpl rfl hst (Or.inl hlk)⟩
    | create p => simp [hop] at hs
    | createWithRank p r => simp [hop] at hs
    | setRank p r => simp [hop] at hs
    | getNum => simp [hop] at hs
    | join p => simp [hop] at hs
    | revive p => simp [hop] at hs
    | getRank p => simp [hop] at hs
  · simp at hs

theorem clear_inv (s s' : St) (a : Actor) (h : Inv s) (hs : stepClear s a = some s') :
    Inv s' ∧ Sim s s' := by
  unfold stepClear at hs
  split at hs
  · rename_i hc
    obtain ⟨hpc, hlk⟩ := hc
    simp only [Option.some.injEq] at hs
    subst hs
    refine ⟨?_, .stutter rfl rfl⟩
    have hai : s.pc a ≠ .idle := by rcases hpc with e | e <;> rw [e] <;> simp
    have hpost : postLin (s.pc a) = true := by rcases hpc with e | e <;> rw [e] <;> rfl
    apply inv_local s { s with lock := none, pc := upd s.pc a .done } a .done h rfl rfl rfl rfl rfl
      rfl (fun _ _ => rfl) hai (by simp)
    · intro b
      show none = some b ↔ inCrit (upd s.pc a .done b) = true
      by_cases hb : b = a
      · subst hb; simp [inCrit]
      · simp only [upd, hb, if_false]
        constructor
        · intro e; simp at e
        · intro e
          have := (h.own b).mpr e
          rw [hlk] at this
          exact absurd (Option.some.inj this).symm hb
    · intro e; simp [preLin] at e
    · intro e; simp [wantsLock] at e
    · intro e; simp at e
    · intro _; exact hpost
  · simp at hs

theorem ret_inv (s s' : St) (a : Actor) (o : Out) (h : Inv s) (hs : stepRet s a o = some s') :
    Inv s' ∧ Sim s s' := by
  unfold stepRet at hs
  split at hs
  · rename_i hc
    obtain ⟨hpc, -⟩ := hc
    simp only [Option.some.injEq] at hs
    subst hs
    refine ⟨?_, .stutter rfl rfl⟩
    refine ⟨h.wf, h.hist, ?_, ?_, ?_, ?_, ?_, ?_, ?_, ?_⟩
    · intro b
      show (upd s.pc a .idle) b ≠ .idle ↔ b ∈ s.active.filter (fun b => decide (b ≠ a))
      by_cases hb : b = a
      · subst hb; simp
      · simp only [upd, hb, if_false, List.mem_filter, decide_eq_true_eq, ne_eq, not_false_eq_true, and_true]
        exact h.act b
    · intro x y hxy hx hy
      have hx' : (upd s.pc a .idle) x ≠ .idle := hx
      have hy' : (upd s.pc a .idle) y ≠ .idle := hy
      have hxa : x ≠ a := by intro e; subst e; simp at hx'
      have hya : y ≠ a := by intro e; subst e; simp at hy'
      simp only [upd, hxa, hya, if_false] at hx' hy'
      exact h.excl x y hxy hx' hy'
    · intro b
      show s.lock = some b ↔ inCrit ((upd s.pc a .idle) b) = true
      by_cases hb : b = a
      · subst hb
        have := h.own b
        rw [hpc] at this
        simp only [upd_same]
        simpa [inCrit] using this
      · simp only [upd, hb, if_false]; exact h.own b
    · intro b hb
      have hb' : (upd s.pc a .idle) b ≠ .idle := hb
      have hba : b ≠ a := by intro e; subst e; simp at hb'
      simp only [upd, hba, if_false] at hb'
      exact h.alw b hb'
    · intro b hb
      have hb' : preLin ((upd s.pc a .idle) b) = true := hb
      have hba : b ≠ a := by intro e; subst e; simp [preLin] at hb'
      simp only [upd, hba, if_false] at hb'
      exact h.pre b hb'
    · intro b hb
      have hb' : wantsLock ((upd s.pc a .idle) b) = true := hb
      have hba : b ≠ a := by intro e; subst e; simp [wantsLock] at hb'
      simp only [upd, hba, if_false] at hb'
      exact h.need b hb'
    · intro b hb
      have hb' : (upd s.pc a .idle) b = .chkOk := hb
      have hba : b ≠ a := by intro e; subst e; simp at hb'
      simp only [upd, hba, if_false] at hb'
      exact h.chk b hb'
    · intro b hb
      have hb' : postLin ((upd s.pc a .idle) b) = true := hb
      have hba : b ≠ a := by intro e; subst e; simp [postLin] at hb'
      simp only [upd, hba, if_false] at hb'
      exact h.lin b hb'
  · simp at hs

theorem inv_step (s s' : St) (e : Ev) (h : Inv s) (hs : step s e = some s') : Inv s' ∧ Sim s s' := by
  cases e with
  | call a op => exact call_inv s s' a op h hs
  | pre a => exact pre_inv s s' a h hs
  | joined a => exact joined_inv s s' a h hs
  | tas a old => exact tas_inv s s' a old h hs
  | spinLoad a v => exact spin_inv s s' a v h hs
  | check a => exact check_inv s s' a h hs
  | insert a => exact insert_inv s s' a h hs
  | move a => exact move_inv s s' a h hs
  | remove a => exact remove_inv s s' a h hs
  | clear a => exact clear_inv s s' a h hs
  | ret a o => exact ret_inv s s' a o h hs

theorem inv_reachable (s : St) (h : machine.Reachable s) : Inv s :=
  machine.invariant_reachable Inv inv_init (fun s e s' hi hs => (inv_step s s' e hi hs).1) s h

end ArgoVerif.Model.RankConc
