import ArgoVerif.Proofs.CondWl
namespace ArgoVerif.Model.Cond
open ArgoVerif
set_option maxHeartbeats 8000000

theorem cinv_wl_begin (s s' : St) (a : Actor) (h : CInv s) (hs : stepWl s (.begin a) = some s') : CInv s' := by
  simp only [stepWl, WaitList.step] at hs
  (repeat' (split at hs)) <;>
  (first
   | (cases hs; done)
   | (obtain ⟨w, hw, rfl⟩ := map_some hs
      have hwi := WaitList.inv_stepBegin s.wl w a h.wlInv hw
      unfold WaitList.stepBegin at hw
      (repeat' (split at hw)) <;>
      (first
       | (cases hw; done)
       | (cases hw; constructor; (first | exact hwi | (simp only [setC, afterAcquire, finishWait]; (repeat' split) <;> exact hwi)); all_goals wl_tac h hwi))))

theorem cinv_wl_tasL (s s' : St) (a : Actor) (old : Bool) (h : CInv s) (hs : stepWl s (.tasL a old) = some s') : CInv s' := by
  simp only [stepWl, WaitList.step] at hs
  (repeat' (split at hs)) <;>
  (first
   | (cases hs; done)
   | (obtain ⟨w, hw, rfl⟩ := map_some hs
      have hwi := WaitList.inv_stepTasL s.wl w a old h.wlInv hw
      unfold WaitList.stepTasL at hw
      cases old <;> (repeat' (split at hw)) <;>
      (first
       | (cases hw; done)
       | (cases hw; constructor; (first | exact hwi | (simp only [setC, afterAcquire, finishWait]; (repeat' split) <;> exact hwi)); all_goals wl_tac h hwi))))

end ArgoVerif.Model.Cond
