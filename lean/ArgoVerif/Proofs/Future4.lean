import ArgoVerif.Proofs.Future
/- Proofs.Future4 — invariant preservation: the counter load and store inside the critical sections. -/
namespace ArgoVerif.Model.Future
open ArgoVerif
set_option maxHeartbeats 4000000

theorem inv_stepLdCnt (s s' : St) (a : Actor) (v : Nat) (h : Inv s) (hs : stepLdCnt s a v = some s') : Inv s' := by
  unfold stepLdCnt at hs
  (repeat' (split at hs)) <;> close_tac h hs

theorem staged_holds (p : Pc) (h : Staged p) : HoldsLock p := by cases p <;> simp_all [Staged, HoldsLock]

/-- the lock holder is unique -/
theorem holder_unique (s : St) (h : Inv s) (a : Actor) (ha : HoldsLock (s.pc a)) : ∀ w, HoldsLock (s.pc w) → w = a := by
  intro w hw
  have h1 := (h.lockIff a).mpr ha
  have h2 := (h.lockIff w).mpr hw
  rw [h1] at h2; exact (Option.some.inj h2).symm

theorem inv_stepStCnt (s s' : St) (a : Actor) (v : Nat) (h : Inv s) (hs : stepStCnt s a v = some s') : Inv s' := by
  unfold stepStCnt at hs
  split at hs
  · rename_i hp
    have hu := holder_unique s h a (by rw [hp]; trivial)
    have hst : ∀ w, Staged (s.pc w) → w = a := fun w hw => hu w (staged_holds _ hw)
    have hsa := h.staged a (by rw [hp]; trivial)
    (repeat' (split at hs)) <;> close_tac h hs
  · rename_i hp
    have hu := holder_unique s h a (by rw [hp]; trivial)
    (repeat' (split at hs)) <;> close_tac h hs
  · cases hs

end ArgoVerif.Model.Future
