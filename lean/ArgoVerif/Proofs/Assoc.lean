import ArgoVerif.Model.Assoc
import ArgoVerif.Proofs.UnitMap
/-
Proofs.Assoc — invariant of the association model: the unit→thread table, the
descriptors' `unit`/`p_pool` fields and the create/free log agree.
-/
namespace ArgoVerif.Model.Assoc
open ArgoVerif.Model.UnitMap

/-- unit `u` is currently the unit of a work unit associated with pool `p` -/
def live (s : St) (u : UInt64) (p : Nat) : Bool :=
  match absMap s.map u with
  | some t => (s.thr t).pool == some p
  | none => false

structure AInv (s : St) : Prop where
  wf : WF s.map
  bi : ∀ t t', (s.thr t).unit = .builtin t' → t' = t
  user_ok : ∀ t u, (s.thr t).unit = .user u →
    u ≠ s.map.nul ∧ absMap s.map u = some t ∧ (s.thr t).pool ≠ none ∧ ∀ p, (s.thr t).pool = some p → s.isBuiltin p = false
  map_ok : ∀ u t, absMap s.map u = some t → (s.thr t).unit = .user u
  bridge : ∀ u p, u ≠ s.map.nul → liveL s.map.nul s.log u p = live s u p
  log_ok : LogOK s.map.nul s.log
  cnt : ∀ u, u ≠ s.map.nul → crT s.log u = frT s.log u + (if (absMap s.map u).isSome then 1 else 0)
  count_ok : CountOK s.map.nul s.log

theorem ainv_init (exp : Nat) (z : UInt64) (isb : Nat → Bool) : AInv (St.init exp z isb) := by
  constructor
  · exact empty_wf exp z
  · intro t t' h; simp [St.init] at h
  · intro t u h; simp [St.init] at h
  · intro u t h; simp [St.init, absMap_empty] at h
  · intro u p _; simp [St.init, liveL, live, absMap_empty]
  · simp [St.init, LogOK]
  · intro u _; simp [St.init, crT, frT, absMap_empty]
  · simp [St.init, CountOK]

/-- in a well-formed table a non-NULL handle is held by at most one element: exactly when it is mapped -/
theorem countU_nodup (z : UInt64) (c : List Entry) (u : UInt64) (hu : u ≠ z) (hnd : (units z c).Nodup) :
    (c.filter (fun e => e.unit == u)).length = if u ∈ units z c then 1 else 0 := by
  induction c with
  | nil => simp [units]
  | cons e r ih =>
    rw [units_cons z] at hnd ⊢
    by_cases hez : e.unit = z
    · simp only [hez, if_true] at hnd ⊢
      have h3 : ¬ e.unit = u := by rw [hez]; exact fun h => hu h.symm
      simp [List.filter_cons, h3, ih hnd]
    · simp only [hez, if_false, List.nodup_cons] at hnd ⊢
      by_cases heu : e.unit = u
      · subst heu
        have := ih hnd.2
        simp only [hnd.1, if_false] at this
        simp [List.filter_cons, this]
      · have h2 : ¬ u = e.unit := fun h => heu h.symm
        simp [List.filter_cons, heu, h2, ih hnd.2]

theorem tblCount_wf (m : UM) (u : UInt64) (hw : WF m) (hu : u ≠ m.nul) :
    tblCount m u = if (absMap m u).isSome then 1 else 0 := by
  simp only [tblCount]
  rw [countU_nodup m.nul _ u hu (hw.nodup _)]
  by_cases hm : u ∈ units m.nul (m.b (hashIndex m.exp u))
  · have : absMap m u ≠ none := fun h => (absMap_none_iff m u hu).mp h hm
    cases ha : absMap m u with
    | none => exact absurd ha this
    | some t => simp [hm]
  · have := (absMap_none_iff m u hu).mpr hm
    simp [hm, this]

def oldIs (old : Option (UInt64 × Nat)) (x : UInt64) : Bool :=
  match old with
  | some (u, _) => u == x
  | none => false

def oldMatch (old : Option (UInt64 × Nat)) (x : UInt64) (p : Nat) : Bool :=
  match old with
  | some (u, op) => u == x && op == p
  | none => false

def oldEvs (old : Option (UInt64 × Nat)) : List Ev :=
  match old with
  | some (u, op) => [.free op u 0]
  | none => []

def newEvs (t : Nat) (new : Option (UInt64 × Nat)) : List Ev :=
  match new with
  | some (nu, p) => [.create p t nu 0]
  | none => []

/-- the general shape of a successful (re)association of work unit `t`: optionally drop its
old user unit (`old`), optionally give it a fresh user unit (`new`) -/
theorem ainv_move (s s' : St) (t : Nat) (old new : Option (UInt64 × Nat)) (th' : Thr) (hi : AInv s)
    (hold : match old with
      | some (u, op) => s.thr t = ⟨.user u, some op⟩
      | none => ∀ u, (s.thr t).unit ≠ .user u)
    (hnew : match new with
      | some (nu, p) => nu ≠ s.map.nul ∧ absMap s.map nu = none ∧ s.isBuiltin p = false ∧ th' = ⟨.user nu, some p⟩
      | none => th'.unit = .null ∨ th'.unit = .builtin t)
    (hb : s'.isBuiltin = s.isBuiltin) (hnul : s'.map.nul = s.map.nul) (hthr : s'.thr = updT s.thr t th') (hwf : WF s'.map)
    (hmap : ∀ x, absMap s'.map x =
      if oldIs old x = true then none else if oldIs new x = true then some t else absMap s.map x)
    (hlog : s'.log = oldEvs old ++ newEvs t new ++ s.log) : AInv s' := by
  -- facts about the old unit
  have hold' : ∀ u op, old = some (u, op) →
      s.thr t = ⟨.user u, some op⟩ ∧ u ≠ s.map.nul ∧ absMap s.map u = some t := by
    intro u op ho; subst ho
    have h1 : s.thr t = ⟨.user u, some op⟩ := hold
    have := hi.user_ok t u (by rw [h1])
    exact ⟨h1, this.1, this.2.1⟩
  have hnew' : ∀ nu p, new = some (nu, p) →
      nu ≠ s.map.nul ∧ absMap s.map nu = none ∧ s.isBuiltin p = false ∧ th' = ⟨.user nu, some p⟩ := by
    intro nu p hn; subst hn; exact hnew
  -- threads other than t that own a mapped unit are untouched, and their unit is neither old nor new
  have hother : ∀ x t'', absMap s.map x = some t'' → t'' ≠ t → oldIs old x = false ∧ oldIs new x = false := by
    intro x t'' hx hne
    constructor
    · cases old with
      | none => rfl
      | some q =>
        obtain ⟨u, op⟩ := q
        have := (hold' u op rfl).2.2
        simp only [oldIs, beq_eq_false_iff_ne, ne_eq]
        intro hux; subst hux; rw [hx] at this; exact hne (Option.some.inj this)
    · cases new with
      | none => rfl
      | some q =>
        obtain ⟨nu, p⟩ := q
        have := (hnew' nu p rfl).2.1
        simp only [oldIs, beq_eq_false_iff_ne, ne_eq]
        intro hux; subst hux; rw [hx] at this; cases this
  have hmine : ∀ x, absMap s.map x = some t → oldIs old x = true := by
    intro x hx
    have hu := hi.map_ok x t hx
    cases old with
    | none => exact absurd hu (hold x)
    | some q =>
      obtain ⟨u, op⟩ := q
      have h1 : s.thr t = ⟨.user u, some op⟩ := hold
      rw [h1] at hu
      simp only [URef.user.injEq] at hu
      simp [oldIs, hu]
  have hnewold : ∀ x, oldIs new x = true → oldIs old x = false := by
    intro x hx
    cases new with
    | none => simp [oldIs] at hx
    | some q =>
      obtain ⟨nu, p⟩ := q
      simp only [oldIs, beq_iff_eq] at hx; subst hx
      have hn := (hnew' nu p rfl).2.1
      cases old with
      | none => rfl
      | some q' =>
        obtain ⟨u, op⟩ := q'
        have := (hold' u op rfl).2.2
        simp only [oldIs, beq_eq_false_iff_ne, ne_eq]
        intro hx; subst hx; rw [hn] at this; cases this
  have hthr_t : s'.thr t = th' := by rw [hthr]; simp [updT]
  have hthr_o : ∀ t'', t'' ≠ t → s'.thr t'' = s.thr t'' := by intro t'' h; rw [hthr]; simp [updT, h]
  refine ⟨hwf, ?_, ?_, ?_, ?_, ?_, ?_, ?_⟩
  · -- bi
    intro t1 t2 h1
    by_cases ht : t1 = t
    · subst ht; rw [hthr_t] at h1
      cases new with
      | some q => obtain ⟨nu, p⟩ := q; rw [(hnew' nu p rfl).2.2.2] at h1; cases h1
      | none =>
        rcases hnew with h2 | h2
        · rw [h2] at h1; cases h1
        · rw [h2] at h1; exact (URef.builtin.inj h1).symm
    · rw [hthr_o t1 ht] at h1; exact hi.bi t1 t2 h1
  · -- user_ok
    intro t1 u h1
    by_cases ht : t1 = t
    · subst ht; rw [hthr_t] at h1 ⊢
      cases new with
      | none => rcases hnew with h2 | h2 <;> (rw [h2] at h1; cases h1)
      | some q =>
        obtain ⟨nu, p⟩ := q
        obtain ⟨a, b, c, d⟩ := hnew' nu p rfl
        rw [d] at h1 ⊢
        simp only [URef.user.injEq] at h1; subst h1
        refine ⟨by rw [hnul]; exact a, ?_, by simp, ?_⟩
        · rw [hmap]
          have : oldIs (some (nu, p)) nu = true := by simp [oldIs]
          rw [hnewold nu this]; simp [this]
        · intro p' hp'; simp only [Option.some.injEq] at hp'; subst hp'; rw [hb]; exact c
    · rw [hthr_o t1 ht] at h1 ⊢
      obtain ⟨a, b, c, d⟩ := hi.user_ok t1 u h1
      have := hother u t1 b ht
      refine ⟨by rw [hnul]; exact a, ?_, c, ?_⟩
      · rw [hmap, this.1, this.2]; simp [b]
      · intro p hp; rw [hb]; exact d p hp
  · -- map_ok
    intro x t1 hx
    rw [hmap] at hx
    cases h1 : oldIs old x with
    | true => simp [h1] at hx
    | false =>
      cases h2 : oldIs new x with
      | true =>
        simp only [h1, h2, if_true, Bool.false_eq_true, if_false, Option.some.injEq] at hx; subst hx
        rw [hthr_t]
        cases new with
        | none => simp [oldIs] at h2
        | some q =>
          obtain ⟨nu, p⟩ := q
          simp only [oldIs, beq_iff_eq] at h2; subst h2
          rw [(hnew' nu p rfl).2.2.2]
      | false =>
        simp only [h1, h2, Bool.false_eq_true, if_false] at hx
        have hne : t1 ≠ t := by
          intro hh; subst hh; have := hmine x hx; rw [h1] at this; cases this
        rw [hthr_o t1 hne]; exact hi.map_ok x t1 hx
  · -- bridge
    intro x p hx0
    rw [hnul] at hx0 ⊢
    have hb0 := hi.bridge x p hx0
    rw [hlog]
    have hL : liveL s.map.nul (oldEvs old ++ newEvs t new ++ s.log) x p =
        if oldMatch old x p = true then false
        else if oldMatch new x p = true then true else liveL s.map.nul s.log x p := by
      cases old with
      | none =>
        cases new with
        | none => simp [oldEvs, newEvs, oldMatch]
        | some q =>
          obtain ⟨nu, p'⟩ := q
          simp only [oldEvs, newEvs, List.nil_append, List.cons_append, liveL, oldMatch]
          by_cases hc : nu = x ∧ p' = p
          · obtain ⟨h1, h2⟩ := hc; subst h1; subst h2; simp [hx0]
          · have : ¬ (nu = x ∧ p' = p ∧ x ≠ s.map.nul) := fun h => hc ⟨h.1, h.2.1⟩
            have h2 : (nu == x && p' == p) = false := by
              simp only [Bool.and_eq_false_imp, beq_iff_eq, beq_eq_false_iff_ne, ne_eq]
              intro h3 h4; exact hc ⟨h3, h4⟩
            simp [this, h2]
      | some q0 =>
        obtain ⟨u, op⟩ := q0
        have hsplit : ∀ r : List Ev, liveL s.map.nul (Ev.free op u 0 :: r) x p =
            if (u == x && op == p) = true then false else liveL s.map.nul r x p := by
          intro r
          simp only [liveL]
          by_cases hc : u = x ∧ op = p
          · obtain ⟨h1, h2⟩ := hc; subst h1; subst h2; simp
          · have h2 : (u == x && op == p) = false := by
              simp only [Bool.and_eq_false_imp, beq_iff_eq, beq_eq_false_iff_ne, ne_eq]
              intro h3 h4; exact hc ⟨h3, h4⟩
            simp [hc, h2]
        cases new with
        | none =>
          simp only [oldEvs, newEvs, List.append_nil, List.cons_append, List.nil_append, oldMatch]
          rw [hsplit]; simp
        | some q =>
          obtain ⟨nu, p'⟩ := q
          simp only [oldEvs, newEvs, List.cons_append, List.nil_append, oldMatch]
          rw [hsplit]
          simp only [liveL]
          by_cases hc2 : nu = x ∧ p' = p
          · obtain ⟨h1, h2⟩ := hc2; subst h1; subst h2; simp [hx0]
          · have : ¬ (nu = x ∧ p' = p ∧ x ≠ s.map.nul) := fun h => hc2 ⟨h.1, h.2.1⟩
            have h2 : (nu == x && p' == p) = false := by
              simp only [Bool.and_eq_false_imp, beq_iff_eq, beq_eq_false_iff_ne, ne_eq]
              intro h3 h4; exact hc2 ⟨h3, h4⟩
            simp [this, h2]
    rw [hL]
    simp only [live, hmap]
    cases h1 : oldIs old x with
    | true =>
      simp only [if_true]
      cases old with
      | none => simp [oldIs] at h1
      | some q0 =>
        obtain ⟨u, op⟩ := q0
        simp only [oldIs, beq_iff_eq] at h1; subst h1
        obtain ⟨h2, _, h4⟩ := hold' u op rfl
        by_cases hp : op = p
        · simp [oldMatch, hp]
        · have hm1 : oldMatch (some (u, op)) u p = false := by simp [oldMatch, hp]
          have hm2 : oldMatch new u p = false := by
            cases new with
            | none => rfl
            | some q =>
              obtain ⟨nu, p'⟩ := q
              have := (hnew' nu p' rfl).2.1
              simp only [oldMatch, Bool.and_eq_false_imp, beq_iff_eq, beq_eq_false_iff_ne, ne_eq]
              intro hx; subst hx; rw [h4] at this; cases this
          simp only [hm1, hm2, Bool.false_eq_true, if_false]
          rw [hb0]; simp only [live, h4, h2]
          simp [hp]
    | false =>
      have hm1 : oldMatch old x p = false := by
        cases old with
        | none => rfl
        | some q0 =>
          obtain ⟨u, op⟩ := q0
          simp only [oldIs, beq_eq_false_iff_ne, ne_eq] at h1
          simp [oldMatch, h1]
      simp only [hm1, Bool.false_eq_true, if_false]
      cases h2 : oldIs new x with
      | true =>
        simp only [if_true]
        cases new with
        | none => simp [oldIs] at h2
        | some q =>
          obtain ⟨nu, p'⟩ := q
          simp only [oldIs, beq_iff_eq] at h2; subst h2
          obtain ⟨a, b, c, d⟩ := hnew' nu p' rfl
          rw [hthr_t, d]
          by_cases hp : p' = p
          · subst hp; simp [oldMatch]
          · have : oldMatch (some (nu, p')) nu p = false := by simp [oldMatch, hp]
            simp only [this, Bool.false_eq_true, if_false]
            rw [hb0]; simp only [live, b]
            simp [hp]
      | false =>
        have hm2 : oldMatch new x p = false := by
          cases new with
          | none => rfl
          | some q =>
            obtain ⟨nu, p'⟩ := q
            simp only [oldIs, beq_eq_false_iff_ne, ne_eq] at h2
            simp [oldMatch, h2]
        simp only [hm2, Bool.false_eq_true, if_false]
        rw [hb0]; simp only [live]
        cases hm : absMap s.map x with
        | none => rfl
        | some t1 =>
          have hne : t1 ≠ t := by
            intro hh; subst hh; have := hmine x hm; rw [h1] at this; cases this
          simp only [hthr_o t1 hne]
  · -- log_ok
    rw [hlog, hnul]
    have hlo := hi.log_ok
    have hcreate : ∀ nu p, new = some (nu, p) → liveL s.map.nul s.log nu p = false := by
      intro nu p hn
      obtain ⟨a, b, _, _⟩ := hnew' nu p hn
      rw [hi.bridge nu p a]; simp [live, b]
    have hfree : ∀ u op, old = some (u, op) → liveL s.map.nul s.log u op = true := by
      intro u op ho
      obtain ⟨a, b, c⟩ := hold' u op ho
      rw [hi.bridge u op b]; simp [live, c, a]
    cases old with
    | none =>
      cases new with
      | none => simpa [oldEvs, newEvs] using hlo
      | some q =>
        obtain ⟨nu, p⟩ := q
        simp only [oldEvs, newEvs, List.nil_append, List.cons_append, LogOK]
        exact ⟨fun _ => hcreate nu p rfl, hlo⟩
    | some q0 =>
      obtain ⟨u, op⟩ := q0
      cases new with
      | none =>
        simp only [oldEvs, newEvs, List.append_nil, List.cons_append, List.nil_append, LogOK]
        exact ⟨hfree u op rfl, hlo⟩
      | some q =>
        obtain ⟨nu, p⟩ := q
        simp only [oldEvs, newEvs, List.cons_append, List.nil_append, LogOK, liveL]
        refine ⟨?_, fun _ => hcreate nu p rfl, hlo⟩
        have hne : nu ≠ u := by
          intro hh
          have h1 := (hnew' nu p rfl).2.1
          have h2 := (hold' u op rfl).2.2
          rw [hh, h2] at h1; cases h1
        simp only [hne, false_and, if_false]
        exact hfree u op rfl
  · -- cnt
    intro x hx0
    rw [hnul] at hx0
    have hc := hi.cnt x hx0
    have hcr : crT (oldEvs old ++ newEvs t new ++ s.log) x = (if oldIs new x = true then 1 else 0) + crT s.log x := by
      cases old with
      | none =>
        cases new with
        | none => simp [oldEvs, newEvs, oldIs]
        | some q => obtain ⟨nu, p⟩ := q; simp [oldEvs, newEvs, oldIs, crT]
      | some q0 =>
        obtain ⟨u, op⟩ := q0
        cases new with
        | none => simp [oldEvs, newEvs, oldIs, crT]
        | some q => obtain ⟨nu, p⟩ := q; simp [oldEvs, newEvs, oldIs, crT]
    have hfr : frT (oldEvs old ++ newEvs t new ++ s.log) x = (if oldIs old x = true then 1 else 0) + frT s.log x := by
      cases old with
      | none =>
        cases new with
        | none => simp [oldEvs, newEvs, oldIs]
        | some q => obtain ⟨nu, p⟩ := q; simp [oldEvs, newEvs, oldIs, frT]
      | some q0 =>
        obtain ⟨u, op⟩ := q0
        cases new with
        | none => simp [oldEvs, newEvs, oldIs, frT]
        | some q => obtain ⟨nu, p⟩ := q; simp [oldEvs, newEvs, oldIs, frT]
    rw [hlog, hcr, hfr, hmap]
    cases h1 : oldIs old x with
    | true =>
      have h2 : oldIs new x = false := by
        cases h2 : oldIs new x with
        | false => rfl
        | true => have := hnewold x h2; rw [h1] at this; cases this
      have hax : absMap s.map x = some t := by
        cases old with
        | none => simp [oldIs] at h1
        | some q0 =>
          obtain ⟨u, op⟩ := q0
          simp only [oldIs, beq_iff_eq] at h1; subst h1
          exact (hold' u op rfl).2.2
      rw [hax] at hc
      simp only [h2, if_true, Bool.false_eq_true, if_false, Option.isSome_none] at hc ⊢
      simp at hc; omega
    | false =>
      cases h2 : oldIs new x with
      | true =>
        have hax : absMap s.map x = none := by
          cases new with
          | none => simp [oldIs] at h2
          | some q =>
            obtain ⟨nu, p⟩ := q
            simp only [oldIs, beq_iff_eq] at h2; subst h2
            exact (hnew' nu p rfl).2.1
        rw [hax] at hc
        simp only [if_true, Bool.false_eq_true, if_false, Option.isSome_some] at hc ⊢
        simp at hc; omega
      | false =>
        simp only [Bool.false_eq_true, if_false] at hc ⊢
        omega
  · -- count_ok
    rw [hlog, hnul]
    have hco := hi.count_ok
    have hnewc : ∀ nu p, new = some (nu, p) → 0 + frT s.log nu = crT s.log nu := by
      intro nu p hn
      obtain ⟨a, b, _, _⟩ := hnew' nu p hn
      have := hi.cnt nu a
      rw [b] at this; simp at this; omega
    have holdc : ∀ u op, old = some (u, op) → frT s.log u + 1 = crT s.log u := by
      intro u op ho
      obtain ⟨_, b, c⟩ := hold' u op ho
      have := hi.cnt u b
      rw [c] at this; simp at this; omega
    cases old with
    | none =>
      cases new with
      | none => simpa [oldEvs, newEvs] using hco
      | some q =>
        obtain ⟨nu, p⟩ := q
        simp only [oldEvs, newEvs, List.nil_append, List.cons_append, CountOK]
        exact ⟨fun _ => hnewc nu p rfl, hco⟩
    | some q0 =>
      obtain ⟨u, op⟩ := q0
      cases new with
      | none =>
        simp only [oldEvs, newEvs, List.append_nil, List.cons_append, List.nil_append, CountOK]
        exact ⟨by have := holdc u op rfl; omega, hco⟩
      | some q =>
        obtain ⟨nu, p⟩ := q
        simp only [oldEvs, newEvs, List.cons_append, List.nil_append, CountOK, crT, frT]
        have hne : nu ≠ u := by
          intro hh
          have h1 := (hnew' nu p rfl).2.1
          have h2 := (hold' u op rfl).2.2
          rw [hh, h2] at h1; cases h1
        refine ⟨?_, fun _ => hnewc nu p rfl, hco⟩
        simp only [hne, if_false]
        have := holdc u op rfl; omega

/-! ### the operations -/

/-- what the user's `create_unit` may return: NULL, or a handle that is not the handle of a
live unit of another work unit (the table is global).  When a work unit moves from one user
pool to another the new pool may also return the handle the work unit already has (`Legal`):
abt.h allows e.g. the `ABT_thread` handle itself to serve as unit in every pool. -/
def fresh (s : St) (nu : UInt64) : Prop := nu = s.map.nul ∨ absMap s.map nu = none

/-- a unit handle the caller may pass to the runtime -/
def okRef (s : St) : URef → Prop
  | .builtin t => (s.thr t).unit = .builtin t
  | .user x => x ≠ s.map.nul ∧ absMap s.map x ≠ none
  | .null => False

/-- client contract of each operation -/
def Legal (s : St) : Op → Prop
  | .init t _ nu _ => (s.thr t).unit = .null ∧ fresh s nu
  | .setPool t _ nu _ => (s.thr t).unit ≠ .null ∧ (fresh s nu ∨ (s.thr t).unit = .user nu)
  | .unitSetPool u _ nu _ => okRef s u ∧ (fresh s nu ∨ u = .user nu)
  | .unset t => (s.thr t).unit ≠ .null
  | .use _ => True
  | .lookup u => okRef s u

theorem ainv_log_other (s : St) (t p : Nat) (m : Nat) (hi : AInv s) :
    AInv { s with log := .create p t s.map.nul m :: s.log } := by
  refine ⟨hi.wf, hi.bi, hi.user_ok, hi.map_ok, ?_, ?_, ?_, ?_⟩
  · intro u p' hu
    have := hi.bridge u p' hu
    simp only [liveL]
    have : ¬ (s.map.nul = u ∧ p = p' ∧ u ≠ s.map.nul) := fun h => hu h.1.symm
    simp only [this, if_false]
    exact hi.bridge u p' hu
  · simp only [LogOK]; exact ⟨fun h => absurd rfl h, hi.log_ok⟩
  · intro u hu
    have : ¬ s.map.nul = u := fun h => hu h.symm
    simp only [crT, frT, this, if_false, Nat.zero_add]
    exact hi.cnt u hu
  · simp only [CountOK]; exact ⟨fun h => absurd rfl h, hi.count_ok⟩

/-- `create_unit` returned `nu`, the table could not take it (no memory), `free_unit(nu)` follows;
`m` = how often the table holds `nu` throughout (it is unchanged) -/
theorem ainv_log_mem' (s : St) (t p : Nat) (nu : UInt64) (hi : AInv s) (hnu : nu ≠ s.map.nul)
    (hf : live s nu p = false) :
    AInv { s with log := .free p nu (tblCount s.map nu) :: .create p t nu (tblCount s.map nu) :: s.log } := by
  have hl : liveL s.map.nul s.log nu p = false := by rw [hi.bridge nu p hnu]; exact hf
  have hm := tblCount_wf s.map nu hi.wf hnu
  have hc := hi.cnt nu hnu
  refine ⟨hi.wf, hi.bi, hi.user_ok, hi.map_ok, ?_, ?_, ?_, ?_⟩
  · intro u p' hu
    simp only [liveL]
    by_cases hc : nu = u ∧ p = p'
    · obtain ⟨h1, h2⟩ := hc; subst h1; subst h2
      simp only [and_self, if_true]
      show false = live s nu p
      rw [hf]
    · have h2 : ¬ (nu = u ∧ p = p' ∧ u ≠ s.map.nul) := fun h => hc ⟨h.1, h.2.1⟩
      simp only [hc, h2, if_false]
      exact hi.bridge u p' hu
  · simp only [LogOK, liveL]
    refine ⟨by simp [hnu], fun _ => hl, hi.log_ok⟩
  · intro u hu
    simp only [crT, frT]
    have := hi.cnt u hu
    by_cases hx : nu = u
    · simp only [hx, if_true]; omega
    · simp only [hx, if_false]; omega
  · simp only [CountOK, crT, frT, if_true]
    refine ⟨by omega, fun _ => by omega, hi.count_ok⟩

theorem ainv_log_mem (s : St) (t p : Nat) (nu : UInt64) (hi : AInv s) (hnu : nu ≠ s.map.nul)
    (hf : absMap s.map nu = none) :
    AInv { s with log := .free p nu (tblCount s.map nu) :: .create p t nu (tblCount s.map nu) :: s.log } :=
  ainv_log_mem' s t p nu hi hnu (by simp [live, hf])

theorem newUserUnit_cases (s : St) (t p : Nat) (nu : UInt64) (mem : Bool) :
    (nu = s.map.nul ∧
      newUserUnit s t p nu mem = ({ s with log := .create p t nu (tblCount s.map nu) :: s.log }, .other)) ∨
    (nu ≠ s.map.nul ∧ mapThread s.map nu t mem = none ∧
      newUserUnit s t p nu mem =
        ({ s with log := .free p nu (tblCount s.map nu) :: .create p t nu (tblCount s.map nu) :: s.log }, .mem)) ∨
    (nu ≠ s.map.nul ∧ ∃ m', mapThread s.map nu t mem = some m' ∧
      newUserUnit s t p nu mem = ({ s with map := m', log := .create p t nu (tblCount s.map nu) :: s.log }, .ok)) := by
  simp only [newUserUnit]
  by_cases h0 : nu = s.map.nul
  · left; simp [h0]
  · right
    cases hm : mapThread s.map nu t mem with
    | none => left; simp [h0]
    | some m' => right; simp [h0]

/-- successful creation of a user unit for `t` in user pool `p`, optionally replacing its old
user unit -/
theorem ainv_new (s : St) (t p : Nat) (nu : UInt64) (mem : Bool) (m' : UM) (hi : AInv s)
    (hp : s.isBuiltin p = false) (hnu : nu ≠ s.map.nul) (hf : absMap s.map nu = none)
    (hm : mapThread s.map nu t mem = some m')
    (hold : ∀ u, (s.thr t).unit ≠ .user u) :
    AInv { s with map := m', log := .create p t nu (tblCount s.map nu) :: s.log,
                  thr := updT s.thr t ⟨.user nu, some p⟩ } := by
  obtain ⟨hw', hen, hmap', _, _⟩ := (map_spec s.map nu t mem hi.wf hnu hf).2 m' hm
  have hc0 : tblCount s.map nu = 0 := by rw [tblCount_wf s.map nu hi.wf hnu, hf]; rfl
  rw [hc0]
  refine ainv_move s _ t none (some (nu, p)) ⟨.user nu, some p⟩ hi hold ⟨hnu, hf, hp, rfl⟩ rfl hen.2 rfl hw' ?_ ?_
  · intro x
    rw [hmap' x]
    simp only [oldIs, Bool.false_eq_true, if_false, beq_iff_eq]
    by_cases hx : x = nu
    · simp [hx]
    · have : ¬ nu = x := fun h => hx h.symm
      simp [hx, this]
  · simp [oldEvs, newEvs]

theorem ainv_drop (s : St) (t : Nat) (u : UInt64) (oldp : Nat) (th' : Thr) (hi : AInv s)
    (hthr : s.thr t = ⟨.user u, some oldp⟩) (hth' : th'.unit = .null ∨ th'.unit = .builtin t) :
    ∃ m', unmapThread s.map u = some m' ∧
      AInv { s with map := m', log := .free oldp u (tblCount m' u) :: s.log, thr := updT s.thr t th' } := by
  obtain ⟨hu0, hmu, _, _⟩ := hi.user_ok t u (by rw [hthr])
  obtain ⟨m', hm, hw', hen, hmap', _⟩ := unmap_spec s.map u hi.wf hu0 (by rw [hmu]; simp)
  refine ⟨m', hm, ?_⟩
  have hc0 : tblCount m' u = 0 := by
    rw [tblCount_wf m' u hw' (by rw [hen.2]; exact hu0), hmap' u]; simp
  rw [hc0]
  refine ainv_move s _ t (some (u, oldp)) none th' hi hthr hth' rfl hen.2 rfl hw' ?_ ?_
  · intro x
    rw [hmap' x]
    simp only [oldIs, Bool.false_eq_true, if_false, beq_iff_eq]
    by_cases hx : x = u
    · simp [hx]
    · have : ¬ u = x := fun h => hx h.symm
      simp [hx, this]
  · simp [oldEvs, newEvs]

theorem ainv_swap (s : St) (t p : Nat) (u nu : UInt64) (oldp : Nat) (mem : Bool) (m' : UM) (hi : AInv s)
    (hthr : s.thr t = ⟨.user u, some oldp⟩) (hp : s.isBuiltin p = false) (hnu : nu ≠ s.map.nul)
    (hf : absMap s.map nu = none) (hm : mapThread s.map nu t mem = some m') :
    ∃ m'', unmapThread m' u = some m'' ∧
      AInv { s with map := m'', log := .free oldp u (tblCount m'' u) :: .create p t nu (tblCount s.map nu) :: s.log,
                    thr := updT s.thr t ⟨.user nu, some p⟩ } := by
  obtain ⟨hu0, hmu, _, _⟩ := hi.user_ok t u (by rw [hthr])
  obtain ⟨hw', hen1, hmap', _, _⟩ := (map_spec s.map nu t mem hi.wf hnu hf).2 m' hm
  have hne : u ≠ nu := by intro h; rw [h, hf] at hmu; cases hmu
  have hmu' : absMap m' u ≠ none := by rw [hmap' u]; simp [hne, hmu]
  obtain ⟨m'', hm2, hw'', hen2, hmap'', _⟩ := unmap_spec m' u hw' (by rw [hen1.2]; exact hu0) hmu'
  refine ⟨m'', hm2, ?_⟩
  have hc1 : tblCount s.map nu = 0 := by rw [tblCount_wf s.map nu hi.wf hnu, hf]; rfl
  have hc2 : tblCount m'' u = 0 := by
    rw [tblCount_wf m'' u hw'' (by rw [hen2.2, hen1.2]; exact hu0), hmap'' u]; simp
  rw [hc1, hc2]
  refine ainv_move s _ t (some (u, oldp)) (some (nu, p)) ⟨.user nu, some p⟩ hi hthr ⟨hnu, hf, hp, rfl⟩
    rfl (hen2.2.trans hen1.2) rfl hw'' ?_ ?_
  · intro x
    rw [hmap'' x, hmap' x]
    simp only [oldIs, beq_iff_eq]
    by_cases hx : x = u
    · simp [hx]
    · have h1 : ¬ u = x := fun h => hx h.symm
      by_cases hx2 : x = nu
      · have h3 : ¬ nu = u := fun h => hne h.symm
        subst hx2
        simp [h3, hne]
      · have h2 : ¬ nu = x := fun h => hx2 h.symm
        simp [hx, h1, hx2, h2]
  · simp [oldEvs, newEvs]

/-- move between two different user pools that hand out the *same* handle `u` for the work unit
(e.g. its `ABT_thread` handle): `create_unit(p)` = `u`, map (second element for `u`), unmap
(first element for `u`), `free_unit(oldp, u)` -/
theorem ainv_swap_same (s : St) (t p : Nat) (u : UInt64) (oldp : Nat) (mem : Bool) (m1 : UM) (hi : AInv s)
    (hthr : s.thr t = ⟨.user u, some oldp⟩) (hp : s.isBuiltin p = false) (hne : oldp ≠ p)
    (hm : mapThread s.map u t mem = some m1) :
    ∃ m2, unmapThread m1 u = some m2 ∧
      AInv { s with map := m2, log := .free oldp u (tblCount m2 u) :: .create p t u (tblCount s.map u) :: s.log,
                    thr := updT s.thr t ⟨.user u, some p⟩ } := by
  obtain ⟨hu0, hmu, _, _⟩ := hi.user_ok t u (by rw [hthr])
  obtain ⟨m2, hm2, hw2, hen, hmap2, _⟩ := (remap_spec s.map u t mem hi.wf hu0 hmu).2 m1 hm
  refine ⟨m2, hm2, ?_⟩
  have hc1 : tblCount s.map u = 1 := by rw [tblCount_wf s.map u hi.wf hu0, hmu]; rfl
  have hc2 : tblCount m2 u = 1 := by
    rw [tblCount_wf m2 u hw2 (by rw [hen.2]; exact hu0), hmap2 u, hmu]; rfl
  rw [hc1, hc2]
  have hcu := hi.cnt u hu0
  rw [hmu] at hcu
  have hthr_o : ∀ t', t' ≠ t → updT s.thr t ⟨.user u, some p⟩ t' = s.thr t' := by
    intro t' h; simp [updT, h]
  have hlive : ∀ x p', (match absMap m2 x with
        | some t1 => (updT s.thr t ⟨.user u, some p⟩ t1).pool == some p'
        | none => false) = if x = u then (p == p') else live s x p' := by
    intro x p'
    simp only [live, hmap2]
    by_cases hx : x = u
    · subst hx; simp [hmu, updT]
    · simp only [hx, if_false]
      cases hmx : absMap s.map x with
      | none => rfl
      | some t1 =>
        have : t1 ≠ t := by
          intro h; subst h
          have := hi.map_ok x t1 hmx
          rw [hthr] at this; simp only [URef.user.injEq] at this; exact hx this.symm
        simp only [hthr_o t1 this]
  refine ⟨hw2, ?_, ?_, ?_, ?_, ?_, ?_, ?_⟩
  · intro t1 t2 h
    by_cases ht : t1 = t
    · subst ht; simp [updT] at h
    · simp only [updT, ht, if_false] at h; exact hi.bi t1 t2 h
  · intro t1 x h
    by_cases ht : t1 = t
    · subst ht
      simp only [updT, if_true, URef.user.injEq] at h ⊢; subst h
      refine ⟨by rw [hen.2]; exact hu0, by rw [hmap2]; exact hmu, by simp, ?_⟩
      intro p' hp'; simp only [Option.some.injEq] at hp'; subst hp'; exact hp
    · simp only [updT, ht, if_false] at h ⊢
      obtain ⟨a, b, c, d⟩ := hi.user_ok t1 x h
      exact ⟨by rw [hen.2]; exact a, by rw [hmap2]; exact b, c, d⟩
  · intro x t1 hx
    rw [hmap2] at hx
    have := hi.map_ok x t1 hx
    by_cases ht : t1 = t
    · subst ht; rw [hthr] at this; simp only [updT, if_true]; exact this
    · simp only [updT, ht, if_false]; exact this
  · intro x p' hx0
    rw [hen.2] at hx0 ⊢
    show _ = (match absMap m2 x with
        | some t1 => (updT s.thr t ⟨.user u, some p⟩ t1).pool == some p'
        | none => false)
    rw [hlive]
    simp only [liveL]
    by_cases hx : x = u
    · subst hx
      have hb0 := hi.bridge x p' hx0
      by_cases h1 : oldp = p'
      · subst h1
        have : ¬ p = oldp := fun h => hne h.symm
        simp [this]
      · by_cases h2 : p = p'
        · subst h2; simp [h1, hx0]
        · have h3 : ¬ (x = x ∧ p = p' ∧ x ≠ s.map.nul) := fun h => h2 h.2.1
          simp only [h1, and_false, if_false, h3, if_true]
          rw [hb0]; simp only [live, hmu, hthr]
          have e1 : (oldp == p') = false := by simp [h1]
          have e2 : (p == p') = false := by simp [h2]
          simp [e1, e2, h2]
    · have h1 : ¬ (u = x ∧ oldp = p') := fun h => hx h.1.symm
      have h2 : ¬ (u = x ∧ p = p' ∧ x ≠ s.map.nul) := fun h => hx h.1.symm
      simp only [h1, h2, if_false, hx]
      exact hi.bridge x p' hx0
  · show LogOK m2.nul _
    rw [hen.2]
    simp only [LogOK]
    have hl1 : liveL s.map.nul s.log u oldp = true := by
      rw [hi.bridge u oldp hu0]; simp [live, hmu, hthr]
    have hl2 : liveL s.map.nul s.log u p = false := by
      rw [hi.bridge u p hu0]; simp [live, hmu, hthr, hne]
    have : ¬ (True ∧ p = oldp ∧ u ≠ s.map.nul) := fun h => hne h.2.1.symm
    refine ⟨?_, fun _ => hl2, hi.log_ok⟩
    simp only [liveL]
    rw [if_neg this]; exact hl1
  · intro x hx0
    rw [hen.2] at hx0
    simp only [crT, frT, hmap2]
    have := hi.cnt x hx0
    by_cases hx : u = x
    · subst hx; simp only [if_true]; omega
    · simp only [hx, if_false]; omega
  · show CountOK m2.nul _
    rw [hen.2]
    simp only [CountOK, crT, frT, if_true]
    simp at hcu
    exact ⟨by omega, fun _ => by omega, hi.count_ok⟩

/-- what a failed (re)association leaves behind -/
def RolledBack (s s' : St) (t p : Nat) (nu : UInt64) : Prop :=
  s'.thr = s.thr ∧ s'.map = s.map ∧ s'.isBuiltin = s.isBuiltin ∧
  (s'.log = .create p t s.map.nul (tblCount s.map s.map.nul) :: s.log ∨
   (nu ≠ s.map.nul ∧ s'.log = .free p nu (tblCount s.map nu) :: .create p t nu (tblCount s.map nu) :: s.log))

theorem setAssocCore_spec (s : St) (t : Nat) (unit : URef) (p : Nat) (nu : UInt64) (mem : Bool) (hi : AInv s)
    (hu : (s.thr t).unit = unit) (hnn : unit ≠ .null) (hf : fresh s nu ∨ unit = .user nu) :
    ∃ s' rc, setAssocCore s t unit p nu mem = some (s', rc) ∧ AInv s' ∧
      (rc ≠ .ok → RolledBack s s' t p nu) ∧
      (rc = .ok → (s'.thr t).pool = some p ∧ (∀ t', t' ≠ t → s'.thr t' = s.thr t') ∧
        (s.isBuiltin p = true → (s'.thr t).unit = .builtin t) ∧
        (s.isBuiltin p = false → ∃ u', (s'.thr t).unit = .user u')) ∧
      (mem = true → nu ≠ s.map.nul → rc = .ok) := by
  cases unit with
  | null => exact absurd rfl hnn
  | builtin t0 =>
    have ht0 : t0 = t := hi.bi t t0 hu
    subst ht0
    simp only [setAssocCore]
    cases hb : s.isBuiltin p with
    | true =>
      simp only [if_true]
      refine ⟨_, .ok, rfl, ?_, by simp, ?_, by simp⟩
      · refine ainv_move s _ t0 none none { (s.thr t0) with pool := some p } hi ?_ (Or.inr hu) rfl rfl rfl hi.wf ?_ ?_
        · intro u; rw [hu]; simp
        · intro x; simp [oldIs]
        · simp [oldEvs, newEvs]
      · intro _
        refine ⟨by simp [updT], fun t' ht' => by simp [updT, ht'], fun _ => by simp [updT, hu], fun h => by cases h⟩
    | false =>
      simp only [Bool.false_eq_true, if_false]
      rcases newUserUnit_cases s t0 p nu mem with ⟨h0, he⟩ | ⟨h0, hm, he⟩ | ⟨h0, m', hm, he⟩
      · rw [he]; simp only [reduceCtorEq, if_false]
        subst h0
        refine ⟨_, .other, rfl, ainv_log_other s t0 p _ hi, ?_, by simp, by simp⟩
        intro _; exact ⟨rfl, rfl, rfl, Or.inl rfl⟩
      · rw [he]; simp only [reduceCtorEq, if_false]
        have hfn : absMap s.map nu = none := by
          rcases hf with (h | h) | h
          · exact absurd h h0
          · exact h
          · cases h
        refine ⟨_, .mem, rfl, ainv_log_mem s t0 p nu hi h0 hfn, ?_, by simp, ?_⟩
        · intro _; exact ⟨rfl, rfl, rfl, Or.inr ⟨h0, rfl⟩⟩
        · intro hmem _
          have := (map_spec s.map nu t0 mem hi.wf h0 hfn).1 hmem
          rw [hm] at this; cases this
      · rw [he]; simp only [if_true]
        have hfn : absMap s.map nu = none := by
          rcases hf with (h | h) | h
          · exact absurd h h0
          · exact h
          · cases h
        refine ⟨_, .ok, rfl, ?_, by simp, ?_, by simp⟩
        · exact ainv_new s t0 p nu mem m' hi hb h0 hfn hm (by intro u; rw [hu]; simp)
        · intro _
          refine ⟨by simp [updT], fun t' ht' => by simp [updT, ht'], fun h => (by cases h), fun _ => ⟨nu, by simp [updT]⟩⟩
  | user u =>
    obtain ⟨hu0, hmu, hpn, hpu⟩ := hi.user_ok t u hu
    simp only [setAssocCore]
    cases hpool : (s.thr t).pool with
    | none => exact absurd hpool hpn
    | some oldp =>
      have hthr : s.thr t = ⟨.user u, some oldp⟩ := by
        cases hx : s.thr t with
        | mk a b => rw [hx] at hu hpool; simp only at hu hpool; rw [hu, hpool]
      simp only
      cases hb : s.isBuiltin p with
      | true =>
        simp only [if_true]
        obtain ⟨m', hm, hi'⟩ := ainv_drop s t u oldp ⟨.builtin t, some p⟩ hi hthr (Or.inr rfl)
        rw [hm]
        refine ⟨_, .ok, rfl, hi', by simp, ?_, by simp⟩
        intro _
        refine ⟨by simp [updT], fun t' ht' => by simp [updT, ht'], fun _ => by simp [updT], fun h => by cases h⟩
      | false =>
        simp only [Bool.false_eq_true, if_false]
        by_cases hsame : oldp = p
        · simp only [hsame, if_true]
          refine ⟨s, .ok, rfl, hi, by simp, ?_, by simp⟩
          intro _
          refine ⟨by rw [hpool, hsame], fun _ _ => rfl, fun h => (by cases h), fun _ => ⟨u, hu⟩⟩
        · simp only [hsame, if_false]
          rcases newUserUnit_cases s t p nu mem with ⟨h0, he⟩ | ⟨h0, hm, he⟩ | ⟨h0, m', hm, he⟩
          · rw [he]; simp only [reduceCtorEq, if_false]
            subst h0
            refine ⟨_, .other, rfl, ainv_log_other s t p _ hi, ?_, by simp, by simp⟩
            intro _; exact ⟨rfl, rfl, rfl, Or.inl rfl⟩
          · rw [he]; simp only [reduceCtorEq, if_false]
            by_cases hsm : nu = u
            · subst hsm
              have hlv : live s nu p = false := by
                simp only [live, hmu, hthr]; simp [hsame]
              refine ⟨_, .mem, rfl, ainv_log_mem' s t p nu hi h0 hlv, ?_, by simp, ?_⟩
              · intro _; exact ⟨rfl, rfl, rfl, Or.inr ⟨h0, rfl⟩⟩
              · intro hmem _
                have := (remap_spec s.map nu t mem hi.wf h0 hmu).1 hmem
                rw [hm] at this; cases this
            · have hfn : absMap s.map nu = none := by
                rcases hf with (h | h) | h
                · exact absurd h h0
                · exact h
                · simp only [URef.user.injEq] at h; exact absurd h.symm hsm
              refine ⟨_, .mem, rfl, ainv_log_mem s t p nu hi h0 hfn, ?_, by simp, ?_⟩
              · intro _; exact ⟨rfl, rfl, rfl, Or.inr ⟨h0, rfl⟩⟩
              · intro hmem _
                have := (map_spec s.map nu t mem hi.wf h0 hfn).1 hmem
                rw [hm] at this; cases this
          · rw [he]; simp only [if_true]
            by_cases hsm : nu = u
            · subst hsm
              obtain ⟨m'', hm2, hi'⟩ := ainv_swap_same s t p nu oldp mem m' hi hthr hb hsame hm
              simp only [hm2]
              refine ⟨_, .ok, rfl, hi', by simp, ?_, by simp⟩
              intro _
              refine ⟨by simp [updT], fun t' ht' => by simp [updT, ht'], fun h => (by cases h), fun _ => ⟨nu, by simp [updT]⟩⟩
            · have hfn : absMap s.map nu = none := by
                rcases hf with (h | h) | h
                · exact absurd h h0
                · exact h
                · simp only [URef.user.injEq] at h; exact absurd h.symm hsm
              obtain ⟨m'', hm2, hi'⟩ := ainv_swap s t p u nu oldp mem m' hi hthr hb h0 hfn hm
              simp only [hm2]
              refine ⟨_, .ok, rfl, hi', by simp, ?_, by simp⟩
              intro _
              refine ⟨by simp [updT], fun t' ht' => by simp [updT, ht'], fun h => (by cases h), fun _ => ⟨nu, by simp [updT]⟩⟩

theorem initPool_spec (s : St) (t p : Nat) (nu : UInt64) (mem : Bool) (hi : AInv s)
    (hu : (s.thr t).unit = .null) (hf : fresh s nu) :
    AInv (initPool s t p nu mem).1 ∧
    ((initPool s t p nu mem).2 ≠ .ok → RolledBack s (initPool s t p nu mem).1 t p nu) ∧
    ((initPool s t p nu mem).2 = .ok → ((initPool s t p nu mem).1.thr t).pool = some p) ∧
    (mem = true → nu ≠ s.map.nul → (initPool s t p nu mem).2 = .ok) := by
  simp only [initPool]
  cases hb : s.isBuiltin p with
  | true =>
    simp only [if_true]
    refine ⟨?_, by simp, fun _ => by simp [updT], by simp⟩
    refine ainv_move s _ t none none ⟨.builtin t, some p⟩ hi ?_ (Or.inr rfl) rfl rfl rfl hi.wf ?_ ?_
    · intro u; rw [hu]; simp
    · intro x; simp [oldIs]
    · simp [oldEvs, newEvs]
  | false =>
    simp only [Bool.false_eq_true, if_false]
    rcases newUserUnit_cases s t p nu mem with ⟨h0, he⟩ | ⟨h0, hm, he⟩ | ⟨h0, m', hm, he⟩
    · rw [he]; simp only [reduceCtorEq, if_false]
      subst h0
      exact ⟨ainv_log_other s t p _ hi, fun _ => ⟨rfl, rfl, rfl, Or.inl rfl⟩, by simp, by simp⟩
    · rw [he]; simp only [reduceCtorEq, if_false]
      have hfn : absMap s.map nu = none := by rcases hf with h | h; exact absurd h h0; exact h
      refine ⟨ainv_log_mem s t p nu hi h0 hfn, fun _ => ⟨rfl, rfl, rfl, Or.inr ⟨h0, rfl⟩⟩, by simp, ?_⟩
      intro hmem _
      have := (map_spec s.map nu t mem hi.wf h0 hfn).1 hmem
      rw [hm] at this; cases this
    · rw [he]; simp only [if_true]
      have hfn : absMap s.map nu = none := by rcases hf with h | h; exact absurd h h0; exact h
      refine ⟨ainv_new s t p nu mem m' hi hb h0 hfn hm (by intro u; rw [hu]; simp), by simp,
        fun _ => by simp [updT], by simp⟩

theorem unsetAssoc_spec (s : St) (t : Nat) (hi : AInv s) (hu : (s.thr t).unit ≠ .null) :
    ∃ s', unsetAssoc s t = some s' ∧ AInv s' ∧ s'.thr t = ⟨.null, none⟩ ∧ ∀ t', t' ≠ t → s'.thr t' = s.thr t' := by
  simp only [unsetAssoc]
  cases hun : (s.thr t).unit with
  | null => exact absurd hun hu
  | builtin t0 =>
    refine ⟨_, rfl, ?_, by simp [updT], fun t' ht' => by simp [updT, ht']⟩
    refine ainv_move s _ t none none ⟨.null, none⟩ hi ?_ (Or.inl rfl) rfl rfl rfl hi.wf ?_ ?_
    · intro u; rw [hun]; simp
    · intro x; simp [oldIs]
    · simp [oldEvs, newEvs]
  | user u =>
    obtain ⟨hu0, hmu, hpn, hpu⟩ := hi.user_ok t u hun
    cases hpool : (s.thr t).pool with
    | none => exact absurd hpool hpn
    | some oldp =>
      have hthr : s.thr t = ⟨.user u, some oldp⟩ := by
        cases hx : s.thr t with
        | mk a b => rw [hx] at hun hpool; simp only at hun hpool; rw [hun, hpool]
      obtain ⟨m', hm, hi'⟩ := ainv_drop s t u oldp ⟨.null, none⟩ hi hthr (Or.inl rfl)
      simp only [hm]
      exact ⟨_, rfl, hi', by simp [updT], fun t' ht' => by simp [updT, ht']⟩

theorem poolUse_spec (s : St) (t : Nat) (hi : AInv s) : AInv (poolUse s t) := by
  simp only [poolUse]
  cases hun : (s.thr t).unit with
  | null => exact hi
  | builtin _ => exact hi
  | user u =>
    obtain ⟨hu0, hmu, hpn, hpu⟩ := hi.user_ok t u hun
    cases hpool : (s.thr t).pool with
    | none => exact hi
    | some p =>
      refine ⟨hi.wf, hi.bi, hi.user_ok, hi.map_ok, ?_, ?_, ?_, ?_⟩
      · intro x p' hx; simp only [liveL]; exact hi.bridge x p' hx
      · simp only [LogOK]
        refine ⟨?_, hi.log_ok⟩
        rw [hi.bridge u p hu0]; simp [live, hmu, hpool]
      · intro x hx; simp only [crT, frT]; exact hi.cnt x hx
      · simp only [CountOK]; exact hi.count_ok

/-- `ABT_unit_get_thread` on a legal handle returns the work unit that carries it -/
theorem unitThread_spec (s : St) (u : URef) (hi : AInv s) (hl : okRef s u) :
    ∃ t, unitThread s u = some t ∧ (s.thr t).unit = u := by
  cases u with
  | null => exact absurd hl (by simp [okRef])
  | builtin t => exact ⟨t, rfl, hl⟩
  | user x =>
    obtain ⟨hx0, hm⟩ := hl
    cases hg : absMap s.map x with
    | none => exact absurd hg hm
    | some t =>
      refine ⟨t, ?_, hi.map_ok x t hg⟩
      simp only [absMap, hx0, if_false] at hg
      exact hg

theorem step_spec (s : St) (op : Op) (hi : AInv s) (hl : Legal s op) :
    ∃ s' o, step s op = some (s', o) ∧ AInv s' := by
  cases op with
  | init t p nu mem =>
    exact ⟨_, _, rfl, (initPool_spec s t p nu mem hi hl.1 hl.2).1⟩
  | setPool t p nu mem =>
    obtain ⟨s', rc, h1, h2, _⟩ := setAssocCore_spec s t _ p nu mem hi rfl hl.1 hl.2
    exact ⟨s', .rc rc, by simp [step, setAssoc, h1], h2⟩
  | unitSetPool u p nu mem =>
    obtain ⟨t, ht, htu⟩ := unitThread_spec s u hi hl.1
    have hnn : u ≠ .null := by intro h; rw [h] at hl; exact hl.1
    obtain ⟨s', rc, h1, h2, _⟩ := setAssocCore_spec s t u p nu mem hi htu hnn hl.2
    exact ⟨s', .rc rc, by simp [step, unitSetAssoc, ht, h1], h2⟩
  | unset t =>
    obtain ⟨s', h1, h2, _⟩ := unsetAssoc_spec s t hi hl
    exact ⟨s', .done, by simp [step, h1], h2⟩
  | use t => exact ⟨_, _, rfl, poolUse_spec s t hi⟩
  | lookup u =>
    obtain ⟨t, ht, _⟩ := unitThread_spec s u hi hl
    exact ⟨s, .thread t, by simp [step, ht], hi⟩

/-! ### the NULL value of the table never changes -/

theorem mapThread_nul (m m' : UM) (u : UInt64) (t : Nat) (mem : Bool) (h : mapThread m u t mem = some m') :
    m'.nul = m.nul := by
  simp only [mapThread] at h
  split at h
  · simp only [Option.some.injEq] at h; subst h; rfl
  · split at h
    · simp only [Option.some.injEq] at h; subst h; rfl
    · cases h

theorem unmapThread_nul (m m' : UM) (u : UInt64) (h : unmapThread m u = some m') : m'.nul = m.nul := by
  simp only [unmapThread] at h
  split at h
  · simp only [Option.some.injEq] at h; subst h; rfl
  · cases h

theorem newUserUnit_nul (s : St) (t p : Nat) (nu : UInt64) (mem : Bool) :
    (newUserUnit s t p nu mem).1.map.nul = s.map.nul := by
  rcases newUserUnit_cases s t p nu mem with ⟨_, he⟩ | ⟨_, _, he⟩ | ⟨_, m', hm, he⟩
  · rw [he]
  · rw [he]
  · rw [he]; exact mapThread_nul _ _ _ _ _ hm

theorem setAssocCore_nul (s s' : St) (t : Nat) (unit : URef) (p : Nat) (nu : UInt64) (mem : Bool) (rc : Rc)
    (h : setAssocCore s t unit p nu mem = some (s', rc)) : s'.map.nul = s.map.nul := by
  have hn := newUserUnit_nul s t p nu mem
  cases unit with
  | null =>
    simp only [setAssocCore] at h
    split at h
    · simp only [Option.some.injEq, Prod.mk.injEq] at h; rw [← h.1]
    · cases h
  | builtin t0 =>
    simp only [setAssocCore] at h
    split at h
    · simp only [Option.some.injEq, Prod.mk.injEq] at h; rw [← h.1]
    · split at h
      · simp only [Option.some.injEq, Prod.mk.injEq] at h; rw [← h.1]; exact hn
      · simp only [Option.some.injEq, Prod.mk.injEq] at h; rw [← h.1]; exact hn
  | user u =>
    simp only [setAssocCore] at h
    split at h
    · cases h
    · split at h
      · split at h
        · cases h
        · next m' hm =>
          simp only [Option.some.injEq, Prod.mk.injEq] at h; rw [← h.1]
          exact unmapThread_nul _ _ _ hm
      · split at h
        · simp only [Option.some.injEq, Prod.mk.injEq] at h; rw [← h.1]
        · split at h
          · split at h
            · cases h
            · next m' hm =>
              simp only [Option.some.injEq, Prod.mk.injEq] at h; rw [← h.1]
              exact (unmapThread_nul _ _ _ hm).trans hn
          · simp only [Option.some.injEq, Prod.mk.injEq] at h; rw [← h.1]; exact hn

theorem step_nul (s s' : St) (op : Op) (o : Out) (h : step s op = some (s', o)) : s'.map.nul = s.map.nul := by
  cases op with
  | init t p nu mem =>
    simp only [step, Option.some.injEq, Prod.mk.injEq] at h
    rw [← h.1]
    simp only [initPool]
    split
    · rfl
    · split
      · exact newUserUnit_nul s t p nu mem
      · exact newUserUnit_nul s t p nu mem
  | setPool t p nu mem =>
    simp only [step, setAssoc, Option.map_eq_some_iff] at h
    obtain ⟨⟨s1, r⟩, h1, h2⟩ := h
    simp only [Prod.mk.injEq] at h2
    rw [← h2.1]; exact setAssocCore_nul _ _ _ _ _ _ _ _ h1
  | unitSetPool u p nu mem =>
    simp only [step, unitSetAssoc, Option.map_eq_some_iff] at h
    obtain ⟨⟨s1, r⟩, h1, h2⟩ := h
    simp only [Prod.mk.injEq] at h2
    split at h1
    · cases h1
    · rw [← h2.1]; exact setAssocCore_nul _ _ _ _ _ _ _ _ h1
  | unset t =>
    simp only [step, Option.map_eq_some_iff] at h
    obtain ⟨s1, h1, h2⟩ := h
    simp only [Prod.mk.injEq] at h2
    rw [← h2.1]
    simp only [unsetAssoc] at h1
    split at h1
    · simp only [Option.some.injEq] at h1; rw [← h1]
    · split at h1
      · simp only [Option.some.injEq] at h1; rw [← h1]
      · cases h1
    · split at h1
      · next m' _ hm =>
        simp only [Option.some.injEq] at h1; rw [← h1]
        exact unmapThread_nul _ _ _ hm
      · cases h1
  | use t =>
    simp only [step, Option.some.injEq, Prod.mk.injEq] at h
    rw [← h.1]
    simp only [poolUse]
    split <;> rfl
  | lookup u =>
    simp only [step, Option.map_eq_some_iff] at h
    obtain ⟨t, _, h2⟩ := h
    simp only [Prod.mk.injEq] at h2
    rw [← h2.1]

/-- every operation of a run is legal in the state it is applied to -/
def LegalRun : St → List Op → Prop
  | _, [] => True
  | s, op :: ops => Legal s op ∧ match step s op with
    | some (s1, _) => LegalRun s1 ops
    | none => True

theorem run_spec (ops : List Op) (s : St) (hi : AInv s) (hl : LegalRun s ops) :
    ∃ s' os, runOps s ops = some (s', os) ∧ AInv s' ∧ s'.map.nul = s.map.nul := by
  induction ops generalizing s with
  | nil => exact ⟨s, [], rfl, hi, rfl⟩
  | cons op ops ih =>
    obtain ⟨s1, o, h1, h2⟩ := step_spec s op hi hl.1
    have hl2 : LegalRun s1 ops := by have := hl.2; rw [h1] at this; exact this
    obtain ⟨s2, os, h3, h4, h5⟩ := ih s1 h2 hl2
    exact ⟨s2, o :: os, by simp [runOps, h1, h3], h4, h5.trans (step_nul s s1 op o h1)⟩

/-! ### pure log facts -/

theorem log_balance (z : UInt64) (log : List Ev) (h : LogOK z log) (u : UInt64) (p : Nat) (hu : u ≠ z) :
    creates log u p = frees log u p + (if liveL z log u p = true then 1 else 0) := by
  induction log with
  | nil => simp [creates, frees, liveL]
  | cons e r ih =>
    cases e with
    | create p' t' u' =>
      simp only [LogOK] at h
      have ih' := ih h.2
      simp only [creates, frees, liveL]
      by_cases hc : u' = u ∧ p' = p
      · obtain ⟨h1, h2⟩ := hc; subst h1; subst h2
        have := h.1 hu
        rw [this] at ih'
        simp only [and_self, if_true, hu, ne_eq, not_false_eq_true]
        simp at ih'; omega
      · have h2 : ¬ (u' = u ∧ p' = p ∧ u ≠ z) := fun x => hc ⟨x.1, x.2.1⟩
        simp only [hc, h2, if_false]; omega
    | free p' u' =>
      simp only [LogOK] at h
      have ih' := ih h.2
      simp only [creates, frees, liveL]
      by_cases hc : u' = u ∧ p' = p
      · obtain ⟨h1, h2⟩ := hc; subst h1; subst h2
        rw [h.1] at ih'
        simp only [and_self, if_true]
        simp at ih' ⊢; omega
      · simp only [hc, if_false]; omega
    | use p' u' =>
      simp only [LogOK] at h
      simp only [creates, frees, liveL]
      exact ih h.2

end ArgoVerif.Model.Assoc
