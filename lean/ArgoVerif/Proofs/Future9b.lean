import ArgoVerif.Proofs.Future9
/- Proofs.Future9b — invariant preservation: API calls, part 2 (test, reset, free) and all cases. -/
namespace ArgoVerif.Model.Future
open ArgoVerif
set_option maxHeartbeats 4000000

/-- frame lemma for calls (test, reset, free) -/
theorem inv_enter_b (s : St) (a : Actor) (p : Pc) (h : Inv s) (h0 : s.pc a = .idle)
    (h1 : p = .testCalled ∨ p = .resetCalled ∨ p = .freeCalled) : Inv (setPc s a p) := by
  rcases h1 with rfl | rfl | rfl <;> constructor <;> inv_tac h

theorem inv_stepCall (s s' : St) (a : Actor) (op : Op) (v : Val) (h : Inv s) (hs : stepCall s a op v = some s') : Inv s' := by
  unfold stepCall at hs
  split at hs
  · cases hs
  · rename_i h0
    have h0 : s.pc a = .idle := by simpa using h0
    cases op <;> simp only [] at hs <;> cases hs
    · exact inv_enter_a s a _ _ h h0 (by simp) (by simp)
    · by_cases hk : s.kind a = .task
      · simpa [hk] using inv_enter_a s a .rejected s.arg h h0 (by simp) (by simp)
      · simpa [hk] using inv_enter_a s a .waitCalled s.arg h h0 (by simp) (by simp [hk])
    · exact inv_enter_b s a .testCalled h h0 (by simp)
    · exact inv_enter_b s a .resetCalled h h0 (by simp)
    · exact inv_enter_b s a .freeCalled h h0 (by simp)

end ArgoVerif.Model.Future
