import ArgoVerif.Proofs.MemPoolConcP
/-
Proofs.MemPoolConcS — tear-down / lock invariant and size invariant of Model.MemPoolConc, soundness of
the executable step, and the combined invariant along runs.
-/
namespace ArgoVerif.Model.MemPoolConc
open ArgoVerif

theorem cs_idle : inCS .idle = false := rfl
theorem cs_take (pu : Purpose) : inCS (.take pu) = false := rfl
theorem cs_carving (pu : Purpose) (acc : Bucket) : inCS (.carving pu acc) = false := rfl
theorem cs_needPage (pu : Purpose) (acc : Bucket) : inCS (.needPage pu acc) = false := rfl
theorem cs_havePage (pu : Purpose) (acc : Bucket) (p : Nat) : inCS (.havePage pu acc p) = false := rfl
theorem cs_got (pu : Purpose) (b : Bucket) : inCS (.got pu b) = false := rfl
theorem cs_takeFailed (pu : Purpose) : inCS (.takeFailed pu) = false := rfl
theorem cs_retPart (k : Cont) (b : Bucket) : inCS (.retPart k b) = false := rfl
theorem cs_partPush (k : Cont) (b : Bucket) : inCS (.partPush k b) = true := rfl
theorem cs_partUnlock (k : Cont) : inCS (.partUnlock k) = true := rfl
theorem cs_freeRet (b : Bucket) : inCS (.freeRet b) = false := rfl
theorem cs_destroying (f : List Bucket) (c : Bucket) : inCS (.destroying f c) = false := rfl
theorem cs_doneAlloc (h : Hdr) : inCS (.doneAlloc h) = false := rfl
theorem cs_doneFree : inCS .doneFree = false := rfl
theorem cs_doneDestroy : inCS .doneDestroy = false := rfl
theorem cs_dnext (P : Params) (f : List Bucket) (c : Bucket) : inCS (dnext P f c) = false := by
  simp only [dnext]; split <;> rfl
theorem cs_afterCarve (P : Params) (pu : Purpose) (acc : Bucket) : inCS (afterCarve P pu acc) = false := by
  simp only [afterCarve]; split <;> rfl
theorem cs_contPc (k : Cont) : inCS (contPc k) = false := by cases k <;> rfl

/-- tear-down and lock discipline -/
structure DInv (s : St) : Prop where
  idle : s.phase ≠ .live → ∀ a, s.pc a = .idle
  noLoc : s.phase ≠ .live → ∀ a, s.loc a = none
  walkLifo : s.phase = .walk ∨ s.phase = .dead → s.pageLifo = []
  deadEmpty : s.phase = .dead → s.emptyPages = []
  relLive : s.phase = .live → s.released = []
  known : ∀ a, a ∉ s.known → s.pc a = .idle ∧ s.loc a = none
  lock : ∀ a, inCS (s.pc a) = true ↔ s.partLock = some a

theorem dinv_init : DInv init := by
  constructor <;> simp [init, inCS]

macro "dfin" : tactic => `(tactic| (intros; (try simp only [upd_apply, apply_ite inCS, cs_idle, cs_take, cs_carving,
  cs_needPage, cs_havePage, cs_got, cs_takeFailed, cs_retPart, cs_partPush, cs_partUnlock, cs_freeRet, cs_destroying,
  cs_doneAlloc, cs_doneFree, cs_doneDestroy, cs_dnext, cs_afterCarve, cs_contPc]); grind [upd_apply, addKnown, inCS]))

theorem dinv_step (P : Params) (s : St) (e : Ev) (s' : St) (h : DInv s) (hs : Step P s e s') : DInv s' := by
  have c1 := h.idle; have c2 := h.noLoc; have c3 := h.walkLifo; have c4 := h.deadEmpty; have c5 := h.relLive
  have c6 := h.known; have c7 := h.lock
  cases hs <;> constructor
  all_goals (first | assumption | dfin | skip)

/-- what the size invariant says about the headers an actor holds -/
def pcSizes (P : Params) : Pc → Prop
  | .idle => True
  | .take _ => True
  | .carving _ acc => acc.length < P.perBucket
  | .needPage _ acc => acc.length < P.perBucket
  | .havePage _ acc _ => acc.length < P.perBucket
  | .got _ b => b.length = P.perBucket
  | .takeFailed _ => True
  | .retPart _ b => 0 < b.length ∧ b.length < P.perBucket
  | .partPush _ b => b.length = P.perBucket
  | .partUnlock _ => True
  | .freeRet b => b.length = P.perBucket
  | .destroying f c => (∀ b, b ∈ f → b.length = P.perBucket) ∧ 0 < c.length ∧ c.length ≤ P.perBucket ∧
      (f = [] → c.length = P.perBucket)
  | .doneAlloc _ => True
  | .doneFree => True
  | .doneDestroy => True

def lpSizes (P : Params) : Option LPool → Prop
  | none => True
  | some l => (∀ b, b ∈ l.full → b.length = P.perBucket) ∧ 0 < l.cur.length ∧ l.cur.length ≤ P.perBucket ∧
      l.full.length < P.maxLocal

/-- the size invariant: buckets on the LIFO and below `bucket_index` are full, the current bucket holds 1 ..
per_bucket headers, the partial bucket fewer than per_bucket, the carving loop has fewer than per_bucket -/
structure SInv (P : Params) (s : St) : Prop where
  lifo : ∀ b, b ∈ s.bucketLifo → b.length = P.perBucket
  part : s.part.length < P.perBucket
  loc : ∀ a, lpSizes P (s.loc a)
  pc : ∀ a, pcSizes P (s.pc a)

theorem sinv_init (P : Params) (hP : P.OK) : SInv P init := by
  have := hP.perBucket_pos
  constructor <;> simp [init, lpSizes, pcSizes, *]

theorem pcSizes_dnext (P : Params) (f : List Bucket) (c : Bucket) :
    pcSizes P (dnext P f c) ↔ (∀ b, b ∈ f → b.length = P.perBucket) ∧ 0 < c.length ∧ c.length ≤ P.perBucket := by
  simp only [dnext]; split
  · next h => simp only [pcSizes, h.1, List.not_mem_nil, false_implies, implies_true, true_and]; omega
  · next h => simp only [pcSizes]; grind

theorem pcSizes_afterCarve (P : Params) (pu : Purpose) (acc : Bucket) :
    pcSizes P (afterCarve P pu acc) ↔ acc.length ≤ P.perBucket := by
  simp only [afterCarve]; split <;> simp only [pcSizes] <;> omega

theorem pcSizes_contPc (P : Params) (k : Cont) : pcSizes P (contPc k) := by cases k <;> simp [contPc, pcSizes]

macro "sfin" : tactic => `(tactic| (intros; (try simp only [upd_apply, apply_ite (pcSizes _), apply_ite (lpSizes _)]); grind [numProvided, pcSizes, lpSizes, pcSizes_dnext, pcSizes_afterCarve, pcSizes_contPc, List.length_append, List.length_cons,
    List.length_nil, carved_length, List.length_take, List.length_drop, List.mem_cons, List.mem_append]))

theorem sstep_lifo (P : Params) (hP : P.OK) (s : St) (e : Ev) (s' : St) (h : SInv P s) (hs : Step P s e s') : ∀ b, b ∈ s'.bucketLifo → b.length = P.perBucket := by
  have c1 := h.lifo; have c2 := h.part; have c3 := h.loc; have c4 := h.pc
  have := hP.perBucket_pos; have := hP.maxLocal_pos
  cases hs with
  | @callInit a p1 p2 p3 =>
    have kq := c4 a; rw [p2] at kq; simp only [pcSizes] at kq
    first | assumption | sfin
  | @retInitOk a b p1 p2 =>
    have kq := c4 a; rw [p1] at kq; simp only [pcSizes] at kq
    first | assumption | sfin
  | @retInitFail a p1 =>
    have kq := c4 a; rw [p1] at kq; simp only [pcSizes] at kq
    first | assumption | sfin
  | @callAllocPop a f x x2 c p1 p2 p3 =>
    have kq := c4 a; rw [p2] at kq; simp only [pcSizes] at kq
    have kl := c3 a; rw [p3] at kl; simp only [lpSizes, List.length_cons, List.length_append, List.length_nil, List.mem_append, List.mem_cons, List.not_mem_nil, or_false] at kl
    first | assumption | sfin
  | @callAllocPrev a f b x p1 p2 p3 =>
    have kq := c4 a; rw [p2] at kq; simp only [pcSizes] at kq
    have kl := c3 a; rw [p3] at kl; simp only [lpSizes, List.length_cons, List.length_append, List.length_nil, List.mem_append, List.mem_cons, List.not_mem_nil, or_false] at kl
    first | assumption | sfin
  | @callAllocTake a x p1 p2 p3 =>
    have kq := c4 a; rw [p2] at kq; simp only [pcSizes] at kq
    have kl := c3 a; rw [p3] at kl; simp only [lpSizes, List.length_cons, List.length_append, List.length_nil, List.mem_append, List.mem_cons, List.not_mem_nil, or_false] at kl
    first | assumption | sfin
  | @retAllocTake a b x p1 p2 =>
    have kq := c4 a; rw [p1] at kq; simp only [pcSizes] at kq
    have kl := c3 a; rw [p2] at kl; simp only [lpSizes, List.length_cons, List.length_append, List.length_nil, List.mem_append, List.mem_cons, List.not_mem_nil, or_false] at kl
    first | assumption | sfin
  | @retAllocFail a p1 =>
    have kq := c4 a; rw [p1] at kq; simp only [pcSizes] at kq
    first | assumption | sfin
  | @retAllocDone a x p1 =>
    have kq := c4 a; rw [p1] at kq; simp only [pcSizes] at kq
    first | assumption | sfin
  | @popBucketSome a pu b rest p1 p2 =>
    have kq := c4 a; rw [p1] at kq; simp only [pcSizes] at kq
    have kf := c1; rw [p2] at kf; simp only [List.mem_cons] at kf
    first | assumption | sfin
  | @popBucketNone a pu p1 p2 =>
    have kq := c4 a; rw [p1] at kq; simp only [pcSizes] at kq
    first | assumption | sfin
  | @popPageSome a pu acc p rest p1 p2 =>
    have kq := c4 a; rw [p1] at kq; simp only [pcSizes] at kq
    first | assumption | sfin
  | @popPageNone a pu acc p1 p2 =>
    have kq := c4 a; rw [p1] at kq; simp only [pcSizes] at kq
    first | assumption | sfin
  | @allocOk a pu acc p1 =>
    have kq := c4 a; rw [p1] at kq; simp only [pcSizes] at kq
    first | assumption | sfin
  | @allocFailEmpty a pu p1 =>
    have kq := c4 a; rw [p1] at kq; simp only [pcSizes] at kq
    first | assumption | sfin
  | @allocFailPart a pu x acc p1 =>
    have kq := c4 a; rw [p1] at kq; simp only [pcSizes] at kq
    first | assumption | sfin
  | @carveLifo a pu acc p p1 p2 p3 =>
    have kq := c4 a; rw [p1] at kq; simp only [pcSizes] at kq
    first | assumption | sfin
  | @carveEmpty a pu acc p p1 p2 p3 =>
    have kq := c4 a; rw [p1] at kq; simp only [pcSizes] at kq
    first | assumption | sfin
  | @lockPartEmpty a k b p1 p2 p3 =>
    have kq := c4 a; rw [p1] at kq; simp only [pcSizes] at kq
    first | assumption | sfin
  | @lockPartSmall a k b p1 p2 p3 p4 =>
    have kq := c4 a; rw [p1] at kq; simp only [pcSizes] at kq
    first | assumption | sfin
  | @lockPartFull a k b p1 p2 p3 p4 =>
    have kq := c4 a; rw [p1] at kq; simp only [pcSizes] at kq
    first | assumption | sfin
  | @pushBucketPart a k b p1 =>
    have kq := c4 a; rw [p1] at kq; simp only [pcSizes] at kq
    first | assumption | sfin
  | @unlockPart a k p1 =>
    have kq := c4 a; rw [p1] at kq; simp only [pcSizes] at kq
    first | assumption | sfin
  | @callFreePush a x f c p1 p2 p3 p4 p5 =>
    have kq := c4 a; rw [p2] at kq; simp only [pcSizes] at kq
    have kl := c3 a; rw [p4] at kl; simp only [lpSizes, List.length_cons, List.length_append, List.length_nil, List.mem_append, List.mem_cons, List.not_mem_nil, or_false] at kl
    first | assumption | sfin
  | @callFreeNew a x f c p1 p2 p3 p4 p5 p6 =>
    have kq := c4 a; rw [p2] at kq; simp only [pcSizes] at kq
    have kl := c3 a; rw [p4] at kl; simp only [lpSizes, List.length_cons, List.length_append, List.length_nil, List.mem_append, List.mem_cons, List.not_mem_nil, or_false] at kl
    first | assumption | sfin
  | @callFreeRet a x f c b0 rest p1 p2 p3 p4 p5 p6 p7 =>
    have kq := c4 a; rw [p2] at kq; simp only [pcSizes] at kq
    have kl := c3 a; rw [p4] at kl; simp only [lpSizes, List.length_cons, List.length_append, List.length_nil, List.mem_append, List.mem_cons, List.not_mem_nil, or_false] at kl
    have kk : ∀ y, y ∈ b0 :: rest ↔ y ∈ f ∨ y = c := by intro y; rw [← p7]; simp
    have kn : rest.length = f.length := by have := congrArg List.length p7; simp at this; omega
    simp only [List.mem_cons] at kk; clear p7
    first | assumption | sfin
  | @pushBucketFree a b p1 =>
    have kq := c4 a; rw [p1] at kq; simp only [pcSizes] at kq
    first | assumption | sfin
  | @retFree a p1 =>
    have kq := c4 a; rw [p1] at kq; simp only [pcSizes] at kq
    first | assumption | sfin
  | @callDestroy a f c p1 p2 p3 =>
    have kq := c4 a; rw [p2] at kq; simp only [pcSizes] at kq
    have kl := c3 a; rw [p3] at kl; simp only [lpSizes, List.length_cons, List.length_append, List.length_nil, List.mem_append, List.mem_cons, List.not_mem_nil, or_false] at kl
    first | assumption | sfin
  | @pushBucketDestroy a b f c p1 =>
    have kq := c4 a; rw [p1] at kq; simp only [pcSizes] at kq
    first | assumption | sfin
  | @pushBucketLast a c p1 =>
    have kq := c4 a; rw [p1] at kq; simp only [pcSizes] at kq
    first | assumption | sfin
  | @retDestroy a p1 =>
    have kq := c4 a; rw [p1] at kq; simp only [pcSizes] at kq
    first | assumption | sfin
  | @destroyStart  p1 p2 p3 =>
    first | assumption | sfin
  | @relLifo p rest p1 p2 =>
    first | assumption | sfin
  | @lifoEmpty  p1 p2 =>
    first | assumption | sfin
  | @relEmpty p rest p1 p2 =>
    first | assumption | sfin
  | @destroyEnd  p1 p2 =>
    first | assumption | sfin

theorem sstep_part (P : Params) (hP : P.OK) (s : St) (e : Ev) (s' : St) (h : SInv P s) (hs : Step P s e s') : s'.part.length < P.perBucket := by
  have c1 := h.lifo; have c2 := h.part; have c3 := h.loc; have c4 := h.pc
  have := hP.perBucket_pos; have := hP.maxLocal_pos
  cases hs with
  | @callInit a p1 p2 p3 =>
    have kq := c4 a; rw [p2] at kq; simp only [pcSizes] at kq
    first | assumption | sfin
  | @retInitOk a b p1 p2 =>
    have kq := c4 a; rw [p1] at kq; simp only [pcSizes] at kq
    first | assumption | sfin
  | @retInitFail a p1 =>
    have kq := c4 a; rw [p1] at kq; simp only [pcSizes] at kq
    first | assumption | sfin
  | @callAllocPop a f x x2 c p1 p2 p3 =>
    have kq := c4 a; rw [p2] at kq; simp only [pcSizes] at kq
    have kl := c3 a; rw [p3] at kl; simp only [lpSizes, List.length_cons, List.length_append, List.length_nil, List.mem_append, List.mem_cons, List.not_mem_nil, or_false] at kl
    first | assumption | sfin
  | @callAllocPrev a f b x p1 p2 p3 =>
    have kq := c4 a; rw [p2] at kq; simp only [pcSizes] at kq
    have kl := c3 a; rw [p3] at kl; simp only [lpSizes, List.length_cons, List.length_append, List.length_nil, List.mem_append, List.mem_cons, List.not_mem_nil, or_false] at kl
    first | assumption | sfin
  | @callAllocTake a x p1 p2 p3 =>
    have kq := c4 a; rw [p2] at kq; simp only [pcSizes] at kq
    have kl := c3 a; rw [p3] at kl; simp only [lpSizes, List.length_cons, List.length_append, List.length_nil, List.mem_append, List.mem_cons, List.not_mem_nil, or_false] at kl
    first | assumption | sfin
  | @retAllocTake a b x p1 p2 =>
    have kq := c4 a; rw [p1] at kq; simp only [pcSizes] at kq
    have kl := c3 a; rw [p2] at kl; simp only [lpSizes, List.length_cons, List.length_append, List.length_nil, List.mem_append, List.mem_cons, List.not_mem_nil, or_false] at kl
    first | assumption | sfin
  | @retAllocFail a p1 =>
    have kq := c4 a; rw [p1] at kq; simp only [pcSizes] at kq
    first | assumption | sfin
  | @retAllocDone a x p1 =>
    have kq := c4 a; rw [p1] at kq; simp only [pcSizes] at kq
    first | assumption | sfin
  | @popBucketSome a pu b rest p1 p2 =>
    have kq := c4 a; rw [p1] at kq; simp only [pcSizes] at kq
    have kf := c1; rw [p2] at kf; simp only [List.mem_cons] at kf
    first | assumption | sfin
  | @popBucketNone a pu p1 p2 =>
    have kq := c4 a; rw [p1] at kq; simp only [pcSizes] at kq
    first | assumption | sfin
  | @popPageSome a pu acc p rest p1 p2 =>
    have kq := c4 a; rw [p1] at kq; simp only [pcSizes] at kq
    first | assumption | sfin
  | @popPageNone a pu acc p1 p2 =>
    have kq := c4 a; rw [p1] at kq; simp only [pcSizes] at kq
    first | assumption | sfin
  | @allocOk a pu acc p1 =>
    have kq := c4 a; rw [p1] at kq; simp only [pcSizes] at kq
    first | assumption | sfin
  | @allocFailEmpty a pu p1 =>
    have kq := c4 a; rw [p1] at kq; simp only [pcSizes] at kq
    first | assumption | sfin
  | @allocFailPart a pu x acc p1 =>
    have kq := c4 a; rw [p1] at kq; simp only [pcSizes] at kq
    first | assumption | sfin
  | @carveLifo a pu acc p p1 p2 p3 =>
    have kq := c4 a; rw [p1] at kq; simp only [pcSizes] at kq
    first | assumption | sfin
  | @carveEmpty a pu acc p p1 p2 p3 =>
    have kq := c4 a; rw [p1] at kq; simp only [pcSizes] at kq
    first | assumption | sfin
  | @lockPartEmpty a k b p1 p2 p3 =>
    have kq := c4 a; rw [p1] at kq; simp only [pcSizes] at kq
    first | assumption | sfin
  | @lockPartSmall a k b p1 p2 p3 p4 =>
    have kq := c4 a; rw [p1] at kq; simp only [pcSizes] at kq
    first | assumption | sfin
  | @lockPartFull a k b p1 p2 p3 p4 =>
    have kq := c4 a; rw [p1] at kq; simp only [pcSizes] at kq
    first | assumption | sfin
  | @pushBucketPart a k b p1 =>
    have kq := c4 a; rw [p1] at kq; simp only [pcSizes] at kq
    first | assumption | sfin
  | @unlockPart a k p1 =>
    have kq := c4 a; rw [p1] at kq; simp only [pcSizes] at kq
    first | assumption | sfin
  | @callFreePush a x f c p1 p2 p3 p4 p5 =>
    have kq := c4 a; rw [p2] at kq; simp only [pcSizes] at kq
    have kl := c3 a; rw [p4] at kl; simp only [lpSizes, List.length_cons, List.length_append, List.length_nil, List.mem_append, List.mem_cons, List.not_mem_nil, or_false] at kl
    first | assumption | sfin
  | @callFreeNew a x f c p1 p2 p3 p4 p5 p6 =>
    have kq := c4 a; rw [p2] at kq; simp only [pcSizes] at kq
    have kl := c3 a; rw [p4] at kl; simp only [lpSizes, List.length_cons, List.length_append, List.length_nil, List.mem_append, List.mem_cons, List.not_mem_nil, or_false] at kl
    first | assumption | sfin
  | @callFreeRet a x f c b0 rest p1 p2 p3 p4 p5 p6 p7 =>
    have kq := c4 a; rw [p2] at kq; simp only [pcSizes] at kq
    have kl := c3 a; rw [p4] at kl; simp only [lpSizes, List.length_cons, List.length_append, List.length_nil, List.mem_append, List.mem_cons, List.not_mem_nil, or_false] at kl
    have kk : ∀ y, y ∈ b0 :: rest ↔ y ∈ f ∨ y = c := by intro y; rw [← p7]; simp
    have kn : rest.length = f.length := by have := congrArg List.length p7; simp at this; omega
    simp only [List.mem_cons] at kk; clear p7
    first | assumption | sfin
  | @pushBucketFree a b p1 =>
    have kq := c4 a; rw [p1] at kq; simp only [pcSizes] at kq
    first | assumption | sfin
  | @retFree a p1 =>
    have kq := c4 a; rw [p1] at kq; simp only [pcSizes] at kq
    first | assumption | sfin
  | @callDestroy a f c p1 p2 p3 =>
    have kq := c4 a; rw [p2] at kq; simp only [pcSizes] at kq
    have kl := c3 a; rw [p3] at kl; simp only [lpSizes, List.length_cons, List.length_append, List.length_nil, List.mem_append, List.mem_cons, List.not_mem_nil, or_false] at kl
    first | assumption | sfin
  | @pushBucketDestroy a b f c p1 =>
    have kq := c4 a; rw [p1] at kq; simp only [pcSizes] at kq
    first | assumption | sfin
  | @pushBucketLast a c p1 =>
    have kq := c4 a; rw [p1] at kq; simp only [pcSizes] at kq
    first | assumption | sfin
  | @retDestroy a p1 =>
    have kq := c4 a; rw [p1] at kq; simp only [pcSizes] at kq
    first | assumption | sfin
  | @destroyStart  p1 p2 p3 =>
    first | assumption | sfin
  | @relLifo p rest p1 p2 =>
    first | assumption | sfin
  | @lifoEmpty  p1 p2 =>
    first | assumption | sfin
  | @relEmpty p rest p1 p2 =>
    first | assumption | sfin
  | @destroyEnd  p1 p2 =>
    first | assumption | sfin

theorem sstep_loc (P : Params) (hP : P.OK) (s : St) (e : Ev) (s' : St) (h : SInv P s) (hs : Step P s e s') : ∀ a, lpSizes P (s'.loc a) := by
  have c1 := h.lifo; have c2 := h.part; have c3 := h.loc; have c4 := h.pc
  have := hP.perBucket_pos; have := hP.maxLocal_pos
  cases hs with
  | @callInit a p1 p2 p3 =>
    have kq := c4 a; rw [p2] at kq; simp only [pcSizes] at kq
    first | assumption | sfin
  | @retInitOk a b p1 p2 =>
    have kq := c4 a; rw [p1] at kq; simp only [pcSizes] at kq
    first | assumption | sfin
  | @retInitFail a p1 =>
    have kq := c4 a; rw [p1] at kq; simp only [pcSizes] at kq
    first | assumption | sfin
  | @callAllocPop a f x x2 c p1 p2 p3 =>
    have kq := c4 a; rw [p2] at kq; simp only [pcSizes] at kq
    have kl := c3 a; rw [p3] at kl; simp only [lpSizes, List.length_cons, List.length_append, List.length_nil, List.mem_append, List.mem_cons, List.not_mem_nil, or_false] at kl
    first | assumption | sfin
  | @callAllocPrev a f b x p1 p2 p3 =>
    have kq := c4 a; rw [p2] at kq; simp only [pcSizes] at kq
    have kl := c3 a; rw [p3] at kl; simp only [lpSizes, List.length_cons, List.length_append, List.length_nil, List.mem_append, List.mem_cons, List.not_mem_nil, or_false] at kl
    first | assumption | sfin
  | @callAllocTake a x p1 p2 p3 =>
    have kq := c4 a; rw [p2] at kq; simp only [pcSizes] at kq
    have kl := c3 a; rw [p3] at kl; simp only [lpSizes, List.length_cons, List.length_append, List.length_nil, List.mem_append, List.mem_cons, List.not_mem_nil, or_false] at kl
    first | assumption | sfin
  | @retAllocTake a b x p1 p2 =>
    have kq := c4 a; rw [p1] at kq; simp only [pcSizes] at kq
    have kl := c3 a; rw [p2] at kl; simp only [lpSizes, List.length_cons, List.length_append, List.length_nil, List.mem_append, List.mem_cons, List.not_mem_nil, or_false] at kl
    first | assumption | sfin
  | @retAllocFail a p1 =>
    have kq := c4 a; rw [p1] at kq; simp only [pcSizes] at kq
    first | assumption | sfin
  | @retAllocDone a x p1 =>
    have kq := c4 a; rw [p1] at kq; simp only [pcSizes] at kq
    first | assumption | sfin
  | @popBucketSome a pu b rest p1 p2 =>
    have kq := c4 a; rw [p1] at kq; simp only [pcSizes] at kq
    have kf := c1; rw [p2] at kf; simp only [List.mem_cons] at kf
    first | assumption | sfin
  | @popBucketNone a pu p1 p2 =>
    have kq := c4 a; rw [p1] at kq; simp only [pcSizes] at kq
    first | assumption | sfin
  | @popPageSome a pu acc p rest p1 p2 =>
    have kq := c4 a; rw [p1] at kq; simp only [pcSizes] at kq
    first | assumption | sfin
  | @popPageNone a pu acc p1 p2 =>
    have kq := c4 a; rw [p1] at kq; simp only [pcSizes] at kq
    first | assumption | sfin
  | @allocOk a pu acc p1 =>
    have kq := c4 a; rw [p1] at kq; simp only [pcSizes] at kq
    first | assumption | sfin
  | @allocFailEmpty a pu p1 =>
    have kq := c4 a; rw [p1] at kq; simp only [pcSizes] at kq
    first | assumption | sfin
  | @allocFailPart a pu x acc p1 =>
    have kq := c4 a; rw [p1] at kq; simp only [pcSizes] at kq
    first | assumption | sfin
  | @carveLifo a pu acc p p1 p2 p3 =>
    have kq := c4 a; rw [p1] at kq; simp only [pcSizes] at kq
    first | assumption | sfin
  | @carveEmpty a pu acc p p1 p2 p3 =>
    have kq := c4 a; rw [p1] at kq; simp only [pcSizes] at kq
    first | assumption | sfin
  | @lockPartEmpty a k b p1 p2 p3 =>
    have kq := c4 a; rw [p1] at kq; simp only [pcSizes] at kq
    first | assumption | sfin
  | @lockPartSmall a k b p1 p2 p3 p4 =>
    have kq := c4 a; rw [p1] at kq; simp only [pcSizes] at kq
    first | assumption | sfin
  | @lockPartFull a k b p1 p2 p3 p4 =>
    have kq := c4 a; rw [p1] at kq; simp only [pcSizes] at kq
    first | assumption | sfin
  | @pushBucketPart a k b p1 =>
    have kq := c4 a; rw [p1] at kq; simp only [pcSizes] at kq
    first | assumption | sfin
  | @unlockPart a k p1 =>
    have kq := c4 a; rw [p1] at kq; simp only [pcSizes] at kq
    first | assumption | sfin
  | @callFreePush a x f c p1 p2 p3 p4 p5 =>
    have kq := c4 a; rw [p2] at kq; simp only [pcSizes] at kq
    have kl := c3 a; rw [p4] at kl; simp only [lpSizes, List.length_cons, List.length_append, List.length_nil, List.mem_append, List.mem_cons, List.not_mem_nil, or_false] at kl
    first | assumption | sfin
  | @callFreeNew a x f c p1 p2 p3 p4 p5 p6 =>
    have kq := c4 a; rw [p2] at kq; simp only [pcSizes] at kq
    have kl := c3 a; rw [p4] at kl; simp only [lpSizes, List.length_cons, List.length_append, List.length_nil, List.mem_append, List.mem_cons, List.not_mem_nil, or_false] at kl
    first | assumption | sfin
  | @callFreeRet a x f c b0 rest p1 p2 p3 p4 p5 p6 p7 =>
    have kq := c4 a; rw [p2] at kq; simp only [pcSizes] at kq
    have kl := c3 a; rw [p4] at kl; simp only [lpSizes, List.length_cons, List.length_append, List.length_nil, List.mem_append, List.mem_cons, List.not_mem_nil, or_false] at kl
    have kk : ∀ y, y ∈ b0 :: rest ↔ y ∈ f ∨ y = c := by intro y; rw [← p7]; simp
    have kn : rest.length = f.length := by have := congrArg List.length p7; simp at this; omega
    simp only [List.mem_cons] at kk; clear p7
    first | assumption | sfin
  | @pushBucketFree a b p1 =>
    have kq := c4 a; rw [p1] at kq; simp only [pcSizes] at kq
    first | assumption | sfin
  | @retFree a p1 =>
    have kq := c4 a; rw [p1] at kq; simp only [pcSizes] at kq
    first | assumption | sfin
  | @callDestroy a f c p1 p2 p3 =>
    have kq := c4 a; rw [p2] at kq; simp only [pcSizes] at kq
    have kl := c3 a; rw [p3] at kl; simp only [lpSizes, List.length_cons, List.length_append, List.length_nil, List.mem_append, List.mem_cons, List.not_mem_nil, or_false] at kl
    first | assumption | sfin
  | @pushBucketDestroy a b f c p1 =>
    have kq := c4 a; rw [p1] at kq; simp only [pcSizes] at kq
    first | assumption | sfin
  | @pushBucketLast a c p1 =>
    have kq := c4 a; rw [p1] at kq; simp only [pcSizes] at kq
    first | assumption | sfin
  | @retDestroy a p1 =>
    have kq := c4 a; rw [p1] at kq; simp only [pcSizes] at kq
    first | assumption | sfin
  | @destroyStart  p1 p2 p3 =>
    first | assumption | sfin
  | @relLifo p rest p1 p2 =>
    first | assumption | sfin
  | @lifoEmpty  p1 p2 =>
    first | assumption | sfin
  | @relEmpty p rest p1 p2 =>
    first | assumption | sfin
  | @destroyEnd  p1 p2 =>
    first | assumption | sfin

theorem sstep_pc (P : Params) (hP : P.OK) (s : St) (e : Ev) (s' : St) (h : SInv P s) (hs : Step P s e s') : ∀ a, pcSizes P (s'.pc a) := by
  have c1 := h.lifo; have c2 := h.part; have c3 := h.loc; have c4 := h.pc
  have := hP.perBucket_pos; have := hP.maxLocal_pos
  cases hs with
  | @callInit a p1 p2 p3 =>
    have kq := c4 a; rw [p2] at kq; simp only [pcSizes] at kq
    first | assumption | sfin
  | @retInitOk a b p1 p2 =>
    have kq := c4 a; rw [p1] at kq; simp only [pcSizes] at kq
    first | assumption | sfin
  | @retInitFail a p1 =>
    have kq := c4 a; rw [p1] at kq; simp only [pcSizes] at kq
    first | assumption | sfin
  | @callAllocPop a f x x2 c p1 p2 p3 =>
    have kq := c4 a; rw [p2] at kq; simp only [pcSizes] at kq
    have kl := c3 a; rw [p3] at kl; simp only [lpSizes, List.length_cons, List.length_append, List.length_nil, List.mem_append, List.mem_cons, List.not_mem_nil, or_false] at kl
    first | assumption | sfin
  | @callAllocPrev a f b x p1 p2 p3 =>
    have kq := c4 a; rw [p2] at kq; simp only [pcSizes] at kq
    have kl := c3 a; rw [p3] at kl; simp only [lpSizes, List.length_cons, List.length_append, List.length_nil, List.mem_append, List.mem_cons, List.not_mem_nil, or_false] at kl
    first | assumption | sfin
  | @callAllocTake a x p1 p2 p3 =>
    have kq := c4 a; rw [p2] at kq; simp only [pcSizes] at kq
    have kl := c3 a; rw [p3] at kl; simp only [lpSizes, List.length_cons, List.length_append, List.length_nil, List.mem_append, List.mem_cons, List.not_mem_nil, or_false] at kl
    first | assumption | sfin
  | @retAllocTake a b x p1 p2 =>
    have kq := c4 a; rw [p1] at kq; simp only [pcSizes] at kq
    have kl := c3 a; rw [p2] at kl; simp only [lpSizes, List.length_cons, List.length_append, List.length_nil, List.mem_append, List.mem_cons, List.not_mem_nil, or_false] at kl
    first | assumption | sfin
  | @retAllocFail a p1 =>
    have kq := c4 a; rw [p1] at kq; simp only [pcSizes] at kq
    first | assumption | sfin
  | @retAllocDone a x p1 =>
    have kq := c4 a; rw [p1] at kq; simp only [pcSizes] at kq
    first | assumption | sfin
  | @popBucketSome a pu b rest p1 p2 =>
    have kq := c4 a; rw [p1] at kq; simp only [pcSizes] at kq
    have kf := c1; rw [p2] at kf; simp only [List.mem_cons] at kf
    first | assumption | sfin
  | @popBucketNone a pu p1 p2 =>
    have kq := c4 a; rw [p1] at kq; simp only [pcSizes] at kq
    first | assumption | sfin
  | @popPageSome a pu acc p rest p1 p2 =>
    have kq := c4 a; rw [p1] at kq; simp only [pcSizes] at kq
    first | assumption | sfin
  | @popPageNone a pu acc p1 p2 =>
    have kq := c4 a; rw [p1] at kq; simp only [pcSizes] at kq
    first | assumption | sfin
  | @allocOk a pu acc p1 =>
    have kq := c4 a; rw [p1] at kq; simp only [pcSizes] at kq
    first | assumption | sfin
  | @allocFailEmpty a pu p1 =>
    have kq := c4 a; rw [p1] at kq; simp only [pcSizes] at kq
    first | assumption | sfin
  | @allocFailPart a pu x acc p1 =>
    have kq := c4 a; rw [p1] at kq; simp only [pcSizes] at kq
    first | assumption | sfin
  | @carveLifo a pu acc p p1 p2 p3 =>
    have kq := c4 a; rw [p1] at kq; simp only [pcSizes] at kq
    first | assumption | sfin
  | @carveEmpty a pu acc p p1 p2 p3 =>
    have kq := c4 a; rw [p1] at kq; simp only [pcSizes] at kq
    first | assumption | sfin
  | @lockPartEmpty a k b p1 p2 p3 =>
    have kq := c4 a; rw [p1] at kq; simp only [pcSizes] at kq
    first | assumption | sfin
  | @lockPartSmall a k b p1 p2 p3 p4 =>
    have kq := c4 a; rw [p1] at kq; simp only [pcSizes] at kq
    first | assumption | sfin
  | @lockPartFull a k b p1 p2 p3 p4 =>
    have kq := c4 a; rw [p1] at kq; simp only [pcSizes] at kq
    first | assumption | sfin
  | @pushBucketPart a k b p1 =>
    have kq := c4 a; rw [p1] at kq; simp only [pcSizes] at kq
    first | assumption | sfin
  | @unlockPart a k p1 =>
    have kq := c4 a; rw [p1] at kq; simp only [pcSizes] at kq
    first | assumption | sfin
  | @callFreePush a x f c p1 p2 p3 p4 p5 =>
    have kq := c4 a; rw [p2] at kq; simp only [pcSizes] at kq
    have kl := c3 a; rw [p4] at kl; simp only [lpSizes, List.length_cons, List.length_append, List.length_nil, List.mem_append, List.mem_cons, List.not_mem_nil, or_false] at kl
    first | assumption | sfin
  | @callFreeNew a x f c p1 p2 p3 p4 p5 p6 =>
    have kq := c4 a; rw [p2] at kq; simp only [pcSizes] at kq
    have kl := c3 a; rw [p4] at kl; simp only [lpSizes, List.length_cons, List.length_append, List.length_nil, List.mem_append, List.mem_cons, List.not_mem_nil, or_false] at kl
    first | assumption | sfin
  | @callFreeRet a x f c b0 rest p1 p2 p3 p4 p5 p6 p7 =>
    have kq := c4 a; rw [p2] at kq; simp only [pcSizes] at kq
    have kl := c3 a; rw [p4] at kl; simp only [lpSizes, List.length_cons, List.length_append, List.length_nil, List.mem_append, List.mem_cons, List.not_mem_nil, or_false] at kl
    have kk : ∀ y, y ∈ b0 :: rest ↔ y ∈ f ∨ y = c := by intro y; rw [← p7]; simp
    have kn : rest.length = f.length := by have := congrArg List.length p7; simp at this; omega
    simp only [List.mem_cons] at kk; clear p7
    first | assumption | sfin
  | @pushBucketFree a b p1 =>
    have kq := c4 a; rw [p1] at kq; simp only [pcSizes] at kq
    first | assumption | sfin
  | @retFree a p1 =>
    have kq := c4 a; rw [p1] at kq; simp only [pcSizes] at kq
    first | assumption | sfin
  | @callDestroy a f c p1 p2 p3 =>
    have kq := c4 a; rw [p2] at kq; simp only [pcSizes] at kq
    have kl := c3 a; rw [p3] at kl; simp only [lpSizes, List.length_cons, List.length_append, List.length_nil, List.mem_append, List.mem_cons, List.not_mem_nil, or_false] at kl
    first | assumption | sfin
  | @pushBucketDestroy a b f c p1 =>
    have kq := c4 a; rw [p1] at kq; simp only [pcSizes] at kq
    first | assumption | sfin
  | @pushBucketLast a c p1 =>
    have kq := c4 a; rw [p1] at kq; simp only [pcSizes] at kq
    first | assumption | sfin
  | @retDestroy a p1 =>
    have kq := c4 a; rw [p1] at kq; simp only [pcSizes] at kq
    first | assumption | sfin
  | @destroyStart  p1 p2 p3 =>
    first | assumption | sfin
  | @relLifo p rest p1 p2 =>
    first | assumption | sfin
  | @lifoEmpty  p1 p2 =>
    first | assumption | sfin
  | @relEmpty p rest p1 p2 =>
    first | assumption | sfin
  | @destroyEnd  p1 p2 =>
    first | assumption | sfin

theorem sinv_step (P : Params) (hP : P.OK) (s : St) (e : Ev) (s' : St) (h : SInv P s) (hs : Step P s e s') : SInv P s' :=
  ⟨sstep_lifo P hP s e s' h hs, sstep_part P hP s e s' h hs, sstep_loc P hP s e s' h hs, sstep_pc P hP s e s' h hs⟩

end ArgoVerif.Model.MemPoolConc
