import ArgoVerif.Model.KeyId
/- Proofs.KeyId — invariant of the key-id allocation model. -/
namespace ArgoVerif.Model.KeyId
open ArgoVerif

structure Inv (s : St) : Prop where
  range : ∀ id, id ∈ s.issued → s.start ≤ id ∧ id < s.g
  nodup : s.issued.Nodup
  rnodup : s.returned.Nodup
  rsub : ∀ id, id ∈ s.returned → id ∈ s.issued
  got : ∀ a id, s.pc a = .got id → id ∈ s.issued ∧ id ∉ s.returned
  uniq : ∀ a a' id, s.pc a = .got id → s.pc a' = .got id → a = a'
  mono : s.start ≤ s.g

theorem inv_init (start : Nat) : Inv (init start) := by
  constructor <;> simp [init]

theorem inv_step (s : St) (e : Ev) (s' : St) (h : Inv s) (hs : exec s e = some s') : Inv s' := by
  cases e with
  | call a =>
    simp only [exec] at hs
    split at hs
    · simp only [Option.some.injEq] at hs; subst hs
      constructor
      · exact h.range
      · exact h.nodup
      · exact h.rnodup
      · exact h.rsub
      · intro a' id hp; have := h.got a' id; grind [upd]
      · intro a1 a2 id h1 h2; have := h.uniq a1 a2 id; grind [upd]
      · exact h.mono
    · cases hs
  | fetchAdd a old =>
    simp only [exec] at hs
    split at hs
    · next hc =>
      obtain ⟨hpc, ho⟩ := hc; subst ho
      simp only [Option.some.injEq] at hs; subst hs
      have hfresh : s.g ∉ s.issued := fun hm => Nat.lt_irrefl _ (h.range _ hm).2
      constructor
      · intro id hid
        simp only [List.mem_cons] at hid
        rcases hid with hid | hid
        · subst hid; exact ⟨h.mono, Nat.lt_succ_self _⟩
        · have := h.range id hid; exact ⟨this.1, Nat.lt_succ_of_lt this.2⟩
      · exact List.nodup_cons.mpr ⟨hfresh, h.nodup⟩
      · exact h.rnodup
      · intro id hid; exact List.mem_cons_of_mem _ (h.rsub id hid)
      · intro a' id hp
        by_cases ha : a' = a
        · subst ha
          simp only [upd_same, Pc.got.injEq] at hp; subst hp
          exact ⟨by simp, fun hr => hfresh (h.rsub _ hr)⟩
        · simp only [upd, ha, if_false] at hp
          have := h.got a' id hp
          exact ⟨List.mem_cons_of_mem _ this.1, this.2⟩
      · intro a1 a2 id h1 h2
        by_cases e1 : a1 = a <;> by_cases e2 : a2 = a
        · rw [e1, e2]
        · subst e1
          simp only [upd_same, Pc.got.injEq] at h1; subst h1
          simp only [upd, e2, if_false] at h2
          exact absurd (h.got a2 _ h2).1 hfresh
        · subst e2
          simp only [upd_same, Pc.got.injEq] at h2; subst h2
          simp only [upd, e1, if_false] at h1
          exact absurd (h.got a1 _ h1).1 hfresh
        · simp only [upd, e1, e2, if_false] at h1 h2; exact h.uniq a1 a2 id h1 h2
      · exact Nat.le_succ_of_le h.mono
    · cases hs
  | ret a id =>
    simp only [exec] at hs
    split at hs
    · next hpc =>
      simp only [Option.some.injEq] at hs; subst hs
      have hg := h.got a id hpc
      constructor
      · exact h.range
      · exact h.nodup
      · exact List.nodup_cons.mpr ⟨hg.2, h.rnodup⟩
      · intro x hx
        simp only [List.mem_cons] at hx
        rcases hx with hx | hx
        · subst hx; exact hg.1
        · exact h.rsub x hx
      · intro a' id' hp
        by_cases ha : a' = a
        · subst ha; simp [upd_same] at hp
        · simp only [upd, ha, if_false] at hp
          have := h.got a' id' hp
          refine ⟨this.1, ?_⟩
          simp only [List.mem_cons, not_or]
          refine ⟨?_, this.2⟩
          intro hx; subst hx
          exact ha (h.uniq a' a id' hp hpc)
      · intro a1 a2 id' h1 h2
        by_cases e1 : a1 = a
        · subst e1; simp [upd_same] at h1
        · by_cases e2 : a2 = a
          · subst e2; simp [upd_same] at h2
          · simp only [upd, e1, e2, if_false] at h1 h2; exact h.uniq a1 a2 id' h1 h2
      · exact h.mono
    · cases hs

theorem inv_run (start : Nat) (tr : List Ev) (s : St) (h : (machine start).run (init start) tr = some s) : Inv s :=
  Machine.invariant_run (machine start) Inv (fun s e s' hi hs => inv_step s e s' hi hs) tr (init start) s (inv_init start) h

theorem start_pres (start : Nat) (tr : List Ev) (s0 s : St) (h0 : s0.start = start)
    (hr : (machine start).run s0 tr = some s) : s.start = start := by
  induction tr generalizing s0 with
  | nil => simp only [Machine.run, Option.some.injEq] at hr; subst hr; exact h0
  | cons e es ih =>
    simp only [Machine.run] at hr
    cases he : (machine start).step s0 e with
    | none => simp [he] at hr
    | some s1 =>
      simp only [he] at hr
      refine ih s1 ?_ hr
      have he' : exec s0 e = some s1 := he
      cases e <;> simp only [exec] at he' <;> split at he' <;>
        first
          | (simp only [Option.some.injEq] at he'; subst he'; exact h0)
          | cases he'

theorem start_const (start : Nat) (tr : List Ev) (s : St) (h : (machine start).run (init start) tr = some s) :
    s.start = start := start_pres start tr (init start) s rfl h

end ArgoVerif.Model.KeyId
