import ArgoVerif.Model.KTable
/-
Proofs.KTable — sequential key table: refinement of a total map `key id → Val`
(default `0` = NULL), destructor calls, block ledger.
-/
namespace ArgoVerif.Model.KTable

/-! ### chain lemmas -/

theorem chainHas_iff (k : Nat) (c : List Elem) : chainHas k c = true ↔ k ∈ c.map (·.keyId) := by
  induction c with
  | nil => simp [chainHas]
  | cons e r ih =>
    simp only [chainHas, List.any_cons, Bool.or_eq_true, beq_iff_eq, List.map_cons, List.mem_cons] at *
    constructor
    · rintro (h | h)
      · exact Or.inl h.symm
      · exact Or.inr (ih.mp h)
    · rintro (h | h)
      · exact Or.inl h.symm
      · exact Or.inr (ih.mpr h)

theorem chainGet_absent (k : Nat) (c : List Elem) (h : k ∉ c.map (·.keyId)) : chainGet k c = 0 := by
  induction c with
  | nil => simp [chainGet]
  | cons e r ih =>
    simp only [List.map_cons, List.mem_cons, not_or] at h
    have : ¬ e.keyId = k := fun x => h.1 x.symm
    simp only [chainGet, this, if_false]
    exact ih h.2

theorem chainUpd_keys (k : Nat) (v : Val) (c : List Elem) :
    (chainUpd k v c).map (·.keyId) = c.map (·.keyId) := by
  induction c with
  | nil => simp [chainUpd]
  | cons e r ih =>
    by_cases h : e.keyId = k
    · simp [chainUpd, h]
    · simp [chainUpd, h, ih]

theorem chainUpd_get (k : Nat) (v : Val) (c : List Elem) (hk : k ∈ c.map (·.keyId)) (k' : Nat) :
    chainGet k' (chainUpd k v c) = if k' = k then v else chainGet k' c := by
  induction c with
  | nil => simp at hk
  | cons e r ih =>
    by_cases h : e.keyId = k
    · subst h
      by_cases h' : k' = e.keyId
      · subst h'; simp [chainUpd, chainGet]
      · have : ¬ e.keyId = k' := fun x => h' x.symm
        simp [chainUpd, chainGet, h', this]
    · have hk' : k ∈ r.map (·.keyId) := by
        simp only [List.map_cons, List.mem_cons] at hk
        rcases hk with hk | hk
        · exact absurd hk.symm h
        · exact hk
      simp only [chainUpd, h, if_false, chainGet]
      by_cases h2 : e.keyId = k'
      · have : ¬ k' = k := fun x => h (h2.trans x)
        simp [h2, this]
      · simp only [h2, if_false]; exact ih hk'

theorem chainUpd_mem (k : Nat) (v : Val) (c : List Elem) (e : Elem) (h : e ∈ chainUpd k v c) :
    ∃ e0 ∈ c, e.keyId = e0.keyId ∧ e.dtor = e0.dtor ∧ e.blk = e0.blk := by
  induction c with
  | nil => simp [chainUpd] at h
  | cons a r ih =>
    by_cases ha : a.keyId = k
    · simp only [chainUpd, ha, if_true, List.mem_cons] at h
      rcases h with h | h
      · exact ⟨a, by simp, by simp [h, ha], by simp [h], by simp [h]⟩
      · exact ⟨e, by simp [h], rfl, rfl, rfl⟩
    · simp only [chainUpd, ha, if_false, List.mem_cons] at h
      rcases h with h | h
      · exact ⟨a, by simp, by simp [h], by simp [h], by simp [h]⟩
      · obtain ⟨e0, h0, h1⟩ := ih h
        exact ⟨e0, by simp [h0], h1⟩

theorem chainGet_append (k' : Nat) (c : List Elem) (e : Elem) :
    chainGet k' (c ++ [e]) =
      if k' ∈ c.map (·.keyId) then chainGet k' c else if e.keyId = k' then e.val else 0 := by
  induction c with
  | nil => simp [chainGet]
  | cons a r ih =>
    by_cases h : a.keyId = k'
    · simp [chainGet, h]
    · have h2 : ¬ k' = a.keyId := fun x => h x.symm
      simp only [List.cons_append, chainGet, h, if_false, List.map_cons, List.mem_cons, h2, false_or]
      exact ih

/-! ### well-formedness -/

/-- chains hold distinct key ids, every element sits in the bucket its id selects,
and carries the destructor of its key (`kd` = destructor of the key with that id) -/
structure WF (kd : Nat → Nat) (t : Table) : Prop where
  size_pos : 0 < t.size
  idx_ok : ∀ i e, e ∈ t.b i → idx t.size e.keyId = i
  nodup : ∀ i, ((t.b i).map (·.keyId)).Nodup
  dtor_ok : ∀ i e, e ∈ t.b i → e.dtor = kd e.keyId

theorem idx_lt (size k : Nat) (h : 0 < size) : idx size k < size := by
  have : k &&& (size - 1) ≤ size - 1 := Nat.and_le_right
  simp only [idx]; omega

theorem createOk_size (g : Geom) (n : Nat) : (createOk g n).size = n := by
  simp only [createOk]; split <;> rfl

theorem createOk_b (g : Geom) (n : Nat) (i : Nat) : (createOk g n).b i = [] := by
  simp only [createOk]; split <;> rfl

theorem createOk_wf (kd : Nat → Nat) (g : Geom) (n : Nat) (hn : 0 < n) : WF kd (createOk g n) := by
  constructor
  · rw [createOk_size]; exact hn
  · intro i e h; rw [createOk_b] at h; simp at h
  · intro i; rw [createOk_b]; simp
  · intro i e h; rw [createOk_b] at h; simp at h

theorem allocElem_b (g : Geom) (t t' : Table) (mem : Bool) (blk : Nat)
    (h : allocElem g t mem = some (t', blk)) : t'.b = t.b ∧ t'.size = t.size := by
  simp only [allocElem] at h
  split at h
  · simp at h; obtain ⟨h1, _⟩ := h; subst h1; exact ⟨rfl, rfl⟩
  · split at h
    · simp at h
    · split at h
      · simp at h; obtain ⟨h1, _⟩ := h; subst h1; exact ⟨rfl, rfl⟩
      · simp at h; obtain ⟨h1, _⟩ := h; subst h1; exact ⟨rfl, rfl⟩

theorem allocElem_mem (g : Geom) (t : Table) : (allocElem g t true).isSome = true := by
  simp only [allocElem]
  split
  · rfl
  · split
    · simp at *
    · split <;> rfl

theorem setImpl_size (g : Geom) (t : Table) (k : Key) (v : Val) (mem : Bool) :
    (setImpl g t k v mem).1.size = t.size := by
  simp only [setImpl]
  split
  · rfl
  · split
    · rfl
    · next t' blk h => simp [(allocElem_b g t t' mem blk h).2]

/-- what `setImpl` does to the chains -/
theorem setImpl_b (g : Geom) (t : Table) (k : Key) (v : Val) (mem : Bool) :
    let r := setImpl g t k v mem
    let i := idx t.size k.id
    (chainHas k.id (t.b i) = true → r.2 = true ∧ r.1.b = updB t.b i (chainUpd k.id v (t.b i))) ∧
    (chainHas k.id (t.b i) = false → r.2 = true →
        ∃ blk, r.1.b = updB t.b i (t.b i ++ [{ dtor := k.dtor, keyId := k.id, val := v, blk := blk }])) ∧
    (r.2 = false → r.1 = t ∧ mem = false) := by
  simp only [setImpl]
  by_cases hh : chainHas k.id (t.b (idx t.size k.id)) = true
  · simp [hh]
  · simp only [hh, if_false, Bool.false_eq_true]
    cases ha : allocElem g t mem with
    | none =>
      simp
      cases mem with
      | false => rfl
      | true => have := allocElem_mem g t; simp [ha] at this
    | some p =>
      obtain ⟨t', blk⟩ := p
      have hb := allocElem_b g t t' mem blk ha
      simp [hb.1]
      exact ⟨blk, rfl⟩

theorem setImpl_wf (kd : Nat → Nat) (g : Geom) (t : Table) (k : Key) (v : Val) (mem : Bool)
    (hw : WF kd t) (hk : k.dtor = kd k.id) : WF kd (setImpl g t k v mem).1 := by
  have hs := setImpl_size g t k v mem
  have hb := setImpl_b g t k v mem
  simp only at hb
  obtain ⟨h1, h2, h3⟩ := hb
  cases hok : (setImpl g t k v mem).2 with
  | false => rw [(h3 hok).1]; exact hw
  | true =>
    by_cases hh : chainHas k.id (t.b (idx t.size k.id)) = true
    · obtain ⟨_, hb⟩ := h1 hh
      constructor
      · rw [hs]; exact hw.size_pos
      · intro i e he
        rw [hs]
        rw [hb] at he
        simp only [updB] at he
        split at he
        · next hi =>
          obtain ⟨e0, h0, hk0, _, _⟩ := chainUpd_mem _ _ _ _ he
          rw [hk0, hi]; rw [← hi]; exact hw.idx_ok _ _ (hi ▸ h0)
        · exact hw.idx_ok _ _ he
      · intro i
        rw [hb]; simp only [updB]
        split
        · rw [chainUpd_keys]; exact hw.nodup _
        · exact hw.nodup _
      · intro i e he
        rw [hb] at he
        simp only [updB] at he
        split at he
        · obtain ⟨e0, h0, hk0, hd0, _⟩ := chainUpd_mem _ _ _ _ he
          rw [hk0, hd0]; exact hw.dtor_ok _ _ h0
        · exact hw.dtor_ok _ _ he
    · have hh' : chainHas k.id (t.b (idx t.size k.id)) = false := by simpa using hh
      obtain ⟨blk, hb⟩ := h2 hh' hok
      have hnot : k.id ∉ (t.b (idx t.size k.id)).map (·.keyId) := by
        intro hx; exact hh ((chainHas_iff _ _).mpr hx)
      constructor
      · rw [hs]; exact hw.size_pos
      · intro i e he
        rw [hs]
        rw [hb] at he
        simp only [updB] at he
        split at he
        · next hi =>
          simp only [List.mem_append, List.mem_singleton] at he
          rcases he with he | he
          · rw [hi]; exact hw.idx_ok _ _ he
          · subst he; exact hi.symm
        · exact hw.idx_ok _ _ he
      · intro i
        rw [hb]; simp only [updB]
        split
        · simp only [List.map_append, List.map_cons, List.map_nil]
          rw [List.nodup_append]
          refine ⟨hw.nodup _, by simp, ?_⟩
          intro a ha b hb'
          simp only [List.mem_singleton] at hb'
          subst hb'
          intro hab; subst hab; exact hnot ha
        · exact hw.nodup _
      · intro i e he
        rw [hb] at he
        simp only [updB] at he
        split at he
        · simp only [List.mem_append, List.mem_singleton] at he
          rcases he with he | he
          · exact hw.dtor_ok _ _ he
          · subst he; exact hk
        · exact hw.dtor_ok _ _ he

/-- lookups after `setImpl` -/
theorem setImpl_get (kd : Nat → Nat) (g : Geom) (t : Table) (k : Key) (v : Val) (mem : Bool)
    (hw : WF kd t) (k' : Nat) :
    tget (setImpl g t k v mem).1 k' =
      if (setImpl g t k v mem).2 = true ∧ k' = k.id then v else tget t k' := by
  have hs := setImpl_size g t k v mem
  have hb := setImpl_b g t k v mem
  simp only at hb
  obtain ⟨h1, h2, h3⟩ := hb
  cases hok : (setImpl g t k v mem).2 with
  | false => rw [(h3 hok).1]; simp
  | true =>
    simp only [tget, hs, true_and]
    by_cases hh : chainHas k.id (t.b (idx t.size k.id)) = true
    · obtain ⟨_, hb⟩ := h1 hh
      rw [hb]
      simp only [updB]
      by_cases hi : idx t.size k' = idx t.size k.id
      · simp only [hi, if_true]
        rw [chainUpd_get _ _ _ ((chainHas_iff _ _).mp hh)]
      · simp only [hi, if_false]
        have : ¬ k' = k.id := fun x => hi (by rw [x])
        simp [this]
    · have hh' : chainHas k.id (t.b (idx t.size k.id)) = false := by simpa using hh
      obtain ⟨blk, hb⟩ := h2 hh' hok
      have hnot : k.id ∉ (t.b (idx t.size k.id)).map (·.keyId) := by
        intro hx; exact hh ((chainHas_iff _ _).mpr hx)
      rw [hb]
      simp only [updB]
      by_cases hi : idx t.size k' = idx t.size k.id
      · simp only [hi, if_true]
        rw [chainGet_append]
        by_cases hkk : k' = k.id
        · subst hkk
          simp [hnot]
        · have : ¬ k.id = k' := fun x => hkk x.symm
          simp only [this, if_false, hkk]
          split
          · rfl
          · next hx => exact (chainGet_absent _ _ hx).symm
      · simp only [hi, if_false]
        have : ¬ k' = k.id := fun x => hi (by rw [x])
        simp [this]

/-! ### slot level -/

/-- a slot is well formed when it is NULL or holds a well-formed table of the configured size -/
def SlotWF (kd : Nat → Nat) (size : Nat) : Slot → Prop
  | none => True
  | some t => WF kd t ∧ t.size = size

theorem slotSet_spec (kd : Nat → Nat) (g : Geom) (size : Nat) (hsz : 0 < size) (s : Slot) (k : Key) (v : Val)
    (mT mE : Bool) (hw : SlotWF kd size s) (hk : k.dtor = kd k.id) :
    SlotWF kd size (slotSet g size s k v mT mE).1 ∧
    (∀ k', slotGet (slotSet g size s k v mT mE).1 k' =
        if (slotSet g size s k v mT mE).2 = true ∧ k' = k.id then v else slotGet s k') ∧
    (mT = true → mE = true → (slotSet g size s k v mT mE).2 = true) := by
  cases s with
  | some t =>
    simp only [slotSet, SlotWF] at *
    refine ⟨⟨setImpl_wf kd g t k v mE hw.1 hk, by rw [setImpl_size]; exact hw.2⟩, ?_, ?_⟩
    · intro k'; simp only [slotGet]; exact setImpl_get kd g t k v mE hw.1 k'
    · intro _ hE
      cases hok : (setImpl g t k v mE).2 with
      | true => rfl
      | false =>
        have := ((setImpl_b g t k v mE).2.2 hok).2
        rw [hE] at this; cases this
  | none =>
    cases mT with
    | false => simp [slotSet, create, SlotWF, slotGet]
    | true =>
      simp only [slotSet, create, if_true, SlotWF]
      have hw0 := createOk_wf kd g size hsz
      refine ⟨⟨setImpl_wf kd g _ k v mE hw0 hk, by rw [setImpl_size, createOk_size]⟩, ?_, ?_⟩
      · intro k'
        simp only [slotGet]
        rw [setImpl_get kd g _ k v mE hw0 k']
        have : tget (createOk g size) k' = 0 := by simp [tget, createOk_b, chainGet]
        rw [this]
      · intro _ hE
        cases hok : (setImpl g (createOk g size) k v mE).2 with
        | true => rfl
        | false =>
          have := ((setImpl_b g (createOk g size) k v mE).2.2 hok).2
          rw [hE] at this; cases this

/-! ### destructor calls -/

theorem chainCalls_filter (kd : Nat → Nat) (c : List Elem) (k : Nat)
    (hnd : (c.map (·.keyId)).Nodup) (hd : ∀ e ∈ c, e.dtor = kd e.keyId) :
    (chainCalls c).filter (fun d => d.keyId == k) =
      if chainGet k c ≠ 0 ∧ kd k ≠ 0 ∧ k ∈ c.map (·.keyId)
      then [{ keyId := k, dtor := kd k, val := chainGet k c }] else [] := by
  induction c with
  | nil => simp [chainCalls, chainGet]
  | cons e r ih =>
    simp only [List.map_cons, List.nodup_cons] at hnd
    have ih' := ih hnd.2 (fun x hx => hd x (by simp [hx]))
    have hde : e.dtor = kd e.keyId := hd e (by simp)
    by_cases hk : e.keyId = k
    · subst hk
      have hr : (chainCalls r).filter (fun d => d.keyId == e.keyId) = [] := by
        rw [ih']; simp [hnd.1]
      simp only [chainCalls, chainGet, if_true, List.map_cons, List.mem_cons, true_or, and_true]
      rw [← hde]
      by_cases hd0 : e.dtor = 0
      · simp [hd0, hr]
      · by_cases hv0 : e.val = 0
        · simp [hv0, hr]
        · simp [hd0, hv0, hr]
    · have hk' : ¬ k = e.keyId := fun x => hk x.symm
      simp only [chainGet, hk, if_false, List.map_cons, List.mem_cons, hk', false_or]
      rw [← ih']
      simp only [chainCalls]
      split
      · simp [List.filter_cons, hk]
      · rfl

theorem chainCalls_keys (c : List Elem) (d : DCall) (h : d ∈ chainCalls c) : d.keyId ∈ c.map (·.keyId) := by
  induction c with
  | nil => simp [chainCalls] at h
  | cons e r ih =>
    simp only [chainCalls] at h
    split at h
    · simp only [List.mem_cons] at h
      rcases h with h | h
      · subst h; simp
      · simp [ih h]
    · simp [ih h]

theorem callsFrom_filter (kd : Nat → Nat) (t : Table) (hw : WF kd t) (k : Nat) (i n : Nat) :
    (callsFrom t i n).filter (fun d => d.keyId == k) =
      if i ≤ idx t.size k ∧ idx t.size k < i + n
      then (chainCalls (t.b (idx t.size k))).filter (fun d => d.keyId == k) else [] := by
  induction n generalizing i with
  | zero =>
    simp only [callsFrom, List.filter_nil]
    split
    · omega
    · rfl
  | succ n ih =>
    simp only [callsFrom, List.filter_append]
    rw [ih (i + 1)]
    by_cases hi : i = idx t.size k
    · subst hi
      have : ¬ (idx t.size k + 1 ≤ idx t.size k ∧ idx t.size k < idx t.size k + 1 + n) := by omega
      simp only [this, if_false, List.append_nil]
      have : idx t.size k ≤ idx t.size k ∧ idx t.size k < idx t.size k + (n + 1) := by omega
      simp [this]
    · have hnone : (chainCalls (t.b i)).filter (fun d => d.keyId == k) = [] := by
        rw [List.filter_eq_nil_iff]
        intro d hd
        have hm := chainCalls_keys _ _ hd
        simp only [List.mem_map] at hm
        obtain ⟨e, he, hek⟩ := hm
        have := hw.idx_ok i e he
        intro hdk
        simp only [beq_iff_eq] at hdk
        rw [hek, hdk] at this
        exact hi this.symm
      rw [hnone, List.nil_append]
      by_cases hc : i + 1 ≤ idx t.size k ∧ idx t.size k < i + 1 + n
      · have : i ≤ idx t.size k ∧ idx t.size k < i + (n + 1) := by omega
        simp [hc, this]
      · have : ¬ (i ≤ idx t.size k ∧ idx t.size k < i + (n + 1)) := by omega
        simp [hc, this]

/-- destructor calls of `ABTI_ktable_free` that concern key id `k` -/
theorem freeCalls_filter (kd : Nat → Nat) (t : Table) (hw : WF kd t) (k : Nat) :
    (freeCalls t).filter (fun d => d.keyId == k) =
      if tget t k ≠ 0 ∧ kd k ≠ 0 then [{ keyId := k, dtor := kd k, val := tget t k }] else [] := by
  simp only [freeCalls]
  rw [callsFrom_filter kd t hw k 0 t.size]
  have hlt := idx_lt t.size k hw.size_pos
  have : 0 ≤ idx t.size k ∧ idx t.size k < 0 + t.size := by omega
  simp only [this, and_self, if_true]
  rw [chainCalls_filter kd _ k (hw.nodup _) (fun e he => hw.dtor_ok _ e he)]
  have ht : tget t k = chainGet k (t.b (idx t.size k)) := rfl
  rw [ht]
  by_cases hm : k ∈ (t.b (idx t.size k)).map (·.keyId)
  · by_cases hc : chainGet k (t.b (idx t.size k)) ≠ 0 ∧ kd k ≠ 0
    · have hc' : chainGet k (t.b (idx t.size k)) ≠ 0 ∧ kd k ≠ 0 ∧ k ∈ (t.b (idx t.size k)).map (·.keyId) :=
        ⟨hc.1, hc.2, hm⟩
      rw [if_pos hc', if_pos hc]
    · have hc' : ¬ (chainGet k (t.b (idx t.size k)) ≠ 0 ∧ kd k ≠ 0 ∧ k ∈ (t.b (idx t.size k)).map (·.keyId)) :=
        fun x => hc ⟨x.1, x.2.1⟩
      rw [if_neg hc', if_neg hc]
  · have := chainGet_absent _ _ hm
    simp [this]

/-! ### block ledger -/

/-- the `p_used_mem` list is exactly the list of blocks obtained, newest first; ids are
`0 .. nblk-1`; every element's storage lies in one of them -/
structure BWF (t : Table) : Prop where
  used_eq : t.used = t.ledger.reverse
  ids : t.ledger.map Prod.fst = List.range t.nblk
  extra_in : t.extraBlk < t.nblk
  elems_in : ∀ i e, e ∈ t.b i → e.blk < t.nblk

theorem createOk_bwf (g : Geom) (n : Nat) : BWF (createOk g n) := by
  simp only [createOk]
  split <;> constructor <;> simp [List.range_succ]

theorem allocElem_bwf (g : Geom) (t t' : Table) (mem : Bool) (blk : Nat) (hb : BWF t)
    (h : allocElem g t mem = some (t', blk)) : BWF t' ∧ blk < t'.nblk ∧ t.nblk ≤ t'.nblk := by
  simp only [allocElem] at h
  split at h
  · simp at h; obtain ⟨h1, h2⟩ := h; subst h1; subst h2
    exact ⟨⟨hb.used_eq, hb.ids, hb.extra_in, hb.elems_in⟩, hb.extra_in, Nat.le_refl _⟩
  · split at h
    · simp at h
    · split at h
      · simp at h; obtain ⟨h1, h2⟩ := h; subst h1; subst h2
        refine ⟨⟨?_, ?_, ?_, ?_⟩, ?_, ?_⟩
        · simp [hb.used_eq]
        · simp [hb.ids, List.range_succ]
        · simp
        · intro i e he; have := hb.elems_in i e he; simp; omega
        · simp
        · simp
      · simp at h; obtain ⟨h1, h2⟩ := h; subst h1; subst h2
        refine ⟨⟨?_, ?_, ?_, ?_⟩, ?_, ?_⟩
        · simp [hb.used_eq]
        · simp [hb.ids, List.range_succ]
        · have := hb.extra_in; simp; omega
        · intro i e he; have := hb.elems_in i e he; simp; omega
        · simp
        · simp

theorem setImpl_bwf (g : Geom) (t : Table) (k : Key) (v : Val) (mem : Bool) (hb : BWF t) :
    BWF (setImpl g t k v mem).1 := by
  simp only [setImpl]
  split
  · refine ⟨hb.used_eq, hb.ids, hb.extra_in, ?_⟩
    intro i e he
    simp only [updB] at he
    split at he
    · obtain ⟨e0, h0, _, _, hblk⟩ := chainUpd_mem _ _ _ _ he
      rw [hblk]; exact hb.elems_in _ _ h0
    · exact hb.elems_in _ _ he
  · split
    · exact hb
    · next t' blk h =>
      obtain ⟨hb', hlt, _⟩ := allocElem_bwf g t t' mem blk hb h
      refine ⟨hb'.used_eq, hb'.ids, hb'.extra_in, ?_⟩
      intro i e he
      simp only [updB] at he
      split at he
      · simp only [List.mem_append, List.mem_singleton] at he
        rcases he with he | he
        · exact hb'.elems_in _ _ he
        · subst he; exact hlt
      · exact hb'.elems_in _ _ he

def SlotBWF : Slot → Prop
  | none => True
  | some t => BWF t

theorem slotSet_bwf (g : Geom) (size : Nat) (s : Slot) (k : Key) (v : Val) (mT mE : Bool)
    (hb : SlotBWF s) : SlotBWF (slotSet g size s k v mT mE).1 := by
  cases s with
  | some t => simp only [slotSet, SlotBWF] at *; exact setImpl_bwf g t k v mE hb
  | none =>
    cases mT with
    | false => simp [slotSet, create, SlotBWF]
    | true => simp only [slotSet, create, if_true, SlotBWF]; exact setImpl_bwf g _ k v mE (createOk_bwf g size)

theorem runOps_bwf (g : Geom) (size : Nat) (ops : List Op) (s : Slot) (hb : SlotBWF s) :
    SlotBWF (runOps g size s ops).1 := by
  induction ops generalizing s with
  | nil => exact hb
  | cons op ops ih =>
    simp only [runOps]
    apply ih
    cases op with
    | set k v mT mE => exact slotSet_bwf g size s k v mT mE hb
    | get kid => exact hb
    | revive => exact hb
    | free => trivial

end ArgoVerif.Model.KTable
