import ArgoVerif.Proofs.MemPoolTake
/-
Proofs.MemPool — every operation of Model.MemPool preserves the invariant `Inv`
(`step_inv`), with the facts about results that the property theorems need.
-/
namespace ArgoVerif.Model.MemPool
open ArgoVerif

/-- frame for operations that change one local pool (and headers labelled in `T`) and leave
the global LIFO, the partial bucket, the set of carved headers and the pages alone -/
theorem InvG.frame_pool {P : Params} {s s' : St} {th th' : Option Hdr} {tn tn' : Nat} {lo lo' : Nat → Nat}
    {T : Owner → Prop} (h : InvG P s th tn lo) (f : Frame T s s') (i : Nat) (np : Option LPool)
    (hT1 : ∀ i' j, i' ≠ i → ¬ T (.loc i' j)) (hT2 : ∀ b, ¬ T (.lifo b)) (hT3 : ¬ T .part)
    (hlp : s'.lp = upd s.lp i np) (hli : s'.lifo = s.lifo) (hpa : s'.part = s.part)
    (hcar : s'.carved = s.carved) (hun : ∀ x, s'.own x = .unused ↔ s.own x = .unused)
    (hpg : s'.pages = s.pages) (hnp : s'.npages = s.npages) (hpl : s'.pageLifo = s.pageLifo)
    (hlo : ∀ i', i' ≠ i → lo' i' = lo i')
    (hbidx : ∀ lp, np = some lp → lp.bidx < P.maxLocal)
    (hB : ∀ lp j, np = some lp → lo' i ≤ j → j ≤ lp.bidx →
          IsBucket s'.next s'.own (lp.buckets j) (s'.cnt (lp.buckets j)) (.loc i j) ∧
          1 ≤ s'.cnt (lp.buckets j) ∧ s'.cnt (lp.buckets j) ≤ P.perBucket ∧
          (j < lp.bidx → s'.cnt (lp.buckets j) = P.perBucket))
    (hlocOwn : ∀ x j, s'.own x = .loc i j → ∃ lp, np = some lp ∧ lo' i ≤ j ∧ j ≤ lp.bidx)
    (htmpB : ∀ b, th' = some b → IsBucket s'.next s'.own b tn' .tmp ∧ 1 ≤ tn' ∧ tn' ≤ P.perBucket)
    (htmpOwn : th' = none → ∀ x, s'.own x ≠ .tmp)
    (houtOwn : ∀ x, x ∈ s'.out ↔ s'.own x = .out) (houtNd : s'.out.Nodup) :
    InvG P s' th' tn' lo' := by
  constructor
  · intro i' lp' hlp'
    rw [hlp] at hlp'
    by_cases e : i' = i
    · subst e; simp only [upd_same] at hlp'; exact hbidx lp' hlp'
    · simp only [upd, e, if_false] at hlp'; exact h.lpBidx i' lp' hlp'
  · intro i' lp' j hlp' h1 h2
    rw [hlp] at hlp'
    by_cases e : i' = i
    · subst e; simp only [upd_same] at hlp'; exact hB lp' j hlp' h1 h2
    · simp only [upd, e, if_false] at hlp'
      rw [hlo i' e] at h1
      obtain ⟨k1, k2, k3, k4⟩ := h.lpB i' lp' j hlp' h1 h2
      rw [f.cnt k1 k2 (hT1 i' j e)]
      exact ⟨f.bucket k1 (hT1 i' j e), k2, k3, k4⟩
  · intro x i' j hx
    by_cases e : i' = i
    · subst e
      obtain ⟨lp, h1, h2⟩ := hlocOwn x j hx
      exact ⟨lp, by rw [hlp, h1]; simp, h2⟩
    · obtain ⟨lp, h1, h2⟩ := h.locOwn x i' j ((f.own x _ (hT1 i' j e)).mp hx)
      exact ⟨lp, by rw [hlp]; simp [upd, e, h1], by rw [hlo i' e]; exact h2⟩
  · intro b hb; rw [hli] at hb; exact f.bucket (h.lifoB b hb) (hT2 b)
  · rw [hli]; exact h.lifoNd
  · intro x b hx; rw [hli]; exact h.lifoOwn x b ((f.own x _ (hT2 b)).mp hx)
  · intro q hq
    rw [hpa] at hq
    obtain ⟨k1, k2, k3⟩ := h.partB q hq
    rw [f.cnt k1 k2 hT3]
    exact ⟨f.bucket k1 hT3, k2, k3⟩
  · intro hq x e; rw [hpa] at hq; exact h.partOwn hq x ((f.own x _ hT3).mp e)
  · exact htmpB
  · exact htmpOwn
  · exact houtOwn
  · exact houtNd
  · intro x; rw [hcar, h.carvedOwn, ne_eq, ne_eq, hun]
  · rw [hcar]; exact h.carvedNd
  · exact h.geo.congr hun hpg hnp hpl

/-! ### no operation of the global pool ever creates a `loc` label -/

theorem returnBucket_loc {s : St} {b x : Hdr} {i j : Nat} (h : (returnBucket s b).own x = .loc i j) :
    s.own x = .loc i j := by
  simp only [returnBucket, relabel] at h; split at h
  · cases h
  · exact h

theorem returnPartial_loc {P : Params} {s : St} {b x : Hdr} {i j : Nat}
    (h : (returnPartial P s b).own x = .loc i j) : s.own x = .loc i j := by
  unfold returnPartial at h
  split at h
  · simp only [relabel] at h; split at h
    · cases h
    · exact h
  · simp only at h
    split at h
    · simp only [relabel] at h; split at h
      · cases h
      · exact h
    · have := returnBucket_loc h
      simp only at this
      split at this
      · cases this
      · exact this

theorem carvePage_loc {P : Params} {s : St} {p np : Nat} {head : Option Hdr} {x : Hdr} {i j : Nat}
    (h : (carvePage P s p np head).1.own x = .loc i j) : s.own x = .loc i j := by
  unfold carvePage at h
  simp only at h
  split at h
  · cases h
  · split at h <;> exact h

theorem pickPage_own {P : Params} {s s1 : St} {p : Nat} (h : pickPage P s = some (s1, p)) : s1.own = s.own := by
  unfold pickPage at h
  split at h
  · simp only [Option.some.injEq, Prod.mk.injEq] at h; rw [← h.1]
  · split at h
    · cases h
    · simp only [Option.some.injEq, Prod.mk.injEq] at h; rw [← h.1]

theorem carve_loc {P : Params} (fuel : Nat) : ∀ (s : St) (head : Option Hdr) (n : Nat) (r : St × Option Hdr)
    (x : Hdr) (i j : Nat), carve P fuel s head n = some r → r.1.own x = .loc i j → s.own x = .loc i j := by
  induction fuel with
  | zero => intro s head n r x i j h; simp [carve] at h
  | succ fuel ih =>
    intro s head n r x i j h hx
    unfold carve at h
    cases hpk : pickPage P s with
    | none =>
      rw [hpk] at h
      cases head with
      | none => simp only [Option.some.injEq] at h; subst h; exact hx
      | some h0 =>
        simp only [Option.some.injEq] at h; subst h
        exact returnPartial_loc (s := { s with cnt := upd s.cnt h0 n }) hx
    | some sp =>
      obtain ⟨s1, p⟩ := sp
      rw [hpk] at h
      simp only at h
      have e := pickPage_own hpk
      split at h
      · cases h
      · split at h
        · simp only [Option.some.injEq] at h; subst h
          rw [← e]; exact carvePage_loc (head := head) hx
        · have := ih _ _ _ _ x i j h hx
          rw [← e]; exact carvePage_loc (head := head) this

theorem takeBucket_loc {P : Params} {s : St} {r : St × Option Hdr} {x : Hdr} {i j : Nat}
    (h : takeBucket P s = some r) (hx : r.1.own x = .loc i j) : s.own x = .loc i j := by
  unfold takeBucket at h
  split at h
  · simp only [Option.some.injEq] at h; subst h
    simp only [relabel] at hx; split at hx
    · cases hx
    · exact hx
  · exact carve_loc _ _ _ _ _ _ _ _ h hx

/-! ### local-pool operations -/

abbrev lo0 : Nat → Nat := fun _ => 0

theorem upd_lp_self (s : St) (i : Nat) (lp : LPool) (h : s.lp i = some lp) : s.lp = upd s.lp i (some lp) := by
  funext k; by_cases e : k = i
  · subst e; simp [h]
  · simp [upd, e]

/-- ghost step: the lowest not yet detached bucket of pool `i` becomes the bucket in flight -/
theorem detach_inv {P : Params} {s : St} {i : Nat} {lp : LPool} {lo : Nat → Nat}
    (h : InvG P s none 0 lo) (hlp : s.lp i = some lp) (hle : lo i ≤ lp.bidx) :
    InvG P { s with own := relabel s.own (.loc i (lo i)) .tmp } (some (lp.buckets (lo i)))
      (s.cnt (lp.buckets (lo i))) (upd lo i (lo i + 1)) := by
  obtain ⟨k1, k2, k3, _⟩ := h.lpB i lp (lo i) hlp (Nat.le_refl _) hle
  have f : Frame (fun o => o = .loc i (lo i) ∨ o = .tmp) s { s with own := relabel s.own (.loc i (lo i)) .tmp } := by
    constructor
    · intro x o ho; simp only [relabel]; split
      · rename_i hx; rw [hx]; constructor
        · intro e; exact absurd (Or.inr e.symm) ho
        · intro e; exact absurd (Or.inl e.symm) ho
      · rfl
    · intro x _; exact ⟨rfl, rfl⟩
  refine h.frame_pool f i (some lp) (by intro i' j e; simp [e]) (by simp) (by simp) (upd_lp_self s i lp hlp) rfl rfl rfl
    ?_ rfl rfl rfl (by intro i' e; simp [upd, e]) ?_ ?_ ?_ ?_ (fun e => by cases e) ?_ h.outNd
  · intro x; simp only [relabel]; split <;> simp_all
  · intro lp' e; simp only [Option.some.injEq] at e; subst e; exact h.lpBidx i _ hlp
  · intro lp' j e h1 h2
    simp only [Option.some.injEq] at e; subst e
    simp only [upd_same] at h1
    obtain ⟨q1, q2, q3, q4⟩ := h.lpB i _ j hlp (by omega) h2
    have hne : Owner.loc i j ≠ .loc i (lo i) := by intro e; injection e; omega
    exact ⟨f.bucket q1 (by simp; omega), q2, q3, q4⟩
  · intro x j hx
    simp only [relabel] at hx
    split at hx
    · cases hx
    · rename_i hx'
      obtain ⟨lp', e1, e2, e3⟩ := h.locOwn x i j hx
      rw [hlp] at e1; simp only [Option.some.injEq] at e1; subst e1
      refine ⟨_, rfl, ?_, e3⟩
      simp only [upd_same]
      have : j ≠ lo i := by intro e; subst e; exact hx' hx
      omega
  · intro b hb
    simp only [Option.some.injEq] at hb; subst hb
    refine ⟨k1.relabel (fun _ _ => rfl) ?_, k2, k3⟩
    intro x; simp only [relabel]; split
    · simp_all
    · rename_i hx
      constructor
      · intro e; exact absurd e (h.tmpOwn rfl x)
      · intro e; exact absurd e hx
  · intro x; show x ∈ s.out ↔ _; rw [h.outOwn]; exact (f.own x _ (by simp)).symm

/-- **`ABTI_mem_pool_init_local_pool`** -/
theorem initLocal_inv {P : Params} (hP : P.OK) {s s' : St} {i : Nat} {ok : Bool} (h : Inv P s)
    (hr : initLocal P s i = some (s', ok)) :
    Inv P s' ∧ s'.out = s.out ∧ (∀ x, x ∈ s.carved → x ∈ s'.carved) ∧ (∀ k, k ≠ i → s'.lp k = s.lp k) := by
  unfold initLocal at hr
  cases hlp : s.lp i with
  | some lp => rw [hlp] at hr; cases hr
  | none =>
    rw [hlp] at hr
    obtain ⟨r, htk, hpost, e1, e2, e3⟩ := takeBucket_inv hP h
    rw [htk] at hr
    obtain ⟨s1, ob⟩ := r
    cases ob with
    | none =>
      simp only [Option.some.injEq, Prod.mk.injEq] at hr
      obtain ⟨rfl, _⟩ := hr
      exact ⟨hpost, e2, e3, fun k _ => by rw [e1]⟩
    | some b =>
      simp only [Option.some.injEq, Prod.mk.injEq] at hr
      obtain ⟨rfl, _⟩ := hr
      obtain ⟨h1, hcb⟩ := hpost
      simp only at h1 hcb e1 e2 e3
      have hnone : s1.lp i = none := by rw [e1]; exact hlp
      have hnoloc : ∀ x j, s1.own x ≠ .loc i j := by
        intro x j e
        obtain ⟨lp, q, _⟩ := h1.locOwn x i j e
        rw [hnone] at q; cases q
      refine ⟨?_, e2, e3, fun k hk => by simp [upd, hk, e1]⟩
      have f : Frame (fun o => o = .tmp ∨ o = .loc i 0) s1
          { s1 with lp := upd s1.lp i (some ⟨0, fun _ => b⟩), own := relabel s1.own .tmp (.loc i 0) } := by
        constructor
        · intro x o ho; simp only [relabel]; split
          · rename_i hx; rw [hx]; constructor
            · intro e; exact absurd (Or.inr e.symm) ho
            · intro e; exact absurd (Or.inl e.symm) ho
          · rfl
        · intro x _; exact ⟨rfl, rfl⟩
      refine h1.frame_pool f i (some ⟨0, fun _ => b⟩) (by intro i' j e; simp [e]) (by simp) (by simp) rfl rfl rfl rfl
        ?_ rfl rfl rfl (fun _ _ => rfl) ?_ ?_ ?_ (fun b' e => by cases e) ?_ ?_ h1.outNd
      · intro x; simp only [relabel]; split <;> simp_all
      · intro lp' e; simp only [Option.some.injEq] at e; subst e; exact hP.maxLocal_pos
      · intro lp' j e _ h2
        simp only [Option.some.injEq] at e; subst e
        simp only [Nat.le_zero_eq] at h2; subst h2
        simp only [hcb]
        refine ⟨(h1.tmpB b rfl).1.relabel (fun _ _ => rfl) ?_, hP.perBucket_pos, Nat.le_refl _, fun e => absurd e (by simp)⟩
        intro x; simp only [relabel]; split
        · simp_all
        · rename_i hx
          constructor
          · intro e; exact absurd e (hnoloc x 0)
          · intro e; exact absurd e hx
      · intro x j hx
        simp only [relabel] at hx
        split at hx
        · injection hx with _ e2; exact ⟨_, rfl, Nat.zero_le _, by simp [← e2]⟩
        · exact absurd hx (hnoloc x j)
      · intro _ x; simp only [relabel]; split <;> simp_all
      · intro x; show x ∈ s1.out ↔ _; rw [h1.outOwn]; exact (f.own x _ (by simp)).symm

/-- a non-empty bucket as a list starting with its head -/
theorem IsBucket.uncons {next : Hdr → Option Hdr} {own : Hdr → Owner} {a : Hdr} {n : Nat} {o : Owner}
    (h : IsBucket next own a n o) (hn : 0 < n) :
    ∃ rest, Seg next (next a) rest none ∧ rest.length + 1 = n ∧ (a :: rest).Nodup ∧
      ∀ x, x ∈ a :: rest ↔ own x = o := by
  obtain ⟨L, hs, hl, hnd, hm⟩ := h
  cases L with
  | nil => simp at hl; omega
  | cons x r =>
    have e : a = x := by have := hs.1; simpa using this
    subst e
    exact ⟨r, hs.2, by simpa using hl, hnd, hm⟩

/-- alloc, branch "more than one header left": pop the head of the current bucket -/
theorem alloc_pop_inv {P : Params} {s : St} {i : Nat} {lp : LPool} {nx : Hdr} (h : Inv P s)
    (hlp : s.lp i = some lp) (hn : 2 ≤ s.cnt (lp.buckets lp.bidx)) (hnx : s.next (lp.buckets lp.bidx) = some nx) :
    Inv P { s with cnt := upd s.cnt nx (s.cnt (lp.buckets lp.bidx) - 1),
                   lp := upd s.lp i (some { lp with buckets := upd lp.buckets lp.bidx nx }),
                   own := upd s.own (lp.buckets lp.bidx) .out, out := lp.buckets lp.bidx :: s.out } := by
  generalize hcur : lp.buckets lp.bidx = cur at *
  obtain ⟨k1, k2, k3, _⟩ := h.lpB i lp lp.bidx hlp (Nat.zero_le _) (Nat.le_refl _)
  rw [hcur] at k1 k2 k3
  obtain ⟨rest, sr, lr, ndr, mr⟩ := k1.uncons k2
  rw [hnx] at sr
  have hco : s.own cur = .loc i lp.bidx := k1.head_own k2
  cases rest with
  | nil => simp at lr; omega
  | cons y r =>
    have hy : nx = y := by have := sr.1; simpa using this
    subst hy
    have hnxo : s.own nx = .loc i lp.bidx := (mr nx).mp (by simp)
    have hne : nx ≠ cur := by intro e; rw [e] at ndr; simp at ndr
    have f : Frame (fun o => o = .loc i lp.bidx ∨ o = .out) s
        { s with cnt := upd s.cnt nx (s.cnt cur - 1),
                 lp := upd s.lp i (some { lp with buckets := upd lp.buckets lp.bidx nx }),
                 own := upd s.own cur .out, out := cur :: s.out } := by
      constructor
      · intro x o ho; simp only [upd]; split
        · rename_i hx; subst hx; rw [hco]; constructor
          · intro e; exact absurd (Or.inr e.symm) ho
          · intro e; exact absurd (Or.inl e.symm) ho
        · rfl
      · intro x hx
        have : x ≠ nx := fun e => hx (Or.inl (e ▸ hnxo))
        exact ⟨rfl, by simp [upd, this]⟩
    have hownj : ∀ x j, j ≠ lp.bidx → (upd s.own cur Owner.out x = .loc i j ↔ s.own x = .loc i j) :=
      fun x j hj => f.own x _ (by simp; omega)
    refine h.frame_pool f i _ (by intro i' j e; simp [e]) (by simp) (by simp) rfl rfl rfl rfl
      ?_ rfl rfl rfl (fun _ _ => rfl) ?_ ?_ ?_ (fun b e => by cases e) ?_ ?_ ?_
    · intro x; simp only [upd]; split
      · rename_i hx; subst hx; simp [hco]
      · rfl
    · intro lp' e; simp only [Option.some.injEq] at e; subst e; exact h.lpBidx i lp hlp
    · intro lp' j e _ h2
      simp only [Option.some.injEq] at e; subst e
      simp only at h2 ⊢
      by_cases hj : j = lp.bidx
      · subst hj
        simp only [upd_same]
        refine ⟨⟨nx :: r, sr, by simp at lr ⊢; omega, (List.nodup_cons.mp ndr).2, ?_⟩, by omega, by omega,
          fun e => absurd e (Nat.lt_irrefl _)⟩
        intro x; simp only [upd]; split
        · rename_i hx; subst hx
          constructor
          · intro hm; exact absurd hm (List.nodup_cons.mp ndr).1
          · intro e; cases e
        · rename_i hx; rw [← mr x]; simp [hx]
      · have hjlt : j < lp.bidx := by omega
        obtain ⟨q1, q2, q3, q4⟩ := h.lpB i lp j hlp (Nat.zero_le _) h2
        simp only [upd, hj, if_false]
        have hb : lp.buckets j ≠ nx := by
          intro e; have := q1.head_own q2; rw [e, hnxo] at this; injection this; omega
        simp only [hb, if_false]
        refine ⟨q1.relabel (fun _ _ => rfl) (fun x => ?_), q2, q3, q4⟩
        exact hownj x j hj
    · intro x j hx
      have hxc : x ≠ cur := by intro e; subst e; simp [upd] at hx
      simp only [upd, hxc, if_false] at hx
      obtain ⟨lp', e1, e2, e3⟩ := h.locOwn x i j hx
      rw [hlp] at e1; simp only [Option.some.injEq] at e1; subst e1
      exact ⟨_, rfl, e2, e3⟩
    · intro _ x; simp only [upd]; split
      · simp
      · exact h.tmpOwn rfl x
    · intro x; simp only [List.mem_cons, upd]; split
      · rename_i hx; simp [hx]
      · rename_i hx; rw [h.outOwn]; simp [hx]
    · refine List.nodup_cons.mpr ⟨?_, h.outNd⟩
      intro hm; have := (h.outOwn cur).mp hm; rw [hco] at this; cases this

/-- alloc, branch "last header of a bucket that is not the only one": step down to the full
bucket below -/
theorem alloc_dec_inv {P : Params} {s : St} {i : Nat} {lp : LPool} (h : Inv P s)
    (hlp : s.lp i = some lp) (hn : s.cnt (lp.buckets lp.bidx) = 1) (hb : lp.bidx ≠ 0) :
    Inv P { s with lp := upd s.lp i (some { lp with bidx := lp.bidx - 1 }),
                   own := upd s.own (lp.buckets lp.bidx) .out, out := lp.buckets lp.bidx :: s.out } := by
  generalize hcur : lp.buckets lp.bidx = cur at *
  obtain ⟨k1, k2, k3, _⟩ := h.lpB i lp lp.bidx hlp (Nat.zero_le _) (Nat.le_refl _)
  rw [hcur] at k1 k2 k3
  obtain ⟨rest, sr, lr, ndr, mr⟩ := k1.uncons k2
  have hrest : rest = [] := by apply List.eq_nil_of_length_eq_zero; omega
  subst hrest
  have hco : s.own cur = .loc i lp.bidx := k1.head_own k2
  have f : Frame (fun o => o = .loc i lp.bidx ∨ o = .out) s
      { s with lp := upd s.lp i (some { lp with bidx := lp.bidx - 1 }),
               own := upd s.own cur .out, out := cur :: s.out } := by
    constructor
    · intro x o ho; simp only [upd]; split
      · rename_i hx; subst hx; rw [hco]; constructor
        · intro e; exact absurd (Or.inr e.symm) ho
        · intro e; exact absurd (Or.inl e.symm) ho
      · rfl
    · intro x _; exact ⟨rfl, rfl⟩
  refine h.frame_pool f i _ (by intro i' j e; simp [e]) (by simp) (by simp) rfl rfl rfl rfl
    ?_ rfl rfl rfl (fun _ _ => rfl) ?_ ?_ ?_ (fun b e => by cases e) ?_ ?_ ?_
  · intro x; simp only [upd]; split
    · rename_i hx; subst hx; simp [hco]
    · rfl
  · intro lp' e; simp only [Option.some.injEq] at e; subst e
    have := h.lpBidx i _ hlp; simp only; omega
  · intro lp' j e _ h2
    simp only [Option.some.injEq] at e; subst e
    simp only at h2 ⊢
    have hjlt : j < lp.bidx := by omega
    obtain ⟨q1, q2, q3, q4⟩ := h.lpB i lp j hlp (Nat.zero_le _) (by omega)
    refine ⟨q1.relabel (fun _ _ => rfl) (fun x => f.own x _ (by simp; omega)), q2, q3, fun _ => q4 hjlt⟩
  · intro x j hx
    have hxc : x ≠ cur := by intro e; subst e; simp [upd] at hx
    simp only [upd, hxc, if_false] at hx
    obtain ⟨lp', e1, e2, e3⟩ := h.locOwn x i j hx
    rw [hlp] at e1; simp only [Option.some.injEq] at e1; subst e1
    refine ⟨_, rfl, e2, ?_⟩
    simp only
    have : j ≠ lp.bidx := by
      intro e; subst e
      have := (mr x).mpr hx; simp at this; exact hxc this
    omega
  · intro _ x; simp only [upd]; split
    · simp
    · exact h.tmpOwn rfl x
  · intro x; simp only [List.mem_cons, upd]; split
    · rename_i hx; simp [hx]
    · rename_i hx; rw [h.outOwn]; simp [hx]
  · refine List.nodup_cons.mpr ⟨?_, h.outNd⟩
    intro hm; have := (h.outOwn cur).mp hm; rw [hco] at this; cases this

/-- alloc, branch "last header of the only bucket": take a bucket from the global pool, hand
out the old (single) header -/
theorem alloc_take_inv {P : Params} (hP : P.OK) {s s1 : St} {i : Nat} {lp : LPool} {b : Hdr} (h : Inv P s)
    (hlp : s.lp i = some lp) (hn : s.cnt (lp.buckets lp.bidx) = 1) (hb0 : lp.bidx = 0)
    (htk : takeBucket P s = some (s1, some b)) (h1 : InvG P s1 (some b) P.perBucket lo0)
    (hcb : s1.cnt b = P.perBucket) (e1 : s1.lp = s.lp) :
    Inv P { s1 with lp := upd s1.lp i (some { lp with buckets := upd lp.buckets 0 b, bidx := 0 }),
                    own := upd (relabel s1.own .tmp (.loc i 0)) (lp.buckets lp.bidx) .out,
                    out := lp.buckets lp.bidx :: s1.out } := by
  generalize hcur : lp.buckets lp.bidx = cur at *
  -- in s the bucket (i,0) is exactly [cur]
  obtain ⟨k1, k2, _, _⟩ := h.lpB i lp lp.bidx hlp (Nat.zero_le _) (Nat.le_refl _)
  rw [hcur, hb0] at k1; rw [hcur] at k2
  obtain ⟨rest, _, lr, _, mr⟩ := k1.uncons k2
  have hrest : rest = [] := by apply List.eq_nil_of_length_eq_zero; omega
  subst hrest
  have honly : ∀ x, s1.own x = .loc i 0 → x = cur := by
    intro x hx
    have := takeBucket_loc htk hx
    simpa using (mr x).mpr this
  have hlp1 : s1.lp i = some lp := by rw [e1]; exact hlp
  obtain ⟨q1, q2, _, _⟩ := h1.lpB i lp lp.bidx hlp1 (Nat.zero_le _) (Nat.le_refl _)
  rw [hcur, hb0] at q1; rw [hcur] at q2
  have hco : s1.own cur = .loc i 0 := q1.head_own q2
  have hown' : ∀ x, x ≠ cur → upd (relabel s1.own .tmp (.loc i 0)) cur Owner.out x
      = (if s1.own x = .tmp then .loc i 0 else s1.own x) := by
    intro x hx; simp [upd, hx, relabel]
  have f : Frame (fun o => o = .tmp ∨ o = .loc i 0 ∨ o = .out) s1
      { s1 with lp := upd s1.lp i (some { lp with buckets := upd lp.buckets 0 b, bidx := 0 }),
                own := upd (relabel s1.own .tmp (.loc i 0)) cur .out, out := cur :: s1.out } := by
    constructor
    · intro x o ho
      by_cases hx : x = cur
      · subst hx; simp only [upd_same, hco]; constructor
        · intro e; exact absurd (Or.inr (Or.inr e.symm)) ho
        · intro e; exact absurd (Or.inr (Or.inl e.symm)) ho
      · simp only [hown' x hx]; split
        · rename_i hx'; rw [hx']; constructor
          · intro e; exact absurd (Or.inr (Or.inl e.symm)) ho
          · intro e; exact absurd (Or.inl e.symm) ho
        · rfl
    · intro x _; exact ⟨rfl, rfl⟩
  refine h1.frame_pool f i _ (by intro i' j e; simp [e]) (by simp) (by simp) rfl rfl rfl rfl
    ?_ rfl rfl rfl (fun _ _ => rfl) ?_ ?_ ?_ (fun b e => by cases e) ?_ ?_ ?_
  · intro x
    by_cases hx : x = cur
    · subst hx; simp [hco]
    · simp only [hown' x hx]; split
      · rename_i hx'; simp [hx']
      · rfl
  · intro lp' e; simp only [Option.some.injEq] at e; subst e; exact hP.maxLocal_pos
  · intro lp' j e _ h2
    simp only [Option.some.injEq] at e; subst e
    simp only [Nat.le_zero_eq] at h2; subst h2
    simp only [upd_same, hcb]
    refine ⟨(h1.tmpB b rfl).1.relabel (fun _ _ => rfl) ?_, hP.perBucket_pos, Nat.le_refl _, fun e => absurd e (by simp)⟩
    intro x
    by_cases hx : x = cur
    · subst hx; simp [hco]
    · simp only [hown' x hx]; split
      · simp_all
      · rename_i hx'
        constructor
        · intro e; exact absurd (honly x e) hx
        · intro e; exact absurd e hx'
  · intro x j hx
    have hxc : x ≠ cur := by intro e; subst e; simp at hx
    simp only [hown' x hxc] at hx
    split at hx
    · injection hx with _ e2; exact ⟨_, rfl, Nat.zero_le _, by simp [← e2]⟩
    · obtain ⟨lp', e1', _, e3⟩ := h1.locOwn x i j hx
      rw [hlp1] at e1'; simp only [Option.some.injEq] at e1'; subst e1'
      have : j = 0 := by omega
      subst this
      exact absurd (honly x hx) hxc
  · intro _ x
    by_cases hx : x = cur
    · subst hx; simp
    · simp only [hown' x hx]; split <;> simp_all
  · intro x
    by_cases hx : x = cur
    · subst hx; simp
    · simp only [List.mem_cons, hx, false_or, hown' x hx, h1.outOwn]; split
      · rename_i hx'; simp [hx']
      · rfl
  · refine List.nodup_cons.mpr ⟨?_, h1.outNd⟩
    intro hm; have := (h1.outOwn cur).mp hm; rw [hco] at this; cases this

/-- **`ABTI_mem_pool_alloc`**: the invariant is kept; a block that is returned was not handed
out before (it comes from the pool's own current bucket) -/
theorem alloc_inv {P : Params} (hP : P.OK) {s s' : St} {i : Nat} {res : Option Hdr} (h : Inv P s)
    (hr : alloc P s i = some (s', res)) :
    Inv P s' ∧ (∀ x, x ∈ s.carved → x ∈ s'.carved) ∧ (∀ k, k ≠ i → s'.lp k = s.lp k) ∧
    (match res with
      | some c => (∃ j, s.own c = .loc i j) ∧ s'.out = c :: s.out
      | none => s'.out = s.out) := by
  unfold alloc at hr
  cases hlp : s.lp i with
  | none => rw [hlp] at hr; cases hr
  | some lp =>
    rw [hlp] at hr
    simp only at hr
    obtain ⟨k1, k2, _, _⟩ := h.lpB i lp lp.bidx hlp (Nat.zero_le _) (Nat.le_refl _)
    have hco : s.own (lp.buckets lp.bidx) = .loc i lp.bidx := k1.head_own k2
    split at hr
    · cases hr
    · split at hr
      · rename_i hn1
        split at hr
        · rename_i hb0
          obtain ⟨r, htk, hpost, e1, e2, e3⟩ := takeBucket_inv hP h
          rw [htk] at hr
          obtain ⟨s1, ob⟩ := r
          cases ob with
          | none =>
            simp only [Option.some.injEq, Prod.mk.injEq] at hr
            obtain ⟨rfl, rfl⟩ := hr
            exact ⟨hpost, e3, fun k _ => by rw [e1], e2⟩
          | some b =>
            simp only [Option.some.injEq, Prod.mk.injEq] at hr
            obtain ⟨rfl, rfl⟩ := hr
            obtain ⟨h1, hcb⟩ := hpost
            refine ⟨alloc_take_inv hP h hlp hn1 hb0 htk h1 hcb e1, e3, ?_, ?_, ?_⟩
            · intro k hk; simp only [upd, hk, if_false]; rw [e1]
            · exact ⟨_, hco⟩
            · simp only at e2; simp [e2]
        · rename_i hb0
          simp only [Option.some.injEq, Prod.mk.injEq] at hr
          obtain ⟨rfl, rfl⟩ := hr
          refine ⟨alloc_dec_inv h hlp hn1 hb0, fun x hx => hx, ?_, ?_, rfl⟩
          · intro k hk; simp [upd, hk]
          · exact ⟨_, hco⟩
      · rename_i hn0 hn1
        cases hnx : s.next (lp.buckets lp.bidx) with
        | none => rw [hnx] at hr; cases hr
        | some nx =>
          rw [hnx] at hr
          simp only [Option.some.injEq, Prod.mk.injEq] at hr
          obtain ⟨rfl, rfl⟩ := hr
          refine ⟨alloc_pop_inv h hlp (by omega) hnx, fun x hx => hx, ?_, ?_, rfl⟩
          · intro k hk; simp [upd, hk]
          · exact ⟨_, hco⟩

theorem mem_erase_out {l : List Hdr} (hnd : l.Nodup) (h x : Hdr) : x ∈ l.erase h ↔ x ≠ h ∧ x ∈ l :=
  hnd.mem_erase_iff

/-- free, branch "current bucket not full": the block becomes the new head -/
theorem free_push_inv {P : Params} {s : St} {i : Nat} {lp : LPool} {hd : Hdr} (h : Inv P s)
    (hlp : s.lp i = some lp) (ho : hd ∈ s.out) (hnf : s.cnt (lp.buckets lp.bidx) ≠ P.perBucket) :
    Inv P { s with next := upd s.next hd (some (lp.buckets lp.bidx)),
                   cnt := upd s.cnt hd (s.cnt (lp.buckets lp.bidx) + 1),
                   lp := upd s.lp i (some { lp with buckets := upd lp.buckets lp.bidx hd }),
                   own := upd s.own hd (.loc i lp.bidx), out := s.out.erase hd } := by
  generalize hcur : lp.buckets lp.bidx = cur at *
  have hho : s.own hd = .out := (h.outOwn hd).mp ho
  obtain ⟨k1, k2, k3, _⟩ := h.lpB i lp lp.bidx hlp (Nat.zero_le _) (Nat.le_refl _)
  rw [hcur] at k1 k2 k3
  obtain ⟨L, sL, lL, ndL, mL⟩ := k1
  have hnotL : hd ∉ L := by intro hm; have := (mL hd).mp hm; rw [hho] at this; cases this
  have f : Frame (fun o => o = .loc i lp.bidx ∨ o = .out) s
      { s with next := upd s.next hd (some cur), cnt := upd s.cnt hd (s.cnt cur + 1),
               lp := upd s.lp i (some { lp with buckets := upd lp.buckets lp.bidx hd }),
               own := upd s.own hd (.loc i lp.bidx), out := s.out.erase hd } := by
    constructor
    · intro x o ho'; simp only [upd]; split
      · rename_i hx; subst hx; rw [hho]; constructor
        · intro e; exact absurd (Or.inl e.symm) ho'
        · intro e; exact absurd (Or.inr e.symm) ho'
      · rfl
    · intro x hx
      have : x ≠ hd := fun e => hx (Or.inr (e ▸ hho))
      exact ⟨by simp [upd, this], by simp [upd, this]⟩
  refine h.frame_pool f i _ (by intro i' j e; simp [e]) (by simp) (by simp) rfl rfl rfl rfl
    ?_ rfl rfl rfl (fun _ _ => rfl) ?_ ?_ ?_ (fun b e => by cases e) ?_ ?_ ?_
  · intro x; simp only [upd]; split
    · rename_i hx; subst hx; simp [hho]
    · rfl
  · intro lp' e; simp only [Option.some.injEq] at e; subst e; exact h.lpBidx i lp hlp
  · intro lp' j e _ h2
    simp only [Option.some.injEq] at e; subst e
    simp only at h2 ⊢
    by_cases hj : j = lp.bidx
    · subst hj
      simp only [upd_same]
      refine ⟨⟨hd :: L, ⟨rfl, ?_⟩, by simp [lL], List.nodup_cons.mpr ⟨hnotL, ndL⟩, ?_⟩, by omega, by omega,
        fun e => absurd e (Nat.lt_irrefl _)⟩
      · simp only [upd_same]; exact (seg_frame hnotL).mpr sL
      · intro x; simp only [List.mem_cons, upd]; split
        · rename_i hx; simp [hx]
        · rename_i hx; rw [mL]; simp [hx]
    · have hjlt : j < lp.bidx := by omega
      obtain ⟨q1, q2, q3, q4⟩ := h.lpB i lp j hlp (Nat.zero_le _) h2
      simp only [upd, hj, if_false]
      have hb : lp.buckets j ≠ hd := by
        intro e; have := q1.head_own q2; rw [e, hho] at this; cases this
      simp only [hb, if_false]
      exact ⟨f.bucket q1 (by simp; omega), q2, q3, q4⟩
  · intro x j hx
    by_cases hxc : x = hd
    · subst hxc; simp only [upd_same] at hx; injection hx with _ e2
      exact ⟨_, rfl, Nat.zero_le _, by simp [← e2]⟩
    · simp only [upd, hxc, if_false] at hx
      obtain ⟨lp', e1, e2, e3⟩ := h.locOwn x i j hx
      rw [hlp] at e1; simp only [Option.some.injEq] at e1; subst e1
      exact ⟨_, rfl, e2, e3⟩
  · intro _ x; simp only [upd]; split
    · simp
    · exact h.tmpOwn rfl x
  · intro x; simp only [mem_erase_out h.outNd, upd]; split
    · rename_i hx; simp [hx]
    · rename_i hx; rw [h.outOwn]; simp [hx]
  · exact h.outNd.sublist (List.erase_sublist)

/-- free, branch "current bucket full, a bucket slot is free": the block starts a new bucket -/
theorem free_new_inv {P : Params} (hP : P.OK) {s : St} {i : Nat} {lp : LPool} {hd : Hdr} (h : Inv P s)
    (hlp : s.lp i = some lp) (ho : hd ∈ s.out) (hfull : s.cnt (lp.buckets lp.bidx) = P.perBucket)
    (hroom : lp.bidx + 1 ≠ P.maxLocal) :
    Inv P { s with next := upd s.next hd none, cnt := upd s.cnt hd 1,
                   lp := upd s.lp i (some ⟨lp.bidx + 1, upd lp.buckets (lp.bidx + 1) hd⟩),
                   own := upd s.own hd (.loc i (lp.bidx + 1)), out := s.out.erase hd } := by
  have hho : s.own hd = .out := (h.outOwn hd).mp ho
  have hbl := h.lpBidx i lp hlp
  have f : Frame (fun o => o = .loc i (lp.bidx + 1) ∨ o = .out) s
      { s with next := upd s.next hd none, cnt := upd s.cnt hd 1,
               lp := upd s.lp i (some ⟨lp.bidx + 1, upd lp.buckets (lp.bidx + 1) hd⟩),
               own := upd s.own hd (.loc i (lp.bidx + 1)), out := s.out.erase hd } := by
    constructor
    · intro x o ho'; simp only [upd]; split
      · rename_i hx; subst hx; rw [hho]; constructor
        · intro e; exact absurd (Or.inl e.symm) ho'
        · intro e; exact absurd (Or.inr e.symm) ho'
      · rfl
    · intro x hx
      have : x ≠ hd := fun e => hx (Or.inr (e ▸ hho))
      exact ⟨by simp [upd, this], by simp [upd, this]⟩
  refine h.frame_pool f i _ (by intro i' j e; simp [e]) (by simp) (by simp) rfl rfl rfl rfl
    ?_ rfl rfl rfl (fun _ _ => rfl) ?_ ?_ ?_ (fun b e => by cases e) ?_ ?_ ?_
  · intro x; simp only [upd]; split
    · rename_i hx; subst hx; simp [hho]
    · rfl
  · intro lp' e; simp only [Option.some.injEq] at e; subst e; simp only; omega
  · intro lp' j e _ h2
    simp only [Option.some.injEq] at e; subst e
    simp only at h2 ⊢
    by_cases hj : j = lp.bidx + 1
    · subst hj
      simp only [upd_same]
      refine ⟨⟨[hd], ⟨rfl, by simp⟩, rfl, by simp, ?_⟩, Nat.le_refl _, hP.perBucket_pos, fun e => absurd e (Nat.lt_irrefl _)⟩
      intro x; simp only [List.mem_singleton, upd]; split
      · rename_i hx; simp [hx]
      · rename_i hx
        simp only [hx, false_iff]
        intro e
        obtain ⟨lp', e1, _, e3⟩ := h.locOwn x i _ e
        rw [hlp] at e1; simp only [Option.some.injEq] at e1; subst e1
        omega
    · have hjle : j ≤ lp.bidx := by omega
      obtain ⟨q1, q2, q3, q4⟩ := h.lpB i lp j hlp (Nat.zero_le _) hjle
      simp only [upd, hj, if_false]
      have hb : lp.buckets j ≠ hd := by
        intro e; have := q1.head_own q2; rw [e, hho] at this; cases this
      simp only [hb, if_false]
      refine ⟨f.bucket q1 (by simp; omega), q2, q3, fun _ => ?_⟩
      by_cases e : j = lp.bidx
      · subst e; exact hfull
      · exact q4 (by omega)
  · intro x j hx
    by_cases hxc : x = hd
    · subst hxc; simp only [upd_same] at hx; injection hx with _ e2
      exact ⟨_, rfl, Nat.zero_le _, by simp [← e2]⟩
    · simp only [upd, hxc, if_false] at hx
      obtain ⟨lp', e1, e2, e3⟩ := h.locOwn x i j hx
      rw [hlp] at e1; simp only [Option.some.injEq] at e1; subst e1
      exact ⟨_, rfl, e2, by simp only; omega⟩
  · intro _ x; simp only [upd]; split
    · simp
    · exact h.tmpOwn rfl x
  · intro x; simp only [mem_erase_out h.outNd, upd]; split
    · rename_i hx; simp [hx]
    · rename_i hx; rw [h.outOwn]; simp [hx]
  · exact h.outNd.sublist (List.erase_sublist)

/-- free, branch "all local buckets full": bucket 0 goes to the global LIFO, the others move
down one slot, the block starts a new top bucket -/
theorem free_shift_inv {P : Params} (hP : P.OK) {s : St} {i : Nat} {lp : LPool} {hd : Hdr} (h : Inv P s)
    (hlp : s.lp i = some lp) (ho : hd ∈ s.out) (hfull : s.cnt (lp.buckets lp.bidx) = P.perBucket)
    (hmax : lp.bidx + 1 = P.maxLocal) :
    let s1 := returnBucket { s with own := relabel s.own (.loc i 0) .tmp } (lp.buckets 0)
    Inv P { s1 with next := upd s1.next hd none, cnt := upd s1.cnt hd 1,
                    lp := upd s1.lp i (some ⟨P.maxLocal - 1, fun j =>
                      if j = P.maxLocal - 1 then hd else if j + 1 < P.maxLocal then lp.buckets (j + 1) else lp.buckets j⟩),
                    own := upd (shiftOwn i s1.own) hd (.loc i (P.maxLocal - 1)),
                    out := s1.out.erase hd } := by
  intro s1
  have hho : s.own hd = .out := (h.outOwn hd).mp ho
  -- phase 1: detach bucket 0, phase 2: push it
  have hd0 := detach_inv (lo := lo0) h hlp (Nat.zero_le _)
  have hc0 : s.cnt (lp.buckets 0) = P.perBucket := by
    by_cases e : lp.bidx = 0
    · rw [← e]; exact hfull
    · exact (h.lpB i lp 0 hlp (Nat.zero_le _) (Nat.zero_le _)).2.2.2 (by omega)
  simp only [lo0] at hd0
  rw [hc0] at hd0
  have h1 : InvG P s1 none 0 (upd lo0 i 1) := returnBucket_inv hP hd0
  have hlp1 : s1.lp i = some lp := hlp
  have hho1 : s1.own hd = .out := by
    show relabel (relabel s.own (.loc i 0) .tmp) .tmp (.lifo (lp.buckets 0)) hd = .out
    simp [relabel, hho]
  have hnoloc0 : ∀ x, s1.own x ≠ .loc i 0 := by
    intro x e
    obtain ⟨lp', e1, e2, _⟩ := h1.locOwn x i 0 e
    simp at e2
  have hlocle : ∀ x j, s1.own x = .loc i j → 1 ≤ j ∧ j ≤ lp.bidx := by
    intro x j e
    obtain ⟨lp', e1, e2, e3⟩ := h1.locOwn x i j e
    rw [hlp1] at e1; simp only [Option.some.injEq] at e1; subst e1
    simp at e2; exact ⟨e2, e3⟩
  have hcnt1 : ∀ j, 1 ≤ j → j ≤ lp.bidx → s1.cnt (lp.buckets j) = P.perBucket := by
    intro j hj1 hj2
    have hne : lp.buckets j ≠ lp.buckets 0 := by
      intro e
      obtain ⟨q1, q2, _, _⟩ := h.lpB i lp j hlp (Nat.zero_le _) hj2
      obtain ⟨r1, r2, _, _⟩ := h.lpB i lp 0 hlp (Nat.zero_le _) (Nat.zero_le _)
      have a := q1.head_own q2
      have b := r1.head_own r2
      rw [e, b] at a; injection a; omega
    show upd s.cnt (lp.buckets 0) 0 (lp.buckets j) = _
    simp only [upd, hne, if_false]
    by_cases e : j = lp.bidx
    · subst e; exact hfull
    · exact (h.lpB i lp j hlp (Nat.zero_le _) hj2).2.2.2 (by omega)
  have hshift : ∀ x, x ≠ hd → ∀ j, (shiftOwn i s1.own x = .loc i j ↔ s1.own x = .loc i (j + 1)) := by
    intro x _ j
    simp only [shiftOwn]
    cases hx : s1.own x with
    | loc i' j' =>
      simp only
      by_cases e : i' = i
      · subst e
        simp only [if_true]
        have := hlocle x j' hx
        constructor
        · intro e; injection e with _ e2; congr 1; omega
        · intro e; injection e with _ e2; congr 1; omega
      · simp only [e, if_false]
        constructor
        · intro e'; injection e' with e1 _; exact absurd e1 e
        · intro e'; injection e' with e1 _; exact absurd e1 e
    | _ => simp
  have hshift_other : ∀ x o, (∀ j, o ≠ .loc i j) → (shiftOwn i s1.own x = o ↔ s1.own x = o) := by
    intro x o hno
    simp only [shiftOwn]
    cases hx : s1.own x with
    | loc i' j' =>
      simp only
      by_cases e : i' = i
      · subst e; simp only [if_true]
        constructor
        · intro e; exact absurd e.symm (hno _)
        · intro e; exact absurd e.symm (hno _)
      · simp only [e, if_false]
    | _ => simp
  have f : Frame (fun o => o = .out ∨ ∃ j, o = .loc i j) s1
      { s1 with next := upd s1.next hd none, cnt := upd s1.cnt hd 1,
                lp := upd s1.lp i (some ⟨P.maxLocal - 1, fun j =>
                  if j = P.maxLocal - 1 then hd else if j + 1 < P.maxLocal then lp.buckets (j + 1) else lp.buckets j⟩),
                own := upd (shiftOwn i s1.own) hd (.loc i (P.maxLocal - 1)),
                out := s1.out.erase hd } := by
    constructor
    · intro x o ho'
      have hno : ∀ j, o ≠ .loc i j := fun j e => ho' (Or.inr ⟨j, e⟩)
      by_cases hx : x = hd
      · subst hx; simp only [upd_same, hho1]; constructor
        · intro e; exact absurd e.symm (hno _)
        · intro e; exact absurd (Or.inl e.symm) ho'
      · simp only [upd, hx, if_false]; exact hshift_other x o hno
    · intro x hx
      have : x ≠ hd := fun e => hx (Or.inl (e ▸ hho1))
      exact ⟨by simp [upd, this], by simp [upd, this]⟩
  have hbidx : lp.bidx = P.maxLocal - 1 := by omega
  refine (h1.frame_pool (lo' := lo0) f i _ (by intro i' j e; simp [e]) (by simp) (by simp) rfl rfl rfl rfl
    ?_ rfl rfl rfl (fun i' e => by simp [upd, e]) ?_ ?_ ?_ (fun b e => by cases e) ?_ ?_ ?_)
  · intro x
    by_cases hx : x = hd
    · subst hx; simp [hho1]
    · simp only [upd, hx, if_false]; exact hshift_other x _ (by simp)
  · intro lp' e; simp only [Option.some.injEq] at e; subst e; simp only; have := hP.maxLocal_pos; omega
  · intro lp' j e _ h2
    simp only [Option.some.injEq] at e; subst e
    simp only at h2 ⊢
    by_cases hj : j = P.maxLocal - 1
    · subst hj
      simp only [if_true, upd_same]
      refine ⟨⟨[hd], ⟨rfl, by simp⟩, rfl, by simp, ?_⟩, Nat.le_refl _, hP.perBucket_pos, fun e => absurd e (Nat.lt_irrefl _)⟩
      intro x; simp only [List.mem_singleton]
      by_cases hx : x = hd
      · simp [hx]
      · simp only [hx, false_iff, upd, if_false]
        intro e
        have := (hshift x hx _).mp e
        have := hlocle x _ this
        omega
    · have hjlt : j + 1 < P.maxLocal := by omega
      simp only [hj, if_false, hjlt, if_true]
      obtain ⟨q1, q2, q3, _⟩ := h1.lpB i lp (j + 1) hlp1 (by simp) (by omega)
      have hb : lp.buckets (j + 1) ≠ hd := by
        intro e; have := q1.head_own q2; rw [e, hho1] at this; cases this
      simp only [upd, hb, if_false]
      have hc := hcnt1 (j + 1) (by omega) (by omega)
      rw [hc] at q1 ⊢
      refine ⟨q1.relabel ?_ ?_, hP.perBucket_pos, Nat.le_refl _, fun _ => rfl⟩
      · intro x hx
        have : x ≠ hd := by intro e; rw [e, hho1] at hx; cases hx
        simp [upd, this]
      · intro x
        by_cases hx : x = hd
        · subst hx; simp only [upd_same, hho1]
          constructor
          · intro e; injection e with _ e2; omega
          · intro e; cases e
        · simp only [upd, hx, if_false]; exact hshift x hx j
  · intro x j hx
    refine ⟨_, rfl, Nat.zero_le _, ?_⟩
    simp only
    by_cases hxc : x = hd
    · subst hxc; simp only [upd_same] at hx; injection hx with _ e2; omega
    · simp only [upd, hxc, if_false] at hx
      have := hlocle x _ ((hshift x hxc j).mp hx)
      omega
  · intro _ x
    by_cases hx : x = hd
    · subst hx; simp
    · simp only [upd, hx, if_false]
      intro e
      exact h1.tmpOwn rfl x ((hshift_other x _ (by simp)).mp e)
  · intro x
    have hout1 : s1.out = s.out := rfl
    simp only [hout1, mem_erase_out h.outNd]
    by_cases hx : x = hd
    · subst hx; simp
    · simp only [upd, hx, if_false, ne_eq, not_false_eq_true, true_and]
      rw [hshift_other x _ (by simp), ← h1.outOwn]
      exact Iff.rfl
  · exact h.outNd.sublist (List.erase_sublist)

/-- **`ABTI_mem_pool_free`** under its precondition (`hd` is handed out) -/
theorem free_inv {P : Params} (hP : P.OK) {s s' : St} {i : Nat} {hd : Hdr} (h : Inv P s)
    (hr : free P s i hd = some s') :
    Inv P s' ∧ s'.carved = s.carved ∧ (∀ x, x ∈ s'.out ↔ x ≠ hd ∧ x ∈ s.out) ∧ hd ∈ s.out ∧
    (∀ k, k ≠ i → s'.lp k = s.lp k) := by
  unfold free at hr
  split at hr
  · rename_i ho
    unfold freeRaw at hr
    cases hlp : s.lp i with
    | none => rw [hlp] at hr; cases hr
    | some lp =>
      rw [hlp] at hr
      simp only at hr
      split at hr
      · rename_i hfull
        split at hr
        · rename_i hmax
          simp only [Option.some.injEq] at hr; subst hr
          refine ⟨free_shift_inv hP h hlp ho hfull hmax, rfl, ?_, ho, ?_⟩
          · intro x; exact mem_erase_out h.outNd hd x
          · intro k hk; simp only [upd, hk, if_false]; rfl
        · rename_i hmax
          simp only [Option.some.injEq] at hr; subst hr
          refine ⟨free_new_inv hP h hlp ho hfull hmax, rfl, ?_, ho, ?_⟩
          · intro x; exact mem_erase_out h.outNd hd x
          · intro k hk; simp [upd, hk]
      · rename_i hnf
        simp only [Option.some.injEq] at hr; subst hr
        refine ⟨free_push_inv h hlp ho hnf, rfl, ?_, ho, ?_⟩
        · intro x; exact mem_erase_out h.outNd hd x
        · intro k hk; simp [upd, hk]
  · cases hr

/-- the loop of `destroy_local_pool`: after `n` iterations buckets `0..n-1` are on the global LIFO -/
theorem retRange_inv {P : Params} (hP : P.OK) {s : St} {i : Nat} {lp : LPool} (h : Inv P s)
    (hlp : s.lp i = some lp) : ∀ n, n ≤ lp.bidx →
      InvG P (retRange s i lp n) none 0 (upd lo0 i n) ∧ (retRange s i lp n).lp = s.lp ∧
      (retRange s i lp n).out = s.out ∧ (retRange s i lp n).carved = s.carved := by
  intro n
  induction n with
  | zero =>
    intro _
    refine ⟨h.relo (fun k _ _ => ?_), rfl, rfl, rfl⟩
    by_cases e : k = i <;> simp [upd, e]
  | succ n ih =>
    intro hn
    obtain ⟨h1, e1, e2, e3⟩ := ih (by omega)
    have hlp1 : (retRange s i lp n).lp i = some lp := by rw [e1]; exact hlp
    have hd := detach_inv h1 hlp1 (by simp only [upd_same]; omega)
    simp only [upd_same] at hd
    have hc : (retRange s i lp n).cnt (lp.buckets n) = P.perBucket :=
      (h1.lpB i lp n hlp1 (by simp) (by omega)).2.2.2 (by omega)
    rw [hc] at hd
    have h2 := returnBucket_inv hP hd
    refine ⟨h2.relo (fun k _ _ => ?_), ?_, ?_, ?_⟩
    · by_cases e : k = i <;> simp [upd, e]
    · exact e1
    · exact e2
    · exact e3

/-- **`ABTI_mem_pool_destroy_local_pool`** -/
theorem destroyLocal_inv {P : Params} (hP : P.OK) {s s' : St} {i : Nat} (h : Inv P s)
    (hr : destroyLocal P s i = some s') :
    Inv P s' ∧ s'.out = s.out ∧ s'.carved = s.carved ∧ s'.lp i = none ∧ (∀ k, k ≠ i → s'.lp k = s.lp k) := by
  unfold destroyLocal at hr
  cases hlp : s.lp i with
  | none => rw [hlp] at hr; cases hr
  | some lp =>
    rw [hlp] at hr
    simp only [Option.some.injEq] at hr
    obtain ⟨h1, e1, e2, e3⟩ := retRange_inv hP h hlp lp.bidx (Nat.le_refl _)
    generalize retRange s i lp lp.bidx = s1 at *
    have hlp1 : s1.lp i = some lp := by rw [e1]; exact hlp
    have hd := detach_inv h1 hlp1 (by simp only [upd_same]; omega)
    simp only [upd_same] at hd
    obtain ⟨_, _, q3, _⟩ := h1.lpB i lp lp.bidx hlp1 (by simp) (Nat.le_refl _)
    -- the state after the last bucket went back
    have key : ∀ s3 : St, InvG P s3 none 0 (upd (upd lo0 i lp.bidx) i (lp.bidx + 1)) → s3.lp = s1.lp →
        s3.out = s1.out → s3.carved = s1.carved →
        (Inv P { s3 with lp := upd s3.lp i none } ∧ ({ s3 with lp := upd s3.lp i none } : St).out = s.out ∧
         ({ s3 with lp := upd s3.lp i none } : St).carved = s.carved ∧
         ({ s3 with lp := upd s3.lp i none } : St).lp i = none ∧
         (∀ k, k ≠ i → ({ s3 with lp := upd s3.lp i none } : St).lp k = s.lp k)) := by
      intro s3 h3 a1 a2 a3
      refine ⟨?_, by rw [← e2, ← a2], by rw [← e3, ← a3], by simp, fun k hk => by simp [upd, hk, a1, e1]⟩
      have f : Frame (fun _ => False) s3 { s3 with lp := upd s3.lp i none } :=
        ⟨fun _ _ _ => Iff.rfl, fun _ _ => ⟨rfl, rfl⟩⟩
      refine h3.frame_pool (lo' := lo0) f i none (by simp) (by simp) (by simp) rfl rfl rfl rfl (fun _ => Iff.rfl)
        rfl rfl rfl (fun k hk => by simp [upd, hk]) (fun lp' e => by cases e) (fun lp' j e => by cases e) ?_
        (fun b e => by cases e) (fun _ => h3.tmpOwn rfl) h3.outOwn h3.outNd
      intro x j hx
      obtain ⟨lp', q1, q2, q3⟩ := h3.locOwn x i j hx
      rw [a1, hlp1] at q1; simp only [Option.some.injEq] at q1; subst q1
      simp only [upd_same] at q2
      omega
    subst hr
    split
    · rename_i hfull
      rw [hfull] at hd
      exact key _ (returnBucket_inv hP hd) rfl rfl rfl
    · rename_i hnf
      have h3 := returnPartial_inv hP hd rfl (by omega)
      have flds := returnPartial_fields P { s1 with own := relabel s1.own (.loc i lp.bidx) .tmp } (lp.buckets lp.bidx)
      exact key _ h3 flds.1 flds.2.1 flds.2.2

/-! ### the machine -/

theorem init_inv (P : Params) (budget : Nat) : Inv P (init budget) := by
  constructor <;> simp [init, Geo] <;> try (constructor <;> simp)

theorem budget_inv {P : Params} {s : St} (n : Nat) (h : Inv P s) : Inv P { s with pagesLeft := n } :=
  { lpBidx := h.lpBidx, lpB := h.lpB, locOwn := h.locOwn, lifoB := h.lifoB, lifoNd := h.lifoNd,
    lifoOwn := h.lifoOwn, partB := h.partB, partOwn := h.partOwn, tmpB := h.tmpB, tmpOwn := h.tmpOwn,
    outOwn := h.outOwn, outNd := h.outNd, carvedOwn := h.carvedOwn, carvedNd := h.carvedNd,
    geo := h.geo.congr (fun _ => Iff.rfl) rfl rfl rfl }

/-- every operation keeps the invariant -/
theorem stepO_inv {P : Params} (hP : P.OK) {s s' : St} {op : Op} {res : Res} (h : Inv P s)
    (hr : stepO P s op = some (s', res)) : Inv P s' := by
  cases op with
  | initLocal i =>
    simp only [stepO, Option.map_eq_some_iff] at hr
    obtain ⟨⟨s1, ok⟩, h1, h2⟩ := hr
    simp only [Prod.mk.injEq] at h2; obtain ⟨rfl, _⟩ := h2
    exact (initLocal_inv hP h h1).1
  | alloc i =>
    simp only [stepO, Option.map_eq_some_iff] at hr
    obtain ⟨⟨s1, r⟩, h1, h2⟩ := hr
    simp only [Prod.mk.injEq] at h2; obtain ⟨rfl, _⟩ := h2
    exact (alloc_inv hP h h1).1
  | free i hd =>
    simp only [stepO, Option.map_eq_some_iff] at hr
    obtain ⟨s1, h1, h2⟩ := hr
    simp only [Prod.mk.injEq] at h2; obtain ⟨rfl, _⟩ := h2
    exact (free_inv hP h h1).1
  | destroyLocal i =>
    simp only [stepO, Option.map_eq_some_iff] at hr
    obtain ⟨s1, h1, h2⟩ := hr
    simp only [Prod.mk.injEq] at h2; obtain ⟨rfl, _⟩ := h2
    exact (destroyLocal_inv hP h h1).1
  | budget n =>
    simp only [stepO, Option.some.injEq, Prod.mk.injEq] at hr
    obtain ⟨rfl, _⟩ := hr
    exact budget_inv n h

theorem reachable_inv {P : Params} (hP : P.OK) (budget : Nat) (s : St)
    (hr : (machine P budget).Reachable s) : Inv P s := by
  refine Machine.invariant_reachable (machine P budget) (Inv P) (init_inv P budget) ?_ s hr
  intro s op s' hi hs
  simp only [machine, Option.map_eq_some_iff] at hs
  obtain ⟨⟨s1, res⟩, h1, h2⟩ := hs
  simp only at h2; subst h2
  exact stepO_inv hP hi h1

/-- **no assertion of the C code fires, no NULL `p_next` is dereferenced**: on an initialised pool
`alloc` is always defined (it returns a block or `ABT_ERR_MEM`) -/
theorem alloc_progress {P : Params} (hP : P.OK) {s : St} {i : Nat} {lp : LPool} (h : Inv P s)
    (hlp : s.lp i = some lp) : ∃ r, alloc P s i = some r := by
  unfold alloc
  rw [hlp]
  simp only
  obtain ⟨k1, k2, _, _⟩ := h.lpB i lp lp.bidx hlp (Nat.zero_le _) (Nat.le_refl _)
  split
  · omega
  · split
    · split
      · obtain ⟨r, htk, _⟩ := takeBucket_inv hP h
        rw [htk]
        obtain ⟨s1, ob⟩ := r
        cases ob <;> exact ⟨_, rfl⟩
      · exact ⟨_, rfl⟩
    · obtain ⟨rest, sr, lr, _, _⟩ := k1.uncons k2
      cases rest with
      | nil => simp at lr; omega
      | cons y r =>
        have : s.next (lp.buckets lp.bidx) = some y := sr.1
        rw [this]; exact ⟨_, rfl⟩

theorem initLocal_progress {P : Params} (hP : P.OK) {s : St} {i : Nat} (h : Inv P s)
    (hlp : s.lp i = none) : ∃ r, initLocal P s i = some r := by
  unfold initLocal
  rw [hlp]
  obtain ⟨r, htk, _⟩ := takeBucket_inv hP h
  rw [htk]
  obtain ⟨s1, ob⟩ := r
  cases ob <;> exact ⟨_, rfl⟩

end ArgoVerif.Model.MemPool
