import ArgoVerif.Model.Replace
/-
Proofs.Replace — invariant of main-scheduler replacement when requests do not overlap.
-/
namespace ArgoVerif.Model.Replace

structure Inv (s : St) : Prop where
  uaf : s.uaf = false
  curAlive : s.freed s.cur = false
  pend : ∀ x, s.rsched s.cur = some x → s.freed x = false ∧ x ≠ s.cur ∧ s.rsched x = none ∧ s.rwaiter x = none
  both : s.rsched s.cur = none ↔ s.rwaiter s.cur = none
  active : ∀ u ∈ s.ults, (s.ustat u = .ready ∨ s.ustat u = .running) →
    s.upool u = s.cur ∨ s.rsched s.cur = some (s.upool u)
  blocked : ∀ u ∈ s.ults, s.ustat u = .blocked → s.rwaiter s.cur = some u ∧ s.rsched s.cur = some (s.upool u)
  waiter : ∀ w, s.rwaiter s.cur = some w → w ∈ s.ults ∧ s.ustat w = .blocked
  sched : s.onSched = true → ∀ u ∈ s.ults, s.ustat u ≠ .running
  oneRun : ∀ u ∈ s.ults, ∀ v ∈ s.ults, s.ustat u = .running → s.ustat v = .running → u = v

theorem inv_init (ults : List RId) (a : Bool) : Inv (init ults a) := by
  constructor
  · rfl
  · rfl
  · intro x hx; simp [init] at hx
  · simp [init]
  · intro u _ _; exact Or.inl rfl
  · intro u _ hst
    simp only [init] at hst
    split at hst <;> cases hst
  · intro w hw; simp [init] at hw
  · intro hf; simp [init] at hf
  · intro u _ v _ hu hv
    simp only [init] at hu hv
    split at hu
    · split at hv
      · rename_i e1 e2; rw [e1, e2]
      · cases hv
    · cases hu

theorem inv_request (s s' : St) (u x : RId) (h : Inv s) (hno : s.rsched s.cur = none)
    (hs : step s (.request u x) = some s') : Inv s' := by
  have hw : s.rwaiter s.cur = none := h.both.mp hno
  simp only [step] at hs
  split at hs
  · rename_i hc
    obtain ⟨h1, h2, h3, h4, h5, h6, h7⟩ := hc
    have hup : s.upool u = s.cur := by
      rcases h.active u h3 (Or.inr h2) with e | e
      · exact e
      · rw [hno] at e; cases e
    simp only [hup, if_true, hno, hw, Option.some.injEq] at hs
    subst hs
    constructor
    · exact h.uaf
    · exact h.curAlive
    · intro y hy
      simp only [upd_same, Option.some.injEq] at hy
      subst hy
      have : x ≠ s.cur := h4
      simp [upd, this, h5, h6, h7]
    · simp [upd]
    · intro v hv hst
      by_cases hvu : v = u
      · subst hvu; simp [upd] at hst
      · simp only [upd, hvu, if_false] at hst ⊢
        rcases h.active v hv hst with e | e
        · exact Or.inl e
        · rw [hno] at e; cases e
    · intro v hv hst
      by_cases hvu : v = u
      · subst hvu; simp [upd]
      · simp only [upd, hvu, if_false] at hst
        have := (h.blocked v hv hst).1
        rw [hw] at this; cases this
    · intro w hwt
      simp only [upd_same, Option.some.injEq] at hwt
      subst hwt
      exact ⟨h3, by simp [upd]⟩
    · intro _ v hv
      by_cases hvu : v = u
      · subst hvu; simp [upd]
      · simp only [upd, hvu, if_false]
        intro hr
        exact hvu (h.oneRun v hv u h3 hr h2)
    · intro a ha b hb hra hrb
      by_cases hau : a = u
      · subst hau; simp [upd] at hra
      · by_cases hbu : b = u
        · subst hbu; simp [upd] at hrb
        · simp only [upd, hau, hbu, if_false] at hra hrb
          exact h.oneRun a ha b hb hra hrb
  · cases hs

theorem inv_run (s s' : St) (u : RId) (h : Inv s) (hs : step s (.run u) = some s') : Inv s' := by
  simp only [step] at hs
  split at hs
  · rename_i hc
    obtain ⟨h1, h2, h3, h4⟩ := hc
    simp only [Option.some.injEq] at hs
    subst hs
    constructor
    · exact h.uaf
    · exact h.curAlive
    · exact h.pend
    · exact h.both
    · intro v hv hst
      by_cases hvu : v = u
      · subst hvu; exact Or.inl h4
      · simp only [upd, hvu, if_false] at hst
        exact h.active v hv hst
    · intro v hv hst
      by_cases hvu : v = u
      · subst hvu; simp [upd] at hst
      · simp only [upd, hvu, if_false] at hst
        exact h.blocked v hv hst
    · intro w hwt
      have := h.waiter w hwt
      refine ⟨this.1, ?_⟩
      by_cases hwu : w = u
      · subst hwu; rw [h3] at this; cases this.2
      · simp [upd, hwu, this.2]
    · intro hf; cases hf
    · intro a ha b hb hra hrb
      have hsa := h.sched h1
      by_cases hau : a = u
      · by_cases hbu : b = u
        · rw [hau, hbu]
        · simp only [upd, hbu, if_false] at hrb
          exact absurd hrb (hsa b hb)
      · simp only [upd, hau, if_false] at hra
        exact absurd hra (hsa a ha)
  · cases hs

theorem inv_yield_finish (s s' : St) (u : RId) (st : UStat) (hst' : st = .ready ∨ st = .done) (h : Inv s)
    (hc : s.onSched = false ∧ u ∈ s.ults ∧ s.ustat u = .running)
    (hs : s' = { s with ustat := upd s.ustat u st, onSched := true }) : Inv s' := by
  obtain ⟨h1, h2, h3⟩ := hc
  subst hs
  constructor
  · exact h.uaf
  · exact h.curAlive
  · exact h.pend
  · exact h.both
  · intro v hv hst
    by_cases hvu : v = u
    · subst hvu; exact h.active v hv (Or.inr h3)
    · simp only [upd, hvu, if_false] at hst
      exact h.active v hv hst
  · intro v hv hst
    by_cases hvu : v = u
    · subst hvu
      simp only [upd_same] at hst
      rcases hst' with e | e <;> (rw [e] at hst; cases hst)
    · simp only [upd, hvu, if_false] at hst
      exact h.blocked v hv hst
  · intro w hwt
    have := h.waiter w hwt
    refine ⟨this.1, ?_⟩
    by_cases hwu : w = u
    · subst hwu; rw [h3] at this; cases this.2
    · simp [upd, hwu, this.2]
  · intro _ v hv
    by_cases hvu : v = u
    · subst hvu
      simp only [upd_same]
      rcases hst' with e | e <;> (rw [e]; intro hh; cases hh)
    · simp only [upd, hvu, if_false]
      intro hr
      exact hvu (h.oneRun v hv u h2 hr h3)
  · intro a ha b hb hra hrb
    by_cases hau : a = u
    · subst hau
      simp only [upd_same] at hra
      rcases hst' with e | e <;> (rw [e] at hra; cases hra)
    · by_cases hbu : b = u
      · subst hbu
        simp only [upd_same] at hrb
        rcases hst' with e | e <;> (rw [e] at hrb; cases hrb)
      · simp only [upd, hau, hbu, if_false] at hra hrb
        exact h.oneRun a ha b hb hra hrb

theorem inv_replace (s s' : St) (h : Inv s) (hs : step s .replace = some s') : Inv s' := by
  simp only [step] at hs
  split at hs
  · rename_i hc
    obtain ⟨h1, h2⟩ := hc
    rw [List.all_eq_true] at h2
    cases hx : s.rsched s.cur with
    | none => simp [hx] at hs
    | some x =>
      cases hwt : s.rwaiter s.cur with
      | none => simp [hx, hwt] at hs
      | some w =>
        simp only [hx, hwt, Option.some.injEq] at hs
        subst hs
        have hp := h.pend x hx
        have hwm := h.waiter w hwt
        have hwb := h.blocked w hwm.1 hwm.2
        have hpw : s.upool w = x := by
          have := hwb.2; rw [hx] at this; simp only [Option.some.injEq] at this; exact this.symm
        have hxc : x ≠ s.cur := hp.2.1
        constructor
        · simp [resumePush, h.uaf, upd, hpw, hxc, hp.1]
        · simp [resumePush, upd, hxc, hp.1]
        · intro y hy
          simp [resumePush, hp.2.2.1] at hy
        · simp [resumePush, hp.2.2.1, hp.2.2.2]
        · intro v hv hst
          simp only [resumePush]
          by_cases hvw : v = w
          · subst hvw; exact Or.inl hpw
          · simp only [resumePush, upd, hvw, if_false] at hst
            rcases hst with hr | hr
            · rcases h.active v hv (Or.inl hr) with e | e
              · have := h2 v hv
                simp [hr, e] at this
              · rw [hx] at e; simp only [Option.some.injEq] at e; exact Or.inl e.symm
            · exact absurd hr (h.sched h1 v hv)
        · intro v hv hst
          by_cases hvw : v = w
          · subst hvw; simp [resumePush, upd] at hst
          · simp only [resumePush, upd, hvw, if_false] at hst
            have := (h.blocked v hv hst).1
            rw [hwt] at this
            simp only [Option.some.injEq] at this
            exact absurd this.symm hvw
        · intro w' hw'
          simp [resumePush, hp.2.2.2] at hw'
        · intro _ v hv
          by_cases hvw : v = w
          · subst hvw; simp [resumePush, upd]
          · simp only [resumePush, upd, hvw, if_false]
            exact h.sched h1 v hv
        · intro a ha b hb hra hrb
          by_cases haw : a = w
          · subst haw; simp [resumePush, upd] at hra
          · simp only [resumePush, upd, haw, if_false] at hra
            exact absurd hra (h.sched h1 a ha)
  · cases hs

theorem inv_stepNO (s s' : St) (e : Ev) (h : Inv s) (hs : stepNO s e = some s') : Inv s' := by
  cases e with
  | request u x =>
    simp only [stepNO] at hs
    split at hs
    · cases hs
    · rename_i hn
      have hno : s.rsched s.cur = none := by
        cases hh : s.rsched s.cur with
        | none => rfl
        | some y => simp [hh] at hn
      exact inv_request s s' u x h hno hs
  | run u => exact inv_run s s' u h hs
  | yield u =>
    simp only [stepNO, step] at hs
    split at hs
    · rename_i hc
      simp only [Option.some.injEq] at hs
      exact inv_yield_finish s s' u .ready (Or.inl rfl) h hc hs.symm
    · cases hs
  | finish u =>
    simp only [stepNO, step] at hs
    split at hs
    · rename_i hc
      simp only [Option.some.injEq] at hs
      exact inv_yield_finish s s' u .done (Or.inr rfl) h hc hs.symm
    · cases hs
  | replace => exact inv_replace s s' h hs

theorem inv_runNO : ∀ (tr : List Ev) (s s' : St), Inv s → runNO s tr = some s' → Inv s' := by
  intro tr
  induction tr with
  | nil => intro s s' h hr; simp only [runNO, Option.some.injEq] at hr; rw [← hr]; exact h
  | cons e es ih =>
    intro s s' h hr
    simp only [runNO] at hr
    cases hst : stepNO s e with
    | none => simp [hst] at hr
    | some s1 => simp only [hst] at hr; exact ih s1 s' (inv_stepNO s s1 e h hst) hr

end ArgoVerif.Model.Replace
