import ArgoVerif.Model.XsLife
import ArgoVerif.Proofs.XsCtx
/-
Proofs.XsLife — the stream.c layer of Model.XsLife sees the native-thread context only through two finite
abstractions: the phase of the native thread (`nph`: restart pending / inside thread_f / parked) and the class of the
context caller's program counter (`ccl`).  How every step of Model.XsCtx moves these is a table checked by the kernel
over the closed list `XsCtx.reach` (`tab_ok`); the inductive invariant `Inv` of the whole model is then proved event by
event.
-/
namespace ArgoVerif.Model.XsLife
open ArgoVerif ArgoVerif.Model.XsCtx

/-- phase of the native thread: a (re)start of thread_f is pending / it is inside thread_f / it has left thread_f and
nobody has asked for a restart -/
inductive NPh where
  | pre | inF | ended
deriving DecidableEq, Repr

def nph (c : Ctl) : NPh :=
  if c.tpc = .run then .inF else if c.tpc = .start || c.owed then .pre else .ended

inductive CCl where
  | idleF | idleT | inJ | rPre | rPost | fPre | fPost | freed
deriving DecidableEq, Repr

def ccl : CPc → CCl
  | .idle false => .idleF
  | .idle true => .idleT
  | .jLock | .jChk | .jStore | .jWait | .jBlocked | .jWoken | .jLoop | .jAssert | .jUnlock => .inJ
  | .rLock | .rStore => .rPre
  | .rSig | .rUnlock => .rPost
  | .fLock | .fStore => .fPre
  | .fSig | .fUnlock | .fJoin => .fPost
  | .freed => .freed

def tabN (c : Ctl) (e : XsCtx.Ev) (c' : Ctl) : Bool :=
  if restartEv c e then nph c = .pre && nph c' = .inF
  else if e = .ret then nph c = .inF && nph c' = .ended
  else nph c' = nph c || (nph c = .ended && nph c' = .pre && ccl c.cpc = .rPre && ccl c'.cpc = .rPost)

def tabC (c : Ctl) (e : XsCtx.Ev) (c' : Ctl) : Bool :=
  match e with
  | .call .join => (ccl c.cpc = .idleF || ccl c.cpc = .idleT) && ccl c'.cpc = .inJ
  | .call .revive => ccl c.cpc = .idleT && ccl c'.cpc = .rPre
  | .call .free => ccl c.cpc = .idleT && ccl c'.cpc = .fPre
  | .pjoin => ccl c.cpc = .fPost && ccl c'.cpc = .freed
  | .unlock .C =>
    match c.cpc with
    | .jUnlock => ccl c'.cpc = .idleT
    | .rUnlock => ccl c'.cpc = .idleF
    | _ => ccl c'.cpc = ccl c.cpc
  | _ => ccl c'.cpc = ccl c.cpc || (ccl c.cpc = .rPre && ccl c'.cpc = .rPost && nph c = .ended && nph c' = .pre) ||
         (ccl c.cpc = .fPre && ccl c'.cpc = .fPost)

/-- facts about single context states -/
def factsB (c : Ctl) : Bool :=
  !c.fault &&
  (!(ccl c.cpc = .idleT || ccl c.cpc = .rPre || ccl c.cpc = .fPre || ccl c.cpc = .fPost || ccl c.cpc = .freed) ||
    nph c = .ended) &&
  (!(ccl c.cpc = .rPost) || nph c = .pre) &&
  (!(c.cpc = .rStore || c.cpc = .fStore || ccl c.cpc = .idleT) || c.st = .waiting)

def tabB (c : Ctl) : Bool :=
  factsB c && allEv.all fun e =>
    match cstep c e with
    | some (c', _) => tabN c e c' && tabC c e c'
    | none => true

set_option maxRecDepth 100000 in
theorem tab_ok : reach.all tabB = true := by decide

theorem tab_of {c : Ctl} (hc : c ∈ reach) : factsB c = true := by
  have h := (List.all_eq_true.mp tab_ok) c hc
  unfold tabB at h
  simp only [Bool.and_eq_true] at h
  exact h.1

theorem tab_step {c c' : Ctl} {e : XsCtx.Ev} {eff : Eff} (hc : c ∈ reach) (hs : cstep c e = some (c', eff)) :
    c' ∈ reach ∧ tabN c e c' = true ∧ tabC c e c' = true := by
  have h := (List.all_eq_true.mp tab_ok) c hc
  unfold tabB at h
  simp only [Bool.and_eq_true] at h
  have h2 := (List.all_eq_true.mp h.2) e (allEv_complete e)
  rw [hs] at h2
  simp only [Bool.and_eq_true] at h2
  exact ⟨(reach_step hc hs).1, h2.1, h2.2⟩

/-! ### the invariant -/

/-- where N is inside thread_f determines the main scheduler's state and the public state -/
def npcOk (s : St) : Bool :=
  match s.npc with
  | .out => nph s.x != .inF
  | .root => nph s.x == .inF && !s.mterm && !s.pub && s.rootq
  | .sched | .chk _ _ | .msf | .mend => nph s.x == .inF && !s.mterm && !s.pub
  | .rootEnd => nph s.x == .inF && s.mterm && !s.pub
  | .fin => nph s.x == .inF && s.mterm && s.pub

/-- a (re)start is pending: the main scheduler is READY in the root pool, the stream is RUNNING -/
def preOk (s : St) : Bool := nph s.x != .pre || (!s.mterm && !s.pub && s.rootq)

/-- the native thread has left thread_f and no restart is pending: everything is TERMINATED, except for what a
revive in progress has already reset -/
def endedOk (s : St) : Bool :=
  nph s.x != .ended ||
  match s.lpc with
  | .rClear | .rPush => !s.mterm && s.pub
  | .rPub => !s.mterm && s.pub && s.rootq
  | .rCtx => !s.mterm && !s.pub && s.rootq
  | _ => s.mterm && s.pub

/-- stream.c's program counter against the context caller's -/
def rel : LPc → CCl → Bool
  | .idle, c | .jFin, c | .jTj, c | .jSetJ, c | .jWaitM, c => c = .idleF || c = .idleT
  | .jCtx, c => c = .idleF || c = .idleT || c = .inJ
  | .jPub, c | .jRet, c => c = .idleT
  | .rChk, c | .rReset, c | .rReady, c | .rClear, c | .rPush, c | .rPub, c => c = .idleT
  | .rCtx, c => c = .idleT || c = .rPre || c = .rPost
  | .rRet, c => c = .idleF
  | .fCtx, c => c = .idleT || c = .fPre || c = .fPost
  | .fRet, c | .freed, c => c = .freed

def joinOk (s : St) : Bool := s.lpc != .jCtx || s.mterm

/-- nobody has joined / cancelled / exited the stream since it was created / revived: no request bit is set, nothing
is TERMINATED, the scheduler is (about to be) in its loop -/
def quietOk (s : St) : Bool :=
  s.cause ||
    (!s.fin && !s.ext && !s.jreq && !s.creq && !s.pub && !s.mterm &&
      (s.lpc = .idle || s.lpc = .rCtx || s.lpc = .rRet) && (s.npc = .out || s.npc = .root || s.npc = .sched))

/-- what ABT_xstream_revive has reset so far stays reset until it publishes RUNNING -/
def reviveOk (s : St) : Bool :=
  match s.lpc with
  | .rReady | .rClear => !s.fin && !s.ext
  | .rPush | .rPub => !s.fin && !s.ext && !s.jreq && !s.creq
  | _ => true

structure Inv (s : St) : Prop where
  reach : s.x ∈ XsCtx.reach
  npc : npcOk s = true
  pre : preOk s = true
  ended : endedOk s = true
  rel : rel s.lpc (ccl s.x.cpc) = true
  join : joinOk s = true
  quiet : quietOk s = true
  revive : reviveOk s = true
  nofault : s.fault = false

theorem inv_init : Inv init := by
  constructor <;> decide

/-- the lemmas below get the context facts of the current state in this form -/
theorem facts_of {s : St} (hi : Inv s) :
    ((ccl s.x.cpc = .idleT ∨ ccl s.x.cpc = .rPre ∨ ccl s.x.cpc = .fPre ∨ ccl s.x.cpc = .fPost ∨ ccl s.x.cpc = .freed) →
      nph s.x = .ended) ∧
    (ccl s.x.cpc = .rPost → nph s.x = .pre) ∧ s.x.fault = false := by
  have h := tab_of hi.reach
  unfold factsB at h
  simp only [Bool.and_eq_true, Bool.or_eq_true, Bool.not_eq_true', decide_eq_true_eq, decide_eq_false_iff_not] at h
  refine ⟨?_, ?_, ?_⟩
  · intro hc
    rcases h.1.1.2 with h1 | h1
    · exact absurd hc (by simpa [and_assoc] using h1)
    · exact h1
  · intro hc
    rcases h.1.2 with h1 | h1
    · exact absurd hc h1
    · exact h1
  · exact h.1.1.1

end ArgoVerif.Model.XsLife
