import ArgoVerif.Model.X86
import ArgoVerif.Gen.Fcontext
/-
Proofs.X86 — helpers for Props.C02 (assembly half): composition of `run`, two concrete
environments that satisfy the ABI predicate (used by the non-vacuity examples and by
`driver x86`), concrete machine states, and the proof scripts shared by the per-routine
theorems (symbolic execution by `simp only`, then `grind`).
-/
namespace ArgoVerif.Proofs.X86
open ArgoVerif.Model.X86 ArgoVerif.Gen.Fcontext

theorem run_append (env : Env) (s : St) (p q : List Instr) :
    run env s (p ++ q) = run env (run env s p) q := by
  induction p generalizing s with
  | nil => rfl
  | cons i p ih => simp only [List.cons_append, run]; exact ih _

theorem run_nil (env : Env) (s : St) : run env s [] = s := rfl

theorem retEnv_abi (n : Int) : AbiEnv retEnv n := by
  constructor <;> intros <;> simp [retEnv, setReg]

theorem trashEnv_abi (n : Int) : AbiEnv trashEnv n := by
  constructor <;> intros <;> simp [trashEnv, trashCb, junkReg, junkRegs] <;> omega

/-- a concrete machine state for the non-vacuity examples: a thread about to call a switch
routine with `rsp = 0x6FF8` (an ABI-conformant function entry: `rsp + 8` is 16-byte aligned;
return address `0x401000` on top), distinct values in every
callee-saved register, round-to-zero + flush-to-zero MXCSR, 53-bit-precision x87 CW. -/
def exSt0 : St where
  reg := fun r => match r with
    | .rsp => 0x6FF8 | .rbx => 0xB1 | .rbp => 0xB2 | .r12 => 0xC12 | .r13 => 0xC13
    | .r14 => 0xC14 | .r15 => 0xC15 | .rsi => 0x9000 | .rcx => 0x9000 | .r9 => 0x9000
    | .rdi => 0x9008 | .rdx => 0x9008 | .r8 => 0x5555 | .rax => 1 | .r10 => 10 | .r11 => 11
  mem := fun a => if a = 0x6FF8 then 0x401000 else 0
  mem32 := fun _ => 0
  mem16 := fun _ => 0
  mxcsr := 0xFF80
  fpucw := 0x027F
  pc := none
  calls := []

/-- somebody else's state when it resumes the context saved from `exSt0` by `save`: same
memory as the save half left, every register different, new-context argument in
`rdi` and `rdx` (covers all four restoring routines) -/
def exSt1 (save : List Instr) : St :=
  { run retEnv exSt0 save with
    reg := fun r => match r with
      | .rdi => 0x9000 | .rdx => 0x9000 | .rsi => 0x402000 | .rsp => 0x3000 | _ => 0x77
    mxcsr := 0x1F80, fpucw := 0x037F }

/-- symbolic execution of the generated lists -/
macro "fctx_unfold" : tactic => `(tactic|
  simp only [run, exec, setReg, setMem, setMem32, setMem16, andNegPow2, Int.neg_neg,
    ↓reduceIte, reduceCtorEq, Int.add_zero,
    switch_fcontext, switch_fcontext_save, switch_fcontext_restore,
    jump_fcontext, jump_fcontext_restore,
    init_and_switch_fcontext, init_and_switch_fcontext_save, init_and_switch_fcontext_init,
    init_and_jump_fcontext, init_and_jump_fcontext_init,
    switch_with_call_fcontext, switch_with_call_fcontext_save, switch_with_call_fcontext_restore,
    jump_with_call_fcontext, jump_with_call_fcontext_restore,
    init_and_switch_with_call_fcontext, init_and_switch_with_call_fcontext_save,
    init_and_switch_with_call_fcontext_init,
    init_and_jump_with_call_fcontext, init_and_jump_with_call_fcontext_init,
    peek_fcontext] at *)

/-- bring the ABI clauses into the context for `grind` -/
macro "fctx_abi" h:ident : tactic => `(tactic| (
  have := AbiEnv.rsp $h; have := AbiEnv.rbx $h; have := AbiEnv.rbp $h; have := AbiEnv.r12 $h
  have := AbiEnv.r13 $h; have := AbiEnv.r14 $h; have := AbiEnv.r15 $h; have := AbiEnv.mxcsr $h
  have := AbiEnv.fpucw $h; have := AbiEnv.frame $h; have := AbiEnv.frame32 $h
  have := AbiEnv.frame16 $h; have := AbiEnv.pc $h; have := AbiEnv.calls $h))

end ArgoVerif.Proofs.X86
