import ArgoVerif.Proofs.MemPoolConc
/-
Proofs.MemPoolConcP — the page invariant (every page obtained is at exactly one place: the page LIFO
with room left, the empty-page list fully carved, held by one caller, or released), the tear-down
invariant, the size invariant (full buckets are full, the partial bucket is partial), and the
soundness of the executable step.
-/
namespace ArgoVerif.Model.MemPoolConc
open ArgoVerif

theorem hp_idle : heldPage .idle = none := rfl
theorem hp_take (pu : Purpose) : heldPage (.take pu) = none := rfl
theorem hp_carving (pu : Purpose) (acc : Bucket) : heldPage (.carving pu acc) = none := rfl
theorem hp_needPage (pu : Purpose) (acc : Bucket) : heldPage (.needPage pu acc) = none := rfl
theorem hp_havePage (pu : Purpose) (acc : Bucket) (p : Nat) : heldPage (.havePage pu acc p) = some p := rfl
theorem hp_got (pu : Purpose) (b : Bucket) : heldPage (.got pu b) = none := rfl
theorem hp_takeFailed (pu : Purpose) : heldPage (.takeFailed pu) = none := rfl
theorem hp_retPart (k : Cont) (b : Bucket) : heldPage (.retPart k b) = none := rfl
theorem hp_partPush (k : Cont) (b : Bucket) : heldPage (.partPush k b) = none := rfl
theorem hp_partUnlock (k : Cont) : heldPage (.partUnlock k) = none := rfl
theorem hp_freeRet (b : Bucket) : heldPage (.freeRet b) = none := rfl
theorem hp_destroying (f : List Bucket) (c : Bucket) : heldPage (.destroying f c) = none := rfl
theorem hp_doneAlloc (h : Hdr) : heldPage (.doneAlloc h) = none := rfl
theorem hp_doneFree : heldPage .doneFree = none := rfl
theorem hp_doneDestroy : heldPage .doneDestroy = none := rfl

/-- the page invariant -/
structure PInv (P : Params) (s : St) : Prop where
  lifo : ∀ p, p ∈ s.pageLifo ↔ s.pown p = .lifo
  lifoNd : s.pageLifo.Nodup
  empty : ∀ p, p ∈ s.emptyPages ↔ s.pown p = .empty
  emptyNd : s.emptyPages.Nodup
  held : ∀ a p, heldPage (s.pc a) = some p ↔ s.pown p = .held a
  rel : ∀ p, p ∈ s.released ↔ s.pown p = .released
  relNd : s.released.Nodup
  unalloc : ∀ p, s.pown p = .unalloc ↔ s.npages ≤ p
  lifoRoom : ∀ p, s.pown p = .lifo → s.used p < P.slots
  emptyFull : ∀ p, s.pown p = .empty → s.used p = P.slots
  heldRoom : ∀ a p, s.pown p = .held a → s.used p < P.slots
  usedLe : ∀ p, s.used p ≤ P.slots

theorem pinv_init (P : Params) : PInv P init := by
  constructor <;> simp [init, heldPage]

macro "pfin" : tactic => `(tactic| (intros; (try simp only [upd_apply, apply_ite heldPage, hp_idle, hp_take, hp_carving,
  hp_needPage, hp_havePage, hp_got, hp_takeFailed, hp_retPart, hp_partPush, hp_partUnlock, hp_freeRet, hp_destroying,
  hp_doneAlloc, hp_doneFree, hp_doneDestroy, heldPage_dnext, heldPage_afterCarve, heldPage_contPc]); grind [numProvided, heldPage, upd_apply]))

theorem pstep_lifo (P : Params) (hP : P.OK) (s : St) (e : Ev) (s' : St) (h : PInv P s) (hs : Step P s e s') : ∀ p, p ∈ s'.pageLifo ↔ s'.pown p = .lifo := by
  have c1 := h.lifo; have c2 := h.lifoNd; have c3 := h.empty; have c4 := h.emptyNd; have c5 := h.held; have c6 := h.rel
  have c7 := h.relNd; have c8 := h.unalloc; have c9 := h.lifoRoom; have c10 := h.emptyFull; have c11 := h.heldRoom
  have c12 := h.usedLe
  have := hP.slots_pos
  cases hs with
  | @callInit a p1 p2 p3 =>
    have kh := c5 a; rw [p2] at kh; simp only [hp_idle, hp_take, hp_carving, hp_needPage, hp_havePage, hp_got, hp_takeFailed, hp_retPart, hp_partPush, hp_partUnlock, hp_freeRet, hp_destroying, hp_doneAlloc, hp_doneFree, hp_doneDestroy, reduceCtorEq, false_iff, Option.some.injEq] at kh
    first | assumption | pfin
  | @retInitOk a b p1 p2 =>
    have kh := c5 a; rw [p1] at kh; simp only [hp_idle, hp_take, hp_carving, hp_needPage, hp_havePage, hp_got, hp_takeFailed, hp_retPart, hp_partPush, hp_partUnlock, hp_freeRet, hp_destroying, hp_doneAlloc, hp_doneFree, hp_doneDestroy, reduceCtorEq, false_iff, Option.some.injEq] at kh
    first | assumption | pfin
  | @retInitFail a p1 =>
    have kh := c5 a; rw [p1] at kh; simp only [hp_idle, hp_take, hp_carving, hp_needPage, hp_havePage, hp_got, hp_takeFailed, hp_retPart, hp_partPush, hp_partUnlock, hp_freeRet, hp_destroying, hp_doneAlloc, hp_doneFree, hp_doneDestroy, reduceCtorEq, false_iff, Option.some.injEq] at kh
    first | assumption | pfin
  | @callAllocPop a f x x2 c p1 p2 p3 =>
    have kh := c5 a; rw [p2] at kh; simp only [hp_idle, hp_take, hp_carving, hp_needPage, hp_havePage, hp_got, hp_takeFailed, hp_retPart, hp_partPush, hp_partUnlock, hp_freeRet, hp_destroying, hp_doneAlloc, hp_doneFree, hp_doneDestroy, reduceCtorEq, false_iff, Option.some.injEq] at kh
    first | assumption | pfin
  | @callAllocPrev a f b x p1 p2 p3 =>
    have kh := c5 a; rw [p2] at kh; simp only [hp_idle, hp_take, hp_carving, hp_needPage, hp_havePage, hp_got, hp_takeFailed, hp_retPart, hp_partPush, hp_partUnlock, hp_freeRet, hp_destroying, hp_doneAlloc, hp_doneFree, hp_doneDestroy, reduceCtorEq, false_iff, Option.some.injEq] at kh
    first | assumption | pfin
  | @callAllocTake a x p1 p2 p3 =>
    have kh := c5 a; rw [p2] at kh; simp only [hp_idle, hp_take, hp_carving, hp_needPage, hp_havePage, hp_got, hp_takeFailed, hp_retPart, hp_partPush, hp_partUnlock, hp_freeRet, hp_destroying, hp_doneAlloc, hp_doneFree, hp_doneDestroy, reduceCtorEq, false_iff, Option.some.injEq] at kh
    first | assumption | pfin
  | @retAllocTake a b x p1 p2 =>
    have kh := c5 a; rw [p1] at kh; simp only [hp_idle, hp_take, hp_carving, hp_needPage, hp_havePage, hp_got, hp_takeFailed, hp_retPart, hp_partPush, hp_partUnlock, hp_freeRet, hp_destroying, hp_doneAlloc, hp_doneFree, hp_doneDestroy, reduceCtorEq, false_iff, Option.some.injEq] at kh
    first | assumption | pfin
  | @retAllocFail a p1 =>
    have kh := c5 a; rw [p1] at kh; simp only [hp_idle, hp_take, hp_carving, hp_needPage, hp_havePage, hp_got, hp_takeFailed, hp_retPart, hp_partPush, hp_partUnlock, hp_freeRet, hp_destroying, hp_doneAlloc, hp_doneFree, hp_doneDestroy, reduceCtorEq, false_iff, Option.some.injEq] at kh
    first | assumption | pfin
  | @retAllocDone a x p1 =>
    have kh := c5 a; rw [p1] at kh; simp only [hp_idle, hp_take, hp_carving, hp_needPage, hp_havePage, hp_got, hp_takeFailed, hp_retPart, hp_partPush, hp_partUnlock, hp_freeRet, hp_destroying, hp_doneAlloc, hp_doneFree, hp_doneDestroy, reduceCtorEq, false_iff, Option.some.injEq] at kh
    first | assumption | pfin
  | @popBucketSome a pu b rest p1 p2 =>
    have kh := c5 a; rw [p1] at kh; simp only [hp_idle, hp_take, hp_carving, hp_needPage, hp_havePage, hp_got, hp_takeFailed, hp_retPart, hp_partPush, hp_partUnlock, hp_freeRet, hp_destroying, hp_doneAlloc, hp_doneFree, hp_doneDestroy, reduceCtorEq, false_iff, Option.some.injEq] at kh
    first | assumption | pfin
  | @popBucketNone a pu p1 p2 =>
    have kh := c5 a; rw [p1] at kh; simp only [hp_idle, hp_take, hp_carving, hp_needPage, hp_havePage, hp_got, hp_takeFailed, hp_retPart, hp_partPush, hp_partUnlock, hp_freeRet, hp_destroying, hp_doneAlloc, hp_doneFree, hp_doneDestroy, reduceCtorEq, false_iff, Option.some.injEq] at kh
    first | assumption | pfin
  | @popPageSome a pu acc p rest p1 p2 =>
    have kh := c5 a; rw [p1] at kh; simp only [hp_idle, hp_take, hp_carving, hp_needPage, hp_havePage, hp_got, hp_takeFailed, hp_retPart, hp_partPush, hp_partUnlock, hp_freeRet, hp_destroying, hp_doneAlloc, hp_doneFree, hp_doneDestroy, reduceCtorEq, false_iff, Option.some.injEq] at kh
    have kp := c1 p; rw [p2] at kp; simp only [List.mem_cons, true_or, true_iff] at kp
    have kn := c2; rw [p2] at kn; simp only [List.nodup_cons] at kn
    first | assumption | pfin
  | @popPageNone a pu acc p1 p2 =>
    have kh := c5 a; rw [p1] at kh; simp only [hp_idle, hp_take, hp_carving, hp_needPage, hp_havePage, hp_got, hp_takeFailed, hp_retPart, hp_partPush, hp_partUnlock, hp_freeRet, hp_destroying, hp_doneAlloc, hp_doneFree, hp_doneDestroy, reduceCtorEq, false_iff, Option.some.injEq] at kh
    first | assumption | pfin
  | @allocOk a pu acc p1 =>
    have kh := c5 a; rw [p1] at kh; simp only [hp_idle, hp_take, hp_carving, hp_needPage, hp_havePage, hp_got, hp_takeFailed, hp_retPart, hp_partPush, hp_partUnlock, hp_freeRet, hp_destroying, hp_doneAlloc, hp_doneFree, hp_doneDestroy, reduceCtorEq, false_iff, Option.some.injEq] at kh
    first | assumption | pfin
  | @allocFailEmpty a pu p1 =>
    have kh := c5 a; rw [p1] at kh; simp only [hp_idle, hp_take, hp_carving, hp_needPage, hp_havePage, hp_got, hp_takeFailed, hp_retPart, hp_partPush, hp_partUnlock, hp_freeRet, hp_destroying, hp_doneAlloc, hp_doneFree, hp_doneDestroy, reduceCtorEq, false_iff, Option.some.injEq] at kh
    first | assumption | pfin
  | @allocFailPart a pu x acc p1 =>
    have kh := c5 a; rw [p1] at kh; simp only [hp_idle, hp_take, hp_carving, hp_needPage, hp_havePage, hp_got, hp_takeFailed, hp_retPart, hp_partPush, hp_partUnlock, hp_freeRet, hp_destroying, hp_doneAlloc, hp_doneFree, hp_doneDestroy, reduceCtorEq, false_iff, Option.some.injEq] at kh
    first | assumption | pfin
  | @carveLifo a pu acc p p1 p2 p3 =>
    have kh := c5 a; rw [p1] at kh; simp only [hp_idle, hp_take, hp_carving, hp_needPage, hp_havePage, hp_got, hp_takeFailed, hp_retPart, hp_partPush, hp_partUnlock, hp_freeRet, hp_destroying, hp_doneAlloc, hp_doneFree, hp_doneDestroy, reduceCtorEq, false_iff, Option.some.injEq] at kh
    first | assumption | pfin
  | @carveEmpty a pu acc p p1 p2 p3 =>
    have kh := c5 a; rw [p1] at kh; simp only [hp_idle, hp_take, hp_carving, hp_needPage, hp_havePage, hp_got, hp_takeFailed, hp_retPart, hp_partPush, hp_partUnlock, hp_freeRet, hp_destroying, hp_doneAlloc, hp_doneFree, hp_doneDestroy, reduceCtorEq, false_iff, Option.some.injEq] at kh
    first | assumption | pfin
  | @lockPartEmpty a k b p1 p2 p3 =>
    have kh := c5 a; rw [p1] at kh; simp only [hp_idle, hp_take, hp_carving, hp_needPage, hp_havePage, hp_got, hp_takeFailed, hp_retPart, hp_partPush, hp_partUnlock, hp_freeRet, hp_destroying, hp_doneAlloc, hp_doneFree, hp_doneDestroy, reduceCtorEq, false_iff, Option.some.injEq] at kh
    first | assumption | pfin
  | @lockPartSmall a k b p1 p2 p3 p4 =>
    have kh := c5 a; rw [p1] at kh; simp only [hp_idle, hp_take, hp_carving, hp_needPage, hp_havePage, hp_got, hp_takeFailed, hp_retPart, hp_partPush, hp_partUnlock, hp_freeRet, hp_destroying, hp_doneAlloc, hp_doneFree, hp_doneDestroy, reduceCtorEq, false_iff, Option.some.injEq] at kh
    first | assumption | pfin
  | @lockPartFull a k b p1 p2 p3 p4 =>
    have kh := c5 a; rw [p1] at kh; simp only [hp_idle, hp_take, hp_carving, hp_needPage, hp_havePage, hp_got, hp_takeFailed, hp_retPart, hp_partPush, hp_partUnlock, hp_freeRet, hp_destroying, hp_doneAlloc, hp_doneFree, hp_doneDestroy, reduceCtorEq, false_iff, Option.some.injEq] at kh
    first | assumption | pfin
  | @pushBucketPart a k b p1 =>
    have kh := c5 a; rw [p1] at kh; simp only [hp_idle, hp_take, hp_carving, hp_needPage, hp_havePage, hp_got, hp_takeFailed, hp_retPart, hp_partPush, hp_partUnlock, hp_freeRet, hp_destroying, hp_doneAlloc, hp_doneFree, hp_doneDestroy, reduceCtorEq, false_iff, Option.some.injEq] at kh
    first | assumption | pfin
  | @unlockPart a k p1 =>
    have kh := c5 a; rw [p1] at kh; simp only [hp_idle, hp_take, hp_carving, hp_needPage, hp_havePage, hp_got, hp_takeFailed, hp_retPart, hp_partPush, hp_partUnlock, hp_freeRet, hp_destroying, hp_doneAlloc, hp_doneFree, hp_doneDestroy, reduceCtorEq, false_iff, Option.some.injEq] at kh
    first | assumption | pfin
  | @callFreePush a x f c p1 p2 p3 p4 p5 =>
    have kh := c5 a; rw [p2] at kh; simp only [hp_idle, hp_take, hp_carving, hp_needPage, hp_havePage, hp_got, hp_takeFailed, hp_retPart, hp_partPush, hp_partUnlock, hp_freeRet, hp_destroying, hp_doneAlloc, hp_doneFree, hp_doneDestroy, reduceCtorEq, false_iff, Option.some.injEq] at kh
    first | assumption | pfin
  | @callFreeNew a x f c p1 p2 p3 p4 p5 p6 =>
    have kh := c5 a; rw [p2] at kh; simp only [hp_idle, hp_take, hp_carving, hp_needPage, hp_havePage, hp_got, hp_takeFailed, hp_retPart, hp_partPush, hp_partUnlock, hp_freeRet, hp_destroying, hp_doneAlloc, hp_doneFree, hp_doneDestroy, reduceCtorEq, false_iff, Option.some.injEq] at kh
    first | assumption | pfin
  | @callFreeRet a x f c b0 rest p1 p2 p3 p4 p5 p6 p7 =>
    have kh := c5 a; rw [p2] at kh; simp only [hp_idle, hp_take, hp_carving, hp_needPage, hp_havePage, hp_got, hp_takeFailed, hp_retPart, hp_partPush, hp_partUnlock, hp_freeRet, hp_destroying, hp_doneAlloc, hp_doneFree, hp_doneDestroy, reduceCtorEq, false_iff, Option.some.injEq] at kh
    first | assumption | pfin
  | @pushBucketFree a b p1 =>
    have kh := c5 a; rw [p1] at kh; simp only [hp_idle, hp_take, hp_carving, hp_needPage, hp_havePage, hp_got, hp_takeFailed, hp_retPart, hp_partPush, hp_partUnlock, hp_freeRet, hp_destroying, hp_doneAlloc, hp_doneFree, hp_doneDestroy, reduceCtorEq, false_iff, Option.some.injEq] at kh
    first | assumption | pfin
  | @retFree a p1 =>
    have kh := c5 a; rw [p1] at kh; simp only [hp_idle, hp_take, hp_carving, hp_needPage, hp_havePage, hp_got, hp_takeFailed, hp_retPart, hp_partPush, hp_partUnlock, hp_freeRet, hp_destroying, hp_doneAlloc, hp_doneFree, hp_doneDestroy, reduceCtorEq, false_iff, Option.some.injEq] at kh
    first | assumption | pfin
  | @callDestroy a f c p1 p2 p3 =>
    have kh := c5 a; rw [p2] at kh; simp only [hp_idle, hp_take, hp_carving, hp_needPage, hp_havePage, hp_got, hp_takeFailed, hp_retPart, hp_partPush, hp_partUnlock, hp_freeRet, hp_destroying, hp_doneAlloc, hp_doneFree, hp_doneDestroy, reduceCtorEq, false_iff, Option.some.injEq] at kh
    first | assumption | pfin
  | @pushBucketDestroy a b f c p1 =>
    have kh := c5 a; rw [p1] at kh; simp only [hp_idle, hp_take, hp_carving, hp_needPage, hp_havePage, hp_got, hp_takeFailed, hp_retPart, hp_partPush, hp_partUnlock, hp_freeRet, hp_destroying, hp_doneAlloc, hp_doneFree, hp_doneDestroy, reduceCtorEq, false_iff, Option.some.injEq] at kh
    first | assumption | pfin
  | @pushBucketLast a c p1 =>
    have kh := c5 a; rw [p1] at kh; simp only [hp_idle, hp_take, hp_carving, hp_needPage, hp_havePage, hp_got, hp_takeFailed, hp_retPart, hp_partPush, hp_partUnlock, hp_freeRet, hp_destroying, hp_doneAlloc, hp_doneFree, hp_doneDestroy, reduceCtorEq, false_iff, Option.some.injEq] at kh
    first | assumption | pfin
  | @retDestroy a p1 =>
    have kh := c5 a; rw [p1] at kh; simp only [hp_idle, hp_take, hp_carving, hp_needPage, hp_havePage, hp_got, hp_takeFailed, hp_retPart, hp_partPush, hp_partUnlock, hp_freeRet, hp_destroying, hp_doneAlloc, hp_doneFree, hp_doneDestroy, reduceCtorEq, false_iff, Option.some.injEq] at kh
    first | assumption | pfin
  | @destroyStart  p1 p2 p3 =>
    first | assumption | pfin
  | @relLifo p rest p1 p2 =>
    have kp := c1 p; rw [p2] at kp; simp only [List.mem_cons, true_or, true_iff] at kp
    have kn := c2; rw [p2] at kn; simp only [List.nodup_cons] at kn
    first | assumption | pfin
  | @lifoEmpty  p1 p2 =>
    first | assumption | pfin
  | @relEmpty p rest p1 p2 =>
    have kp := c3 p; rw [p2] at kp; simp only [List.mem_cons, true_or, true_iff] at kp
    have kn := c4; rw [p2] at kn; simp only [List.nodup_cons] at kn
    first | assumption | pfin
  | @destroyEnd  p1 p2 =>
    first | assumption | pfin

theorem pstep_lifoNd (P : Params) (hP : P.OK) (s : St) (e : Ev) (s' : St) (h : PInv P s) (hs : Step P s e s') : s'.pageLifo.Nodup := by
  have c1 := h.lifo; have c2 := h.lifoNd; have c3 := h.empty; have c4 := h.emptyNd; have c5 := h.held; have c6 := h.rel
  have c7 := h.relNd; have c8 := h.unalloc; have c9 := h.lifoRoom; have c10 := h.emptyFull; have c11 := h.heldRoom
  have c12 := h.usedLe
  have := hP.slots_pos
  cases hs with
  | @callInit a p1 p2 p3 =>
    have kh := c5 a; rw [p2] at kh; simp only [hp_idle, hp_take, hp_carving, hp_needPage, hp_havePage, hp_got, hp_takeFailed, hp_retPart, hp_partPush, hp_partUnlock, hp_freeRet, hp_destroying, hp_doneAlloc, hp_doneFree, hp_doneDestroy, reduceCtorEq, false_iff, Option.some.injEq] at kh
    first | assumption | pfin
  | @retInitOk a b p1 p2 =>
    have kh := c5 a; rw [p1] at kh; simp only [hp_idle, hp_take, hp_carving, hp_needPage, hp_havePage, hp_got, hp_takeFailed, hp_retPart, hp_partPush, hp_partUnlock, hp_freeRet, hp_destroying, hp_doneAlloc, hp_doneFree, hp_doneDestroy, reduceCtorEq, false_iff, Option.some.injEq] at kh
    first | assumption | pfin
  | @retInitFail a p1 =>
    have kh := c5 a; rw [p1] at kh; simp only [hp_idle, hp_take, hp_carving, hp_needPage, hp_havePage, hp_got, hp_takeFailed, hp_retPart, hp_partPush, hp_partUnlock, hp_freeRet, hp_destroying, hp_doneAlloc, hp_doneFree, hp_doneDestroy, reduceCtorEq, false_iff, Option.some.injEq] at kh
    first | assumption | pfin
  | @callAllocPop a f x x2 c p1 p2 p3 =>
    have kh := c5 a; rw [p2] at kh; simp only [hp_idle, hp_take, hp_carving, hp_needPage, hp_havePage, hp_got, hp_takeFailed, hp_retPart, hp_partPush, hp_partUnlock, hp_freeRet, hp_destroying, hp_doneAlloc, hp_doneFree, hp_doneDestroy, reduceCtorEq, false_iff, Option.some.injEq] at kh
    first | assumption | pfin
  | @callAllocPrev a f b x p1 p2 p3 =>
    have kh := c5 a; rw [p2] at kh; simp only [hp_idle, hp_take, hp_carving, hp_needPage, hp_havePage, hp_got, hp_takeFailed, hp_retPart, hp_partPush, hp_partUnlock, hp_freeRet, hp_destroying, hp_doneAlloc, hp_doneFree, hp_doneDestroy, reduceCtorEq, false_iff, Option.some.injEq] at kh
    first | assumption | pfin
  | @callAllocTake a x p1 p2 p3 =>
    have kh := c5 a; rw [p2] at kh; simp only [hp_idle, hp_take, hp_carving, hp_needPage, hp_havePage, hp_got, hp_takeFailed, hp_retPart, hp_partPush, hp_partUnlock, hp_freeRet, hp_destroying, hp_doneAlloc, hp_doneFree, hp_doneDestroy, reduceCtorEq, false_iff, Option.some.injEq] at kh
    first | assumption | pfin
  | @retAllocTake a b x p1 p2 =>
    have kh := c5 a; rw [p1] at kh; simp only [hp_idle, hp_take, hp_carving, hp_needPage, hp_havePage, hp_got, hp_takeFailed, hp_retPart, hp_partPush, hp_partUnlock, hp_freeRet, hp_destroying, hp_doneAlloc, hp_doneFree, hp_doneDestroy, reduceCtorEq, false_iff, Option.some.injEq] at kh
    first | assumption | pfin
  | @retAllocFail a p1 =>
    have kh := c5 a; rw [p1] at kh; simp only [hp_idle, hp_take, hp_carving, hp_needPage, hp_havePage, hp_got, hp_takeFailed, hp_retPart, hp_partPush, hp_partUnlock, hp_freeRet, hp_destroying, hp_doneAlloc, hp_doneFree, hp_doneDestroy, reduceCtorEq, false_iff, Option.some.injEq] at kh
    first | assumption | pfin
  | @retAllocDone a x p1 =>
    have kh := c5 a; rw [p1] at kh; simp only [hp_idle, hp_take, hp_carving, hp_needPage, hp_havePage, hp_got, hp_takeFailed, hp_retPart, hp_partPush, hp_partUnlock, hp_freeRet, hp_destroying, hp_doneAlloc, hp_doneFree, hp_doneDestroy, reduceCtorEq, false_iff, Option.some.injEq] at kh
    first | assumption | pfin
  | @popBucketSome a pu b rest p1 p2 =>
    have kh := c5 a; rw [p1] at kh; simp only [hp_idle, hp_take, hp_carving, hp_needPage, hp_havePage, hp_got, hp_takeFailed, hp_retPart, hp_partPush, hp_partUnlock, hp_freeRet, hp_destroying, hp_doneAlloc, hp_doneFree, hp_doneDestroy, reduceCtorEq, false_iff, Option.some.injEq] at kh
    first | assumption | pfin
  | @popBucketNone a pu p1 p2 =>
    have kh := c5 a; rw [p1] at kh; simp only [hp_idle, hp_take, hp_carving, hp_needPage, hp_havePage, hp_got, hp_takeFailed, hp_retPart, hp_partPush, hp_partUnlock, hp_freeRet, hp_destroying, hp_doneAlloc, hp_doneFree, hp_doneDestroy, reduceCtorEq, false_iff, Option.some.injEq] at kh
    first | assumption | pfin
  | @popPageSome a pu acc p rest p1 p2 =>
    have kh := c5 a; rw [p1] at kh; simp only [hp_idle, hp_take, hp_carving, hp_needPage, hp_havePage, hp_got, hp_takeFailed, hp_retPart, hp_partPush, hp_partUnlock, hp_freeRet, hp_destroying, hp_doneAlloc, hp_doneFree, hp_doneDestroy, reduceCtorEq, false_iff, Option.some.injEq] at kh
    have kp := c1 p; rw [p2] at kp; simp only [List.mem_cons, true_or, true_iff] at kp
    have kn := c2; rw [p2] at kn; simp only [List.nodup_cons] at kn
    first | assumption | pfin
  | @popPageNone a pu acc p1 p2 =>
    have kh := c5 a; rw [p1] at kh; simp only [hp_idle, hp_take, hp_carving, hp_needPage, hp_havePage, hp_got, hp_takeFailed, hp_retPart, hp_partPush, hp_partUnlock, hp_freeRet, hp_destroying, hp_doneAlloc, hp_doneFree, hp_doneDestroy, reduceCtorEq, false_iff, Option.some.injEq] at kh
    first | assumption | pfin
  | @allocOk a pu acc p1 =>
    have kh := c5 a; rw [p1] at kh; simp only [hp_idle, hp_take, hp_carving, hp_needPage, hp_havePage, hp_got, hp_takeFailed, hp_retPart, hp_partPush, hp_partUnlock, hp_freeRet, hp_destroying, hp_doneAlloc, hp_doneFree, hp_doneDestroy, reduceCtorEq, false_iff, Option.some.injEq] at kh
    first | assumption | pfin
  | @allocFailEmpty a pu p1 =>
    have kh := c5 a; rw [p1] at kh; simp only [hp_idle, hp_take, hp_carving, hp_needPage, hp_havePage, hp_got, hp_takeFailed, hp_retPart, hp_partPush, hp_partUnlock, hp_freeRet, hp_destroying, hp_doneAlloc, hp_doneFree, hp_doneDestroy, reduceCtorEq, false_iff, Option.some.injEq] at kh
    first | assumption | pfin
  | @allocFailPart a pu x acc p1 =>
    have kh := c5 a; rw [p1] at kh; simp only [hp_idle, hp_take, hp_carving, hp_needPage, hp_havePage, hp_got, hp_takeFailed, hp_retPart, hp_partPush, hp_partUnlock, hp_freeRet, hp_destroying, hp_doneAlloc, hp_doneFree, hp_doneDestroy, reduceCtorEq, false_iff, Option.some.injEq] at kh
    first | assumption | pfin
  | @carveLifo a pu acc p p1 p2 p3 =>
    have kh := c5 a; rw [p1] at kh; simp only [hp_idle, hp_take, hp_carving, hp_needPage, hp_havePage, hp_got, hp_takeFailed, hp_retPart, hp_partPush, hp_partUnlock, hp_freeRet, hp_destroying, hp_doneAlloc, hp_doneFree, hp_doneDestroy, reduceCtorEq, false_iff, Option.some.injEq] at kh
    first | assumption | pfin
  | @carveEmpty a pu acc p p1 p2 p3 =>
    have kh := c5 a; rw [p1] at kh; simp only [hp_idle, hp_take, hp_carving, hp_needPage, hp_havePage, hp_got, hp_takeFailed, hp_retPart, hp_partPush, hp_partUnlock, hp_freeRet, hp_destroying, hp_doneAlloc, hp_doneFree, hp_doneDestroy, reduceCtorEq, false_iff, Option.some.injEq] at kh
    first | assumption | pfin
  | @lockPartEmpty a k b p1 p2 p3 =>
    have kh := c5 a; rw [p1] at kh; simp only [hp_idle, hp_take, hp_carving, hp_needPage, hp_havePage, hp_got, hp_takeFailed, hp_retPart, hp_partPush, hp_partUnlock, hp_freeRet, hp_destroying, hp_doneAlloc, hp_doneFree, hp_doneDestroy, reduceCtorEq, false_iff, Option.some.injEq] at kh
    first | assumption | pfin
  | @lockPartSmall a k b p1 p2 p3 p4 =>
    have kh := c5 a; rw [p1] at kh; simp only [hp_idle, hp_take, hp_carving, hp_needPage, hp_havePage, hp_got, hp_takeFailed, hp_retPart, hp_partPush, hp_partUnlock, hp_freeRet, hp_destroying, hp_doneAlloc, hp_doneFree, hp_doneDestroy, reduceCtorEq, false_iff, Option.some.injEq] at kh
    first | assumption | pfin
  | @lockPartFull a k b p1 p2 p3 p4 =>
    have kh := c5 a; rw [p1] at kh; simp only [hp_idle, hp_take, hp_carving, hp_needPage, hp_havePage, hp_got, hp_takeFailed, hp_retPart, hp_partPush, hp_partUnlock, hp_freeRet, hp_destroying, hp_doneAlloc, hp_doneFree, hp_doneDestroy, reduceCtorEq, false_iff, Option.some.injEq] at kh
    first | assumption | pfin
  | @pushBucketPart a k b p1 =>
    have kh := c5 a; rw [p1] at kh; simp only [hp_idle, hp_take, hp_carving, hp_needPage, hp_havePage, hp_got, hp_takeFailed, hp_retPart, hp_partPush, hp_partUnlock, hp_freeRet, hp_destroying, hp_doneAlloc, hp_doneFree, hp_doneDestroy, reduceCtorEq, false_iff, Option.some.injEq] at kh
    first | assumption | pfin
  | @unlockPart a k p1 =>
    have kh := c5 a; rw [p1] at kh; simp only [hp_idle, hp_take, hp_carving, hp_needPage, hp_havePage, hp_got, hp_takeFailed, hp_retPart, hp_partPush, hp_partUnlock, hp_freeRet, hp_destroying, hp_doneAlloc, hp_doneFree, hp_doneDestroy, reduceCtorEq, false_iff, Option.some.injEq] at kh
    first | assumption | pfin
  | @callFreePush a x f c p1 p2 p3 p4 p5 =>
    have kh := c5 a; rw [p2] at kh; simp only [hp_idle, hp_take, hp_carving, hp_needPage, hp_havePage, hp_got, hp_takeFailed, hp_retPart, hp_partPush, hp_partUnlock, hp_freeRet, hp_destroying, hp_doneAlloc, hp_doneFree, hp_doneDestroy, reduceCtorEq, false_iff, Option.some.injEq] at kh
    first | assumption | pfin
  | @callFreeNew a x f c p1 p2 p3 p4 p5 p6 =>
    have kh := c5 a; rw [p2] at kh; simp only [hp_idle, hp_take, hp_carving, hp_needPage, hp_havePage, hp_got, hp_takeFailed, hp_retPart, hp_partPush, hp_partUnlock, hp_freeRet, hp_destroying, hp_doneAlloc, hp_doneFree, hp_doneDestroy, reduceCtorEq, false_iff, Option.some.injEq] at kh
    first | assumption | pfin
  | @callFreeRet a x f c b0 rest p1 p2 p3 p4 p5 p6 p7 =>
    have kh := c5 a; rw [p2] at kh; simp only [hp_idle, hp_take, hp_carving, hp_needPage, hp_havePage, hp_got, hp_takeFailed, hp_retPart, hp_partPush, hp_partUnlock, hp_freeRet, hp_destroying, hp_doneAlloc, hp_doneFree, hp_doneDestroy, reduceCtorEq, false_iff, Option.some.injEq] at kh
    first | assumption | pfin
  | @pushBucketFree a b p1 =>
    have kh := c5 a; rw [p1] at kh; simp only [hp_idle, hp_take, hp_carving, hp_needPage, hp_havePage, hp_got, hp_takeFailed, hp_retPart, hp_partPush, hp_partUnlock, hp_freeRet, hp_destroying, hp_doneAlloc, hp_doneFree, hp_doneDestroy, reduceCtorEq, false_iff, Option.some.injEq] at kh
    first | assumption | pfin
  | @retFree a p1 =>
    have kh := c5 a; rw [p1] at kh; simp only [hp_idle, hp_take, hp_carving, hp_needPage, hp_havePage, hp_got, hp_takeFailed, hp_retPart, hp_partPush, hp_partUnlock, hp_freeRet, hp_destroying, hp_doneAlloc, hp_doneFree, hp_doneDestroy, reduceCtorEq, false_iff, Option.some.injEq] at kh
    first | assumption | pfin
  | @callDestroy a f c p1 p2 p3 =>
    have kh := c5 a; rw [p2] at kh; simp only [hp_idle, hp_take, hp_carving, hp_needPage, hp_havePage, hp_got, hp_takeFailed, hp_retPart, hp_partPush, hp_partUnlock, hp_freeRet, hp_destroying, hp_doneAlloc, hp_doneFree, hp_doneDestroy, reduceCtorEq, false_iff, Option.some.injEq] at kh
    first | assumption | pfin
  | @pushBucketDestroy a b f c p1 =>
    have kh := c5 a; rw [p1] at kh; simp only [hp_idle, hp_take, hp_carving, hp_needPage, hp_havePage, hp_got, hp_takeFailed, hp_retPart, hp_partPush, hp_partUnlock, hp_freeRet, hp_destroying, hp_doneAlloc, hp_doneFree, hp_doneDestroy, reduceCtorEq, false_iff, Option.some.injEq] at kh
    first | assumption | pfin
  | @pushBucketLast a c p1 =>
    have kh := c5 a; rw [p1] at kh; simp only [hp_idle, hp_take, hp_carving, hp_needPage, hp_havePage, hp_got, hp_takeFailed, hp_retPart, hp_partPush, hp_partUnlock, hp_freeRet, hp_destroying, hp_doneAlloc, hp_doneFree, hp_doneDestroy, reduceCtorEq, false_iff, Option.some.injEq] at kh
    first | assumption | pfin
  | @retDestroy a p1 =>
    have kh := c5 a; rw [p1] at kh; simp only [hp_idle, hp_take, hp_carving, hp_needPage, hp_havePage, hp_got, hp_takeFailed, hp_retPart, hp_partPush, hp_partUnlock, hp_freeRet, hp_destroying, hp_doneAlloc, hp_doneFree, hp_doneDestroy, reduceCtorEq, false_iff, Option.some.injEq] at kh
    first | assumption | pfin
  | @destroyStart  p1 p2 p3 =>
    first | assumption | pfin
  | @relLifo p rest p1 p2 =>
    have kp := c1 p; rw [p2] at kp; simp only [List.mem_cons, true_or, true_iff] at kp
    have kn := c2; rw [p2] at kn; simp only [List.nodup_cons] at kn
    first | assumption | pfin
  | @lifoEmpty  p1 p2 =>
    first | assumption | pfin
  | @relEmpty p rest p1 p2 =>
    have kp := c3 p; rw [p2] at kp; simp only [List.mem_cons, true_or, true_iff] at kp
    have kn := c4; rw [p2] at kn; simp only [List.nodup_cons] at kn
    first | assumption | pfin
  | @destroyEnd  p1 p2 =>
    first | assumption | pfin

theorem pstep_empty (P : Params) (hP : P.OK) (s : St) (e : Ev) (s' : St) (h : PInv P s) (hs : Step P s e s') : ∀ p, p ∈ s'.emptyPages ↔ s'.pown p = .empty := by
  have c1 := h.lifo; have c2 := h.lifoNd; have c3 := h.empty; have c4 := h.emptyNd; have c5 := h.held; have c6 := h.rel
  have c7 := h.relNd; have c8 := h.unalloc; have c9 := h.lifoRoom; have c10 := h.emptyFull; have c11 := h.heldRoom
  have c12 := h.usedLe
  have := hP.slots_pos
  cases hs with
  | @callInit a p1 p2 p3 =>
    have kh := c5 a; rw [p2] at kh; simp only [hp_idle, hp_take, hp_carving, hp_needPage, hp_havePage, hp_got, hp_takeFailed, hp_retPart, hp_partPush, hp_partUnlock, hp_freeRet, hp_destroying, hp_doneAlloc, hp_doneFree, hp_doneDestroy, reduceCtorEq, false_iff, Option.some.injEq] at kh
    first | assumption | pfin
  | @retInitOk a b p1 p2 =>
    have kh := c5 a; rw [p1] at kh; simp only [hp_idle, hp_take, hp_carving, hp_needPage, hp_havePage, hp_got, hp_takeFailed, hp_retPart, hp_partPush, hp_partUnlock, hp_freeRet, hp_destroying, hp_doneAlloc, hp_doneFree, hp_doneDestroy, reduceCtorEq, false_iff, Option.some.injEq] at kh
    first | assumption | pfin
  | @retInitFail a p1 =>
    have kh := c5 a; rw [p1] at kh; simp only [hp_idle, hp_take, hp_carving, hp_needPage, hp_havePage, hp_got, hp_takeFailed, hp_retPart, hp_partPush, hp_partUnlock, hp_freeRet, hp_destroying, hp_doneAlloc, hp_doneFree, hp_doneDestroy, reduceCtorEq, false_iff, Option.some.injEq] at kh
    first | assumption | pfin
  | @callAllocPop a f x x2 c p1 p2 p3 =>
    have kh := c5 a; rw [p2] at kh; simp only [hp_idle, hp_take, hp_carving, hp_needPage, hp_havePage, hp_got, hp_takeFailed, hp_retPart, hp_partPush, hp_partUnlock, hp_freeRet, hp_destroying, hp_doneAlloc, hp_doneFree, hp_doneDestroy, reduceCtorEq, false_iff, Option.some.injEq] at kh
    first | assumption | pfin
  | @callAllocPrev a f b x p1 p2 p3 =>
    have kh := c5 a; rw [p2] at kh; simp only [hp_idle, hp_take, hp_carving, hp_needPage, hp_havePage, hp_got, hp_takeFailed, hp_retPart, hp_partPush, hp_partUnlock, hp_freeRet, hp_destroying, hp_doneAlloc, hp_doneFree, hp_doneDestroy, reduceCtorEq, false_iff, Option.some.injEq] at kh
    first | assumption | pfin
  | @callAllocTake a x p1 p2 p3 =>
    have kh := c5 a; rw [p2] at kh; simp only [hp_idle, hp_take, hp_carving, hp_needPage, hp_havePage, hp_got, hp_takeFailed, hp_retPart, hp_partPush, hp_partUnlock, hp_freeRet, hp_destroying, hp_doneAlloc, hp_doneFree, hp_doneDestroy, reduceCtorEq, false_iff, Option.some.injEq] at kh
    first | assumption | pfin
  | @retAllocTake a b x p1 p2 =>
    have kh := c5 a; rw [p1] at kh; simp only [hp_idle, hp_take, hp_carving, hp_needPage, hp_havePage, hp_got, hp_takeFailed, hp_retPart, hp_partPush, hp_partUnlock, hp_freeRet, hp_destroying, hp_doneAlloc, hp_doneFree, hp_doneDestroy, reduceCtorEq, false_iff, Option.some.injEq] at kh
    first | assumption | pfin
  | @retAllocFail a p1 =>
    have kh := c5 a; rw [p1] at kh; simp only [hp_idle, hp_take, hp_carving, hp_needPage, hp_havePage, hp_got, hp_takeFailed, hp_retPart, hp_partPush, hp_partUnlock, hp_freeRet, hp_destroying, hp_doneAlloc, hp_doneFree, hp_doneDestroy, reduceCtorEq, false_iff, Option.some.injEq] at kh
    first | assumption | pfin
  | @retAllocDone a x p1 =>
    have kh := c5 a; rw [p1] at kh; simp only [hp_idle, hp_take, hp_carving, hp_needPage, hp_havePage, hp_got, hp_takeFailed, hp_retPart, hp_partPush, hp_partUnlock, hp_freeRet, hp_destroying, hp_doneAlloc, hp_doneFree, hp_doneDestroy, reduceCtorEq, false_iff, Option.some.injEq] at kh
    first | assumption | pfin
  | @popBucketSome a pu b rest p1 p2 =>
    have kh := c5 a; rw [p1] at kh; simp only [hp_idle, hp_take, hp_carving, hp_needPage, hp_havePage, hp_got, hp_takeFailed, hp_retPart, hp_partPush, hp_partUnlock, hp_freeRet, hp_destroying, hp_doneAlloc, hp_doneFree, hp_doneDestroy, reduceCtorEq, false_iff, Option.some.injEq] at kh
    first | assumption | pfin
  | @popBucketNone a pu p1 p2 =>
    have kh := c5 a; rw [p1] at kh; simp only [hp_idle, hp_take, hp_carving, hp_needPage, hp_havePage, hp_got, hp_takeFailed, hp_retPart, hp_partPush, hp_partUnlock, hp_freeRet, hp_destroying, hp_doneAlloc, hp_doneFree, hp_doneDestroy, reduceCtorEq, false_iff, Option.some.injEq] at kh
    first | assumption | pfin
  | @popPageSome a pu acc p rest p1 p2 =>
    have kh := c5 a; rw [p1] at kh; simp only [hp_idle, hp_take, hp_carving, hp_needPage, hp_havePage, hp_got, hp_takeFailed, hp_retPart, hp_partPush, hp_partUnlock, hp_freeRet, hp_destroying, hp_doneAlloc, hp_doneFree, hp_doneDestroy, reduceCtorEq, false_iff, Option.some.injEq] at kh
    have kp := c1 p; rw [p2] at kp; simp only [List.mem_cons, true_or, true_iff] at kp
    have kn := c2; rw [p2] at kn; simp only [List.nodup_cons] at kn
    first | assumption | pfin
  | @popPageNone a pu acc p1 p2 =>
    have kh := c5 a; rw [p1] at kh; simp only [hp_idle, hp_take, hp_carving, hp_needPage, hp_havePage, hp_got, hp_takeFailed, hp_retPart, hp_partPush, hp_partUnlock, hp_freeRet, hp_destroying, hp_doneAlloc, hp_doneFree, hp_doneDestroy, reduceCtorEq, false_iff, Option.some.injEq] at kh
    first | assumption | pfin
  | @allocOk a pu acc p1 =>
    have kh := c5 a; rw [p1] at kh; simp only [hp_idle, hp_take, hp_carving, hp_needPage, hp_havePage, hp_got, hp_takeFailed, hp_retPart, hp_partPush, hp_partUnlock, hp_freeRet, hp_destroying, hp_doneAlloc, hp_doneFree, hp_doneDestroy, reduceCtorEq, false_iff, Option.some.injEq] at kh
    first | assumption | pfin
  | @allocFailEmpty a pu p1 =>
    have kh := c5 a; rw [p1] at kh; simp only [hp_idle, hp_take, hp_carving, hp_needPage, hp_havePage, hp_got, hp_takeFailed, hp_retPart, hp_partPush, hp_partUnlock, hp_freeRet, hp_destroying, hp_doneAlloc, hp_doneFree, hp_doneDestroy, reduceCtorEq, false_iff, Option.some.injEq] at kh
    first | assumption | pfin
  | @allocFailPart a pu x acc p1 =>
    have kh := c5 a; rw [p1] at kh; simp only [hp_idle, hp_take, hp_carving, hp_needPage, hp_havePage, hp_got, hp_takeFailed, hp_retPart, hp_partPush, hp_partUnlock, hp_freeRet, hp_destroying, hp_doneAlloc, hp_doneFree, hp_doneDestroy, reduceCtorEq, false_iff, Option.some.injEq] at kh
    first | assumption | pfin
  | @carveLifo a pu acc p p1 p2 p3 =>
    have kh := c5 a; rw [p1] at kh; simp only [hp_idle, hp_take, hp_carving, hp_needPage, hp_havePage, hp_got, hp_takeFailed, hp_retPart, hp_partPush, hp_partUnlock, hp_freeRet, hp_destroying, hp_doneAlloc, hp_doneFree, hp_doneDestroy, reduceCtorEq, false_iff, Option.some.injEq] at kh
    first | assumption | pfin
  | @carveEmpty a pu acc p p1 p2 p3 =>
    have kh := c5 a; rw [p1] at kh; simp only [hp_idle, hp_take, hp_carving, hp_needPage, hp_havePage, hp_got, hp_takeFailed, hp_retPart, hp_partPush, hp_partUnlock, hp_freeRet, hp_destroying, hp_doneAlloc, hp_doneFree, hp_doneDestroy, reduceCtorEq, false_iff, Option.some.injEq] at kh
    first | assumption | pfin
  | @lockPartEmpty a k b p1 p2 p3 =>
    have kh := c5 a; rw [p1] at kh; simp only [hp_idle, hp_take, hp_carving, hp_needPage, hp_havePage, hp_got, hp_takeFailed, hp_retPart, hp_partPush, hp_partUnlock, hp_freeRet, hp_destroying, hp_doneAlloc, hp_doneFree, hp_doneDestroy, reduceCtorEq, false_iff, Option.some.injEq] at kh
    first | assumption | pfin
  | @lockPartSmall a k b p1 p2 p3 p4 =>
    have kh := c5 a; rw [p1] at kh; simp only [hp_idle, hp_take, hp_carving, hp_needPage, hp_havePage, hp_got, hp_takeFailed, hp_retPart, hp_partPush, hp_partUnlock, hp_freeRet, hp_destroying, hp_doneAlloc, hp_doneFree, hp_doneDestroy, reduceCtorEq, false_iff, Option.some.injEq] at kh
    first | assumption | pfin
  | @lockPartFull a k b p1 p2 p3 p4 =>
    have kh := c5 a; rw [p1] at kh; simp only [hp_idle, hp_take, hp_carving, hp_needPage, hp_havePage, hp_got, hp_takeFailed, hp_retPart, hp_partPush, hp_partUnlock, hp_freeRet, hp_destroying, hp_doneAlloc, hp_doneFree, hp_doneDestroy, reduceCtorEq, false_iff, Option.some.injEq] at kh
    first | assumption | pfin
  | @pushBucketPart a k b p1 =>
    have kh := c5 a; rw [p1] at kh; simp only [hp_idle, hp_take, hp_carving, hp_needPage, hp_havePage, hp_got, hp_takeFailed, hp_retPart, hp_partPush, hp_partUnlock, hp_freeRet, hp_destroying, hp_doneAlloc, hp_doneFree, hp_doneDestroy, reduceCtorEq, false_iff, Option.some.injEq] at kh
    first | assumption | pfin
  | @unlockPart a k p1 =>
    have kh := c5 a; rw [p1] at kh; simp only [hp_idle, hp_take, hp_carving, hp_needPage, hp_havePage, hp_got, hp_takeFailed, hp_retPart, hp_partPush, hp_partUnlock, hp_freeRet, hp_destroying, hp_doneAlloc, hp_doneFree, hp_doneDestroy, reduceCtorEq, false_iff, Option.some.injEq] at kh
    first | assumption | pfin
  | @callFreePush a x f c p1 p2 p3 p4 p5 =>
    have kh := c5 a; rw [p2] at kh; simp only [hp_idle, hp_take, hp_carving, hp_needPage, hp_havePage, hp_got, hp_takeFailed, hp_retPart, hp_partPush, hp_partUnlock, hp_freeRet, hp_destroying, hp_doneAlloc, hp_doneFree, hp_doneDestroy, reduceCtorEq, false_iff, Option.some.injEq] at kh
    first | assumption | pfin
  | @callFreeNew a x f c p1 p2 p3 p4 p5 p6 =>
    have kh := c5 a; rw [p2] at kh; simp only [hp_idle, hp_take, hp_carving, hp_needPage, hp_havePage, hp_got, hp_takeFailed, hp_retPart, hp_partPush, hp_partUnlock, hp_freeRet, hp_destroying, hp_doneAlloc, hp_doneFree, hp_doneDestroy, reduceCtorEq, false_iff, Option.some.injEq] at kh
    first | assumption | pfin
  | @callFreeRet a x f c b0 rest p1 p2 p3 p4 p5 p6 p7 =>
    have kh := c5 a; rw [p2] at kh; simp only [hp_idle, hp_take, hp_carving, hp_needPage, hp_havePage, hp_got, hp_takeFailed, hp_retPart, hp_partPush, hp_partUnlock, hp_freeRet, hp_destroying, hp_doneAlloc, hp_doneFree, hp_doneDestroy, reduceCtorEq, false_iff, Option.some.injEq] at kh
    first | assumption | pfin
  | @pushBucketFree a b p1 =>
    have kh := c5 a; rw [p1] at kh; simp only [hp_idle, hp_take, hp_carving, hp_needPage, hp_havePage, hp_got, hp_takeFailed, hp_retPart, hp_partPush, hp_partUnlock, hp_freeRet, hp_destroying, hp_doneAlloc, hp_doneFree, hp_doneDestroy, reduceCtorEq, false_iff, Option.some.injEq] at kh
    first | assumption | pfin
  | @retFree a p1 =>
    have kh := c5 a; rw [p1] at kh; simp only [hp_idle, hp_take, hp_carving, hp_needPage, hp_havePage, hp_got, hp_takeFailed, hp_retPart, hp_partPush, hp_partUnlock, hp_freeRet, hp_destroying, hp_doneAlloc, hp_doneFree, hp_doneDestroy, reduceCtorEq, false_iff, Option.some.injEq] at kh
    first | assumption | pfin
  | @callDestroy a f c p1 p2 p3 =>
    have kh := c5 a; rw [p2] at kh; simp only [hp_idle, hp_take, hp_carving, hp_needPage, hp_havePage, hp_got, hp_takeFailed, hp_retPart, hp_partPush, hp_partUnlock, hp_freeRet, hp_destroying, hp_doneAlloc, hp_doneFree, hp_doneDestroy, reduceCtorEq, false_iff, Option.some.injEq] at kh
    first | assumption | pfin
  | @pushBucketDestroy a b f c p1 =>
    have kh := c5 a; rw [p1] at kh; simp only [hp_idle, hp_take, hp_carving, hp_needPage, hp_havePage, hp_got, hp_takeFailed, hp_retPart, hp_partPush, hp_partUnlock, hp_freeRet, hp_destroying, hp_doneAlloc, hp_doneFree, hp_doneDestroy, reduceCtorEq, false_iff, Option.some.injEq] at kh
    first | assumption | pfin
  | @pushBucketLast a c p1 =>
    have kh := c5 a; rw [p1] at kh; simp only [hp_idle, hp_take, hp_carving, hp_needPage, hp_havePage, hp_got, hp_takeFailed, hp_retPart, hp_partPush, hp_partUnlock, hp_freeRet, hp_destroying, hp_doneAlloc, hp_doneFree, hp_doneDestroy, reduceCtorEq, false_iff, Option.some.injEq] at kh
    first | assumption | pfin
  | @retDestroy a p1 =>
    have kh := c5 a; rw [p1] at kh; simp only [hp_idle, hp_take, hp_carving, hp_needPage, hp_havePage, hp_got, hp_takeFailed, hp_retPart, hp_partPush, hp_partUnlock, hp_freeRet, hp_destroying, hp_doneAlloc, hp_doneFree, hp_doneDestroy, reduceCtorEq, false_iff, Option.some.injEq] at kh
    first | assumption | pfin
  | @destroyStart  p1 p2 p3 =>
    first | assumption | pfin
  | @relLifo p rest p1 p2 =>
    have kp := c1 p; rw [p2] at kp; simp only [List.mem_cons, true_or, true_iff] at kp
    have kn := c2; rw [p2] at kn; simp only [List.nodup_cons] at kn
    first | assumption | pfin
  | @lifoEmpty  p1 p2 =>
    first | assumption | pfin
  | @relEmpty p rest p1 p2 =>
    have kp := c3 p; rw [p2] at kp; simp only [List.mem_cons, true_or, true_iff] at kp
    have kn := c4; rw [p2] at kn; simp only [List.nodup_cons] at kn
    first | assumption | pfin
  | @destroyEnd  p1 p2 =>
    first | assumption | pfin

theorem pstep_emptyNd (P : Params) (hP : P.OK) (s : St) (e : Ev) (s' : St) (h : PInv P s) (hs : Step P s e s') : s'.emptyPages.Nodup := by
  have c1 := h.lifo; have c2 := h.lifoNd; have c3 := h.empty; have c4 := h.emptyNd; have c5 := h.held; have c6 := h.rel
  have c7 := h.relNd; have c8 := h.unalloc; have c9 := h.lifoRoom; have c10 := h.emptyFull; have c11 := h.heldRoom
  have c12 := h.usedLe
  have := hP.slots_pos
  cases hs with
  | @callInit a p1 p2 p3 =>
    have kh := c5 a; rw [p2] at kh; simp only [hp_idle, hp_take, hp_carving, hp_needPage, hp_havePage, hp_got, hp_takeFailed, hp_retPart, hp_partPush, hp_partUnlock, hp_freeRet, hp_destroying, hp_doneAlloc, hp_doneFree, hp_doneDestroy, reduceCtorEq, false_iff, Option.some.injEq] at kh
    first | assumption | pfin
  | @retInitOk a b p1 p2 =>
    have kh := c5 a; rw [p1] at kh; simp only [hp_idle, hp_take, hp_carving, hp_needPage, hp_havePage, hp_got, hp_takeFailed, hp_retPart, hp_partPush, hp_partUnlock, hp_freeRet, hp_destroying, hp_doneAlloc, hp_doneFree, hp_doneDestroy, reduceCtorEq, false_iff, Option.some.injEq] at kh
    first | assumption | pfin
  | @retInitFail a p1 =>
    have kh := c5 a; rw [p1] at kh; simp only [hp_idle, hp_take, hp_carving, hp_needPage, hp_havePage, hp_got, hp_takeFailed, hp_retPart, hp_partPush, hp_partUnlock, hp_freeRet, hp_destroying, hp_doneAlloc, hp_doneFree, hp_doneDestroy, reduceCtorEq, false_iff, Option.some.injEq] at kh
    first | assumption | pfin
  | @callAllocPop a f x x2 c p1 p2 p3 =>
    have kh := c5 a; rw [p2] at kh; simp only [hp_idle, hp_take, hp_carving, hp_needPage, hp_havePage, hp_got, hp_takeFailed, hp_retPart, hp_partPush, hp_partUnlock, hp_freeRet, hp_destroying, hp_doneAlloc, hp_doneFree, hp_doneDestroy, reduceCtorEq, false_iff, Option.some.injEq] at kh
    first | assumption | pfin
  | @callAllocPrev a f b x p1 p2 p3 =>
    have kh := c5 a; rw [p2] at kh; simp only [hp_idle, hp_take, hp_carving, hp_needPage, hp_havePage, hp_got, hp_takeFailed, hp_retPart, hp_partPush, hp_partUnlock, hp_freeRet, hp_destroying, hp_doneAlloc, hp_doneFree, hp_doneDestroy, reduceCtorEq, false_iff, Option.some.injEq] at kh
    first | assumption | pfin
  | @callAllocTake a x p1 p2 p3 =>
    have kh := c5 a; rw [p2] at kh; simp only [hp_idle, hp_take, hp_carving, hp_needPage, hp_havePage, hp_got, hp_takeFailed, hp_retPart, hp_partPush, hp_partUnlock, hp_freeRet, hp_destroying, hp_doneAlloc, hp_doneFree, hp_doneDestroy, reduceCtorEq, false_iff, Option.some.injEq] at kh
    first | assumption | pfin
  | @retAllocTake a b x p1 p2 =>
    have kh := c5 a; rw [p1] at kh; simp only [hp_idle, hp_take, hp_carving, hp_needPage, hp_havePage, hp_got, hp_takeFailed, hp_retPart, hp_partPush, hp_partUnlock, hp_freeRet, hp_destroying, hp_doneAlloc, hp_doneFree, hp_doneDestroy, reduceCtorEq, false_iff, Option.some.injEq] at kh
    first | assumption | pfin
  | @retAllocFail a p1 =>
    have kh := c5 a; rw [p1] at kh; simp only [hp_idle, hp_take, hp_carving, hp_needPage, hp_havePage, hp_got, hp_takeFailed, hp_retPart, hp_partPush, hp_partUnlock, hp_freeRet, hp_destroying, hp_doneAlloc, hp_doneFree, hp_doneDestroy, reduceCtorEq, false_iff, Option.some.injEq] at kh
    first | assumption | pfin
  | @retAllocDone a x p1 =>
    have kh := c5 a; rw [p1] at kh; simp only [hp_idle, hp_take, hp_carving, hp_needPage, hp_havePage, hp_got, hp_takeFailed, hp_retPart, hp_partPush, hp_partUnlock, hp_freeRet, hp_destroying, hp_doneAlloc, hp_doneFree, hp_doneDestroy, reduceCtorEq, false_iff, Option.some.injEq] at kh
    first | assumption | pfin
  | @popBucketSome a pu b rest p1 p2 =>
    have kh := c5 a; rw [p1] at kh; simp only [hp_idle, hp_take, hp_carving, hp_needPage, hp_havePage, hp_got, hp_takeFailed, hp_retPart, hp_partPush, hp_partUnlock, hp_freeRet, hp_destroying, hp_doneAlloc, hp_doneFree, hp_doneDestroy, reduceCtorEq, false_iff, Option.some.injEq] at kh
    first | assumption | pfin
  | @popBucketNone a pu p1 p2 =>
    have kh := c5 a; rw [p1] at kh; simp only [hp_idle, hp_take, hp_carving, hp_needPage, hp_havePage, hp_got, hp_takeFailed, hp_retPart, hp_partPush, hp_partUnlock, hp_freeRet, hp_destroying, hp_doneAlloc, hp_doneFree, hp_doneDestroy, reduceCtorEq, false_iff, Option.some.injEq] at kh
    first | assumption | pfin
  | @popPageSome a pu acc p rest p1 p2 =>
    have kh := c5 a; rw [p1] at kh; simp only [hp_idle, hp_take, hp_carving, hp_needPage, hp_havePage, hp_got, hp_takeFailed, hp_retPart, hp_partPush, hp_partUnlock, hp_freeRet, hp_destroying, hp_doneAlloc, hp_doneFree, hp_doneDestroy, reduceCtorEq, false_iff, Option.some.injEq] at kh
    have kp := c1 p; rw [p2] at kp; simp only [List.mem_cons, true_or, true_iff] at kp
    have kn := c2; rw [p2] at kn; simp only [List.nodup_cons] at kn
    first | assumption | pfin
  | @popPageNone a pu acc p1 p2 =>
    have kh := c5 a; rw [p1] at kh; simp only [hp_idle, hp_take, hp_carving, hp_needPage, hp_havePage, hp_got, hp_takeFailed, hp_retPart, hp_partPush, hp_partUnlock, hp_freeRet, hp_destroying, hp_doneAlloc, hp_doneFree, hp_doneDestroy, reduceCtorEq, false_iff, Option.some.injEq] at kh
    first | assumption | pfin
  | @allocOk a pu acc p1 =>
    have kh := c5 a; rw [p1] at kh; simp only [hp_idle, hp_take, hp_carving, hp_needPage, hp_havePage, hp_got, hp_takeFailed, hp_retPart, hp_partPush, hp_partUnlock, hp_freeRet, hp_destroying, hp_doneAlloc, hp_doneFree, hp_doneDestroy, reduceCtorEq, false_iff, Option.some.injEq] at kh
    first | assumption | pfin
  | @allocFailEmpty a pu p1 =>
    have kh := c5 a; rw [p1] at kh; simp only [hp_idle, hp_take, hp_carving, hp_needPage, hp_havePage, hp_got, hp_takeFailed, hp_retPart, hp_partPush, hp_partUnlock, hp_freeRet, hp_destroying, hp_doneAlloc, hp_doneFree, hp_doneDestroy, reduceCtorEq, false_iff, Option.some.injEq] at kh
    first | assumption | pfin
  | @allocFailPart a pu x acc p1 =>
    have kh := c5 a; rw [p1] at kh; simp only [hp_idle, hp_take, hp_carving, hp_needPage, hp_havePage, hp_got, hp_takeFailed, hp_retPart, hp_partPush, hp_partUnlock, hp_freeRet, hp_destroying, hp_doneAlloc, hp_doneFree, hp_doneDestroy, reduceCtorEq, false_iff, Option.some.injEq] at kh
    first | assumption | pfin
  | @carveLifo a pu acc p p1 p2 p3 =>
    have kh := c5 a; rw [p1] at kh; simp only [hp_idle, hp_take, hp_carving, hp_needPage, hp_havePage, hp_got, hp_takeFailed, hp_retPart, hp_partPush, hp_partUnlock, hp_freeRet, hp_destroying, hp_doneAlloc, hp_doneFree, hp_doneDestroy, reduceCtorEq, false_iff, Option.some.injEq] at kh
    first | assumption | pfin
  | @carveEmpty a pu acc p p1 p2 p3 =>
    have kh := c5 a; rw [p1] at kh; simp only [hp_idle, hp_take, hp_carving, hp_needPage, hp_havePage, hp_got, hp_takeFailed, hp_retPart, hp_partPush, hp_partUnlock, hp_freeRet, hp_destroying, hp_doneAlloc, hp_doneFree, hp_doneDestroy, reduceCtorEq, false_iff, Option.some.injEq] at kh
    first | assumption | pfin
  | @lockPartEmpty a k b p1 p2 p3 =>
    have kh := c5 a; rw [p1] at kh; simp only [hp_idle, hp_take, hp_carving, hp_needPage, hp_havePage, hp_got, hp_takeFailed, hp_retPart, hp_partPush, hp_partUnlock, hp_freeRet, hp_destroying, hp_doneAlloc, hp_doneFree, hp_doneDestroy, reduceCtorEq, false_iff, Option.some.injEq] at kh
    first | assumption | pfin
  | @lockPartSmall a k b p1 p2 p3 p4 =>
    have kh := c5 a; rw [p1] at kh; simp only [hp_idle, hp_take, hp_carving, hp_needPage, hp_havePage, hp_got, hp_takeFailed, hp_retPart, hp_partPush, hp_partUnlock, hp_freeRet, hp_destroying, hp_doneAlloc, hp_doneFree, hp_doneDestroy, reduceCtorEq, false_iff, Option.some.injEq] at kh
    first | assumption | pfin
  | @lockPartFull a k b p1 p2 p3 p4 =>
    have kh := c5 a; rw [p1] at kh; simp only [hp_idle, hp_take, hp_carving, hp_needPage, hp_havePage, hp_got, hp_takeFailed, hp_retPart, hp_partPush, hp_partUnlock, hp_freeRet, hp_destroying, hp_doneAlloc, hp_doneFree, hp_doneDestroy, reduceCtorEq, false_iff, Option.some.injEq] at kh
    first | assumption | pfin
  | @pushBucketPart a k b p1 =>
    have kh := c5 a; rw [p1] at kh; simp only [hp_idle, hp_take, hp_carving, hp_needPage, hp_havePage, hp_got, hp_takeFailed, hp_retPart, hp_partPush, hp_partUnlock, hp_freeRet, hp_destroying, hp_doneAlloc, hp_doneFree, hp_doneDestroy, reduceCtorEq, false_iff, Option.some.injEq] at kh
    first | assumption | pfin
  | @unlockPart a k p1 =>
    have kh := c5 a; rw [p1] at kh; simp only [hp_idle, hp_take, hp_carving, hp_needPage, hp_havePage, hp_got, hp_takeFailed, hp_retPart, hp_partPush, hp_partUnlock, hp_freeRet, hp_destroying, hp_doneAlloc, hp_doneFree, hp_doneDestroy, reduceCtorEq, false_iff, Option.some.injEq] at kh
    first | assumption | pfin
  | @callFreePush a x f c p1 p2 p3 p4 p5 =>
    have kh := c5 a; rw [p2] at kh; simp only [hp_idle, hp_take, hp_carving, hp_needPage, hp_havePage, hp_got, hp_takeFailed, hp_retPart, hp_partPush, hp_partUnlock, hp_freeRet, hp_destroying, hp_doneAlloc, hp_doneFree, hp_doneDestroy, reduceCtorEq, false_iff, Option.some.injEq] at kh
    first | assumption | pfin
  | @callFreeNew a x f c p1 p2 p3 p4 p5 p6 =>
    have kh := c5 a; rw [p2] at kh; simp only [hp_idle, hp_take, hp_carving, hp_needPage, hp_havePage, hp_got, hp_takeFailed, hp_retPart, hp_partPush, hp_partUnlock, hp_freeRet, hp_destroying, hp_doneAlloc, hp_doneFree, hp_doneDestroy, reduceCtorEq, false_iff, Option.some.injEq] at kh
    first | assumption | pfin
  | @callFreeRet a x f c b0 rest p1 p2 p3 p4 p5 p6 p7 =>
    have kh := c5 a; rw [p2] at kh; simp only [hp_idle, hp_take, hp_carving, hp_needPage, hp_havePage, hp_got, hp_takeFailed, hp_retPart, hp_partPush, hp_partUnlock, hp_freeRet, hp_destroying, hp_doneAlloc, hp_doneFree, hp_doneDestroy, reduceCtorEq, false_iff, Option.some.injEq] at kh
    first | assumption | pfin
  | @pushBucketFree a b p1 =>
    have kh := c5 a; rw [p1] at kh; simp only [hp_idle, hp_take, hp_carving, hp_needPage, hp_havePage, hp_got, hp_takeFailed, hp_retPart, hp_partPush, hp_partUnlock, hp_freeRet, hp_destroying, hp_doneAlloc, hp_doneFree, hp_doneDestroy, reduceCtorEq, false_iff, Option.some.injEq] at kh
    first | assumption | pfin
  | @retFree a p1 =>
    have kh := c5 a; rw [p1] at kh; simp only [hp_idle, hp_take, hp_carving, hp_needPage, hp_havePage, hp_got, hp_takeFailed, hp_retPart, hp_partPush, hp_partUnlock, hp_freeRet, hp_destroying, hp_doneAlloc, hp_doneFree, hp_doneDestroy, reduceCtorEq, false_iff, Option.some.injEq] at kh
    first | assumption | pfin
  | @callDestroy a f c p1 p2 p3 =>
    have kh := c5 a; rw [p2] at kh; simp only [hp_idle, hp_take, hp_carving, hp_needPage, hp_havePage, hp_got, hp_takeFailed, hp_retPart, hp_partPush, hp_partUnlock, hp_freeRet, hp_destroying, hp_doneAlloc, hp_doneFree, hp_doneDestroy, reduceCtorEq, false_iff, Option.some.injEq] at kh
    first | assumption | pfin
  | @pushBucketDestroy a b f c p1 =>
    have kh := c5 a; rw [p1] at kh; simp only [hp_idle, hp_take, hp_carving, hp_needPage, hp_havePage, hp_got, hp_takeFailed, hp_retPart, hp_partPush, hp_partUnlock, hp_freeRet, hp_destroying, hp_doneAlloc, hp_doneFree, hp_doneDestroy, reduceCtorEq, false_iff, Option.some.injEq] at kh
    first | assumption | pfin
  | @pushBucketLast a c p1 =>
    have kh := c5 a; rw [p1] at kh; simp only [hp_idle, hp_take, hp_carving, hp_needPage, hp_havePage, hp_got, hp_takeFailed, hp_retPart, hp_partPush, hp_partUnlock, hp_freeRet, hp_destroying, hp_doneAlloc, hp_doneFree, hp_doneDestroy, reduceCtorEq, false_iff, Option.some.injEq] at kh
    first | assumption | pfin
  | @retDestroy a p1 =>
    have kh := c5 a; rw [p1] at kh; simp only [hp_idle, hp_take, hp_carving, hp_needPage, hp_havePage, hp_got, hp_takeFailed, hp_retPart, hp_partPush, hp_partUnlock, hp_freeRet, hp_destroying, hp_doneAlloc, hp_doneFree, hp_doneDestroy, reduceCtorEq, false_iff, Option.some.injEq] at kh
    first | assumption | pfin
  | @destroyStart  p1 p2 p3 =>
    first | assumption | pfin
  | @relLifo p rest p1 p2 =>
    have kp := c1 p; rw [p2] at kp; simp only [List.mem_cons, true_or, true_iff] at kp
    have kn := c2; rw [p2] at kn; simp only [List.nodup_cons] at kn
    first | assumption | pfin
  | @lifoEmpty  p1 p2 =>
    first | assumption | pfin
  | @relEmpty p rest p1 p2 =>
    have kp := c3 p; rw [p2] at kp; simp only [List.mem_cons, true_or, true_iff] at kp
    have kn := c4; rw [p2] at kn; simp only [List.nodup_cons] at kn
    first | assumption | pfin
  | @destroyEnd  p1 p2 =>
    first | assumption | pfin

theorem pstep_held (P : Params) (hP : P.OK) (s : St) (e : Ev) (s' : St) (h : PInv P s) (hs : Step P s e s') : ∀ a p, heldPage (s'.pc a) = some p ↔ s'.pown p = .held a := by
  have c1 := h.lifo; have c2 := h.lifoNd; have c3 := h.empty; have c4 := h.emptyNd; have c5 := h.held; have c6 := h.rel
  have c7 := h.relNd; have c8 := h.unalloc; have c9 := h.lifoRoom; have c10 := h.emptyFull; have c11 := h.heldRoom
  have c12 := h.usedLe
  have := hP.slots_pos
  cases hs with
  | @callInit a p1 p2 p3 =>
    have kh := c5 a; rw [p2] at kh; simp only [hp_idle, hp_take, hp_carving, hp_needPage, hp_havePage, hp_got, hp_takeFailed, hp_retPart, hp_partPush, hp_partUnlock, hp_freeRet, hp_destroying, hp_doneAlloc, hp_doneFree, hp_doneDestroy, reduceCtorEq, false_iff, Option.some.injEq] at kh
    first | assumption | pfin
  | @retInitOk a b p1 p2 =>
    have kh := c5 a; rw [p1] at kh; simp only [hp_idle, hp_take, hp_carving, hp_needPage, hp_havePage, hp_got, hp_takeFailed, hp_retPart, hp_partPush, hp_partUnlock, hp_freeRet, hp_destroying, hp_doneAlloc, hp_doneFree, hp_doneDestroy, reduceCtorEq, false_iff, Option.some.injEq] at kh
    first | assumption | pfin
  | @retInitFail a p1 =>
    have kh := c5 a; rw [p1] at kh; simp only [hp_idle, hp_take, hp_carving, hp_needPage, hp_havePage, hp_got, hp_takeFailed, hp_retPart, hp_partPush, hp_partUnlock, hp_freeRet, hp_destroying, hp_doneAlloc, hp_doneFree, hp_doneDestroy, reduceCtorEq, false_iff, Option.some.injEq] at kh
    first | assumption | pfin
  | @callAllocPop a f x x2 c p1 p2 p3 =>
    have kh := c5 a; rw [p2] at kh; simp only [hp_idle, hp_take, hp_carving, hp_needPage, hp_havePage, hp_got, hp_takeFailed, hp_retPart, hp_partPush, hp_partUnlock, hp_freeRet, hp_destroying, hp_doneAlloc, hp_doneFree, hp_doneDestroy, reduceCtorEq, false_iff, Option.some.injEq] at kh
    first | assumption | pfin
  | @callAllocPrev a f b x p1 p2 p3 =>
    have kh := c5 a; rw [p2] at kh; simp only [hp_idle, hp_take, hp_carving, hp_needPage, hp_havePage, hp_got, hp_takeFailed, hp_retPart, hp_partPush, hp_partUnlock, hp_freeRet, hp_destroying, hp_doneAlloc, hp_doneFree, hp_doneDestroy, reduceCtorEq, false_iff, Option.some.injEq] at kh
    first | assumption | pfin
  | @callAllocTake a x p1 p2 p3 =>
    have kh := c5 a; rw [p2] at kh; simp only [hp_idle, hp_take, hp_carving, hp_needPage, hp_havePage, hp_got, hp_takeFailed, hp_retPart, hp_partPush, hp_partUnlock, hp_freeRet, hp_destroying, hp_doneAlloc, hp_doneFree, hp_doneDestroy, reduceCtorEq, false_iff, Option.some.injEq] at kh
    first | assumption | pfin
  | @retAllocTake a b x p1 p2 =>
    have kh := c5 a; rw [p1] at kh; simp only [hp_idle, hp_take, hp_carving, hp_needPage, hp_havePage, hp_got, hp_takeFailed, hp_retPart, hp_partPush, hp_partUnlock, hp_freeRet, hp_destroying, hp_doneAlloc, hp_doneFree, hp_doneDestroy, reduceCtorEq, false_iff, Option.some.injEq] at kh
    first | assumption | pfin
  | @retAllocFail a p1 =>
    have kh := c5 a; rw [p1] at kh; simp only [hp_idle, hp_take, hp_carving, hp_needPage, hp_havePage, hp_got, hp_takeFailed, hp_retPart, hp_partPush, hp_partUnlock, hp_freeRet, hp_destroying, hp_doneAlloc, hp_doneFree, hp_doneDestroy, reduceCtorEq, false_iff, Option.some.injEq] at kh
    first | assumption | pfin
  | @retAllocDone a x p1 =>
    have kh := c5 a; rw [p1] at kh; simp only [hp_idle, hp_take, hp_carving, hp_needPage, hp_havePage, hp_got, hp_takeFailed, hp_retPart, hp_partPush, hp_partUnlock, hp_freeRet, hp_destroying, hp_doneAlloc, hp_doneFree, hp_doneDestroy, reduceCtorEq, false_iff, Option.some.injEq] at kh
    first | assumption | pfin
  | @popBucketSome a pu b rest p1 p2 =>
    have kh := c5 a; rw [p1] at kh; simp only [hp_idle, hp_take, hp_carving, hp_needPage, hp_havePage, hp_got, hp_takeFailed, hp_retPart, hp_partPush, hp_partUnlock, hp_freeRet, hp_destroying, hp_doneAlloc, hp_doneFree, hp_doneDestroy, reduceCtorEq, false_iff, Option.some.injEq] at kh
    first | assumption | pfin
  | @popBucketNone a pu p1 p2 =>
    have kh := c5 a; rw [p1] at kh; simp only [hp_idle, hp_take, hp_carving, hp_needPage, hp_havePage, hp_got, hp_takeFailed, hp_retPart, hp_partPush, hp_partUnlock, hp_freeRet, hp_destroying, hp_doneAlloc, hp_doneFree, hp_doneDestroy, reduceCtorEq, false_iff, Option.some.injEq] at kh
    first | assumption | pfin
  | @popPageSome a pu acc p rest p1 p2 =>
    have kh := c5 a; rw [p1] at kh; simp only [hp_idle, hp_take, hp_carving, hp_needPage, hp_havePage, hp_got, hp_takeFailed, hp_retPart, hp_partPush, hp_partUnlock, hp_freeRet, hp_destroying, hp_doneAlloc, hp_doneFree, hp_doneDestroy, reduceCtorEq, false_iff, Option.some.injEq] at kh
    have kp := c1 p; rw [p2] at kp; simp only [List.mem_cons, true_or, true_iff] at kp
    have kn := c2; rw [p2] at kn; simp only [List.nodup_cons] at kn
    first | assumption | pfin
  | @popPageNone a pu acc p1 p2 =>
    have kh := c5 a; rw [p1] at kh; simp only [hp_idle, hp_take, hp_carving, hp_needPage, hp_havePage, hp_got, hp_takeFailed, hp_retPart, hp_partPush, hp_partUnlock, hp_freeRet, hp_destroying, hp_doneAlloc, hp_doneFree, hp_doneDestroy, reduceCtorEq, false_iff, Option.some.injEq] at kh
    first | assumption | pfin
  | @allocOk a pu acc p1 =>
    have kh := c5 a; rw [p1] at kh; simp only [hp_idle, hp_take, hp_carving, hp_needPage, hp_havePage, hp_got, hp_takeFailed, hp_retPart, hp_partPush, hp_partUnlock, hp_freeRet, hp_destroying, hp_doneAlloc, hp_doneFree, hp_doneDestroy, reduceCtorEq, false_iff, Option.some.injEq] at kh
    first | assumption | pfin
  | @allocFailEmpty a pu p1 =>
    have kh := c5 a; rw [p1] at kh; simp only [hp_idle, hp_take, hp_carving, hp_needPage, hp_havePage, hp_got, hp_takeFailed, hp_retPart, hp_partPush, hp_partUnlock, hp_freeRet, hp_destroying, hp_doneAlloc, hp_doneFree, hp_doneDestroy, reduceCtorEq, false_iff, Option.some.injEq] at kh
    first | assumption | pfin
  | @allocFailPart a pu x acc p1 =>
    have kh := c5 a; rw [p1] at kh; simp only [hp_idle, hp_take, hp_carving, hp_needPage, hp_havePage, hp_got, hp_takeFailed, hp_retPart, hp_partPush, hp_partUnlock, hp_freeRet, hp_destroying, hp_doneAlloc, hp_doneFree, hp_doneDestroy, reduceCtorEq, false_iff, Option.some.injEq] at kh
    first | assumption | pfin
  | @carveLifo a pu acc p p1 p2 p3 =>
    have kh := c5 a; rw [p1] at kh; simp only [hp_idle, hp_take, hp_carving, hp_needPage, hp_havePage, hp_got, hp_takeFailed, hp_retPart, hp_partPush, hp_partUnlock, hp_freeRet, hp_destroying, hp_doneAlloc, hp_doneFree, hp_doneDestroy, reduceCtorEq, false_iff, Option.some.injEq] at kh
    first | assumption | pfin
  | @carveEmpty a pu acc p p1 p2 p3 =>
    have kh := c5 a; rw [p1] at kh; simp only [hp_idle, hp_take, hp_carving, hp_needPage, hp_havePage, hp_got, hp_takeFailed, hp_retPart, hp_partPush, hp_partUnlock, hp_freeRet, hp_destroying, hp_doneAlloc, hp_doneFree, hp_doneDestroy, reduceCtorEq, false_iff, Option.some.injEq] at kh
    first | assumption | pfin
  | @lockPartEmpty a k b p1 p2 p3 =>
    have kh := c5 a; rw [p1] at kh; simp only [hp_idle, hp_take, hp_carving, hp_needPage, hp_havePage, hp_got, hp_takeFailed, hp_retPart, hp_partPush, hp_partUnlock, hp_freeRet, hp_destroying, hp_doneAlloc, hp_doneFree, hp_doneDestroy, reduceCtorEq, false_iff, Option.some.injEq] at kh
    first | assumption | pfin
  | @lockPartSmall a k b p1 p2 p3 p4 =>
    have kh := c5 a; rw [p1] at kh; simp only [hp_idle, hp_take, hp_carving, hp_needPage, hp_havePage, hp_got, hp_takeFailed, hp_retPart, hp_partPush, hp_partUnlock, hp_freeRet, hp_destroying, hp_doneAlloc, hp_doneFree, hp_doneDestroy, reduceCtorEq, false_iff, Option.some.injEq] at kh
    first | assumption | pfin
  | @lockPartFull a k b p1 p2 p3 p4 =>
    have kh := c5 a; rw [p1] at kh; simp only [hp_idle, hp_take, hp_carving, hp_needPage, hp_havePage, hp_got, hp_takeFailed, hp_retPart, hp_partPush, hp_partUnlock, hp_freeRet, hp_destroying, hp_doneAlloc, hp_doneFree, hp_doneDestroy, reduceCtorEq, false_iff, Option.some.injEq] at kh
    first | assumption | pfin
  | @pushBucketPart a k b p1 =>
    have kh := c5 a; rw [p1] at kh; simp only [hp_idle, hp_take, hp_carving, hp_needPage, hp_havePage, hp_got, hp_takeFailed, hp_retPart, hp_partPush, hp_partUnlock, hp_freeRet, hp_destroying, hp_doneAlloc, hp_doneFree, hp_doneDestroy, reduceCtorEq, false_iff, Option.some.injEq] at kh
    first | assumption | pfin
  | @unlockPart a k p1 =>
    have kh := c5 a; rw [p1] at kh; simp only [hp_idle, hp_take, hp_carving, hp_needPage, hp_havePage, hp_got, hp_takeFailed, hp_retPart, hp_partPush, hp_partUnlock, hp_freeRet, hp_destroying, hp_doneAlloc, hp_doneFree, hp_doneDestroy, reduceCtorEq, false_iff, Option.some.injEq] at kh
    first | assumption | pfin
  | @callFreePush a x f c p1 p2 p3 p4 p5 =>
    have kh := c5 a; rw [p2] at kh; simp only [hp_idle, hp_take, hp_carving, hp_needPage, hp_havePage, hp_got, hp_takeFailed, hp_retPart, hp_partPush, hp_partUnlock, hp_freeRet, hp_destroying, hp_doneAlloc, hp_doneFree, hp_doneDestroy, reduceCtorEq, false_iff, Option.some.injEq] at kh
    first | assumption | pfin
  | @callFreeNew a x f c p1 p2 p3 p4 p5 p6 =>
    have kh := c5 a; rw [p2] at kh; simp only [hp_idle, hp_take, hp_carving, hp_needPage, hp_havePage, hp_got, hp_takeFailed, hp_retPart, hp_partPush, hp_partUnlock, hp_freeRet, hp_destroying, hp_doneAlloc, hp_doneFree, hp_doneDestroy, reduceCtorEq, false_iff, Option.some.injEq] at kh
    first | assumption | pfin
  | @callFreeRet a x f c b0 rest p1 p2 p3 p4 p5 p6 p7 =>
    have kh := c5 a; rw [p2] at kh; simp only [hp_idle, hp_take, hp_carving, hp_needPage, hp_havePage, hp_got, hp_takeFailed, hp_retPart, hp_partPush, hp_partUnlock, hp_freeRet, hp_destroying, hp_doneAlloc, hp_doneFree, hp_doneDestroy, reduceCtorEq, false_iff, Option.some.injEq] at kh
    first | assumption | pfin
  | @pushBucketFree a b p1 =>
    have kh := c5 a; rw [p1] at kh; simp only [hp_idle, hp_take, hp_carving, hp_needPage, hp_havePage, hp_got, hp_takeFailed, hp_retPart, hp_partPush, hp_partUnlock, hp_freeRet, hp_destroying, hp_doneAlloc, hp_doneFree, hp_doneDestroy, reduceCtorEq, false_iff, Option.some.injEq] at kh
    first | assumption | pfin
  | @retFree a p1 =>
    have kh := c5 a; rw [p1] at kh; simp only [hp_idle, hp_take, hp_carving, hp_needPage, hp_havePage, hp_got, hp_takeFailed, hp_retPart, hp_partPush, hp_partUnlock, hp_freeRet, hp_destroying, hp_doneAlloc, hp_doneFree, hp_doneDestroy, reduceCtorEq, false_iff, Option.some.injEq] at kh
    first | assumption | pfin
  | @callDestroy a f c p1 p2 p3 =>
    have kh := c5 a; rw [p2] at kh; simp only [hp_idle, hp_take, hp_carving, hp_needPage, hp_havePage, hp_got, hp_takeFailed, hp_retPart, hp_partPush, hp_partUnlock, hp_freeRet, hp_destroying, hp_doneAlloc, hp_doneFree, hp_doneDestroy, reduceCtorEq, false_iff, Option.some.injEq] at kh
    first | assumption | pfin
  | @pushBucketDestroy a b f c p1 =>
    have kh := c5 a; rw [p1] at kh; simp only [hp_idle, hp_take, hp_carving, hp_needPage, hp_havePage, hp_got, hp_takeFailed, hp_retPart, hp_partPush, hp_partUnlock, hp_freeRet, hp_destroying, hp_doneAlloc, hp_doneFree, hp_doneDestroy, reduceCtorEq, false_iff, Option.some.injEq] at kh
    first | assumption | pfin
  | @pushBucketLast a c p1 =>
    have kh := c5 a; rw [p1] at kh; simp only [hp_idle, hp_take, hp_carving, hp_needPage, hp_havePage, hp_got, hp_takeFailed, hp_retPart, hp_partPush, hp_partUnlock, hp_freeRet, hp_destroying, hp_doneAlloc, hp_doneFree, hp_doneDestroy, reduceCtorEq, false_iff, Option.some.injEq] at kh
    first | assumption | pfin
  | @retDestroy a p1 =>
    have kh := c5 a; rw [p1] at kh; simp only [hp_idle, hp_take, hp_carving, hp_needPage, hp_havePage, hp_got, hp_takeFailed, hp_retPart, hp_partPush, hp_partUnlock, hp_freeRet, hp_destroying, hp_doneAlloc, hp_doneFree, hp_doneDestroy, reduceCtorEq, false_iff, Option.some.injEq] at kh
    first | assumption | pfin
  | @destroyStart  p1 p2 p3 =>
    first | assumption | pfin
  | @relLifo p rest p1 p2 =>
    have kp := c1 p; rw [p2] at kp; simp only [List.mem_cons, true_or, true_iff] at kp
    have kn := c2; rw [p2] at kn; simp only [List.nodup_cons] at kn
    first | assumption | pfin
  | @lifoEmpty  p1 p2 =>
    first | assumption | pfin
  | @relEmpty p rest p1 p2 =>
    have kp := c3 p; rw [p2] at kp; simp only [List.mem_cons, true_or, true_iff] at kp
    have kn := c4; rw [p2] at kn; simp only [List.nodup_cons] at kn
    first | assumption | pfin
  | @destroyEnd  p1 p2 =>
    first | assumption | pfin

theorem pstep_rel (P : Params) (hP : P.OK) (s : St) (e : Ev) (s' : St) (h : PInv P s) (hs : Step P s e s') : ∀ p, p ∈ s'.released ↔ s'.pown p = .released := by
  have c1 := h.lifo; have c2 := h.lifoNd; have c3 := h.empty; have c4 := h.emptyNd; have c5 := h.held; have c6 := h.rel
  have c7 := h.relNd; have c8 := h.unalloc; have c9 := h.lifoRoom; have c10 := h.emptyFull; have c11 := h.heldRoom
  have c12 := h.usedLe
  have := hP.slots_pos
  cases hs with
  | @callInit a p1 p2 p3 =>
    have kh := c5 a; rw [p2] at kh; simp only [hp_idle, hp_take, hp_carving, hp_needPage, hp_havePage, hp_got, hp_takeFailed, hp_retPart, hp_partPush, hp_partUnlock, hp_freeRet, hp_destroying, hp_doneAlloc, hp_doneFree, hp_doneDestroy, reduceCtorEq, false_iff, Option.some.injEq] at kh
    first | assumption | pfin
  | @retInitOk a b p1 p2 =>
    have kh := c5 a; rw [p1] at kh; simp only [hp_idle, hp_take, hp_carving, hp_needPage, hp_havePage, hp_got, hp_takeFailed, hp_retPart, hp_partPush, hp_partUnlock, hp_freeRet, hp_destroying, hp_doneAlloc, hp_doneFree, hp_doneDestroy, reduceCtorEq, false_iff, Option.some.injEq] at kh
    first | assumption | pfin
  | @retInitFail a p1 =>
    have kh := c5 a; rw [p1] at kh; simp only [hp_idle, hp_take, hp_carving, hp_needPage, hp_havePage, hp_got, hp_takeFailed, hp_retPart, hp_partPush, hp_partUnlock, hp_freeRet, hp_destroying, hp_doneAlloc, hp_doneFree, hp_doneDestroy, reduceCtorEq, false_iff, Option.some.injEq] at kh
    first | assumption | pfin
  | @callAllocPop a f x x2 c p1 p2 p3 =>
    have kh := c5 a; rw [p2] at kh; simp only [hp_idle, hp_take, hp_carving, hp_needPage, hp_havePage, hp_got, hp_takeFailed, hp_retPart, hp_partPush, hp_partUnlock, hp_freeRet, hp_destroying, hp_doneAlloc, hp_doneFree, hp_doneDestroy, reduceCtorEq, false_iff, Option.some.injEq] at kh
    first | assumption | pfin
  | @callAllocPrev a f b x p1 p2 p3 =>
    have kh := c5 a; rw [p2] at kh; simp only [hp_idle, hp_take, hp_carving, hp_needPage, hp_havePage, hp_got, hp_takeFailed, hp_retPart, hp_partPush, hp_partUnlock, hp_freeRet, hp_destroying, hp_doneAlloc, hp_doneFree, hp_doneDestroy, reduceCtorEq, false_iff, Option.some.injEq] at kh
    first | assumption | pfin
  | @callAllocTake a x p1 p2 p3 =>
    have kh := c5 a; rw [p2] at kh; simp only [hp_idle, hp_take, hp_carving, hp_needPage, hp_havePage, hp_got, hp_takeFailed, hp_retPart, hp_partPush, hp_partUnlock, hp_freeRet, hp_destroying, hp_doneAlloc, hp_doneFree, hp_doneDestroy, reduceCtorEq, false_iff, Option.some.injEq] at kh
    first | assumption | pfin
  | @retAllocTake a b x p1 p2 =>
    have kh := c5 a; rw [p1] at kh; simp only [hp_idle, hp_take, hp_carving, hp_needPage, hp_havePage, hp_got, hp_takeFailed, hp_retPart, hp_partPush, hp_partUnlock, hp_freeRet, hp_destroying, hp_doneAlloc, hp_doneFree, hp_doneDestroy, reduceCtorEq, false_iff, Option.some.injEq] at kh
    first | assumption | pfin
  | @retAllocFail a p1 =>
    have kh := c5 a; rw [p1] at kh; simp only [hp_idle, hp_take, hp_carving, hp_needPage, hp_havePage, hp_got, hp_takeFailed, hp_retPart, hp_partPush, hp_partUnlock, hp_freeRet, hp_destroying, hp_doneAlloc, hp_doneFree, hp_doneDestroy, reduceCtorEq, false_iff, Option.some.injEq] at kh
    first | assumption | pfin
  | @retAllocDone a x p1 =>
    have kh := c5 a; rw [p1] at kh; simp only [hp_idle, hp_take, hp_carving, hp_needPage, hp_havePage, hp_got, hp_takeFailed, hp_retPart, hp_partPush, hp_partUnlock, hp_freeRet, hp_destroying, hp_doneAlloc, hp_doneFree, hp_doneDestroy, reduceCtorEq, false_iff, Option.some.injEq] at kh
    first | assumption | pfin
  | @popBucketSome a pu b rest p1 p2 =>
    have kh := c5 a; rw [p1] at kh; simp only [hp_idle, hp_take, hp_carving, hp_needPage, hp_havePage, hp_got, hp_takeFailed, hp_retPart, hp_partPush, hp_partUnlock, hp_freeRet, hp_destroying, hp_doneAlloc, hp_doneFree, hp_doneDestroy, reduceCtorEq, false_iff, Option.some.injEq] at kh
    first | assumption | pfin
  | @popBucketNone a pu p1 p2 =>
    have kh := c5 a; rw [p1] at kh; simp only [hp_idle, hp_take, hp_carving, hp_needPage, hp_havePage, hp_got, hp_takeFailed, hp_retPart, hp_partPush, hp_partUnlock, hp_freeRet, hp_destroying, hp_doneAlloc, hp_doneFree, hp_doneDestroy, reduceCtorEq, false_iff, Option.some.injEq] at kh
    first | assumption | pfin
  | @popPageSome a pu acc p rest p1 p2 =>
    have kh := c5 a; rw [p1] at kh; simp only [hp_idle, hp_take, hp_carving, hp_needPage, hp_havePage, hp_got, hp_takeFailed, hp_retPart, hp_partPush, hp_partUnlock, hp_freeRet, hp_destroying, hp_doneAlloc, hp_doneFree, hp_doneDestroy, reduceCtorEq, false_iff, Option.some.injEq] at kh
    have kp := c1 p; rw [p2] at kp; simp only [List.mem_cons, true_or, true_iff] at kp
    have kn := c2; rw [p2] at kn; simp only [List.nodup_cons] at kn
    first | assumption | pfin
  | @popPageNone a pu acc p1 p2 =>
    have kh := c5 a; rw [p1] at kh; simp only [hp_idle, hp_take, hp_carving, hp_needPage, hp_havePage, hp_got, hp_takeFailed, hp_retPart, hp_partPush, hp_partUnlock, hp_freeRet, hp_destroying, hp_doneAlloc, hp_doneFree, hp_doneDestroy, reduceCtorEq, false_iff, Option.some.injEq] at kh
    first | assumption | pfin
  | @allocOk a pu acc p1 =>
    have kh := c5 a; rw [p1] at kh; simp only [hp_idle, hp_take, hp_carving, hp_needPage, hp_havePage, hp_got, hp_takeFailed, hp_retPart, hp_partPush, hp_partUnlock, hp_freeRet, hp_destroying, hp_doneAlloc, hp_doneFree, hp_doneDestroy, reduceCtorEq, false_iff, Option.some.injEq] at kh
    first | assumption | pfin
  | @allocFailEmpty a pu p1 =>
    have kh := c5 a; rw [p1] at kh; simp only [hp_idle, hp_take, hp_carving, hp_needPage, hp_havePage, hp_got, hp_takeFailed, hp_retPart, hp_partPush, hp_partUnlock, hp_freeRet, hp_destroying, hp_doneAlloc, hp_doneFree, hp_doneDestroy, reduceCtorEq, false_iff, Option.some.injEq] at kh
    first | assumption | pfin
  | @allocFailPart a pu x acc p1 =>
    have kh := c5 a; rw [p1] at kh; simp only [hp_idle, hp_take, hp_carving, hp_needPage, hp_havePage, hp_got, hp_takeFailed, hp_retPart, hp_partPush, hp_partUnlock, hp_freeRet, hp_destroying, hp_doneAlloc, hp_doneFree, hp_doneDestroy, reduceCtorEq, false_iff, Option.some.injEq] at kh
    first | assumption | pfin
  | @carveLifo a pu acc p p1 p2 p3 =>
    have kh := c5 a; rw [p1] at kh; simp only [hp_idle, hp_take, hp_carving, hp_needPage, hp_havePage, hp_got, hp_takeFailed, hp_retPart, hp_partPush, hp_partUnlock, hp_freeRet, hp_destroying, hp_doneAlloc, hp_doneFree, hp_doneDestroy, reduceCtorEq, false_iff, Option.some.injEq] at kh
    first | assumption | pfin
  | @carveEmpty a pu acc p p1 p2 p3 =>
    have kh := c5 a; rw [p1] at kh; simp only [hp_idle, hp_take, hp_carving, hp_needPage, hp_havePage, hp_got, hp_takeFailed, hp_retPart, hp_partPush, hp_partUnlock, hp_freeRet, hp_destroying, hp_doneAlloc, hp_doneFree, hp_doneDestroy, reduceCtorEq, false_iff, Option.some.injEq] at kh
    first | assumption | pfin
  | @lockPartEmpty a k b p1 p2 p3 =>
    have kh := c5 a; rw [p1] at kh; simp only [hp_idle, hp_take, hp_carving, hp_needPage, hp_havePage, hp_got, hp_takeFailed, hp_retPart, hp_partPush, hp_partUnlock, hp_freeRet, hp_destroying, hp_doneAlloc, hp_doneFree, hp_doneDestroy, reduceCtorEq, false_iff, Option.some.injEq] at kh
    first | assumption | pfin
  | @lockPartSmall a k b p1 p2 p3 p4 =>
    have kh := c5 a; rw [p1] at kh; simp only [hp_idle, hp_take, hp_carving, hp_needPage, hp_havePage, hp_got, hp_takeFailed, hp_retPart, hp_partPush, hp_partUnlock, hp_freeRet, hp_destroying, hp_doneAlloc, hp_doneFree, hp_doneDestroy, reduceCtorEq, false_iff, Option.some.injEq] at kh
    first | assumption | pfin
  | @lockPartFull a k b p1 p2 p3 p4 =>
    have kh := c5 a; rw [p1] at kh; simp only [hp_idle, hp_take, hp_carving, hp_needPage, hp_havePage, hp_got, hp_takeFailed, hp_retPart, hp_partPush, hp_partUnlock, hp_freeRet, hp_destroying, hp_doneAlloc, hp_doneFree, hp_doneDestroy, reduceCtorEq, false_iff, Option.some.injEq] at kh
    first | assumption | pfin
  | @pushBucketPart a k b p1 =>
    have kh := c5 a; rw [p1] at kh; simp only [hp_idle, hp_take, hp_carving, hp_needPage, hp_havePage, hp_got, hp_takeFailed, hp_retPart, hp_partPush, hp_partUnlock, hp_freeRet, hp_destroying, hp_doneAlloc, hp_doneFree, hp_doneDestroy, reduceCtorEq, false_iff, Option.some.injEq] at kh
    first | assumption | pfin
  | @unlockPart a k p1 =>
    have kh := c5 a; rw [p1] at kh; simp only [hp_idle, hp_take, hp_carving, hp_needPage, hp_havePage, hp_got, hp_takeFailed, hp_retPart, hp_partPush, hp_partUnlock, hp_freeRet, hp_destroying, hp_doneAlloc, hp_doneFree, hp_doneDestroy, reduceCtorEq, false_iff, Option.some.injEq] at kh
    first | assumption | pfin
  | @callFreePush a x f c p1 p2 p3 p4 p5 =>
    have kh := c5 a; rw [p2] at kh; simp only [hp_idle, hp_take, hp_carving, hp_needPage, hp_havePage, hp_got, hp_takeFailed, hp_retPart, hp_partPush, hp_partUnlock, hp_freeRet, hp_destroying, hp_doneAlloc, hp_doneFree, hp_doneDestroy, reduceCtorEq, false_iff, Option.some.injEq] at kh
    first | assumption | pfin
  | @callFreeNew a x f c p1 p2 p3 p4 p5 p6 =>
    have kh := c5 a; rw [p2] at kh; simp only [hp_idle, hp_take, hp_carving, hp_needPage, hp_havePage, hp_got, hp_takeFailed, hp_retPart, hp_partPush, hp_partUnlock, hp_freeRet, hp_destroying, hp_doneAlloc, hp_doneFree, hp_doneDestroy, reduceCtorEq, false_iff, Option.some.injEq] at kh
    first | assumption | pfin
  | @callFreeRet a x f c b0 rest p1 p2 p3 p4 p5 p6 p7 =>
    have kh := c5 a; rw [p2] at kh; simp only [hp_idle, hp_take, hp_carving, hp_needPage, hp_havePage, hp_got, hp_takeFailed, hp_retPart, hp_partPush, hp_partUnlock, hp_freeRet, hp_destroying, hp_doneAlloc, hp_doneFree, hp_doneDestroy, reduceCtorEq, false_iff, Option.some.injEq] at kh
    first | assumption | pfin
  | @pushBucketFree a b p1 =>
    have kh := c5 a; rw [p1] at kh; simp only [hp_idle, hp_take, hp_carving, hp_needPage, hp_havePage, hp_got, hp_takeFailed, hp_retPart, hp_partPush, hp_partUnlock, hp_freeRet, hp_destroying, hp_doneAlloc, hp_doneFree, hp_doneDestroy, reduceCtorEq, false_iff, Option.some.injEq] at kh
    first | assumption | pfin
  | @retFree a p1 =>
    have kh := c5 a; rw [p1] at kh; simp only [hp_idle, hp_take, hp_carving, hp_needPage, hp_havePage, hp_got, hp_takeFailed, hp_retPart, hp_partPush, hp_partUnlock, hp_freeRet, hp_destroying, hp_doneAlloc, hp_doneFree, hp_doneDestroy, reduceCtorEq, false_iff, Option.some.injEq] at kh
    first | assumption | pfin
  | @callDestroy a f c p1 p2 p3 =>
    have kh := c5 a; rw [p2] at kh; simp only [hp_idle, hp_take, hp_carving, hp_needPage, hp_havePage, hp_got, hp_takeFailed, hp_retPart, hp_partPush, hp_partUnlock, hp_freeRet, hp_destroying, hp_doneAlloc, hp_doneFree, hp_doneDestroy, reduceCtorEq, false_iff, Option.some.injEq] at kh
    first | assumption | pfin
  | @pushBucketDestroy a b f c p1 =>
    have kh := c5 a; rw [p1] at kh; simp only [hp_idle, hp_take, hp_carving, hp_needPage, hp_havePage, hp_got, hp_takeFailed, hp_retPart, hp_partPush, hp_partUnlock, hp_freeRet, hp_destroying, hp_doneAlloc, hp_doneFree, hp_doneDestroy, reduceCtorEq, false_iff, Option.some.injEq] at kh
    first | assumption | pfin
  | @pushBucketLast a c p1 =>
    have kh := c5 a; rw [p1] at kh; simp only [hp_idle, hp_take, hp_carving, hp_needPage, hp_havePage, hp_got, hp_takeFailed, hp_retPart, hp_partPush, hp_partUnlock, hp_freeRet, hp_destroying, hp_doneAlloc, hp_doneFree, hp_doneDestroy, reduceCtorEq, false_iff, Option.some.injEq] at kh
    first | assumption | pfin
  | @retDestroy a p1 =>
    have kh := c5 a; rw [p1] at kh; simp only [hp_idle, hp_take, hp_carving, hp_needPage, hp_havePage, hp_got, hp_takeFailed, hp_retPart, hp_partPush, hp_partUnlock, hp_freeRet, hp_destroying, hp_doneAlloc, hp_doneFree, hp_doneDestroy, reduceCtorEq, false_iff, Option.some.injEq] at kh
    first | assumption | pfin
  | @destroyStart  p1 p2 p3 =>
    first | assumption | pfin
  | @relLifo p rest p1 p2 =>
    have kp := c1 p; rw [p2] at kp; simp only [List.mem_cons, true_or, true_iff] at kp
    have kn := c2; rw [p2] at kn; simp only [List.nodup_cons] at kn
    first | assumption | pfin
  | @lifoEmpty  p1 p2 =>
    first | assumption | pfin
  | @relEmpty p rest p1 p2 =>
    have kp := c3 p; rw [p2] at kp; simp only [List.mem_cons, true_or, true_iff] at kp
    have kn := c4; rw [p2] at kn; simp only [List.nodup_cons] at kn
    first | assumption | pfin
  | @destroyEnd  p1 p2 =>
    first | assumption | pfin

theorem pstep_relNd (P : Params) (hP : P.OK) (s : St) (e : Ev) (s' : St) (h : PInv P s) (hs : Step P s e s') : s'.released.Nodup := by
  have c1 := h.lifo; have c2 := h.lifoNd; have c3 := h.empty; have c4 := h.emptyNd; have c5 := h.held; have c6 := h.rel
  have c7 := h.relNd; have c8 := h.unalloc; have c9 := h.lifoRoom; have c10 := h.emptyFull; have c11 := h.heldRoom
  have c12 := h.usedLe
  have := hP.slots_pos
  cases hs with
  | @callInit a p1 p2 p3 =>
    have kh := c5 a; rw [p2] at kh; simp only [hp_idle, hp_take, hp_carving, hp_needPage, hp_havePage, hp_got, hp_takeFailed, hp_retPart, hp_partPush, hp_partUnlock, hp_freeRet, hp_destroying, hp_doneAlloc, hp_doneFree, hp_doneDestroy, reduceCtorEq, false_iff, Option.some.injEq] at kh
    first | assumption | pfin
  | @retInitOk a b p1 p2 =>
    have kh := c5 a; rw [p1] at kh; simp only [hp_idle, hp_take, hp_carving, hp_needPage, hp_havePage, hp_got, hp_takeFailed, hp_retPart, hp_partPush, hp_partUnlock, hp_freeRet, hp_destroying, hp_doneAlloc, hp_doneFree, hp_doneDestroy, reduceCtorEq, false_iff, Option.some.injEq] at kh
    first | assumption | pfin
  | @retInitFail a p1 =>
    have kh := c5 a; rw [p1] at kh; simp only [hp_idle, hp_take, hp_carving, hp_needPage, hp_havePage, hp_got, hp_takeFailed, hp_retPart, hp_partPush, hp_partUnlock, hp_freeRet, hp_destroying, hp_doneAlloc, hp_doneFree, hp_doneDestroy, reduceCtorEq, false_iff, Option.some.injEq] at kh
    first | assumption | pfin
  | @callAllocPop a f x x2 c p1 p2 p3 =>
    have kh := c5 a; rw [p2] at kh; simp only [hp_idle, hp_take, hp_carving, hp_needPage, hp_havePage, hp_got, hp_takeFailed, hp_retPart, hp_partPush, hp_partUnlock, hp_freeRet, hp_destroying, hp_doneAlloc, hp_doneFree, hp_doneDestroy, reduceCtorEq, false_iff, Option.some.injEq] at kh
    first | assumption | pfin
  | @callAllocPrev a f b x p1 p2 p3 =>
    have kh := c5 a; rw [p2] at kh; simp only [hp_idle, hp_take, hp_carving, hp_needPage, hp_havePage, hp_got, hp_takeFailed, hp_retPart, hp_partPush, hp_partUnlock, hp_freeRet, hp_destroying, hp_doneAlloc, hp_doneFree, hp_doneDestroy, reduceCtorEq, false_iff, Option.some.injEq] at kh
    first | assumption | pfin
  | @callAllocTake a x p1 p2 p3 =>
    have kh := c5 a; rw [p2] at kh; simp only [hp_idle, hp_take, hp_carving, hp_needPage, hp_havePage, hp_got, hp_takeFailed, hp_retPart, hp_partPush, hp_partUnlock, hp_freeRet, hp_destroying, hp_doneAlloc, hp_doneFree, hp_doneDestroy, reduceCtorEq, false_iff, Option.some.injEq] at kh
    first | assumption | pfin
  | @retAllocTake a b x p1 p2 =>
    have kh := c5 a; rw [p1] at kh; simp only [hp_idle, hp_take, hp_carving, hp_needPage, hp_havePage, hp_got, hp_takeFailed, hp_retPart, hp_partPush, hp_partUnlock, hp_freeRet, hp_destroying, hp_doneAlloc, hp_doneFree, hp_doneDestroy, reduceCtorEq, false_iff, Option.some.injEq] at kh
    first | assumption | pfin
  | @retAllocFail a p1 =>
    have kh := c5 a; rw [p1] at kh; simp only [hp_idle, hp_take, hp_carving, hp_needPage, hp_havePage, hp_got, hp_takeFailed, hp_retPart, hp_partPush, hp_partUnlock, hp_freeRet, hp_destroying, hp_doneAlloc, hp_doneFree, hp_doneDestroy, reduceCtorEq, false_iff, Option.some.injEq] at kh
    first | assumption | pfin
  | @retAllocDone a x p1 =>
    have kh := c5 a; rw [p1] at kh; simp only [hp_idle, hp_take, hp_carving, hp_needPage, hp_havePage, hp_got, hp_takeFailed, hp_retPart, hp_partPush, hp_partUnlock, hp_freeRet, hp_destroying, hp_doneAlloc, hp_doneFree, hp_doneDestroy, reduceCtorEq, false_iff, Option.some.injEq] at kh
    first | assumption | pfin
  | @popBucketSome a pu b rest p1 p2 =>
    have kh := c5 a; rw [p1] at kh; simp only [hp_idle, hp_take, hp_carving, hp_needPage, hp_havePage, hp_got, hp_takeFailed, hp_retPart, hp_partPush, hp_partUnlock, hp_freeRet, hp_destroying, hp_doneAlloc, hp_doneFree, hp_doneDestroy, reduceCtorEq, false_iff, Option.some.injEq] at kh
    first | assumption | pfin
  | @popBucketNone a pu p1 p2 =>
    have kh := c5 a; rw [p1] at kh; simp only [hp_idle, hp_take, hp_carving, hp_needPage, hp_havePage, hp_got, hp_takeFailed, hp_retPart, hp_partPush, hp_partUnlock, hp_freeRet, hp_destroying, hp_doneAlloc, hp_doneFree, hp_doneDestroy, reduceCtorEq, false_iff, Option.some.injEq] at kh
    first | assumption | pfin
  | @popPageSome a pu acc p rest p1 p2 =>
    have kh := c5 a; rw [p1] at kh; simp only [hp_idle, hp_take, hp_carving, hp_needPage, hp_havePage, hp_got, hp_takeFailed, hp_retPart, hp_partPush, hp_partUnlock, hp_freeRet, hp_destroying, hp_doneAlloc, hp_doneFree, hp_doneDestroy, reduceCtorEq, false_iff, Option.some.injEq] at kh
    have kp := c1 p; rw [p2] at kp; simp only [List.mem_cons, true_or, true_iff] at kp
    have kn := c2; rw [p2] at kn; simp only [List.nodup_cons] at kn
    first | assumption | pfin
  | @popPageNone a pu acc p1 p2 =>
    have kh := c5 a; rw [p1] at kh; simp only [hp_idle, hp_take, hp_carving, hp_needPage, hp_havePage, hp_got, hp_takeFailed, hp_retPart, hp_partPush, hp_partUnlock, hp_freeRet, hp_destroying, hp_doneAlloc, hp_doneFree, hp_doneDestroy, reduceCtorEq, false_iff, Option.some.injEq] at kh
    first | assumption | pfin
  | @allocOk a pu acc p1 =>
    have kh := c5 a; rw [p1] at kh; simp only [hp_idle, hp_take, hp_carving, hp_needPage, hp_havePage, hp_got, hp_takeFailed, hp_retPart, hp_partPush, hp_partUnlock, hp_freeRet, hp_destroying, hp_doneAlloc, hp_doneFree, hp_doneDestroy, reduceCtorEq, false_iff, Option.some.injEq] at kh
    first | assumption | pfin
  | @allocFailEmpty a pu p1 =>
    have kh := c5 a; rw [p1] at kh; simp only [hp_idle, hp_take, hp_carving, hp_needPage, hp_havePage, hp_got, hp_takeFailed, hp_retPart, hp_partPush, hp_partUnlock, hp_freeRet, hp_destroying, hp_doneAlloc, hp_doneFree, hp_doneDestroy, reduceCtorEq, false_iff, Option.some.injEq] at kh
    first | assumption | pfin
  | @allocFailPart a pu x acc p1 =>
    have kh := c5 a; rw [p1] at kh; simp only [hp_idle, hp_take, hp_carving, hp_needPage, hp_havePage, hp_got, hp_takeFailed, hp_retPart, hp_partPush, hp_partUnlock, hp_freeRet, hp_destroying, hp_doneAlloc, hp_doneFree, hp_doneDestroy, reduceCtorEq, false_iff, Option.some.injEq] at kh
    first | assumption | pfin
  | @carveLifo a pu acc p p1 p2 p3 =>
    have kh := c5 a; rw [p1] at kh; simp only [hp_idle, hp_take, hp_carving, hp_needPage, hp_havePage, hp_got, hp_takeFailed, hp_retPart, hp_partPush, hp_partUnlock, hp_freeRet, hp_destroying, hp_doneAlloc, hp_doneFree, hp_doneDestroy, reduceCtorEq, false_iff, Option.some.injEq] at kh
    first | assumption | pfin
  | @carveEmpty a pu acc p p1 p2 p3 =>
    have kh := c5 a; rw [p1] at kh; simp only [hp_idle, hp_take, hp_carving, hp_needPage, hp_havePage, hp_got, hp_takeFailed, hp_retPart, hp_partPush, hp_partUnlock, hp_freeRet, hp_destroying, hp_doneAlloc, hp_doneFree, hp_doneDestroy, reduceCtorEq, false_iff, Option.some.injEq] at kh
    first | assumption | pfin
  | @lockPartEmpty a k b p1 p2 p3 =>
    have kh := c5 a; rw [p1] at kh; simp only [hp_idle, hp_take, hp_carving, hp_needPage, hp_havePage, hp_got, hp_takeFailed, hp_retPart, hp_partPush, hp_partUnlock, hp_freeRet, hp_destroying, hp_doneAlloc, hp_doneFree, hp_doneDestroy, reduceCtorEq, false_iff, Option.some.injEq] at kh
    first | assumption | pfin
  | @lockPartSmall a k b p1 p2 p3 p4 =>
    have kh := c5 a; rw [p1] at kh; simp only [hp_idle, hp_take, hp_carving, hp_needPage, hp_havePage, hp_got, hp_takeFailed, hp_retPart, hp_partPush, hp_partUnlock, hp_freeRet, hp_destroying, hp_doneAlloc, hp_doneFree, hp_doneDestroy, reduceCtorEq, false_iff, Option.some.injEq] at kh
    first | assumption | pfin
  | @lockPartFull a k b p1 p2 p3 p4 =>
    have kh := c5 a; rw [p1] at kh; simp only [hp_idle, hp_take, hp_carving, hp_needPage, hp_havePage, hp_got, hp_takeFailed, hp_retPart, hp_partPush, hp_partUnlock, hp_freeRet, hp_destroying, hp_doneAlloc, hp_doneFree, hp_doneDestroy, reduceCtorEq, false_iff, Option.some.injEq] at kh
    first | assumption | pfin
  | @pushBucketPart a k b p1 =>
    have kh := c5 a; rw [p1] at kh; simp only [hp_idle, hp_take, hp_carving, hp_needPage, hp_havePage, hp_got, hp_takeFailed, hp_retPart, hp_partPush, hp_partUnlock, hp_freeRet, hp_destroying, hp_doneAlloc, hp_doneFree, hp_doneDestroy, reduceCtorEq, false_iff, Option.some.injEq] at kh
    first | assumption | pfin
  | @unlockPart a k p1 =>
    have kh := c5 a; rw [p1] at kh; simp only [hp_idle, hp_take, hp_carving, hp_needPage, hp_havePage, hp_got, hp_takeFailed, hp_retPart, hp_partPush, hp_partUnlock, hp_freeRet, hp_destroying, hp_doneAlloc, hp_doneFree, hp_doneDestroy, reduceCtorEq, false_iff, Option.some.injEq] at kh
    first | assumption | pfin
  | @callFreePush a x f c p1 p2 p3 p4 p5 =>
    have kh := c5 a; rw [p2] at kh; simp only [hp_idle, hp_take, hp_carving, hp_needPage, hp_havePage, hp_got, hp_takeFailed, hp_retPart, hp_partPush, hp_partUnlock, hp_freeRet, hp_destroying, hp_doneAlloc, hp_doneFree, hp_doneDestroy, reduceCtorEq, false_iff, Option.some.injEq] at kh
    first | assumption | pfin
  | @callFreeNew a x f c p1 p2 p3 p4 p5 p6 =>
    have kh := c5 a; rw [p2] at kh; simp only [hp_idle, hp_take, hp_carving, hp_needPage, hp_havePage, hp_got, hp_takeFailed, hp_retPart, hp_partPush, hp_partUnlock, hp_freeRet, hp_destroying, hp_doneAlloc, hp_doneFree, hp_doneDestroy, reduceCtorEq, false_iff, Option.some.injEq] at kh
    first | assumption | pfin
  | @callFreeRet a x f c b0 rest p1 p2 p3 p4 p5 p6 p7 =>
    have kh := c5 a; rw [p2] at kh; simp only [hp_idle, hp_take, hp_carving, hp_needPage, hp_havePage, hp_got, hp_takeFailed, hp_retPart, hp_partPush, hp_partUnlock, hp_freeRet, hp_destroying, hp_doneAlloc, hp_doneFree, hp_doneDestroy, reduceCtorEq, false_iff, Option.some.injEq] at kh
    first | assumption | pfin
  | @pushBucketFree a b p1 =>
    have kh := c5 a; rw [p1] at kh; simp only [hp_idle, hp_take, hp_carving, hp_needPage, hp_havePage, hp_got, hp_takeFailed, hp_retPart, hp_partPush, hp_partUnlock, hp_freeRet, hp_destroying, hp_doneAlloc, hp_doneFree, hp_doneDestroy, reduceCtorEq, false_iff, Option.some.injEq] at kh
    first | assumption | pfin
  | @retFree a p1 =>
    have kh := c5 a; rw [p1] at kh; simp only [hp_idle, hp_take, hp_carving, hp_needPage, hp_havePage, hp_got, hp_takeFailed, hp_retPart, hp_partPush, hp_partUnlock, hp_freeRet, hp_destroying, hp_doneAlloc, hp_doneFree, hp_doneDestroy, reduceCtorEq, false_iff, Option.some.injEq] at kh
    first | assumption | pfin
  | @callDestroy a f c p1 p2 p3 =>
    have kh := c5 a; rw [p2] at kh; simp only [hp_idle, hp_take, hp_carving, hp_needPage, hp_havePage, hp_got, hp_takeFailed, hp_retPart, hp_partPush, hp_partUnlock, hp_freeRet, hp_destroying, hp_doneAlloc, hp_doneFree, hp_doneDestroy, reduceCtorEq, false_iff, Option.some.injEq] at kh
    first | assumption | pfin
  | @pushBucketDestroy a b f c p1 =>
    have kh := c5 a; rw [p1] at kh; simp only [hp_idle, hp_take, hp_carving, hp_needPage, hp_havePage, hp_got, hp_takeFailed, hp_retPart, hp_partPush, hp_partUnlock, hp_freeRet, hp_destroying, hp_doneAlloc, hp_doneFree, hp_doneDestroy, reduceCtorEq, false_iff, Option.some.injEq] at kh
    first | assumption | pfin
  | @pushBucketLast a c p1 =>
    have kh := c5 a; rw [p1] at kh; simp only [hp_idle, hp_take, hp_carving, hp_needPage, hp_havePage, hp_got, hp_takeFailed, hp_retPart, hp_partPush, hp_partUnlock, hp_freeRet, hp_destroying, hp_doneAlloc, hp_doneFree, hp_doneDestroy, reduceCtorEq, false_iff, Option.some.injEq] at kh
    first | assumption | pfin
  | @retDestroy a p1 =>
    have kh := c5 a; rw [p1] at kh; simp only [hp_idle, hp_take, hp_carving, hp_needPage, hp_havePage, hp_got, hp_takeFailed, hp_retPart, hp_partPush, hp_partUnlock, hp_freeRet, hp_destroying, hp_doneAlloc, hp_doneFree, hp_doneDestroy, reduceCtorEq, false_iff, Option.some.injEq] at kh
    first | assumption | pfin
  | @destroyStart  p1 p2 p3 =>
    first | assumption | pfin
  | @relLifo p rest p1 p2 =>
    have kp := c1 p; rw [p2] at kp; simp only [List.mem_cons, true_or, true_iff] at kp
    have kn := c2; rw [p2] at kn; simp only [List.nodup_cons] at kn
    first | assumption | pfin
  | @lifoEmpty  p1 p2 =>
    first | assumption | pfin
  | @relEmpty p rest p1 p2 =>
    have kp := c3 p; rw [p2] at kp; simp only [List.mem_cons, true_or, true_iff] at kp
    have kn := c4; rw [p2] at kn; simp only [List.nodup_cons] at kn
    first | assumption | pfin
  | @destroyEnd  p1 p2 =>
    first | assumption | pfin

theorem pstep_unalloc (P : Params) (hP : P.OK) (s : St) (e : Ev) (s' : St) (h : PInv P s) (hs : Step P s e s') : ∀ p, s'.pown p = .unalloc ↔ s'.npages ≤ p := by
  have c1 := h.lifo; have c2 := h.lifoNd; have c3 := h.empty; have c4 := h.emptyNd; have c5 := h.held; have c6 := h.rel
  have c7 := h.relNd; have c8 := h.unalloc; have c9 := h.lifoRoom; have c10 := h.emptyFull; have c11 := h.heldRoom
  have c12 := h.usedLe
  have := hP.slots_pos
  cases hs with
  | @callInit a p1 p2 p3 =>
    have kh := c5 a; rw [p2] at kh; simp only [hp_idle, hp_take, hp_carving, hp_needPage, hp_havePage, hp_got, hp_takeFailed, hp_retPart, hp_partPush, hp_partUnlock, hp_freeRet, hp_destroying, hp_doneAlloc, hp_doneFree, hp_doneDestroy, reduceCtorEq, false_iff, Option.some.injEq] at kh
    first | assumption | pfin
  | @retInitOk a b p1 p2 =>
    have kh := c5 a; rw [p1] at kh; simp only [hp_idle, hp_take, hp_carving, hp_needPage, hp_havePage, hp_got, hp_takeFailed, hp_retPart, hp_partPush, hp_partUnlock, hp_freeRet, hp_destroying, hp_doneAlloc, hp_doneFree, hp_doneDestroy, reduceCtorEq, false_iff, Option.some.injEq] at kh
    first | assumption | pfin
  | @retInitFail a p1 =>
    have kh := c5 a; rw [p1] at kh; simp only [hp_idle, hp_take, hp_carving, hp_needPage, hp_havePage, hp_got, hp_takeFailed, hp_retPart, hp_partPush, hp_partUnlock, hp_freeRet, hp_destroying, hp_doneAlloc, hp_doneFree, hp_doneDestroy, reduceCtorEq, false_iff, Option.some.injEq] at kh
    first | assumption | pfin
  | @callAllocPop a f x x2 c p1 p2 p3 =>
    have kh := c5 a; rw [p2] at kh; simp only [hp_idle, hp_take, hp_carving, hp_needPage, hp_havePage, hp_got, hp_takeFailed, hp_retPart, hp_partPush, hp_partUnlock, hp_freeRet, hp_destroying, hp_doneAlloc, hp_doneFree, hp_doneDestroy, reduceCtorEq, false_iff, Option.some.injEq] at kh
    first | assumption | pfin
  | @callAllocPrev a f b x p1 p2 p3 =>
    have kh := c5 a; rw [p2] at kh; simp only [hp_idle, hp_take, hp_carving, hp_needPage, hp_havePage, hp_got, hp_takeFailed, hp_retPart, hp_partPush, hp_partUnlock, hp_freeRet, hp_destroying, hp_doneAlloc, hp_doneFree, hp_doneDestroy, reduceCtorEq, false_iff, Option.some.injEq] at kh
    first | assumption | pfin
  | @callAllocTake a x p1 p2 p3 =>
    have kh := c5 a; rw [p2] at kh; simp only [hp_idle, hp_take, hp_carving, hp_needPage, hp_havePage, hp_got, hp_takeFailed, hp_retPart, hp_partPush, hp_partUnlock, hp_freeRet, hp_destroying, hp_doneAlloc, hp_doneFree, hp_doneDestroy, reduceCtorEq, false_iff, Option.some.injEq] at kh
    first | assumption | pfin
  | @retAllocTake a b x p1 p2 =>
    have kh := c5 a; rw [p1] at kh; simp only [hp_idle, hp_take, hp_carving, hp_needPage, hp_havePage, hp_got, hp_takeFailed, hp_retPart, hp_partPush, hp_partUnlock, hp_freeRet, hp_destroying, hp_doneAlloc, hp_doneFree, hp_doneDestroy, reduceCtorEq, false_iff, Option.some.injEq] at kh
    first | assumption | pfin
  | @retAllocFail a p1 =>
    have kh := c5 a; rw [p1] at kh; simp only [hp_idle, hp_take, hp_carving, hp_needPage, hp_havePage, hp_got, hp_takeFailed, hp_retPart, hp_partPush, hp_partUnlock, hp_freeRet, hp_destroying, hp_doneAlloc, hp_doneFree, hp_doneDestroy, reduceCtorEq, false_iff, Option.some.injEq] at kh
    first | assumption | pfin
  | @retAllocDone a x p1 =>
    have kh := c5 a; rw [p1] at kh; simp only [hp_idle, hp_take, hp_carving, hp_needPage, hp_havePage, hp_got, hp_takeFailed, hp_retPart, hp_partPush, hp_partUnlock, hp_freeRet, hp_destroying, hp_doneAlloc, hp_doneFree, hp_doneDestroy, reduceCtorEq, false_iff, Option.some.injEq] at kh
    first | assumption | pfin
  | @popBucketSome a pu b rest p1 p2 =>
    have kh := c5 a; rw [p1] at kh; simp only [hp_idle, hp_take, hp_carving, hp_needPage, hp_havePage, hp_got, hp_takeFailed, hp_retPart, hp_partPush, hp_partUnlock, hp_freeRet, hp_destroying, hp_doneAlloc, hp_doneFree, hp_doneDestroy, reduceCtorEq, false_iff, Option.some.injEq] at kh
    first | assumption | pfin
  | @popBucketNone a pu p1 p2 =>
    have kh := c5 a; rw [p1] at kh; simp only [hp_idle, hp_take, hp_carving, hp_needPage, hp_havePage, hp_got, hp_takeFailed, hp_retPart, hp_partPush, hp_partUnlock, hp_freeRet, hp_destroying, hp_doneAlloc, hp_doneFree, hp_doneDestroy, reduceCtorEq, false_iff, Option.some.injEq] at kh
    first | assumption | pfin
  | @popPageSome a pu acc p rest p1 p2 =>
    have kh := c5 a; rw [p1] at kh; simp only [hp_idle, hp_take, hp_carving, hp_needPage, hp_havePage, hp_got, hp_takeFailed, hp_retPart, hp_partPush, hp_partUnlock, hp_freeRet, hp_destroying, hp_doneAlloc, hp_doneFree, hp_doneDestroy, reduceCtorEq, false_iff, Option.some.injEq] at kh
    have kp := c1 p; rw [p2] at kp; simp only [List.mem_cons, true_or, true_iff] at kp
    have kn := c2; rw [p2] at kn; simp only [List.nodup_cons] at kn
    first | assumption | pfin
  | @popPageNone a pu acc p1 p2 =>
    have kh := c5 a; rw [p1] at kh; simp only [hp_idle, hp_take, hp_carving, hp_needPage, hp_havePage, hp_got, hp_takeFailed, hp_retPart, hp_partPush, hp_partUnlock, hp_freeRet, hp_destroying, hp_doneAlloc, hp_doneFree, hp_doneDestroy, reduceCtorEq, false_iff, Option.some.injEq] at kh
    first | assumption | pfin
  | @allocOk a pu acc p1 =>
    have kh := c5 a; rw [p1] at kh; simp only [hp_idle, hp_take, hp_carving, hp_needPage, hp_havePage, hp_got, hp_takeFailed, hp_retPart, hp_partPush, hp_partUnlock, hp_freeRet, hp_destroying, hp_doneAlloc, hp_doneFree, hp_doneDestroy, reduceCtorEq, false_iff, Option.some.injEq] at kh
    first | assumption | pfin
  | @allocFailEmpty a pu p1 =>
    have kh := c5 a; rw [p1] at kh; simp only [hp_idle, hp_take, hp_carving, hp_needPage, hp_havePage, hp_got, hp_takeFailed, hp_retPart, hp_partPush, hp_partUnlock, hp_freeRet, hp_destroying, hp_doneAlloc, hp_doneFree, hp_doneDestroy, reduceCtorEq, false_iff, Option.some.injEq] at kh
    first | assumption | pfin
  | @allocFailPart a pu x acc p1 =>
    have kh := c5 a; rw [p1] at kh; simp only [hp_idle, hp_take, hp_carving, hp_needPage, hp_havePage, hp_got, hp_takeFailed, hp_retPart, hp_partPush, hp_partUnlock, hp_freeRet, hp_destroying, hp_doneAlloc, hp_doneFree, hp_doneDestroy, reduceCtorEq, false_iff, Option.some.injEq] at kh
    first | assumption | pfin
  | @carveLifo a pu acc p p1 p2 p3 =>
    have kh := c5 a; rw [p1] at kh; simp only [hp_idle, hp_take, hp_carving, hp_needPage, hp_havePage, hp_got, hp_takeFailed, hp_retPart, hp_partPush, hp_partUnlock, hp_freeRet, hp_destroying, hp_doneAlloc, hp_doneFree, hp_doneDestroy, reduceCtorEq, false_iff, Option.some.injEq] at kh
    first | assumption | pfin
  | @carveEmpty a pu acc p p1 p2 p3 =>
    have kh := c5 a; rw [p1] at kh; simp only [hp_idle, hp_take, hp_carving, hp_needPage, hp_havePage, hp_got, hp_takeFailed, hp_retPart, hp_partPush, hp_partUnlock, hp_freeRet, hp_destroying, hp_doneAlloc, hp_doneFree, hp_doneDestroy, reduceCtorEq, false_iff, Option.some.injEq] at kh
    first | assumption | pfin
  | @lockPartEmpty a k b p1 p2 p3 =>
    have kh := c5 a; rw [p1] at kh; simp only [hp_idle, hp_take, hp_carving, hp_needPage, hp_havePage, hp_got, hp_takeFailed, hp_retPart, hp_partPush, hp_partUnlock, hp_freeRet, hp_destroying, hp_doneAlloc, hp_doneFree, hp_doneDestroy, reduceCtorEq, false_iff, Option.some.injEq] at kh
    first | assumption | pfin
  | @lockPartSmall a k b p1 p2 p3 p4 =>
    have kh := c5 a; rw [p1] at kh; simp only [hp_idle, hp_take, hp_carving, hp_needPage, hp_havePage, hp_got, hp_takeFailed, hp_retPart, hp_partPush, hp_partUnlock, hp_freeRet, hp_destroying, hp_doneAlloc, hp_doneFree, hp_doneDestroy, reduceCtorEq, false_iff, Option.some.injEq] at kh
    first | assumption | pfin
  | @lockPartFull a k b p1 p2 p3 p4 =>
    have kh := c5 a; rw [p1] at kh; simp only [hp_idle, hp_take, hp_carving, hp_needPage, hp_havePage, hp_got, hp_takeFailed, hp_retPart, hp_partPush, hp_partUnlock, hp_freeRet, hp_destroying, hp_doneAlloc, hp_doneFree, hp_doneDestroy, reduceCtorEq, false_iff, Option.some.injEq] at kh
    first | assumption | pfin
  | @pushBucketPart a k b p1 =>
    have kh := c5 a; rw [p1] at kh; simp only [hp_idle, hp_take, hp_carving, hp_needPage, hp_havePage, hp_got, hp_takeFailed, hp_retPart, hp_partPush, hp_partUnlock, hp_freeRet, hp_destroying, hp_doneAlloc, hp_doneFree, hp_doneDestroy, reduceCtorEq, false_iff, Option.some.injEq] at kh
    first | assumption | pfin
  | @unlockPart a k p1 =>
    have kh := c5 a; rw [p1] at kh; simp only [hp_idle, hp_take, hp_carving, hp_needPage, hp_havePage, hp_got, hp_takeFailed, hp_retPart, hp_partPush, hp_partUnlock, hp_freeRet, hp_destroying, hp_doneAlloc, hp_doneFree, hp_doneDestroy, reduceCtorEq, false_iff, Option.some.injEq] at kh
    first | assumption | pfin
  | @callFreePush a x f c p1 p2 p3 p4 p5 =>
    have kh := c5 a; rw [p2] at kh; simp only [hp_idle, hp_take, hp_carving, hp_needPage, hp_havePage, hp_got, hp_takeFailed, hp_retPart, hp_partPush, hp_partUnlock, hp_freeRet, hp_destroying, hp_doneAlloc, hp_doneFree, hp_doneDestroy, reduceCtorEq, false_iff, Option.some.injEq] at kh
    first | assumption | pfin
  | @callFreeNew a x f c p1 p2 p3 p4 p5 p6 =>
    have kh := c5 a; rw [p2] at kh; simp only [hp_idle, hp_take, hp_carving, hp_needPage, hp_havePage, hp_got, hp_takeFailed, hp_retPart, hp_partPush, hp_partUnlock, hp_freeRet, hp_destroying, hp_doneAlloc, hp_doneFree, hp_doneDestroy, reduceCtorEq, false_iff, Option.some.injEq] at kh
    first | assumption | pfin
  | @callFreeRet a x f c b0 rest p1 p2 p3 p4 p5 p6 p7 =>
    have kh := c5 a; rw [p2] at kh; simp only [hp_idle, hp_take, hp_carving, hp_needPage, hp_havePage, hp_got, hp_takeFailed, hp_retPart, hp_partPush, hp_partUnlock, hp_freeRet, hp_destroying, hp_doneAlloc, hp_doneFree, hp_doneDestroy, reduceCtorEq, false_iff, Option.some.injEq] at kh
    first | assumption | pfin
  | @pushBucketFree a b p1 =>
    have kh := c5 a; rw [p1] at kh; simp only [hp_idle, hp_take, hp_carving, hp_needPage, hp_havePage, hp_got, hp_takeFailed, hp_retPart, hp_partPush, hp_partUnlock, hp_freeRet, hp_destroying, hp_doneAlloc, hp_doneFree, hp_doneDestroy, reduceCtorEq, false_iff, Option.some.injEq] at kh
    first | assumption | pfin
  | @retFree a p1 =>
    have kh := c5 a; rw [p1] at kh; simp only [hp_idle, hp_take, hp_carving, hp_needPage, hp_havePage, hp_got, hp_takeFailed, hp_retPart, hp_partPush, hp_partUnlock, hp_freeRet, hp_destroying, hp_doneAlloc, hp_doneFree, hp_doneDestroy, reduceCtorEq, false_iff, Option.some.injEq] at kh
    first | assumption | pfin
  | @callDestroy a f c p1 p2 p3 =>
    have kh := c5 a; rw [p2] at kh; simp only [hp_idle, hp_take, hp_carving, hp_needPage, hp_havePage, hp_got, hp_takeFailed, hp_retPart, hp_partPush, hp_partUnlock, hp_freeRet, hp_destroying, hp_doneAlloc, hp_doneFree, hp_doneDestroy, reduceCtorEq, false_iff, Option.some.injEq] at kh
    first | assumption | pfin
  | @pushBucketDestroy a b f c p1 =>
    have kh := c5 a; rw [p1] at kh; simp only [hp_idle, hp_take, hp_carving, hp_needPage, hp_havePage, hp_got, hp_takeFailed, hp_retPart, hp_partPush, hp_partUnlock, hp_freeRet, hp_destroying, hp_doneAlloc, hp_doneFree, hp_doneDestroy, reduceCtorEq, false_iff, Option.some.injEq] at kh
    first | assumption | pfin
  | @pushBucketLast a c p1 =>
    have kh := c5 a; rw [p1] at kh; simp only [hp_idle, hp_take, hp_carving, hp_needPage, hp_havePage, hp_got, hp_takeFailed, hp_retPart, hp_partPush, hp_partUnlock, hp_freeRet, hp_destroying, hp_doneAlloc, hp_doneFree, hp_doneDestroy, reduceCtorEq, false_iff, Option.some.injEq] at kh
    first | assumption | pfin
  | @retDestroy a p1 =>
    have kh := c5 a; rw [p1] at kh; simp only [hp_idle, hp_take, hp_carving, hp_needPage, hp_havePage, hp_got, hp_takeFailed, hp_retPart, hp_partPush, hp_partUnlock, hp_freeRet, hp_destroying, hp_doneAlloc, hp_doneFree, hp_doneDestroy, reduceCtorEq, false_iff, Option.some.injEq] at kh
    first | assumption | pfin
  | @destroyStart  p1 p2 p3 =>
    first | assumption | pfin
  | @relLifo p rest p1 p2 =>
    have kp := c1 p; rw [p2] at kp; simp only [List.mem_cons, true_or, true_iff] at kp
    have kn := c2; rw [p2] at kn; simp only [List.nodup_cons] at kn
    first | assumption | pfin
  | @lifoEmpty  p1 p2 =>
    first | assumption | pfin
  | @relEmpty p rest p1 p2 =>
    have kp := c3 p; rw [p2] at kp; simp only [List.mem_cons, true_or, true_iff] at kp
    have kn := c4; rw [p2] at kn; simp only [List.nodup_cons] at kn
    first | assumption | pfin
  | @destroyEnd  p1 p2 =>
    first | assumption | pfin

theorem pstep_lifoRoom (P : Params) (hP : P.OK) (s : St) (e : Ev) (s' : St) (h : PInv P s) (hs : Step P s e s') : ∀ p, s'.pown p = .lifo → s'.used p < P.slots := by
  have c1 := h.lifo; have c2 := h.lifoNd; have c3 := h.empty; have c4 := h.emptyNd; have c5 := h.held; have c6 := h.rel
  have c7 := h.relNd; have c8 := h.unalloc; have c9 := h.lifoRoom; have c10 := h.emptyFull; have c11 := h.heldRoom
  have c12 := h.usedLe
  have := hP.slots_pos
  cases hs with
  | @callInit a p1 p2 p3 =>
    have kh := c5 a; rw [p2] at kh; simp only [hp_idle, hp_take, hp_carving, hp_needPage, hp_havePage, hp_got, hp_takeFailed, hp_retPart, hp_partPush, hp_partUnlock, hp_freeRet, hp_destroying, hp_doneAlloc, hp_doneFree, hp_doneDestroy, reduceCtorEq, false_iff, Option.some.injEq] at kh
    first | assumption | pfin
  | @retInitOk a b p1 p2 =>
    have kh := c5 a; rw [p1] at kh; simp only [hp_idle, hp_take, hp_carving, hp_needPage, hp_havePage, hp_got, hp_takeFailed, hp_retPart, hp_partPush, hp_partUnlock, hp_freeRet, hp_destroying, hp_doneAlloc, hp_doneFree, hp_doneDestroy, reduceCtorEq, false_iff, Option.some.injEq] at kh
    first | assumption | pfin
  | @retInitFail a p1 =>
    have kh := c5 a; rw [p1] at kh; simp only [hp_idle, hp_take, hp_carving, hp_needPage, hp_havePage, hp_got, hp_takeFailed, hp_retPart, hp_partPush, hp_partUnlock, hp_freeRet, hp_destroying, hp_doneAlloc, hp_doneFree, hp_doneDestroy, reduceCtorEq, false_iff, Option.some.injEq] at kh
    first | assumption | pfin
  | @callAllocPop a f x x2 c p1 p2 p3 =>
    have kh := c5 a; rw [p2] at kh; simp only [hp_idle, hp_take, hp_carving, hp_needPage, hp_havePage, hp_got, hp_takeFailed, hp_retPart, hp_partPush, hp_partUnlock, hp_freeRet, hp_destroying, hp_doneAlloc, hp_doneFree, hp_doneDestroy, reduceCtorEq, false_iff, Option.some.injEq] at kh
    first | assumption | pfin
  | @callAllocPrev a f b x p1 p2 p3 =>
    have kh := c5 a; rw [p2] at kh; simp only [hp_idle, hp_take, hp_carving, hp_needPage, hp_havePage, hp_got, hp_takeFailed, hp_retPart, hp_partPush, hp_partUnlock, hp_freeRet, hp_destroying, hp_doneAlloc, hp_doneFree, hp_doneDestroy, reduceCtorEq, false_iff, Option.some.injEq] at kh
    first | assumption | pfin
  | @callAllocTake a x p1 p2 p3 =>
    have kh := c5 a; rw [p2] at kh; simp only [hp_idle, hp_take, hp_carving, hp_needPage, hp_havePage, hp_got, hp_takeFailed, hp_retPart, hp_partPush, hp_partUnlock, hp_freeRet, hp_destroying, hp_doneAlloc, hp_doneFree, hp_doneDestroy, reduceCtorEq, false_iff, Option.some.injEq] at kh
    first | assumption | pfin
  | @retAllocTake a b x p1 p2 =>
    have kh := c5 a; rw [p1] at kh; simp only [hp_idle, hp_take, hp_carving, hp_needPage, hp_havePage, hp_got, hp_takeFailed, hp_retPart, hp_partPush, hp_partUnlock, hp_freeRet, hp_destroying, hp_doneAlloc, hp_doneFree, hp_doneDestroy, reduceCtorEq, false_iff, Option.some.injEq] at kh
    first | assumption | pfin
  | @retAllocFail a p1 =>
    have kh := c5 a; rw [p1] at kh; simp only [hp_idle, hp_take, hp_carving, hp_needPage, hp_havePage, hp_got, hp_takeFailed, hp_retPart, hp_partPush, hp_partUnlock, hp_freeRet, hp_destroying, hp_doneAlloc, hp_doneFree, hp_doneDestroy, reduceCtorEq, false_iff, Option.some.injEq] at kh
    first | assumption | pfin
  | @retAllocDone a x p1 =>
    have kh := c5 a; rw [p1] at kh; simp only [hp_idle, hp_take, hp_carving, hp_needPage, hp_havePage, hp_got, hp_takeFailed, hp_retPart, hp_partPush, hp_partUnlock, hp_freeRet, hp_destroying, hp_doneAlloc, hp_doneFree, hp_doneDestroy, reduceCtorEq, false_iff, Option.some.injEq] at kh
    first | assumption | pfin
  | @popBucketSome a pu b rest p1 p2 =>
    have kh := c5 a; rw [p1] at kh; simp only [hp_idle, hp_take, hp_carving, hp_needPage, hp_havePage, hp_got, hp_takeFailed, hp_retPart, hp_partPush, hp_partUnlock, hp_freeRet, hp_destroying, hp_doneAlloc, hp_doneFree, hp_doneDestroy, reduceCtorEq, false_iff, Option.some.injEq] at kh
    first | assumption | pfin
  | @popBucketNone a pu p1 p2 =>
    have kh := c5 a; rw [p1] at kh; simp only [hp_idle, hp_take, hp_carving, hp_needPage, hp_havePage, hp_got, hp_takeFailed, hp_retPart, hp_partPush, hp_partUnlock, hp_freeRet, hp_destroying, hp_doneAlloc, hp_doneFree, hp_doneDestroy, reduceCtorEq, false_iff, Option.some.injEq] at kh
    first | assumption | pfin
  | @popPageSome a pu acc p rest p1 p2 =>
    have kh := c5 a; rw [p1] at kh; simp only [hp_idle, hp_take, hp_carving, hp_needPage, hp_havePage, hp_got, hp_takeFailed, hp_retPart, hp_partPush, hp_partUnlock, hp_freeRet, hp_destroying, hp_doneAlloc, hp_doneFree, hp_doneDestroy, reduceCtorEq, false_iff, Option.some.injEq] at kh
    have kp := c1 p; rw [p2] at kp; simp only [List.mem_cons, true_or, true_iff] at kp
    have kn := c2; rw [p2] at kn; simp only [List.nodup_cons] at kn
    first | assumption | pfin
  | @popPageNone a pu acc p1 p2 =>
    have kh := c5 a; rw [p1] at kh; simp only [hp_idle, hp_take, hp_carving, hp_needPage, hp_havePage, hp_got, hp_takeFailed, hp_retPart, hp_partPush, hp_partUnlock, hp_freeRet, hp_destroying, hp_doneAlloc, hp_doneFree, hp_doneDestroy, reduceCtorEq, false_iff, Option.some.injEq] at kh
    first | assumption | pfin
  | @allocOk a pu acc p1 =>
    have kh := c5 a; rw [p1] at kh; simp only [hp_idle, hp_take, hp_carving, hp_needPage, hp_havePage, hp_got, hp_takeFailed, hp_retPart, hp_partPush, hp_partUnlock, hp_freeRet, hp_destroying, hp_doneAlloc, hp_doneFree, hp_doneDestroy, reduceCtorEq, false_iff, Option.some.injEq] at kh
    first | assumption | pfin
  | @allocFailEmpty a pu p1 =>
    have kh := c5 a; rw [p1] at kh; simp only [hp_idle, hp_take, hp_carving, hp_needPage, hp_havePage, hp_got, hp_takeFailed, hp_retPart, hp_partPush, hp_partUnlock, hp_freeRet, hp_destroying, hp_doneAlloc, hp_doneFree, hp_doneDestroy, reduceCtorEq, false_iff, Option.some.injEq] at kh
    first | assumption | pfin
  | @allocFailPart a pu x acc p1 =>
    have kh := c5 a; rw [p1] at kh; simp only [hp_idle, hp_take, hp_carving, hp_needPage, hp_havePage, hp_got, hp_takeFailed, hp_retPart, hp_partPush, hp_partUnlock, hp_freeRet, hp_destroying, hp_doneAlloc, hp_doneFree, hp_doneDestroy, reduceCtorEq, false_iff, Option.some.injEq] at kh
    first | assumption | pfin
  | @carveLifo a pu acc p p1 p2 p3 =>
    have kh := c5 a; rw [p1] at kh; simp only [hp_idle, hp_take, hp_carving, hp_needPage, hp_havePage, hp_got, hp_takeFailed, hp_retPart, hp_partPush, hp_partUnlock, hp_freeRet, hp_destroying, hp_doneAlloc, hp_doneFree, hp_doneDestroy, reduceCtorEq, false_iff, Option.some.injEq] at kh
    first | assumption | pfin
  | @carveEmpty a pu acc p p1 p2 p3 =>
    have kh := c5 a; rw [p1] at kh; simp only [hp_idle, hp_take, hp_carving, hp_needPage, hp_havePage, hp_got, hp_takeFailed, hp_retPart, hp_partPush, hp_partUnlock, hp_freeRet, hp_destroying, hp_doneAlloc, hp_doneFree, hp_doneDestroy, reduceCtorEq, false_iff, Option.some.injEq] at kh
    first | assumption | pfin
  | @lockPartEmpty a k b p1 p2 p3 =>
    have kh := c5 a; rw [p1] at kh; simp only [hp_idle, hp_take, hp_carving, hp_needPage, hp_havePage, hp_got, hp_takeFailed, hp_retPart, hp_partPush, hp_partUnlock, hp_freeRet, hp_destroying, hp_doneAlloc, hp_doneFree, hp_doneDestroy, reduceCtorEq, false_iff, Option.some.injEq] at kh
    first | assumption | pfin
  | @lockPartSmall a k b p1 p2 p3 p4 =>
    have kh := c5 a; rw [p1] at kh; simp only [hp_idle, hp_take, hp_carving, hp_needPage, hp_havePage, hp_got, hp_takeFailed, hp_retPart, hp_partPush, hp_partUnlock, hp_freeRet, hp_destroying, hp_doneAlloc, hp_doneFree, hp_doneDestroy, reduceCtorEq, false_iff, Option.some.injEq] at kh
    first | assumption | pfin
  | @lockPartFull a k b p1 p2 p3 p4 =>
    have kh := c5 a; rw [p1] at kh; simp only [hp_idle, hp_take, hp_carving, hp_needPage, hp_havePage, hp_got, hp_takeFailed, hp_retPart, hp_partPush, hp_partUnlock, hp_freeRet, hp_destroying, hp_doneAlloc, hp_doneFree, hp_doneDestroy, reduceCtorEq, false_iff, Option.some.injEq] at kh
    first | assumption | pfin
  | @pushBucketPart a k b p1 =>
    have kh := c5 a; rw [p1] at kh; simp only [hp_idle, hp_take, hp_carving, hp_needPage, hp_havePage, hp_got, hp_takeFailed, hp_retPart, hp_partPush, hp_partUnlock, hp_freeRet, hp_destroying, hp_doneAlloc, hp_doneFree, hp_doneDestroy, reduceCtorEq, false_iff, Option.some.injEq] at kh
    first | assumption | pfin
  | @unlockPart a k p1 =>
    have kh := c5 a; rw [p1] at kh; simp only [hp_idle, hp_take, hp_carving, hp_needPage, hp_havePage, hp_got, hp_takeFailed, hp_retPart, hp_partPush, hp_partUnlock, hp_freeRet, hp_destroying, hp_doneAlloc, hp_doneFree, hp_doneDestroy, reduceCtorEq, false_iff, Option.some.injEq] at kh
    first | assumption | pfin
  | @callFreePush a x f c p1 p2 p3 p4 p5 =>
    have kh := c5 a; rw [p2] at kh; simp only [hp_idle, hp_take, hp_carving, hp_needPage, hp_havePage, hp_got, hp_takeFailed, hp_retPart, hp_partPush, hp_partUnlock, hp_freeRet, hp_destroying, hp_doneAlloc, hp_doneFree, hp_doneDestroy, reduceCtorEq, false_iff, Option.some.injEq] at kh
    first | assumption | pfin
  | @callFreeNew a x f c p1 p2 p3 p4 p5 p6 =>
    have kh := c5 a; rw [p2] at kh; simp only [hp_idle, hp_take, hp_carving, hp_needPage, hp_havePage, hp_got, hp_takeFailed, hp_retPart, hp_partPush, hp_partUnlock, hp_freeRet, hp_destroying, hp_doneAlloc, hp_doneFree, hp_doneDestroy, reduceCtorEq, false_iff, Option.some.injEq] at kh
    first | assumption | pfin
  | @callFreeRet a x f c b0 rest p1 p2 p3 p4 p5 p6 p7 =>
    have kh := c5 a; rw [p2] at kh; simp only [hp_idle, hp_take, hp_carving, hp_needPage, hp_havePage, hp_got, hp_takeFailed, hp_retPart, hp_partPush, hp_partUnlock, hp_freeRet, hp_destroying, hp_doneAlloc, hp_doneFree, hp_doneDestroy, reduceCtorEq, false_iff, Option.some.injEq] at kh
    first | assumption | pfin
  | @pushBucketFree a b p1 =>
    have kh := c5 a; rw [p1] at kh; simp only [hp_idle, hp_take, hp_carving, hp_needPage, hp_havePage, hp_got, hp_takeFailed, hp_retPart, hp_partPush, hp_partUnlock, hp_freeRet, hp_destroying, hp_doneAlloc, hp_doneFree, hp_doneDestroy, reduceCtorEq, false_iff, Option.some.injEq] at kh
    first | assumption | pfin
  | @retFree a p1 =>
    have kh := c5 a; rw [p1] at kh; simp only [hp_idle, hp_take, hp_carving, hp_needPage, hp_havePage, hp_got, hp_takeFailed, hp_retPart, hp_partPush, hp_partUnlock, hp_freeRet, hp_destroying, hp_doneAlloc, hp_doneFree, hp_doneDestroy, reduceCtorEq, false_iff, Option.some.injEq] at kh
    first | assumption | pfin
  | @callDestroy a f c p1 p2 p3 =>
    have kh := c5 a; rw [p2] at kh; simp only [hp_idle, hp_take, hp_carving, hp_needPage, hp_havePage, hp_got, hp_takeFailed, hp_retPart, hp_partPush, hp_partUnlock, hp_freeRet, hp_destroying, hp_doneAlloc, hp_doneFree, hp_doneDestroy, reduceCtorEq, false_iff, Option.some.injEq] at kh
    first | assumption | pfin
  | @pushBucketDestroy a b f c p1 =>
    have kh := c5 a; rw [p1] at kh; simp only [hp_idle, hp_take, hp_carving, hp_needPage, hp_havePage, hp_got, hp_takeFailed, hp_retPart, hp_partPush, hp_partUnlock, hp_freeRet, hp_destroying, hp_doneAlloc, hp_doneFree, hp_doneDestroy, reduceCtorEq, false_iff, Option.some.injEq] at kh
    first | assumption | pfin
  | @pushBucketLast a c p1 =>
    have kh := c5 a; rw [p1] at kh; simp only [hp_idle, hp_take, hp_carving, hp_needPage, hp_havePage, hp_got, hp_takeFailed, hp_retPart, hp_partPush, hp_partUnlock, hp_freeRet, hp_destroying, hp_doneAlloc, hp_doneFree, hp_doneDestroy, reduceCtorEq, false_iff, Option.some.injEq] at kh
    first | assumption | pfin
  | @retDestroy a p1 =>
    have kh := c5 a; rw [p1] at kh; simp only [hp_idle, hp_take, hp_carving, hp_needPage, hp_havePage, hp_got, hp_takeFailed, hp_retPart, hp_partPush, hp_partUnlock, hp_freeRet, hp_destroying, hp_doneAlloc, hp_doneFree, hp_doneDestroy, reduceCtorEq, false_iff, Option.some.injEq] at kh
    first | assumption | pfin
  | @destroyStart  p1 p2 p3 =>
    first | assumption | pfin
  | @relLifo p rest p1 p2 =>
    have kp := c1 p; rw [p2] at kp; simp only [List.mem_cons, true_or, true_iff] at kp
    have kn := c2; rw [p2] at kn; simp only [List.nodup_cons] at kn
    first | assumption | pfin
  | @lifoEmpty  p1 p2 =>
    first | assumption | pfin
  | @relEmpty p rest p1 p2 =>
    have kp := c3 p; rw [p2] at kp; simp only [List.mem_cons, true_or, true_iff] at kp
    have kn := c4; rw [p2] at kn; simp only [List.nodup_cons] at kn
    first | assumption | pfin
  | @destroyEnd  p1 p2 =>
    first | assumption | pfin

theorem pstep_emptyFull (P : Params) (hP : P.OK) (s : St) (e : Ev) (s' : St) (h : PInv P s) (hs : Step P s e s') : ∀ p, s'.pown p = .empty → s'.used p = P.slots := by
  have c1 := h.lifo; have c2 := h.lifoNd; have c3 := h.empty; have c4 := h.emptyNd; have c5 := h.held; have c6 := h.rel
  have c7 := h.relNd; have c8 := h.unalloc; have c9 := h.lifoRoom; have c10 := h.emptyFull; have c11 := h.heldRoom
  have c12 := h.usedLe
  have := hP.slots_pos
  cases hs with
  | @callInit a p1 p2 p3 =>
    have kh := c5 a; rw [p2] at kh; simp only [hp_idle, hp_take, hp_carving, hp_needPage, hp_havePage, hp_got, hp_takeFailed, hp_retPart, hp_partPush, hp_partUnlock, hp_freeRet, hp_destroying, hp_doneAlloc, hp_doneFree, hp_doneDestroy, reduceCtorEq, false_iff, Option.some.injEq] at kh
    first | assumption | pfin
  | @retInitOk a b p1 p2 =>
    have kh := c5 a; rw [p1] at kh; simp only [hp_idle, hp_take, hp_carving, hp_needPage, hp_havePage, hp_got, hp_takeFailed, hp_retPart, hp_partPush, hp_partUnlock, hp_freeRet, hp_destroying, hp_doneAlloc, hp_doneFree, hp_doneDestroy, reduceCtorEq, false_iff, Option.some.injEq] at kh
    first | assumption | pfin
  | @retInitFail a p1 =>
    have kh := c5 a; rw [p1] at kh; simp only [hp_idle, hp_take, hp_carving, hp_needPage, hp_havePage, hp_got, hp_takeFailed, hp_retPart, hp_partPush, hp_partUnlock, hp_freeRet, hp_destroying, hp_doneAlloc, hp_doneFree, hp_doneDestroy, reduceCtorEq, false_iff, Option.some.injEq] at kh
    first | assumption | pfin
  | @callAllocPop a f x x2 c p1 p2 p3 =>
    have kh := c5 a; rw [p2] at kh; simp only [hp_idle, hp_take, hp_carving, hp_needPage, hp_havePage, hp_got, hp_takeFailed, hp_retPart, hp_partPush, hp_partUnlock, hp_freeRet, hp_destroying, hp_doneAlloc, hp_doneFree, hp_doneDestroy, reduceCtorEq, false_iff, Option.some.injEq] at kh
    first | assumption | pfin
  | @callAllocPrev a f b x p1 p2 p3 =>
    have kh := c5 a; rw [p2] at kh; simp only [hp_idle, hp_take, hp_carving, hp_needPage, hp_havePage, hp_got, hp_takeFailed, hp_retPart, hp_partPush, hp_partUnlock, hp_freeRet, hp_destroying, hp_doneAlloc, hp_doneFree, hp_doneDestroy, reduceCtorEq, false_iff, Option.some.injEq] at kh
    first | assumption | pfin
  | @callAllocTake a x p1 p2 p3 =>
    have kh := c5 a; rw [p2] at kh; simp only [hp_idle, hp_take, hp_carving, hp_needPage, hp_havePage, hp_got, hp_takeFailed, hp_retPart, hp_partPush, hp_partUnlock, hp_freeRet, hp_destroying, hp_doneAlloc, hp_doneFree, hp_doneDestroy, reduceCtorEq, false_iff, Option.some.injEq] at kh
    first | assumption | pfin
  | @retAllocTake a b x p1 p2 =>
    have kh := c5 a; rw [p1] at kh; simp only [hp_idle, hp_take, hp_carving, hp_needPage, hp_havePage, hp_got, hp_takeFailed, hp_retPart, hp_partPush, hp_partUnlock, hp_freeRet, hp_destroying, hp_doneAlloc, hp_doneFree, hp_doneDestroy, reduceCtorEq, false_iff, Option.some.injEq] at kh
    first | assumption | pfin
  | @retAllocFail a p1 =>
    have kh := c5 a; rw [p1] at kh; simp only [hp_idle, hp_take, hp_carving, hp_needPage, hp_havePage, hp_got, hp_takeFailed, hp_retPart, hp_partPush, hp_partUnlock, hp_freeRet, hp_destroying, hp_doneAlloc, hp_doneFree, hp_doneDestroy, reduceCtorEq, false_iff, Option.some.injEq] at kh
    first | assumption | pfin
  | @retAllocDone a x p1 =>
    have kh := c5 a; rw [p1] at kh; simp only [hp_idle, hp_take, hp_carving, hp_needPage, hp_havePage, hp_got, hp_takeFailed, hp_retPart, hp_partPush, hp_partUnlock, hp_freeRet, hp_destroying, hp_doneAlloc, hp_doneFree, hp_doneDestroy, reduceCtorEq, false_iff, Option.some.injEq] at kh
    first | assumption | pfin
  | @popBucketSome a pu b rest p1 p2 =>
    have kh := c5 a; rw [p1] at kh; simp only [hp_idle, hp_take, hp_carving, hp_needPage, hp_havePage, hp_got, hp_takeFailed, hp_retPart, hp_partPush, hp_partUnlock, hp_freeRet, hp_destroying, hp_doneAlloc, hp_doneFree, hp_doneDestroy, reduceCtorEq, false_iff, Option.some.injEq] at kh
    first | assumption | pfin
  | @popBucketNone a pu p1 p2 =>
    have kh := c5 a; rw [p1] at kh; simp only [hp_idle, hp_take, hp_carving, hp_needPage, hp_havePage, hp_got, hp_takeFailed, hp_retPart, hp_partPush, hp_partUnlock, hp_freeRet, hp_destroying, hp_doneAlloc, hp_doneFree, hp_doneDestroy, reduceCtorEq, false_iff, Option.some.injEq] at kh
    first | assumption | pfin
  | @popPageSome a pu acc p rest p1 p2 =>
    have kh := c5 a; rw [p1] at kh; simp only [hp_idle, hp_take, hp_carving, hp_needPage, hp_havePage, hp_got, hp_takeFailed, hp_retPart, hp_partPush, hp_partUnlock, hp_freeRet, hp_destroying, hp_doneAlloc, hp_doneFree, hp_doneDestroy, reduceCtorEq, false_iff, Option.some.injEq] at kh
    have kp := c1 p; rw [p2] at kp; simp only [List.mem_cons, true_or, true_iff] at kp
    have kn := c2; rw [p2] at kn; simp only [List.nodup_cons] at kn
    first | assumption | pfin
  | @popPageNone a pu acc p1 p2 =>
    have kh := c5 a; rw [p1] at kh; simp only [hp_idle, hp_take, hp_carving, hp_needPage, hp_havePage, hp_got, hp_takeFailed, hp_retPart, hp_partPush, hp_partUnlock, hp_freeRet, hp_destroying, hp_doneAlloc, hp_doneFree, hp_doneDestroy, reduceCtorEq, false_iff, Option.some.injEq] at kh
    first | assumption | pfin
  | @allocOk a pu acc p1 =>
    have kh := c5 a; rw [p1] at kh; simp only [hp_idle, hp_take, hp_carving, hp_needPage, hp_havePage, hp_got, hp_takeFailed, hp_retPart, hp_partPush, hp_partUnlock, hp_freeRet, hp_destroying, hp_doneAlloc, hp_doneFree, hp_doneDestroy, reduceCtorEq, false_iff, Option.some.injEq] at kh
    first | assumption | pfin
  | @allocFailEmpty a pu p1 =>
    have kh := c5 a; rw [p1] at kh; simp only [hp_idle, hp_take, hp_carving, hp_needPage, hp_havePage, hp_got, hp_takeFailed, hp_retPart, hp_partPush, hp_partUnlock, hp_freeRet, hp_destroying, hp_doneAlloc, hp_doneFree, hp_doneDestroy, reduceCtorEq, false_iff, Option.some.injEq] at kh
    first | assumption | pfin
  | @allocFailPart a pu x acc p1 =>
    have kh := c5 a; rw [p1] at kh; simp only [hp_idle, hp_take, hp_carving, hp_needPage, hp_havePage, hp_got, hp_takeFailed, hp_retPart, hp_partPush, hp_partUnlock, hp_freeRet, hp_destroying, hp_doneAlloc, hp_doneFree, hp_doneDestroy, reduceCtorEq, false_iff, Option.some.injEq] at kh
    first | assumption | pfin
  | @carveLifo a pu acc p p1 p2 p3 =>
    have kh := c5 a; rw [p1] at kh; simp only [hp_idle, hp_take, hp_carving, hp_needPage, hp_havePage, hp_got, hp_takeFailed, hp_retPart, hp_partPush, hp_partUnlock, hp_freeRet, hp_destroying, hp_doneAlloc, hp_doneFree, hp_doneDestroy, reduceCtorEq, false_iff, Option.some.injEq] at kh
    first | assumption | pfin
  | @carveEmpty a pu acc p p1 p2 p3 =>
    have kh := c5 a; rw [p1] at kh; simp only [hp_idle, hp_take, hp_carving, hp_needPage, hp_havePage, hp_got, hp_takeFailed, hp_retPart, hp_partPush, hp_partUnlock, hp_freeRet, hp_destroying, hp_doneAlloc, hp_doneFree, hp_doneDestroy, reduceCtorEq, false_iff, Option.some.injEq] at kh
    first | assumption | pfin
  | @lockPartEmpty a k b p1 p2 p3 =>
    have kh := c5 a; rw [p1] at kh; simp only [hp_idle, hp_take, hp_carving, hp_needPage, hp_havePage, hp_got, hp_takeFailed, hp_retPart, hp_partPush, hp_partUnlock, hp_freeRet, hp_destroying, hp_doneAlloc, hp_doneFree, hp_doneDestroy, reduceCtorEq, false_iff, Option.some.injEq] at kh
    first | assumption | pfin
  | @lockPartSmall a k b p1 p2 p3 p4 =>
    have kh := c5 a; rw [p1] at kh; simp only [hp_idle, hp_take, hp_carving, hp_needPage, hp_havePage, hp_got, hp_takeFailed, hp_retPart, hp_partPush, hp_partUnlock, hp_freeRet, hp_destroying, hp_doneAlloc, hp_doneFree, hp_doneDestroy, reduceCtorEq, false_iff, Option.some.injEq] at kh
    first | assumption | pfin
  | @lockPartFull a k b p1 p2 p3 p4 =>
    have kh := c5 a; rw [p1] at kh; simp only [hp_idle, hp_take, hp_carving, hp_needPage, hp_havePage, hp_got, hp_takeFailed, hp_retPart, hp_partPush, hp_partUnlock, hp_freeRet, hp_destroying, hp_doneAlloc, hp_doneFree, hp_doneDestroy, reduceCtorEq, false_iff, Option.some.injEq] at kh
    first | assumption | pfin
  | @pushBucketPart a k b p1 =>
    have kh := c5 a; rw [p1] at kh; simp only [hp_idle, hp_take, hp_carving, hp_needPage, hp_havePage, hp_got, hp_takeFailed, hp_retPart, hp_partPush, hp_partUnlock, hp_freeRet, hp_destroying, hp_doneAlloc, hp_doneFree, hp_doneDestroy, reduceCtorEq, false_iff, Option.some.injEq] at kh
    first | assumption | pfin
  | @unlockPart a k p1 =>
    have kh := c5 a; rw [p1] at kh; simp only [hp_idle, hp_take, hp_carving, hp_needPage, hp_havePage, hp_got, hp_takeFailed, hp_retPart, hp_partPush, hp_partUnlock, hp_freeRet, hp_destroying, hp_doneAlloc, hp_doneFree, hp_doneDestroy, reduceCtorEq, false_iff, Option.some.injEq] at kh
    first | assumption | pfin
  | @callFreePush a x f c p1 p2 p3 p4 p5 =>
    have kh := c5 a; rw [p2] at kh; simp only [hp_idle, hp_take, hp_carving, hp_needPage, hp_havePage, hp_got, hp_takeFailed, hp_retPart, hp_partPush, hp_partUnlock, hp_freeRet, hp_destroying, hp_doneAlloc, hp_doneFree, hp_doneDestroy, reduceCtorEq, false_iff, Option.some.injEq] at kh
    first | assumption | pfin
  | @callFreeNew a x f c p1 p2 p3 p4 p5 p6 =>
    have kh := c5 a; rw [p2] at kh; simp only [hp_idle, hp_take, hp_carving, hp_needPage, hp_havePage, hp_got, hp_takeFailed, hp_retPart, hp_partPush, hp_partUnlock, hp_freeRet, hp_destroying, hp_doneAlloc, hp_doneFree, hp_doneDestroy, reduceCtorEq, false_iff, Option.some.injEq] at kh
    first | assumption | pfin
  | @callFreeRet a x f c b0 rest p1 p2 p3 p4 p5 p6 p7 =>
    have kh := c5 a; rw [p2] at kh; simp only [hp_idle, hp_take, hp_carving, hp_needPage, hp_havePage, hp_got, hp_takeFailed, hp_retPart, hp_partPush, hp_partUnlock, hp_freeRet, hp_destroying, hp_doneAlloc, hp_doneFree, hp_doneDestroy, reduceCtorEq, false_iff, Option.some.injEq] at kh
    first | assumption | pfin
  | @pushBucketFree a b p1 =>
    have kh := c5 a; rw [p1] at kh; simp only [hp_idle, hp_take, hp_carving, hp_needPage, hp_havePage, hp_got, hp_takeFailed, hp_retPart, hp_partPush, hp_partUnlock, hp_freeRet, hp_destroying, hp_doneAlloc, hp_doneFree, hp_doneDestroy, reduceCtorEq, false_iff, Option.some.injEq] at kh
    first | assumption | pfin
  | @retFree a p1 =>
    have kh := c5 a; rw [p1] at kh; simp only [hp_idle, hp_take, hp_carving, hp_needPage, hp_havePage, hp_got, hp_takeFailed, hp_retPart, hp_partPush, hp_partUnlock, hp_freeRet, hp_destroying, hp_doneAlloc, hp_doneFree, hp_doneDestroy, reduceCtorEq, false_iff, Option.some.injEq] at kh
    first | assumption | pfin
  | @callDestroy a f c p1 p2 p3 =>
    have kh := c5 a; rw [p2] at kh; simp only [hp_idle, hp_take, hp_carving, hp_needPage, hp_havePage, hp_got, hp_takeFailed, hp_retPart, hp_partPush, hp_partUnlock, hp_freeRet, hp_destroying, hp_doneAlloc, hp_doneFree, hp_doneDestroy, reduceCtorEq, false_iff, Option.some.injEq] at kh
    first | assumption | pfin
  | @pushBucketDestroy a b f c p1 =>
    have kh := c5 a; rw [p1] at kh; simp only [hp_idle, hp_take, hp_carving, hp_needPage, hp_havePage, hp_got, hp_takeFailed, hp_retPart, hp_partPush, hp_partUnlock, hp_freeRet, hp_destroying, hp_doneAlloc, hp_doneFree, hp_doneDestroy, reduceCtorEq, false_iff, Option.some.injEq] at kh
    first | assumption | pfin
  | @pushBucketLast a c p1 =>
    have kh := c5 a; rw [p1] at kh; simp only [hp_idle, hp_take, hp_carving, hp_needPage, hp_havePage, hp_got, hp_takeFailed, hp_retPart, hp_partPush, hp_partUnlock, hp_freeRet, hp_destroying, hp_doneAlloc, hp_doneFree, hp_doneDestroy, reduceCtorEq, false_iff, Option.some.injEq] at kh
    first | assumption | pfin
  | @retDestroy a p1 =>
    have kh := c5 a; rw [p1] at kh; simp only [hp_idle, hp_take, hp_carving, hp_needPage, hp_havePage, hp_got, hp_takeFailed, hp_retPart, hp_partPush, hp_partUnlock, hp_freeRet, hp_destroying, hp_doneAlloc, hp_doneFree, hp_doneDestroy, reduceCtorEq, false_iff, Option.some.injEq] at kh
    first | assumption | pfin
  | @destroyStart  p1 p2 p3 =>
    first | assumption | pfin
  | @relLifo p rest p1 p2 =>
    have kp := c1 p; rw [p2] at kp; simp only [List.mem_cons, true_or, true_iff] at kp
    have kn := c2; rw [p2] at kn; simp only [List.nodup_cons] at kn
    first | assumption | pfin
  | @lifoEmpty  p1 p2 =>
    first | assumption | pfin
  | @relEmpty p rest p1 p2 =>
    have kp := c3 p; rw [p2] at kp; simp only [List.mem_cons, true_or, true_iff] at kp
    have kn := c4; rw [p2] at kn; simp only [List.nodup_cons] at kn
    first | assumption | pfin
  | @destroyEnd  p1 p2 =>
    first | assumption | pfin

theorem pstep_heldRoom (P : Params) (hP : P.OK) (s : St) (e : Ev) (s' : St) (h : PInv P s) (hs : Step P s e s') : ∀ a p, s'.pown p = .held a → s'.used p < P.slots := by
  have c1 := h.lifo; have c2 := h.lifoNd; have c3 := h.empty; have c4 := h.emptyNd; have c5 := h.held; have c6 := h.rel
  have c7 := h.relNd; have c8 := h.unalloc; have c9 := h.lifoRoom; have c10 := h.emptyFull; have c11 := h.heldRoom
  have c12 := h.usedLe
  have := hP.slots_pos
  cases hs with
  | @callInit a p1 p2 p3 =>
    have kh := c5 a; rw [p2] at kh; simp only [hp_idle, hp_take, hp_carving, hp_needPage, hp_havePage, hp_got, hp_takeFailed, hp_retPart, hp_partPush, hp_partUnlock, hp_freeRet, hp_destroying, hp_doneAlloc, hp_doneFree, hp_doneDestroy, reduceCtorEq, false_iff, Option.some.injEq] at kh
    first | assumption | pfin
  | @retInitOk a b p1 p2 =>
    have kh := c5 a; rw [p1] at kh; simp only [hp_idle, hp_take, hp_carving, hp_needPage, hp_havePage, hp_got, hp_takeFailed, hp_retPart, hp_partPush, hp_partUnlock, hp_freeRet, hp_destroying, hp_doneAlloc, hp_doneFree, hp_doneDestroy, reduceCtorEq, false_iff, Option.some.injEq] at kh
    first | assumption | pfin
  | @retInitFail a p1 =>
    have kh := c5 a; rw [p1] at kh; simp only [hp_idle, hp_take, hp_carving, hp_needPage, hp_havePage, hp_got, hp_takeFailed, hp_retPart, hp_partPush, hp_partUnlock, hp_freeRet, hp_destroying, hp_doneAlloc, hp_doneFree, hp_doneDestroy, reduceCtorEq, false_iff, Option.some.injEq] at kh
    first | assumption | pfin
  | @callAllocPop a f x x2 c p1 p2 p3 =>
    have kh := c5 a; rw [p2] at kh; simp only [hp_idle, hp_take, hp_carving, hp_needPage, hp_havePage, hp_got, hp_takeFailed, hp_retPart, hp_partPush, hp_partUnlock, hp_freeRet, hp_destroying, hp_doneAlloc, hp_doneFree, hp_doneDestroy, reduceCtorEq, false_iff, Option.some.injEq] at kh
    first | assumption | pfin
  | @callAllocPrev a f b x p1 p2 p3 =>
    have kh := c5 a; rw [p2] at kh; simp only [hp_idle, hp_take, hp_carving, hp_needPage, hp_havePage, hp_got, hp_takeFailed, hp_retPart, hp_partPush, hp_partUnlock, hp_freeRet, hp_destroying, hp_doneAlloc, hp_doneFree, hp_doneDestroy, reduceCtorEq, false_iff, Option.some.injEq] at kh
    first | assumption | pfin
  | @callAllocTake a x p1 p2 p3 =>
    have kh := c5 a; rw [p2] at kh; simp only [hp_idle, hp_take, hp_carving, hp_needPage, hp_havePage, hp_got, hp_takeFailed, hp_retPart, hp_partPush, hp_partUnlock, hp_freeRet, hp_destroying, hp_doneAlloc, hp_doneFree, hp_doneDestroy, reduceCtorEq, false_iff, Option.some.injEq] at kh
    first | assumption | pfin
  | @retAllocTake a b x p1 p2 =>
    have kh := c5 a; rw [p1] at kh; simp only [hp_idle, hp_take, hp_carving, hp_needPage, hp_havePage, hp_got, hp_takeFailed, hp_retPart, hp_partPush, hp_partUnlock, hp_freeRet, hp_destroying, hp_doneAlloc, hp_doneFree, hp_doneDestroy, reduceCtorEq, false_iff, Option.some.injEq] at kh
    first | assumption | pfin
  | @retAllocFail a p1 =>
    have kh := c5 a; rw [p1] at kh; simp only [hp_idle, hp_take, hp_carving, hp_needPage, hp_havePage, hp_got, hp_takeFailed, hp_retPart, hp_partPush, hp_partUnlock, hp_freeRet, hp_destroying, hp_doneAlloc, hp_doneFree, hp_doneDestroy, reduceCtorEq, false_iff, Option.some.injEq] at kh
    first | assumption | pfin
  | @retAllocDone a x p1 =>
    have kh := c5 a; rw [p1] at kh; simp only [hp_idle, hp_take, hp_carving, hp_needPage, hp_havePage, hp_got, hp_takeFailed, hp_retPart, hp_partPush, hp_partUnlock, hp_freeRet, hp_destroying, hp_doneAlloc, hp_doneFree, hp_doneDestroy, reduceCtorEq, false_iff, Option.some.injEq] at kh
    first | assumption | pfin
  | @popBucketSome a pu b rest p1 p2 =>
    have kh := c5 a; rw [p1] at kh; simp only [hp_idle, hp_take, hp_carving, hp_needPage, hp_havePage, hp_got, hp_takeFailed, hp_retPart, hp_partPush, hp_partUnlock, hp_freeRet, hp_destroying, hp_doneAlloc, hp_doneFree, hp_doneDestroy, reduceCtorEq, false_iff, Option.some.injEq] at kh
    first | assumption | pfin
  | @popBucketNone a pu p1 p2 =>
    have kh := c5 a; rw [p1] at kh; simp only [hp_idle, hp_take, hp_carving, hp_needPage, hp_havePage, hp_got, hp_takeFailed, hp_retPart, hp_partPush, hp_partUnlock, hp_freeRet, hp_destroying, hp_doneAlloc, hp_doneFree, hp_doneDestroy, reduceCtorEq, false_iff, Option.some.injEq] at kh
    first | assumption | pfin
  | @popPageSome a pu acc p rest p1 p2 =>
    have kh := c5 a; rw [p1] at kh; simp only [hp_idle, hp_take, hp_carving, hp_needPage, hp_havePage, hp_got, hp_takeFailed, hp_retPart, hp_partPush, hp_partUnlock, hp_freeRet, hp_destroying, hp_doneAlloc, hp_doneFree, hp_doneDestroy, reduceCtorEq, false_iff, Option.some.injEq] at kh
    have kp := c1 p; rw [p2] at kp; simp only [List.mem_cons, true_or, true_iff] at kp
    have kn := c2; rw [p2] at kn; simp only [List.nodup_cons] at kn
    first | assumption | pfin
  | @popPageNone a pu acc p1 p2 =>
    have kh := c5 a; rw [p1] at kh; simp only [hp_idle, hp_take, hp_carving, hp_needPage, hp_havePage, hp_got, hp_takeFailed, hp_retPart, hp_partPush, hp_partUnlock, hp_freeRet, hp_destroying, hp_doneAlloc, hp_doneFree, hp_doneDestroy, reduceCtorEq, false_iff, Option.some.injEq] at kh
    first | assumption | pfin
  | @allocOk a pu acc p1 =>
    have kh := c5 a; rw [p1] at kh; simp only [hp_idle, hp_take, hp_carving, hp_needPage, hp_havePage, hp_got, hp_takeFailed, hp_retPart, hp_partPush, hp_partUnlock, hp_freeRet, hp_destroying, hp_doneAlloc, hp_doneFree, hp_doneDestroy, reduceCtorEq, false_iff, Option.some.injEq] at kh
    first | assumption | pfin
  | @allocFailEmpty a pu p1 =>
    have kh := c5 a; rw [p1] at kh; simp only [hp_idle, hp_take, hp_carving, hp_needPage, hp_havePage, hp_got, hp_takeFailed, hp_retPart, hp_partPush, hp_partUnlock, hp_freeRet, hp_destroying, hp_doneAlloc, hp_doneFree, hp_doneDestroy, reduceCtorEq, false_iff, Option.some.injEq] at kh
    first | assumption | pfin
  | @allocFailPart a pu x acc p1 =>
    have kh := c5 a; rw [p1] at kh; simp only [hp_idle, hp_take, hp_carving, hp_needPage, hp_havePage, hp_got, hp_takeFailed, hp_retPart, hp_partPush, hp_partUnlock, hp_freeRet, hp_destroying, hp_doneAlloc, hp_doneFree, hp_doneDestroy, reduceCtorEq, false_iff, Option.some.injEq] at kh
    first | assumption | pfin
  | @carveLifo a pu acc p p1 p2 p3 =>
    have kh := c5 a; rw [p1] at kh; simp only [hp_idle, hp_take, hp_carving, hp_needPage, hp_havePage, hp_got, hp_takeFailed, hp_retPart, hp_partPush, hp_partUnlock, hp_freeRet, hp_destroying, hp_doneAlloc, hp_doneFree, hp_doneDestroy, reduceCtorEq, false_iff, Option.some.injEq] at kh
    first | assumption | pfin
  | @carveEmpty a pu acc p p1 p2 p3 =>
    have kh := c5 a; rw [p1] at kh; simp only [hp_idle, hp_take, hp_carving, hp_needPage, hp_havePage, hp_got, hp_takeFailed, hp_retPart, hp_partPush, hp_partUnlock, hp_freeRet, hp_destroying, hp_doneAlloc, hp_doneFree, hp_doneDestroy, reduceCtorEq, false_iff, Option.some.injEq] at kh
    first | assumption | pfin
  | @lockPartEmpty a k b p1 p2 p3 =>
    have kh := c5 a; rw [p1] at kh; simp only [hp_idle, hp_take, hp_carving, hp_needPage, hp_havePage, hp_got, hp_takeFailed, hp_retPart, hp_partPush, hp_partUnlock, hp_freeRet, hp_destroying, hp_doneAlloc, hp_doneFree, hp_doneDestroy, reduceCtorEq, false_iff, Option.some.injEq] at kh
    first | assumption | pfin
  | @lockPartSmall a k b p1 p2 p3 p4 =>
    have kh := c5 a; rw [p1] at kh; simp only [hp_idle, hp_take, hp_carving, hp_needPage, hp_havePage, hp_got, hp_takeFailed, hp_retPart, hp_partPush, hp_partUnlock, hp_freeRet, hp_destroying, hp_doneAlloc, hp_doneFree, hp_doneDestroy, reduceCtorEq, false_iff, Option.some.injEq] at kh
    first | assumption | pfin
  | @lockPartFull a k b p1 p2 p3 p4 =>
    have kh := c5 a; rw [p1] at kh; simp only [hp_idle, hp_take, hp_carving, hp_needPage, hp_havePage, hp_got, hp_takeFailed, hp_retPart, hp_partPush, hp_partUnlock, hp_freeRet, hp_destroying, hp_doneAlloc, hp_doneFree, hp_doneDestroy, reduceCtorEq, false_iff, Option.some.injEq] at kh
    first | assumption | pfin
  | @pushBucketPart a k b p1 =>
    have kh := c5 a; rw [p1] at kh; simp only [hp_idle, hp_take, hp_carving, hp_needPage, hp_havePage, hp_got, hp_takeFailed, hp_retPart, hp_partPush, hp_partUnlock, hp_freeRet, hp_destroying, hp_doneAlloc, hp_doneFree, hp_doneDestroy, reduceCtorEq, false_iff, Option.some.injEq] at kh
    first | assumption | pfin
  | @unlockPart a k p1 =>
    have kh := c5 a; rw [p1] at kh; simp only [hp_idle, hp_take, hp_carving, hp_needPage, hp_havePage, hp_got, hp_takeFailed, hp_retPart, hp_partPush, hp_partUnlock, hp_freeRet, hp_destroying, hp_doneAlloc, hp_doneFree, hp_doneDestroy, reduceCtorEq, false_iff, Option.some.injEq] at kh
    first | assumption | pfin
  | @callFreePush a x f c p1 p2 p3 p4 p5 =>
    have kh := c5 a; rw [p2] at kh; simp only [hp_idle, hp_take, hp_carving, hp_needPage, hp_havePage, hp_got, hp_takeFailed, hp_retPart, hp_partPush, hp_partUnlock, hp_freeRet, hp_destroying, hp_doneAlloc, hp_doneFree, hp_doneDestroy, reduceCtorEq, false_iff, Option.some.injEq] at kh
    first | assumption | pfin
  | @callFreeNew a x f c p1 p2 p3 p4 p5 p6 =>
    have kh := c5 a; rw [p2] at kh; simp only [hp_idle, hp_take, hp_carving, hp_needPage, hp_havePage, hp_got, hp_takeFailed, hp_retPart, hp_partPush, hp_partUnlock, hp_freeRet, hp_destroying, hp_doneAlloc, hp_doneFree, hp_doneDestroy, reduceCtorEq, false_iff, Option.some.injEq] at kh
    first | assumption | pfin
  | @callFreeRet a x f c b0 rest p1 p2 p3 p4 p5 p6 p7 =>
    have kh := c5 a; rw [p2] at kh; simp only [hp_idle, hp_take, hp_carving, hp_needPage, hp_havePage, hp_got, hp_takeFailed, hp_retPart, hp_partPush, hp_partUnlock, hp_freeRet, hp_destroying, hp_doneAlloc, hp_doneFree, hp_doneDestroy, reduceCtorEq, false_iff, Option.some.injEq] at kh
    first | assumption | pfin
  | @pushBucketFree a b p1 =>
    have kh := c5 a; rw [p1] at kh; simp only [hp_idle, hp_take, hp_carving, hp_needPage, hp_havePage, hp_got, hp_takeFailed, hp_retPart, hp_partPush, hp_partUnlock, hp_freeRet, hp_destroying, hp_doneAlloc, hp_doneFree, hp_doneDestroy, reduceCtorEq, false_iff, Option.some.injEq] at kh
    first | assumption | pfin
  | @retFree a p1 =>
    have kh := c5 a; rw [p1] at kh; simp only [hp_idle, hp_take, hp_carving, hp_needPage, hp_havePage, hp_got, hp_takeFailed, hp_retPart, hp_partPush, hp_partUnlock, hp_freeRet, hp_destroying, hp_doneAlloc, hp_doneFree, hp_doneDestroy, reduceCtorEq, false_iff, Option.some.injEq] at kh
    first | assumption | pfin
  | @callDestroy a f c p1 p2 p3 =>
    have kh := c5 a; rw [p2] at kh; simp only [hp_idle, hp_take, hp_carving, hp_needPage, hp_havePage, hp_got, hp_takeFailed, hp_retPart, hp_partPush, hp_partUnlock, hp_freeRet, hp_destroying, hp_doneAlloc, hp_doneFree, hp_doneDestroy, reduceCtorEq, false_iff, Option.some.injEq] at kh
    first | assumption | pfin
  | @pushBucketDestroy a b f c p1 =>
    have kh := c5 a; rw [p1] at kh; simp only [hp_idle, hp_take, hp_carving, hp_needPage, hp_havePage, hp_got, hp_takeFailed, hp_retPart, hp_partPush, hp_partUnlock, hp_freeRet, hp_destroying, hp_doneAlloc, hp_doneFree, hp_doneDestroy, reduceCtorEq, false_iff, Option.some.injEq] at kh
    first | assumption | pfin
  | @pushBucketLast a c p1 =>
    have kh := c5 a; rw [p1] at kh; simp only [hp_idle, hp_take, hp_carving, hp_needPage, hp_havePage, hp_got, hp_takeFailed, hp_retPart, hp_partPush, hp_partUnlock, hp_freeRet, hp_destroying, hp_doneAlloc, hp_doneFree, hp_doneDestroy, reduceCtorEq, false_iff, Option.some.injEq] at kh
    first | assumption | pfin
  | @retDestroy a p1 =>
    have kh := c5 a; rw [p1] at kh; simp only [hp_idle, hp_take, hp_carving, hp_needPage, hp_havePage, hp_got, hp_takeFailed, hp_retPart, hp_partPush, hp_partUnlock, hp_freeRet, hp_destroying, hp_doneAlloc, hp_doneFree, hp_doneDestroy, reduceCtorEq, false_iff, Option.some.injEq] at kh
    first | assumption | pfin
  | @destroyStart  p1 p2 p3 =>
    first | assumption | pfin
  | @relLifo p rest p1 p2 =>
    have kp := c1 p; rw [p2] at kp; simp only [List.mem_cons, true_or, true_iff] at kp
    have kn := c2; rw [p2] at kn; simp only [List.nodup_cons] at kn
    first | assumption | pfin
  | @lifoEmpty  p1 p2 =>
    first | assumption | pfin
  | @relEmpty p rest p1 p2 =>
    have kp := c3 p; rw [p2] at kp; simp only [List.mem_cons, true_or, true_iff] at kp
    have kn := c4; rw [p2] at kn; simp only [List.nodup_cons] at kn
    first | assumption | pfin
  | @destroyEnd  p1 p2 =>
    first | assumption | pfin

theorem pstep_usedLe (P : Params) (hP : P.OK) (s : St) (e : Ev) (s' : St) (h : PInv P s) (hs : Step P s e s') : ∀ p, s'.used p ≤ P.slots := by
  have c1 := h.lifo; have c2 := h.lifoNd; have c3 := h.empty; have c4 := h.emptyNd; have c5 := h.held; have c6 := h.rel
  have c7 := h.relNd; have c8 := h.unalloc; have c9 := h.lifoRoom; have c10 := h.emptyFull; have c11 := h.heldRoom
  have c12 := h.usedLe
  have := hP.slots_pos
  cases hs with
  | @callInit a p1 p2 p3 =>
    have kh := c5 a; rw [p2] at kh; simp only [hp_idle, hp_take, hp_carving, hp_needPage, hp_havePage, hp_got, hp_takeFailed, hp_retPart, hp_partPush, hp_partUnlock, hp_freeRet, hp_destroying, hp_doneAlloc, hp_doneFree, hp_doneDestroy, reduceCtorEq, false_iff, Option.some.injEq] at kh
    first | assumption | pfin
  | @retInitOk a b p1 p2 =>
    have kh := c5 a; rw [p1] at kh; simp only [hp_idle, hp_take, hp_carving, hp_needPage, hp_havePage, hp_got, hp_takeFailed, hp_retPart, hp_partPush, hp_partUnlock, hp_freeRet, hp_destroying, hp_doneAlloc, hp_doneFree, hp_doneDestroy, reduceCtorEq, false_iff, Option.some.injEq] at kh
    first | assumption | pfin
  | @retInitFail a p1 =>
    have kh := c5 a; rw [p1] at kh; simp only [hp_idle, hp_take, hp_carving, hp_needPage, hp_havePage, hp_got, hp_takeFailed, hp_retPart, hp_partPush, hp_partUnlock, hp_freeRet, hp_destroying, hp_doneAlloc, hp_doneFree, hp_doneDestroy, reduceCtorEq, false_iff, Option.some.injEq] at kh
    first | assumption | pfin
  | @callAllocPop a f x x2 c p1 p2 p3 =>
    have kh := c5 a; rw [p2] at kh; simp only [hp_idle, hp_take, hp_carving, hp_needPage, hp_havePage, hp_got, hp_takeFailed, hp_retPart, hp_partPush, hp_partUnlock, hp_freeRet, hp_destroying, hp_doneAlloc, hp_doneFree, hp_doneDestroy, reduceCtorEq, false_iff, Option.some.injEq] at kh
    first | assumption | pfin
  | @callAllocPrev a f b x p1 p2 p3 =>
    have kh := c5 a; rw [p2] at kh; simp only [hp_idle, hp_take, hp_carving, hp_needPage, hp_havePage, hp_got, hp_takeFailed, hp_retPart, hp_partPush, hp_partUnlock, hp_freeRet, hp_destroying, hp_doneAlloc, hp_doneFree, hp_doneDestroy, reduceCtorEq, false_iff, Option.some.injEq] at kh
    first | assumption | pfin
  | @callAllocTake a x p1 p2 p3 =>
    have kh := c5 a; rw [p2] at kh; simp only [hp_idle, hp_take, hp_carving, hp_needPage, hp_havePage, hp_got, hp_takeFailed, hp_retPart, hp_partPush, hp_partUnlock, hp_freeRet, hp_destroying, hp_doneAlloc, hp_doneFree, hp_doneDestroy, reduceCtorEq, false_iff, Option.some.injEq] at kh
    first | assumption | pfin
  | @retAllocTake a b x p1 p2 =>
    have kh := c5 a; rw [p1] at kh; simp only [hp_idle, hp_take, hp_carving, hp_needPage, hp_havePage, hp_got, hp_takeFailed, hp_retPart, hp_partPush, hp_partUnlock, hp_freeRet, hp_destroying, hp_doneAlloc, hp_doneFree, hp_doneDestroy, reduceCtorEq, false_iff, Option.some.injEq] at kh
    first | assumption | pfin
  | @retAllocFail a p1 =>
    have kh := c5 a; rw [p1] at kh; simp only [hp_idle, hp_take, hp_carving, hp_needPage, hp_havePage, hp_got, hp_takeFailed, hp_retPart, hp_partPush, hp_partUnlock, hp_freeRet, hp_destroying, hp_doneAlloc, hp_doneFree, hp_doneDestroy, reduceCtorEq, false_iff, Option.some.injEq] at kh
    first | assumption | pfin
  | @retAllocDone a x p1 =>
    have kh := c5 a; rw [p1] at kh; simp only [hp_idle, hp_take, hp_carving, hp_needPage, hp_havePage, hp_got, hp_takeFailed, hp_retPart, hp_partPush, hp_partUnlock, hp_freeRet, hp_destroying, hp_doneAlloc, hp_doneFree, hp_doneDestroy, reduceCtorEq, false_iff, Option.some.injEq] at kh
    first | assumption | pfin
  | @popBucketSome a pu b rest p1 p2 =>
    have kh := c5 a; rw [p1] at kh; simp only [hp_idle, hp_take, hp_carving, hp_needPage, hp_havePage, hp_got, hp_takeFailed, hp_retPart, hp_partPush, hp_partUnlock, hp_freeRet, hp_destroying, hp_doneAlloc, hp_doneFree, hp_doneDestroy, reduceCtorEq, false_iff, Option.some.injEq] at kh
    first | assumption | pfin
  | @popBucketNone a pu p1 p2 =>
    have kh := c5 a; rw [p1] at kh; simp only [hp_idle, hp_take, hp_carving, hp_needPage, hp_havePage, hp_got, hp_takeFailed, hp_retPart, hp_partPush, hp_partUnlock, hp_freeRet, hp_destroying, hp_doneAlloc, hp_doneFree, hp_doneDestroy, reduceCtorEq, false_iff, Option.some.injEq] at kh
    first | assumption | pfin
  | @popPageSome a pu acc p rest p1 p2 =>
    have kh := c5 a; rw [p1] at kh; simp only [hp_idle, hp_take, hp_carving, hp_needPage, hp_havePage, hp_got, hp_takeFailed, hp_retPart, hp_partPush, hp_partUnlock, hp_freeRet, hp_destroying, hp_doneAlloc, hp_doneFree, hp_doneDestroy, reduceCtorEq, false_iff, Option.some.injEq] at kh
    have kp := c1 p; rw [p2] at kp; simp only [List.mem_cons, true_or, true_iff] at kp
    have kn := c2; rw [p2] at kn; simp only [List.nodup_cons] at kn
    first | assumption | pfin
  | @popPageNone a pu acc p1 p2 =>
    have kh := c5 a; rw [p1] at kh; simp only [hp_idle, hp_take, hp_carving, hp_needPage, hp_havePage, hp_got, hp_takeFailed, hp_retPart, hp_partPush, hp_partUnlock, hp_freeRet, hp_destroying, hp_doneAlloc, hp_doneFree, hp_doneDestroy, reduceCtorEq, false_iff, Option.some.injEq] at kh
    first | assumption | pfin
  | @allocOk a pu acc p1 =>
    have kh := c5 a; rw [p1] at kh; simp only [hp_idle, hp_take, hp_carving, hp_needPage, hp_havePage, hp_got, hp_takeFailed, hp_retPart, hp_partPush, hp_partUnlock, hp_freeRet, hp_destroying, hp_doneAlloc, hp_doneFree, hp_doneDestroy, reduceCtorEq, false_iff, Option.some.injEq] at kh
    first | assumption | pfin
  | @allocFailEmpty a pu p1 =>
    have kh := c5 a; rw [p1] at kh; simp only [hp_idle, hp_take, hp_carving, hp_needPage, hp_havePage, hp_got, hp_takeFailed, hp_retPart, hp_partPush, hp_partUnlock, hp_freeRet, hp_destroying, hp_doneAlloc, hp_doneFree, hp_doneDestroy, reduceCtorEq, false_iff, Option.some.injEq] at kh
    first | assumption | pfin
  | @allocFailPart a pu x acc p1 =>
    have kh := c5 a; rw [p1] at kh; simp only [hp_idle, hp_take, hp_carving, hp_needPage, hp_havePage, hp_got, hp_takeFailed, hp_retPart, hp_partPush, hp_partUnlock, hp_freeRet, hp_destroying, hp_doneAlloc, hp_doneFree, hp_doneDestroy, reduceCtorEq, false_iff, Option.some.injEq] at kh
    first | assumption | pfin
  | @carveLifo a pu acc p p1 p2 p3 =>
    have kh := c5 a; rw [p1] at kh; simp only [hp_idle, hp_take, hp_carving, hp_needPage, hp_havePage, hp_got, hp_takeFailed, hp_retPart, hp_partPush, hp_partUnlock, hp_freeRet, hp_destroying, hp_doneAlloc, hp_doneFree, hp_doneDestroy, reduceCtorEq, false_iff, Option.some.injEq] at kh
    first | assumption | pfin
  | @carveEmpty a pu acc p p1 p2 p3 =>
    have kh := c5 a; rw [p1] at kh; simp only [hp_idle, hp_take, hp_carving, hp_needPage, hp_havePage, hp_got, hp_takeFailed, hp_retPart, hp_partPush, hp_partUnlock, hp_freeRet, hp_destroying, hp_doneAlloc, hp_doneFree, hp_doneDestroy, reduceCtorEq, false_iff, Option.some.injEq] at kh
    first | assumption | pfin
  | @lockPartEmpty a k b p1 p2 p3 =>
    have kh := c5 a; rw [p1] at kh; simp only [hp_idle, hp_take, hp_carving, hp_needPage, hp_havePage, hp_got, hp_takeFailed, hp_retPart, hp_partPush, hp_partUnlock, hp_freeRet, hp_destroying, hp_doneAlloc, hp_doneFree, hp_doneDestroy, reduceCtorEq, false_iff, Option.some.injEq] at kh
    first | assumption | pfin
  | @lockPartSmall a k b p1 p2 p3 p4 =>
    have kh := c5 a; rw [p1] at kh; simp only [hp_idle, hp_take, hp_carving, hp_needPage, hp_havePage, hp_got, hp_takeFailed, hp_retPart, hp_partPush, hp_partUnlock, hp_freeRet, hp_destroying, hp_doneAlloc, hp_doneFree, hp_doneDestroy, reduceCtorEq, false_iff, Option.some.injEq] at kh
    first | assumption | pfin
  | @lockPartFull a k b p1 p2 p3 p4 =>
    have kh := c5 a; rw [p1] at kh; simp only [hp_idle, hp_take, hp_carving, hp_needPage, hp_havePage, hp_got, hp_takeFailed, hp_retPart, hp_partPush, hp_partUnlock, hp_freeRet, hp_destroying, hp_doneAlloc, hp_doneFree, hp_doneDestroy, reduceCtorEq, false_iff, Option.some.injEq] at kh
    first | assumption | pfin
  | @pushBucketPart a k b p1 =>
    have kh := c5 a; rw [p1] at kh; simp only [hp_idle, hp_take, hp_carving, hp_needPage, hp_havePage, hp_got, hp_takeFailed, hp_retPart, hp_partPush, hp_partUnlock, hp_freeRet, hp_destroying, hp_doneAlloc, hp_doneFree, hp_doneDestroy, reduceCtorEq, false_iff, Option.some.injEq] at kh
    first | assumption | pfin
  | @unlockPart a k p1 =>
    have kh := c5 a; rw [p1] at kh; simp only [hp_idle, hp_take, hp_carving, hp_needPage, hp_havePage, hp_got, hp_takeFailed, hp_retPart, hp_partPush, hp_partUnlock, hp_freeRet, hp_destroying, hp_doneAlloc, hp_doneFree, hp_doneDestroy, reduceCtorEq, false_iff, Option.some.injEq] at kh
    first | assumption | pfin
  | @callFreePush a x f c p1 p2 p3 p4 p5 =>
    have kh := c5 a; rw [p2] at kh; simp only [hp_idle, hp_take, hp_carving, hp_needPage, hp_havePage, hp_got, hp_takeFailed, hp_retPart, hp_partPush, hp_partUnlock, hp_freeRet, hp_destroying, hp_doneAlloc, hp_doneFree, hp_doneDestroy, reduceCtorEq, false_iff, Option.some.injEq] at kh
    first | assumption | pfin
  | @callFreeNew a x f c p1 p2 p3 p4 p5 p6 =>
    have kh := c5 a; rw [p2] at kh; simp only [hp_idle, hp_take, hp_carving, hp_needPage, hp_havePage, hp_got, hp_takeFailed, hp_retPart, hp_partPush, hp_partUnlock, hp_freeRet, hp_destroying, hp_doneAlloc, hp_doneFree, hp_doneDestroy, reduceCtorEq, false_iff, Option.some.injEq] at kh
    first | assumption | pfin
  | @callFreeRet a x f c b0 rest p1 p2 p3 p4 p5 p6 p7 =>
    have kh := c5 a; rw [p2] at kh; simp only [hp_idle, hp_take, hp_carving, hp_needPage, hp_havePage, hp_got, hp_takeFailed, hp_retPart, hp_partPush, hp_partUnlock, hp_freeRet, hp_destroying, hp_doneAlloc, hp_doneFree, hp_doneDestroy, reduceCtorEq, false_iff, Option.some.injEq] at kh
    first | assumption | pfin
  | @pushBucketFree a b p1 =>
    have kh := c5 a; rw [p1] at kh; simp only [hp_idle, hp_take, hp_carving, hp_needPage, hp_havePage, hp_got, hp_takeFailed, hp_retPart, hp_partPush, hp_partUnlock, hp_freeRet, hp_destroying, hp_doneAlloc, hp_doneFree, hp_doneDestroy, reduceCtorEq, false_iff, Option.some.injEq] at kh
    first | assumption | pfin
  | @retFree a p1 =>
    have kh := c5 a; rw [p1] at kh; simp only [hp_idle, hp_take, hp_carving, hp_needPage, hp_havePage, hp_got, hp_takeFailed, hp_retPart, hp_partPush, hp_partUnlock, hp_freeRet, hp_destroying, hp_doneAlloc, hp_doneFree, hp_doneDestroy, reduceCtorEq, false_iff, Option.some.injEq] at kh
    first | assumption | pfin
  | @callDestroy a f c p1 p2 p3 =>
    have kh := c5 a; rw [p2] at kh; simp only [hp_idle, hp_take, hp_carving, hp_needPage, hp_havePage, hp_got, hp_takeFailed, hp_retPart, hp_partPush, hp_partUnlock, hp_freeRet, hp_destroying, hp_doneAlloc, hp_doneFree, hp_doneDestroy, reduceCtorEq, false_iff, Option.some.injEq] at kh
    first | assumption | pfin
  | @pushBucketDestroy a b f c p1 =>
    have kh := c5 a; rw [p1] at kh; simp only [hp_idle, hp_take, hp_carving, hp_needPage, hp_havePage, hp_got, hp_takeFailed, hp_retPart, hp_partPush, hp_partUnlock, hp_freeRet, hp_destroying, hp_doneAlloc, hp_doneFree, hp_doneDestroy, reduceCtorEq, false_iff, Option.some.injEq] at kh
    first | assumption | pfin
  | @pushBucketLast a c p1 =>
    have kh := c5 a; rw [p1] at kh; simp only [hp_idle, hp_take, hp_carving, hp_needPage, hp_havePage, hp_got, hp_takeFailed, hp_retPart, hp_partPush, hp_partUnlock, hp_freeRet, hp_destroying, hp_doneAlloc, hp_doneFree, hp_doneDestroy, reduceCtorEq, false_iff, Option.some.injEq] at kh
    first | assumption | pfin
  | @retDestroy a p1 =>
    have kh := c5 a; rw [p1] at kh; simp only [hp_idle, hp_take, hp_carving, hp_needPage, hp_havePage, hp_got, hp_takeFailed, hp_retPart, hp_partPush, hp_partUnlock, hp_freeRet, hp_destroying, hp_doneAlloc, hp_doneFree, hp_doneDestroy, reduceCtorEq, false_iff, Option.some.injEq] at kh
    first | assumption | pfin
  | @destroyStart  p1 p2 p3 =>
    first | assumption | pfin
  | @relLifo p rest p1 p2 =>
    have kp := c1 p; rw [p2] at kp; simp only [List.mem_cons, true_or, true_iff] at kp
    have kn := c2; rw [p2] at kn; simp only [List.nodup_cons] at kn
    first | assumption | pfin
  | @lifoEmpty  p1 p2 =>
    first | assumption | pfin
  | @relEmpty p rest p1 p2 =>
    have kp := c3 p; rw [p2] at kp; simp only [List.mem_cons, true_or, true_iff] at kp
    have kn := c4; rw [p2] at kn; simp only [List.nodup_cons] at kn
    first | assumption | pfin
  | @destroyEnd  p1 p2 =>
    first | assumption | pfin

theorem pinv_step (P : Params) (hP : P.OK) (s : St) (e : Ev) (s' : St) (h : PInv P s) (hs : Step P s e s') : PInv P s' :=
  ⟨pstep_lifo P hP s e s' h hs, pstep_lifoNd P hP s e s' h hs, pstep_empty P hP s e s' h hs, pstep_emptyNd P hP s e s' h hs,
   pstep_held P hP s e s' h hs, pstep_rel P hP s e s' h hs, pstep_relNd P hP s e s' h hs, pstep_unalloc P hP s e s' h hs,
   pstep_lifoRoom P hP s e s' h hs, pstep_emptyFull P hP s e s' h hs, pstep_heldRoom P hP s e s' h hs,
   pstep_usedLe P hP s e s' h hs⟩

end ArgoVerif.Model.MemPoolConc
