import ArgoVerif.Proofs.PoolConcI
/- Proofs.PoolConcJ — preservation of the second invariant, steps that only move a program counter. -/
namespace ArgoVerif.Model.PoolConc
open ArgoVerif ArgoVerif.Model.TQ
set_option maxHeartbeats 1000000

macro "frame2 " hi:ident h:ident a:ident : tactic => `(tactic| (
  apply inv2_frame $hi $h (a := $a) <;> first | rfl | skip))

macro "facts2 " hi:ident h:ident a:ident : tactic => `(tactic| (
  have := Inv.typed $hi $a; have := Inv2.spinPc $h $a; have := Inv2.popSide $h $a; have := Inv2.fin $h $a; have := Inv2.pre $h $a; have := Inv2.preGot $h $a
  have : ∀ c, isPushLike c = true → isPopLike c = false := fun _ => pushlike_not_poplike
  have : ∀ c, isPopLike c = true → isPushLike c = false := fun _ => poplike_not_pushlike))

theorem inv2_loadLock {cfg : Cfg} {s s' : St} {a : Actor} {v : Bool} (hi : Inv cfg s) (h : Inv2 s)
    (hs : stepLoadLock s a v = some s') : Inv2 s' := by
  unfold stepLoadLock at hs
  split at hs
  · simp at hs
  facts2 hi h a
  split at hs <;> (try (simp at hs; done)) <;> simp only [Option.some.injEq] at hs <;> subst hs <;> cases v <;>
    (frame2 hi h a) <;> simp_all [setPc, InCS, PrePush, PreGot, Typed, PushPc, PopPc, RmPc]

theorem inv2_signal {cfg : Cfg} {s s' : St} {a : Actor} (hi : Inv cfg s) (h : Inv2 s)
    (hs : stepSignal s a = some s') : Inv2 s' := by
  unfold stepSignal at hs
  split at hs
  · simp at hs
  simp only [Option.some.injEq] at hs; subst hs
  facts2 hi h a
  (frame2 hi h a) <;> simp_all [setPc, InCS, PrePush, PreGot, Typed, PushPc, PopPc, RmPc]

theorem inv2_wake {cfg : Cfg} {s s' : St} {a : Actor} (hi : Inv cfg s) (h : Inv2 s)
    (hs : stepWake s a = some s') : Inv2 s' := by
  unfold stepWake at hs
  split at hs
  · simp at hs
  simp only [Option.some.injEq] at hs; subst hs
  facts2 hi h a
  (frame2 hi h a) <;> simp_all [setPc, InCS, PrePush, PreGot, Typed, PushPc, PopPc, RmPc]

theorem inv2_ret {cfg : Cfg} {s s' : St} {a : Actor} {r : Res} (hi : Inv cfg s) (h : Inv2 s)
    (hs : stepRet cfg s a r = some s') : Inv2 s' := by
  unfold stepRet at hs
  split at hs
  next hg =>
    simp only [Option.some.injEq] at hs; subst hs
    facts2 hi h a
    rcases hg.1 with e | e <;> ((frame2 hi h a) <;> simp_all [setPc, InCS, PrePush, PreGot, Typed, PushPc, PopPc, RmPc])
  · simp at hs

theorem inv2_release {cfg : Cfg} {s : St} {a : Actor} {p : Pc} (hi : Inv cfg s) (h : Inv2 s)
    (hp : (s.pc a = .rel ∧ (p = .retp ∨ (p = .wIdle ∧ s.got a = []))) ∨ (s.pc a = .wWait ∧ p = .wSleep)) :
    Inv2 (setPc (release cfg s) a p) := by
  facts2 hi h a
  rcases hp with ⟨e, e' | e'⟩ | e <;>
    ((frame2 hi h a) <;> simp_all [setPc, release, InCS, PrePush, PreGot, Typed, PushPc, PopPc, RmPc])

theorem inv2_clear {cfg : Cfg} {s s' : St} {a : Actor} (hi : Inv cfg s) (h : Inv2 s)
    (hs : stepClear cfg s a = some s') : Inv2 s' := by
  unfold stepClear at hs
  split at hs
  · simp at hs
  next hg =>
  simp only [Option.some.injEq] at hs; subst hs
  have hpc : s.pc a = .rel := by simp_all
  split
  next hc => exact inv2_release hi h (Or.inl ⟨hpc, Or.inr ⟨rfl, hc.2⟩⟩)
  next hc => exact inv2_release hi h (Or.inl ⟨hpc, Or.inl rfl⟩)

theorem inv2_munlock {cfg : Cfg} {s s' : St} {a : Actor} (hi : Inv cfg s) (h : Inv2 s)
    (hs : stepMunlock cfg s a = some s') : Inv2 s' := by
  unfold stepMunlock at hs
  split at hs
  · simp at hs
  next hg =>
  simp only [Option.some.injEq] at hs; subst hs
  exact inv2_release hi h (Or.inl ⟨by simp_all, Or.inl rfl⟩)

theorem inv2_condWait {cfg : Cfg} {s s' : St} {a : Actor} (hi : Inv cfg s) (h : Inv2 s)
    (hs : stepCondWait cfg s a = some s') : Inv2 s' := by
  unfold stepCondWait at hs
  split at hs
  · simp at hs
  next hg =>
  simp only [Option.some.injEq] at hs; subst hs
  exact inv2_release hi h (Or.inr ⟨by simp_all, rfl⟩)

theorem inv2_rmFailed {cfg : Cfg} {s : St} {a : Actor} {p : Pc} (hi : Inv cfg s) (h : Inv2 s)
    (hpc : s.pc a = .rChkE ∨ s.pc a = .rChkIn ∨ s.pc a = .csRm) (hp : p = .retp ∨ (p = .rel ∧ s.pc a = .csRm)) :
    Inv2 (setPc (rmFailed s a) a p) := by
  have hrm : isRemove (s.cur a) = true := (hi.typed a).2.2 (by rcases hpc with e | e | e <;> simp [e, RmPc])
  have h1 := remove_not_pushlike hrm
  have h2 := remove_not_poplike hrm
  rcases hpc with e | e | e <;> rcases hp with e' | e' <;>
    ((frame2 hi h a) <;> simp_all [setPc, rmFailed, InCS, PrePush, PreGot])

theorem inv2_rmFail {cfg : Cfg} {s s' : St} {a : Actor} (hi : Inv cfg s) (h : Inv2 s)
    (hs : stepRmFail cfg s a = some s') : Inv2 s' := by
  unfold stepRmFail at hs
  split at hs
  · simp at hs
  next hg =>
  split at hs
  · simp only [Option.some.injEq] at hs; subst hs
    have hpc : s.pc a = .csRm := by simp_all
    refine inv2_rmFailed hi h (Or.inr (Or.inr hpc)) ?_
    unfold leave; split <;> simp [hpc]
  · simp at hs

theorem inv2_loadIn {cfg : Cfg} {s s' : St} {a : Actor} {u : Nat} {v : Bool} (hi : Inv cfg s) (h : Inv2 s)
    (hs : stepLoadIn s a u v = some s') : Inv2 s' := by
  unfold stepLoadIn at hs
  split at hs
  · simp at hs
  split at hs <;> (try (simp at hs; done))
  next hpc =>
  simp only [Option.some.injEq] at hs; subst hs
  cases v
  · exact inv2_rmFailed hi h (Or.inr (Or.inl hpc)) (Or.inl rfl)
  · have hrm : isRemove (s.cur a) = true := (hi.typed a).2.2 (by simp [hpc, RmPc])
    have h1 := remove_not_pushlike hrm
    have h2 := remove_not_poplike hrm
    (frame2 hi h a) <;> simp_all [setPc, InCS, PrePush, PreGot]

theorem inv2_loadEmpty {cfg : Cfg} {s s' : St} {a : Actor} {v : Bool} (hi : Inv cfg s) (h : Inv2 s)
    (hs : stepLoadEmpty s a v = some s') : Inv2 s' := by
  unfold stepLoadEmpty at hs
  split at hs
  · simp at hs
  split at hs <;> (try (simp at hs; done))
  case h_5 hpc =>
    simp only [Option.some.injEq] at hs; subst hs
    cases v
    · have hrm : isRemove (s.cur a) = true := (hi.typed a).2.2 (by simp [hpc, RmPc])
      have h1 := remove_not_pushlike hrm
      have h2 := remove_not_poplike hrm
      (frame2 hi h a) <;> simp_all [setPc, InCS, PrePush, PreGot]
    · exact inv2_rmFailed hi h (Or.inl hpc) (Or.inl rfl)
  case h_6 hpc =>
    split at hs
    · simp at hs
    simp only [Option.some.injEq] at hs; subst hs
    facts2 hi h a
    have := h.taken a
    cases v <;> ((frame2 hi h a) <;> simp_all [setPc, InCS, PrePush, PreGot, Typed, PushPc, PopPc, RmPc])
  all_goals (
    simp only [Option.some.injEq] at hs; subst hs
    facts2 hi h a
    have hpl : isPopLike (s.cur a) = true := by simp_all [Typed, PopPc]
    have hnp := poplike_not_pushlike hpl
    cases v
    · (frame2 hi h a) <;> simp_all [setPc, InCS, PrePush, PreGot]
    · unfold emptyFail
      cases hpw : isPopWait (s.cur a) <;>
        ((frame2 hi h a) <;> simp_all [setPc, InCS, PrePush, PreGot]))

theorem inv2_storeEmpty {cfg : Cfg} {s s' : St} {a : Actor} {v : Bool} (hi : Inv cfg s) (h : Inv2 s)
    (hs : stepStoreEmpty s a v = some s') : Inv2 s' := by
  unfold stepStoreEmpty at hs
  split at hs
  · simp at hs
  facts2 hi h a
  split at hs <;> (try (simp at hs; done)) <;> split at hs <;> (try (simp at hs; done)) <;>
    simp only [Option.some.injEq] at hs <;> subst hs <;>
    ((frame2 hi h a) <;> simp_all [setPc, InCS, PrePush, PreGot, Typed, PushPc, PopPc, RmPc])

end ArgoVerif.Model.PoolConc
