import ArgoVerif.Model.Barrier
/-
Proofs.Barrier — inductive invariant of the barrier model (one lemma per step function).
-/
namespace ArgoVerif.Model.Barrier
open ArgoVerif
set_option maxHeartbeats 4000000

/-- program counters at which the actor holds `p_barrier->lock` -/
def HoldsLock : Pc → Prop
  | .csWait | .csEnq | .reW | .reR | .csLast => True
  | _ => False

/-- program counters of an actor that is in the wait-list -/
def InQ : Pc → Prop
  | .csEnq | .waiting | .reW => True
  | _ => False

/-- program counters of an actor that has been released from its round (it may return) -/
def Released : Pc → Prop
  | .woken | .reR | .done => True
  | _ => False

structure Inv (s : St) : Prop where
  nwPos : 0 < s.nw
  lockIff : ∀ a, s.lock = some a ↔ HoldsLock (s.pc a)
  cntFree : s.lock = none → s.counter = s.q.length ∧ s.counter < s.nw
  cntWait : ∀ a, s.pc a = .csWait → s.counter = s.q.length + 1 ∧ s.counter < s.nw
  cntIn : ∀ a, (s.pc a = .csEnq ∨ s.pc a = .reW ∨ s.pc a = .reR) → s.counter = s.q.length ∧ s.counter < s.nw
  cntLast : ∀ a, s.pc a = .csLast → s.counter = s.nw
  nodup : s.q.Nodup
  inQ : ∀ a, a ∈ s.q ↔ InQ (s.pc a)
  qRound : ∀ a, a ∈ s.q → s.roundOf a = s.round
  taskPc : ∀ a, s.kind a = .task → (s.pc a = .idle ∨ s.pc a = .rejected)
  ultPc : ∀ a, s.kind a = .ult → (s.pc a ≠ .reW ∧ s.pc a ≠ .reR)
  entNow : s.entered s.round = s.counter
  entFut : ∀ k, s.round < k → s.entered k = 0
  needNow : 0 < s.counter → s.need s.round = s.nw
  past : ∀ k, k < s.round → (s.entered k = s.need k ∧ 0 < s.need k)
  relRound : ∀ a, Released (s.pc a) → (s.roundOf a < s.round ∨ (s.roundOf a = s.round ∧ s.counter = s.nw))
  csRound : ∀ a, (s.pc a = .csWait ∨ s.pc a = .csLast) → s.roundOf a = s.round
  sampLe : ∀ a, s.samp a ≤ s.fval
  wnyCS : s.wny = true → (s.lock ≠ none ∧ ∀ b, s.lock = some b → s.pc b = .csLast)
  wokenLt : ∀ a, s.kind a ≠ .ult → (s.pc a = .woken ∨ s.pc a = .reR) → (s.samp a < s.fval ∨ s.wny = true)

theorem inv_init (k : Actor → Kind) (n : Nat) (hn : 0 < n) : Inv (init k n) := by
  constructor <;> simp [init, HoldsLock, InQ, Released, hn]

macro "inv_tac" h:ident : tactic => `(tactic|
  (have := ($h).nwPos; have := ($h).lockIff; have := ($h).cntFree; have := ($h).cntWait
   have := ($h).cntIn; have := ($h).cntLast; have := ($h).nodup; have := ($h).inQ
   have := ($h).qRound; have := ($h).taskPc; have := ($h).ultPc; have := ($h).entNow
   have := ($h).entFut; have := ($h).needNow; have := ($h).past; have := ($h).relRound; have := ($h).csRound
   have := ($h).sampLe; have := ($h).wnyCS; have := ($h).wokenLt
   try simp only [setPc, enter] at *
   grind [upd, HoldsLock, InQ, Released]))

macro "close_tac" h:ident hs:ident : tactic => `(tactic|
  first
  | (cases $hs:ident; done)
  | (cases $hs:ident; constructor <;> inv_tac $h))

theorem inv_stepCall (s s' : St) (a : Actor) (h : Inv s) (hs : stepCall s a = some s') : Inv s' := by
  unfold stepCall at hs
  (repeat' (split at hs)) <;> close_tac h hs

theorem inv_stepRet (s s' : St) (a : Actor) (rc : Rc) (h : Inv s) (hs : stepRet s a rc = some s') : Inv s' := by
  unfold stepRet at hs
  split at hs <;> close_tac h hs

theorem inv_stepEnq (s s' : St) (a : Actor) (h : Inv s) (hs : stepEnq s a = some s') : Inv s' := by
  unfold stepEnq at hs
  split at hs <;> close_tac h hs

theorem inv_stepWake (s s' : St) (a n : Actor) (h : Inv s) (hs : stepWake s a n = some s') : Inv s' := by
  unfold stepWake at hs
  (repeat' (split at hs)) <;> close_tac h hs

theorem inv_stepReinit (s s' : St) (n : Nat) (rc : Rc) (h : Inv s) (hs : stepReinit s n rc = some s') : Inv s' := by
  unfold stepReinit at hs
  (repeat' (split at hs)) <;> close_tac h hs

theorem inv_stepFsamp (s s' : St) (a : Actor) (v : Nat) (h : Inv s) (hs : stepFsamp s a v = some s') : Inv s' := by
  unfold stepFsamp at hs
  (repeat' (split at hs)) <;> close_tac h hs

theorem inv_stepFbump (s s' : St) (a : Actor) (v : Nat) (h : Inv s) (hs : stepFbump s a v = some s') : Inv s' := by
  unfold stepFbump at hs
  (repeat' (split at hs)) <;> close_tac h hs

end ArgoVerif.Model.Barrier
