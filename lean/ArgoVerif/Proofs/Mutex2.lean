import ArgoVerif.Proofs.Mutex
/- Proofs.Mutex2 — invariant preservation for the atomic steps (split for build parallelism). -/
namespace ArgoVerif.Model.Mutex
open ArgoVerif
set_option maxHeartbeats 4000000

theorem tasLock_cases (s : St) (a : Actor) (old : Bool) (s' : St) (hs : stepTasLock s a old = some s') :
    old = s.lockW ∧ (s.pc a = .lTry ∨ s.pc a = .lRetry ∨ s.pc a = .tTry ∨ s.pc a = .tTryHeld ∨ s.pc a = .sTry) := by
  unfold stepTasLock at hs
  split at hs
  · cases hs
  · rename_i h
    refine ⟨by simpa using h, ?_⟩
    split at hs <;> simp_all

theorem inv_stepTasLock (s s' : St) (a : Actor) (old : Bool) (h : Inv s) (hs : stepTasLock s a old = some s') : Inv s' := by
  obtain ⟨ho, hp⟩ := tasLock_cases s a old s' hs
  unfold stepTasLock at hs
  rw [if_neg (by simp [ho])] at hs
  rcases hp with hp | hp | hp | hp | hp <;> rw [hp] at hs <;> cases old <;>
    simp only [Bool.false_eq_true, if_false, if_true] at hs <;> close_tac h hs

theorem inv_stepTasW_f (s s' : St) (a : Actor) (h : Inv s) (hs : stepTasW s a false = some s') : Inv s' := by
  unfold stepTasW at hs
  (repeat' (split at hs)) <;> close_tac h hs

theorem inv_stepTasW_t (s s' : St) (a : Actor) (h : Inv s) (hs : stepTasW s a true = some s') : Inv s' := by
  unfold stepTasW at hs
  (repeat' (split at hs)) <;> close_tac h hs

theorem inv_stepClearW (s s' : St) (a : Actor) (h : Inv s) (hs : stepClearW s a = some s') : Inv s' := by
  unfold stepClearW at hs
  split at hs <;> close_tac h hs

theorem inv_stepLoadState (s s' : St) (a : Actor) (r : Bool) (h : Inv s) (hs : stepLoadState s a r = some s') : Inv s' := by
  unfold stepLoadState at hs
  cases r <;> (repeat' (split at hs)) <;> close_tac h hs

theorem inv_stepDeq (s s' : St) (a n : Actor) (h : Inv s) (hs : stepDeq s a n = some s') : Inv s' := by
  unfold stepDeq at hs
  (repeat' (split at hs)) <;> close_tac h hs

theorem inv_stepStoreReady (s s' : St) (a n : Actor) (h : Inv s) (hs : stepStoreReady s a n = some s') : Inv s' := by
  unfold stepStoreReady at hs
  (repeat' (split at hs)) <;> close_tac h hs

theorem inv_bcastDone (s s' : St) (a : Actor) (h : Inv s) (hs : bcastDone s a = some s') : Inv s' := by
  unfold bcastDone at hs
  split at hs <;> close_tac h hs

end ArgoVerif.Model.Mutex
