import ArgoVerif.Model.Stop
/-
Proofs.Stop — lemmas about Model.Stop: the scan of ABTI_sched_has_unit as a statement about every pool, the
loops of sched_create / ABTI_sched_free as arithmetic on num_scheds, the inductive invariant of the
consumer-accounting machine, the request plumbing of one stream.
-/
namespace ArgoVerif.Proofs.Stop
open ArgoVerif ArgoVerif.Model.Stop

/-! ### (a) decisions -/

theorem poolHasUnit_false_iff (p : PoolView) :
    poolHasUnit p = false ↔ p.size = 0 ∧ (p.soleConsumer → p.numBlocked = 0) := by
  obtain ⟨sz, nb, ac, ns⟩ := p
  cases ac <;> simp [poolHasUnit, PoolView.soleConsumer, Access.shared] <;> intro h <;> omega

theorem hasUnit_eq_any (ps : List PoolView) : hasUnit ps = ps.any poolHasUnit := by
  induction ps with
  | nil => rfl
  | cons p ps ih => simp only [hasUnit, List.any_cons, ih]; cases poolHasUnit p <;> simp

theorem hasUnit_false_iff (ps : List PoolView) :
    hasUnit ps = false ↔ ∀ p ∈ ps, p.size = 0 ∧ (p.soleConsumer → p.numBlocked = 0) := by
  rw [hasUnit_eq_any]
  simp only [List.any_eq_false, Bool.not_eq_true]
  constructor
  · intro h p hp; exact (poolHasUnit_false_iff p).1 (h p hp)
  · intro h p hp; exact (poolHasUnit_false_iff p).2 (h p hp)

theorem hasUnit_true_iff (ps : List PoolView) :
    hasUnit ps = true ↔ ∃ p ∈ ps, p.size ≠ 0 ∨ (p.soleConsumer ∧ p.numBlocked ≠ 0) := by
  rw [hasUnit_eq_any, List.any_eq_true]
  constructor
  · rintro ⟨p, hp, h⟩
    refine ⟨p, hp, ?_⟩
    by_cases hs : p.size = 0
    · right
      have : ¬ (p.size = 0 ∧ (p.soleConsumer → p.numBlocked = 0)) := by
        intro hh; have := (poolHasUnit_false_iff p).2 hh; simp [h] at this
      constructor
      · apply Classical.byContradiction; intro hc; exact this ⟨hs, fun h' => absurd h' hc⟩
      · intro hz; exact this ⟨hs, fun _ => hz⟩
    · left; exact hs
  · rintro ⟨p, hp, h⟩
    refine ⟨p, hp, ?_⟩
    cases hh : poolHasUnit p with
    | true => rfl
    | false =>
      have := (poolHasUnit_false_iff p).1 hh
      rcases h with h | ⟨h1, h2⟩
      · exact absurd this.1 h
      · exact absurd (this.2 h1) h2

theorem hasToStop_true_cases (r0 r1 : SchedReq) (v1 v2 : List PoolView) (used : Used)
    (h : hasToStop r0 v1 r1 v2 used = true) :
    r0.exit = true ∨
    (hasUnit v1 = false ∧ (r1.finish = true ∨ r1.replace = true) ∧ hasUnit v2 = false) ∨
    (hasUnit v1 = false ∧ r1.finish = false ∧ r1.replace = false ∧ used = .inPool) := by
  unfold hasToStop at h
  cases he : r0.exit <;> simp [he] at h
  · right
    obtain ⟨h1, h2⟩ := h
    cases hf : r1.finish <;> cases hr : r1.replace <;> simp [hf, hr] at h2 <;> simp [h1, h2]
  · left; rfl

theorem checkEvents_finish (ult : ThreadReq) (r : SchedReq) :
    (checkEvents ult r).finish = (r.finish || ult.join) := by
  cases hj : ult.join <;> cases hc : ult.cancel <;> simp [checkEvents, schedFinish, schedExit, hj, hc]

theorem checkEvents_exit (ult : ThreadReq) (r : SchedReq) :
    (checkEvents ult r).exit = (r.exit || ult.cancel) := by
  cases hj : ult.join <;> cases hc : ult.cancel <;> simp [checkEvents, schedFinish, schedExit, hj, hc]

theorem checkEvents_replace (ult : ThreadReq) (r : SchedReq) :
    (checkEvents ult r).replace = r.replace := by
  cases hj : ult.join <;> cases hc : ult.cancel <;> simp [checkEvents, schedFinish, schedExit, hj, hc]


/-! ### (b) accounting -/

theorem retainAll_apply (ns : PoolId → Int) (ps : List PoolId) (q : PoolId) :
    retainAll ns ps q = ns q + (ps.count q : Int) := by
  induction ps generalizing ns with
  | nil => simp [retainAll]
  | cons p ps ih =>
    simp only [retainAll, ih, List.count_cons]
    by_cases h : q = p
    · subst h; simp; omega
    · have h' : ¬ (p = q) := fun e => h e.symm
      simp [upd, h, h']

theorem releaseAll_ns (pools : List (PoolId × Bool)) (ns : PoolId → Int) (ps : List PoolId) (q : PoolId) :
    (releaseAll pools ns ps).2 q = ns q - (ps.count q : Int) := by
  induction ps generalizing pools ns with
  | nil => simp [releaseAll]
  | cons p ps ih =>
    simp only [releaseAll, ih, List.count_cons]
    by_cases h : q = p
    · subst h; simp; omega
    · have h' : ¬ (p = q) := fun e => h e.symm
      simp [upd, h, h']

theorem poolLive_dropPool (pools : List (PoolId × Bool)) (p q : PoolId) :
    poolLive (dropPool pools p) q = (poolLive pools q && (q != p)) := by
  induction pools with
  | nil => simp [poolLive, dropPool]
  | cons a as ih =>
    simp only [poolLive, dropPool] at ih ⊢
    simp only [List.filter_cons]
    by_cases h : a.1 = p
    · simp only [h, bne_self_eq_false, Bool.false_eq_true, ↓reduceIte, ih, List.any_cons]
      by_cases hq : q = p
      · subst hq; simp
      · have : (p == q) = false := by simp; exact fun e => hq e.symm
        simp [this]
    · have hb : (a.1 != p) = true := by simp [h]
      simp only [hb, ↓reduceIte, List.any_cons, ih]
      by_cases hq : a.1 = q
      · have : (q != p) = true := by simp; rw [← hq]; exact h
        simp [hq, this]
      · have : (a.1 == q) = false := by simp [hq]
        simp [this]

theorem releaseAll_live_mono (pools : List (PoolId × Bool)) (ns : PoolId → Int) (ps : List PoolId) (q : PoolId) :
    poolLive (releaseAll pools ns ps).1 q = true → poolLive pools q = true := by
  induction ps generalizing pools ns with
  | nil => simp [releaseAll]
  | cons p ps ih =>
    simp only [releaseAll]
    intro h
    have := ih _ _ h
    split at this
    · rw [poolLive_dropPool] at this; simp at this; exact this.1
    · exact this

theorem releaseAll_freed_le (pools : List (PoolId × Bool)) (ns : PoolId → Int) (ps : List PoolId) (q : PoolId) :
    poolLive pools q = true → poolLive (releaseAll pools ns ps).1 q = false → (releaseAll pools ns ps).2 q ≤ 0 := by
  induction ps generalizing pools ns with
  | nil => intro h1 h2; simp [releaseAll] at h2; rw [h1] at h2; cases h2
  | cons p ps ih =>
    intro h1 h2
    simp only [releaseAll] at h2 ⊢
    by_cases hc : (poolAuto pools p && (ns p - 1 == 0)) = true
    · simp only [hc, ↓reduceIte] at h2 ⊢
      by_cases hq : q = p
      · subst hq
        rw [releaseAll_ns]
        simp at hc
        have : (0 : Int) ≤ (List.count q ps : Int) := Int.natCast_nonneg _
        simp [upd]; omega
      · apply ih _ _ _ h2
        rw [poolLive_dropPool, h1]; simp [hq]
    · have hc' : (poolAuto pools p && (ns p - 1 == 0)) = false := by
        cases h : (poolAuto pools p && (ns p - 1 == 0)) <;> simp_all
      simp only [hc', Bool.false_eq_true, ↓reduceIte] at h2 ⊢
      exact ih _ _ h1 h2

theorem occ_erase (l : List SchedRec) (r : SchedRec) (p : PoolId) (h : r ∈ l) :
    occ l p = r.pools.count p + occ (l.erase r) p := by
  induction l with
  | nil => cases h
  | cons a as ih =>
    by_cases ha : a = r
    · subst ha; simp [occ]
    · have hm : r ∈ as := by
        rcases List.mem_cons.1 h with h | h
        · exact absurd h.symm ha
        · exact h
      have hne : (a == r) = false := by simp [ha]
      rw [List.erase_cons_tail (by simp [ha])]
      simp only [occ, ih hm]; omega

theorem occ_setUsed (l : List SchedRec) (k : SchedId) (u : Used) (p : PoolId) :
    occ (setUsed l k u) p = occ l p := by
  induction l with
  | nil => rfl
  | cons a as ih =>
    simp only [setUsed, List.map_cons, occ] at ih ⊢
    rw [ih]; split <;> rfl

theorem mem_setUsed (l : List SchedRec) (k : SchedId) (u : Used) (r' : SchedRec) (h : r' ∈ setUsed l k u) :
    ∃ r ∈ l, r'.pools = r.pools ∧ r'.id = r.id ∧ r'.automatic = r.automatic := by
  simp only [setUsed, List.mem_map] at h
  obtain ⟨r, hr, he⟩ := h
  refine ⟨r, hr, ?_⟩
  split at he <;> subst he <;> simp

theorem ids_setUsed (l : List SchedRec) (k : SchedId) (u : Used) :
    (setUsed l k u).map (·.id) = l.map (·.id) := by
  induction l with
  | nil => rfl
  | cons a as ih =>
    simp only [setUsed, List.map_cons] at ih ⊢
    rw [ih]; split <;> rfl

theorem sched?_mem (s : Acc) (k : SchedId) (r : SchedRec) (h : s.sched? k = some r) : r ∈ s.scheds ∧ r.id = k := by
  unfold Acc.sched? at h
  have h1 := List.mem_of_find?_eq_some h
  have h2 := List.find?_some h
  exact ⟨h1, by simpa using h2⟩

theorem sched?_none (s : Acc) (k : SchedId) (h : s.sched? k = none) : k ∉ s.scheds.map (·.id) := by
  unfold Acc.sched? at h
  rw [List.find?_eq_none] at h
  intro hm
  obtain ⟨r, hr, he⟩ := List.mem_map.1 hm
  have := h r hr
  simp [he] at this

/-- the accounting invariant -/
structure AInv (s : Acc) : Prop where
  count : ∀ p, s.ns p = (occ s.scheds p : Int)
  live : ∀ r ∈ s.scheds, ∀ p ∈ r.pools, poolLive s.pools p = true
  ids : (s.scheds.map (·.id)).Nodup

theorem occ_pos_of_mem (l : List SchedRec) (r : SchedRec) (p : PoolId) (hr : r ∈ l) (hp : p ∈ r.pools) :
    0 < occ l p := by
  induction l with
  | nil => cases hr
  | cons a as ih =>
    simp only [occ]
    rcases List.mem_cons.1 hr with h | h
    · subst h
      have := List.count_pos_iff.2 hp
      omega
    · have := ih h; omega

theorem occ_zero_of_dead (s : Acc) (hi : AInv s) (p : PoolId) (hd : poolLive s.pools p = false) :
    occ s.scheds p = 0 := by
  apply Classical.byContradiction
  intro hne
  have hpos : 0 < occ s.scheds p := Nat.pos_of_ne_zero hne
  -- some scheduler has p
  have : ∃ r ∈ s.scheds, p ∈ r.pools := by
    generalize s.scheds = l at hpos
    induction l with
    | nil => simp [occ] at hpos
    | cons a as ih =>
      simp only [occ] at hpos
      by_cases ha : 0 < a.pools.count p
      · exact ⟨a, by simp, List.count_pos_iff.1 ha⟩
      · obtain ⟨r, hr, hp⟩ := ih (by omega)
        exact ⟨r, List.mem_cons_of_mem _ hr, hp⟩
  obtain ⟨r, hr, hp⟩ := this
  have := hi.live r hr p hp
  rw [hd] at this; cases this

theorem inv_freeSched (s : Acc) (r : SchedRec) (hi : AInv s) (hr : r ∈ s.scheds) : AInv (freeSched s r) := by
  constructor
  · intro p
    simp only [freeSched]
    rw [releaseAll_ns, hi.count p, occ_erase s.scheds r p hr]
    omega
  · intro r' hr' p hp
    simp only [freeSched] at hr' ⊢
    have hr'' : r' ∈ s.scheds := List.mem_of_mem_erase hr'
    have hl := hi.live r' hr'' p hp
    cases hd : poolLive (releaseAll s.pools s.ns r.pools).1 p with
    | true => rfl
    | false =>
      have hle := releaseAll_freed_le s.pools s.ns r.pools p hl hd
      rw [releaseAll_ns, hi.count p, occ_erase s.scheds r p hr] at hle
      have := occ_pos_of_mem _ r' p hr' hp
      omega
  · simp only [freeSched]
    exact List.Nodup.sublist (List.Sublist.map _ List.erase_sublist) hi.ids

theorem inv_setUsed (s : Acc) (k : SchedId) (u : Used) (hi : AInv s) :
    AInv { s with scheds := setUsed s.scheds k u } := by
  constructor
  · intro p; simp only [occ_setUsed]; exact hi.count p
  · intro r' hr' p hp
    obtain ⟨r, hr, he, _, _⟩ := mem_setUsed _ _ _ _ hr'
    exact hi.live r hr p (he ▸ hp)
  · simp only [ids_setUsed]; exact hi.ids

theorem inv_discard (s : Acc) (r : SchedRec) (hi : AInv s) (hr : r ∈ s.scheds) : AInv (discard s r) := by
  unfold Model.Stop.discard
  split
  · exact inv_freeSched s r hi hr
  · exact inv_setUsed s r.id .notUsed hi

/-- the invariant speaks about pools, num_scheds and scheduler objects only -/
theorem AInv.congr {s s' : Acc} (hi : AInv s) (hp : s'.pools = s.pools) (hn : s'.ns = s.ns)
    (hk : s'.scheds = s.scheds) : AInv s' := by
  constructor
  · intro p; rw [hn, hk]; exact hi.count p
  · intro r hr p hpp; rw [hk] at hr; rw [hp]; exact hi.live r hr p hpp
  · rw [hk]; exact hi.ids

theorem inv_init : AInv ainit := by
  constructor
  · intro p; simp [ainit, occ]
  · intro r hr; simp [ainit] at hr
  · simp [ainit]

theorem inv_step (s : Acc) (e : AEv) (s' : Acc) (hi : AInv s) (hs : astep s e = some s') : AInv s' := by
  cases e with
  | poolCreate p a =>
    simp only [astep] at hs
    split at hs
    · cases hs
    · rename_i hl
      have hd : poolLive s.pools p = false := by simpa using hl
      cases hs
      constructor
      · intro q
        by_cases hq : q = p
        · subst hq; simp [occ_zero_of_dead s hi q hd]
        · simp [upd, hq]; exact hi.count q
      · intro r hr q hq
        have := hi.live r hr q hq
        simp only [poolLive, List.any_cons] at this ⊢
        simp [this]
      · exact hi.ids
  | poolFree p =>
    simp only [astep] at hs
    split at hs
    · rename_i hc
      cases hs
      simp at hc
      constructor
      · exact hi.count
      · intro r hr q hq
        show poolLive (dropPool s.pools p) q = true
        rw [poolLive_dropPool, hi.live r hr q hq]
        have hpos : 0 < occ s.scheds q := occ_pos_of_mem s.scheds r q hr hq
        have : q ≠ p := by intro e; subst e; omega
        simp [this]
      · exact hi.ids
    · cases hs
  | schedCreate k ps a =>
    simp only [astep] at hs
    split at hs
    · cases hs
    · rename_i hc
      cases hs
      simp only [Bool.or_eq_true, Bool.not_eq_true', not_or, Bool.not_eq_false] at hc
      obtain ⟨hk, hall⟩ := hc
      constructor
      · intro q
        show retainAll s.ns ps q = ((occ (⟨k, ps, a, .notUsed⟩ :: s.scheds) q : Nat) : Int)
        rw [retainAll_apply, hi.count q]; simp only [occ]; omega
      · intro r hr q hq
        rcases List.mem_cons.1 hr with h | h
        · subst h
          exact (List.all_eq_true.1 hall) q hq
        · exact hi.live r h q hq
      · show ((⟨k, ps, a, .notUsed⟩ :: s.scheds).map (·.id)).Nodup
        simp only [List.map_cons, List.nodup_cons]
        refine ⟨?_, hi.ids⟩
        apply sched?_none s k
        cases h : s.sched? k with
        | none => rfl
        | some r => simp [h] at hk
  | schedFree k =>
    simp only [astep] at hs
    split at hs
    · rename_i r hr
      split at hs
      · cases hs; exact inv_freeSched s r hi (sched?_mem s k r hr).1
      · cases hs
    · cases hs
  | streamCreate x k =>
    simp only [astep] at hs
    split at hs
    · split at hs
      · cases hs; exact (inv_setUsed s k .main hi).congr rfl rfl rfl
      · cases hs
    · cases hs
  | replace x k =>
    simp only [astep] at hs
    split at hs
    · split at hs
      · split at hs
        · rename_i ro hro
          cases hs
          exact inv_discard _ ro ((inv_setUsed s k .main hi).congr rfl rfl rfl) (sched?_mem _ _ ro hro).1
        · cases hs
      · cases hs
    · cases hs
  | streamFree x =>
    simp only [astep] at hs
    split at hs
    · split at hs
      · rename_i ro hro
        cases hs
        exact inv_discard _ ro (hi.congr rfl rfl rfl) (sched?_mem _ _ ro hro).1
      · cases hs
    · cases hs
  | join x =>
    simp only [astep] at hs
    split at hs
    · cases hs; exact hi.congr rfl rfl rfl
    · cases hs
  | revive x =>
    simp only [astep] at hs
    split at hs
    · split at hs
      · cases hs; exact hi.congr rfl rfl rfl
      · cases hs
    · cases hs
  | stackPush k =>
    simp only [astep] at hs
    split at hs
    · split at hs
      · cases hs; exact inv_setUsed s k .inPool hi
      · cases hs
    · cases hs
  | stackDone k =>
    simp only [astep] at hs
    split at hs
    · rename_i r hr
      split at hs
      · cases hs; exact inv_discard s r hi (sched?_mem s k r hr).1
      · cases hs
    · cases hs

theorem inv_reachable (s : Acc) (h : amachine.Reachable s) : AInv s :=
  Machine.invariant_reachable amachine AInv inv_init (fun s e s' hi hs => inv_step s e s' hi hs) s h

/-- no scheduler object remembers a replacement that has been carried out -/
theorem stale_step (s : Acc) (e : AEv) (s' : Acc) (hi : ∀ k, s.stale k = false) (hs : astep s e = some s') :
    ∀ k, s'.stale k = false := by
  have hd : ∀ (t : Acc) (r : SchedRec), (∀ k, t.stale k = false) → ∀ k, (Model.Stop.discard t r).stale k = false := by
    intro t r ht k
    simp only [Model.Stop.discard, freeSched]
    split <;> exact ht k
  cases e with
  | poolCreate p a => simp only [astep] at hs; split at hs <;> cases hs; exact hi
  | poolFree p => simp only [astep] at hs; split at hs <;> cases hs; exact hi
  | schedCreate k ps a =>
    simp only [astep] at hs
    split at hs
    · cases hs
    · cases hs; intro j; by_cases h : j = k <;> simp [upd, h, hi j]
  | schedFree k =>
    simp only [astep] at hs
    split at hs
    · split at hs
      · cases hs; intro j; simp only [freeSched]; exact hi j
      · cases hs
    · cases hs
  | streamCreate x k =>
    simp only [astep] at hs
    split at hs
    · split at hs
      · cases hs; exact hi
      · cases hs
    · cases hs
  | replace x k =>
    simp only [astep] at hs
    split at hs
    · split at hs
      · split at hs
        · cases hs
          apply hd
          intro j
          show (if (!s.joined x) = true then upd s.stale _ false else s.stale) j = false
          split
          · simp only [upd]; split <;> simp [hi j]
          · exact hi j
        · cases hs
      · cases hs
    · cases hs
  | streamFree x =>
    simp only [astep] at hs
    split at hs
    · split at hs
      · cases hs; exact hd _ _ hi
      · cases hs
    · cases hs
  | join x => simp only [astep] at hs; split at hs <;> cases hs; exact hi
  | revive x =>
    simp only [astep] at hs
    split at hs
    · split at hs
      · cases hs; exact hi
      · cases hs
    · cases hs
  | stackPush k =>
    simp only [astep] at hs
    split at hs
    · split at hs
      · cases hs; exact hi
      · cases hs
    · cases hs
  | stackDone k =>
    simp only [astep] at hs
    split at hs
    · split at hs
      · cases hs; exact hd _ _ hi
      · cases hs
    · cases hs

theorem stale_reachable (s : Acc) (h : amachine.Reachable s) : ∀ k, s.stale k = false :=
  Machine.invariant_reachable amachine (fun s => ∀ k, s.stale k = false) (fun _ => rfl)
    (fun s e s' hi hs => stale_step s e s' hi hs) s h

/-- if all the entries `p` of all live schedulers add up to 1, one scheduler has it, once -/
theorem occ_one_unique (l : List SchedRec) (p : PoolId) (h1 : occ l p = 1) (hn : (l.map (·.id)).Nodup)
    (r r' : SchedRec) (hr : r ∈ l) (hp : p ∈ r.pools) (hr' : r' ∈ l) (hp' : p ∈ r'.pools) : r' = r := by
  induction l with
  | nil => cases hr
  | cons a as ih =>
    simp only [occ] at h1
    simp only [List.map_cons, List.nodup_cons] at hn
    rcases List.mem_cons.1 hr with e | hm <;> rcases List.mem_cons.1 hr' with e' | hm'
    · rw [e, e']
    · have := occ_pos_of_mem as r' p hm' hp'
      have := List.count_pos_iff.2 (e ▸ hp)
      omega
    · have := occ_pos_of_mem as r p hm hp
      have := List.count_pos_iff.2 (e' ▸ hp')
      omega
    · have h0 : a.pools.count p = 0 := by
        have := occ_pos_of_mem as r p hm hp
        omega
      exact ih (by omega) hn.2 hm hm'

/-- entries of a duplicate-free family of pool arrays: count = number of schedulers having the pool -/
theorem occ_eq_length_filter (l : List SchedRec) (p : PoolId) (hnd : ∀ r ∈ l, r.pools.Nodup) :
    occ l p = (l.filter (fun r => decide (p ∈ r.pools))).length := by
  induction l with
  | nil => rfl
  | cons a as ih =>
    have hrest := ih (fun r hr => hnd r (List.mem_cons_of_mem _ hr))
    simp only [occ, List.filter_cons, hrest]
    have ha := hnd a (by simp)
    by_cases hp : p ∈ a.pools
    · simp [hp, List.Nodup.count ha]; omega
    · simp [hp, List.Nodup.count ha]


/-! ### (c) one stream -/

structure XInv (s : XS) : Prop where
  join : s.joinReq = true → s.ult.join = true
  cancel : s.cancelReq = true → s.ult.cancel = true

theorem xinv_step (s : XS) (e : XEv) (s' : XS) (hi : XInv s) (hs : xstep s e = some s') : XInv s' := by
  cases e with
  | join => simp only [xstep, Option.some.injEq] at hs; subst hs; exact ⟨fun _ => rfl, hi.cancel⟩
  | cancel => simp only [xstep, Option.some.injEq] at hs; subst hs; exact ⟨hi.join, fun _ => rfl⟩
  | apiFinish k => simp only [xstep, Option.some.injEq] at hs; subst hs; exact ⟨hi.join, hi.cancel⟩
  | apiExit k => simp only [xstep, Option.some.injEq] at hs; subst hs; exact ⟨hi.join, hi.cancel⟩
  | checkEvents k => simp only [xstep, Option.some.injEq] at hs; subst hs; exact ⟨hi.join, hi.cancel⟩
  | setMain k =>
    simp only [xstep] at hs
    split at hs
    · cases hs
    · cases hs; exact ⟨hi.join, hi.cancel⟩
  | replace =>
    simp only [xstep] at hs
    split at hs
    · split at hs
      · cases hs; exact ⟨hi.join, hi.cancel⟩
      · cases hs
    · cases hs

theorem xinv_reachable (m : SchedId) (req : SchedId → SchedReq) (s : XS) (h : (xmachine m req).Reachable s) : XInv s :=
  Machine.invariant_reachable (xmachine m req) XInv ⟨by simp [xmachine, xinit], by simp [xmachine, xinit]⟩
    (fun s e s' hi hs => xinv_step s e s' hi hs) s h

/-- a join request is never withdrawn -/
theorem joinReq_step (s : XS) (e : XEv) (s' : XS) (hj : s.joinReq = true) (hs : xstep s e = some s') :
    s'.joinReq = true := by
  cases e with
  | join => simp only [xstep, Option.some.injEq] at hs; subst hs; rfl
  | cancel => simp only [xstep, Option.some.injEq] at hs; subst hs; exact hj
  | apiFinish k => simp only [xstep, Option.some.injEq] at hs; subst hs; exact hj
  | apiExit k => simp only [xstep, Option.some.injEq] at hs; subst hs; exact hj
  | checkEvents k => simp only [xstep, Option.some.injEq] at hs; subst hs; exact hj
  | setMain k =>
    simp only [xstep] at hs
    split at hs
    · cases hs
    · cases hs; exact hj
  | replace =>
    simp only [xstep] at hs
    split at hs
    · split at hs
      · cases hs; exact hj
      · cases hs
    · cases hs

theorem occ_zero_of_none (l : List SchedRec) (p : PoolId) (h : ∀ r ∈ l, p ∉ r.pools) : occ l p = 0 := by
  induction l with
  | nil => rfl
  | cons a as ih =>
    simp only [occ]
    rw [ih (fun r hr => h r (List.mem_cons_of_mem _ hr)), List.count_eq_zero_of_not_mem (h a (by simp))]

theorem occ_eq_one_of_sole (l : List SchedRec) (p : PoolId) (r : SchedRec) (hr : r ∈ l)
    (hn : (l.map (·.id)).Nodup) (honce : r.pools.count p = 1)
    (hsole : ∀ r' ∈ l, p ∈ r'.pools → r' = r) : occ l p = 1 := by
  induction l with
  | nil => cases hr
  | cons a as ih =>
    simp only [occ]
    simp only [List.map_cons, List.nodup_cons] at hn
    by_cases ha : a = r
    · subst ha
      have : occ as p = 0 := by
        apply occ_zero_of_none
        intro r' hr' hp
        have := hsole r' (List.mem_cons_of_mem _ hr') hp
        subst this
        exact hn.1 (List.mem_map.2 ⟨r', hr', rfl⟩)
      omega
    · have hm : r ∈ as := by
        rcases List.mem_cons.1 hr with h | h
        · exact absurd h.symm ha
        · exact h
      have h0 : a.pools.count p = 0 := by
        apply List.count_eq_zero_of_not_mem
        intro hp; exact ha (hsole a (by simp) hp)
      have := ih hm hn.2 (fun r' hr' hp => hsole r' (List.mem_cons_of_mem _ hr') hp)
      omega

end ArgoVerif.Proofs.Stop
