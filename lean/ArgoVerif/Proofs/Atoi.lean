import ArgoVerif.Model.Atoi
import ArgoVerif.Props.C20Spec
/-
Proofs.Atoi — `atoiLoop` computes the saturated decimal value of the digit run
(three phases: blanks, signs, digits) and never leaves a NUL-terminated buffer.
-/
namespace ArgoVerif.Proofs.Atoi
open ArgoVerif.Model.Atoi
open ArgoVerif.Gen.EnvTable
namespace S
export ArgoVerif.Props.C20Spec (isBlank isSign isDigit decVal negative numberOf saturate expected)
end S

/-! ### character classes -/

theorem isBlank_eq (c : Byte) : isBlank c = S.isBlank c := by
  unfold isBlank S.isBlank
  cases (c == 10) <;> cases (c == 9) <;> cases (c == 32) <;> cases (c == 13) <;> rfl

theorem isDigit_eq (c : Byte) : isDigit c = S.isDigit c := by
  unfold isDigit S.isDigit
  by_cases h1 : 48 ≤ c.toNat <;> by_cases h2 : c.toNat ≤ 57 <;> simp [h1, h2]

theorem beq_false_of_toNat_ne (c k : Byte) (h : c.toNat ≠ k.toNat) : (c == k) = false := by
  cases hc : c == k
  · rfl
  · exact absurd (congrArg UInt8.toNat (eq_of_beq hc)) h

theorem digit_facts (c : Byte) (h : S.isDigit c = true) :
    isBlank c = false ∧ (c == 43) = false ∧ (c == 45) = false ∧ isDigit c = true ∧ c.toNat - 48 ≤ 9 := by
  have hd : 48 ≤ c.toNat ∧ c.toNat ≤ 57 := by simpa [S.isDigit] using h
  refine ⟨?_, ?_, ?_, ?_, ?_⟩
  · unfold isBlank
    rw [beq_false_of_toNat_ne c 10, beq_false_of_toNat_ne c 9, beq_false_of_toNat_ne c 32,
      beq_false_of_toNat_ne c 13] <;> simp <;> omega
  · apply beq_false_of_toNat_ne; simp; omega
  · apply beq_false_of_toNat_ne; simp; omega
  · rw [isDigit_eq]; exact h
  · omega

theorem sign_facts (c : Byte) (h : S.isSign c = true) :
    isBlank c = false ∧ (c = 43 ∨ c = 45) := by
  have : c = 43 ∨ c = 45 := by simpa [S.isSign] using h
  refine ⟨?_, this⟩
  rcases this with rfl | rfl <;> decide

/-! ### the overflow test is exact -/

theorem toUInt64_toNat_small (d : Nat) (hd : d ≤ 9) : (d.toUInt64).toNat = d := by
  simp [Nat.toUInt64, UInt64.toNat_ofNat']; omega

theorem overflow_test (val : UInt64) (d : Nat) (hd : d ≤ 9) :
    (val > u64Max / 10 || val * 10 > u64Max - d.toUInt64) = decide (val.toNat * 10 + d > 2^64 - 1) := by
  have h1 : (u64Max / 10).toNat = 1844674407370955161 := by decide
  have hd' := toUInt64_toNat_small d hd
  by_cases h : val.toNat > 1844674407370955161
  · have : val > u64Max / 10 := by rw [gt_iff_lt, UInt64.lt_iff_toNat_lt, h1]; exact h
    simp [this]; omega
  · have hn : ¬ (val > u64Max / 10) := by rw [gt_iff_lt, UInt64.lt_iff_toNat_lt, h1]; exact h
    have hm : (val * 10).toNat = val.toNat * 10 := by
      rw [UInt64.toNat_mul]; simp; omega
    have hs : (u64Max - d.toUInt64).toNat = 2^64 - 1 - d := by
      rw [UInt64.toNat_sub_of_le]; simp [hd', u64Max]
      rw [UInt64.le_iff_toNat_le, hd']; simp [u64Max]; omega
    simp only [hn, decide_false, Bool.false_or]
    simp only [gt_iff_lt, UInt64.lt_iff_toNat_lt, hs, hm]
    rw [decide_eq_decide]; omega

theorem accum_toNat (val : UInt64) (d : Nat) (hd : d ≤ 9) (h : val.toNat * 10 + d ≤ 2^64 - 1) :
    (val * 10 + d.toUInt64).toNat = 10 * val.toNat + d := by
  rw [UInt64.toNat_add, UInt64.toNat_mul, toUInt64_toNat_small d hd]; simp; omega

/-! ### digits -/

/-- Horner step of `decVal` -/
def hstep (a : Nat) (c : Byte) : Nat := 10 * a + (c.toNat - 48)

theorem foldl_hstep_mono (ds : List Byte) (a : Nat) : a ≤ ds.foldl hstep a := by
  induction ds generalizing a with
  | nil => simp
  | cons d ds ih => simp only [List.foldl_cons]; exact Nat.le_trans (by unfold hstep; omega) (ih _)

theorem loop_digits (ds : List Byte) (hds : ∀ c ∈ ds, S.isDigit c = true) (c0 : Byte) (r : List Byte)
    (hc0 : S.isDigit c0 = false) (val : UInt64) (sg rc rd : Bool)
    (hnil : ds = [] → rc = true ∧ rd = true) :
    atoiLoop (ds ++ c0 :: r) val sg rc rd =
      if ds.foldl hstep val.toNat ≤ 2^64 - 1 then .ok sg (UInt64.ofNat (ds.foldl hstep val.toNat)) false
      else .ok sg u64Max true := by
  induction ds generalizing val rc rd with
  | nil =>
    obtain ⟨rfl, rfl⟩ := hnil rfl
    have hd0 : isDigit c0 = false := by rw [isDigit_eq]; exact hc0
    have : val.toNat ≤ 2^64 - 1 := by have := val.toNat_lt; omega
    simp [atoiLoop, hd0]; omega
  | cons d ds ih =>
    obtain ⟨hb, h43, h45, hd, hv⟩ := digit_facts d (hds d (by simp))
    have hds' : ∀ c ∈ ds, S.isDigit c = true := fun c hc => hds c (by simp [hc])
    simp only [List.cons_append, atoiLoop, hb, h43, h45, hd, Bool.false_and, Bool.false_eq_true, if_false,
      if_true, List.foldl_cons]
    rw [show digitVal d = d.toNat - 48 from rfl, overflow_test val _ hv]
    by_cases hov : val.toNat * 10 + (d.toNat - 48) > 2^64 - 1
    · have hm := foldl_hstep_mono ds (hstep val.toNat d)
      have : ¬ (List.foldl hstep (hstep val.toNat d) ds ≤ 2^64 - 1) := by
        unfold hstep at hm ⊢; omega
      simp [hov, this]
    · simp only [hov, decide_false, Bool.false_eq_true, if_false]
      rw [ih hds' _ true true (by intro; exact ⟨rfl, rfl⟩)]
      rw [accum_toNat val _ hv (by omega)]
      rfl

/-! ### signs, blanks, the stop without a digit -/

theorem negative_cons_plus (sg : List Byte) : S.negative (43 :: sg) = S.negative sg := by
  simp [S.negative, List.count_cons]

theorem negative_cons_minus (sg : List Byte) : S.negative (45 :: sg) = !S.negative sg := by
  simp only [S.negative, List.count_cons, beq_self_eq_true, if_true]
  by_cases h : List.count 45 sg % 2 = 1 <;> simp [h] <;> omega

theorem loop_signs (sg : List Byte) (hsg : ∀ c ∈ sg, S.isSign c = true) (rest : List Byte) (s rc : Bool) :
    atoiLoop (sg ++ rest) 0 s rc false =
      atoiLoop rest 0 (s != S.negative sg) (rc || !sg.isEmpty) false := by
  induction sg generalizing s rc with
  | nil => simp [S.negative]
  | cons c sg ih =>
    obtain ⟨hb, hc⟩ := sign_facts c (hsg c (by simp))
    have hsg' : ∀ c ∈ sg, S.isSign c = true := fun c hc => hsg c (by simp [hc])
    rcases hc with rfl | rfl
    · simp only [List.cons_append, atoiLoop, hb, Bool.false_and, Bool.false_eq_true, if_false]
      simp only [beq_self_eq_true, Bool.not_false, Bool.and_self, if_true]
      rw [ih hsg', negative_cons_plus]; simp
    · have : ((45 : Byte) == 43) = false := by decide
      simp only [List.cons_append, atoiLoop, hb, this, Bool.false_and, Bool.false_eq_true, if_false]
      simp only [beq_self_eq_true, Bool.not_false, Bool.and_self, if_true]
      rw [ih hsg', negative_cons_minus]
      cases s <;> cases S.negative sg <;> simp

theorem loop_blanks (bl : List Byte) (hbl : ∀ c ∈ bl, S.isBlank c = true) (rest : List Byte) :
    atoiLoop (bl ++ rest) 0 false false false = atoiLoop rest 0 false false false := by
  induction bl with
  | nil => rfl
  | cons c bl ih =>
    have hb : isBlank c = true := by rw [isBlank_eq]; exact hbl c (by simp)
    have hbl' : ∀ c ∈ bl, S.isBlank c = true := fun c hc => hbl c (by simp [hc])
    simp only [List.cons_append, atoiLoop, hb, Bool.not_false, Bool.and_self, if_true]
    exact ih hbl'

theorem loop_stop (c0 : Byte) (r : List Byte) (s rc : Bool) (hd : S.isDigit c0 = false)
    (hs : S.isSign c0 = false) (hb : rc = true ∨ S.isBlank c0 = false) :
    atoiLoop (c0 :: r) 0 s rc false = .invArg := by
  have hd0 : isDigit c0 = false := by rw [isDigit_eq]; exact hd
  have h2 : (c0 == 43) = false ∧ (c0 == 45) = false := by
    simp only [S.isSign, Bool.or_eq_false_iff] at hs; exact hs
  have h1 : (isBlank c0 && !rc) = false := by
    rcases hb with rfl | hb
    · simp
    · rw [isBlank_eq, hb]; rfl
  simp [atoiLoop, h1, h2.1, h2.2, hd0]

/-! ### list plumbing -/

theorem mem_dropWhile_of_false {p : Byte → Bool} (a : Byte) (hp : p a = false) (l : List Byte)
    (h : a ∈ l) : a ∈ l.dropWhile p := by
  induction l with
  | nil => cases h
  | cons x l ih =>
    by_cases hx : p x = true
    · rw [List.dropWhile_cons_of_pos hx]
      rcases List.mem_cons.mp h with rfl | h
      · rw [hp] at hx; cases hx
      · exact ih h
    · rw [List.dropWhile_cons_of_neg hx]; exact h

theorem dropWhile_head_false {p : Byte → Bool} (l : List Byte) (c : Byte) (r : List Byte)
    (h : l.dropWhile p = c :: r) : p c = false := by
  have := List.head?_dropWhile_not p l
  rw [h] at this
  simpa using this

theorem takeWhile_all {p : Byte → Bool} (l : List Byte) : ∀ c ∈ l.takeWhile p, p c = true := by
  intro c hc
  induction l with
  | nil => simp at hc
  | cons x l ih =>
    by_cases hx : p x = true
    · rw [List.takeWhile_cons_of_pos hx] at hc
      rcases List.mem_cons.mp hc with rfl | h
      · exact hx
      · exact ih h
    · rw [List.takeWhile_cons_of_neg hx] at hc; cases hc

/-! ### `atoi_impl` as a function of the digit run -/

theorem atoiImpl_eq' (buf a sg ds : List Byte) (h0 : (0 : Byte) ∈ buf)
    (ha : a = buf.dropWhile S.isBlank) (hsg : sg = a.takeWhile S.isSign)
    (hds' : ds = (a.dropWhile S.isSign).takeWhile S.isDigit) :
    atoiImpl buf =
      (if ds = [] then Impl.invArg
       else if S.decVal ds ≤ 2^64 - 1 then .ok (S.negative sg) (UInt64.ofNat (S.decVal ds)) false
       else .ok (S.negative sg) u64Max true) := by
  subst ha hsg hds'
  generalize hA : buf.dropWhile S.isBlank = a
  generalize hSG : a.takeWhile S.isSign = sg
  generalize hDS : (a.dropWhile S.isSign).takeWhile S.isDigit = ds
  have hdw : a = buf.dropWhile S.isBlank := hA.symm
  have ha0 : (0 : Byte) ∈ a := by rw [← hA]; exact mem_dropWhile_of_false 0 (by decide) buf h0
  have hb0 : (0 : Byte) ∈ a.dropWhile S.isSign := mem_dropWhile_of_false 0 (by decide) a ha0
  have hr0 : (0 : Byte) ∈ (a.dropWhile S.isSign).dropWhile S.isDigit :=
    mem_dropWhile_of_false 0 (by decide) _ hb0
  have e1 : buf = buf.takeWhile S.isBlank ++ a := by rw [← hA]; exact (List.takeWhile_append_dropWhile).symm
  have e2 : a = sg ++ a.dropWhile S.isSign := by rw [← hSG]; exact (List.takeWhile_append_dropWhile).symm
  have e3 : a.dropWhile S.isSign = ds ++ (a.dropWhile S.isSign).dropWhile S.isDigit := by
    rw [← hDS]; exact (List.takeWhile_append_dropWhile).symm
  have hsgall : ∀ c ∈ sg, S.isSign c = true := by rw [← hSG]; exact takeWhile_all a
  have hdsall : ∀ c ∈ ds, S.isDigit c = true := by rw [← hDS]; exact takeWhile_all _
  obtain ⟨c0, r, hrest⟩ : ∃ c0 r, (a.dropWhile S.isSign).dropWhile S.isDigit = c0 :: r := by
    cases h : (a.dropWhile S.isSign).dropWhile S.isDigit with
    | nil => rw [h] at hr0; cases hr0
    | cons c r => exact ⟨c, r, rfl⟩
  have hc0d : S.isDigit c0 = false := dropWhile_head_false _ c0 r hrest
  unfold atoiImpl
  rw [e1, loop_blanks _ (takeWhile_all buf) a, e2, loop_signs sg hsgall, e3, hrest]
  by_cases hds : ds = []
  · simp only [hds, List.nil_append, if_true]
    -- the stop character is the head of `a.dropWhile isSign`
    have hb : a.dropWhile S.isSign = c0 :: r := by rw [e3, hrest, hds]; rfl
    have hc0s : S.isSign c0 = false := dropWhile_head_false _ c0 r hb
    apply loop_stop c0 r _ _ hc0d hc0s
    by_cases hsg : sg = []
    · right
      have : a = c0 :: r := by rw [e2, hsg, hb]; rfl
      exact dropWhile_head_false buf c0 r (by rw [← this, hA])
    · left
      cases hsg' : sg with
      | nil => exact absurd hsg' hsg
      | cons x xs => simp
  · simp only [hds, if_false]
    rw [loop_digits ds hdsall c0 r hc0d 0 _ _ false (fun h => absurd h hds)]
    have : List.foldl hstep (0 : UInt64).toNat ds = S.decVal ds := rfl
    rw [this]
    simp

theorem atoiImpl_eq (buf : List Byte) (h0 : (0 : Byte) ∈ buf) :
    atoiImpl buf =
      (if ((buf.dropWhile S.isBlank).dropWhile S.isSign).takeWhile S.isDigit = [] then Impl.invArg
       else if S.decVal (((buf.dropWhile S.isBlank).dropWhile S.isSign).takeWhile S.isDigit) ≤ 2^64 - 1 then
        .ok (S.negative ((buf.dropWhile S.isBlank).takeWhile S.isSign))
          (UInt64.ofNat (S.decVal (((buf.dropWhile S.isBlank).dropWhile S.isSign).takeWhile S.isDigit))) false
       else .ok (S.negative ((buf.dropWhile S.isBlank).takeWhile S.isSign)) u64Max true) :=
  atoiImpl_eq' buf _ _ _ h0 rfl rfl rfl

/-! ### never outside the buffer, nothing behind the NUL matters -/

theorem nul_facts : isBlank 0 = false ∧ ((0 : Byte) == 43) = false ∧ ((0 : Byte) == 45) = false ∧
    isDigit 0 = false := by decide

theorem loop_prefix_only (pre post : List Byte) (val : UInt64) (sg rc rd : Bool) :
    atoiLoop (pre ++ 0 :: post) val sg rc rd = atoiLoop (pre ++ [0]) val sg rc rd := by
  induction pre generalizing val sg rc rd with
  | nil =>
    obtain ⟨h1, h2, h3, h4⟩ := nul_facts
    simp [atoiLoop, h1, h2, h3, h4]
  | cons c pre ih =>
    simp only [List.cons_append, atoiLoop]
    split
    · exact ih ..
    · split
      · exact ih ..
      · split
        · exact ih ..
        · split
          · split
            · rfl
            · exact ih ..
          · rfl

theorem loop_no_oob (pre : List Byte) (val : UInt64) (sg rc rd : Bool) :
    atoiLoop (pre ++ [0]) val sg rc rd ≠ .oob := by
  induction pre generalizing val sg rc rd with
  | nil =>
    obtain ⟨h1, h2, h3, h4⟩ := nul_facts
    cases rd <;> simp [atoiLoop, h1, h2, h3, h4]
  | cons c pre ih =>
    simp only [List.cons_append, atoiLoop]
    split
    · exact ih _ _ _ _
    · split
      · exact ih _ _ _ _
      · split
        · exact ih _ _ _ _
        · split
          · split
            · simp
            · exact ih _ _ _ _
          · split <;> simp

/-! ### the typed wrappers -/

theorem numberOf_none_iff (buf : List Byte) :
    S.numberOf buf = none ↔
      ((buf.dropWhile S.isBlank).dropWhile S.isSign).takeWhile S.isDigit = [] := by
  unfold S.numberOf
  simp only
  split <;> simp_all

section wrappers
variable (buf : List Byte) (h0 : (0 : Byte) ∈ buf)
include h0

/-- result of a wrapper from the specification's `expected` -/
def ofExpected : Option (Int × Bool) → Res
  | none => .err errInvArg
  | some (v, f) => .ok v f

theorem abtuAtoi_eq : abtuAtoi buf = ofExpected (S.expected cIntMin cIntMax buf) := by
  unfold abtuAtoi
  rw [atoiImpl_eq buf h0]
  unfold S.expected S.numberOf
  simp only
  generalize ((buf.dropWhile S.isBlank).dropWhile S.isSign).takeWhile S.isDigit = ds
  generalize S.negative ((buf.dropWhile S.isBlank).takeWhile S.isSign) = neg
  by_cases hds : ds = []
  · simp [hds, ofExpected]
  · simp only [hds, if_false]
    generalize S.decVal ds = n
    have e1 : (-cIntMin).toNat = 2147483648 := by decide
    have e2 : cIntMax.toNat = 2147483647 := by decide
    have hu : u64Max.toNat = 2^64 - 1 := by decide
    by_cases hle : n ≤ 2^64 - 1
    · have hn : (UInt64.ofNat n).toNat = n := by
        rw [UInt64.toNat_ofNat']; omega
      simp only [hle, if_true, hn, e1, e2, ofExpected, S.saturate, cIntMin, cIntMax]
      cases neg
      · by_cases h : n > 2147483647
        · have : ¬ ((n : Int) < -2147483648) := by omega
          have h' : (2147483647 : Int) < (n : Int) := by omega
          simp [h, this, h']
        · have : ¬ ((n : Int) < -2147483648) := by omega
          have h' : ¬ (2147483647 : Int) < (n : Int) := by omega
          simp [h, this, h']
      · by_cases h : n > 2147483648
        · have : (-(n : Int) < -2147483648) := by omega
          simp [h, this]
        · have : ¬ (-(n : Int) < -2147483648) := by omega
          have h' : ¬ (2147483647 : Int) < -(n : Int) := by omega
          simp [h, this, h']
    · simp only [hle, if_false, hu, e1, e2, ofExpected, S.saturate, cIntMin, cIntMax]
      cases neg
      · have : ¬ ((n : Int) < -2147483648) := by omega
        have h' : (2147483647 : Int) < (n : Int) := by omega
        simp [this, h']
      · have : (-(n : Int) < -2147483648) := by omega
        simp [this]

theorem abtuAtoui32_eq : abtuAtoui32 buf = ofExpected (S.expected 0 cUint32Max buf) := by
  unfold abtuAtoui32
  rw [atoiImpl_eq buf h0]
  unfold S.expected S.numberOf
  simp only
  generalize ((buf.dropWhile S.isBlank).dropWhile S.isSign).takeWhile S.isDigit = ds
  generalize S.negative ((buf.dropWhile S.isBlank).takeWhile S.isSign) = neg
  by_cases hds : ds = []
  · simp [hds, ofExpected]
  · simp only [hds, if_false]
    generalize S.decVal ds = n
    have hu : u64Max.toNat = 2^64 - 1 := by decide
    have hu0 : (u64Max != 0) = true := by decide
    by_cases hle : n ≤ 2^64 - 1
    · have hn : (UInt64.ofNat n).toNat = n := by
        rw [UInt64.toNat_ofNat']; omega
      have hne : (UInt64.ofNat n != 0) = decide (n ≠ 0) := by
        by_cases hz : n = 0
        · subst hz; simp
        · have : UInt64.ofNat n ≠ 0 := by
            intro h; apply hz; have := congrArg UInt64.toNat h; rw [hn] at this; simpa using this
          simp [this, hz]
      simp only [hle, if_true, hn, hne, ofExpected, S.saturate, cUint32Max]
      cases neg
      · by_cases h : n > 4294967295
        · have h' : (4294967295 : Int) < (n : Int) := by omega
          have : ¬ ((n : Int) < 0) := by omega
          simp [h, this, h']
        · have h' : ¬ (4294967295 : Int) < (n : Int) := by omega
          have : ¬ ((n : Int) < 0) := by omega
          simp [h, this, h']
      · by_cases hz : n = 0
        · subst hz; simp
        · have : (-(n : Int) < 0) := by omega
          simp only [this, if_true, true_or, decide_true, hz, ne_eq, not_false_eq_true]
    · simp only [hle, if_false, hu, hu0, ofExpected, S.saturate, cUint32Max]
      cases neg
      · have h' : (4294967295 : Int) < (n : Int) := by omega
        have : ¬ ((n : Int) < 0) := by omega
        simp [this, h']
      · have : (-(n : Int) < 0) := by omega
        simp only [this, if_true, true_or, decide_true]

theorem abtuAtoui64_eq : abtuAtoui64 buf = ofExpected (S.expected 0 cUint64Max buf) := by
  unfold abtuAtoui64
  rw [atoiImpl_eq buf h0]
  unfold S.expected S.numberOf
  simp only
  generalize ((buf.dropWhile S.isBlank).dropWhile S.isSign).takeWhile S.isDigit = ds
  generalize S.negative ((buf.dropWhile S.isBlank).takeWhile S.isSign) = neg
  by_cases hds : ds = []
  · simp [hds, ofExpected]
  · simp only [hds, if_false]
    generalize S.decVal ds = n
    have hu : u64Max.toNat = 2^64 - 1 := by decide
    have hu0 : (u64Max != 0) = true := by decide
    by_cases hle : n ≤ 2^64 - 1
    · have hn : (UInt64.ofNat n).toNat = n := by
        rw [UInt64.toNat_ofNat']; omega
      have hne : (UInt64.ofNat n != 0) = decide (n ≠ 0) := by
        by_cases hz : n = 0
        · subst hz; simp
        · have : UInt64.ofNat n ≠ 0 := by
            intro h; apply hz; have := congrArg UInt64.toNat h; rw [hn] at this; simpa using this
          simp [this, hz]
      simp only [hle, if_true, hn, hne, ofExpected, S.saturate, cUint64Max]
      cases neg
      · have h' : ¬ (18446744073709551615 : Int) < (n : Int) := by omega
        have : ¬ ((n : Int) < 0) := by omega
        simp [this, h']
      · by_cases hz : n = 0
        · subst hz; simp
        · have : (-(n : Int) < 0) := by omega
          simp only [this, if_true, true_or, decide_true, hz, ne_eq, not_false_eq_true]
    · simp only [hle, if_false, hu, hu0, ofExpected, S.saturate, cUint64Max]
      cases neg
      · have h' : (18446744073709551615 : Int) < (n : Int) := by omega
        have : ¬ ((n : Int) < 0) := by omega
        simp [this, h']
      · have : (-(n : Int) < 0) := by omega
        simp only [this, if_true, true_or, decide_true]

theorem abtuAtosz_eq : abtuAtosz buf = ofExpected (S.expected 0 cSizeMax buf) := by
  unfold abtuAtosz
  have : ¬ (sizeofSizeT = 4) := by decide
  rw [if_neg this, abtuAtoui64_eq buf h0]
  rfl

end wrappers

end ArgoVerif.Proofs.Atoi
