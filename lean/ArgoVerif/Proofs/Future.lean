import ArgoVerif.Model.Future
/-
Proofs.Future — inductive invariant of the future model (one lemma per step function).
-/
namespace ArgoVerif.Model.Future
open ArgoVerif
set_option maxHeartbeats 4000000

/-- program counters at which the actor holds `p_future->lock` -/
def HoldsLock : Pc → Prop
  | .setCS | .setErrCS | .setCbCS | .setCbRun | .setStCS | .setBcCS | .setRelCS | .waitLdCS | .waitCS | .waitEnq | .reW
  | .reR | .passCS | .resetCS | .resetStCS | .freeCS | .freed => True
  | .idle | .rejected | .setCalled | .setErrDone | .setDone | .waitCalled | .waiting | .woken | .waitDone
  | .testCalled | .testDone0 | .testDone1 | .resetCalled | .resetDone | .freeCalled => False

/-- program counters of an actor that is in the wait-list -/
def InQ : Pc → Prop
  | .waitEnq | .waiting | .reW => True
  | .idle | .rejected | .setCalled | .setCS | .setErrCS | .setErrDone | .setCbCS | .setCbRun | .setStCS | .setBcCS
  | .setRelCS | .setDone | .waitCalled | .waitLdCS | .waitCS | .woken | .reR | .passCS | .waitDone
  | .testCalled | .testDone0 | .testDone1 | .resetCalled | .resetCS | .resetStCS | .resetDone
  | .freeCalled | .freeCS | .freed => False

/-- program counters inside ABT_future_wait past the tasklet check -/
def InWait : Pc → Prop
  | .waitCalled | .waitLdCS | .waitCS | .waitEnq | .waiting | .reW | .woken | .reR | .passCS | .waitDone => True
  | .idle | .rejected | .setCalled | .setCS | .setErrCS | .setErrDone | .setCbCS | .setCbRun | .setStCS | .setBcCS
  | .setRelCS | .setDone | .testCalled | .testDone0 | .testDone1 | .resetCalled | .resetCS | .resetStCS
  | .resetDone | .freeCalled | .freeCS | .freed => False

/-- callers whose observation was "all compartments set" -/
def SawReady : Pc → Prop
  | .woken | .reR | .passCS | .waitDone | .testDone1 => True
  | .idle | .rejected | .setCalled | .setCS | .setErrCS | .setErrDone | .setCbCS | .setCbRun | .setStCS | .setBcCS
  | .setRelCS | .setDone | .waitCalled | .waitLdCS | .waitCS | .waitEnq | .waiting | .reW | .testCalled
  | .testDone0 | .resetCalled | .resetCS | .resetStCS | .resetDone | .freeCalled | .freeCS | .freed => False

/-- between the compartment store and the counter store of a successful set -/
def Staged : Pc → Prop
  | .setCbCS | .setCbRun | .setStCS => True
  | .idle | .rejected | .setCalled | .setCS | .setErrCS | .setErrDone | .setBcCS | .setRelCS | .setDone
  | .waitCalled | .waitLdCS | .waitCS | .waitEnq | .waiting | .reW | .woken | .reR | .passCS | .waitDone
  | .testCalled | .testDone0 | .testDone1 | .resetCalled | .resetCS | .resetStCS | .resetDone
  | .freeCalled | .freeCS | .freed => False

/-- program counters that cannot occur when the future has no compartment -/
def NeedsComp : Pc → Prop
  | .setCbCS | .setCbRun | .setStCS | .setBcCS | .setRelCS | .setDone | .waitCS | .waitEnq | .waiting | .reW | .woken
  | .reR | .testDone0 => True
  | .idle | .rejected | .setCalled | .setCS | .setErrCS | .setErrDone | .waitCalled | .waitLdCS | .passCS
  | .waitDone | .testCalled | .testDone1 | .resetCalled | .resetCS | .resetStCS | .resetDone
  | .freeCalled | .freeCS | .freed => False

structure Inv (s : St) : Prop where
  lockIff : ∀ a, s.lock = some a ↔ HoldsLock (s.pc a)
  nodup : s.q.Nodup
  inQ : ∀ a, a ∈ s.q ↔ InQ (s.pc a)
  taskPc : ∀ a, s.kind a = .task → ¬ InWait (s.pc a)
  ultPc : ∀ a, s.kind a = .ult → (s.pc a ≠ .reW ∧ s.pc a ≠ .reR)
  cntLe : s.counter ≤ s.n
  cntSets : s.counter = s.sets s.epoch
  fut : ∀ k, s.epoch < k → (s.sets k = 0 ∧ s.cbRuns k = 0 ∧ s.cbBeg k = 0)
  noLost : s.q ≠ [] → s.counter = s.n → (s.lock ≠ none ∧ ∀ b, s.lock = some b → s.pc b = .setBcCS)
  csNotFull : ∀ a, s.pc a = .waitCS → s.counter < s.n
  bcFull : ∀ a, s.pc a = .setBcCS → s.counter = s.n
  relNotFull : ∀ a, s.pc a = .setRelCS → s.counter < s.n
  valsFree : s.lock = none → s.vals.length = s.counter
  valsHeld : ∀ a, HoldsLock (s.pc a) → ¬ Staged (s.pc a) → s.vals.length = s.counter
  staged : ∀ a, Staged (s.pc a) → (s.vals.length = s.counter + 1 ∧ s.loc a = s.counter + 1 ∧ s.loc a ≤ s.n)
  cbStage : ∀ a, s.pc a = .setCbCS → (s.loc a = s.n ∧ s.hasCb = true ∧ s.cbRuns s.epoch = 0 ∧ s.cbBeg s.epoch = 0)
  cbRunStage : ∀ a, s.pc a = .setCbRun → (s.loc a = s.n ∧ s.hasCb = true ∧ s.cbRuns s.epoch = 0 ∧ s.cbBeg s.epoch = 1)
  stStage : ∀ a, s.pc a = .setStCS →
    ((s.cbRuns s.epoch = if s.loc a = s.n ∧ s.hasCb = true then 1 else 0) ∧ s.cbBeg s.epoch = s.cbRuns s.epoch)
  begFree : s.lock = none → s.cbBeg s.epoch = s.cbRuns s.epoch
  begHeld : ∀ a, HoldsLock (s.pc a) → ¬ Staged (s.pc a) → s.cbBeg s.epoch = s.cbRuns s.epoch
  begLe : ∀ k, s.cbBeg k ≤ 1
  cbFree : s.lock = none → (s.cbRuns s.epoch = if s.counter = s.n ∧ s.hasCb = true ∧ 0 < s.n then 1 else 0)
  cbHeld : ∀ a, HoldsLock (s.pc a) → ¬ Staged (s.pc a) →
    (s.cbRuns s.epoch = if s.counter = s.n ∧ s.hasCb = true ∧ 0 < s.n then 1 else 0)
  cbLe : ∀ k, s.cbRuns k ≤ 1
  cbFull : s.counter = s.n → s.hasCb = true → 0 < s.n → s.cbRuns s.epoch = 1
  sawOK : ∀ a, SawReady (s.pc a) →
    (s.sets (s.relEpoch a) = s.n ∧ s.relEpoch a ≤ s.epoch ∧ (s.hasCb = true → 0 < s.n → s.cbRuns (s.relEpoch a) = 1))
  zero : s.n = 0 → ((∀ a, ¬ NeedsComp (s.pc a)) ∧ s.q = [] ∧ s.vals = [] ∧ ∀ k, s.cbRuns k = 0)
  zeroBeg : s.n = 0 → ∀ k, s.cbBeg k = 0

theorem inQ_inWait (p : Pc) (h : InQ p) : InWait p := by cases p <;> simp_all [InQ, InWait]
theorem inQ_needs (p : Pc) (h : InQ p) : NeedsComp p := by cases p <;> simp_all [InQ, NeedsComp]

theorem inv_init (k : Actor → Kind) (n : Nat) (c : Bool) : Inv (init k n c) := by
  constructor <;> simp [init, HoldsLock, InQ, InWait, SawReady, Staged, NeedsComp]
  all_goals (first | omega | grind)

macro "inv_tac" h:ident : tactic => `(tactic|
  (have := ($h).lockIff; have := ($h).nodup; have := ($h).inQ; have := ($h).taskPc; have := ($h).ultPc
   have := ($h).cntLe; have := ($h).cntSets; have := ($h).fut; have := ($h).noLost; have := ($h).csNotFull
   have := ($h).bcFull; have := ($h).relNotFull; have := ($h).valsFree; have := ($h).valsHeld; have := ($h).staged
   have := ($h).cbStage; have := ($h).cbRunStage; have := ($h).stStage; have := ($h).begFree; have := ($h).begHeld
   have := ($h).begLe; have := ($h).zeroBeg; have := ($h).cbFree; have := ($h).cbHeld; have := ($h).cbLe; have := ($h).cbFull
   have := ($h).sawOK; have := ($h).zero
   try simp only [setPc, lockAs, unlockAs, store] at *
   grind [upd, HoldsLock, InQ, InWait, SawReady, Staged, NeedsComp]))

macro "close_tac" h:ident hs:ident : tactic => `(tactic|
  first
  | (cases $hs:ident; done)
  | (cases $hs:ident; constructor <;> inv_tac $h))

/-- frame lemma for returns: an actor that holds nothing and is not queued may go back to `idle` -/
theorem inv_retire (s : St) (a : Actor) (h : Inv s) (h1 : ¬ HoldsLock (s.pc a)) (h2 : ¬ InQ (s.pc a)) :
    Inv (setPc s a .idle) := by
  constructor <;> inv_tac h

/-- ABT_future_free returns: the caller keeps the lock word for ever -/
theorem inv_freed (s : St) (a : Actor) (h : Inv s) (hp : s.pc a = .freeCS) : Inv (setPc s a .freed) := by
  constructor <;> inv_tac h

theorem inv_stepRet (s s' : St) (a : Actor) (op : Op) (rc : Rc) (r : Bool) (h : Inv s)
    (hs : stepRet s a op rc r = some s') : Inv s' := by
  unfold stepRet at hs
  (repeat' (split at hs)) <;>
    first
    | (cases hs; done)
    | (cases hs; rename_i hp; exact inv_retire s a h (by rw [hp]; simp [HoldsLock]) (by rw [hp]; simp [InQ]))
    | (cases hs; rename_i hp _; exact inv_retire s a h (by rw [hp]; simp [HoldsLock]) (by rw [hp]; simp [InQ]))
    | (cases hs; rename_i hp; exact inv_freed s a h hp)

theorem chk_some (s s' : St) (c n : Nat) (e : Bool) (hs : chk s c n e = some s') :
    s' = s ∧ c = s.counter ∧ n = s.n ∧ e = s.q.isEmpty := by
  unfold chk at hs
  split at hs
  · cases hs; simp_all
  · cases hs

end ArgoVerif.Model.Future
