import ArgoVerif.Proofs.PopWaitC4
/- Proofs.PopWaitC4c — timing invariant: the `is_empty` load that returns 1 (pool seen empty). -/
namespace ArgoVerif.Model.PopWait
open ArgoVerif
set_option maxHeartbeats 2000000

theorem invC_loadEmpty_true (k : Kind) (s s' : St) (a : Actor) (hA : InvA k s) (h : InvC k s)
    (hs : stepLoadEmpty s a true = some s') : InvC k (bump s' (some a)) := by
  unfold stepLoadEmpty at hs
  split at hs
  · cases hs
  · rename_i hv
    have hv : true = s.flag := by simpa using hv
    have hq : s.q = [] := hA.flagIff.mp hv.symm
    simp only [if_true, hq, decide_true, afterEmpty] at hs
    (repeat' (split at hs)) <;> pointwise hA h a hs

theorem invC_loadEmpty (k : Kind) (s s' : St) (a : Actor) (v : Bool) (hA : InvA k s) (h : InvC k s)
    (hs : stepLoadEmpty s a v = some s') : InvC k (bump s' (some a)) := by
  cases v
  · exact invC_loadEmpty_false k s s' a hA h hs
  · exact invC_loadEmpty_true k s s' a hA h hs

end ArgoVerif.Model.PopWait
