import ArgoVerif.Proofs.WaitList2
import ArgoVerif.Proofs.WaitList3
/- Proofs.WaitListAll — the wait-list invariant is inductive for the whole step function. -/
namespace ArgoVerif.Model.WaitList
open ArgoVerif

theorem inv_step (s s' : St) (e : Ev) (h : Inv s) (hs : step s e = some s') : Inv s' := by
  cases e with
  | begin a => exact inv_stepBegin s s' a h hs
  | tasL a old => exact inv_stepTasL s s' a old h hs
  | clearL a => exact inv_stepClearL s s' a h hs
  | obsL v => simp only [step] at hs; split at hs <;> simp_all
  | enq a t => exact inv_stepEnq s s' a t h hs
  | storeBlocked a => exact inv_stepStoreBlocked s s' a h hs
  | loadState a r => exact inv_stepLoadState s s' a r h hs
  | deq a n => exact inv_stepDeq s s' a n h hs
  | storeReady a n => exact inv_stepStoreReady s s' a n h hs
  | timeCheck a e => exact inv_stepTimeCheck s s' a e h hs
  | rm a => exact inv_stepRm s s' a h hs

theorem inv_reachable (u : Actor → Bool) (s : St) (h : (machine u).Reachable s) : Inv s :=
  Machine.invariant_reachable (machine u) Inv (inv_init u) (fun s e s' hi hs => inv_step s s' e hi hs) s h

/-- frame: a step changes the program counter of the acting actor only — except the READY store,
which also completes the wait of the (ULT) node it wakes -/
theorem pc_frame (s s' : St) (e : Ev) (hs : step s e = some s') (b : Actor) :
    s'.pc b = s.pc b ∨ (match e with
      | .begin a | .tasL a _ | .clearL a | .enq a _ | .storeBlocked a | .loadState a _ | .deq a _
      | .timeCheck a _ | .rm a => b = a
      | .storeReady a n => b = a ∨ b = n
      | .obsL _ => False) := by
  cases e <;> simp only [step, stepBegin, stepTasL, stepClearL, stepEnq, stepStoreBlocked, stepLoadState,
    stepDeq, stepStoreReady, stepTimeCheck, stepRm] at hs <;>
    (repeat' (split at hs)) <;>
    (first | (cases hs; done) | (cases hs; simp only [setPc, takeL, dropL, upd]; grind))

end ArgoVerif.Model.WaitList
