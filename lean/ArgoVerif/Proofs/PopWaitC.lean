import ArgoVerif.Proofs.PopWaitF2
/- Proofs.PopWaitC — per-actor timing invariant of the blocking pops (statement, monotonicity, first steps). -/
namespace ArgoVerif.Model.PopWait
open ArgoVerif
set_option maxHeartbeats 1000000

/-- positions inside `thread_queue_acquire_spinlock_if_not_empty` + pop + release -/
def LoopA : Pc → Prop
  | .aTop | .aTry | .aSpinE | .aSpinL | .aCs | .aRel => True
  | _ => False

/-- position index of a FIFO_WAIT blocking pop (its own steps so far are bounded by it) -/
def fwIdx : Pc → Option Nat
  | .fwLock => some 0 | .fwCheck => some 1 | .fwClock => some 2 | .fwWait => some 3 | .fwSleep => some 4
  | .fwRelock => some 5 | .fwCs => some 6 | .fwUnl => some 7 | .retp => some 8
  | _ => none

/-- what is known about one actor's call in progress (all values are that actor's; `now` is the global clock) -/
structure TimeOk (k : Kind) (now : Nat) (pc : Pc) (cur : Call) (got : Option Nat) (start : Option Nat)
    (wake reads steps : Nat) (saw ep : Bool) (lastRead base : Nat) : Prop where
  c1 : (pc = .wTime ∨ pc = .wSleep ∨ pc = .fwClock) → ∃ t tl, cur = .popWait t tl
  c2 : (pc = .tSleep ∨ pc = .tTime) → ∃ abs, cur = .popTimedwait abs
  c3 : (pc = .psAcq ∨ pc = .psSpin ∨ pc = .psCs ∨ pc = .psRel ∨ pc = .fpLock ∨ pc = .fpCs ∨ pc = .fpSig ∨ pc = .fpUnl) →
        ∃ u, cur = .push u
  c4 : (pc = .fnCheck ∨ pc = .fnLock ∨ pc = .fnCs ∨ pc = .fnUnl) → ∃ tl, cur = .pop tl
  g1 : ∀ u, got = some u → (pc = .aRel ∨ pc = .fnUnl ∨ pc = .fwUnl ∨ pc = .retp)
  s1 : (pc = .aTry ∨ pc = .aSpinE ∨ pc = .aSpinL ∨ pc = .aCs ∨ pc = .aRel) → saw = true
  s2 : ∀ u, k = .poll → got = some u → saw = true
  e0 : (∀ u, cur ≠ .push u) → pc = .retp → got = none → ep = true
  e1 : (pc = .aRel ∨ pc = .fnUnl ∨ pc = .fwUnl) → got = none → ep = true
  e2 : (pc = .wTime ∨ pc = .tSleep ∨ pc = .tTime) → ep = true
  w1 : ∀ t tl, k = .poll → cur = .popWait t tl → (LoopA pc ∨ pc = .wTime ∨ pc = .wSleep) → start = none → reads = 0
  w2 : ∀ t tl s0, k = .poll → cur = .popWait t tl → (LoopA pc ∨ pc = .wTime ∨ pc = .wSleep) → start = some s0 →
        1 ≤ reads ∧ 100 * reads ≤ t + 100 ∧ (pc ≠ .wSleep → s0 + 100 * reads ≤ now) ∧ (pc = .wSleep → s0 + 100 * reads ≤ wake)
  w3 : ∀ t tl, k = .poll → cur = .popWait t tl → (LoopA pc ∨ pc = .wTime ∨ pc = .wSleep) → 100 * reads ≤ t + 100
  w4 : ∀ t tl, k = .poll → cur = .popWait t tl → pc = .retp → got = none → ∃ s0, start = some s0 ∧ s0 + t < lastRead
  w5 : ∀ t tl, k = .poll → cur = .popWait t tl → pc = .retp → 100 * reads ≤ t + 200
  w6 : ∀ t tl, k = .poll → cur = .popWait t tl → saw = false → pc ≠ .idle →
        (pc = .aTop ∧ steps = 3 * reads) ∨ (pc = .wTime ∧ steps = 3 * reads + 1) ∨ (pc = .wSleep ∧ steps + 1 = 3 * reads) ∨
        (pc = .retp ∧ steps + 1 = 3 * reads)
  t1 : ∀ abs, k = .poll → cur = .popTimedwait abs → (LoopA pc ∨ pc = .tSleep ∨ pc = .tTime) →
        100 * reads ≤ abs - base ∧ (pc ≠ .tSleep → base + 100 * reads ≤ now) ∧ (pc = .tSleep → base + 100 * (reads + 1) ≤ wake) ∧
        (pc = .tTime → base + 100 * (reads + 1) ≤ now)
  t2 : ∀ abs, k = .poll → cur = .popTimedwait abs → pc = .retp → got = none → abs < lastRead
  t3 : ∀ abs, k = .poll → cur = .popTimedwait abs → pc = .retp → 100 * reads ≤ (abs - base) + 100
  f1 : ∀ t tl, cur = .popWait t tl → pc = .fwWait → wake = lastRead + t
  f2 : ∀ t tl, cur = .popWait t tl → pc = .fwSleep → wake ≤ lastRead + t
  f3 : ∀ abs, cur = .popTimedwait abs → (pc = .fwWait ∨ pc = .fwSleep) → wake ≤ abs
  f4 : k = .fwait → (∀ u, cur ≠ .push u) → (∀ tl, cur ≠ .pop tl) → ∀ n, fwIdx pc = some n → steps ≤ n

def InvC (k : Kind) (s : St) : Prop :=
  ∀ a, TimeOk k s.now (s.pc a) (s.cur a) (s.got a) (s.start a) (s.wake a) (s.reads a) (s.steps a) (s.sawItems a)
    (s.emptyAtPoll a) (s.lastRead a) (s.base a)

theorem timeOk_mono {k : Kind} {now now' : Nat} {pc cur got start wake reads steps saw ep lastRead base}
    (h : TimeOk k now pc cur got start wake reads steps saw ep lastRead base) (hle : now ≤ now') :
    TimeOk k now' pc cur got start wake reads steps saw ep lastRead base := by
  refine ⟨h.c1, h.c2, h.c3, h.c4, h.g1, h.s1, h.s2, h.e0, h.e1, h.e2, h.w1, ?_, h.w3, h.w4, h.w5, h.w6, ?_, h.t2, h.t3, h.f1, h.f2, h.f3, h.f4⟩
  · intro t tl s0 a b c d
    obtain ⟨x1, x2, x3, x4⟩ := h.w2 t tl s0 a b c d
    exact ⟨x1, x2, fun e => Nat.le_trans (x3 e) hle, x4⟩
  · intro abs a b c
    obtain ⟨x1, x2, x3, x4⟩ := h.t1 abs a b c
    exact ⟨x1, fun e => Nat.le_trans (x2 e) hle, x3, fun e => Nat.le_trans (x4 e) hle⟩

theorem invC_init (k : Kind) : InvC k init := by
  intro a
  constructor <;> simp [init, LoopA, fwIdx]

/-- tactic for the acting actor: every clause of the new `TimeOk` from the relevant clauses of the old one;
`p`, `f` : the actor's old program counter is on the pool kind's side -/
macro "tk" h:ident p:ident f:ident : tactic => `(tactic|
  (constructor
   · have := ($h).c1; grind
   · have := ($h).c2; grind
   · have := ($h).c3; grind
   · have := ($h).c4; grind
   · have := ($h).g1; grind
   · have := ($h).s1; grind
   · have := $p; have := ($h).g1; have := ($h).s1; have := ($h).s2; grind [FwPc]
   · have := ($h).c3; have := ($h).e0; have := ($h).e1; have := ($h).e2; grind
   · have := ($h).e1; grind
   · have := ($h).e1; have := ($h).e2; grind
   · have := $p; have := ($h).c2; have := ($h).w1; grind [LoopA, FwPc]
   · have := $p; have := ($h).c2; have := ($h).w1; have := ($h).w2; grind [LoopA, FwPc]
   · have := $p; have := ($h).c2; have := ($h).w1; have := ($h).w2; have := ($h).w3; grind [LoopA, FwPc]
   · have := $p; have := ($h).c3; have := ($h).w2; have := ($h).w4; grind [LoopA, FwPc]
   · have := $p; have := ($h).c3; have := ($h).w3; have := ($h).w5; grind [LoopA, FwPc]
   · have := $p; have := ($h).c2; have := ($h).c3; have := ($h).w6; grind [LoopA, FwPc]
   · have := $p; have := ($h).c1; have := ($h).t1; grind [LoopA, FwPc]
   · have := $p; have := ($h).c1; have := ($h).c3; have := ($h).t1; have := ($h).t2; grind [LoopA, FwPc]
   · have := $p; have := ($h).c1; have := ($h).c3; have := ($h).t1; have := ($h).t3; grind [LoopA, FwPc]
   · have := ($h).f1; grind
   · have := ($h).f1; have := ($h).f2; grind
   · have := ($h).f3; grind
   · have := $f; have := ($h).c3; have := ($h).c4; have := ($h).f4; grind [fwIdx, PollPc]))

/-- the other actors: nothing of theirs changed, the clock did not go back -/
macro "other" h:ident b:ident hb:ident : tactic => `(tactic|
  (have hb0 := $h $b
   simp only [bump, setPc, takeL, dropL, linkQ, upd, $hb:ident, if_false] at hb0 ⊢
   first | exact hb0 | exact timeOk_mono hb0 (by simp_all <;> omega)))

macro "acting" hA:ident h:ident a:ident : tactic => `(tactic|
  (have hb0 := $h $a
   have hkP := fun e => ($hA).kindP e $a
   have hkF := fun e => ($hA).kindF e $a
   simp only [bump, setPc, takeL, dropL, linkQ, upd, if_true] at hb0 ⊢
   tk hb0 hkP hkF))

/-- after the case analysis of a step function: conclude for every actor -/
macro "pointwise" hA:ident h:ident a:ident hs:ident : tactic => `(tactic|
  first
  | (cases $hs:ident; done)
  | (cases $hs:ident
     intro b
     by_cases hb : b = $a
     · subst hb; acting $hA $h b
     · other $h b hb))

end ArgoVerif.Model.PopWait
