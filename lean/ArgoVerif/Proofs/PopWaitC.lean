import ArgoVerif.Proofs.PopWaitF2
/- Proofs.PopWaitC — per-actor timing invariant of the blocking pops (statement, monotonicity, first steps). -/
namespace ArgoVerif.Model.PopWait
open ArgoVerif
set_option maxHeartbeats 1000000

/-- positions inside `thread_queue_acquire_spinlock_if_not_empty` + pop + release -/
def LoopA : Pc → Prop
  | .aTop | .aTry | .aSpinE | .aSpinL | .aCs | .aRel => True
  | _ => False

/-- position index of a FIFO_WAIT blocking pop (its own steps so far are bounded by it) -/
def fwIdx : Pc → Option Nat
  | .fwLock => some 0 | .fwCheck => some 1 | .fwClock => some 2 | .fwWait => some 3 | .fwSleep => some 4
  | .fwRelock => some 5 | .fwCs => some 6 | .fwUnl => some 7 | .retp => some 8
  | _ => none

/-- what is known about one actor's call in progress (all values are that actor's; `now` is the global clock) -/
structure TimeOk (k : Kind) (now : Nat) (pc : Pc) (cur : Call) (got : Option Nat) (start : Option Nat)
    (wake reads steps : Nat) (saw ep : Bool) (lastRead base : Nat) : Prop where
  e0 : (∀ u, cur ≠ .push u) → pc = .retp → got = none → ep = true
  e1 : (pc = .aRel ∨ pc = .fnUnl ∨ pc = .fwUnl) → got = none → ep = true
  e2 : (pc = .wTime ∨ pc = .tSleep ∨ pc = .tTime) → ep = true
  w1 : ∀ t tl, k = .poll → cur = .popWait t tl → (LoopA pc ∨ pc = .wTime ∨ pc = .wSleep) → start = none → reads = 0
  w2 : ∀ t tl s0, k = .poll → cur = .popWait t tl → (LoopA pc ∨ pc = .wTime ∨ pc = .wSleep) → start = some s0 →
        1 ≤ reads ∧ 100 * reads ≤ t + 100 ∧ (pc ≠ .wSleep → s0 + 100 * reads ≤ now) ∧ (pc = .wSleep → s0 + 100 * reads ≤ wake)
  w4 : ∀ t tl, k = .poll → cur = .popWait t tl → pc = .retp → got = none → ∃ s0, start = some s0 ∧ s0 + t < lastRead
  w5 : ∀ t tl, k = .poll → cur = .popWait t tl → pc = .retp → 100 * reads ≤ t + 200
  w6 : ∀ t tl, k = .poll → cur = .popWait t tl → saw = false → pc ≠ .idle →
        (pc = .aTop ∧ steps = 3 * reads) ∨ (pc = .wTime ∧ steps = 3 * reads + 1) ∨ (pc = .wSleep ∧ steps + 1 = 3 * reads) ∨
        (pc = .retp ∧ steps + 1 = 3 * reads)
  t1 : ∀ abs, k = .poll → cur = .popTimedwait abs → (LoopA pc ∨ pc = .tSleep ∨ pc = .tTime) →
        100 * reads ≤ abs - base ∧ (pc ≠ .tSleep → base + 100 * reads ≤ now) ∧ (pc = .tSleep → base + 100 * (reads + 1) ≤ wake) ∧
        (pc = .tTime → base + 100 * (reads + 1) ≤ now)
  t2 : ∀ abs, k = .poll → cur = .popTimedwait abs → pc = .retp → got = none → abs < lastRead
  t3 : ∀ abs, k = .poll → cur = .popTimedwait abs → pc = .retp → 100 * reads ≤ (abs - base) + 100
  f1 : ∀ t tl, cur = .popWait t tl → pc = .fwWait → wake = lastRead + t
  f2 : ∀ t tl, cur = .popWait t tl → pc = .fwSleep → wake ≤ lastRead + t
  f3 : ∀ abs, cur = .popTimedwait abs → (pc = .fwWait ∨ pc = .fwSleep) → wake ≤ abs
  f4 : k = .fwait → (∀ u, cur ≠ .push u) → (∀ tl, cur ≠ .pop tl) → ∀ n, fwIdx pc = some n → steps ≤ n

def InvC (k : Kind) (s : St) : Prop :=
  ∀ a, TimeOk k s.now (s.pc a) (s.cur a) (s.got a) (s.start a) (s.wake a) (s.reads a) (s.steps a) (s.sawItems a)
    (s.emptyAtPoll a) (s.lastRead a) (s.base a)

theorem timeOk_mono {k : Kind} {now now' : Nat} {pc cur got start wake reads steps saw ep lastRead base}
    (h : TimeOk k now pc cur got start wake reads steps saw ep lastRead base) (hle : now ≤ now') :
    TimeOk k now' pc cur got start wake reads steps saw ep lastRead base := by
  refine ⟨h.e0, h.e1, h.e2, h.w1, ?_, h.w4, h.w5, h.w6, ?_, h.t2, h.t3, h.f1, h.f2, h.f3, h.f4⟩
  · intro t tl s0 a b c d
    obtain ⟨x1, x2, x3, x4⟩ := h.w2 t tl s0 a b c d
    exact ⟨x1, x2, fun e => Nat.le_trans (x3 e) hle, x4⟩
  · intro abs a b c
    obtain ⟨x1, x2, x3, x4⟩ := h.t1 abs a b c
    exact ⟨x1, fun e => Nat.le_trans (x2 e) hle, x3, fun e => Nat.le_trans (x4 e) hle⟩

theorem invC_init (k : Kind) : InvC k init := by
  intro a
  constructor <;> simp [init, LoopA, fwIdx]

/-- tactic for the acting actor: every clause of the new `TimeOk` from the clauses of the old one -/
macro "tk" h:ident : tactic => `(tactic|
  (have a0 := ($h).e0; have a1 := ($h).e1; have a2 := ($h).e2; have a3 := ($h).w1; have a4 := ($h).w2; have a5 := ($h).w4
   have a6 := ($h).w5; have a7 := ($h).w6; have a8 := ($h).t1; have a9 := ($h).t2; have a10 := ($h).t3
   have a11 := ($h).f1; have a12 := ($h).f2; have a13 := ($h).f3; have a14 := ($h).f4
   constructor <;> grind [LoopA, fwIdx]))

end ArgoVerif.Model.PopWait
