import ArgoVerif.Model.PopWait
/- Proofs.PopWait — structural invariant of the blocking-pop model (locks, flag, condition variable). -/
namespace ArgoVerif.Model.PopWait
open ArgoVerif
set_option maxHeartbeats 4000000

/-- program counters at which the actor holds the spinlock / the mutex -/
def HasLock : Pc → Prop
  | .psCs | .psRel | .aCs | .aRel | .fpCs | .fpSig | .fpUnl | .fnCs | .fnUnl
  | .fwCheck | .fwClock | .fwWait | .fwCs | .fwUnl => True
  | _ => False

def PollPc : Pc → Prop
  | .psAcq | .psSpin | .psCs | .psRel | .aTop | .aTry | .aSpinE | .aSpinL | .aCs | .aRel
  | .wTime | .wSleep | .tSleep | .tTime => True
  | _ => False

def FwPc : Pc → Prop
  | .fpLock | .fpCs | .fpSig | .fpUnl | .fnCheck | .fnLock | .fnCs | .fnUnl
  | .fwLock | .fwCheck | .fwClock | .fwWait | .fwSleep | .fwRelock | .fwCs | .fwUnl => True
  | _ => False

structure InvA (k : Kind) (s : St) : Prop where
  flagIff : s.flag = true ↔ s.q = []
  ownerIff : ∀ a, s.owner = some a ↔ HasLock (s.pc a)
  lockBool : s.lock = true ↔ s.owner ≠ none
  kindP : k = .poll → ∀ a, ¬ FwPc (s.pc a)
  kindF : k = .fwait → ∀ a, ¬ PollPc (s.pc a)
  waitIff : ∀ a, a ∈ s.waiters ↔ s.pc a = .fwSleep
  waitNodup : s.waiters.Nodup
  wokenPc : ∀ a, a ∈ s.woken → s.pc a = .fwRelock ∨ s.pc a = .fwCs
  wokenNodup : s.woken.Nodup
  sawEmpty : ∀ a, (s.pc a = .fwClock ∨ s.pc a = .fwWait) → s.q = []

theorem invA_init (k : Kind) : InvA k init := by
  constructor <;> simp [init, HasLock, PollPc, FwPc]

theorem takeFrom_some {q : List Nat} {tl : Bool} {x : Nat} {rest : List Nat} (h : takeFrom q tl = some (x, rest)) :
    q ≠ [] ∧ rest.length + 1 = q.length ∧ (∀ u, q.count u = rest.count u + (if u = x then 1 else 0)) := by
  unfold takeFrom at h
  cases tl with
  | false =>
    cases q with
    | nil => simp at h
    | cons y r =>
      simp at h
      obtain ⟨rfl, rfl⟩ := h
      refine ⟨by simp, by simp, ?_⟩
      intro u
      by_cases hu : u = y <;> simp [List.count_cons, hu] <;> omega
  | true =>
    simp only [if_true] at h
    cases hq : q.getLast? with
    | none => simp [hq] at h
    | some y =>
      simp only [hq, Option.some.injEq, Prod.mk.injEq] at h
      obtain ⟨rfl, rfl⟩ := h
      have hne : q ≠ [] := by intro e; simp [e] at hq
      have hy : q.getLast hne = y := by
        have := List.getLast?_eq_some_getLast hne
        rw [this] at hq; exact Option.some.inj hq
      have hsplit : q = q.dropLast ++ [y] := by rw [← hy]; exact (List.dropLast_concat_getLast hne).symm
      refine ⟨hne, ?_, ?_⟩
      · simp; have : q.length ≠ 0 := by simpa using hne
        omega
      · intro u
        conv => lhs; rw [hsplit]
        by_cases hu : u = y
        · simp [List.count_append, List.count_cons, hu]
        · have : ¬ y = u := fun e => hu e.symm
          simp [List.count_append, List.count_cons, hu, this]

theorem takeFrom_none {q : List Nat} {tl : Bool} (h : takeFrom q tl = none) : q = [] := by
  unfold takeFrom at h
  cases tl with
  | false => cases q <;> simp_all
  | true =>
    simp only [if_true] at h
    cases hq : q.getLast? with
    | none => simpa using hq
    | some y => simp [hq] at h

theorem takeFrom_rest_nil {q : List Nat} {tl : Bool} {x : Nat} {rest : List Nat} (h : takeFrom q tl = some (x, rest)) :
    rest = [] ↔ q.length = 1 := by
  have := (takeFrom_some h).2.1
  constructor
  · intro e; simp [e] at this; omega
  · intro e; rw [e] at this; exact List.length_eq_zero_iff.mp (by omega)


/-- **frame**: a step that only moves `a`'s program counter (and ghost / per-actor data) between two counters of the
same lock status -/
theorem invA_pc (k : Kind) (s s' : St) (a : Actor) (p : Pc) (h : InvA k s)
    (hq : s'.q = s.q) (hf : s'.flag = s.flag) (hl : s'.lock = s.lock) (ho : s'.owner = s.owner)
    (hw : s'.waiters = s.waiters) (hk : s'.woken = s.woken) (hp : s'.pc = upd s.pc a p)
    (h1 : HasLock p ↔ HasLock (s.pc a)) (h2 : p = .fwSleep ↔ s.pc a = .fwSleep)
    (h3 : a ∈ s.woken → p = .fwRelock ∨ p = .fwCs) (h4 : (p = .fwClock ∨ p = .fwWait) → s.q = [])
    (h5 : k = .poll → ¬ FwPc p) (h6 : k = .fwait → ¬ PollPc p) : InvA k s' := by
  constructor
  · rw [hf, hq]; exact h.flagIff
  · intro b; rw [ho, hp]; have := h.ownerIff b; by_cases hb : b = a <;> simp_all [upd]
  · rw [hl, ho]; exact h.lockBool
  · intro hk' b; rw [hp]; have := h.kindP hk' b; by_cases hb : b = a <;> simp_all [upd]
  · intro hk' b; rw [hp]; have := h.kindF hk' b; by_cases hb : b = a <;> simp_all [upd]
  · intro b; rw [hw, hp]; have := h.waitIff b; by_cases hb : b = a <;> simp_all [upd]
  · rw [hw]; exact h.waitNodup
  · intro b; rw [hk, hp]; have := h.wokenPc b; by_cases hb : b = a <;> simp_all [upd]
  · rw [hk]; exact h.wokenNodup
  · intro b; rw [hq, hp]; have := h.sawEmpty b; by_cases hb : b = a <;> simp_all [upd]

/-- acquiring the free lock -/
theorem invA_takeL (k : Kind) (s s' : St) (a : Actor) (p : Pc) (h : InvA k s) (hfree : s.lock = false)
    (hq : s'.q = s.q) (hf : s'.flag = s.flag) (hl : s'.lock = true) (ho : s'.owner = some a)
    (hw : s'.waiters = s.waiters) (hk : s'.woken = s.woken) (hp : s'.pc = upd s.pc a p)
    (h1 : HasLock p) (h2 : p ≠ .fwSleep) (h2' : s.pc a ≠ .fwSleep)
    (h3 : a ∈ s.woken → p = .fwRelock ∨ p = .fwCs) (h4 : (p = .fwClock ∨ p = .fwWait) → s.q = [])
    (h5 : k = .poll → ¬ FwPc p) (h6 : k = .fwait → ¬ PollPc p) : InvA k s' := by
  have hnone : s.owner = none := by
    have := h.lockBool; cases ho' : s.owner <;> simp_all
  constructor
  · rw [hf, hq]; exact h.flagIff
  · intro b; rw [ho, hp]; have := h.ownerIff b; by_cases hb : b = a
    · subst hb; simp [upd, h1]
    · simp [upd, hb, Ne.symm hb]; rw [hnone] at this; simpa using this
  · rw [hl, ho]; simp
  · intro hk' b; rw [hp]; have := h.kindP hk' b; by_cases hb : b = a <;> simp_all [upd]
  · intro hk' b; rw [hp]; have := h.kindF hk' b; by_cases hb : b = a <;> simp_all [upd]
  · intro b; rw [hw, hp]; have := h.waitIff b; by_cases hb : b = a <;> simp_all [upd]
  · rw [hw]; exact h.waitNodup
  · intro b; rw [hk, hp]; have := h.wokenPc b; by_cases hb : b = a <;> simp_all [upd]
  · rw [hk]; exact h.wokenNodup
  · intro b; rw [hq, hp]; have := h.sawEmpty b
    by_cases hb : b = a
    · subst hb; simpa [upd] using h4
    · -- another actor at fwClock / fwWait would hold the lock
      simp only [upd, hb, if_false]
      intro hb'
      have : s.owner = some b := (h.ownerIff b).mpr (by rcases hb' with e | e <;> simp [e, HasLock])
      rw [hnone] at this; cases this

/-- releasing the lock -/
theorem invA_dropL (k : Kind) (s s' : St) (a : Actor) (p : Pc) (h : InvA k s) (hown : HasLock (s.pc a))
    (hq : s'.q = s.q) (hf : s'.flag = s.flag) (hl : s'.lock = false) (ho : s'.owner = none)
    (hw : s'.waiters = s.waiters) (hk : s'.woken = s.woken) (hp : s'.pc = upd s.pc a p)
    (h1 : ¬ HasLock p) (h2 : p ≠ .fwSleep)
    (h3 : a ∈ s.woken → p = .fwRelock ∨ p = .fwCs)
    (h5 : k = .poll → ¬ FwPc p) (h6 : k = .fwait → ¬ PollPc p) : InvA k s' := by
  have hsome : s.owner = some a := (h.ownerIff a).mpr hown
  have hns : s.pc a ≠ .fwSleep := by intro e; rw [e] at hown; exact hown
  constructor
  · rw [hf, hq]; exact h.flagIff
  · intro b; rw [ho, hp]; have := h.ownerIff b; by_cases hb : b = a
    · subst hb; simp [upd, h1]
    · simp only [upd, hb, if_false]; rw [hsome] at this
      constructor
      · intro e; cases e
      · intro hb'; have := this.mpr hb'; exact absurd (Option.some.inj this).symm hb
  · rw [hl, ho]; simp
  · intro hk' b; rw [hp]; have := h.kindP hk' b; by_cases hb : b = a <;> simp_all [upd]
  · intro hk' b; rw [hp]; have := h.kindF hk' b; by_cases hb : b = a <;> simp_all [upd]
  · intro b; rw [hw, hp]; have := h.waitIff b; by_cases hb : b = a <;> simp_all [upd]
  · rw [hw]; exact h.waitNodup
  · intro b; rw [hk, hp]; have := h.wokenPc b; by_cases hb : b = a <;> simp_all [upd]
  · rw [hk]; exact h.wokenNodup
  · intro b; rw [hq, hp]; have := h.sawEmpty b
    by_cases hb : b = a
    · subst hb; simp only [upd, if_true]; intro hp'; rcases hp' with e | e <;> simp [e, HasLock] at h1
    · simpa [upd, hb] using this

theorem kind_poll {k : Kind} {s : St} (h : InvA k s) {a : Actor} (hp : PollPc (s.pc a)) : k = .poll := by
  cases k with
  | poll => rfl
  | fwait => exact absurd hp (h.kindF rfl a)

theorem kind_fwait {k : Kind} {s : St} (h : InvA k s) {a : Actor} (hp : FwPc (s.pc a)) : k = .fwait := by
  cases k with
  | fwait => rfl
  | poll => exact absurd hp (h.kindP rfl a)


/-- the new program counter stays on the pool kind's side of the program -/
def Side (old p : Pc) : Prop :=
  (PollPc old → ¬ FwPc p) ∧ (FwPc old → ¬ PollPc p) ∧ (¬ PollPc old → ¬ FwPc old → ¬ PollPc p ∧ ¬ FwPc p)

theorem side_kind {k : Kind} {s : St} (h : InvA k s) {a : Actor} {p : Pc} (hs : Side (s.pc a) p) :
    (k = .poll → ¬ FwPc p) ∧ (k = .fwait → ¬ PollPc p) := by
  by_cases hP : PollPc (s.pc a)
  · have := kind_poll h hP; subst this; exact ⟨fun _ => hs.1 hP, (fun e => nomatch e)⟩
  · by_cases hF : FwPc (s.pc a)
    · have := kind_fwait h hF; subst this; exact ⟨(fun e => nomatch e), fun _ => hs.2.1 hF⟩
    · exact ⟨fun _ => (hs.2.2 hP hF).2, fun _ => (hs.2.2 hP hF).1⟩

end ArgoVerif.Model.PopWait
