import ArgoVerif.Proofs.Barrier
/- Proofs.Barrier2 — invariant preservation for lock acquisition and release (split for build parallelism),
   and the invariant of the xstream-barrier model. -/
namespace ArgoVerif.Model.Barrier
open ArgoVerif
set_option maxHeartbeats 4000000

theorem inv_stepAcq_t (s s' : St) (a : Actor) (h : Inv s) (hs : stepAcq s a true = some s') : Inv s' := by
  unfold stepAcq at hs
  simp only [if_true] at hs
  (repeat' (split at hs)) <;> first | (cases hs; done) | (cases hs; exact h)

theorem acq_f_free (s s' : St) (a : Actor) (hs : stepAcq s a false = some s') : s.lock = none := by
  unfold stepAcq at hs
  split at hs
  · cases hs
  · cases hl : s.lock <;> simp_all

theorem inv_stepAcq_f (s s' : St) (a : Actor) (h : Inv s) (hs : stepAcq s a false = some s') : Inv s' := by
  have hl := acq_f_free s s' a hs
  unfold stepAcq at hs
  simp only [Bool.false_eq_true, if_false] at hs
  (repeat' (split at hs)) <;> close_tac h hs

theorem chk_some (s s' : St) (c nw : Nat) (e : Bool) (hs : chk s c nw e = some s') :
    s' = s ∧ c = s.counter ∧ nw = s.nw ∧ e = s.q.isEmpty := by
  unfold chk at hs
  split at hs
  · cases hs; simp_all
  · cases hs

theorem inv_stepRel (s s' : St) (a : Actor) (c nw : Nat) (e : Bool) (h : Inv s)
    (hs : stepRel s a c nw e = some s') : Inv s' := by
  unfold stepRel at hs
  (repeat' (split at hs)) <;>
    first
    | (cases hs; done)
    | (have hc := (chk_some _ _ _ _ _ hs).1; subst hc; constructor <;> inv_tac h)

end ArgoVerif.Model.Barrier

namespace ArgoVerif.Model.XBarrier
open ArgoVerif
set_option maxHeartbeats 4000000

structure Inv (s : St) : Prop where
  inPrim : ∀ a, a ∈ s.arrived ↔ s.pc a = .inPrim
  nodup : s.arrived.Nodup
  lenLt : 1 < s.nw → s.arrived.length < s.nw
  empty : s.nw ≤ 1 → s.arrived = []
  arrRound : ∀ a, a ∈ s.arrived → s.roundOf a = s.round
  entNow : s.entered s.round = s.arrived.length
  entFut : ∀ k, s.round < k → s.entered k = 0
  past : ∀ k, k < s.round → s.entered k = (if 1 < s.nw then s.nw else 1)
  relRound : ∀ a, (s.pc a = .released ∨ s.pc a = .skipped) → s.roundOf a < s.round

theorem inv_init (n : Nat) : Inv (init n) := by
  constructor <;> simp [init] <;> omega

theorem inv_stepCall (s s' : St) (a : Actor) (h : Inv s) (hs : stepCall s a = some s') : Inv s' := by
  unfold stepCall at hs
  have := h.inPrim; have := h.nodup; have := h.lenLt; have := h.empty; have := h.arrRound
  have := h.entNow; have := h.entFut; have := h.past; have := h.relRound
  (repeat' (split at hs)) <;> first | (cases hs; done) | (cases hs; constructor <;> grind [upd])

theorem inv_stepRet (s s' : St) (a : Actor) (h : Inv s) (hs : stepRet s a = some s') : Inv s' := by
  unfold stepRet at hs
  have := h.inPrim; have := h.nodup; have := h.lenLt; have := h.empty; have := h.arrRound
  have := h.entNow; have := h.entFut; have := h.past; have := h.relRound
  (repeat' (split at hs)) <;> first | (cases hs; done) | (cases hs; constructor <;> grind [upd])

end ArgoVerif.Model.XBarrier
