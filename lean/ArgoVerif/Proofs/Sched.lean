import ArgoVerif.Model.Sched
/- Proofs.Sched — inductive invariant of the work-unit life-cycle model. -/
namespace ArgoVerif.Model.Sched
open ArgoVerif
set_option maxHeartbeats 4000000

/-- number of outstanding increments charged to pool p -/
def cntP : List (UnitId × PoolId) → PoolId → Nat
  | [], _ => 0
  | (_, q) :: l, p => cntP l p + (if q = p then 1 else 0)

/-- number of outstanding increments made on behalf of unit u -/
def cntU : List (UnitId × PoolId) → UnitId → Nat
  | [], _ => 0
  | (v, _) :: l, u => cntU l u + (if v = u then 1 else 0)

theorem cntP_erase (l : List (UnitId × PoolId)) (u : UnitId) (q p : PoolId) (h : (u, q) ∈ l) :
    cntP (l.erase (u, q)) p + (if q = p then 1 else 0) = cntP l p := by
  induction l with
  | nil => cases h
  | cons x r ih =>
    obtain ⟨v, w⟩ := x
    by_cases hx : (v, w) = (u, q)
    · cases hx; simp [cntP]
    · have hm : (u, q) ∈ r := by
        cases h with
        | head => exact absurd rfl hx
        | tail _ h' => exact h'
      have := ih hm
      rw [List.erase_cons_tail (by simpa using hx)]
      simp only [cntP]; omega

theorem cntU_erase (l : List (UnitId × PoolId)) (u : UnitId) (q : PoolId) (v : UnitId) (h : (u, q) ∈ l) :
    cntU (l.erase (u, q)) v + (if u = v then 1 else 0) = cntU l v := by
  induction l with
  | nil => cases h
  | cons x r ih =>
    obtain ⟨a, w⟩ := x
    by_cases hx : (a, w) = (u, q)
    · cases hx; simp [cntU]
    · have hm : (u, q) ∈ r := by
        cases h with
        | head => exact absurd rfl hx
        | tail _ h' => exact h'
      have := ih hm
      rw [List.erase_cons_tail (by simpa using hx)]
      simp only [cntU]; omega

theorem cntUP_erase (l : List (UnitId × PoolId)) (u : UnitId) (q : PoolId) (v : UnitId) (p : PoolId) (h : (u, q) ∈ l) :
    cntUP (l.erase (u, q)) v p + (if u = v ∧ q = p then 1 else 0) = cntUP l v p := by
  induction l with
  | nil => cases h
  | cons x r ih =>
    obtain ⟨a, w⟩ := x
    by_cases hx : (a, w) = (u, q)
    · cases hx; simp [cntUP]
    · have hm : (u, q) ∈ r := by
        cases h with
        | head => exact absurd rfl hx
        | tail _ h' => exact h'
      have := ih hm
      rw [List.erase_cons_tail (by simpa using hx)]
      simp only [cntUP]; omega

theorem cntUP_pos_iff (l : List (UnitId × PoolId)) (u : UnitId) (p : PoolId) : 0 < cntUP l u p ↔ (u, p) ∈ l := by
  induction l with
  | nil => simp [cntUP]
  | cons x r ih =>
    obtain ⟨a, w⟩ := x
    simp only [cntUP, List.mem_cons, Prod.mk.injEq]
    by_cases hx : a = u ∧ w = p
    · simp [hx]
    · simp only [hx, if_false, Nat.add_zero, ih]
      constructor
      · intro h; exact Or.inr h
      · intro h; rcases h with h | h
        · exact absurd ⟨h.1.symm, h.2.symm⟩ hx
        · exact h

theorem cntP_pos_of_mem (l : List (UnitId × PoolId)) (u : UnitId) (p : PoolId) (h : (u, p) ∈ l) : 0 < cntP l p := by
  have := cntP_erase l u p p h; simp at this; omega

theorem cntU_pos_of_mem (l : List (UnitId × PoolId)) (u : UnitId) (p : PoolId) (h : (u, p) ∈ l) : 0 < cntU l u := by
  have := cntU_erase l u p u h; simp at this; omega

structure Inv (s : St) : Prop where
  nbCount : ∀ p, s.nb p = (cntP s.owedL p : Int)
  unitCount : ∀ u, cntU s.owedL u = s.lag u + (if s.charged u = true then 1 else 0)
  chargedMem : ∀ u, s.charged u = true → (u, s.chargedPool u) ∈ s.owedL
  blockedCharged : ∀ u, s.loc u = .blocked → s.resumed u = false → (s.charged u = true ∧ s.chargedPool u = s.pool u)
  stBlockedLoc : ∀ u, s.st u = .blocked → s.loc u = .blocked
  runningSt : ∀ u e, s.loc u = .running e → s.st u = .running
  termLoc : ∀ u, s.st u = .terminated ↔ (s.loc u = .done ∨ s.loc u = .freed)
  startsLe : ∀ u, s.starts u ≤ 1 ∧ s.ends u ≤ s.starts u
  termRan : ∀ u, s.terminating u = true → (s.cancelled u = true ∨ s.starts u = 1)
  doneTerm : ∀ u, (s.loc u = .done ∨ s.loc u = .freed) → s.terminating u = true
  resumedBlocked : ∀ u, s.resumed u = true → s.loc u = .blocked
  cancTerm : ∀ u, s.cancelled u = true → s.terminating u = true

theorem inv_init : Inv init := by
  constructor <;> simp [init, cntP, cntU]

end ArgoVerif.Model.Sched
