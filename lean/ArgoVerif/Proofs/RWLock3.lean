import ArgoVerif.Proofs.RWLock
/- Proofs.RWLock3 — invariant preservation for `update` (reader_count++ / write_flag = 1 / the if-else of unlock). -/
namespace ArgoVerif.Model.RWLock
open ArgoVerif
set_option maxHeartbeats 4000000

theorem update_cases (s s' : St) (a : Actor) (hs : stepUpdate s a = some s') :
    s.pc a = .rTest ∨ s.pc a = .wTest ∨ s.pc a = .uUpd := by
  unfold stepUpdate at hs
  split at hs <;> simp_all

theorem inv_stepUpdate_r (s s' : St) (a : Actor) (h : Inv s) (hp : s.pc a = .rTest) (hs : stepUpdate s a = some s') :
    Inv s' := by
  unfold stepUpdate at hs
  rw [hp] at hs
  simp only at hs
  split at hs <;> close_tac h hs

theorem readers_nil_of_zero (s : St) (h : Inv s) (h0 : s.readerCount = 0) : s.readers = [] := by
  have := h.rcLen
  rw [h0] at this
  exact List.eq_nil_of_length_eq_zero (by omega)

theorem inv_stepUpdate_w (s s' : St) (a : Actor) (h : Inv s) (hp : s.pc a = .wTest) (hs : stepUpdate s a = some s') :
    Inv s' := by
  have hr0 := readers_nil_of_zero s h
  unfold stepUpdate at hs
  rw [hp] at hs
  simp only at hs
  split at hs <;> close_tac h hs

theorem inv_stepUpdate_u (s s' : St) (a : Actor) (h : Inv s) (hp : s.pc a = .uUpd) (hs : stepUpdate s a = some s') :
    Inv s' := by
  have hr0 := readers_nil_of_zero s h
  have hlen : a ∈ s.readers → ((s.readers.erase a).length : Int) = (s.readers.length : Int) - 1 := by
    intro hm
    have := List.length_erase_of_mem hm
    have : s.readers.length > 0 := List.length_pos_of_mem hm
    omega
  have hmem : ∀ b, b ≠ a → (b ∈ s.readers.erase a ↔ b ∈ s.readers) := fun b hb => List.mem_erase_of_ne hb
  have hsub : ∀ b, b ∈ s.readers.erase a → b ∈ s.readers := fun b hb => List.mem_of_mem_erase hb
  unfold stepUpdate at hs
  rw [hp] at hs
  simp only at hs
  by_cases hw : s.writeFlag = true
  · simp only [hw, if_true] at hs
    close_tac h hs
  · simp only [hw] at hs
    close_tac h hs

theorem inv_stepUpdate (s s' : St) (a : Actor) (h : Inv s) (hs : stepUpdate s a = some s') : Inv s' := by
  rcases update_cases s s' a hs with hp | hp | hp
  · exact inv_stepUpdate_r s s' a h hp hs
  · exact inv_stepUpdate_w s s' a h hp hs
  · exact inv_stepUpdate_u s s' a h hp hs

end ArgoVerif.Model.RWLock
