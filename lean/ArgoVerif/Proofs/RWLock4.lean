import ArgoVerif.Proofs.RWLock
/- Proofs.RWLock4 — deadlock freedom of Model.RWLock from the invariant: which progress event is enabled at each
program counter, and why a sleeper always has somebody who can step. -/
namespace ArgoVerif.Model.RWLock
open ArgoVerif
set_option maxHeartbeats 4000000

/-- waiting for the internal mutex -/
def NeedsM : Pc → Prop
  | .rLock | .rWoken | .wLock | .wWoken | .uLock => True
  | _ => False

theorem enabledFor_of (s : St) (b : Actor) (e : Ev) (hm : e ∈ candidates s b) (hs : (step s e).isSome = true) :
    enabledFor s b = true := by
  simp only [enabledFor, List.any_eq_true]; exact ⟨e, hm, hs⟩

/-- the holder of the internal mutex can always step -/
theorem inM_enabled (s : St) (b : Actor) (hb : InM (s.pc b)) : enabledFor s b = true := by
  cases hp : s.pc b <;> rw [hp] at hb <;> simp only [InM] at hb
  · -- rTest
    by_cases hw : s.writeFlag = true
    · exact enabledFor_of s b (.sleep b) (by simp [candidates]) (by simp [step, stepSleep, hp, hw])
    · exact enabledFor_of s b (.update b) (by simp [candidates]) (by simp [step, stepUpdate, hp, hw])
  · -- rUnlock
    exact enabledFor_of s b (.mutexUnlock b) (by simp [candidates]) (by simp [step, stepMutexUnlock, hp])
  · -- wTest
    by_cases hw : s.writeFlag = true ∨ s.readerCount ≠ 0
    · exact enabledFor_of s b (.sleep b) (by simp [candidates]) (by simp [step, stepSleep, hp, hw])
    · have h1 : s.writeFlag = false := by
        cases h : s.writeFlag with
        | false => rfl
        | true => exact absurd (Or.inl h) hw
      have h2 : s.readerCount = 0 := by
        by_cases h : s.readerCount = 0
        · exact h
        · exact absurd (Or.inr h) hw
      exact enabledFor_of s b (.update b) (by simp [candidates]) (by simp [step, stepUpdate, hp, h1, h2])
  · -- wUnlock
    exact enabledFor_of s b (.mutexUnlock b) (by simp [candidates]) (by simp [step, stepMutexUnlock, hp])
  · -- uUpd
    exact enabledFor_of s b (.update b) (by simp [candidates]) (by simp [step, stepUpdate, hp])
  · -- uBcast
    cases hq : s.q with
    | nil => exact enabledFor_of s b (.mutexUnlock b) (by simp [candidates]) (by simp [step, stepMutexUnlock, hp, hq])
    | cons n t =>
      exact enabledFor_of s b (.wake b n) (by simp [candidates, hq]) (by simp [step, stepWake, hp, hq])

theorem en_rRejected (s : St) (b : Actor) (h : s.pc b = .rRejected) : enabledFor s b = true :=
  enabledFor_of s b (.ret b .rdlock .err) (by simp [candidates]) (by simp [step, stepRet, h])
theorem en_wRejected (s : St) (b : Actor) (h : s.pc b = .wRejected) : enabledFor s b = true :=
  enabledFor_of s b (.ret b .wrlock .err) (by simp [candidates]) (by simp [step, stepRet, h])
theorem en_rDone (s : St) (b : Actor) (h : s.pc b = .rDone) : enabledFor s b = true :=
  enabledFor_of s b (.ret b .rdlock .ok) (by simp [candidates]) (by simp [step, stepRet, h])
theorem en_wDone (s : St) (b : Actor) (h : s.pc b = .wDone) : enabledFor s b = true :=
  enabledFor_of s b (.ret b .wrlock .ok) (by simp [candidates]) (by simp [step, stepRet, h])
theorem en_uDone (s : St) (b : Actor) (h : s.pc b = .uDone) : enabledFor s b = true :=
  enabledFor_of s b (.ret b .unlock .ok) (by simp [candidates]) (by simp [step, stepRet, h])
theorem en_needsM (s : St) (b : Actor) (hm : s.mholder = none) (h : NeedsM (s.pc b)) : enabledFor s b = true := by
  refine enabledFor_of s b (.mutexLock b) (by simp [candidates]) ?_
  cases hpc : s.pc b <;> rw [hpc] at h <;> simp only [NeedsM] at h <;> simp [step, stepMutexLock, hpc, hm]

/-- what a caller inside a call can do: step, or it needs the (taken) internal mutex, or it is asleep -/
theorem enabled_cases (s : St) (b : Actor) (hp : s.pc b ≠ .idle) :
    enabledFor s b = true ∨ (NeedsM (s.pc b) ∧ s.mholder ≠ none) ∨ Asleep (s.pc b) := by
  by_cases hin : InM (s.pc b)
  · exact Or.inl (inM_enabled s b hin)
  · by_cases hn : NeedsM (s.pc b)
    · by_cases hm : s.mholder = none
      · exact Or.inl (en_needsM s b hm hn)
      · exact Or.inr (Or.inl ⟨hn, hm⟩)
    · cases hpc : s.pc b
      all_goals first
        | exact absurd hpc hp
        | exact Or.inl (en_rRejected s b hpc)
        | exact Or.inl (en_wRejected s b hpc)
        | exact Or.inl (en_rDone s b hpc)
        | exact Or.inl (en_wDone s b hpc)
        | exact Or.inl (en_uDone s b hpc)
        | (right; right; trivial)
        | (exfalso; rw [hpc] at hin; exact hin trivial)
        | (exfalso; rw [hpc] at hn; exact hn trivial)

/-- a holder of the rwlock can step whenever the internal mutex is free (it is never asleep) -/
theorem holder_enabled (s : St) (hi : Inv s) (hm : s.mholder = none) (b : Actor)
    (hb : s.writer = some b ∨ b ∈ s.readers) : enabledFor s b = true := by
  by_cases hp : s.pc b = .idle
  · refine enabledFor_of s b (.call b .unlock) (by simp [candidates]) ?_
    rcases hb with hb | hb <;> simp [step, stepCall, hp, hb]
  · rcases enabled_cases s b hp with h1 | h1 | h1
    · exact h1
    · exact absurd hm h1.2
    · exfalso
      rcases hb with hb | hb
      · have := hi.writerPc b hb
        cases hpc : s.pc b <;> rw [hpc] at this h1 <;> simp [WrOk, Asleep] at this h1
      · have := hi.readerPc b hb
        cases hpc : s.pc b <;> rw [hpc] at this h1 <;> simp [RdOk, Asleep] at this h1

theorem active_of_pc (s : St) (b : Actor) (hp : s.pc b ≠ .idle) : active s b = true := by
  simp [active, hp]

theorem active_of_holder (s : St) (b : Actor) (hb : s.writer = some b ∨ b ∈ s.readers) : active s b = true := by
  rcases hb with hb | hb <;> simp [active, hb]

theorem not_bcasting_of_free (s : St) (hm : s.mholder = none) : ¬ Bcasting s.mholder s.pc := by
  intro ⟨h1, _⟩; exact h1 hm

/-- a sleeper with a free internal mutex is blocked by a holder of the rwlock -/
theorem sleeper_has_holder (s : St) (hi : Inv s) (hm : s.mholder = none) (a : Actor) (ha : Asleep (s.pc a)) :
    ∃ b, s.writer = some b ∨ b ∈ s.readers := by
  have hnb := not_bcasting_of_free s hm
  have hw : s.writeFlag = true → ∃ b, s.writer = some b ∨ b ∈ s.readers := by
    intro hwf
    have := hi.wfIff.mp hwf
    cases hwr : s.writer with
    | none => exact absurd hwr this
    | some w => exact ⟨w, Or.inl rfl⟩
  cases hpc : s.pc a <;> rw [hpc] at ha <;> simp only [Asleep] at ha
  · rcases hi.rSleepOk a hpc with h1 | h1
    · exact hw h1
    · exact absurd h1 hnb
  · rcases hi.wSleepOk a hpc with h1 | h1 | h1
    · exact hw h1
    · cases hr : s.readers with
      | nil => have := hi.rcLen; rw [hr] at this; simp at this; exact absurd this h1
      | cons r t => exact ⟨r, Or.inr (by simp)⟩
    · exact absurd h1 hnb

theorem deadlock_free_of_inv (s : St) (hi : Inv s) (a : Actor) (ha : active s a = true) :
    ∃ b, active s b = true ∧ enabledFor s b = true := by
  cases hm : s.mholder with
  | some c =>
    have hc : InM (s.pc c) := (hi.mhIff c).mp hm
    refine ⟨c, active_of_pc s c ?_, inM_enabled s c hc⟩
    intro hidle; rw [hidle] at hc; exact hc
  | none =>
    by_cases hp : s.pc a = .idle
    · have hb : s.writer = some a ∨ a ∈ s.readers := by
        simp only [active, hp, ne_eq, not_true_eq_false, decide_false, Bool.false_or, Bool.or_eq_true,
          decide_eq_true_eq] at ha
        exact ha.symm
      exact ⟨a, active_of_holder s a hb, holder_enabled s hi hm a hb⟩
    · rcases enabled_cases s a hp with h1 | h1 | h1
      · exact ⟨a, active_of_pc s a hp, h1⟩
      · exact absurd hm h1.2
      · obtain ⟨b, hb⟩ := sleeper_has_holder s hi hm a h1
        exact ⟨b, active_of_holder s b hb, holder_enabled s hi hm b hb⟩

theorem blocked_has_cause_of_inv (s : St) (hi : Inv s) (a : Actor) (hp : s.pc a ≠ .idle) :
    enabledFor s a = true ∨
    (∃ b, s.mholder = some b ∧ b ≠ a ∧ enabledFor s b = true) ∨
    ((s.pc a = .rSleep ∨ s.pc a = .wSleep) ∧ s.mholder = none ∧
      ∃ b, (s.writer = some b ∨ b ∈ s.readers) ∧ enabledFor s b = true) := by
  rcases enabled_cases s a hp with h1 | h1 | h1
  · exact Or.inl h1
  · right; left
    cases hm : s.mholder with
    | none => exact absurd hm h1.2
    | some c =>
      have hc : InM (s.pc c) := (hi.mhIff c).mp hm
      refine ⟨c, rfl, ?_, inM_enabled s c hc⟩
      intro he; subst he
      have := h1.1
      cases hpc : s.pc c <;> rw [hpc] at this hc <;> simp [InM, NeedsM] at this hc
  · cases hm : s.mholder with
    | some c =>
      right; left
      have hc : InM (s.pc c) := (hi.mhIff c).mp hm
      refine ⟨c, rfl, ?_, inM_enabled s c hc⟩
      intro he; subst he
      cases hpc : s.pc c <;> rw [hpc] at h1 hc <;> simp [InM, Asleep] at h1 hc
    | none =>
      right; right
      obtain ⟨b, hb⟩ := sleeper_has_holder s hi hm a h1
      refine ⟨?_, rfl, b, hb, holder_enabled s hi hm b hb⟩
      cases hpc : s.pc a <;> rw [hpc] at h1 <;> simp [Asleep] at h1 ⊢

end ArgoVerif.Model.RWLock
