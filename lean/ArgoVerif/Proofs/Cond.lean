import ArgoVerif.Model.Cond
import ArgoVerif.Proofs.WaitListAll
/- Proofs.Cond — invariant of the condition-variable model (on top of the wait-list invariant). -/
namespace ArgoVerif.Model.Cond
open ArgoVerif
set_option maxHeartbeats 4000000

/-- wait states of an untimed wait -/
def UntimedWaiting : WaitList.Pc → Prop
  | .uSusp | .uRelL | .uWait | .xCheck | .xRelL | .xSleep | .xReacq | .xReadyRel => True
  | _ => False

/-- wait states of a timed wait -/
def TimedStates : WaitList.Pc → Prop
  | .tuRel | .tuPoll | .tuTime | .tuAcq | .txTop | .txState | .txRel | .txSleep | .txReacq | .txReadyRel
  | .tmo | .tmoRm | .tmoRel => True
  | _ => False

structure CInv (s : St) : Prop where
  wlInv : WaitList.Inv s.wl
  idleLink : ∀ a, (s.cpc a = .idle ∨ s.cpc a = .wBegin ∨ s.cpc a = .wRelock ∨ s.cpc a = .wDone ∨ s.cpc a = .wBad
      ∨ s.cpc a = .sBegin ∨ s.cpc a = .sDone) → s.wl.pc a = .idle
  acqLink : ∀ a, (s.cpc a = .wAcq ∨ s.cpc a = .sAcq) → s.wl.pc a = .acq
  csLink : ∀ a, (s.cpc a = .wUnlock ∨ s.cpc a = .wEnq ∨ s.cpc a = .wBadRel) → s.wl.pc a = .inCs
  sigLink : ∀ a, s.cpc a = .sCs → (s.wl.pc a = .inCs ∨ s.wl.pc a = .wkStore)
  waitLink : ∀ a, s.cpc a = .wWaiting → (WaitList.Waiting (s.wl.pc a) ∨ s.wl.pc a = .tmoRel)
  untimedLink : ∀ a, s.cpc a = .wWaiting → isTimed (s.op a) = false → UntimedWaiting (s.wl.pc a)
  timedLink : ∀ a, s.cpc a = .wWaiting → isTimed (s.op a) = true → TimedStates (s.wl.pc a)
  holdM : ∀ a, (s.cpc a = .wBegin ∨ s.cpc a = .wAcq ∨ s.cpc a = .wUnlock ∨ s.cpc a = .wBadRel ∨ s.cpc a = .wBad
      ∨ s.cpc a = .wDone) → s.mholder (opMutex (s.op a)) = some a
  wokenReady : ∀ a, (s.cpc a = .wRelock ∨ s.cpc a = .wDone) →
      (s.wl.timedOut a = false ∨ isTimed (s.op a) = false) → s.wl.ready a = true
  timedOutNotReady : ∀ a, (s.cpc a = .wRelock ∨ s.cpc a = .wDone) → isTimed (s.op a) = true →
      s.wl.timedOut a = true → s.wl.ready a = false

theorem cinv_init (u : Actor → Bool) : CInv (init u) := by
  constructor
  · exact WaitList.inv_init u
  all_goals simp [init, WaitList.init]

macro "cinv_tac" h:ident : tactic => `(tactic|
  (have := ($h).idleLink; have := ($h).acqLink; have := ($h).csLink; have := ($h).sigLink
   have := ($h).waitLink; have := ($h).untimedLink; have := ($h).timedLink; have := ($h).holdM; have := ($h).wokenReady
   have := ($h).timedOutNotReady
   have := ($h).wlInv.lIff; have := ($h).wlInv.readyPc; have := ($h).wlInv.tmoRelInv
   try simp only [setC, afterAcquire, finishWait] at *
   grind [upd, UntimedWaiting, TimedStates, WaitList.Waiting, WaitList.HasL, isTimed, opMutex]))

theorem cinv_stepCall (s s' : St) (a : Actor) (op : Op) (h : CInv s) (hs : stepCall s a op = some s') : CInv s' := by
  unfold stepCall at hs
  cases op <;> (repeat' (split at hs)) <;>
    (first | (cases hs; done) | (cases hs; constructor; (exact h.wlInv); all_goals cinv_tac h))

theorem cinv_stepRet (s s' : St) (a : Actor) (rc : Rc) (h : CInv s) (hs : stepRet s a rc = some s') : CInv s' := by
  unfold stepRet at hs
  (repeat' (split at hs)) <;>
    (first | (cases hs; done) | (cases hs; constructor; (exact h.wlInv); all_goals cinv_tac h))

theorem cinv_stepMutexUnlock (s s' : St) (a : Actor) (m : MutexId) (h : CInv s) (hs : stepMutexUnlock s a m = some s') : CInv s' := by
  unfold stepMutexUnlock at hs
  (repeat' (split at hs)) <;>
    (first | (cases hs; done) | (cases hs; constructor; (exact h.wlInv); all_goals cinv_tac h))

theorem cinv_stepMutexLock (s s' : St) (a : Actor) (m : MutexId) (h : CInv s) (hs : stepMutexLock s a m = some s') : CInv s' := by
  unfold stepMutexLock at hs
  (repeat' (split at hs)) <;>
    (first | (cases hs; done) | (cases hs; constructor; (exact h.wlInv); all_goals cinv_tac h))

end ArgoVerif.Model.Cond
