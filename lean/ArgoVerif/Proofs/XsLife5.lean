import ArgoVerif.Proofs.XsLife4
/-
Proofs.XsLife5 — what the invariant says in the situations the C17 theorems are about, and progress of the native
thread of a stream nobody has asked to stop.
-/
namespace ArgoVerif.Model.XsLife
open ArgoVerif ArgoVerif.Model.XsCtx

/-- Model.XsCtx's checked facts at the context part of a state satisfying `Inv` -/
theorem ctx_facts {s : St} (hi : Inv s) :
    s.x.fault = false ∧
    (cJoined s.x = true → s.x.st = .waiting ∧ tInWaitLoop s.x = true ∧ s.x.owed = false) ∧
    (cCrit s.x = true ↔ s.x.owner = some .C) := by
  have h := (List.all_eq_true.mp chk_all) s.x hi.reach
  simp only [Bool.and_eq_true] at h
  have hf := h.1.1.1.1.1.1.1.1
  have hj := h.1.1.1.1.1.1.1.2
  have hm := h.1.1.1.2
  unfold chkNoFault at hf
  unfold chkJoined at hj
  unfold chkMutex at hm
  refine ⟨by simpa using hf, ?_, ?_⟩
  · intro hc
    simpa [hc, and_assoc] using hj
  · simp only [Bool.and_eq_true, beq_iff_eq] at hm
    rw [hm.2]; simp

/-- a completed join (and no revive yet): everything is TERMINATED and the native thread is parked -/
theorem joined_facts {s : St} (hi : Inv s) (hc : s.x.cpc = .idle true)
    (hl : s.lpc = .idle ∨ s.lpc = .jPub ∨ s.lpc = .jRet ∨ s.lpc = .rChk ∨ s.lpc = .rReset ∨ s.lpc = .rReady ∨ s.lpc = .fCtx ∨
      s.lpc = .jFin ∨ s.lpc = .jTj ∨ s.lpc = .jCtx) :
    s.x.st = .waiting ∧ tInWaitLoop s.x = true ∧ s.x.owed = false ∧ s.pub = true ∧ s.mterm = true ∧ s.npc = .out := by
  have hx := (ctx_facts hi).2.1 (by simp [cJoined, hc])
  have hb : ccl s.x.cpc = .idleT := by rw [hc]; rfl
  have hn := (facts_of hi).1 (Or.inl hb)
  have he := hi.ended
  have hp := hi.npc
  refine ⟨hx.1, hx.2.1, hx.2.2, ?_, ?_, ?_⟩ <;>
    rcases hl with hl | hl | hl | hl | hl | hl | hl | hl | hl | hl <;>
    (cases hq : s.npc <;> simp_all [endedOk, npcOk])

/-- while nobody has joined / cancelled / exited the stream and no life-cycle call is in progress, the native thread is
inside thread_f in its scheduler loop, or its (re)start is pending and the context caller is idle -/
theorem quiet_facts {s : St} (hi : Inv s) (hq : s.cause = false) (hl : s.lpc = .idle) :
    s.fin = false ∧ s.ext = false ∧ s.jreq = false ∧ s.creq = false ∧ s.pub = false ∧ s.mterm = false ∧
    ((s.npc = .sched) ∨ (s.npc = .root ∧ s.rootq = true) ∨
     (s.npc = .out ∧ nph s.x = .pre ∧ s.x.cpc = .idle false ∧ s.rootq = true)) := by
  have hf := facts_of hi
  obtain ⟨h1, h2, h3, h4, h5, h6, h7, h8, h9⟩ := hi
  have hb : ccl s.x.cpc = .idleF → s.x.cpc = .idle false := by
    intro h
    cases hc : s.x.cpc with
    | idle b => cases b <;> simp_all [ccl]
    | _ => simp_all [ccl]
  generalize hA : nph s.x = a at *
  generalize hB : ccl s.x.cpc = b at *
  cases hn : s.npc <;> cases a <;> cases b <;> simp_all [npcOk, preOk, endedOk, rel, quietOk]

/-! ### progress of the native thread towards the scheduler loop -/

def tdist : TPc → Nat
  | .woken => 3
  | .loop => 2
  | .start => 1
  | .unlock true => 1
  | _ => 0

/-- with an idle, not-joined context caller a pending (re)start is carried out by the thread alone -/
def progB (c : Ctl) : Bool :=
  !(nph c = .pre && c.cpc = .idle false) ||
    [XsCtx.Ev.tau .T, .relock .T, .unlock .T].any fun e =>
      match cstep c e with
      | some (c', _) => c'.cpc = .idle false && (restartEv c e || (nph c' = .pre && tdist c'.tpc < tdist c.tpc))
      | none => false

set_option maxRecDepth 100000 in
theorem prog_ok : reach.all progB = true := by decide

theorem prog_of {c : Ctl} (hc : c ∈ reach) (hn : nph c = .pre) (hi : c.cpc = .idle false) :
    ∃ e c' eff, (e = XsCtx.Ev.tau .T ∨ e = .relock .T ∨ e = .unlock .T) ∧ cstep c e = some (c', eff) ∧ c'.cpc = .idle false ∧
      (restartEv c e = true ∨ (restartEv c e = false ∧ nph c' = .pre ∧ tdist c'.tpc < tdist c.tpc)) := by
  have h := (List.all_eq_true.mp prog_ok) c hc
  unfold progB at h
  simp only [hn, hi, decide_true, Bool.and_self, Bool.not_true, Bool.false_or, List.any_eq_true] at h
  obtain ⟨e, he, hm⟩ := h
  cases hs : cstep c e with
  | none => simp [hs] at hm
  | some r =>
    obtain ⟨c', eff⟩ := r
    simp only [hs, Bool.and_eq_true, decide_eq_true_eq, Bool.or_eq_true] at hm
    refine ⟨e, c', eff, by simpa using he, hs, hm.1, ?_⟩
    cases hr : restartEv c e with
    | true => exact Or.inl rfl
    | false =>
      right
      rcases hm.2 with h2 | h2
      · rw [hr] at h2; exact absurd h2 (by decide)
      · exact ⟨rfl, h2.1, h2.2⟩

theorem native_T {e : XsCtx.Ev} (h : e = XsCtx.Ev.tau .T ∨ e = .relock .T ∨ e = .unlock .T) : isNative (.ctx e) = true := by
  rcases h with h | h | h <;> subst h <;> rfl

theorem glue_T {s : St} {e : XsCtx.Ev} (h : e = XsCtx.Ev.tau .T ∨ e = .relock .T ∨ e = .unlock .T) :
    ctxGuard s e = true ∧ gLpc s e = s.lpc ∧ e ≠ .ret := by
  rcases h with h | h | h <;> subst h <;> simp [ctxGuard, gLpc]

theorem run_sched {s : St} (hc : s.npc = .sched) (hp : 0 < s.pending) :
    ∃ s', machine.run s [.nRun] = some s' ∧ s'.ran = s.ran + 1 := by
  simp [Machine.run, machine, step, hc, hp]

theorem run_root {s : St} (hc : s.npc = .root) (hr : s.rootq = true) (hq : s.creq = false) (hp : 0 < s.pending) :
    ∃ s', machine.run s [.nRoot false, .nRun] = some s' ∧ s'.ran = s.ran + 1 := by
  simp [Machine.run, machine, step, hc, hr, hq, hp]

theorem run_restart {s : St} {e : XsCtx.Ev} {c' : Ctl} {eff : Eff}
    (he : e = XsCtx.Ev.tau .T ∨ e = .relock .T ∨ e = .unlock .T) (hs : cstep s.x e = some (c', eff))
    (hrr : restartEv s.x e = true) (hr : s.rootq = true) (hq : s.creq = false) (hp : 0 < s.pending) :
    ∃ s', machine.run s [.ctx e, .nRoot false, .nRun] = some s' ∧ s'.ran = s.ran + 1 := by
  have hg := glue_T (s := s) he
  simp [Machine.run, machine, step, hg.1, hs, ctxGlue, gNpc, hrr, hr, hq, hp]

theorem run_cons {s s1 s' : St} {e : Ev} {tr : List Ev} (h1 : step s e = some s1) (h2 : machine.run s1 tr = some s') :
    machine.run s (e :: tr) = some s' := by
  have : machine.step s e = some s1 := h1
  simp only [Machine.run, this]
  exact h2

/-- from a state where the scheduler is in its loop (or the thread is about to enter thread_f) and a unit is pending,
steps of the native thread alone run a unit -/
theorem native_runs_unit : ∀ (n : Nat) (s : St), Inv s → s.cause = false → s.lpc = .idle → 0 < s.pending →
    tdist s.x.tpc ≤ n →
    ∃ tr s', (∀ e ∈ tr, isNative e = true) ∧ machine.run s tr = some s' ∧ s'.ran = s.ran + 1 := by
  intro n
  induction n with
  | zero =>
    intro s hi hq hl hp hd
    obtain ⟨_, _, _, hcq, _, _, hc⟩ := quiet_facts hi hq hl
    rcases hc with hc | ⟨hc, hr⟩ | ⟨hc, hn, hi2, hr⟩
    · obtain ⟨s', h1, h2⟩ := run_sched hc hp
      exact ⟨[.nRun], s', by simp [isNative], h1, h2⟩
    · obtain ⟨s', h1, h2⟩ := run_root hc hr hcq hp
      exact ⟨[.nRoot false, .nRun], s', by simp [isNative], h1, h2⟩
    · obtain ⟨e, c', eff, he, hs, _, hrr⟩ := prog_of hi.reach hn hi2
      rcases hrr with hrr | ⟨_, _, hlt⟩
      · obtain ⟨s', h1, h2⟩ := run_restart he hs hrr hr hcq hp
        refine ⟨[.ctx e, .nRoot false, .nRun], s', ?_, h1, h2⟩
        intro x hx
        simp only [List.mem_cons, List.not_mem_nil, or_false] at hx
        rcases hx with hx | hx | hx <;> subst hx
        · exact native_T he
        · rfl
        · rfl
      · omega
  | succ n ih =>
    intro s hi hq hl hp hd
    obtain ⟨_, _, _, hcq, _, _, hc⟩ := quiet_facts hi hq hl
    rcases hc with hc | ⟨hc, hr⟩ | ⟨hc, hn, hi2, hr⟩
    · obtain ⟨s', h1, h2⟩ := run_sched hc hp
      exact ⟨[.nRun], s', by simp [isNative], h1, h2⟩
    · obtain ⟨s', h1, h2⟩ := run_root hc hr hcq hp
      exact ⟨[.nRoot false, .nRun], s', by simp [isNative], h1, h2⟩
    · obtain ⟨e, c', eff, he, hs, hci, hrr⟩ := prog_of hi.reach hn hi2
      have hg := glue_T (s := s) he
      rcases hrr with hrr | ⟨hrr, hn', hlt⟩
      · obtain ⟨s', h1, h2⟩ := run_restart he hs hrr hr hcq hp
        refine ⟨[.ctx e, .nRoot false, .nRun], s', ?_, h1, h2⟩
        intro x hx
        simp only [List.mem_cons, List.not_mem_nil, or_false] at hx
        rcases hx with hx | hx | hx <;> subst hx
        · exact native_T he
        · rfl
        · rfl
      · -- one more step of the wait loop, then the induction hypothesis
        have hst : step s (.ctx e) = some { s with x := c' } := by
          simp [step, hg.1, hs, ctxGlue, gNpc, hrr, hg.2.1, hg.2.2]
        have hi' := inv_step s (.ctx e) _ hi hst
        obtain ⟨tr, s', htr, hrun, hran⟩ := ih { s with x := c' } hi' hq hl hp (by simp only; omega)
        refine ⟨.ctx e :: tr, s', ?_, run_cons hst hrun, hran⟩
        intro x hx
        rcases List.mem_cons.mp hx with hx | hx
        · subst hx; exact native_T he
        · exact htr x hx

end ArgoVerif.Model.XsLife
