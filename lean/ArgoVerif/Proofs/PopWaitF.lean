import ArgoVerif.Proofs.PopWaitB
/- Proofs.PopWaitF — FIFO_WAIT: no lost wake-up. -/
namespace ArgoVerif.Model.PopWait
open ArgoVerif
set_option maxHeartbeats 1000000

/-- 1 while the mutex holder is a pusher that has linked its unit and not yet signalled -/
def pendSig (s : St) : Nat :=
  match s.owner with
  | some a => if s.pc a = .fpSig then 1 else 0
  | none => 0

/-- while an un-signalled consumer sleeps on the condition variable, every queued unit has a wake-up in flight -/
def InvF (s : St) : Prop := s.waiters ≠ [] → s.q.length ≤ s.woken.length + pendSig s

theorem pendSig_le (s : St) : pendSig s ≤ 1 := by
  unfold pendSig; split <;> (try split) <;> omega

theorem pendSig_iff {k : Kind} {s : St} (h : InvA k s) : pendSig s = 1 ↔ ∃ a, s.pc a = .fpSig := by
  unfold pendSig
  constructor
  · intro hp
    split at hp
    · rename_i a _; split at hp
      · exact ⟨a, ‹_›⟩
      · cases hp
    · cases hp
  · rintro ⟨a, ha⟩
    have : s.owner = some a := (h.ownerIff a).mpr (by simp [ha, HasLock])
    simp [this, ha]

theorem pendSig_frame {k : Kind} {s s' : St} (h : InvA k s) (h' : InvA k s')
    (hf : ∀ b, s'.pc b = .fpSig ↔ s.pc b = .fpSig) : pendSig s' = pendSig s := by
  have a1 := pendSig_iff h; have a2 := pendSig_iff h'
  have b1 := pendSig_le s; have b2 := pendSig_le s'
  have : pendSig s' = 1 ↔ pendSig s = 1 := by
    rw [a1, a2]; exact ⟨fun ⟨b, hb⟩ => ⟨b, (hf b).mp hb⟩, fun ⟨b, hb⟩ => ⟨b, (hf b).mpr hb⟩⟩
  omega

/-- only `take`, `condWait`, `signal`, `timeout`, `spurious` touch the condition variable's bookkeeping -/
theorem step0_frameW (k : Kind) (s s' : St) (e : Ev) (hs : step0 k s e = some s')
    (h1 : ∀ a r, e ≠ .take a r) (h2 : ∀ a d, e ≠ .condWait a d) (h3 : ∀ a w, e ≠ .signal a w)
    (h4 : ∀ a, e ≠ .timeout a) (h5 : ∀ a, e ≠ .spurious a) :
    s'.waiters = s.waiters ∧ s'.woken = s.woken := by
  cases e <;> simp only [step0, stepCall, stepRet, stepAdvance, stepTas, stepLoadLock, stepLoadEmpty, stepClear, stepClock,
    stepSleepDone, stepMlock, stepMunlock, stepLink, afterEmpty] at hs <;>
    (try (exact absurd rfl (h1 _ _))) <;> (try (exact absurd rfl (h2 _ _))) <;> (try (exact absurd rfl (h3 _ _))) <;>
    (try (exact absurd rfl (h4 _))) <;> (try (exact absurd rfl (h5 _))) <;>
    (repeat' (split at hs)) <;>
    (first | (cases hs; done) | (cases hs; simp [setPc, takeL, dropL, linkQ]))

/-- only `link` and `signal` move an actor into or out of the "linked, not yet signalled" position -/
theorem step0_frameSig (k : Kind) (s s' : St) (e : Ev) (hs : step0 k s e = some s')
    (h1 : ∀ a, e ≠ .link a) (h3 : ∀ a w, e ≠ .signal a w) (h2 : ∀ a r, e ≠ .take a r) (b : Actor) :
    s'.pc b = .fpSig ↔ s.pc b = .fpSig := by
  cases e <;> simp only [step0, stepCall, stepRet, stepAdvance, stepTas, stepLoadLock, stepLoadEmpty, stepClear, stepClock,
    stepSleepDone, stepMlock, stepMunlock, stepCondWait, stepTimeout, stepSpurious, afterEmpty] at hs <;>
    (try (exact absurd rfl (h1 _))) <;> (try (exact absurd rfl (h3 _ _))) <;> (try (exact absurd rfl (h2 _ _))) <;>
    (repeat' (split at hs)) <;>
    (first | (cases hs; done) | (cases hs; exact Iff.rfl) | (cases hs; simp only [setPc, takeL, dropL, upd]; split <;> simp_all))

/-- what a `take` step is: the actor is at one of the three "pop inside the critical section" positions, the unit
reported is the one the abstract queue gives, and the state changes as described -/
theorem take_cases (s s' : St) (a : Actor) (r : Option Nat) (hs : stepTake s a r = some s') :
    ∃ p, (s.pc a = .aCs ∧ p = .aRel ∨ s.pc a = .fnCs ∧ p = .fnUnl ∨ s.pc a = .fwCs ∧ p = .fwUnl) ∧
      ((takeFrom s.q (tailOf (s.cur a)) = none ∧ r = none ∧
          s' = setPc { s with got := upd s.got a none, emptyAtPoll := upd s.emptyAtPoll a true, woken := s.woken.erase a } a p) ∨
       (∃ x rest, takeFrom s.q (tailOf (s.cur a)) = some (x, rest) ∧ r = some x ∧
          s' = setPc { s with q := rest, flag := if rest = [] then true else s.flag, taken := s.taken ++ [x],
                              got := upd s.got a (some x), woken := s.woken.erase a } a p)) := by
  unfold stepTake at hs
  have key : ∀ p,
      (match takeFrom s.q (tailOf (s.cur a)) with
        | none =>
          if r = none then
            some (setPc { s with got := upd s.got a none, emptyAtPoll := upd s.emptyAtPoll a true, woken := s.woken.erase a } a p)
          else none
        | some (x, rest) =>
          if r = some x then
            some (setPc { s with q := rest, flag := if rest = [] then true else s.flag, taken := s.taken ++ [x],
                                 got := upd s.got a (some x), woken := s.woken.erase a } a p)
          else none) = some s' →
      ((takeFrom s.q (tailOf (s.cur a)) = none ∧ r = none ∧
          s' = setPc { s with got := upd s.got a none, emptyAtPoll := upd s.emptyAtPoll a true, woken := s.woken.erase a } a p) ∨
       (∃ x rest, takeFrom s.q (tailOf (s.cur a)) = some (x, rest) ∧ r = some x ∧
          s' = setPc { s with q := rest, flag := if rest = [] then true else s.flag, taken := s.taken ++ [x],
                              got := upd s.got a (some x), woken := s.woken.erase a } a p)) := by
    intro p hs
    split at hs
    · rename_i htf
      split at hs
      · rename_i hr; cases hs; exact Or.inl ⟨htf, hr, rfl⟩
      · cases hs
    · rename_i x rest htf
      split at hs
      · rename_i hr; cases hs; exact Or.inr ⟨x, rest, htf, hr, rfl⟩
      · cases hs
  cases hpc : s.pc a <;> simp only [hpc] at hs <;> first
    | (cases hs; done)
    | exact ⟨_, by simp, key _ hs⟩

end ArgoVerif.Model.PopWait
