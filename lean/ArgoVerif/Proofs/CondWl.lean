import ArgoVerif.Proofs.Cond
/- Proofs.CondWl — the wait-list events inside cond operations preserve the cond invariant. -/
namespace ArgoVerif.Model.Cond
open ArgoVerif
set_option maxHeartbeats 8000000

macro "wl_tac" h:ident hw:ident : tactic => `(tactic|
  (have := ($h).idleLink; have := ($h).acqLink; have := ($h).csLink; have := ($h).sigLink
   have := ($h).waitLink; have := ($h).untimedLink; have := ($h).timedLink; have := ($h).holdM; have := ($h).wokenReady
   have := ($h).timedOutNotReady
   have := ($h).wlInv.lIff; have := ($h).wlInv.readyPc; have := ($h).wlInv.tmoRelInv; have := ($h).wlInv.tmoRmInv
   have := ($h).wlInv.lBool; have := ($h).wlInv.pendOwner; have := ($h).wlInv.inQ; have := ($h).wlInv.ultWait; have := ($h).wlInv.suspInQ; have := ($h).wlInv.timedInQ; have := ($h).wlInv.pendWait; have := ($h).wlInv.pendIff; have := ($h).wlInv.ultOnly
   try simp only [setC, afterAcquire, finishWait, WaitList.setPc, WaitList.takeL, WaitList.dropL] at *
   grind (splits := 40) [upd, UntimedWaiting, TimedStates, WaitList.Waiting, WaitList.HasL, isTimed, opMutex]))

theorem map_some {α β : Type} {o : Option α} {f : α → β} {y : β} (h : o.map f = some y) :
    ∃ w, o = some w ∧ f w = y := by
  cases o with
  | none => simp at h
  | some w => exact ⟨w, rfl, by simpa using h⟩

end ArgoVerif.Model.Cond
