import ArgoVerif.Proofs.PopWaitC
/- Proofs.PopWaitC2 — timing invariant: steps of the polling pools. -/
namespace ArgoVerif.Model.PopWait
open ArgoVerif
set_option maxHeartbeats 2000000

/-- the other actors: nothing of theirs changed, the clock did not go back -/
macro "other" h:ident b:ident hb:ident : tactic => `(tactic|
  (have hb0 := $h $b
   simp only [bump, setPc, takeL, dropL, linkQ, upd, $hb:ident, if_false] at hb0 ⊢
   first | exact hb0 | exact timeOk_mono hb0 (by simp_all <;> omega)))

macro "acting" h:ident a:ident : tactic => `(tactic|
  (have hb0 := $h $a
   simp only [bump, setPc, takeL, dropL, linkQ, upd, if_true] at hb0 ⊢
   tk hb0))

theorem invC_call (k : Kind) (s s' : St) (a : Actor) (c : Call) (h : InvC k s) (hs : stepCall k s a c = some s') :
    InvC k s' := by
  unfold stepCall at hs
  split at hs
  · cases hs
  · cases hs
    intro b
    by_cases hb : b = a
    · subst hb
      cases k <;> cases c <;> acting h b
    · other h b hb

theorem invC_ret (k : Kind) (s s' : St) (a : Actor) (r : Option Nat) (h : InvC k s) (hs : stepRet s a r = some s') :
    InvC k s' := by
  unfold stepRet at hs
  split at hs
  · cases hs
    intro b
    by_cases hb : b = a
    · subst hb; acting h b
    · other h b hb
  · cases hs

theorem invC_advance (k : Kind) (s s' : St) (v : Nat) (h : InvC k s) (hs : stepAdvance s v = some s') : InvC k s' := by
  unfold stepAdvance at hs
  split at hs
  · cases hs
  · rename_i hv; cases hs
    intro b; exact timeOk_mono (h b) (by simp at hv ⊢; omega)

/-- after the case analysis of a step function: conclude for every actor -/
macro "pointwise" h:ident a:ident hs:ident : tactic => `(tactic|
  first
  | (cases $hs:ident; done)
  | (cases $hs:ident
     intro b
     by_cases hb : b = $a
     · subst hb; acting $h b
     · other $h b hb))

theorem invC_tas (k : Kind) (s s' : St) (a : Actor) (o : Bool) (h : InvC k s) (hs : stepTas s a o = some s') :
    InvC k (bump s' (some a)) := by
  unfold stepTas at hs
  cases o <;> (repeat' (split at hs)) <;> pointwise h a hs

theorem invC_loadLock (k : Kind) (s s' : St) (a : Actor) (v : Bool) (h : InvC k s) (hs : stepLoadLock s a v = some s') :
    InvC k (bump s' (some a)) := by
  unfold stepLoadLock at hs
  cases v <;> (repeat' (split at hs)) <;> pointwise h a hs

theorem invC_sleepDone (k : Kind) (s s' : St) (a : Actor) (h : InvC k s) (hs : stepSleepDone s a = some s') :
    InvC k (bump s' (some a)) := by
  unfold stepSleepDone at hs
  (repeat' (split at hs)) <;> pointwise h a hs

theorem invC_link (k : Kind) (s s' : St) (a : Actor) (h : InvC k s) (hs : stepLink s a = some s') :
    InvC k (bump s' (some a)) := by
  unfold stepLink at hs
  (repeat' (split at hs)) <;> pointwise h a hs

end ArgoVerif.Model.PopWait
