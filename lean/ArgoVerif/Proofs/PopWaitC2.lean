import ArgoVerif.Proofs.PopWaitC
/- Proofs.PopWaitC2 — timing invariant: call, return, passing of time. -/
namespace ArgoVerif.Model.PopWait
open ArgoVerif
set_option maxHeartbeats 2000000

theorem invC_call (k : Kind) (s s' : St) (a : Actor) (c : Call) (hA : InvA k s) (h : InvC k s) (hs : stepCall k s a c = some s') :
    InvC k s' := by
  unfold stepCall at hs
  split at hs
  · cases hs
  · cases hs
    intro b
    by_cases hb : b = a
    · subst hb
      cases k <;> cases c <;> acting hA h b
    · other h b hb

theorem invC_ret (k : Kind) (s s' : St) (a : Actor) (r : Option Nat) (hA : InvA k s) (h : InvC k s) (hs : stepRet s a r = some s') :
    InvC k s' := by
  unfold stepRet at hs
  split at hs
  · cases hs
    intro b
    by_cases hb : b = a
    · subst hb; acting hA h b
    · other h b hb
  · cases hs

theorem invC_advance (k : Kind) (s s' : St) (v : Nat) (hA : InvA k s) (h : InvC k s) (hs : stepAdvance s v = some s') : InvC k s' := by
  unfold stepAdvance at hs
  split at hs
  · cases hs
  · rename_i hv; cases hs
    intro b; exact timeOk_mono (h b) (by simp at hv ⊢; omega)


end ArgoVerif.Model.PopWait
