import ArgoVerif.Proofs.PopWait
/- Proofs.PopWaitA — the structural invariant is preserved by every step. -/
namespace ArgoVerif.Model.PopWait
open ArgoVerif
set_option maxHeartbeats 1000000

/-- side conditions of the frame lemmas once the acting actor's old program counter is known -/
macro "sideA" h:ident a:ident : tactic => `(tactic|
  first
  | rfl
  | (simp_all [HasLock, PollPc, FwPc, upd]; done)
  | (intro hm; have := ($h).wokenPc _ hm; simp_all; done)
  | (intro hk; exact (side_kind $h (a := $a) (by simp_all [Side, PollPc, FwPc])).1 hk)
  | (intro hk; exact (side_kind $h (a := $a) (by simp_all [Side, PollPc, FwPc])).2 hk))

theorem invA_stepCall (k : Kind) (s s' : St) (a : Actor) (c : Call) (h : InvA k s) (hs : stepCall k s a c = some s') :
    InvA k s' := by
  unfold stepCall at hs
  split at hs
  · cases hs
  · rename_i hpc
    have hpc : s.pc a = .idle := by simpa using hpc
    cases hs
    cases k <;> cases c <;> (apply invA_pc _ s _ a _ h <;> first | rfl | (simp_all [HasLock, PollPc, FwPc, upd]; done) | (intro hm; have := h.wokenPc _ hm; simp_all; done))

theorem invA_stepRet (k : Kind) (s s' : St) (a : Actor) (r : Option Nat) (h : InvA k s) (hs : stepRet s a r = some s') :
    InvA k s' := by
  unfold stepRet at hs
  split at hs
  · rename_i hpc; cases hs; apply invA_pc _ s _ a _ h <;> sideA h a
  · cases hs

theorem invA_stepAdvance (k : Kind) (s s' : St) (v : Nat) (h : InvA k s) (hs : stepAdvance s v = some s') : InvA k s' := by
  unfold stepAdvance at hs
  split at hs
  · cases hs
  · cases hs; exact ⟨h.flagIff, h.ownerIff, h.lockBool, h.kindP, h.kindF, h.waitIff, h.waitNodup, h.wokenPc, h.wokenNodup, h.sawEmpty⟩

theorem invA_stepTas (k : Kind) (s s' : St) (a : Actor) (o : Bool) (h : InvA k s) (hs : stepTas s a o = some s') :
    InvA k s' := by
  unfold stepTas at hs
  split at hs
  · cases hs
  · rename_i ho
    have ho : o = s.lock := by simpa using ho
    split at hs
    · rename_i hpc
      cases o
      · simp only [Bool.false_eq_true, if_false] at hs; cases hs
        apply invA_takeL _ s _ a _ h ho.symm <;> sideA h a
      · simp only [if_true] at hs; cases hs
        apply invA_pc _ s _ a _ h <;> sideA h a
    · rename_i hpc
      cases o
      · simp only [Bool.false_eq_true, if_false] at hs; cases hs
        apply invA_takeL _ s _ a _ h ho.symm <;> sideA h a
      · simp only [if_true] at hs; cases hs
        apply invA_pc _ s _ a _ h <;> sideA h a
    · cases hs

theorem invA_stepLoadLock (k : Kind) (s s' : St) (a : Actor) (v : Bool) (h : InvA k s) (hs : stepLoadLock s a v = some s') :
    InvA k s' := by
  unfold stepLoadLock at hs
  split at hs
  · cases hs
  · split at hs
    · rename_i hpc; cases hs; cases v <;> (apply invA_pc _ s _ a _ h <;> sideA h a)
    · rename_i hpc; cases hs; cases v <;> (apply invA_pc _ s _ a _ h <;> sideA h a)
    · cases hs

theorem invA_afterEmpty (k : Kind) (s s' : St) (a : Actor) (e : Bool) (h : InvA k s)
    (hpc : s.pc a = .aTop ∨ s.pc a = .aSpinE) (hs : afterEmpty s a e = some s') : InvA k s' := by
  unfold afterEmpty at hs
  split at hs
  · cases hs; rcases hpc with hpc | hpc <;> (apply invA_pc _ s _ a _ h <;> sideA h a)
  · cases hs; rcases hpc with hpc | hpc <;> (apply invA_pc _ s _ a _ h <;> sideA h a)
  · cases hs; rcases hpc with hpc | hpc <;> (apply invA_pc _ s _ a _ h <;> sideA h a)
  · cases hs

theorem invA_stepLoadEmpty (k : Kind) (s s' : St) (a : Actor) (v : Bool) (h : InvA k s) (hs : stepLoadEmpty s a v = some s') :
    InvA k s' := by
  unfold stepLoadEmpty at hs
  split at hs
  · cases hs
  · rename_i hv
    have hv : v = s.flag := by simpa using hv
    split at hs
    · rename_i hpc
      cases v
      · simp only [Bool.false_eq_true, if_false] at hs; cases hs; apply invA_pc _ s _ a _ h <;> sideA h a
      · simp only [if_true] at hs; exact invA_afterEmpty k s s' a _ h (Or.inl hpc) hs
    · rename_i hpc
      cases v
      · simp only [Bool.false_eq_true, if_false] at hs; cases hs; apply invA_pc _ s _ a _ h <;> sideA h a
      · simp only [if_true] at hs; exact invA_afterEmpty k s s' a _ h (Or.inr hpc) hs
    · rename_i hpc
      cases v
      · simp only [Bool.false_eq_true, if_false] at hs; cases hs; apply invA_pc _ s _ a _ h <;> sideA h a
      · simp only [if_true] at hs; cases hs; apply invA_pc _ s _ a _ h <;> sideA h a
    · rename_i hpc
      have hq : v = true → s.q = [] := fun e => h.flagIff.mp (by rw [← hv, e])
      cases v
      · simp only [Bool.false_eq_true, if_false] at hs; cases hs; apply invA_pc _ s _ a _ h <;> sideA h a
      · simp only [if_true] at hs
        have hq := hq rfl
        split at hs
        · cases hs; apply invA_pc _ s _ a _ h <;> sideA h a
        · cases hs; apply invA_pc _ s _ a _ h <;> sideA h a
        · cases hs
    · cases hs

theorem invA_stepClear (k : Kind) (s s' : St) (a : Actor) (h : InvA k s) (hs : stepClear s a = some s') : InvA k s' := by
  unfold stepClear at hs
  split at hs
  · rename_i hpc; cases hs; apply invA_dropL _ s _ a _ h (by simp [hpc, HasLock]) <;> sideA h a
  · rename_i hpc
    split at hs
    · cases hs; apply invA_dropL _ s _ a _ h (by simp [hpc, HasLock]) <;> sideA h a
    · unfold afterEmpty at hs
      split at hs
      · cases hs; apply invA_dropL _ s _ a _ h (by simp [hpc, HasLock]) <;> sideA h a
      · cases hs; apply invA_dropL _ s _ a _ h (by simp [hpc, HasLock]) <;> sideA h a
      · cases hs; apply invA_dropL _ s _ a _ h (by simp [hpc, HasLock]) <;> sideA h a
      · cases hs
  · cases hs

theorem invA_stepClock (k : Kind) (s s' : St) (a : Actor) (v : Nat) (h : InvA k s) (hs : stepClock s a v = some s') :
    InvA k s' := by
  unfold stepClock at hs
  split at hs
  · cases hs
  · split at hs
    · rename_i hpc _
      split at hs
      · cases hs; apply invA_pc _ s _ a _ h <;> sideA h a
      · split at hs <;> (cases hs; apply invA_pc _ s _ a _ h <;> sideA h a)
    · rename_i hpc _
      split at hs <;> (cases hs; apply invA_pc _ s _ a _ h <;> sideA h a)
    · rename_i hpc _
      have hq := h.sawEmpty a (Or.inl hpc)
      cases hs; apply invA_pc _ s _ a _ h <;> sideA h a
    · cases hs

theorem invA_stepSleepDone (k : Kind) (s s' : St) (a : Actor) (h : InvA k s) (hs : stepSleepDone s a = some s') :
    InvA k s' := by
  unfold stepSleepDone at hs
  split at hs
  · cases hs
  · split at hs
    · rename_i hpc; cases hs; apply invA_pc _ s _ a _ h <;> sideA h a
    · rename_i hpc; cases hs; apply invA_pc _ s _ a _ h <;> sideA h a
    · cases hs

theorem invA_stepMlock (k : Kind) (s s' : St) (a : Actor) (h : InvA k s) (hs : stepMlock s a = some s') : InvA k s' := by
  unfold stepMlock at hs
  split at hs
  · cases hs
  · rename_i hl
    have hl : s.lock = false := by simpa using hl
    split at hs
    · rename_i hpc; cases hs; apply invA_takeL _ s _ a _ h hl <;> sideA h a
    · rename_i hpc; cases hs; apply invA_takeL _ s _ a _ h hl <;> sideA h a
    · rename_i hpc; cases hs; apply invA_takeL _ s _ a _ h hl <;> sideA h a
    · rename_i hpc; cases hs; apply invA_takeL _ s _ a _ h hl <;> sideA h a
    · cases hs

theorem invA_stepMunlock (k : Kind) (s s' : St) (a : Actor) (h : InvA k s) (hs : stepMunlock s a = some s') : InvA k s' := by
  unfold stepMunlock at hs
  split at hs
  · rename_i hpc; cases hs; apply invA_dropL _ s _ a _ h (by simp [hpc, HasLock]) <;> sideA h a
  · rename_i hpc; cases hs; apply invA_dropL _ s _ a _ h (by simp [hpc, HasLock]) <;> sideA h a
  · rename_i hpc; cases hs; apply invA_dropL _ s _ a _ h (by simp [hpc, HasLock]) <;> sideA h a
  · cases hs

end ArgoVerif.Model.PopWait
