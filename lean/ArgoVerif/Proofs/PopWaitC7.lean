import ArgoVerif.Proofs.PopWaitC2
import ArgoVerif.Proofs.PopWaitC3
import ArgoVerif.Proofs.PopWaitC3b
import ArgoVerif.Proofs.PopWaitC4c
import ArgoVerif.Proofs.PopWaitC4b
import ArgoVerif.Proofs.PopWaitC5
import ArgoVerif.Proofs.PopWaitC5b
import ArgoVerif.Proofs.PopWaitC6
/- Proofs.PopWaitC7 — the timing invariant is inductive; all invariants of the blocking-pop model together. -/
namespace ArgoVerif.Model.PopWait
open ArgoVerif

theorem invC_step (k : Kind) (s s' : St) (e : Ev) (hA : InvA k s) (h : InvC k s) (hs : step k s e = some s') : InvC k s' := by
  unfold step at hs
  cases h0 : step0 k s e with
  | none => simp [h0] at hs
  | some s1 =>
    simp only [h0, Option.map_some, Option.some.injEq] at hs
    subst hs
    cases e with
    | call a c => exact invC_call k s s1 a c hA h h0
    | ret a r => exact invC_ret k s s1 a r hA h h0
    | advance v => exact invC_advance k s s1 v hA h h0
    | tas a o => exact invC_tas k s s1 a o hA h h0
    | loadLock a v => exact invC_loadLock k s s1 a v hA h h0
    | loadEmpty a v => exact invC_loadEmpty k s s1 a v hA h h0
    | clear a => exact invC_clear k s s1 a hA h h0
    | link a => exact invC_link k s s1 a hA h h0
    | take a r => exact invC_take k s s1 a r hA h h0
    | clock a v => exact invC_clock k s s1 a v hA h h0
    | sleepDone a => exact invC_sleepDone k s s1 a hA h h0
    | mlock a => exact invC_mlock k s s1 a hA h h0
    | munlock a => exact invC_munlock k s s1 a hA h h0
    | condWait a dl => exact invC_condWait k s s1 a dl hA h h0
    | signal a w => exact invC_signal k s s1 a w hA h h0
    | timeout a => exact invC_timeout k s s1 a hA h h0
    | spurious a => exact invC_spurious k s s1 a hA h h0

structure Inv (k : Kind) (s : St) : Prop where
  a : InvA k s
  b : InvB s
  c : InvC k s
  f : InvF s

theorem inv_reachable (k : Kind) (s : St) (h : (machine k).Reachable s) : Inv k s :=
  Machine.invariant_reachable (machine k) (Inv k) ⟨invA_init k, invB_init, invC_init k, invF_init⟩
    (fun s e s' hi hs => ⟨invA_step k s s' e hi.a hs, invB_step k s s' e hi.b hs, invC_step k s s' e hi.a hi.c hs,
      invF_step k s s' e hi.a hi.f hs⟩) s h

end ArgoVerif.Model.PopWait
