import ArgoVerif.Model.Config
import ArgoVerif.Proofs.HTable
/-
Proofs.Config — the typed configuration objects are a typed finite map, by the
hashtable refinement (Proofs.HTable) and `dec ∘ enc = id`.
-/
namespace ArgoVerif.Proofs.Config
open ArgoVerif.Model ArgoVerif.Model.Config
open ArgoVerif.Gen.EnvTable (errSuccess errInvArg schedConfigVarEndIdx)

theorem dec_enc (e : Elem) : dec (enc e) = e := by
  obtain ⟨ty, bits⟩ := e
  unfold dec enc
  cases ty <;> simp [Ty.code, Ty.ofCode] <;> omega

/-- abstraction: the typed map a configuration object denotes -/
def absMap (c : Config) : Int → Option Elem := fun k => Config.get c k

/-- the typed-map meaning of `ABT_*_config_set` -/
def specSet (k : Config.Kind) (m : Int → Option Elem) (idx tag : Int) (val : Option Nat) : (Int → Option Elem) × Int :=
  match val with
  | none => (fun x => if x = idx then none else m x, errSuccess)
  | some bits =>
    match tyOfTag k tag with
    | none => (m, errInvArg)
    | some ty => (fun x => if x = idx then some ⟨ty, bits⟩ else m x, errSuccess)

theorem set_refines (c : Config) (idx tag : Int) (val : Option Nat) (hw : HTable.WF c.table) :
    HTable.WF (Config.set c idx tag val).1.table ∧ (Config.set c idx tag val).1.kind = c.kind ∧
    (Config.set c idx tag val).2 = (specSet c.kind (absMap c) idx tag val).2 ∧
    absMap (Config.set c idx tag val).1 = (specSet c.kind (absMap c) idx tag val).1 := by
  cases val with
  | none =>
    have h := HTable.delete_spec c.table idx hw
    refine ⟨h.1, rfl, rfl, ?_⟩
    funext x
    simp only [absMap, Config.get, Config.set, specSet]
    rw [h.2.2 x]
    split <;> simp
  | some bits =>
    simp only [Config.set, specSet]
    cases ht : tyOfTag c.kind tag with
    | none => exact ⟨hw, rfl, rfl, rfl⟩
    | some ty =>
      have h := HTable.set_spec c.table idx (enc ⟨ty, bits⟩) hw
      refine ⟨h.1, rfl, rfl, ?_⟩
      funext x
      simp only [absMap, Config.get]
      rw [h.2.2 x]
      split
      · simp [dec_enc]
      · rfl

theorem createEmpty_spec (k : Config.Kind) : HTable.WF (createEmpty k).table ∧ ∀ x, absMap (createEmpty k) x = none := by
  have hn : 0 < tableSize k := by cases k <;> decide
  exact ⟨HTable.create_wf _ hn, fun x => by simp [absMap, Config.get, createEmpty, HTable.create_get]⟩

/-- typed-map meaning of the varargs list of `ABT_sched_config_create` -/
def specCreate (m : Int → Option Elem) : List (Int × Int × Nat) → Option (Int → Option Elem)
  | [] => some m
  | (idx, tag, bits) :: rest =>
    if idx = schedConfigVarEndIdx then some m
    else match tyOfTag .sched tag with
      | none => none
      | some ty => specCreate (fun x => if x = idx then some ⟨ty, bits⟩ else m x) rest

theorem createLoop_refines (args : List (Int × Int × Nat)) : ∀ (c : Config), HTable.WF c.table →
    (match createLoop c args, specCreate (absMap c) args with
     | some c', some m' => HTable.WF c'.table ∧ c'.kind = c.kind ∧ absMap c' = m'
     | none, none => True
     | _, _ => False) := by
  induction args with
  | nil => intro c hw; exact ⟨hw, rfl, rfl⟩
  | cons a rest ih =>
    intro c hw
    obtain ⟨idx, tag, bits⟩ := a
    simp only [createLoop, specCreate]
    by_cases he : idx = schedConfigVarEndIdx
    · simp only [he, if_true]; exact ⟨hw, trivial, trivial⟩
    · simp only [he, if_false]
      cases ht : tyOfTag .sched tag with
      | none => trivial
      | some ty =>
        simp only
        have h := HTable.set_spec c.table idx (enc ⟨ty, bits⟩) hw
        have habs : absMap { c with table := (HTable.set c.table idx (enc ⟨ty, bits⟩)).1 } =
            (fun x => if x = idx then some ⟨ty, bits⟩ else absMap c x) := by
          funext x
          simp only [absMap, Config.get]
          rw [h.2.2 x]
          split
          · simp [dec_enc]
          · rfl
        have := ih { c with table := (HTable.set c.table idx (enc ⟨ty, bits⟩)).1 } h.1
        rw [habs] at this
        exact this

end ArgoVerif.Proofs.Config
