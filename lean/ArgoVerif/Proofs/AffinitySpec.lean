import ArgoVerif.Proofs.Affinity
/-
Proofs.AffinitySpec — (1) the documented left-recursive BNF (`GList` …) is the
comma-separated rendering used in Proofs.Affinity; (2) the lists the model builds
are the documented expansions converted to `int`; (3) assembly.
-/
namespace ArgoVerif.Proofs.AffinitySpec
open ArgoVerif.Model.Affinity
open ArgoVerif.Gen.EnvTable
open ArgoVerif.Props.C20Spec (Tok Lex symTok NumStride IdInterval EsIdList Interval GNumStride GIdInterval GIdList
  GEsIdList GInterval GList intOk nsOk wrapInt32 expandList)
open ArgoVerif.Proofs.Affinity

/-! ### BNF ↔ rendering -/

theorem gns_iff (t : List Tok) (ns : NumStride) : GNumStride t ns ↔ t = rNS ns ∧ nsPos ns := by
  constructor
  · intro h
    cases h with
    | full n s hn => exact ⟨rfl, hn⟩
    | num n hn => exact ⟨rfl, hn⟩
    | none => exact ⟨rfl, by simp [nsPos]⟩
  · rintro ⟨rfl, hp⟩
    cases ns with
    | none => exact GNumStride.none
    | some p =>
      obtain ⟨n, so⟩ := p
      cases so with
      | none => exact GNumStride.num n hp
      | some s => exact GNumStride.full n s hp

theorem gidi_iff (t : List Tok) (x : IdInterval) : GIdInterval t x ↔ t = rIdInterval x ∧ nsPos x.ns := by
  constructor
  · intro h
    cases h with
    | mk id t ns hns =>
      obtain ⟨rfl, hp⟩ := (gns_iff t ns).mp hns
      exact ⟨rfl, hp⟩
  · rintro ⟨rfl, hp⟩
    obtain ⟨id, ns⟩ := x
    exact GIdInterval.mk id _ ns ((gns_iff _ ns).mpr ⟨rfl, hp⟩)

/-- `"," x` for every further element -/
def idTail (ys : List IdInterval) : List Tok := ys.flatMap fun y => .comma :: rIdInterval y

theorem rIdList_eq (x : IdInterval) (ys : List IdInterval) : rIdList (x :: ys) = rIdInterval x ++ idTail ys := by
  induction ys generalizing x with
  | nil => simp [rIdList, idTail]
  | cons y l ih => simp only [rIdList, ih y]; simp [idTail]

theorem gidl_fwd (t : List Tok) (xs : List IdInterval) (h : GIdList t xs) :
    ∃ x ys, xs = x :: ys ∧ t = rIdInterval x ++ idTail ys ∧ ∀ z ∈ xs, nsPos z.ns := by
  induction h with
  | one t x hx =>
    obtain ⟨rfl, hp⟩ := (gidi_iff t x).mp hx
    exact ⟨x, [], rfl, by simp [idTail], by simpa using hp⟩
  | snoc l t xs z _ hz ih =>
    obtain ⟨x, ys, rfl, rfl, hall⟩ := ih
    obtain ⟨rfl, hp⟩ := (gidi_iff t z).mp hz
    refine ⟨x, ys ++ [z], rfl, by simp [idTail], ?_⟩
    intro w hw
    rcases List.mem_append.mp hw with h | h
    · exact hall w h
    · rw [List.mem_singleton.mp h]; exact hp

theorem gidl_bwd_aux (ys : List IdInterval) : ∀ (l : List Tok) (xs : List IdInterval), GIdList l xs →
    (∀ z ∈ ys, nsPos z.ns) → GIdList (l ++ idTail ys) (xs ++ ys) := by
  induction ys with
  | nil => intro l xs h _; simpa [idTail] using h
  | cons y ys ih =>
    intro l xs h hall
    have h1 : GIdList (l ++ .comma :: rIdInterval y) (xs ++ [y]) :=
      GIdList.snoc l _ xs y h ((gidi_iff _ y).mpr ⟨rfl, hall y (by simp)⟩)
    have := ih _ _ h1 (fun z hz => hall z (by simp [hz]))
    simpa [idTail, List.append_assoc] using this

theorem gidl_iff (t : List Tok) (xs : List IdInterval) :
    GIdList t xs ↔ xs ≠ [] ∧ t = rIdList xs ∧ ∀ z ∈ xs, nsPos z.ns := by
  constructor
  · intro h
    obtain ⟨x, ys, rfl, rfl, hall⟩ := gidl_fwd t xs h
    exact ⟨by simp, (rIdList_eq x ys).symm, hall⟩
  · rintro ⟨hne, rfl, hall⟩
    cases xs with
    | nil => exact absurd rfl hne
    | cons x ys =>
      rw [rIdList_eq]
      have h1 : GIdList (rIdInterval x) [x] := GIdList.one _ x ((gidi_iff _ x).mpr ⟨rfl, hall x (by simp)⟩)
      have := gidl_bwd_aux ys _ _ h1 (fun z hz => hall z (by simp [hz]))
      simpa using this

/-- the syntactic side conditions of the BNF on an `<es-id-list>` value -/
def esPos : EsIdList → Prop
  | .id _ => True
  | .braces l => l ≠ [] ∧ ∀ z ∈ l, nsPos z.ns

theorem ges_iff (t : List Tok) (es : EsIdList) : GEsIdList t es ↔ t = rEs es ∧ esPos es := by
  constructor
  · intro h
    cases h with
    | id v => exact ⟨rfl, trivial⟩
    | braces l xs hl =>
      obtain ⟨hne, rfl, hall⟩ := (gidl_iff l xs).mp hl
      exact ⟨rfl, hne, hall⟩
  · rintro ⟨rfl, hp⟩
    cases es with
    | id v => exact GEsIdList.id v
    | braces l => exact GEsIdList.braces _ l ((gidl_iff _ l).mpr ⟨hp.1, rfl, hp.2⟩)

theorem giv_iff (t : List Tok) (x : Interval) : GInterval t x ↔ t = rInterval x ∧ esPos x.es ∧ nsPos x.ns := by
  constructor
  · intro h
    cases h with
    | mk e t es ns he hns =>
      obtain ⟨rfl, hp1⟩ := (ges_iff e es).mp he
      obtain ⟨rfl, hp2⟩ := (gns_iff t ns).mp hns
      exact ⟨rfl, hp1, hp2⟩
  · rintro ⟨rfl, hp1, hp2⟩
    obtain ⟨es, ns⟩ := x
    exact GInterval.mk _ _ es ns ((ges_iff _ es).mpr ⟨rfl, hp1⟩) ((gns_iff _ ns).mpr ⟨rfl, hp2⟩)

def ivTail (ys : List Interval) : List Tok := ys.flatMap fun y => .comma :: rInterval y

theorem rList_eq (x : Interval) (ys : List Interval) : rList (x :: ys) = rInterval x ++ ivTail ys := by
  induction ys generalizing x with
  | nil => simp [rList, ivTail]
  | cons y l ih => simp only [rList, ih y]; simp [ivTail]

def ivPos (x : Interval) : Prop := esPos x.es ∧ nsPos x.ns

theorem glist_fwd (t : List Tok) (xs : List Interval) (h : GList t xs) :
    ∃ x ys, xs = x :: ys ∧ t = rInterval x ++ ivTail ys ∧ ∀ z ∈ xs, ivPos z := by
  induction h with
  | one t x hx =>
    obtain ⟨rfl, hp⟩ := (giv_iff t x).mp hx
    exact ⟨x, [], rfl, by simp [ivTail], by simpa [ivPos] using hp⟩
  | snoc l t xs z _ hz ih =>
    obtain ⟨x, ys, rfl, rfl, hall⟩ := ih
    obtain ⟨rfl, hp⟩ := (giv_iff t z).mp hz
    refine ⟨x, ys ++ [z], rfl, by simp [ivTail], ?_⟩
    intro w hw
    rcases List.mem_append.mp hw with h | h
    · exact hall w h
    · rw [List.mem_singleton.mp h]; exact hp

theorem glist_bwd_aux (ys : List Interval) : ∀ (l : List Tok) (xs : List Interval), GList l xs →
    (∀ z ∈ ys, ivPos z) → GList (l ++ ivTail ys) (xs ++ ys) := by
  induction ys with
  | nil => intro l xs h _; simpa [ivTail] using h
  | cons y ys ih =>
    intro l xs h hall
    have h1 : GList (l ++ .comma :: rInterval y) (xs ++ [y]) :=
      GList.snoc l _ xs y h ((giv_iff _ y).mpr ⟨rfl, hall y (by simp)⟩)
    have := ih _ _ h1 (fun z hz => hall z (by simp [hz]))
    simpa [ivTail, List.append_assoc] using this

theorem glist_iff (t : List Tok) (xs : List Interval) :
    GList t xs ↔ xs ≠ [] ∧ t = rList xs ∧ ∀ z ∈ xs, ivPos z := by
  constructor
  · intro h
    obtain ⟨x, ys, rfl, rfl, hall⟩ := glist_fwd t xs h
    exact ⟨by simp, (rList_eq x ys).symm, hall⟩
  · rintro ⟨hne, rfl, hall⟩
    cases xs with
    | nil => exact absurd rfl hne
    | cons x ys =>
      rw [rList_eq]
      have h1 : GList (rInterval x) [x] := GList.one _ x ((giv_iff _ x).mpr ⟨rfl, hall x (by simp)⟩)
      have := glist_bwd_aux ys _ _ h1 (fun z hz => hall z (by simp [hz]))
      simpa using this

/-- the parser-side well-formedness = BNF side conditions + the parser's limits -/
theorem ivWf_iff (x : Interval) : ivWf x ↔ ivPos x ∧ x.ok := by
  obtain ⟨es, ns⟩ := x
  unfold ivWf ivPos Interval.ok
  cases es with
  | id v =>
    simp only [esWf, esPos, EsIdList.ok, true_and]
    constructor
    · rintro ⟨a, b, c⟩; exact ⟨b, a, c⟩
    · rintro ⟨b, a, c⟩; exact ⟨a, b, c⟩
  | braces l =>
    simp only [esWf, esPos, EsIdList.ok]
    constructor
    · rintro ⟨⟨hne, hall⟩, hp, hok⟩
      exact ⟨⟨⟨hne, fun z hz => (hall z hz).1⟩, hp⟩, fun z hz => (hall z hz).2, hok⟩
    · rintro ⟨⟨⟨hne, hall⟩, hp⟩, hok1, hok2⟩
      exact ⟨⟨hne, fun z hz => ⟨hall z hz, hok1 z hz⟩⟩, hp, hok2⟩

/-! ### the lists the model builds are the documented ones, converted to `int` -/

theorem strideAdd_eq (id stride : Int) (i : Nat) : strideAdd id stride i = wrapInt32 (id + stride * (i : Int)) := by
  unfold strideAdd toU32 ofU32 wrapInt32
  have h1 : (stride % 4294967296 * (i : Int)) % 4294967296 = (stride * (i : Int)) % 4294967296 := by
    rw [Int.mul_emod, Int.emod_emod, ← Int.mul_emod]
  rw [h1, ← Int.add_emod]
  generalize id + stride * (i : Int) = y
  split <;> omega

theorem wrap_wrap_add (a b : Int) : wrapInt32 (wrapInt32 a + b) = wrapInt32 (a + b) := by
  unfold wrapInt32; omega

theorem wrap_id (v : Int) (h1 : -2147483648 ≤ v) (h2 : v ≤ 2147483647) : wrapInt32 v = v := by
  unfold wrapInt32; omega

theorem idListAdd_eq (ids : List Int) (x : IdInterval) :
    idListAdd ids x.id x.ns.num x.ns.stride = ids ++ x.expand.map wrapInt32 := by
  unfold idListAdd IdInterval.expand
  simp only [List.map_map]
  congr 1
  apply List.map_congr_left
  intro i _
  simp [strideAdd_eq]

theorem mIdList_eq (xs : List IdInterval) : ∀ ids : List Int,
    mIdList ids xs = ids ++ (xs.flatMap IdInterval.expand).map wrapInt32 := by
  induction xs with
  | nil => intro ids; simp [mIdList]
  | cons x xs ih =>
    intro ids
    have := ih (idListAdd ids x.id x.ns.num x.ns.stride)
    simp only [mIdList, List.foldl_cons] at this ⊢
    rw [this, idListAdd_eq]
    simp [List.flatMap_cons, List.map_append, List.append_assoc]

theorem mEs_eq (es : EsIdList) : mEs es = es.expand.map wrapInt32 := by
  cases es with
  | id v => simp [mEs, idListAdd, EsIdList.expand, strideAdd_eq]
  | braces l => simp [mEs, mIdList_eq, EsIdList.expand]

theorem listAdd_eq (l : List (List Int)) (x : Interval) (hpos : 0 < x.ns.num) :
    listAdd l (mEs x.es) x.ns.num x.ns.stride = l ++ x.expand.map (List.map wrapInt32) := by
  unfold listAdd Interval.expand
  rw [mEs_eq]
  obtain ⟨n, hn⟩ : ∃ n, x.ns.num.toNat = n + 1 := ⟨x.ns.num.toNat - 1, by omega⟩
  rw [hn, List.range_succ_eq_map]
  simp only [Nat.add_sub_cancel, List.map_cons, List.map_map, List.append_assoc, List.cons_append, List.nil_append]
  congr 2
  · apply List.map_congr_left
    intro v _
    simp
  · apply List.map_congr_left
    intro k _
    simp only [Function.comp, List.map_map]
    apply List.map_congr_left
    intro v _
    simp only [Function.comp, strideAdd_eq, wrap_wrap_add]

theorem mList_eq (xs : List Interval) (hpos : ∀ x ∈ xs, 0 < x.ns.num) : ∀ l : List (List Int),
    mList l xs = l ++ (expandList xs).map (List.map wrapInt32) := by
  induction xs with
  | nil => intro l; simp [mList, expandList]
  | cons x xs ih =>
    intro l
    have := ih (fun z hz => hpos z (by simp [hz])) (listAdd l (mEs x.es) x.ns.num x.ns.stride)
    simp only [mList, List.foldl_cons] at this ⊢
    rw [this, listAdd_eq l x (hpos x (by simp))]
    simp [expandList, List.flatMap_cons, List.map_append, List.append_assoc]

/-- when every documented CPU id fits in `int` the conversion is the identity -/
theorem map_wrap_id (ls : List (List Int)) (h : ∀ l ∈ ls, ∀ v ∈ l, -2147483648 ≤ v ∧ v ≤ 2147483647) :
    ls.map (List.map wrapInt32) = ls := by
  conv => rhs; rw [← List.map_id ls]
  apply List.map_congr_left
  intro l hl
  conv => rhs; rw [id, ← List.map_id l]
  apply List.map_congr_left
  intro v hv
  exact wrap_id v (h l hl v hv).1 (h l hl v hv).2

/-! ### assembly -/

theorem parse_complete (b : List Byte) (ts : List Tok) (ast : List Interval) (hlex : Lex b ts)
    (hg : GList ts ast) (hok : ∀ x ∈ ast, x.ok) :
    ∃ rest, parseList b = .ok ((expandList ast).map (List.map wrapInt32)) rest := by
  obtain ⟨hne, rfl, hpos⟩ := (glist_iff ts ast).mp hg
  have hwf : ∀ x ∈ ast, ivWf x := fun x hx => (ivWf_iff x).mpr ⟨hpos x hx, hok x hx⟩
  obtain ⟨rest, e⟩ := list_complete ast hne (b.length + 1) b [] hlex hwf (by omega)
  refine ⟨rest, ?_⟩
  unfold parseList
  rw [e, mList_eq ast (fun x hx => (hpos x hx).2)]
  simp

theorem parse_sound (b : List Byte) (h0 : (0 : Byte) ∈ b) :
    (parseList b = .fail ∨ ∃ L rest, parseList b = .ok L rest) ∧
    ∀ L rest, parseList b = .ok L rest →
      ∃ ts ast, Lex b ts ∧ GList ts ast ∧ (∀ x ∈ ast, x.ok) ∧ L = (expandList ast).map (List.map wrapInt32) := by
  obtain ⟨g, hs⟩ := list_sound (b.length + 1) b [] h0 (by omega)
  unfold parseList
  constructor
  · cases h : parseIntervals (b.length + 1) b [] with
    | oob => exact absurd h g.1
    | ub => exact absurd h g.2.1
    | fuel => exact absurd h g.2.2
    | fail => exact Or.inl rfl
    | ok L rest => exact Or.inr ⟨L, rest, rfl⟩
  · intro L rest h
    obtain ⟨xs, hne, hL, hall, hlex⟩ := hs L rest h
    have hp : ∀ x ∈ xs, ivPos x := fun x hx => ((ivWf_iff x).mp (hall x hx)).1
    refine ⟨rList xs, xs, hlex, (glist_iff _ xs).mpr ⟨hne, rfl, hp⟩, fun x hx => ((ivWf_iff x).mp (hall x hx)).2, ?_⟩
    rw [hL, mList_eq xs (fun x hx => (hp x hx).2)]
    simp

end ArgoVerif.Proofs.AffinitySpec
