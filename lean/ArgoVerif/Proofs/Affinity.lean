import ArgoVerif.Proofs.AffinityLex
/-
Proofs.Affinity — the recursive-descent functions of the affinity parser against
the documented grammar: completeness (every string of the grammar within the
limits is accepted with the documented lists) and soundness (whatever is accepted
is a string of the grammar), plus outcome classification.
-/
namespace ArgoVerif.Proofs.Affinity
open ArgoVerif.Model.Affinity
open ArgoVerif.Gen.EnvTable
open ArgoVerif.Props.C20Spec (Tok Lex symTok NumStride IdInterval EsIdList Interval GNumStride GIdInterval GIdList
  GEsIdList GInterval GList intOk nsOk wrapInt32 expandList)
open ArgoVerif.Proofs.AffinityLex

/-! ### right-recursive rendering of the abstract syntax -/

def rNS : NumStride → List Tok
  | none => []
  | some (n, none) => [.colon, .int n]
  | some (n, some s) => [.colon, .int n, .colon, .int s]

def rIdInterval (x : IdInterval) : List Tok := .int x.id :: rNS x.ns

def rIdList : List IdInterval → List Tok
  | [] => []
  | [x] => rIdInterval x
  | x :: y :: l => rIdInterval x ++ .comma :: rIdList (y :: l)

def rEs : EsIdList → List Tok
  | .id v => [.int v]
  | .braces l => .lbrace :: rIdList l ++ [.rbrace]

def rInterval (x : Interval) : List Tok := rEs x.es ++ rNS x.ns

def rList : List Interval → List Tok
  | [] => []
  | [x] => rInterval x
  | x :: y :: l => rInterval x ++ .comma :: rList (y :: l)

/-- `<num>` is a positive integer -/
def nsPos (ns : NumStride) : Prop := 0 < ns.num

theorem colon_tok : symTok 58 = some .colon := by decide
theorem comma_tok : symTok 44 = some .comma := by decide
theorem lbrace_tok : symTok 123 = some .lbrace := by decide
theorem rbrace_tok : symTok 125 = some .rbrace := by decide

theorem intOk_unfold (v : Int) : intOk v ↔ (-2147483647 ≤ v ∧ v ≤ 2147483647) := by
  unfold intOk cIntMax; rfl

/-! ### the optional `":" <num> [":" <stride>]` -/

@[simp] theorem num_none : NumStride.num none = 1 := rfl
@[simp] theorem num_some (n : Int) (s : Option Int) : NumStride.num (some (n, s)) = n := rfl
@[simp] theorem stride_none : NumStride.stride none = 1 := rfl
@[simp] theorem stride_some_none (n : Int) : NumStride.stride (some (n, none)) = 1 := rfl
@[simp] theorem stride_some_some (n s : Int) : NumStride.stride (some (n, some s)) = s := rfl

theorem ns_complete (b : List Byte) (ns : NumStride) (ts : List Tok) (h : Lex b (rNS ns ++ ts))
    (hpos : nsPos ns) (hok : nsOk ns) (hfollow : ∀ ts', ts ≠ .colon :: ts') :
    ∃ b', parseNumStride b = .ok (ns.num, ns.stride) b' ∧ Lex b' ts ∧ b'.length ≤ b.length := by
  obtain ⟨hn, hs, hmax⟩ := hok
  rw [intOk_unfold] at hn hs
  have hmax' : ¬ (ns.num ≥ (maxNumElems : Int)) := by omega
  unfold nsPos at hpos
  cases ns with
  | none =>
    have hm := sym_miss b ts 58 .colon colon_tok h hfollow
    refine ⟨b, ?_, h, Nat.le_refl _⟩
    simp only [parseNumStride, hm, R.bind, num_none, stride_none]
    rw [if_neg (by decide)]
  | some p =>
    obtain ⟨n, so⟩ := p
    cases so with
    | none =>
      simp only [num_some, stride_some_none] at hn hs hmax' hpos ⊢
      obtain ⟨b1, e1, l1, len1⟩ := sym_hit b _ 58 .colon colon_tok h
      obtain ⟨b2, e2, l2, len2⟩ := int_hit b1 _ n l1
      rw [if_pos hn] at e2
      have hm := sym_miss b2 ts 58 .colon colon_tok l2 hfollow
      refine ⟨b2, ?_, l2, by omega⟩
      have hp : n > 0 := hpos
      simp only [parseNumStride, e1, consumePint, e2, R.bind, hp, if_true, hm]
      rw [if_neg hmax']
    | some s =>
      simp only [num_some, stride_some_some] at hn hs hmax' hpos ⊢
      obtain ⟨b1, e1, l1, len1⟩ := sym_hit b _ 58 .colon colon_tok h
      obtain ⟨b2, e2, l2, len2⟩ := int_hit b1 _ n l1
      rw [if_pos hn] at e2
      obtain ⟨b3, e3, l3, len3⟩ := sym_hit b2 _ 58 .colon colon_tok l2
      obtain ⟨b4, e4, l4, len4⟩ := int_hit b3 _ s l3
      rw [if_pos hs] at e4
      refine ⟨b4, ?_, l4, by omega⟩
      have hp : n > 0 := hpos
      simp only [parseNumStride, e1, consumePint, e2, R.bind, hp, if_true, e3, e4]
      rw [if_neg hmax']

/-- outcomes that a NUL-terminated string can produce: success or plain failure -/
def Good {α : Type} (r : R α) : Prop := r ≠ .oob ∧ r ≠ .ub ∧ r ≠ .fuel

theorem sym_total (c : Byte) (b : List Byte) (h0 : (0 : Byte) ∈ b) :
    consumeSymbol c b = .fail ∨ ∃ b', consumeSymbol c b = .ok () b' := by
  have ho := consumeSymbol_outcomes c b
  have hoob := consumeSymbol_no_oob c b h0
  cases hc : consumeSymbol c b with
  | oob => exact absurd hc hoob
  | ub => exact absurd hc ho.1
  | fuel => exact absurd hc ho.2
  | fail => exact Or.inl rfl
  | ok u b' => exact Or.inr ⟨b', rfl⟩

theorem int_total (b : List Byte) (h0 : (0 : Byte) ∈ b) :
    consumeInt b = .fail ∨ ∃ v b', consumeInt b = .ok v b' := by
  obtain ⟨g1, g2, g3⟩ := consumeInt_outcomes b h0
  cases hc : consumeInt b with
  | oob => exact absurd hc g2
  | ub => exact absurd hc g1
  | fuel => exact absurd hc g3
  | fail => exact Or.inl rfl
  | ok v b' => exact Or.inr ⟨v, b', rfl⟩

theorem good_fail {α : Type} : Good (R.fail : R α) := ⟨by simp, by simp, by simp⟩
theorem good_ok {α : Type} (v : α) (b : List Byte) : Good (R.ok v b) := ⟨by simp, by simp, by simp⟩

theorem ns_sound (b : List Byte) (h0 : (0 : Byte) ∈ b) :
    Good (parseNumStride b) ∧
    ∀ p b', parseNumStride b = .ok p b' →
      ∃ ns : NumStride, p = (ns.num, ns.stride) ∧ nsPos ns ∧ nsOk ns ∧
        (∀ ts, Lex b' ts → Lex b (rNS ns ++ ts)) ∧ b'.length ≤ b.length ∧ (0 : Byte) ∈ b' := by
  have hmax1 : ¬ ((1 : Int) ≥ (maxNumElems : Int)) := by decide
  rcases sym_total 58 b h0 with hc | ⟨s1, hc⟩
  · have e : parseNumStride b = .ok (1, 1) b := by
      simp only [parseNumStride, hc, R.bind]; rw [if_neg hmax1]
    rw [e]
    refine ⟨good_ok _ _, ?_⟩
    intro p b' h
    injection h with hp hb
    subst hp hb
    refine ⟨none, rfl, by simp [nsPos], ⟨by rw [intOk_unfold]; simp, by rw [intOk_unfold]; simp, by simp; decide⟩,
      fun ts h => h, Nat.le_refl _, h0⟩
  · obtain ⟨pl1, len1, n1⟩ := sym_sound b s1 58 .colon colon_tok hc
    have h01 := n1 h0
    rcases int_total s1 h01 with hi | ⟨n, s2, hi⟩
    · have e : parseNumStride b = .fail := by simp only [parseNumStride, hc, consumePint, hi, R.bind]
      rw [e]; exact ⟨good_fail, fun p b' h => by cases h⟩
    · obtain ⟨pl2, okn, len2, h02⟩ := int_sound s1 s2 n h01 hi
      by_cases hp : n > 0
      · rcases sym_total 58 s2 h02 with hc2 | ⟨s3, hc2⟩
        · by_cases hm : n ≥ (maxNumElems : Int)
          · have e : parseNumStride b = .fail := by
              simp only [parseNumStride, hc, consumePint, hi, R.bind, hp, if_true, hc2]; rw [if_pos hm]
            rw [e]; exact ⟨good_fail, fun p b' h => by cases h⟩
          · have e : parseNumStride b = .ok (n, 1) s2 := by
              simp only [parseNumStride, hc, consumePint, hi, R.bind, hp, if_true, hc2]; rw [if_neg hm]
            rw [e]
            refine ⟨good_ok _ _, ?_⟩
            intro p b' h
            injection h with hp' hb
            subst hp' hb
            refine ⟨some (n, none), rfl, hp, ⟨by rw [intOk_unfold]; exact okn, by rw [intOk_unfold]; simp, by simp; omega⟩,
              ?_, by omega, h02⟩
            intro ts hts
            exact pl1 _ (pl2 _ hts)
        · obtain ⟨pl3, len3, n3⟩ := sym_sound s2 s3 58 .colon colon_tok hc2
          have h03 := n3 h02
          rcases int_total s3 h03 with hi2 | ⟨st, s4, hi2⟩
          · have e : parseNumStride b = .fail := by
              simp only [parseNumStride, hc, consumePint, hi, R.bind, hp, if_true, hc2, hi2]
            rw [e]; exact ⟨good_fail, fun p b' h => by cases h⟩
          · obtain ⟨pl4, oks, len4, h04⟩ := int_sound s3 s4 st h03 hi2
            by_cases hm : n ≥ (maxNumElems : Int)
            · have e : parseNumStride b = .fail := by
                simp only [parseNumStride, hc, consumePint, hi, R.bind, hp, if_true, hc2, hi2]; rw [if_pos hm]
              rw [e]; exact ⟨good_fail, fun p b' h => by cases h⟩
            · have e : parseNumStride b = .ok (n, st) s4 := by
                simp only [parseNumStride, hc, consumePint, hi, R.bind, hp, if_true, hc2, hi2]; rw [if_neg hm]
              rw [e]
              refine ⟨good_ok _ _, ?_⟩
              intro p b' h
              injection h with hp' hb
              subst hp' hb
              refine ⟨some (n, some st), rfl, hp,
                ⟨by rw [intOk_unfold]; exact okn, by rw [intOk_unfold]; exact oks, by simp; omega⟩, ?_, by omega, h04⟩
              intro ts hts
              exact pl1 _ (pl2 _ (pl3 _ (pl4 _ hts)))
      · have e : parseNumStride b = .fail := by
          simp only [parseNumStride, hc, consumePint, hi, R.bind, hp, if_false]
        rw [e]; exact ⟨good_fail, fun p b' h => by cases h⟩

/-! ### `{ <id-list> }` -/

/-- what the model accumulates for a sequence of id-intervals -/
def mIdList (ids : List Int) (xs : List IdInterval) : List Int :=
  xs.foldl (fun acc x => idListAdd acc x.id x.ns.num x.ns.stride) ids

theorem rIdList_cons (x : IdInterval) (rest : List IdInterval) (t : List Tok) :
    rIdList (x :: rest) ++ t =
      .int x.id :: (rNS x.ns ++ (match rest with | [] => t | y :: l => .comma :: (rIdList (y :: l) ++ t))) := by
  cases rest with
  | nil => simp [rIdList, rIdInterval]
  | cons y l => simp [rIdList, rIdInterval]

theorem idl_complete (xs : List IdInterval) (hne : xs ≠ []) :
    ∀ (f : Nat) (b : List Byte) (ids : List Int) (ts : List Tok),
      Lex b (rIdList xs ++ .rbrace :: ts) → (∀ x ∈ xs, nsPos x.ns ∧ x.ok) → b.length < f →
      ∃ b', parseIdIntervals f b ids = .ok (mIdList ids xs) b' ∧ Lex b' ts ∧ b'.length < b.length := by
  induction xs with
  | nil => exact absurd rfl hne
  | cons x rest ih =>
    intro f b ids ts hlex hall hf
    cases f with
    | zero => omega
    | succ f =>
      obtain ⟨hpos, hidok, hnsok⟩ := hall x (by simp)
      rw [rIdList_cons] at hlex
      obtain ⟨b1, e1, l1, len1⟩ := int_hit b _ x.id hlex
      rw [if_pos ((intOk_unfold _).mp hidok)] at e1
      cases rest with
      | nil =>
        obtain ⟨b2, e2, l2, len2⟩ := ns_complete b1 x.ns _ l1 hpos hnsok (by intro ts' h; cases h)
        have hm := sym_miss b2 _ 44 .comma comma_tok l2 (by intro ts' h; cases h)
        obtain ⟨b3, e3, l3, len3⟩ := sym_hit b2 ts 125 .rbrace rbrace_tok l2
        refine ⟨b3, ?_, l3, by omega⟩
        simp only [parseIdIntervals, e1, R.bind, e2, hm, e3, mIdList, List.foldl_cons, List.foldl_nil]
      | cons y l =>
        obtain ⟨b2, e2, l2, len2⟩ := ns_complete b1 x.ns _ l1 hpos hnsok (by intro ts' h; cases h)
        obtain ⟨b3, e3, l3, len3⟩ := sym_hit b2 _ 44 .comma comma_tok l2
        obtain ⟨b4, e4, l4, len4⟩ := ih (by simp) f b3 (idListAdd ids x.id x.ns.num x.ns.stride) ts l3
          (fun z hz => hall z (by simp [hz])) (by omega)
        refine ⟨b4, ?_, l4, by omega⟩
        simp only [parseIdIntervals, e1, R.bind, e2, e3, e4, mIdList, List.foldl_cons]

theorem idl_sound (f : Nat) : ∀ (b : List Byte) (ids : List Int), (0 : Byte) ∈ b → b.length < f →
    Good (parseIdIntervals f b ids) ∧
    ∀ L b', parseIdIntervals f b ids = .ok L b' →
      ∃ xs : List IdInterval, xs ≠ [] ∧ L = mIdList ids xs ∧ (∀ x ∈ xs, nsPos x.ns ∧ x.ok) ∧
        (∀ ts, Lex b' ts → Lex b (rIdList xs ++ .rbrace :: ts)) ∧ b'.length < b.length ∧ (0 : Byte) ∈ b' := by
  induction f with
  | zero => intro b ids _ h; omega
  | succ f ih =>
    intro b ids h0 hf
    rcases int_total b h0 with hi | ⟨id, s1, hi⟩
    · have e : parseIdIntervals (f + 1) b ids = .fail := by simp only [parseIdIntervals, hi, R.bind]
      rw [e]; exact ⟨good_fail, fun L b' h => by cases h⟩
    · obtain ⟨pl1, okid, len1, h01⟩ := int_sound b s1 id h0 hi
      obtain ⟨g, hns⟩ := ns_sound s1 h01
      cases hr : parseNumStride s1 with
      | oob => exact absurd hr g.1
      | ub => exact absurd hr g.2.1
      | fuel => exact absurd hr g.2.2
      | fail =>
        have e : parseIdIntervals (f + 1) b ids = .fail := by simp only [parseIdIntervals, hi, R.bind, hr]
        rw [e]; exact ⟨good_fail, fun L b' h => by cases h⟩
      | ok p s2 =>
        obtain ⟨ns, hp, hpos, hnsok, pl2, len2, h02⟩ := hns p s2 hr
        subst hp
        let x : IdInterval := ⟨id, ns⟩
        have hx : nsPos x.ns ∧ x.ok := ⟨hpos, (intOk_unfold _).mpr okid, hnsok⟩
        rcases sym_total 44 s2 h02 with hc | ⟨s3, hc⟩
        · rcases sym_total 125 s2 h02 with hc2 | ⟨s4, hc2⟩
          · have e : parseIdIntervals (f + 1) b ids = .fail := by
              simp only [parseIdIntervals, hi, R.bind, hr, hc, hc2]
            rw [e]; exact ⟨good_fail, fun L b' h => by cases h⟩
          · obtain ⟨pl3, len3, n3⟩ := sym_sound s2 s4 125 .rbrace rbrace_tok hc2
            have e : parseIdIntervals (f + 1) b ids = .ok (idListAdd ids id ns.num ns.stride) s4 := by
              simp only [parseIdIntervals, hi, R.bind, hr, hc, hc2]
            rw [e]
            refine ⟨good_ok _ _, ?_⟩
            intro L b' h
            injection h with hL hb
            subst hL hb
            refine ⟨[x], by simp, rfl, by intro z hz; rw [List.mem_singleton.mp hz]; exact hx, ?_, by omega, n3 h02⟩
            intro ts hts
            have := pl1 _ (pl2 _ (pl3 _ hts))
            simpa [rIdList, rIdInterval, x] using this
        · obtain ⟨pl3, len3, n3⟩ := sym_sound s2 s3 44 .comma comma_tok hc
          obtain ⟨g', hrec⟩ := ih s3 (idListAdd ids id ns.num ns.stride) (n3 h02) (by omega)
          have e : parseIdIntervals (f + 1) b ids = parseIdIntervals f s3 (idListAdd ids id ns.num ns.stride) := by
            simp only [parseIdIntervals, hi, R.bind, hr, hc]
          rw [e]
          refine ⟨g', ?_⟩
          intro L b' h
          obtain ⟨xs, hne, hL, hall, pl4, len4, h04⟩ := hrec L b' h
          refine ⟨x :: xs, by simp, by rw [hL]; rfl, ?_, ?_, by omega, h04⟩
          · intro z hz
            rcases List.mem_cons.mp hz with rfl | hz
            · exact hx
            · exact hall z hz
          · intro ts hts
            have := pl1 _ (pl2 _ (pl3 _ (pl4 _ hts)))
            cases xs with
            | nil => exact absurd rfl hne
            | cons y l => rw [rIdList_cons]; simpa [x] using this

/-! ### `<es-id-list>` -/

def mEs : EsIdList → List Int
  | .id v => idListAdd [] v 1 1
  | .braces l => mIdList [] l

/-- well-formedness of an `<es-id-list>` value: non-empty braces, positive `<num>`s,
and the parser's numeric limits -/
def esWf : EsIdList → Prop
  | .id v => intOk v
  | .braces l => l ≠ [] ∧ ∀ x ∈ l, nsPos x.ns ∧ x.ok

theorem es_complete (es : EsIdList) (hwf : esWf es) (f : Nat) (b : List Byte) (ts : List Tok)
    (hlex : Lex b (rEs es ++ ts)) (hf : b.length < f) :
    ∃ b', parseEsIdList f b = .ok (mEs es) b' ∧ Lex b' ts ∧ b'.length < b.length := by
  cases es with
  | id v =>
    obtain ⟨b1, e1, l1, len1⟩ := int_hit b ts v hlex
    rw [if_pos ((intOk_unfold _).mp hwf)] at e1
    exact ⟨b1, by simp only [parseEsIdList, e1, mEs], l1, len1⟩
  | braces l =>
    obtain ⟨hne, hall⟩ := hwf
    have hlex' : Lex b (.lbrace :: (rIdList l ++ .rbrace :: ts)) := by simpa [rEs] using hlex
    have hm := int_miss b _ hlex' (by intro v ts' h; cases h)
    obtain ⟨b1, e1, l1, len1⟩ := sym_hit b _ 123 .lbrace lbrace_tok hlex'
    obtain ⟨b2, e2, l2, len2⟩ := idl_complete l hne f b1 [] ts l1 hall (by omega)
    exact ⟨b2, by simp only [parseEsIdList, hm, e1, R.bind, e2, mEs], l2, by omega⟩

theorem es_sound (f : Nat) (b : List Byte) (h0 : (0 : Byte) ∈ b) (hf : b.length < f) :
    Good (parseEsIdList f b) ∧
    ∀ L b', parseEsIdList f b = .ok L b' →
      ∃ es : EsIdList, esWf es ∧ L = mEs es ∧ (∀ ts, Lex b' ts → Lex b (rEs es ++ ts)) ∧
        b'.length < b.length ∧ (0 : Byte) ∈ b' := by
  rcases int_total b h0 with hi | ⟨v, s1, hi⟩
  · rcases sym_total 123 b h0 with hc | ⟨s1, hc⟩
    · have e : parseEsIdList f b = .fail := by simp only [parseEsIdList, hi, hc, R.bind]
      rw [e]; exact ⟨good_fail, fun L b' h => by cases h⟩
    · obtain ⟨pl1, len1, n1⟩ := sym_sound b s1 123 .lbrace lbrace_tok hc
      obtain ⟨g, hrec⟩ := idl_sound f s1 [] (n1 h0) (by omega)
      have e : parseEsIdList f b = parseIdIntervals f s1 [] := by simp only [parseEsIdList, hi, hc, R.bind]
      rw [e]
      refine ⟨g, ?_⟩
      intro L b' h
      obtain ⟨xs, hne, hL, hall, pl2, len2, h02⟩ := hrec L b' h
      refine ⟨.braces xs, ⟨hne, hall⟩, hL, ?_, by omega, h02⟩
      intro ts hts
      have := pl1 _ (pl2 _ hts)
      simpa [rEs] using this
  · obtain ⟨pl1, okv, len1, h01⟩ := int_sound b s1 v h0 hi
    have e : parseEsIdList f b = .ok (idListAdd [] v 1 1) s1 := by simp only [parseEsIdList, hi]
    rw [e]
    refine ⟨good_ok _ _, ?_⟩
    intro L b' h
    injection h with hL hb
    subst hL hb
    exact ⟨.id v, (intOk_unfold _).mpr okv, rfl, fun ts hts => by simpa [rEs] using pl1 _ hts, len1, h01⟩

/-! ### `<list>` -/

def mList (l : List (List Int)) (xs : List Interval) : List (List Int) :=
  xs.foldl (fun acc x => listAdd acc (mEs x.es) x.ns.num x.ns.stride) l

def ivWf (x : Interval) : Prop := esWf x.es ∧ nsPos x.ns ∧ nsOk x.ns

theorem rList_cons (x : Interval) (rest : List Interval) :
    rList (x :: rest) =
      rEs x.es ++ (rNS x.ns ++ (match rest with | [] => [] | y :: l => .comma :: rList (y :: l))) := by
  cases rest with
  | nil => simp [rList, rInterval]
  | cons y l => simp [rList, rInterval]

theorem list_complete (xs : List Interval) (hne : xs ≠ []) :
    ∀ (f : Nat) (b : List Byte) (l : List (List Int)),
      Lex b (rList xs) → (∀ x ∈ xs, ivWf x) → b.length < f →
      ∃ b', parseIntervals f b l = .ok (mList l xs) b' := by
  induction xs with
  | nil => exact absurd rfl hne
  | cons x rest ih =>
    intro f b l hlex hall hf
    cases f with
    | zero => omega
    | succ f =>
      obtain ⟨heswf, hpos, hnsok⟩ := hall x (by simp)
      rw [rList_cons] at hlex
      obtain ⟨b1, e1, l1, len1⟩ := es_complete x.es heswf (f + 1) b _ hlex hf
      cases rest with
      | nil =>
        obtain ⟨b2, e2, l2, len2⟩ := ns_complete b1 x.ns [] l1 hpos hnsok (by intro ts' h; cases h)
        have hm := sym_miss b2 [] 44 .comma comma_tok l2 (by intro ts' h; cases h)
        obtain ⟨b3, e3⟩ := eos_hit b2 l2
        refine ⟨b3, ?_⟩
        simp only [parseIntervals, e1, R.bind, e2, hm, e3, mList, List.foldl_cons, List.foldl_nil]
      | cons y r =>
        obtain ⟨b2, e2, l2, len2⟩ := ns_complete b1 x.ns _ l1 hpos hnsok (by intro ts' h; cases h)
        obtain ⟨b3, e3, l3, len3⟩ := sym_hit b2 _ 44 .comma comma_tok l2
        obtain ⟨b4, e4⟩ := ih (by simp) f b3 (listAdd l (mEs x.es) x.ns.num x.ns.stride) l3
          (fun z hz => hall z (by simp [hz])) (by omega)
        refine ⟨b4, ?_⟩
        simp only [parseIntervals, e1, R.bind, e2, e3, e4, mList, List.foldl_cons]

theorem list_sound (f : Nat) : ∀ (b : List Byte) (l : List (List Int)), (0 : Byte) ∈ b → b.length < f →
    Good (parseIntervals f b l) ∧
    ∀ L b', parseIntervals f b l = .ok L b' →
      ∃ xs : List Interval, xs ≠ [] ∧ L = mList l xs ∧ (∀ x ∈ xs, ivWf x) ∧ Lex b (rList xs) := by
  induction f with
  | zero => intro b l _ h; omega
  | succ f ih =>
    intro b l h0 hf
    obtain ⟨g1, hes⟩ := es_sound (f + 1) b h0 hf
    cases he : parseEsIdList (f + 1) b with
    | oob => exact absurd he g1.1
    | ub => exact absurd he g1.2.1
    | fuel => exact absurd he g1.2.2
    | fail =>
      have e : parseIntervals (f + 1) b l = .fail := by simp only [parseIntervals, he, R.bind]
      rw [e]; exact ⟨good_fail, fun L b' h => by cases h⟩
    | ok idl s1 =>
      obtain ⟨es, heswf, hidl, pl1, len1, h01⟩ := hes idl s1 he
      obtain ⟨g2, hns⟩ := ns_sound s1 h01
      cases hr : parseNumStride s1 with
      | oob => exact absurd hr g2.1
      | ub => exact absurd hr g2.2.1
      | fuel => exact absurd hr g2.2.2
      | fail =>
        have e : parseIntervals (f + 1) b l = .fail := by simp only [parseIntervals, he, R.bind, hr]
        rw [e]; exact ⟨good_fail, fun L b' h => by cases h⟩
      | ok p s2 =>
        obtain ⟨ns, hp, hpos, hnsok, pl2, len2, h02⟩ := hns p s2 hr
        subst hp hidl
        let x : Interval := ⟨es, ns⟩
        have hx : ivWf x := ⟨heswf, hpos, hnsok⟩
        rcases sym_total 44 s2 h02 with hc | ⟨s3, hc⟩
        · rcases sym_total 0 s2 h02 with hc2 | ⟨s4, hc2⟩
          · have e : parseIntervals (f + 1) b l = .fail := by
              simp only [parseIntervals, he, R.bind, hr, hc, hc2]
            rw [e]; exact ⟨good_fail, fun L b' h => by cases h⟩
          · have hl := eos_sound s2 s4 hc2
            have e : parseIntervals (f + 1) b l = .ok (listAdd l (mEs es) ns.num ns.stride) s4 := by
              simp only [parseIntervals, he, R.bind, hr, hc, hc2]
            rw [e]
            refine ⟨good_ok _ _, ?_⟩
            intro L b' h
            injection h with hL hb
            subst hL hb
            refine ⟨[x], by simp, rfl, by intro z hz; rw [List.mem_singleton.mp hz]; exact hx, ?_⟩
            have := pl1 _ (pl2 _ hl)
            simpa [rList, rInterval, x] using this
        · obtain ⟨pl3, len3, n3⟩ := sym_sound s2 s3 44 .comma comma_tok hc
          obtain ⟨g', hrec⟩ := ih s3 (listAdd l (mEs es) ns.num ns.stride) (n3 h02) (by omega)
          have e : parseIntervals (f + 1) b l = parseIntervals f s3 (listAdd l (mEs es) ns.num ns.stride) := by
            simp only [parseIntervals, he, R.bind, hr, hc]
          rw [e]
          refine ⟨g', ?_⟩
          intro L b' h
          obtain ⟨xs, hne, hL, hall, hlex⟩ := hrec L b' h
          refine ⟨x :: xs, by simp, by rw [hL]; rfl, ?_, ?_⟩
          · intro z hz
            rcases List.mem_cons.mp hz with rfl | hz
            · exact hx
            · exact hall z hz
          · have := pl1 _ (pl2 _ (pl3 _ hlex))
            cases xs with
            | nil => exact absurd rfl hne
            | cons y r => rw [rList_cons]; simpa [x] using this

end ArgoVerif.Proofs.Affinity
