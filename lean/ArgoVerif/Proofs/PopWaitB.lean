import ArgoVerif.Proofs.PopWaitA2
/- Proofs.PopWaitB — conservation of units, and "no lost wake-up" for the FIFO_WAIT condition variable. -/
namespace ArgoVerif.Model.PopWait
open ArgoVerif
set_option maxHeartbeats 1000000

/-- every unit ever linked is still queued or was unlinked by a pop, with multiplicity -/
def InvB (s : St) : Prop := ∀ u, s.pushed.count u = s.q.count u + s.taken.count u

/-- only `link` and `take` touch the queue contents and the push/pop ledgers -/
theorem step0_frameQ (k : Kind) (s s' : St) (e : Ev) (hs : step0 k s e = some s')
    (h1 : ∀ a, e ≠ .link a) (h2 : ∀ a r, e ≠ .take a r) :
    s'.q = s.q ∧ s'.pushed = s.pushed ∧ s'.taken = s.taken := by
  cases e <;> simp only [step0, stepCall, stepRet, stepAdvance, stepTas, stepLoadLock, stepLoadEmpty, stepClear, stepClock,
    stepSleepDone, stepMlock, stepMunlock, stepCondWait, stepSignal, stepTimeout, stepSpurious, afterEmpty] at hs <;>
    (try (exact absurd rfl (h1 _))) <;> (try (exact absurd rfl (h2 _ _))) <;>
    (repeat' (split at hs)) <;>
    (first | (cases hs; done) | (cases hs; simp [setPc, takeL, dropL]))

theorem invB_init : InvB init := by intro u; simp [init]

theorem invB_step0 (k : Kind) (s s' : St) (e : Ev) (h : InvB s) (hs : step0 k s e = some s') : InvB s' := by
  by_cases h1 : ∃ a, e = .link a
  · obtain ⟨a, rfl⟩ := h1
    simp only [step0, stepLink] at hs
    split at hs
    · cases hs; intro u; have := h u
      simp only [setPc, linkQ, List.count_append]; omega
    · cases hs; intro u; have := h u
      simp only [setPc, linkQ, List.count_append]; omega
    · cases hs
  · by_cases h2 : ∃ a r, e = .take a r
    · obtain ⟨a, r, rfl⟩ := h2
      simp only [step0, stepTake] at hs
      split at hs
      · cases hs
      · split at hs
        · split at hs
          · cases hs; intro u; simpa [setPc] using h u
          · cases hs
        · rename_i x rest htf
          split at hs
          · cases hs; intro u
            have := h u; have hc := (takeFrom_some htf).2.2 u
            simp only [setPc, List.count_append, List.count_cons, List.count_nil]
            by_cases hu : u = x
            · subst hu; simp at hc ⊢; omega
            · have : ¬ (x == u) = true := by simpa using fun e => hu e.symm
              simp [hu] at hc; simp [this]; omega
          · cases hs
    · have := step0_frameQ k s s' e hs (fun a e' => h1 ⟨a, e'⟩) (fun a r e' => h2 ⟨a, r, e'⟩)
      intro u; rw [this.1, this.2.1, this.2.2]; exact h u

theorem invB_step (k : Kind) (s s' : St) (e : Ev) (h : InvB s) (hs : step k s e = some s') : InvB s' := by
  unfold step at hs
  cases h0 : step0 k s e with
  | none => simp [h0] at hs
  | some s1 =>
    simp only [h0, Option.map_some, Option.some.injEq] at hs
    subst hs
    have := invB_step0 k s s1 e h h0
    cases hao : actorOf e <;> simpa [bump, hao, InvB] using this

theorem invB_reachable (k : Kind) (s : St) (h : (machine k).Reachable s) : InvB s :=
  Machine.invariant_reachable (machine k) InvB invB_init (fun s e s' hi hs => invB_step k s s' e hi hs) s h

end ArgoVerif.Model.PopWait
