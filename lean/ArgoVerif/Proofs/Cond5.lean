import ArgoVerif.Proofs.CondWl
namespace ArgoVerif.Model.Cond
open ArgoVerif
set_option maxHeartbeats 8000000

theorem cinv_wl_deq (s s' : St) (a n : Actor) (h : CInv s) (hs : stepWl s (.deq a n) = some s') : CInv s' := by
  simp only [stepWl, WaitList.step] at hs
  (repeat' (split at hs)) <;>
  (first
   | (cases hs; done)
   | (obtain ⟨w, hw, rfl⟩ := map_some hs
      have hwi := WaitList.inv_stepDeq s.wl w a n h.wlInv hw
      unfold WaitList.stepDeq at hw
      (repeat' (split at hw)) <;>
      (first
       | (cases hw; done)
       | (cases hw; constructor; (first | exact hwi | (simp only [setC, afterAcquire, finishWait]; (repeat' split) <;> exact hwi)); all_goals wl_tac h hwi))))

theorem cinv_wl_storeReady (s s' : St) (a n : Actor) (h : CInv s) (hs : stepWl s (.storeReady a n) = some s') : CInv s' := by
  simp only [stepWl, WaitList.step] at hs
  (repeat' (split at hs)) <;>
  (first
   | (cases hs; done)
   | (obtain ⟨w, hw, rfl⟩ := map_some hs
      have hwi := WaitList.inv_stepStoreReady s.wl w a n h.wlInv hw
      unfold WaitList.stepStoreReady at hw
      (repeat' (split at hw)) <;>
      (first
       | (cases hw; done)
       | (cases hw; constructor; (first | exact hwi | (simp only [setC, afterAcquire, finishWait]; (repeat' split) <;> exact hwi)); all_goals wl_tac h hwi))))

theorem cinv_wl_timeCheck (s s' : St) (a : Actor) (e : Bool) (h : CInv s) (hs : stepWl s (.timeCheck a e) = some s') : CInv s' := by
  simp only [stepWl, WaitList.step] at hs
  (repeat' (split at hs)) <;>
  (first
   | (cases hs; done)
   | (obtain ⟨w, hw, rfl⟩ := map_some hs
      have hwi := WaitList.inv_stepTimeCheck s.wl w a e h.wlInv hw
      unfold WaitList.stepTimeCheck at hw
      cases e <;> (repeat' (split at hw)) <;>
      (first
       | (cases hw; done)
       | (cases hw; constructor; (first | exact hwi | (simp only [setC, afterAcquire, finishWait]; (repeat' split) <;> exact hwi)); all_goals wl_tac h hwi))))

theorem cinv_wl_rm (s s' : St) (a : Actor) (h : CInv s) (hs : stepWl s (.rm a) = some s') : CInv s' := by
  simp only [stepWl, WaitList.step] at hs
  (repeat' (split at hs)) <;>
  (first
   | (cases hs; done)
   | (obtain ⟨w, hw, rfl⟩ := map_some hs
      have hwi := WaitList.inv_stepRm s.wl w a h.wlInv hw
      unfold WaitList.stepRm at hw
      (repeat' (split at hw)) <;>
      (first
       | (cases hw; done)
       | (cases hw; constructor; (first | exact hwi | (simp only [setC, afterAcquire, finishWait]; (repeat' split) <;> exact hwi)); all_goals wl_tac h hwi))))

end ArgoVerif.Model.Cond
