import ArgoVerif.Proofs.Future3
/- Proofs.Future3b — invariant preservation: lock acquisition by free and inside the wait loop; all cases. -/
namespace ArgoVerif.Model.Future
open ArgoVerif
set_option maxHeartbeats 4000000

theorem inv_stepAcq_f_b (s s' : St) (a : Actor) (h : Inv s) (hs : stepAcq s a false = some s')
    (hp : s.pc a = .freeCalled ∨ s.pc a = .waiting ∨ s.pc a = .woken) : Inv s' := by
  have hl := acq_f_free s s' a hs
  unfold stepAcq at hs
  simp only [Bool.false_eq_true, if_false] at hs
  split at hs
  · cases hs
  · rcases hp with hp | hp | hp <;> simp only [hp] at hs <;> (split at hs) <;> close_tac h hs

theorem inv_stepAcq_f (s s' : St) (a : Actor) (h : Inv s) (hs : stepAcq s a false = some s') : Inv s' := by
  cases hp : s.pc a
  case setCalled => exact inv_stepAcq_f_a s s' a h hs (by simp [hp])
  case waitCalled => exact inv_stepAcq_f_a s s' a h hs (by simp [hp])
  case resetCalled => exact inv_stepAcq_f_a s s' a h hs (by simp [hp])
  case freeCalled => exact inv_stepAcq_f_b s s' a h hs (by simp [hp])
  case waiting => exact inv_stepAcq_f_b s s' a h hs (by simp [hp])
  case woken => exact inv_stepAcq_f_b s s' a h hs (by simp [hp])
  all_goals (simp [stepAcq, hp] at hs)

end ArgoVerif.Model.Future
