import ArgoVerif.Model.WaitList
/- Proofs.WaitList — inductive invariant of the wait-list protocol. -/
namespace ArgoVerif.Model.WaitList
open ArgoVerif
set_option maxHeartbeats 4000000

/-- program counters at which the actor holds the spinlock `L` -/
def HasL : Pc → Prop
  | .inCs | .wkStore | .uSusp | .uRelL | .xCheck | .xRelL | .xReadyRel | .tuRel
  | .txTop | .txState | .txRel | .txReadyRel | .tmo | .tmoRm | .tmoRel => True
  | _ => False

/-- program counters of an actor inside a wait (its node may be queued) -/
def Waiting : Pc → Prop
  | .uSusp | .uRelL | .uWait | .xCheck | .xRelL | .xSleep | .xReacq | .xReadyRel
  | .tuRel | .tuPoll | .tuTime | .tuAcq | .txTop | .txState | .txRel | .txSleep | .txReacq | .txReadyRel
  | .tmo | .tmoRm => True
  | _ => False

/-- polling waits (non-ULT waiters and all timed waits): the node stays queued until a waker
dequeues it or the waiter removes it itself -/
def TimedWaiting : Pc → Prop
  | .xCheck | .xRelL | .xSleep | .xReacq
  | .tuRel | .tuPoll | .tuTime | .tuAcq | .txTop | .txState | .txRel | .txSleep | .txReacq | .tmo | .tmoRm => True
  | _ => False

structure Inv (s : St) : Prop where
  lIff : ∀ a, s.lOwner = some a ↔ HasL (s.pc a)
  lBool : s.l = true ↔ s.lOwner ≠ none
  inQ : ∀ a, a ∈ s.q → Waiting (s.pc a) ∧ s.ready a = false
  nodup : s.q.Nodup
  pendIff : ∀ b, s.pc b = .wkStore ↔ (s.lOwner = some b ∧ s.pending ≠ none)
  pendOwner : s.pending ≠ none → s.lOwner ≠ none
  pendWait : ∀ n, s.pending = some n → Waiting (s.pc n) ∧ n ∉ s.q ∧ s.ready n = false
  ultWait : ∀ a, s.pc a = .uWait → a ∈ s.q ∨ s.pending = some a
  suspInQ : ∀ a, (s.pc a = .uSusp ∨ s.pc a = .uRelL) → a ∈ s.q
  timedInQ : ∀ a, TimedWaiting (s.pc a) → s.ready a = false → s.pending ≠ some a → a ∈ s.q
  readyPc : ∀ a, (s.pc a = .xReadyRel ∨ s.pc a = .txReadyRel) → s.ready a = true
  tmoRmInv : ∀ a, s.pc a = .tmoRm → s.ready a = false
  tmoRelInv : ∀ a, s.pc a = .tmoRel → (s.timedOut a = true ∧ s.ready a = false ∧ a ∉ s.q) ∨ (s.timedOut a = false ∧ s.ready a = true)
  ultOnly : ∀ a, (s.pc a = .uSusp ∨ s.pc a = .uRelL ∨ s.pc a = .uWait ∨ s.pc a = .tuRel ∨ s.pc a = .tuPoll
      ∨ s.pc a = .tuTime ∨ s.pc a = .tuAcq) → s.isUlt a = true

theorem inv_init (u : Actor → Bool) : Inv (init u) := by
  constructor <;> simp [init, HasL, Waiting, TimedWaiting]

macro "inv_tac" h:ident : tactic => `(tactic|
  (have := ($h).lIff; have := ($h).lBool; have := ($h).inQ; have := ($h).nodup
   have := ($h).pendIff; have := ($h).pendOwner; have := ($h).pendWait; have := ($h).ultWait
   have := ($h).suspInQ; have := ($h).timedInQ; have := ($h).readyPc; have := ($h).tmoRelInv; have := ($h).tmoRmInv; have := ($h).ultOnly
   try simp only [setPc, takeL, dropL] at *
   grind [upd, HasL, Waiting, TimedWaiting, List.mem_erase_of_ne, List.Nodup.erase, List.Nodup.mem_erase_iff]))

macro "close_tac" h:ident hs:ident : tactic => `(tactic|
  first
  | (cases $hs:ident; done)
  | (cases $hs:ident; constructor <;> inv_tac $h))

theorem inv_stepBegin (s s' : St) (a : Actor) (h : Inv s) (hs : stepBegin s a = some s') : Inv s' := by
  unfold stepBegin at hs
  split at hs <;> close_tac h hs

theorem inv_stepStoreBlocked (s s' : St) (a : Actor) (h : Inv s) (hs : stepStoreBlocked s a = some s') : Inv s' := by
  unfold stepStoreBlocked at hs
  split at hs <;> close_tac h hs

theorem inv_stepEnq (s s' : St) (a : Actor) (t : Bool) (h : Inv s) (hs : stepEnq s a t = some s') : Inv s' := by
  unfold stepEnq at hs
  split at hs
  · cases t <;> cases hu : s.isUlt a <;> simp only [hu] at hs <;> close_tac h hs
  · cases hs

theorem inv_stepRm (s s' : St) (a : Actor) (h : Inv s) (hs : stepRm s a = some s') : Inv s' := by
  unfold stepRm at hs
  split at hs <;> close_tac h hs

theorem inv_stepTimeCheck (s s' : St) (a : Actor) (e : Bool) (h : Inv s) (hs : stepTimeCheck s a e = some s') : Inv s' := by
  unfold stepTimeCheck at hs
  cases e <;> (repeat' (split at hs)) <;> close_tac h hs

end ArgoVerif.Model.WaitList
