import ArgoVerif.Proofs.XsLife3
/-
Proofs.XsLife4 — every step of Model.XsLife preserves `Inv`; `inv_run`.
-/
namespace ArgoVerif.Model.XsLife
open ArgoVerif ArgoVerif.Model.XsCtx

/-- a context step that neither (re)enters nor leaves thread_f and is no call / return of a context function -/
theorem inv_ctx_plain {s : St} {c' : Ctl} {e : XsCtx.Ev} {eff : Eff} (hi : Inv s) (hc : cstep s.x e = some (c', eff))
    (hre : restartEv s.x e = false) (hne : e ≠ .ret) (h1 : ∀ op, e ≠ .call op) (h2 : e ≠ .pjoin) (h3 : e ≠ .unlock .C) :
    Inv { s with x := c' } :=
  inv_plain hi (tab_step hi.reach hc).1 ((ctx_nph hi.reach hc).2.2 hre hne) (ctx_ccl_same hi.reach hc h1 h2 h3)

theorem inv_ctx_restart {s : St} {c' : Ctl} {e : XsCtx.Ev} {eff : Eff} (hi : Inv s) (hc : cstep s.x e = some (c', eff))
    (hre : restartEv s.x e = true) (h1 : ∀ op, e ≠ .call op) (h2 : e ≠ .pjoin) (h3 : e ≠ .unlock .C) :
    Inv { s with x := c', npc := .root } := by
  have hn := (ctx_nph hi.reach hc).1 hre
  refine inv_restart hi (tab_step hi.reach hc).1 hn ?_
  rcases ctx_ccl_same hi.reach hc h1 h2 h3 with h | ⟨_, _, h, _⟩ | h
  · exact Or.inl h
  · rw [hn.1] at h; exact absurd h (by decide)
  · exact Or.inr h

theorem inv_ctx {s s' : St} {e : XsCtx.Ev} (hi : Inv s) (hs : step s (.ctx e) = some s') : Inv s' := by
  simp only [step] at hs
  split at hs
  · rename_i hg
    split at hs
    · rename_i c' eff hc
      simp only [Option.some.injEq] at hs
      subst hs
      have hr := (tab_step hi.reach hc).1
      have hN := ctx_nph hi.reach hc
      have hR := ctx_ccl_ret hi.reach hc
      unfold ctxGlue
      cases e with
      | tau a =>
        cases a with
        | T =>
          by_cases hst : s.x.tpc = .start
          · have hre : restartEv s.x (.tau .T) = true := by simp [restartEv, hst]
            have h1 : gNpc s (.tau .T) = .root := by simp [gNpc, hre]
            have h2 : gLpc s (.tau .T) = s.lpc := by simp [gLpc]
            rw [h1, h2]
            exact inv_ctx_restart hi hc hre (by simp) (by simp) (by simp)
          · have hre : restartEv s.x (.tau .T) = false := by simp [restartEv, hst]
            have h1 : gNpc s (.tau .T) = s.npc := by simp [gNpc, hre]
            have h2 : gLpc s (.tau .T) = s.lpc := by simp [gLpc]
            rw [h1, h2]
            exact inv_ctx_plain hi hc hre (by simp) (by simp) (by simp) (by simp)
        | C =>
          have hre : restartEv s.x (.tau .C) = false := by simp [restartEv]
          have h1 : gNpc s (.tau .C) = s.npc := by simp [gNpc, hre]
          have h2 : gLpc s (.tau .C) = s.lpc := by simp [gLpc]
          rw [h1, h2]
          exact inv_ctx_plain hi hc hre (by simp) (by simp) (by simp) (by simp)
      | store a v =>
        have hre : restartEv s.x (.store a v) = false := by simp [restartEv]
        have h1 : gNpc s (.store a v) = s.npc := by simp [gNpc, hre]
        have h2 : gLpc s (.store a v) = s.lpc := by simp [gLpc]
        rw [h1, h2]
        exact inv_ctx_plain hi hc hre (by simp) (by simp) (by simp) (by simp)
      | ret =>
        have hre : restartEv s.x .ret = false := restart_not_ret
        have h1 : gNpc s .ret = .out := by simp [gNpc, hre]
        have h2 : gLpc s .ret = s.lpc := by simp [gLpc]
        rw [h1, h2]
        have hp : s.npc = .fin := by simpa [ctxGuard] using hg
        have hn := hN.2.1 rfl
        refine inv_leave hi hr hp hn ?_
        rcases ctx_ccl_same hi.reach hc (by simp) (by simp) (by simp) with h | ⟨_, _, h, _⟩ | h
        · exact Or.inl h
        · rw [hn.1] at h; exact absurd h (by decide)
        · exact Or.inr h
      | lock a =>
        have hre : restartEv s.x (.lock a) = false := by simp [restartEv]
        have h1 : gNpc s (.lock a) = s.npc := by simp [gNpc, hre]
        have h2 : gLpc s (.lock a) = s.lpc := by simp [gLpc]
        rw [h1, h2]
        exact inv_ctx_plain hi hc hre (by simp) (by simp) (by simp) (by simp)
      | unlock a =>
        cases a with
        | T =>
          by_cases hst : s.x.tpc = .unlock true
          · have hre : restartEv s.x (.unlock .T) = true := by simp [restartEv, hst]
            have h1 : gNpc s (.unlock .T) = .root := by simp [gNpc, hre]
            have h2 : gLpc s (.unlock .T) = s.lpc := by simp [gLpc]
            rw [h1, h2]
            exact inv_ctx_restart hi hc hre (by simp) (by simp) (by simp)
          · have hre : restartEv s.x (.unlock .T) = false := by simp [restartEv, hst]
            have h1 : gNpc s (.unlock .T) = s.npc := by simp [gNpc, hre]
            have h2 : gLpc s (.unlock .T) = s.lpc := by simp [gLpc]
            rw [h1, h2]
            exact inv_ctx_plain hi hc hre (by simp) (by simp) (by simp) (by simp)
        | C =>
          have hre : restartEv s.x (.unlock .C) = false := by simp [restartEv]
          have h1 : gNpc s (.unlock .C) = s.npc := by simp [gNpc, hre]
          have hn := hN.2.2 hre (by simp)
          have hu := hR.2.2.2.2 rfl
          have hf := facts_of hi
          rw [h1]
          by_cases hj : s.x.cpc = .jUnlock
          · have h2 : gLpc s (.unlock .C) = .jPub := by simp [gLpc, hj]
            rw [h2]
            have hb : ccl s.x.cpc = .inJ := by rw [hj]; rfl
            rcases hn with hn | ⟨_, _, hn, _⟩
            · exact inv_callret hi hr hn (Or.inr (Or.inr (Or.inr (Or.inl ⟨rfl, hb, hu.1 hj⟩))))
            · rw [hb] at hn; exact absurd hn (by decide)
          · by_cases hrr : s.x.cpc = .rUnlock
            · have h2 : gLpc s (.unlock .C) = .rRet := by simp [gLpc, hrr]
              rw [h2]
              have hb : ccl s.x.cpc = .rPost := by rw [hrr]; rfl
              rcases hn with hn | ⟨_, _, hn, _⟩
              · exact inv_callret hi hr hn (Or.inr (Or.inr (Or.inr (Or.inr (Or.inl ⟨rfl, hb, hu.2.1 hrr⟩)))))
              · rw [hb] at hn; exact absurd hn (by decide)
            · have h2 : gLpc s (.unlock .C) = s.lpc := by
                unfold gLpc
                split <;> simp_all
              rw [h2]
              refine inv_plain hi hr hn (Or.inl (hu.2.2 hj hrr))
      | wait a =>
        have hre : restartEv s.x (.wait a) = false := by simp [restartEv]
        have h1 : gNpc s (.wait a) = s.npc := by simp [gNpc, hre]
        have h2 : gLpc s (.wait a) = s.lpc := by simp [gLpc]
        rw [h1, h2]
        exact inv_ctx_plain hi hc hre (by simp) (by simp) (by simp) (by simp)
      | relock a =>
        have hre : restartEv s.x (.relock a) = false := by simp [restartEv]
        have h1 : gNpc s (.relock a) = s.npc := by simp [gNpc, hre]
        have h2 : gLpc s (.relock a) = s.lpc := by simp [gLpc]
        rw [h1, h2]
        exact inv_ctx_plain hi hc hre (by simp) (by simp) (by simp) (by simp)
      | signal a w =>
        have hre : restartEv s.x (.signal a w) = false := by simp [restartEv]
        have h1 : gNpc s (.signal a w) = s.npc := by simp [gNpc, hre]
        have h2 : gLpc s (.signal a w) = s.lpc := by simp [gLpc]
        rw [h1, h2]
        exact inv_ctx_plain hi hc hre (by simp) (by simp) (by simp) (by simp)
      | spur a =>
        have hre : restartEv s.x (.spur a) = false := by simp [restartEv]
        have h1 : gNpc s (.spur a) = s.npc := by simp [gNpc, hre]
        have h2 : gLpc s (.spur a) = s.lpc := by simp [gLpc]
        rw [h1, h2]
        exact inv_ctx_plain hi hc hre (by simp) (by simp) (by simp) (by simp)
      | call op =>
        have hre : restartEv s.x (.call op) = false := by simp [restartEv]
        have h1 : gNpc s (.call op) = s.npc := by simp [gNpc, hre]
        have h2 : gLpc s (.call op) = s.lpc := by simp [gLpc]
        rw [h1, h2]
        have hn := hN.2.2 hre (by simp)
        cases op with
        | join =>
          have hl : s.lpc = .jCtx := by simpa [ctxGuard] using hg
          have hb := hR.1 rfl
          rcases hn with hn | ⟨_, _, hn, _⟩
          · exact inv_callret (l' := s.lpc) hi hr hn (Or.inl ⟨rfl, hl, hb.1, hb.2⟩)
          · rcases hb.1 with h | h <;> rw [h] at hn <;> exact absurd hn (by decide)
        | revive =>
          have hl : s.lpc = .rCtx := by simpa [ctxGuard] using hg
          have hb := hR.2.1 rfl
          rcases hn with hn | ⟨_, _, hn, _⟩
          · exact inv_callret (l' := s.lpc) hi hr hn (Or.inr (Or.inl ⟨rfl, hl, hb.1, hb.2⟩))
          · rw [hb.1] at hn; exact absurd hn (by decide)
        | free =>
          have hl : s.lpc = .fCtx := by simpa [ctxGuard] using hg
          have hb := hR.2.2.1 rfl
          rcases hn with hn | ⟨_, _, hn, _⟩
          · exact inv_callret (l' := s.lpc) hi hr hn (Or.inr (Or.inr (Or.inl ⟨rfl, hl, hb.1, hb.2⟩)))
          · rw [hb.1] at hn; exact absurd hn (by decide)
      | pjoin =>
        have hre : restartEv s.x .pjoin = false := by simp [restartEv]
        have h1 : gNpc s .pjoin = s.npc := by simp [gNpc, hre]
        have h2 : gLpc s .pjoin = .fRet := by simp [gLpc]
        rw [h1, h2]
        have hn := hN.2.2 hre (by simp)
        have hb := hR.2.2.2.1 rfl
        rcases hn with hn | ⟨_, _, hn, _⟩
        · exact inv_callret hi hr hn (Or.inr (Or.inr (Or.inr (Or.inr (Or.inr ⟨rfl, hb.1, hb.2⟩)))))
        · rw [hb.1] at hn; exact absurd hn (by decide)
    · simp at hs
  · simp at hs

theorem inv_step (s : St) (e : Ev) (s' : St) (hi : Inv s) (hs : step s e = some s') : Inv s' := by
  cases e with
  | call op => cases op with
    | join => exact inv_callJoin hi hs
    | revive => exact inv_callRevive hi hs
    | free => exact inv_callFree hi hs
  | ret op => cases op with
    | join => exact inv_retJoin hi hs
    | revive => exact inv_retRevive hi hs
    | free => exact inv_retFree hi hs
  | jFin => exact inv_jFin hi hs
  | jLoadM t => exact inv_jLoadM hi hs
  | jSetJ => exact inv_jSetJ hi hs
  | jPub => exact inv_jPub hi hs
  | rLoadM t => exact inv_rLoadM hi hs
  | rReset => exact inv_rReset hi hs
  | rReady => exact inv_rReady hi hs
  | rClear => exact inv_rClear hi hs
  | rPush => exact inv_rPush hi hs
  | rPub => exact inv_rPub hi hs
  | ctx e => exact inv_ctx hi hs
  | cancel => exact inv_cancel hi hs
  | getState t => exact inv_getState hi hs
  | push => exact inv_push hi hs
  | nRoot c => exact inv_nRoot hi hs
  | nLoadReq j c => exact inv_nLoadReq hi hs
  | nSetFin => exact inv_nSetFin hi hs
  | nSetExit => exact inv_nSetExit hi hs
  | nRun => exact inv_nRun hi hs
  | nRunExit => exact inv_nRunExit hi hs
  | nStop => exact inv_nStop hi hs
  | nMsf b => exact inv_nMsf hi hs
  | nMTerm => exact inv_nMTerm hi hs
  | nPubTerm => exact inv_nPubTerm hi hs

theorem inv_run (tr : List Ev) (s : St) (h : machine.run init tr = some s) : Inv s :=
  Machine.invariant_run machine Inv inv_step tr init s inv_init h

theorem inv_run_from (tr : List Ev) (s s' : St) (hi : Inv s) (h : machine.run s tr = some s') : Inv s' :=
  Machine.invariant_run machine Inv inv_step tr s s' hi h

end ArgoVerif.Model.XsLife
