import ArgoVerif.Proofs.PopWaitF
/- Proofs.PopWaitF2 — the "no lost wake-up" invariant is inductive. -/
namespace ArgoVerif.Model.PopWait
open ArgoVerif
set_option maxHeartbeats 1000000

theorem invF_init : InvF init := by intro h; simp [init] at h

theorem pendSig_zero_of_owner {k : Kind} {s : St} (h : InvA k s) {a : Actor} (ho : HasLock (s.pc a)) (hp : s.pc a ≠ .fpSig) :
    pendSig s = 0 := by
  have : s.owner = some a := (h.ownerIff a).mpr ho
  simp [pendSig, this, hp]

theorem pendSig_one_of_pc {k : Kind} {s : St} (h : InvA k s) {a : Actor} (hp : s.pc a = .fpSig) : pendSig s = 1 :=
  (pendSig_iff h).mpr ⟨a, hp⟩

theorem waiters_nil_of_poll {s : St} (h : InvA .poll s) : s.waiters = [] := by
  apply List.eq_nil_iff_forall_not_mem.mpr
  intro a ha
  have := (h.waitIff a).mp ha
  have hk := h.kindP rfl a
  rw [this] at hk; exact hk trivial

theorem invF_step0 (k : Kind) (s s' : St) (e : Ev) (hA : InvA k s) (h : InvF s) (hs : step0 k s e = some s') : InvF s' := by
  have hA' := invA_step0 k s s' e hA hs
  cases e with
  | link a =>
    simp only [step0, stepLink] at hs
    split at hs
    · rename_i u hpc _
      have hk : k = .poll := kind_poll hA (a := a) (by simp [hpc, PollPc])
      subst hk
      intro hw; exact absurd (waiters_nil_of_poll hA') hw
    · rename_i u hpc _
      have h0 := pendSig_zero_of_owner hA (a := a) (by simp [hpc, HasLock]) (by simp [hpc])
      have h1 : pendSig s' = 1 := pendSig_one_of_pc hA' (a := a) (by cases hs; simp [setPc, upd])
      cases hs
      intro hw
      have := h (by simpa [setPc, linkQ] using hw)
      simp only [setPc, linkQ, List.length_append, List.length_singleton] at h1 ⊢
      rw [h1]; omega
    · cases hs
  | take a r =>
    simp only [step0] at hs
    obtain ⟨p, hp, hcase⟩ := take_cases s s' a r hs
    have hown : HasLock (s.pc a) := by rcases hp with ⟨e, _⟩ | ⟨e, _⟩ | ⟨e, _⟩ <;> simp [e, HasLock]
    have hnf : s.pc a ≠ .fpSig := by rcases hp with ⟨e, _⟩ | ⟨e, _⟩ | ⟨e, _⟩ <;> simp [e]
    have h0 := pendSig_zero_of_owner hA hown hnf
    rcases hcase with ⟨htf, _, rfl⟩ | ⟨x, rest, htf, _, rfl⟩
    · have hq := takeFrom_none htf
      intro _; simp [setPc, hq]
    · intro hw
      have := h (by simpa [setPc] using hw)
      have hl := (takeFrom_some htf).2.1
      have he : s.woken.length ≤ (s.woken.erase a).length + 1 := by
        rw [List.length_erase]; split <;> omega
      simp only [setPc]
      omega
  | condWait a dl =>
    simp only [step0, stepCondWait] at hs
    split at hs
    · rename_i hg
      have hq := hA.sawEmpty a (Or.inr hg.1)
      cases hs
      intro _; simp [dropL, setPc, hq]
    · cases hs
  | signal a w =>
    simp only [step0, stepSignal] at hs
    split at hs
    · cases hs
    · rename_i hpc
      have hpc : s.pc a = .fpSig := by simpa using hpc
      have h1 := pendSig_one_of_pc hA hpc
      split at hs
      · split at hs
        · rename_i hw; cases hs
          intro hw'; exact absurd hw (by simpa [setPc] using hw')
        · cases hs
      · rename_i w
        split at hs
        · rename_i hw
          cases hs
          intro hw'
          have hne : s.waiters ≠ [] := fun e => by rw [e] at hw; simp at hw
          have := h hne
          simp only [setPc, List.length_append, List.length_singleton]
          omega
        · cases hs
  | timeout a =>
    have hf := pendSig_frame hA hA' (step0_frameSig k s s' _ hs (by simp) (by simp) (by simp))
    simp only [step0, stepTimeout] at hs
    split at hs
    · cases hs
      intro hw
      have hne : s.waiters ≠ [] := fun e => by simp [setPc, e] at hw
      have := h hne
      rw [hf]; simpa [setPc] using this
    · cases hs
  | spurious a =>
    have hf := pendSig_frame hA hA' (step0_frameSig k s s' _ hs (by simp) (by simp) (by simp))
    simp only [step0, stepSpurious] at hs
    split at hs
    · cases hs
      intro hw
      have hne : s.waiters ≠ [] := fun e => by simp [setPc, e] at hw
      have := h hne
      rw [hf]; simpa [setPc] using this
    · cases hs
  | call a c | ret a r | advance v | tas a o | loadLock a v | loadEmpty a v | clear a | clock a v | sleepDone a
  | mlock a | munlock a =>
    have hq := step0_frameQ k s s' _ hs (by simp) (by simp)
    have hw := step0_frameW k s s' _ hs (by simp) (by simp) (by simp) (by simp) (by simp)
    have hf := pendSig_frame hA hA' (step0_frameSig k s s' _ hs (by simp) (by simp) (by simp))
    intro hne
    rw [hw.1] at hne
    rw [hq.1, hw.2, hf]; exact h hne

theorem invF_step (k : Kind) (s s' : St) (e : Ev) (hA : InvA k s) (h : InvF s) (hs : step k s e = some s') : InvF s' := by
  unfold step at hs
  cases h0 : step0 k s e with
  | none => simp [h0] at hs
  | some s1 =>
    simp only [h0, Option.map_some, Option.some.injEq] at hs
    subst hs
    have := invF_step0 k s s1 e hA h h0
    cases hao : actorOf e <;> exact this

theorem invAF_reachable (k : Kind) (s : St) (h : (machine k).Reachable s) : InvA k s ∧ InvF s :=
  Machine.invariant_reachable (machine k) (fun s => InvA k s ∧ InvF s) ⟨invA_init k, invF_init⟩
    (fun s e s' hi hs => ⟨invA_step k s s' e hi.1 hs, invF_step k s s' e hi.1 hi.2 hs⟩) s h

end ArgoVerif.Model.PopWait
